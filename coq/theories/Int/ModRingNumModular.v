(** C13 - the calls into num-modular 0.6.5 made by the single / double word rings, with proved components
    instead of contracts:
      div_rem_2by1 / div_rem_3by2 := the as-is models of C02 (DivNumModular.v: Moller-Granlund reciprocal
        division word by word), proved = (a / d, a mod d) under the normalisation precondition in
        DivNumModularProofs.v;
      invm (src/prim.rs impl_unary_uprim!: extended Euclid with the cofactor kept modulo m, via subm / mulm /
        negm) := the as-is model below, proved here = the specification's inverse for every m >= 1.
    Consequence: [externals_ok] holds for these models given only the contract of dashu's multi-word gcd_ext
    (gcd_ext_word / gcd_ext_dword / gcd_ext_in_place: Lehmer's algorithm, not modelled). *)
From Dashu Require Import Base.Prelude Base.Words Int.DivNumModular Int.DivWordProofs Int.DivContracts Int.DivNumModularProofs
  Int.ModRingSpec Int.ModRingSpecProofs Int.ModRingPowModel Int.ModRingModel Int.ModRingProofs Int.ModRingOpsProofs
  Int.ModRingMain Int.ModRingExpr Int.ModRingNumModularDefs.
Open Scope Z_scope.

(** the transcription of negm / subm / mulm / invm lives in ModRingNumModularDefs.v *)
Lemma nm_negm_spec x m : 0 < m -> nm_negm x m = (- x) mod m.
Proof.
  intros Hm. unfold nm_negm. pose proof (Z.mod_pos_bound x m Hm) as Hb.
  destruct (Z.eqb_spec (x mod m) 0) as [E|N].
  - symmetry. apply Z.mod_opp_l_z; [lia | exact E].
  - rewrite Z.mod_opp_l_nz by lia. reflexivity.
Qed.

Lemma nm_subm_spec a b m : 0 < m -> nm_subm a b m = (a - b) mod m.
Proof.
  intros Hm. unfold nm_subm. destruct (Z.leb_spec b a); [reflexivity|].
  rewrite nm_negm_spec by exact Hm. replace (a - b) with (0 - (b - a)) by lia.
  rewrite <- (Zminus_mod_idemp_r 0 (b - a) m). f_equal.
Qed.

Lemma nm_invm_loop_eq fuel : forall m last_r r last_t t, 0 < m -> 0 <= r -> 0 <= last_t < m -> 0 <= t < m ->
  nm_invm_loop fuel m last_r r last_t t = egcd_loop fuel m last_r r last_t t.
Proof.
  induction fuel as [|f IH]; intros m last_r r last_t t Hm Hr Hlt Ht; cbn [nm_invm_loop egcd_loop]; [reflexivity|].
  destruct (Z.eqb_spec r 0) as [->|N]; [reflexivity|].
  replace (0 <? r) with true by (symmetry; apply Z.ltb_lt; lia).
  rewrite nm_subm_spec by exact Hm. unfold nm_mulm. rewrite Zminus_mod_idemp_r.
  apply IH; [exact Hm | apply Z.mod_pos_bound; lia | exact Ht | apply Z.mod_pos_bound; lia].
Qed.

Lemma egcd_loop_g_pos fuel : forall m last_r r last_t t g u, 0 < last_r -> 0 <= r ->
  egcd_loop fuel m last_r r last_t t = Ok (g, u) -> 0 < g.
Proof.
  induction fuel as [|f IH]; intros m last_r r last_t t g u Hl Hr E; cbn [egcd_loop] in E; [discriminate|].
  destruct (Z.eqb_spec r 0) as [->|N]; [inversion E; subst; exact Hl|].
  eapply IH; [| |exact E]; [lia | apply Z.mod_pos_bound; lia].
Qed.

(** invm = the inverse the specification defines, for every modulus >= 1 and every x >= 0; never out of fuel *)
Theorem nm_invm_asis_correct x m : 0 < m -> 0 <= x -> nm_invm_asis x m = Ok (inv_spec m x).
Proof.
  intros Hm Hx. unfold nm_invm_asis.
  assert ((if m <=? x then x mod m else x) = x mod m) as Ex
    by (destruct (Z.leb_spec m x); [reflexivity | rewrite Z.mod_small by lia; reflexivity]).
  rewrite Ex. destruct (inv_euclid_ok m x Hm) as (o & Eo & _).
  unfold inv_spec. rewrite Eo. unfold inv_euclid in Eo.
  destruct (Z.eq_dec m 1) as [->|M1].
  - rewrite Z.mod_1_r in *. unfold egcd_fuel in *. cbn [nm_invm_loop egcd_loop Z.ltb Z.eqb Z.compare] in *.
    inversion Eo; subst. reflexivity.
  - rewrite nm_invm_loop_eq by (try lia; apply Z.mod_pos_bound; lia).
    rewrite (Z.mod_small 1 m) in Eo by lia.
    destruct (egcd_loop (egcd_fuel m) m m (x mod m) 0 1) as [[g t]| | |] eqn:El; try discriminate.
    assert (0 < g) as Hg by (eapply egcd_loop_g_pos; [| |exact El]; [lia | apply Z.mod_pos_bound; lia]).
    inversion Eo; subst. f_equal.
    destruct (Z.eqb_spec g 1) as [->|N]; [reflexivity|]. replace (1 <? g) with true by (symmetry; apply Z.ltb_lt; lia). reflexivity.
Qed.

Corollary nm_finv_correct x m : 0 < m -> 0 <= x -> nm_finv x m = inv_spec m x.
Proof. intros Hm Hx. unfold nm_finv. rewrite nm_invm_asis_correct by assumption. reflexivity. Qed.

(** ---------------- the remaining contract: dashu's multi-word extended gcd ---------------- *)
Definition gcd_ext_ok (fgcd : Z -> Z -> Z * Z * sign) : Prop :=
  forall lhs rhs, 0 < rhs < lhs ->
    let '(g, b, s) := fgcd lhs rhs in
    g = Z.gcd lhs rhs /\ 0 <= b < lhs /\ (g = 1 -> (rhs * signed s b) mod lhs = 1 mod lhs).

(** num-modular's reciprocal divisions and invm as transcribed satisfy the contracts of the modular code *)
Theorem externals_nm w fgcd : 2 <= w -> gcd_ext_ok fgcd -> externals_ok w (nm2by1 w) (nm3by2 w) nm_finv fgcd.
Proof.
  intros Hw Hg.
  pose proof (B_even w Hw) as Ev. pose proof (BB_half w Hw) as Ev2.
  assert (0 < 2 ^ w) as HB by (apply Z.pow_pos_nonneg; lia).
  constructor.
  - intros d a Hd Ha Hhi. apply (nm2by1_contract w ltac:(lia)).
    + unfold norm1, Words.B. lia.
    + split; [exact Ha|]. unfold Words.B.
      pose proof (Z.div_mod a (2 ^ w) ltac:(lia)). pose proof (Z.mod_pos_bound a (2 ^ w) HB). nia.
  - intros d lo hi Hd Hlo Hhi. apply (nm3by2_contract w ltac:(lia)); unfold norm2, Words.B; try lia.
  - intros x m Hm Hx. rewrite nm_finv_correct by lia. pose proof (inv_spec_ok m x Hm) as H.
    destruct (inv_spec m x); [apply H | exact H].
  - exact Hg.
Qed.

(** an extended gcd meeting the contract exists (the instance the oracle runs) *)
Lemma ex_gcd_ext_ok : gcd_ext_ok ex_gcd_ext.
Proof.
  intros lhs rhs H. unfold ex_gcd_ext. pose proof (inv_spec_ok lhs rhs ltac:(lia)) as Hs. destruct (inv_spec lhs rhs) as [t|].
  - destruct Hs as [[Ht Et] G]. split; [rewrite Z.gcd_comm; symmetry; exact G|]. split; [exact Ht|].
    intros _. rewrite <- Et. f_equal; try (unfold signed, sgnz; lia).
  - split; [reflexivity|]. split; [lia|]. intros G. rewrite Z.gcd_comm in G. contradiction.
Qed.

(** ---------------- unconditional corollaries: no [externals_ok] hypothesis ---------------- *)
Section Unconditional.
Variable w : Z.
Hypothesis w_ge : 2 <= w.
Local Notation f2 := (nm2by1 w).
Local Notation f3 := (nm3by2 w).

Let E0 := externals_nm w ex_gcd_ext w_ge ex_gcd_ext_ok.

(** ConstDivisor::new + reduce + residue with num-modular's division as transcribed: every modulus >= 1, every integer *)
Theorem nm_reduce id m x : 1 <= m ->
  exists r e, new_ring w id m = Ok r /\ ring_wf w r /\ r_m r = m /\ r_id r = id /\
    reduce_asis w f2 f3 r x = Ok e /\ rep r x e /\
    residue_asis e = Ok (x mod m) /\ modulus_asis e = m /\ 0 <= x mod m < m.
Proof. exact (asis_reduce w f2 f3 nm_finv ex_gcd_ext w_ge E0 id m x). Qed.

Theorem nm_ring_ops r x y a b : ring_wf w r -> rep r x a -> rep r y b ->
  (exists c, add_asis w a b = Ok c /\ rep r (x + y) c) /\
  (exists c, sub_asis w a b = Ok c /\ rep r (x - y) c) /\
  (exists c, mul_asis w f2 f3 a b = Ok c /\ rep r (x * y) c) /\
  (exists c, neg_asis a = Ok c /\ rep r (- x) c) /\
  (exists c, dbl_asis w a = Ok c /\ rep r (2 * x) c) /\
  (exists c, sqr_asis w f2 f3 a = Ok c /\ rep r (x * x) c) /\
  eq_asis a b = Ok (x mod r_m r =? y mod r_m r).
Proof. exact (asis_ring_ops w f2 f3 nm_finv ex_gcd_ext w_ge E0 r x y a b). Qed.

Theorem nm_pow r x a e : ring_wf w r -> rep r x a -> 0 <= e ->
  exists c, pow_asis w f2 f3 a e = Ok c /\ rep r (x ^ e) c.
Proof. exact (asis_pow w f2 f3 nm_finv ex_gcd_ext w_ge E0 r x a e). Qed.

(** inverse and division: single / double word rings need nothing further (invm is proved); the multi-word ring
    calls dashu's gcd_ext, which enters by its contract *)
Theorem nm_inv fgcd r x a : gcd_ext_ok fgcd -> ring_wf w r -> rep r x a ->
  (exists o, inv_asis w nm_finv fgcd a = Ok o /\
     match o with
     | Some c => exists v, rep r v c /\ is_inverse (r_m r) x (v mod r_m r) /\ Z.gcd x (r_m r) = 1
     | None => Z.gcd x (r_m r) <> 1
     end) /\
  ((exists c, inv_asis w nm_finv fgcd a = Ok (Some c)) <-> Z.gcd x (r_m r) = 1).
Proof. intros Hg. exact (asis_inv w f2 f3 nm_finv fgcd w_ge (externals_nm w fgcd w_ge Hg) r x a). Qed.

Theorem nm_div fgcd r x y a b : gcd_ext_ok fgcd -> ring_wf w r -> rep r x a -> rep r y b ->
  match div_spec (r_m r) x y with
  | Ok q => exists c, div_asis w f2 f3 nm_finv fgcd a b = Ok c /\ rep r q c
  | Panic p => div_asis w f2 f3 nm_finv fgcd a b = Panic p
  | _ => False
  end.
Proof. intros Hg. exact (asis_div w f2 f3 nm_finv fgcd w_ge (externals_nm w fgcd w_ge Hg) r x y a b). Qed.

(** in the single and double word rings the inverse does not touch gcd_ext at all: unconditional *)
Theorem nm_inv_small fgcd fgcd' a : r_kind (e_ring a) <> KLarge -> inv_asis w nm_finv fgcd a = inv_asis w nm_finv fgcd' a.
Proof. intros Hk. unfold inv_asis. destruct (r_kind (e_ring a)); [reflexivity | reflexivity | contradiction]. Qed.

Theorem nm_inv_small_ok fgcd r x a : r_kind r <> KLarge -> ring_wf w r -> rep r x a ->
  exists o, inv_asis w nm_finv fgcd a = Ok o /\
     match o with
     | Some c => exists v, rep r v c /\ is_inverse (r_m r) x (v mod r_m r) /\ Z.gcd x (r_m r) = 1
     | None => Z.gcd x (r_m r) <> 1
     end.
Proof.
  intros Hk Hwf Ha. rewrite (nm_inv_small fgcd ex_gcd_ext a) by (destruct Ha as [-> _]; exact Hk).
  exact (proj1 (nm_inv ex_gcd_ext r x a ex_gcd_ext_ok Hwf Ha)).
Qed.

Theorem nm_expr fgcd r e : gcd_ext_ok fgcd -> ring_wf w r -> exps_ok e ->
  match eval_spec (r_m r) e with
  | Ok q => exists c, eval_asis w f2 f3 nm_finv fgcd r e = Ok c /\ rep r q c
  | Panic p => eval_asis w f2 f3 nm_finv fgcd r e = Panic p
  | _ => False
  end.
Proof. intros Hg. exact (eval_asis_ok w f2 f3 nm_finv fgcd w_ge (externals_nm w fgcd w_ge Hg) r e). Qed.

End Unconditional.

(** non-vacuity / regression: invm as transcribed on the cases of num-modular's own test *)
Example nm_invm_examples :
  nm_invm_asis 5 11 = Ok (Some 9) /\ nm_invm_asis 3 5000 = Ok (Some 1667) /\ nm_invm_asis 6 9 = Ok None /\
  nm_invm_asis 0 1 = Ok (Some 0) /\ nm_invm_asis (2 ^ 64 + 1) (2 ^ 127 - 1) = Ok (inv_spec (2 ^ 127 - 1) (2 ^ 64 + 1)).
Proof. vm_compute. repeat split; reflexivity. Qed.
