(** C08: import of IEEE binary floats (TryFrom<f32/f64> for Repr<2> and FBig<R,2>) is exact for every
    finite bit pattern.  The decoder f32::decode / f64::decode (base/src/bit.rs) is C06's as-is model
    [decode_asis], proved equal to the format's definition [decode_spec] in Conv/ConvDecodeProofs.v;
    the import builds Repr::new(man, exp) (normalisation) with precision bit_len(man). *)
From Coq Require Import ZArith Reals Lia.
From Flocq Require Import Core.Core IEEE754.Binary IEEE754.Bits.
From Dashu Require Import Base.Prelude Float.RoundSpec Float.Contract Float.Model Float.ModelProof
  Float.TextIoSpec Conv.ConvSpec Conv.ConvModel Conv.ConvDecodeProofs Float.IeeeImportModel.
Open Scope Z_scope.

Definition ieee_of_decoded (d : decoded) : ieee :=
  match d with DFin m e => IFinite m e | DInf n => IInf n | DNan => INan end.

(** the format definition used by this check and the one of C06 are the same function *)
Lemma ieee_decode_is_decode_spec mw ew bits : 1 <= mw -> 1 <= ew -> 0 <= bits < 2 ^ (mw + ew + 1) ->
  ieee_decode mw ew bits =
  ieee_of_decoded (decode_spec {| prec := mw + 1; emin := 1 - (2 ^ (ew - 1) - 1) - mw; ebits := ew |} bits).
Proof.
  intros Hmw Hew Hb. unfold ieee_decode, decode_spec. cbn [prec emin ebits].
  replace (mw + 1 - 1) with mw by lia.
  assert (Hp : 0 < 2 ^ (mw + ew)) by (apply Z.pow_pos_nonneg; lia).
  assert (Hneg : (0 <? (bits / 2 ^ (mw + ew)) mod 2) = (2 ^ (ew + mw) <=? bits)).
  { replace (ew + mw) with (mw + ew) by lia.
    replace (mw + ew + 1) with (Z.succ (mw + ew)) in Hb by lia. rewrite Z.pow_succ_r in Hb by lia.
    destruct (Z.leb_spec (2 ^ (mw + ew)) bits) as [H|H].
    - assert (bits / 2 ^ (mw + ew) = 1) as -> by (symmetry; apply (Z.div_unique bits (2 ^ (mw + ew)) 1 (bits - 2 ^ (mw + ew))); lia).
      reflexivity.
    - rewrite Z.div_small by lia. reflexivity. }
  rewrite Hneg.
  destruct ((bits / 2 ^ mw) mod 2 ^ ew =? 2 ^ ew - 1).
  - destruct (bits mod 2 ^ mw =? 0); reflexivity.
  - destruct ((bits / 2 ^ mw) mod 2 ^ ew =? 0); cbn [ieee_of_decoded]; f_equal; lia.
Qed.

Lemma F32_shape : F32 = {| prec := 23 + 1; emin := 1 - (2 ^ (8 - 1) - 1) - 23; ebits := 8 |}.
Proof. reflexivity. Qed.
Lemma F64_shape : F64 = {| prec := 52 + 1; emin := 1 - (2 ^ (11 - 1) - 1) - 52; ebits := 11 |}.
Proof. reflexivity. Qed.

(** TryFrom<f32> / TryFrom<f64>, as written = the specification, for every bit pattern *)
Theorem from_f32_asis_spec bits : 0 <= bits < 2 ^ 32 -> from_ieee_asis P32 bits = from_ieee_spec 23 8 bits.
Proof.
  intros Hb. unfold from_ieee_asis, from_ieee_spec.
  rewrite decode_f32_correct by lia. rewrite (ieee_decode_is_decode_spec 23 8 bits) by (cbn; lia).
  rewrite <- F32_shape. destruct (decode_spec F32 bits); reflexivity.
Qed.

Theorem from_f64_asis_spec bits : 0 <= bits < 2 ^ 64 -> from_ieee_asis P64 bits = from_ieee_spec 52 11 bits.
Proof.
  intros Hb. unfold from_ieee_asis, from_ieee_spec.
  rewrite decode_f64_correct by lia. rewrite (ieee_decode_is_decode_spec 52 11 bits) by (cbn; lia).
  rewrite <- F64_shape. destruct (decode_spec F64 bits); reflexivity.
Qed.

(** the specification is exact: the imported float s * 2^e is the value m * 2^x of the pattern (no
    rounding at all), it is normalised, and it fits the precision the import declares *)
Theorem from_ieee_spec_exact mw ew bits m x s e p :
  ieee_decode mw ew bits = IFinite m x -> from_ieee_spec mw ew bits = Some (s, e, p) ->
  (m = 0 -> s = 0 /\ e = 0) /\
  (m <> 0 -> s mod 2 <> 0 /\ exists k, 0 <= k /\ e = x + k /\ m = s * 2 ^ k) /\
  p = bit_len m /\ dlen 2 s <= p.
Proof.
  intros Hd Hs. unfold from_ieee_spec in Hs. rewrite Hd in Hs.
  pose proof (normalize_spec 2 ltac:(lia) m x) as N. destruct (normalize 2 m x) as [s' e'].
  injection Hs as -> -> <-. destruct N as [N0 N1].
  split; [exact N0|]. split.
  - intros Hm. destruct (N1 Hm) as (_ & Hodd & k & Hk & He & Hv). split; [exact Hodd|]. exists k. auto.
  - split; [reflexivity|]. unfold bit_len. destruct (Z.eqb_spec m 0) as [->|Hm].
    + destruct (N0 eq_refl) as [-> _]. rewrite dlen_zero. lia.
    + destruct (N1 Hm) as (Hs0 & _ & k & Hk & _ & Hv).
      destruct (dlen_spec 2 ltac:(lia) s Hs0) as [[L _] _].
      pose proof (Z.log2_spec (Z.abs m) ltac:(lia)) as [_ U].
      assert (Hpk : 1 <= 2 ^ k) by (pose proof (Z.pow_pos_nonneg 2 k ltac:(lia) Hk); lia).
      assert (Habs : Z.abs s <= Z.abs m) by (rewrite Hv, Z.abs_mul, (Z.abs_eq (2 ^ k)) by lia; nia).
      assert (2 ^ (dlen 2 s - 1) < 2 ^ Z.succ (Z.log2 (Z.abs m))) by lia.
      pose proof (Z.log2_nonneg (Z.abs m)). apply Z.pow_lt_mono_r_iff in H; lia.
Qed.


(* ------------------------------------------------------------------------------------------ *)
(** * the same statement against Flocq's definition of the interchange formats: the real number
    denoted by the bit pattern (Flocq.IEEE754.Bits.b32_of_bits / b64_of_bits, B2R) is the value of
    the imported float *)

Lemma top_bit_flag bits k : 0 < k -> 0 <= bits < 2 * k -> (0 <? (bits / k) mod 2) = (k <=? bits).
Proof.
  intros Hk Hb. destruct (Z.leb_spec k bits) as [H|H].
  - assert (bits / k = 1) as -> by (symmetry; apply (Z.div_unique bits k 1 (bits - k)); lia). reflexivity.
  - rewrite Z.div_small by lia. reflexivity.
Qed.

Lemma F2R_signed (sx : bool) (a e : Z) :
  F2R (Float radix2 (cond_Zopp sx a) e) = (IZR (if sx then - a else a) * bpow radix2 e)%R.
Proof. unfold F2R. cbn [Fnum Fexp]. destruct sx; reflexivity. Qed.

Theorem ieee_decode_flocq_f32 bits m x : 0 <= bits < 2 ^ 32 -> ieee_decode 23 8 bits = IFinite m x ->
  B2R 24 128 (b32_of_bits bits) = (IZR m * bpow radix2 x)%R.
Proof.
  intros Hb Hd. unfold b32_of_bits, binary_float_of_bits. rewrite B2R_FF2B.
  unfold binary_float_of_bits_aux, split_bits. unfold ieee_decode in Hd.
  rewrite (top_bit_flag bits (2 ^ (23 + 8))) in Hd by (cbn; lia).
  change (2 ^ (23 + 8)) with (2 ^ 23 * 2 ^ 8) in Hd.
  change (Zpower 2 23) with (2 ^ 23). change (Zpower 2 8) with (2 ^ 8).
  replace (Zle_bool (2 ^ 23 * 2 ^ 8) bits) with (2 ^ 23 * 2 ^ 8 <=? bits) by reflexivity.
  set (sx := 2 ^ 23 * 2 ^ 8 <=? bits) in *.
  set (fr := bits mod 2 ^ 23) in *. set (ex := (bits / 2 ^ 23) mod 2 ^ 8) in *.
  assert (Hfr : 0 <= fr < 2 ^ 23) by (apply Z.mod_pos_bound; cbn; lia). clearbody fr ex sx.
  destruct (Z.eqb_spec ex (2 ^ 8 - 1)) as [E1|E1].
  - destruct (fr =? 0); discriminate.
  - destruct (Z.eqb_spec ex 0) as [E0|E0].
    + injection Hd as <- <-. rewrite E0. cbn [Zeq_bool Z.compare].
      destruct fr as [|px|px] eqn:Efr; [| |lia].
      * cbn [FF2R]. destruct sx; cbn; ring.
      * cbn [FF2R]. rewrite F2R_signed. reflexivity.
    + injection Hd as <- <-.
      destruct (Zeq_bool_spec ex 0) as [|_]; [contradiction|].
      destruct (Zeq_bool_spec ex (2 ^ 8 - 1)) as [|_]; [contradiction|].
      destruct (fr + 2 ^ 23) as [|px|px] eqn:Es; [lia| |lia].
      cbn [FF2R]. rewrite F2R_signed. f_equal; [f_equal; change (Z.pow_pos 2 23) with (2 ^ 23); destruct sx; lia | f_equal; cbn; lia].
Qed.

Theorem ieee_decode_flocq_f64 bits m x : 0 <= bits < 2 ^ 64 -> ieee_decode 52 11 bits = IFinite m x ->
  B2R 53 1024 (b64_of_bits bits) = (IZR m * bpow radix2 x)%R.
Proof.
  intros Hb Hd. unfold b64_of_bits, binary_float_of_bits. rewrite B2R_FF2B.
  unfold binary_float_of_bits_aux, split_bits. unfold ieee_decode in Hd.
  rewrite (top_bit_flag bits (2 ^ (52 + 11))) in Hd by (cbn; lia).
  change (2 ^ (52 + 11)) with (2 ^ 52 * 2 ^ 11) in Hd.
  change (Zpower 2 52) with (2 ^ 52). change (Zpower 2 11) with (2 ^ 11).
  replace (Zle_bool (2 ^ 52 * 2 ^ 11) bits) with (2 ^ 52 * 2 ^ 11 <=? bits) by reflexivity.
  set (sx := 2 ^ 52 * 2 ^ 11 <=? bits) in *.
  set (fr := bits mod 2 ^ 52) in *. set (ex := (bits / 2 ^ 52) mod 2 ^ 11) in *.
  assert (Hfr : 0 <= fr < 2 ^ 52) by (apply Z.mod_pos_bound; cbn; lia). clearbody fr ex sx.
  destruct (Z.eqb_spec ex (2 ^ 11 - 1)) as [E1|E1].
  - destruct (fr =? 0); discriminate.
  - destruct (Z.eqb_spec ex 0) as [E0|E0].
    + injection Hd as <- <-. rewrite E0. cbn [Zeq_bool Z.compare].
      destruct fr as [|px|px] eqn:Efr; [| |lia].
      * cbn [FF2R]. destruct sx; cbn; ring.
      * cbn [FF2R]. rewrite F2R_signed. reflexivity.
    + injection Hd as <- <-.
      destruct (Zeq_bool_spec ex 0) as [|_]; [contradiction|].
      destruct (Zeq_bool_spec ex (2 ^ 11 - 1)) as [|_]; [contradiction|].
      destruct (fr + 2 ^ 52) as [|px|px] eqn:Es; [lia| |lia].
      cbn [FF2R]. rewrite F2R_signed. f_equal; [f_equal; change (Z.pow_pos 2 52) with (2 ^ 52); destruct sx; lia | f_equal; cbn; lia].
Qed.

Lemma exact_real m x s e k : 0 <= k -> e = x + k -> m = s * 2 ^ k ->
  (IZR m * bpow radix2 x)%R = (IZR s * bpow radix2 e)%R.
Proof.
  intros Hk -> ->. rewrite mult_IZR, bpow_plus. rewrite <- (IZR_Zpower radix2 k Hk).
  change (radix_val radix2) with 2. ring.
Qed.

(** TryFrom<f32> for FBig / Repr, as written: for every pattern that is neither an infinity nor a NaN the
    result s * 2^e is the real number the pattern denotes, and its significand fits the declared precision *)
Theorem from_f32_exact bits s e p : 0 <= bits < 2 ^ 32 -> from_ieee_asis P32 bits = Some (s, e, p) ->
  B2R 24 128 (b32_of_bits bits) = (IZR s * bpow radix2 e)%R /\ dlen 2 s <= p.
Proof.
  intros Hb Ha. rewrite from_f32_asis_spec in Ha by exact Hb.
  assert (exists m x, ieee_decode 23 8 bits = IFinite m x) as (m & x & Hd).
  { unfold from_ieee_spec in Ha. destruct (ieee_decode 23 8 bits) as [m x| |]; [eauto | discriminate | discriminate]. }
  destruct (from_ieee_spec_exact 23 8 bits m x s e p Hd Ha) as (H0 & H1 & _ & Hp).
  split; [|exact Hp]. rewrite (ieee_decode_flocq_f32 bits m x Hb Hd).
  destruct (Z.eq_dec m 0) as [->|Hm].
  - destruct (H0 eq_refl) as [-> ->]. rewrite !Rmult_0_l. reflexivity.
  - destruct (H1 Hm) as (_ & k & Hk & He & Hv). apply (exact_real m x s e k Hk He Hv).
Qed.

Theorem from_f64_exact bits s e p : 0 <= bits < 2 ^ 64 -> from_ieee_asis P64 bits = Some (s, e, p) ->
  B2R 53 1024 (b64_of_bits bits) = (IZR s * bpow radix2 e)%R /\ dlen 2 s <= p.
Proof.
  intros Hb Ha. rewrite from_f64_asis_spec in Ha by exact Hb.
  assert (exists m x, ieee_decode 52 11 bits = IFinite m x) as (m & x & Hd).
  { unfold from_ieee_spec in Ha. destruct (ieee_decode 52 11 bits) as [m x| |]; [eauto | discriminate | discriminate]. }
  destruct (from_ieee_spec_exact 52 11 bits m x s e p Hd Ha) as (H0 & H1 & _ & Hp).
  split; [|exact Hp]. rewrite (ieee_decode_flocq_f64 bits m x Hb Hd).
  destruct (Z.eq_dec m 0) as [->|Hm].
  - destruct (H0 eq_refl) as [-> ->]. rewrite !Rmult_0_l. reflexivity.
  - destruct (H1 Hm) as (_ & k & Hk & He & Hv). apply (exact_real m x s e k Hk He Hv).
Qed.

(** the patterns that are not imported as finite floats are exactly Flocq's infinities and NaNs *)
Theorem from_f32_none_iff bits : 0 <= bits < 2 ^ 32 ->
  (from_ieee_asis P32 bits = None <-> is_finite 24 128 (b32_of_bits bits) = false).
Proof.
  intros Hb. rewrite from_f32_asis_spec by exact Hb. unfold from_ieee_spec, ieee_decode.
  unfold b32_of_bits, binary_float_of_bits. rewrite is_finite_FF2B.
  unfold binary_float_of_bits_aux, split_bits.
  change (Zpower 2 23) with (2 ^ 23). change (Zpower 2 8) with (2 ^ 8).
  set (fr := bits mod 2 ^ 23). set (ex := (bits / 2 ^ 23) mod 2 ^ 8).
  assert (Hfr : 0 <= fr < 2 ^ 23) by (apply Z.mod_pos_bound; cbn; lia). clearbody fr ex.
  destruct (Z.eqb_spec ex (2 ^ 8 - 1)) as [E1|E1].
  - destruct (Zeq_bool_spec ex 0) as [E0|_]; [cbn in E1; lia|].
    destruct (Zeq_bool_spec ex (2 ^ 8 - 1)) as [_|N]; [|contradiction].
    destruct fr as [|q|q]; cbn; split; auto.
  - destruct (Zeq_bool_spec ex 0) as [E0|E0].
    + destruct (Z.eqb_spec ex 0); [|contradiction].
      destruct (normalize 2 _ _). destruct fr as [|q|q]; [| |lia]; cbn; split; discriminate.
    + destruct (Zeq_bool_spec ex (2 ^ 8 - 1)) as [|_]; [contradiction|].
      destruct (Z.eqb_spec ex 0); [contradiction|].
      destruct (normalize 2 _ _). destruct (fr + 2 ^ 23) as [|q|q] eqn:Es; [lia| |lia]. cbn. split; discriminate.
Qed.

Theorem from_f64_none_iff bits : 0 <= bits < 2 ^ 64 ->
  (from_ieee_asis P64 bits = None <-> is_finite 53 1024 (b64_of_bits bits) = false).
Proof.
  intros Hb. rewrite from_f64_asis_spec by exact Hb. unfold from_ieee_spec, ieee_decode.
  unfold b64_of_bits, binary_float_of_bits. rewrite is_finite_FF2B.
  unfold binary_float_of_bits_aux, split_bits.
  change (Zpower 2 52) with (2 ^ 52). change (Zpower 2 11) with (2 ^ 11).
  set (fr := bits mod 2 ^ 52). set (ex := (bits / 2 ^ 52) mod 2 ^ 11).
  assert (Hfr : 0 <= fr < 2 ^ 52) by (apply Z.mod_pos_bound; cbn; lia). clearbody fr ex.
  destruct (Z.eqb_spec ex (2 ^ 11 - 1)) as [E1|E1].
  - destruct (Zeq_bool_spec ex 0) as [E0|_]; [cbn in E1; lia|].
    destruct (Zeq_bool_spec ex (2 ^ 11 - 1)) as [_|N]; [|contradiction].
    destruct fr as [|q|q]; cbn; split; auto.
  - destruct (Zeq_bool_spec ex 0) as [E0|E0].
    + destruct (Z.eqb_spec ex 0); [|contradiction].
      destruct (normalize 2 _ _). destruct fr as [|q|q]; [| |lia]; cbn; split; discriminate.
    + destruct (Zeq_bool_spec ex (2 ^ 11 - 1)) as [|_]; [contradiction|].
      destruct (Z.eqb_spec ex 0); [contradiction|].
      destruct (normalize 2 _ _). destruct (fr + 2 ^ 52) as [|q|q] eqn:Es; [lia| |lia]. cbn. split; discriminate.
Qed.


Example from_ieee_exact_ex :
  from_ieee_asis P32 0x40490fdb = Some (13176795, -22, 24) /\ from_ieee_spec 23 8 0x40490fdb = Some (13176795, -22, 24) /\
  from_ieee_asis P64 0x8000000000000006 = Some (-3, -1073, 3) /\ from_ieee_asis P32 0x7f800000 = None.
Proof. vm_compute. repeat split. Qed.

Example from_ieee_flocq_ex :
  B2R 24 128 (b32_of_bits 0x40490fdb) = (IZR 13176795 * bpow radix2 (-22))%R /\ dlen 2 13176795 <= 24.
Proof. apply from_f32_exact; [cbn; lia | vm_compute; reflexivity]. Qed.
