(** C05, float part: every modelled PRODUCER of a float representation returns a normalised one - the invariant
    on which the structural == of FBig (and "cmp = Equal exactly when ==") rests.

    The producers are the as-is models other developments wrote and proved value-correct:
      C03  Float/Model.v       Repr::new (normalize), Context::repr_round, Context::mul / sqr / cubic
      C08  Float/TextIoModel.v Context::convert_base (same base, power-up, power-down, multiplication route,
                               division route incl. the long division), FBig::with_precision
      C10  Float/RoundOpsModel.v trunc, fract, split_at_point, ceil, floor, round, with_precision
    Their results are pairs (significand, exponent); [fr] reads a pair as the representation of C05.
    Proved for every base B >= 2, every precision, mode, estimate digits_ub and every input. *)
From Dashu Require Import Base.Prelude Float.RoundSpec Float.Contract Float.Model Float.ModelProof.
From Dashu Require Import Float.TextIoSpec Float.TextIoModel Float.RoundOpsModel.
From Dashu Require Import Float.FloatOrdModel Float.FloatOrdProofs Float.FloatOrdTotal.
From DashuGen Require Import RoundTables.
Open Scope Z_scope.

Definition fr (se : Z * Z) : frepr := FR (fst se) (snd se).
Definition nz (B : Z) (se : Z * Z) : Prop := normalized B (fr se).

Section Producers.
Variable B : Z.
Hypothesis B_ge_2 : 2 <= B.

(* ---------------------------------------------------------------- Repr::new *)

(** C03's Repr::new returns a normalised pair, whatever it is given *)
Lemma new_nz s e : nz B (Model.normalize B s e).
Proof.
  pose proof (normalize_spec B B_ge_2 s e) as H. destruct (Model.normalize B s e) as [s' e'].
  destruct H as [H0 H1]. unfold nz, normalized, fr. cbn [fst snd fsig fexp].
  destruct (Z.eq_dec s 0) as [E|N]; [left; exact (H0 E) | right]. destruct (H1 N) as (A & M & _). split; assumption.
Qed.

Lemma zero_nz : nz B (0, 0).
Proof. left. cbn. split; reflexivity. Qed.
Lemma one_nz : nz B (1, 0).
Proof. right. cbn. split; [lia|]. rewrite Z.mod_1_l by lia. lia. Qed.
Lemma neg_one_nz : nz B (-1, 0).
Proof.
  right. cbn. split; [lia|]. replace (-1) with (B - 1 + (-1) * B) by ring.
  rewrite Z.mod_add by lia. rewrite Z.mod_small by lia. lia.
Qed.

(** the normalised form of a value is unique *)
Lemma strip_exp_le a b ka kb : a mod B <> 0 -> 0 <= ka -> 0 <= kb -> a * B ^ ka = b * B ^ kb -> kb <= ka.
Proof.
  intros Ma Ka Kb Ev. destruct (Z_le_gt_dec kb ka) as [L|G]; [exact L|]. exfalso. apply Ma.
  replace kb with (ka + (1 + (kb - ka - 1))) in Ev by lia. rewrite !Z.pow_add_r, Z.pow_1_r in Ev by lia.
  assert (0 < B ^ ka) by (apply Z.pow_pos_nonneg; lia).
  assert (a = b * B ^ (kb - ka - 1) * B) as -> by nia.
  apply Z.mod_mul. lia.
Qed.

Lemma nz_unique s1 e1 s2 e2 k1 k2 s e : s1 mod B <> 0 -> s2 mod B <> 0 ->
  0 <= k1 -> 0 <= k2 -> e1 = e + k1 -> e2 = e + k2 -> s = s1 * B ^ k1 -> s = s2 * B ^ k2 -> (s1, e1) = (s2, e2).
Proof.
  intros M1 M2 K1 K2 E1 E2 V1 V2. rewrite V1 in V2.
  pose proof (strip_exp_le s1 s2 k1 k2 M1 K1 K2 V2) as L1.
  pose proof (strip_exp_le s2 s1 k2 k1 M2 K2 K1 (eq_sym V2)) as L2.
  assert (k1 = k2) by lia. subst k2. assert (0 < B ^ k1) by (apply Z.pow_pos_nonneg; lia).
  f_equal; [nia | lia].
Qed.

(** the two models of Repr::normalize (C05's three branches - base 2, other powers of two, generic - and C03's generic
    loop) return the same representation *)
Theorem normalize_models_agree s e : FloatOrdModel.normalize B (FR s e) = Ok (fr (Model.normalize B s e)).
Proof.
  destruct (normalize_ok B (FR s e) B_ge_2) as (r' & E & N & Z0 & NZ). rewrite E. f_equal.
  pose proof (normalize_spec B B_ge_2 s e) as H. destruct (Model.normalize B s e) as [s' e'].
  destruct H as [H0 H1]. cbn [fsig fexp] in *. unfold fr. cbn [fst snd].
  destruct (Z.eq_dec s 0) as [Es|Ns].
  - destruct (H0 Es) as [-> ->]. exact (Z0 Es).
  - destruct (H1 Ns) as (A & M & k & K & Ek & V). destruct (NZ Ns) as [Le V'].
    destruct r' as [s2 e2]. cbn [fsig fexp] in *.
    destruct N as [[Z1 _]|[_ M2]]; cbn [fsig fexp] in *; [subst s2; lia|].
    assert ((s2, e2) = (s', e')) as Q.
    { apply (nz_unique s2 e2 s' e' (e2 - e) k s e); try assumption; lia. }
    inversion Q. reflexivity.
Qed.

(* ---------------------------------------------------------------- Context::repr_round *)

(** repr_round passes a fitting value through unchanged (Exact branch) and builds the rounded one with Repr::new
    (Inexact branch; [approx_norm] of C08, [norm_approx] of C10 are that call): normalised in, normalised out *)
Lemma repr_round_cases p m s e :
  repr_round B p m s e = AExact s e \/ exists s' e' r, repr_round B p m s e = AInexact s' e' r.
Proof.
  unfold repr_round. destruct (p =? 0); [now left|]. destruct (dlen B s >? p); [|now left].
  destruct (split_digits B s (dlen B s - p)) as [hi lo]. right. eauto.
Qed.

Lemma approx_norm_round_nz p m s e : nz B (s, e) ->
  nz B (fst (approx_norm B (repr_round B p m s e))).
Proof.
  intros N. destruct (repr_round_cases p m s e) as [-> | (s' & e' & r & ->)]; cbn [approx_norm].
  - exact N.
  - pose proof (new_nz s' e') as H. destruct (Model.normalize B s' e') as [a b]. exact H.
Qed.

Definition approx_pair (a : approx) : Z * Z := (approx_sig a, approx_exp a).

Lemma norm_approx_round_nz p m s e : nz B (s, e) -> nz B (approx_pair (norm_approx B (repr_round B p m s e))).
Proof.
  intros N. destruct (repr_round_cases p m s e) as [-> | (s' & e' & r & ->)]; cbn [norm_approx].
  - exact N.
  - pose proof (new_nz s' e') as H. destruct (Model.normalize B s' e') as [a b]. exact H.
Qed.

(* ---------------------------------------------------------------- Context::mul / sqr / cubic (C03) *)

Theorem ctx_mul_nz p m s1 e1 s2 e2 : nz B (approx_pair (norm_approx B (ctx_mul B p m s1 e1 s2 e2))).
Proof.
  unfold ctx_mul. destruct (shrink B p 2 m s1 e1) as [a ea]. destruct (shrink B p 2 m s2 e2) as [b eb].
  pose proof (new_nz (a * b) (ea + eb)) as H. destruct (Model.normalize B (a * b) (ea + eb)) as [s e].
  apply norm_approx_round_nz. exact H.
Qed.

Theorem ctx_sqr_nz p m s e : nz B (approx_pair (norm_approx B (ctx_sqr B p m s e))).
Proof.
  unfold ctx_sqr. destruct (shrink B p 2 m s e) as [a ea].
  pose proof (new_nz (a * a) (2 * ea)) as H. destruct (Model.normalize B (a * a) (2 * ea)) as [s' e'].
  apply norm_approx_round_nz. exact H.
Qed.

Theorem ctx_cubic_nz p m s e : nz B (approx_pair (norm_approx B (ctx_cubic B p m s e))).
Proof.
  unfold ctx_cubic. destruct (shrink B p 3 m s e) as [a ea].
  pose proof (new_nz (a * a * a) (3 * ea)) as H. destruct (Model.normalize B (a * a * a) (3 * ea)) as [s' e'].
  apply norm_approx_round_nz. exact H.
Qed.

(* ---------------------------------------------------------------- with_precision (C08 and C10 models) *)

Theorem with_precision_c08_nz p0 p m s e : nz B (s, e) ->
  nz B (fst (TextIoModel.with_precision_asis B p0 p m s e)).
Proof.
  intros N. unfold TextIoModel.with_precision_asis. destruct ((p0 =? 0) || (p <? p0)); [|exact N].
  apply approx_norm_round_nz. exact N.
Qed.

Theorem with_precision_c10_nz pinned m p s e np : nz B (s, e) ->
  nz B (approx_pair (RoundOpsModel.with_precision_asis B pinned m p s e np)).
Proof.
  intros N. unfold RoundOpsModel.with_precision_asis.
  destruct (if pinned then p >? np else (p =? 0) || (p >? np)); [|exact N].
  apply norm_approx_round_nz. exact N.
Qed.

(* ---------------------------------------------------------------- round_ops.rs (C10) *)
Section RoundOps.
Variable digits_ub : Z -> Z.

Definition fl_pair (x : fl) : Z * Z := (fst (fst x), snd (fst x)).

Lemma mk_new_nz s e q : nz B (fl_pair (mk (Model.normalize B s e) q)).
Proof. pose proof (new_nz s e) as H. destruct (Model.normalize B s e) as [a b]. exact H. Qed.

Theorem trunc_nz p s e : nz B (s, e) -> nz B (fl_pair (trunc_asis B digits_ub p s e)).
Proof.
  intros N. unfold trunc_asis. destruct (0 <=? e); [exact N|].
  destruct (smaller_than_one digits_ub s e); [exact zero_nz | apply mk_new_nz].
Qed.

Theorem fract_nz pinned p s e : nz B (fl_pair (fract_asis B digits_ub pinned p s e)).
Proof.
  unfold fract_asis. destruct (0 <=? e); [exact zero_nz|].
  destruct (split_internal B digits_ub pinned p s e) as [[hi lo] k]. apply mk_new_nz.
Qed.

Theorem split_nz p s e : nz B (s, e) ->
  nz B (fl_pair (fst (split_asis B digits_ub p s e))) /\ nz B (fl_pair (snd (split_asis B digits_ub p s e))).
Proof.
  intros N. unfold split_asis. destruct (0 <=? e); [split; [exact N | exact zero_nz]|].
  destruct (smaller_than_one digits_ub s e); [split; [exact zero_nz | exact N]|].
  destruct (split_digits B s (- e)) as [hi lo]. split; apply mk_new_nz.
Qed.

Lemma round_to_nz pinned m p s e r : round_to B digits_ub pinned m p s e = Ok r -> nz B (fl_pair r).
Proof.
  unfold round_to. destruct (split_internal B digits_ub pinned p s e) as [[hi lo] k].
  destruct (round_fract_chk B m hi lo k) as [a| | |]; cbn [rbind]; try discriminate.
  intros E. inversion E. apply mk_new_nz.
Qed.

Theorem ceil_nz pinned p s e r : nz B (s, e) -> ceil_asis B digits_ub pinned p s e = Ok r -> nz B (fl_pair r).
Proof.
  intros N. unfold ceil_asis. destruct ((s =? 0) || (0 <=? e)); [intros E; inversion E; exact N|].
  destruct (smaller_than_one digits_ub s e).
  - intros E. inversion E. destruct (0 <=? s); [exact one_nz | exact zero_nz].
  - apply round_to_nz.
Qed.

Theorem floor_nz pinned p s e r : nz B (s, e) -> floor_asis B digits_ub pinned p s e = Ok r -> nz B (fl_pair r).
Proof.
  intros N. unfold floor_asis. destruct (0 <=? e); [intros E; inversion E; exact N|].
  destruct (smaller_than_one digits_ub s e).
  - intros E. inversion E. destruct (0 <=? s); [exact zero_nz | exact neg_one_nz].
  - apply round_to_nz.
Qed.

Theorem round_nz pinned p s e r : nz B (s, e) -> round_asis B digits_ub pinned p s e = Ok r -> nz B (fl_pair r).
Proof.
  intros N. unfold round_asis. destruct (0 <=? e); [intros E; inversion E; exact N|].
  destruct (e + digits_ub s <? -2); [intros E; inversion E; exact zero_nz | apply round_to_nz].
Qed.

End RoundOps.

End Producers.

(* ---------------------------------------------------------------- Context::convert_base (C08) *)
Section Convert.
Variable NB : Z.
Hypothesis NB_ge_2 : 2 <= NB.

Lemma round_norm_nz p m s e s' e' f : round_norm NB p m s e = CDone s' e' f -> nz NB (s', e').
Proof.
  unfold round_norm. pose proof (new_nz NB NB_ge_2 s e) as H. destruct (Model.normalize NB s e) as [s1 e1].
  pose proof (approx_norm_round_nz NB NB_ge_2 p m s1 e1 H) as H'.
  destruct (approx_norm NB (repr_round NB p m s1 e1)) as [[s2 e2] f2]. intros E. inversion E. subst. exact H'.
Qed.

Lemma div_long_nz p m s1 e1 s2 e2 s' e' f : div_long NB p m s1 e1 s2 e2 = CDone s' e' f -> nz NB (s', e').
Proof.
  unfold div_long. destruct (split_digits NB (Z.quot s1 s2) (dlen NB (Z.quot s1 s2) - p)) as [hi lo].
  destruct (lo * s2 + Z.rem s1 s2 =? 0).
  - pose proof (new_nz NB NB_ge_2 hi (e1 - e2 + (dlen NB (Z.quot s1 s2) - p))) as H.
    destruct (Model.normalize NB hi _) as [a b]. intros E. inversion E. subst. exact H.
  - match goal with |- (let '(_, _) := Model.normalize NB ?x ?y in _) = _ -> _ =>
      pose proof (new_nz NB NB_ge_2 x y) as H; destruct (Model.normalize NB x y) as [a b] end.
    intros E. inversion E. subst. exact H.
Qed.

(** every modelled route of Context::convert_base - same base, target a power of the source, source a power of the
    target, multiplication by B^e, division by B^-e through repr_div or through the long division - returns a
    normalised representation in the new base, whatever representation it is given *)
Theorem convert_base_nz B p m s e s' e' f : convert_base_asis B NB p m s e = CDone s' e' f -> nz NB (s', e').
Proof.
  unfold convert_base_asis. destruct (NB =? B); [apply round_norm_nz|].
  destruct (1 <? (if B <? NB then ilog_exact NB B else 0)); [apply round_norm_nz|].
  destruct (1 <? (if B <? NB then 0 else ilog_exact B NB)); [apply round_norm_nz|].
  destruct (p =? 0); [discriminate|].
  destruct (Z.abs e <=? threshold_small_exp); [|discriminate].
  destruct (0 <=? e); [apply round_norm_nz|].
  pose proof (new_nz NB NB_ge_2 s 0) as Hn. destruct (Model.normalize NB s 0) as [n ne].
  destruct (Model.normalize NB (B ^ (- e)) 0) as [d de].
  destruct (dlen NB n <=? p + dlen NB d); [|apply div_long_nz].
  destruct (repr_div NB p m n ne d de) as [a|r|x|]; try discriminate.
  destruct a as [q x|q x r].
  - pose proof (new_nz NB NB_ge_2 q x) as H. destruct (Model.normalize NB q x) as [q' x']. cbn [approx_norm].
    intros E. inversion E. subst. exact H.
  - cbn [approx_norm]. pose proof (new_nz NB NB_ge_2 q x) as H. destruct (Model.normalize NB q x) as [q' x'].
    intros E. inversion E. subst. exact H.
Qed.

End Convert.

(* ---------------------------------------------------------------- Repr::from_str_native (C08) *)

(** whatever text is accepted, the representation returned is normalised *)
Theorem parse_nz B s0 s e nd : 2 <= B -> parse_asis B s0 = Ok (s, e, nd) -> nz B (s, e).
Proof.
  intros HB. unfold parse_asis. destruct (strip_float_sign s0) as [sg src].
  match goal with |- rbind ?X _ = _ -> _ => destruct X as [[[scale pmarker] src']| | |] end; cbn [rbind]; try discriminate.
  match goal with |- rbind ?X _ = _ -> _ => destruct X as [[[signif exponent] nd']| | |] end; cbn [rbind]; try discriminate.
  pose proof (new_nz B HB (sg * signif) 0) as H. destruct (Model.normalize B (sg * signif) 0) as [s' k].
  destruct (Z.eqb_spec s' 0) as [Z0|NZ].
  - intros E. inversion E. subst. apply zero_nz.
  - destruct (in_isize (exponent + k)); [|discriminate]. intros E. inversion E. subst.
    destruct H as [[Z0 _]|[_ M]]; [cbn in Z0; contradiction|]. right. cbn [fr fst snd fsig fexp] in *. split; assumption.
Qed.

(* ---------------------------------------------------------------- == is sound on everything the producers return *)

(** the representations the modelled producers can return, in base B *)
Inductive produced (B : Z) : frepr -> Prop :=
| PNew s e : produced B (fr (Model.normalize B s e))      (* Repr::new: from_parts, integers, parsing, every final Repr::new *)
| PInf : produced B (FR 0 1)                               (* Repr::infinity *)
| PNegInf : produced B (FR 0 (-1))                         (* Repr::neg_infinity *)
| PNeg x : produced B x -> produced B (FR (- fsig x) (fexp x))   (* Neg: the significand changes sign *)
| PParse s0 s e nd : parse_asis B s0 = Ok (s, e, nd) -> produced B (FR s e)       (* FromStr *)
| PRepRound p m x : produced B x -> f_is_inf x = false ->                          (* Context::repr_round: convert_int, ... *)
    produced B (fr (approx_pair (norm_approx B (repr_round B p m (fsig x) (fexp x)))))
| PConv B0 p m s e s' e' f : convert_base_asis B0 B p m s e = CDone s' e' f -> produced B (FR s' e')
| PWithPrecision p0 p m x : produced B x -> f_is_inf x = false ->
    produced B (fr (fst (TextIoModel.with_precision_asis B p0 p m (fsig x) (fexp x))))
| PWithPrecision' pinned m p np x : produced B x -> f_is_inf x = false ->
    produced B (fr (approx_pair (RoundOpsModel.with_precision_asis B pinned m p (fsig x) (fexp x) np)))
| PMul p m x y : produced B (fr (approx_pair (norm_approx B (ctx_mul B p m (fsig x) (fexp x) (fsig y) (fexp y)))))
| PSqr p m x : produced B (fr (approx_pair (norm_approx B (ctx_sqr B p m (fsig x) (fexp x)))))
| PCubic p m x : produced B (fr (approx_pair (norm_approx B (ctx_cubic B p m (fsig x) (fexp x)))))
| PTrunc du p x : produced B x -> f_is_inf x = false -> produced B (fr (fl_pair (trunc_asis B du p (fsig x) (fexp x))))
| PFract du pinned p x : produced B (fr (fl_pair (fract_asis B du pinned p (fsig x) (fexp x))))
| PSplitHi du p x : produced B x -> f_is_inf x = false ->
    produced B (fr (fl_pair (fst (split_asis B du p (fsig x) (fexp x)))))
| PSplitLo du p x : produced B x -> f_is_inf x = false ->
    produced B (fr (fl_pair (snd (split_asis B du p (fsig x) (fexp x)))))
| PCeil du pinned p x r : produced B x -> f_is_inf x = false ->
    ceil_asis B du pinned p (fsig x) (fexp x) = Ok r -> produced B (fr (fl_pair r))
| PFloor du pinned p x r : produced B x -> f_is_inf x = false ->
    floor_asis B du pinned p (fsig x) (fexp x) = Ok r -> produced B (fr (fl_pair r))
| PRound du pinned p x r : produced B x -> f_is_inf x = false ->
    round_asis B du pinned p (fsig x) (fexp x) = Ok r -> produced B (fr (fl_pair r)).

Lemma nz_fin B se : nz B se -> fwf (fr se) /\ normalized_ext B (fr se) /\ f_is_inf (fr se) = false.
Proof.
  intros N. assert (f_is_inf (fr se) = false) as F.
  { unfold f_is_inf. destruct N as [[-> ->]|[H _]]; [reflexivity|]. apply Z.eqb_neq in H. rewrite H. reflexivity. }
  split; [intros I; rewrite F in I; discriminate|]. split; [right; exact N | exact F].
Qed.

Lemma fin_nz B x : normalized_ext B x -> f_is_inf x = false -> nz B (fsig x, fexp x).
Proof. intros [I|N] F; [rewrite F in I; discriminate|]. destruct x. exact N. Qed.

Theorem produced_normalized B x : 2 <= B -> produced B x -> fwf x /\ normalized_ext B x.
Proof.
  intros HB P.
  assert (Q : forall se, nz B se -> fwf (fr se) /\ normalized_ext B (fr se)) by (intros se N; destruct (nz_fin B se N) as (A & C & _); auto).
  induction P.
  - apply Q, new_nz; exact HB.
  - split; [intros _; reflexivity | left; reflexivity].
  - split; [intros _; reflexivity | left; reflexivity].
  - destruct IHP as [W N]. destruct x as [s e]. cbn [fsig fexp] in *. unfold fwf, normalized_ext, f_is_inf in *. cbn [fsig fexp] in *.
    replace (- s =? 0) with (s =? 0) by (destruct (Z.eqb_spec s 0), (Z.eqb_spec (- s) 0); lia || reflexivity).
    split; [exact W|]. destruct N as [I|N]; [left; exact I | right]. unfold normalized in *. cbn [fsig fexp] in *.
    destruct N as [[-> ->]|[Hs Hm]]; [left; split; reflexivity | right]. split; [lia|].
    intros E. apply Hm. apply Z.mod_divide in E; [|lia]. apply Z.mod_divide; [lia|]. destruct E as [k E]. exists (- k). lia.
  - apply (Q (s, e)). eapply parse_nz; eassumption.
  - destruct IHP as [_ N]. apply Q. apply norm_approx_round_nz; [exact HB | apply fin_nz; assumption].
  - apply (Q (s', e')). eapply convert_base_nz; eassumption.
  - destruct IHP as [_ N]. apply Q. apply with_precision_c08_nz; [exact HB | apply fin_nz; assumption].
  - destruct IHP as [_ N]. apply Q. apply with_precision_c10_nz; [exact HB | apply fin_nz; assumption].
  - apply Q, ctx_mul_nz; exact HB.
  - apply Q, ctx_sqr_nz; exact HB.
  - apply Q, ctx_cubic_nz; exact HB.
  - destruct IHP as [_ N]. apply Q. apply trunc_nz; [exact HB | apply fin_nz; assumption].
  - apply Q, fract_nz; exact HB.
  - destruct IHP as [_ N]. apply Q. apply split_nz; [exact HB | apply fin_nz; assumption].
  - destruct IHP as [_ N]. apply Q. apply split_nz; [exact HB | apply fin_nz; assumption].
  - destruct IHP as [_ N]. apply Q. eapply ceil_nz; [exact HB | apply fin_nz; eassumption | eassumption].
  - destruct IHP as [_ N]. apply Q. eapply floor_nz; [exact HB | apply fin_nz; eassumption | eassumption].
  - destruct IHP as [_ N]. apply Q. eapply round_nz; [exact HB | apply fin_nz; eassumption | eassumption].
Qed.

(** the structural == of FBig is equality of the values, and cmp returns Equal exactly when == holds, for any two
    representations the modelled producers return (any precisions, modes, routes) *)
Theorem fbig_eq_sound_on_producers B digits_ub x y : 2 <= B ->
  (forall s, s <> 0 -> Z.abs s < B ^ (digits_ub s + 1)) ->
  produced B x -> produced B y ->
  fbig_eq x y = feq_spec B x y /\
  repr_cmp_same_base B digits_ub false x y = fcmp_spec B x y /\
  (repr_cmp_same_base B digits_ub false x y = Eq <-> fbig_eq x y = true).
Proof.
  intros HB HD Px Py. destruct (produced_normalized B x HB Px) as [Wx Nx]. destruct (produced_normalized B y HB Py) as [Wy Ny].
  split; [apply fbig_eq_correct; assumption|].
  split; [apply repr_cmp_same_base_correct; assumption | apply fbig_cmp_eq_iff_eq; assumption].
Qed.

(** non-vacuity: 0x12 in base 16 converted to base 2 (the power-down route; the significand 18 is even) is the
    representation 9 * 2^1 that Repr::new builds directly, so == holds *)
Example produced_example :
  convert_base_asis 16 2 8 MZero 18 0 = CDone 9 1 FExact /\
  fr (Model.normalize 2 18 0) = FR 9 1 /\
  fbig_eq (FR 9 1) (fr (Model.normalize 2 18 0)) = true.
Proof. vm_compute. repeat split. Qed.
