(** C03 round 3: Context::rem, FBig % FBig, rem_euclid / div_euclid / div_rem_euclid of floats
    (float/src/div.rs).  None of the remainders is an exact operation: the integer remainder is computed
    exactly (three alignment cases) and then rounded ONCE to the precision of the context, so the documented
    contract holds with the exact remainder as the true value; div_euclid is exact (an integer). *)
From Dashu Require Import Base.Prelude Float.RoundSpec Float.RoundTablesProof Float.RoundSpecProof
  Float.Contract Float.Model Float.ModelProof Float.AddModel Float.AddModelProof Float.DivMulModel Float.LongModel.
From DashuGen Require Import RoundTables.
From Coq Require Import ZifyBool.
Open Scope Z_scope.

(** the quotient rounded to nearest, ties away, and the remainder that goes with it *)
Lemma half_away_quot a d : 0 <= a -> 0 < d ->
  (2 * a + d) / (2 * d) = if 2 * (a mod d) <? d then a / d else a / d + 1.
Proof.
  intros Ha Hd. pose proof (Z.div_mod a d ltac:(lia)) as E. pose proof (Z.mod_pos_bound a d Hd) as Hm.
  destruct (Z.ltb_spec (2 * (a mod d)) d); symmetry.
  - apply Z.div_unique with (2 * (a mod d) + d); lia.
  - apply Z.div_unique with (2 * (a mod d) - d); lia.
Qed.

Lemma rem_formula A D : D <> 0 ->
  A - spec_round MHalfAway (Z.sgn D * A) (Z.abs D) * D =
  rem_pick (if A <? 0 then -1 else 1) (Z.abs A mod Z.abs D) (Z.abs D - Z.abs A mod Z.abs D).
Proof.
  intros HD. cbn [spec_round].
  assert (EN : Z.abs (Z.sgn D * A) = Z.abs A).
  { destruct (Z.lt_trichotomy D 0) as [H|[H|H]]; [rewrite Z.sgn_neg by lia | lia | rewrite Z.sgn_pos by lia]; lia. }
  assert (ED : Z.sgn (Z.sgn D * A) * D = Z.sgn A * Z.abs D).
  { rewrite Z.sgn_mul. destruct (Z.lt_trichotomy D 0) as [H|[H|H]]; [|lia|].
    - rewrite (Z.sgn_neg D) by lia. cbn [Z.sgn]. rewrite Z.abs_neq by lia. ring.
    - rewrite (Z.sgn_pos D) by lia. cbn [Z.sgn]. rewrite Z.abs_eq by lia. ring. }
  rewrite EN. set (a := Z.abs A) in *. set (d := Z.abs D) in *.
  assert (Hd : 0 < d) by (unfold d; lia). assert (Ha : 0 <= a) by (unfold a; lia).
  rewrite (half_away_quot a d Ha Hd).
  pose proof (Z.div_mod a d ltac:(lia)) as E. pose proof (Z.mod_pos_bound a d Hd) as Hm.
  unfold rem_pick. set (q := a / d) in *. set (r := a mod d) in *.
  assert (Hcmp : (r <? d - r) = (2 * r <? d)).
  { destruct (Z.ltb_spec r (d - r)), (Z.ltb_spec (2 * r) d); try reflexivity; lia. }
  rewrite Hcmp. clearbody q r d.
  destruct (Z.ltb_spec (2 * r) d) as [C|C].
  - replace (Z.sgn (Z.sgn D * A) * q * D) with (Z.sgn (Z.sgn D * A) * D * q) by ring. rewrite ED.
    destruct (Z.lt_trichotomy A 0) as [H|[H|H]].
    + rewrite Z.sgn_neg by lia. destruct (Z.ltb_spec A 0); [|lia]. unfold a in *. clear - E H. lia.
    + subst A. cbn [Z.sgn Z.ltb Z.compare]. unfold a in *. cbn [Z.abs] in *. assert (q = 0) by nia. assert (r = 0) by nia. lia.
    + rewrite Z.sgn_pos by lia. destruct (Z.ltb_spec A 0); [lia|]. unfold a in *. clear - E H. lia.
  - replace (Z.sgn (Z.sgn D * A) * (q + 1) * D) with (Z.sgn (Z.sgn D * A) * D * (q + 1)) by ring. rewrite ED.
    destruct (Z.lt_trichotomy A 0) as [H|[H|H]].
    + rewrite Z.sgn_neg by lia. destruct (Z.ltb_spec A 0); [|lia]. unfold a in *. clear - E H. lia.
    + exfalso. subst A. unfold a in *. cbn [Z.abs] in *. assert (q = 0) by nia. nia.
    + rewrite Z.sgn_pos by lia. destruct (Z.ltb_spec A 0); [lia|]. unfold a in *. clear - E H. lia.
Qed.

Section RemProofs.
Variable B : Z.
Hypothesis B_ge_2 : 2 <= B.
Local Notation Bpos := (Bpow_pos B B_ge_2).

(** the three alignment cases of repr_rem compute the same exact remainder *)
Theorem repr_rem_sig_spec s1 e1 s2 e2 : s2 <> 0 ->
  repr_rem_sig B s1 e1 s2 e2 = rem_exact B s1 e1 s2 e2.
Proof.
  intros Hs2. unfold repr_rem_sig, rem_exact. cbv zeta.
  set (a := Z.abs s1). set (d := Z.abs s2). assert (Hd : 0 < d) by (unfold d; lia). assert (Ha : 0 <= a) by (unfold a; lia).
  destruct (Z.compare_spec e1 e2) as [Heq|Hlt|Hgt].
  - subst e2. rewrite Z.min_id, Z.sub_diag, Z.pow_0_r, !Z.mul_1_r.
    rewrite (rem_formula s1 s2 Hs2). reflexivity.
  - (* e1 < e2: the divisor is shifted, the dividend split *)
    replace (Z.min e1 e2) with e1 by lia. rewrite Z.sub_diag, Z.pow_0_r, Z.mul_1_r.
    set (sh := e2 - e1). assert (Hsh : 0 < sh) by (unfold sh; lia).
    pose proof (Bpos sh ltac:(lia)) as HP. set (P := B ^ sh) in *.
    assert (HD : s2 * P <> 0) by nia.
    rewrite (rem_formula s1 (s2 * P) HD). fold a.
    rewrite Z.abs_mul, (Z.abs_eq P) by lia. fold d.
    unfold split_digits. fold P. rewrite Z.quot_div_nonneg, Z.rem_mod_nonneg by lia.
    assert (EM : a mod (d * P) = (a / P) mod d * P + a mod P).
    { rewrite (Z.mul_comm d P), Z.rem_mul_r by lia. ring. }
    rewrite EM. f_equal. ring.
  - (* e1 > e2: the dividend is shifted inside the ring modulo |rhs| *)
    replace (Z.min e1 e2) with e2 by lia. rewrite Z.sub_diag, Z.pow_0_r, Z.mul_1_r.
    set (sh := e1 - e2). assert (Hsh : 0 < sh) by (unfold sh; lia).
    pose proof (Bpos sh ltac:(lia)) as HP. set (P := B ^ sh) in *.
    rewrite (rem_formula (s1 * P) s2 Hs2). fold d.
    rewrite Z.abs_mul, (Z.abs_eq P) by lia. fold a.
    rewrite <- Z.mul_mod by lia. set (r := (a * P) mod d).
    pose proof (Z.mod_pos_bound (a * P) d Hd) as Hr. fold r in Hr.
    assert (Esl : (if s1 * P <? 0 then -1 else 1) = (if s1 <? 0 then -1 else 1)).
    { destruct (Z.ltb_spec (s1 * P) 0), (Z.ltb_spec s1 0); try reflexivity; nia. }
    rewrite Esl. unfold rem_pick.
    destruct (Z.eq_dec r 0) as [Hz|Hnz].
    + rewrite Hz. cbn [Z.opp]. rewrite Z.mod_0_l by lia. rewrite Z.ltb_irrefl.
      destruct (Z.ltb_spec 0 (d - 0)); lia.
    + assert (E2 : (- r) mod d = d - r).
      { symmetry. apply Z.mod_unique with (-1); lia. }
      rewrite E2. reflexivity.
Qed.

(** the exact remainder is the one of least magnitude; on a tie the quotient was rounded away from zero *)
Theorem rem_exact_least s1 e1 s2 e2 : s2 <> 0 ->
  let e0 := Z.min e1 e2 in
  let A := s1 * B ^ (e1 - e0) in let D := s2 * B ^ (e2 - e0) in
  let x := rem_exact B s1 e1 s2 e2 in
  (exists n, A = n * D + x) /\ 2 * Z.abs x <= Z.abs D /\
  (2 * Z.abs x = Z.abs D -> A * x <= 0).
Proof.
  intros Hs2 e0 A D x. pose proof (Bpos (e2 - e0) ltac:(unfold e0; lia)) as HP.
  assert (HD : D <> 0) by (unfold D; nia).
  assert (Ex : x = A - spec_round MHalfAway (Z.sgn D * A) (Z.abs D) * D) by reflexivity.
  split; [exists (spec_round MHalfAway (Z.sgn D * A) (Z.abs D)); lia|].
  rewrite (rem_formula A D HD) in Ex. unfold rem_pick in Ex.
  set (a := Z.abs A) in *. set (d := Z.abs D) in *. assert (Hd : 0 < d) by (unfold d; lia).
  pose proof (Z.mod_pos_bound a d Hd) as Hm. set (r := a mod d) in *.
  destruct (Z.ltb_spec r (d - r)); destruct (Z.ltb_spec A 0); subst x; split; try lia.
Qed.

(** Context::rem: the documented contract, with the exact remainder as the true value *)
Theorem repr_rem_correct p m s1 e1 s2 e2 : 1 <= p -> s2 <> 0 ->
  exists a, repr_rem B p m s1 e1 s2 e2 = Ok a /\
    rounded_sum B p m (rem_exact B s1 e1 s2 e2) (Z.min e1 e2) a.
Proof.
  intros Hp Hs2. unfold repr_rem. destruct (Z.eqb_spec s2 0) as [|_]; [contradiction|].
  rewrite (repr_rem_sig_spec s1 e1 s2 e2 Hs2). set (x := rem_exact B s1 e1 s2 e2).
  destruct (Z.eqb_spec x 0) as [Hz|Hnz].
  - eexists. split; [reflexivity|]. cbn [rounded_sum]. right. auto.
  - pose proof (equal_exp_rounded B B_ge_2 p m x (Z.min e1 e2) Hp) as R.
    destruct (normalize B x (Z.min e1 e2)) as [s e]. eexists. split; [reflexivity | exact R].
Qed.

Theorem repr_rem_by_zero p m s1 e1 e2 : repr_rem B p m s1 e1 0 e2 = Panic DivideBy0.
Proof. reflexivity. Qed.

(** FBig % FBig in every ownership form *)
Theorem fbig_rem_forms p1 p2 m s1 e1 s2 e2 :
  fbig_rem B p1 p2 m s1 e1 s2 e2 = map_val (repr_rem B (ctx_max p1 p2) m s1 e1 s2 e2).
Proof. reflexivity. Qed.

(** the Euclidean forms: both operands as integers in units of B^(min e1 e2) *)
Lemma align_as_int_spec s1 e1 s2 e2 :
  align_as_int B s1 e1 s2 e2 = (s1 * B ^ (e1 - Z.min e1 e2), s2 * B ^ (e2 - Z.min e1 e2)).
Proof.
  unfold align_as_int. destruct (Z.geb_spec (e1 - e2) 0).
  - replace (Z.min e1 e2) with e2 by lia. rewrite Z.sub_diag, Z.pow_0_r, Z.mul_1_r. reflexivity.
  - replace (Z.min e1 e2) with e1 by lia. rewrite Z.sub_diag, Z.pow_0_r, Z.mul_1_r.
    replace (- (e1 - e2)) with (e2 - e1) by lia. reflexivity.
Qed.

Lemma euclid_spec num den : den <> 0 ->
  num = euclid_q num den * den + euclid_r num den /\ 0 <= euclid_r num den < Z.abs den.
Proof.
  intros Hd. unfold euclid_q, euclid_r.
  pose proof (Z.div_mod num (Z.abs den) ltac:(lia)) as E. pose proof (Z.mod_pos_bound num (Z.abs den) ltac:(lia)) as Hm.
  split; [|exact Hm].
  destruct (Z.sgn_spec den) as [[? HS]|[[? HS]|[? HS]]]; rewrite HS; lia.
Qed.

(** div_euclid is exact: the Euclidean quotient of the aligned integers *)
Theorem fbig_div_euclid_correct s1 e1 s2 e2 : s2 <> 0 ->
  let num := s1 * B ^ (e1 - Z.min e1 e2) in let den := s2 * B ^ (e2 - Z.min e1 e2) in
  exists q, fbig_div_euclid B s1 e1 s2 e2 = Ok q /\
    exists r, num = q * den + r /\ 0 <= r < Z.abs den.
Proof.
  intros Hs2 num den. unfold fbig_div_euclid. destruct (Z.eqb_spec s2 0) as [|_]; [contradiction|].
  rewrite align_as_int_spec. fold num den. eexists. split; [reflexivity|].
  pose proof (Bpos (e2 - Z.min e1 e2) ltac:(lia)).
  assert (Hden : den <> 0) by (unfold den; nia).
  exists (euclid_r num den). apply euclid_spec. exact Hden.
Qed.

(** rem_euclid: the Euclidean remainder r of the aligned integers, 0 <= r < |den|, rounded once to
    Context::max of the operand precisions (so the result may equal |rhs| after rounding up) *)
Theorem fbig_rem_euclid_correct p1 p2 m s1 e1 s2 e2 : 1 <= ctx_max p1 p2 -> s2 <> 0 ->
  let num := s1 * B ^ (e1 - Z.min e1 e2) in let den := s2 * B ^ (e2 - Z.min e1 e2) in
  exists a, rounded_sum B (ctx_max p1 p2) m (euclid_r num den) 0 a /\
    fbig_rem_euclid B p1 p2 m s1 e1 s2 e2 =
    Ok (let '(rs, re) := normalize B (approx_sig a) (approx_exp a) in
        if rs =? 0 then (rs, re) else (rs, re + Z.min e1 e2)).
Proof.
  intros Hp Hs2 num den. unfold fbig_rem_euclid. destruct (Z.eqb_spec s2 0) as [|_]; [contradiction|].
  rewrite align_as_int_spec. fold num den.
  pose proof (equal_exp_rounded B B_ge_2 (ctx_max p1 p2) m (euclid_r num den) 0 Hp) as R.
  destruct (normalize B (euclid_r num den) 0) as [s e].
  exists (repr_round B (ctx_max p1 p2) m s e). split; [exact R|]. unfold approx_val.
  destruct (normalize B _ _) as [rs re]. reflexivity.
Qed.

Theorem euclid_by_zero p1 p2 m s1 e1 e2 :
  fbig_div_euclid B s1 e1 0 e2 = Panic DivideBy0 /\ fbig_rem_euclid B p1 p2 m s1 e1 0 e2 = Panic DivideBy0 /\
  fbig_div_rem_euclid B p1 p2 m s1 e1 0 e2 = Panic DivideBy0.
Proof. repeat split; reflexivity. Qed.

End RemProofs.

(** 7 rem 2 = -1 (tie: quotient 3.5 rounds away to 4), 678.9 rem -123.4 = -61.5 (the doc example of Context::rem),
    -1 rem_euclid 1e5 = 99999 rounded to one digit = 1e5 *)
Example rem_nonvacuous :
  repr_rem 10 2 MHalfEven 7 0 2 0 = Ok (AExact (-1) 0) /\ rem_exact 10 7 0 2 0 = -1 /\
  repr_rem 10 3 MHalfAway 6789 (-3) (-1234) (-3) = Ok (AExact (-615) (-3)) /\
  repr_rem 10 2 MHalfEven 12345 0 7 3 = Ok (AInexact (-17) 2 SubOne) /\ rem_exact 10 12345 0 7 3 = -1655 /\
  repr_rem 10 2 MHalfEven 7 3 12345 0 = Ok (AInexact (-53) 2 NoOp) /\ rem_exact 10 7 3 12345 0 = -5345 /\
  fbig_rem_euclid 10 1 1 MHalfEven (-1) 0 1 5 = Ok (1, 5) /\ fbig_div_euclid 10 (-1) 0 1 5 = Ok (-1) /\
  fbig_div_euclid 10 7 0 (-2) 0 = Ok (-3) /\ fbig_rem_euclid 10 1 1 MHalfEven 7 0 (-2) 0 = Ok (1, 0).
Proof. vm_compute. repeat split. Qed.
