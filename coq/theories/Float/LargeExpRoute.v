(** C08: the large-exponent route of Context::convert_base (|exponent| > THRESHOLD_SMALL_EXP, bases
    that are not powers of one another), float/src/convert.rs:

      work  = Context::new(2 * p)                        work precision: 2p digits of base NB
      a     = work.ln(B)                                 computed ln B
      m     = exponent * a                               rounded product
      c     = work.ln_base::<NB>()                       computed ln NB
      (q,r0)= m.div_rem_euclid(c)                        q = floor(m / c), r0 = m - q*c exactly,
      r     = convert_int(r0)                            ... then rounded to the work precision
      E     = r.exp()                                    computed exp r
      Y     = significand * E * NB^q                     the float handed to the final repr_round

    STRUCTURE only: ln and exp are not modelled, they are Section variables constrained by an error
    contract (relative error at most kap = k * NB^(1-2p), i.e. k units in the last place of the work
    precision); every rounding at the work precision has relative error at most u = NB^(1-2p).
    Proved: Y = V * (1 + d) with |d| <= (1 + kap) * exp Theta - 1, where V = significand * B^exponent is
    the exact value and Theta <= kap * (3 ln NB + 5 |exponent| ln B): the error grows with the exponent,
    so the route is accurate only while |exponent| * ln B * k is small against NB^(2p-1).  After the final
    rounding to p digits the answer Rf satisfies |Rf - V| <= (NB^(1-p) * (1 + eps) + eps) * |V|; it is the
    correctly rounded one whenever no rounding boundary lies between V and Y, hence the answers that can be
    one unit off are exactly those whose exact value lies within eps * |V| of a rounding boundary - in
    particular every value that is representable at the target precision (directed modes). *)
From Coq Require Import ZArith Reals Lra Lia Psatz.
From Flocq Require Import Core.Core.
From Dashu Require Import Float.LargeExpBound.
Open Scope R_scope.

Lemma Rabs_def2b x y : Rabs x <= y -> - y <= x /\ x <= y.
Proof. intros H. apply Rabs_le_inv in H. exact H. Qed.

Lemma exp_le_lin x : 0 <= x <= 1 / 2 -> exp x <= 1 + 2 * x.
Proof.
  intros [H0 H1]. pose proof (exp_ineq1_le (- x)) as H. rewrite exp_Ropp in H.
  pose proof (exp_pos x) as P.
  assert (Hx : 0 < 1 - x) by lra.
  assert (exp x <= / (1 - x)).
  { apply (Rmult_le_reg_l (1 - x)); [exact Hx|]. rewrite Rinv_r by lra.
    replace (1 + - x) with (1 - x) in H by ring.
    apply (Rmult_le_compat_r (exp x)) in H; [|lra]. rewrite Rinv_l in H by lra. exact H. }
  assert (/ (1 - x) <= 1 + 2 * x).
  { apply (Rmult_le_reg_l (1 - x)); [exact Hx|]. rewrite Rinv_r by lra. nra. }
  lra.
Qed.

Lemma exp_sym_bound x : 0 <= x -> 2 - exp x <= exp (- x).
Proof.
  intros Hx. rewrite exp_Ropp. pose proof (exp_pos x) as P.
  apply (Rmult_le_reg_l (exp x)); [exact P|]. rewrite Rinv_r by lra.
  pose proof (exp_ineq1_le x). nra.
Qed.

Section LargeRoute.

Variables LB LN : R.                 (* ln B, ln NB *)
Hypothesis LB_pos : 0 < LB.
Hypothesis LN_pos : 0 < LN.

Variables u kap : R.                 (* unit roundoff of the work precision; kap = k * u *)
Hypothesis u_nonneg : 0 <= u.
Hypothesis u_le_kap : u <= kap.
Hypothesis kap_small : kap <= 1 / 4.

Variables e q : R.                   (* the source exponent; the integer quotient *)
Variables a c m r E : R.             (* the computed quantities *)

(** the error contract of ln (twice), of the rounded product, of the Euclidean division (exact) followed by the
    rounding of the remainder, and of exp *)
Hypothesis ln_B_contract : Rabs (a - LB) <= kap * LB.
Hypothesis ln_NB_contract : Rabs (c - LN) <= kap * LN.
Hypothesis mul_contract : Rabs (m - e * a) <= u * Rabs (e * a).
Hypothesis euclid : 0 <= m - q * c < c.
Hypothesis rem_contract : Rabs (r - (m - q * c)) <= u * (m - q * c).
Hypothesis exp_contract : Rabs (E - exp r) <= kap * exp r.

Definition theta : R := r + q * LN - e * LB.
Definition Theta : R := u * c + u * Rabs (e * a) + kap * Rabs e * LB + kap * Rabs q * LN.

Lemma theta_decomposed : theta = (r - (m - q * c)) + (m - e * a) + e * (a - LB) - q * (c - LN).
Proof. unfold theta. ring. Qed.

Lemma theta_bound : Rabs theta <= Theta.
Proof.
  rewrite theta_decomposed. unfold Theta.
  assert (H1 : Rabs (r - (m - q * c)) <= u * c).
  { eapply Rle_trans; [exact rem_contract|]. apply Rmult_le_compat_l; lra. }
  assert (H3 : Rabs (e * (a - LB)) <= kap * Rabs e * LB).
  { rewrite Rabs_mult. pose proof (Rabs_pos e).
    replace (kap * Rabs e * LB) with (Rabs e * (kap * LB)) by ring. apply Rmult_le_compat_l; assumption. }
  assert (H4 : Rabs (q * (c - LN)) <= kap * Rabs q * LN).
  { rewrite Rabs_mult. pose proof (Rabs_pos q).
    replace (kap * Rabs q * LN) with (Rabs q * (kap * LN)) by ring. apply Rmult_le_compat_l; assumption. }
  unfold Rminus at 1. eapply Rle_trans; [apply Rabs_triang|]. rewrite Rabs_Ropp.
  eapply Rle_trans; [apply Rplus_le_compat_r; apply Rabs_triang|].
  eapply Rle_trans; [apply Rplus_le_compat_r; apply Rplus_le_compat_r; apply Rabs_triang|].
  lra.
Qed.

(** the bound in terms of the inputs only *)
Lemma Theta_closed : Theta <= kap * (3 * LN + 5 * Rabs e * LB).
Proof.
  unfold Theta.
  assert (Kp : 0 <= kap) by lra.
  pose proof (Rabs_pos e) as Pe. pose proof (Rabs_pos q) as Pq.
  destruct (Rabs_def2b _ _ ln_B_contract) as [A1 A2]. destruct (Rabs_def2b _ _ ln_NB_contract) as [C1 C2].
  assert (Ha : 0 < a <= 5 / 4 * LB) by nra.
  assert (Hc : 3 / 4 * LN <= c <= 5 / 4 * LN) by nra.
  assert (Hea : Rabs (e * a) <= 5 / 4 * (Rabs e * LB)).
  { rewrite Rabs_mult, (Rabs_pos_eq a) by lra. nra. }
  assert (Hm : Rabs m <= 25 / 16 * (Rabs e * LB)).
  { replace m with ((m - e * a) + e * a) by ring. eapply Rle_trans; [apply Rabs_triang|].
    pose proof (Rabs_pos (e * a)). nra. }
  assert (Hqc : Rabs q * c <= Rabs m + c).
  { destruct euclid as [E1 E2]. rewrite <- (Rabs_pos_eq c) at 1 by lra. rewrite <- Rabs_mult.
    replace (q * c) with (m - (m - q * c)) by ring. unfold Rminus at 1.
    eapply Rle_trans; [apply Rabs_triang|]. rewrite Rabs_Ropp, (Rabs_pos_eq (m - q * c)) by lra. lra. }
  assert (HqL : Rabs q * LN <= 25 / 12 * (Rabs e * LB) + 5 / 3 * LN).
  { assert (Rabs q * (3 / 4 * LN) <= Rabs q * c) by (apply Rmult_le_compat_l; lra). nra. }
  assert (T1 : u * c <= kap * (5 / 4 * LN)) by nra.
  assert (T2 : u * Rabs (e * a) <= kap * (5 / 4 * (Rabs e * LB))).
  { pose proof (Rabs_pos (e * a)). nra. }
  assert (T4 : kap * Rabs q * LN <= kap * (25 / 12 * (Rabs e * LB) + 5 / 3 * LN)).
  { rewrite Rmult_assoc. apply Rmult_le_compat_l; assumption. }
  assert (0 <= Rabs e * LB) by nra.
  nra.
Qed.

(** the pre-rounded result against the exact value: for every significand s,
    s * E * exp (q * LN) = (s * exp (e * LB)) * (E / exp r) * exp theta *)
Lemma route_factorisation s : s * E * exp (q * LN) = s * exp (e * LB) * (E / exp r) * exp theta.
Proof.
  unfold theta. pose proof (exp_pos r).
  replace (r + q * LN - e * LB) with (r + (q * LN + - (e * LB))) by ring.
  rewrite !exp_plus, exp_Ropp. pose proof (exp_pos (e * LB)). field. split; lra.
Qed.

Theorem route_relative_error s :
  Rabs (s * E * exp (q * LN) - s * exp (e * LB)) <= ((1 + kap) * exp Theta - 1) * Rabs (s * exp (e * LB)).
Proof.
  rewrite route_factorisation. set (V := s * exp (e * LB)).
  pose proof (exp_pos r) as Pr. pose proof theta_bound as Tb.
  assert (Kp : 0 <= kap) by lra.
  assert (TP : 0 <= Theta) by (eapply Rle_trans; [apply Rabs_pos | exact Tb]).
  destruct (Rabs_def2b _ _ exp_contract) as [X1 X2].
  assert (Hf : 1 - kap <= E / exp r <= 1 + kap).
  { split; apply (Rmult_le_reg_r (exp r)); try exact Pr; unfold Rdiv; rewrite Rmult_assoc, Rinv_l by lra; lra. }
  destruct (Rabs_def2b _ _ Tb) as [T1 T2].
  assert (Hx : exp (- Theta) <= exp theta <= exp Theta).
  { split; [destruct T1 as [T1|T1] | destruct T2 as [T2|T2]];
      try (left; apply exp_increasing; assumption); try (right; f_equal; lra). }
  pose proof (exp_sym_bound Theta TP) as Sy. pose proof (exp_ineq1_le Theta) as G.
  pose proof (exp_pos theta) as Pt.
  set (f := E / exp r) in *. set (x := exp theta) in *. set (X := exp Theta) in *.
  replace (V * f * x - V) with (V * (f * x - 1)) by ring. rewrite Rabs_mult, Rmult_comm.
  apply Rmult_le_compat_r; [apply Rabs_pos|].
  apply Rabs_le. split; nra.
Qed.

Theorem route_relative_error_closed s :
  Rabs (s * E * exp (q * LN) - s * exp (e * LB)) <= ((1 + kap) * exp Theta - 1) * Rabs (s * exp (e * LB)) /\
  Theta <= kap * (3 * LN + 5 * Rabs e * LB).
Proof. split; [apply route_relative_error | apply Theta_closed]. Qed.

(** the answer after the final rounding to p digits (relative error of one unit in the last place at most
    NBp = NB^(1-p)), in the domain where the route is accurate at all (Theta <= 1/2) *)
Variables NBp Rf s : R.
Hypothesis NBp_nonneg : 0 <= NBp.
Hypothesis final_rounding : Rabs (Rf - s * E * exp (q * LN)) <= NBp * Rabs (s * E * exp (q * LN)).

Definition Tcl : R := kap * (3 * LN + 5 * Rabs e * LB).
Definition eps : R := (1 + kap) * (1 + 2 * Tcl) - 1.

Theorem route_final_error : Tcl <= 1 / 2 ->
  Rabs (Rf - s * exp (e * LB)) <= (NBp * (1 + eps) + eps) * Rabs (s * exp (e * LB)).
Proof.
  intros HT. pose proof (route_relative_error s) as H. pose proof Theta_closed as TC. fold Tcl in TC.
  pose proof theta_bound as Tb.
  assert (TP : 0 <= Theta) by (eapply Rle_trans; [apply Rabs_pos | exact Tb]).
  assert (Kp : 0 <= kap) by lra.
  assert (HX : exp Theta <= 1 + 2 * Tcl).
  { eapply Rle_trans; [apply exp_le_lin; lra|]. lra. }
  pose proof (exp_ineq1_le Theta) as G.
  set (V := s * exp (e * LB)) in *. set (Y := s * E * exp (q * LN)) in *.
  pose proof (Rabs_pos V) as PV.
  assert (He : Rabs (Y - V) <= eps * Rabs V).
  { eapply Rle_trans; [exact H|]. apply Rmult_le_compat_r; [exact PV|]. unfold eps. nra. }
  assert (HY : Rabs Y <= (1 + eps) * Rabs V).
  { replace Y with (V + (Y - V)) by ring. eapply Rle_trans; [apply Rabs_triang|]. lra. }
  replace (Rf - V) with ((Rf - Y) + (Y - V)) by ring. eapply Rle_trans; [apply Rabs_triang|].
  assert (Rabs (Rf - Y) <= NBp * ((1 + eps) * Rabs V)).
  { eapply Rle_trans; [exact final_rounding|]. apply Rmult_le_compat_l; assumption. }
  lra.
Qed.

(** where the final rounding is a monotone function that is constant on an interval containing both the
    exact value and the pre-rounded one, the answer is the rounding of the exact value: the answers that
    can differ from the correctly rounded one are those whose exact value lies within eps * |V| of a
    point where the rounding function jumps *)
Theorem route_correct_away_from_boundaries (rnd : R -> R) lo hi :
  (forall x y, x <= y -> rnd x <= rnd y) -> rnd lo = rnd hi ->
  lo <= s * exp (e * LB) <= hi -> lo <= s * E * exp (q * LN) <= hi ->
  rnd (s * E * exp (q * LN)) = rnd (s * exp (e * LB)).
Proof.
  intros Mono Eq [V1 V2] [Y1 Y2].
  pose proof (Mono _ _ V1). pose proof (Mono _ _ V2). pose proof (Mono _ _ Y1). pose proof (Mono _ _ Y2). lra.
Qed.

End LargeRoute.

(* ------------------------------------------------------------------------------------------ *)
(** * the statement for integer bases, exponents and significands, with a bound in rational numbers *)

Lemma ln_2_le_1 : ln 2 <= 1.
Proof.
  pose proof (exp_ineq1_le 1) as H. rewrite <- (ln_exp 1).
  destruct (Req_dec 2 (exp 1)) as [->|N]; [lra|]. left. apply ln_increasing; lra.
Qed.

Lemma ln_le_log2_up x : (2 <= x)%Z -> 0 < ln (IZR x) <= IZR (Z.log2_up x).
Proof.
  intros Hx. assert (Px : 1 < IZR x) by (apply IZR_lt; lia).
  split; [rewrite <- ln_1; apply ln_increasing; lra|].
  pose proof (Z.log2_up_spec x ltac:(lia)) as [_ U]. pose proof (Z.log2_up_nonneg x) as L0.
  set (l := Z.log2_up x) in *.
  assert (H : ln (IZR x) <= ln (IZR (2 ^ l))).
  { apply IZR_le in U. destruct U as [U|U]; [left; apply ln_increasing; lra | right; rewrite U; reflexivity]. }
  eapply Rle_trans; [exact H|].
  rewrite <- (Z2Nat.id l L0) at 1. rewrite <- pow_IZR, ln_pow by lra. rewrite INR_IZR_INZ, Z2Nat.id by exact L0.
  pose proof ln_2_le_1. assert (0 <= IZR l) by (apply IZR_le; exact L0). nra.
Qed.

Section Integers.
Variables rB rNB : radix.
Variables p k e q s : Z.
Variables a c m r E Rf : R.

Let LB := ln (IZR rB).
Let LN := ln (IZR rNB).
Let D := IZR (rNB ^ (2 * p - 1)).
Let u := / D.
Let kap := IZR k * u.
Let tn := IZR (k * (3 * Z.log2_up rNB + 5 * Z.abs e * Z.log2_up rB)).
Let en := IZR k * D + 2 * tn * D + 2 * IZR k * tn.

Hypothesis k_pos : (1 <= k)%Z.
Hypothesis p_pos : (1 <= p)%Z.
(** the domain in which the route is accurate at all *)
Hypothesis accurate_T : 2 * tn <= D.
Hypothesis accurate_k : 4 * IZR k <= D.
(** the contracts: ln B, ln NB and exp within k units in the last place of the work precision (2p digits),
    the product, the remainder and the final result correctly rounded in some direction *)
Hypothesis ln_B_contract : Rabs (a - LB) <= kap * LB.
Hypothesis ln_NB_contract : Rabs (c - LN) <= kap * LN.
Hypothesis mul_contract : Rabs (m - IZR e * a) <= u * Rabs (IZR e * a).
Hypothesis euclid : 0 <= m - IZR q * c < c.
Hypothesis rem_contract : Rabs (r - (m - IZR q * c)) <= u * (m - IZR q * c).
Hypothesis exp_contract : Rabs (E - exp r) <= kap * exp r.
Hypothesis final_rounding :
  Rabs (Rf - IZR s * E * bpow rNB q) <= bpow rNB (1 - p) * Rabs (IZR s * E * bpow rNB q).

Theorem convert_large_route_error :
  Rabs (Rf - IZR s * bpow rB e) <=
  (bpow rNB (1 - p) * (1 + en / (D * D)) + en / (D * D)) * Rabs (IZR s * bpow rB e).
Proof.
  pose proof (radix_gt_1 rB) as GB. pose proof (radix_gt_1 rNB) as GN.
  destruct (ln_le_log2_up rB ltac:(lia)) as [LBp LBu]. destruct (ln_le_log2_up rNB ltac:(lia)) as [LNp LNu].
  fold LB in LBp, LBu. fold LN in LNp, LNu.
  assert (PD : 0 < D) by (unfold D; apply IZR_lt; apply Z.pow_pos_nonneg; lia).
  assert (Pu : 0 < u) by (unfold u; apply Rinv_0_lt_compat; exact PD).
  assert (Pk : 1 <= IZR k) by (apply IZR_le; exact k_pos).
  assert (uD : u * D = 1) by (unfold u; apply Rinv_l; lra).
  assert (Hkap : kap <= 1 / 4) by (unfold kap; nra).
  assert (Hukap : u <= kap) by (unfold kap; nra).
  assert (Kp : 0 <= kap) by (unfold kap; nra).
  rewrite !bpow_exp in *. fold LB. fold LN in final_rounding.
  assert (Ptn : 0 <= tn).
  { unfold tn. apply IZR_le. pose proof (Z.log2_up_nonneg rNB). pose proof (Z.log2_up_nonneg rB). nia. }
  (* the closed bound against the rational one *)
  assert (HT : Tcl LB LN kap (IZR e) <= tn * u).
  { unfold Tcl, kap, tn. rewrite mult_IZR, plus_IZR, !mult_IZR, abs_IZR.
    pose proof (Rabs_pos (IZR e)) as Pe.
    assert (3 * LN + 5 * Rabs (IZR e) * LB <= 3 * IZR (Z.log2_up rNB) + 5 * Rabs (IZR e) * IZR (Z.log2_up rB)) by nra.
    replace (IZR k * u * (3 * LN + 5 * Rabs (IZR e) * LB)) with ((IZR k * u) * (3 * LN + 5 * Rabs (IZR e) * LB)) by ring.
    replace (IZR k * (3 * IZR (Z.log2_up rNB) + 5 * Rabs (IZR e) * IZR (Z.log2_up rB)) * u)
      with ((IZR k * u) * (3 * IZR (Z.log2_up rNB) + 5 * Rabs (IZR e) * IZR (Z.log2_up rB))) by ring.
    apply Rmult_le_compat_l; [nra | assumption]. }
  assert (HT2 : Tcl LB LN kap (IZR e) <= 1 / 2) by nra.
  pose proof (route_final_error LB LN LBp LNp u kap (Rlt_le _ _ Pu) Hukap Hkap (IZR e) (IZR q) a c m r E
                ln_B_contract ln_NB_contract mul_contract euclid rem_contract exp_contract
                (exp (IZR (1 - p) * LN)) Rf (IZR s) (Rlt_le _ _ (exp_pos _)) final_rounding HT2) as H.
  eapply Rle_trans; [exact H|]. apply Rmult_le_compat_r; [apply Rabs_pos|].
  assert (TP : 0 <= Tcl LB LN kap (IZR e)).
  { unfold Tcl. pose proof (Rabs_pos (IZR e)). assert (0 <= Rabs (IZR e) * LB) by (apply Rmult_le_pos; lra).
    apply Rmult_le_pos; lra. }
  assert (He : eps LB LN kap (IZR e) <= en / (D * D)).
  { unfold eps. set (T := Tcl LB LN kap (IZR e)) in *.
    replace (en / (D * D)) with (kap + 2 * (tn * u) + 2 * kap * (tn * u)).
    - nra.
    - unfold en, kap, u. field. lra. }
  assert (0 <= eps LB LN kap (IZR e)).
  { unfold eps. nra. }
  pose proof (exp_pos (IZR (1 - p) * LN)).
  fold LN. apply Rplus_le_compat; [apply Rmult_le_compat_l; lra | lra].
Qed.

End Integers.

(* ------------------------------------------------------------------------------------------ *)
(** * the executable test of Float/LargeExpBound.v decides exactly the bound of [convert_large_route_error] *)

Lemma rho_form dd p1 en : 0 < dd -> 0 < p1 -> / p1 * (1 + en / dd) + en / dd = (dd + en + en * p1) / (dd * p1).
Proof. intros. field. split; lra. Qed.

Lemma scaled_le A V c ddp K : 0 < c -> 0 < ddp -> A * c * ddp <= K * (V * c) -> A <= K / ddp * V.
Proof.
  intros Hc Hd H. apply (Rmult_le_reg_r (c * ddp)); [apply Rmult_lt_0_compat; assumption|].
  replace (K / ddp * V * (c * ddp)) with (K * (V * c)) by (field; lra). lra.
Qed.

Theorem large_route_check_sound (rNB : radix) k B p e N Dv rs re : (0 < Dv)%Z -> (1 <= p)%Z ->
  large_route_check k B rNB p e N Dv rs re = Some true ->
  let D := IZR (lr_D rNB p) in let en := IZR (lr_en k B rNB p e) in
  Rabs (IZR rs * bpow rNB re - IZR N / IZR Dv) <=
  (bpow rNB (1 - p) * (1 + en / (D * D)) + en / (D * D)) * Rabs (IZR N / IZR Dv).
Proof.
  intros HDv Hp H D en. unfold large_route_check in H.
  destruct (negb (lr_accurate k B rNB p e)); [discriminate|].
  pose proof (radix_gt_1 rNB) as GN.
  assert (PD : 0 < D) by (unfold D, lr_D; apply IZR_lt; apply Z.pow_pos_nonneg; lia).
  assert (PP : (0 < rNB ^ (p - 1))%Z) by (apply Z.pow_pos_nonneg; lia).
  assert (PP' : 0 < IZR (rNB ^ (p - 1))) by (apply IZR_lt; exact PP).
  assert (Pdv : 0 < IZR Dv) by (apply IZR_lt; exact HDv).
  assert (Eb : bpow rNB (1 - p) = / IZR (rNB ^ (p - 1))).
  { replace (1 - p)%Z with (- (p - 1))%Z by lia. rewrite bpow_opp, <- IZR_Zpower by lia. reflexivity. }
  rewrite Eb, rho_form by (try apply Rmult_lt_0_compat; assumption).
  set (x := IZR rs * bpow rNB re). set (v := IZR N / IZR Dv).
  destruct (Z.leb_spec 0 re) as [Hre|Hre]; injection H as H; apply Z.leb_le in H; apply IZR_le in H;
    rewrite !mult_IZR, !plus_IZR, !mult_IZR, !abs_IZR in H; fold D in H; fold en in H.
  - apply (scaled_le _ _ (IZR Dv) _ _ Pdv); [repeat apply Rmult_lt_0_compat; assumption|].
    assert (E1 : Rabs (x - v) * IZR Dv = Rabs (IZR (rs * rNB ^ re * Dv - N))).
    { rewrite <- (Rabs_pos_eq (IZR Dv)) at 1 by lra. rewrite <- Rabs_mult. f_equal.
      rewrite minus_IZR, !mult_IZR. unfold x, v. rewrite (IZR_Zpower rNB re Hre). field. lra. }
    assert (E2 : Rabs v * IZR Dv = Rabs (IZR N)).
    { rewrite <- (Rabs_pos_eq (IZR Dv)) at 1 by lra. rewrite <- Rabs_mult. f_equal. unfold v. field. lra. }
    rewrite E1, E2. lra.
  - assert (Pn : 0 < IZR (rNB ^ (- re))) by (apply IZR_lt; apply Z.pow_pos_nonneg; lia).
    apply (scaled_le _ _ (IZR Dv * IZR (rNB ^ (- re)))); [apply Rmult_lt_0_compat; assumption | repeat apply Rmult_lt_0_compat; assumption|].
    assert (Ex : bpow rNB re = / IZR (rNB ^ (- re))).
    { rewrite <- (Z.opp_involutive re) at 1. rewrite bpow_opp, <- IZR_Zpower by lia. reflexivity. }
    assert (E1 : Rabs (x - v) * (IZR Dv * IZR (rNB ^ (- re))) = Rabs (IZR (rs * Dv - N * rNB ^ (- re)))).
    { rewrite <- (Rabs_pos_eq (IZR Dv * IZR (rNB ^ (- re)))) at 1 by (left; apply Rmult_lt_0_compat; assumption).
      rewrite <- Rabs_mult. f_equal. rewrite minus_IZR, !mult_IZR. unfold x, v. rewrite Ex. field. split; lra. }
    assert (E2 : Rabs v * (IZR Dv * IZR (rNB ^ (- re))) = Rabs (IZR N) * IZR (rNB ^ (- re))).
    { rewrite <- (Rabs_pos_eq (IZR Dv)) at 1 by lra. rewrite <- Rmult_assoc, <- Rabs_mult. f_equal. f_equal. unfold v. field. lra. }
    rewrite E1, E2. lra.
Qed.

(* ------------------------------------------------------------------------------------------ *)
(** * non-vacuity: the contracts are satisfiable (an exact computation meets them), and the executable test
    accepts the observed answer of finding F05 (-98e100 to 332 bits: one unit below the representable exact
    value) while it rejects an answer that is 3 units off *)

Example convert_large_route_error_ex (s : Z) :
  Rabs (IZR s * 1 * bpow radix2 0 - IZR s * bpow (Build_radix 10 eq_refl) 0) <=
  (bpow radix2 (1 - 10) * (1 + (1 * IZR (2 ^ 19) + 2 * 3 * IZR (2 ^ 19) + 2 * 1 * 3) / (IZR (2 ^ 19) * IZR (2 ^ 19)))
   + (1 * IZR (2 ^ 19) + 2 * 3 * IZR (2 ^ 19) + 2 * 1 * 3) / (IZR (2 ^ 19) * IZR (2 ^ 19))) *
  Rabs (IZR s * bpow (Build_radix 10 eq_refl) 0).
Proof.
  pose proof (ln_le_log2_up 10 ltac:(lia)) as [L10 _]. pose proof (ln_le_log2_up 2 ltac:(lia)) as [L2 _].
  apply (convert_large_route_error (Build_radix 10 eq_refl) radix2 10 1 0 0 s (ln 10) (ln 2) 0 0 1); try lia.
  all: cbn [radix_val]; change (radix_val radix2) with 2%Z; change (IZR (2 ^ (2 * 10 - 1))) with 524288;
    assert (Pi : 0 < / 524288) by (apply Rinv_0_lt_compat; lra).
  - replace (IZR (1 * (3 * Z.log2_up 2 + 5 * Z.abs 0 * Z.log2_up 10))) with 3 by (vm_compute; reflexivity). lra.
  - lra.
  - rewrite Rminus_eq_0, Rabs_R0. nra.
  - rewrite Rminus_eq_0, Rabs_R0. nra.
  - rewrite Rmult_0_l, Rminus_eq_0, Rabs_R0. lra.
  - lra.
  - rewrite Rmult_0_l, !Rminus_eq_0, Rabs_R0. lra.
  - rewrite exp_0, Rminus_eq_0, Rabs_R0. lra.
  - rewrite Rminus_eq_0, Rabs_R0. apply Rmult_le_pos; [left; apply bpow_gt_0 | apply Rabs_pos].
Qed.

Example large_route_check_ex :
  let r := (- 0xe006890c5e5aba3f48a41a6adc1267645e96cd1584772b07b52a0c3a5883fffffffffffffffffffffff)%Z in
  large_route_check 4 10 2 332 100 (-98 * 10 ^ 100) 1 r 7 = Some true /\
  large_route_check 4 10 2 332 100 (-98 * 10 ^ 100) 1 (r + 2) 7 = Some false /\
  large_route_check 4 10 2 3 100 (-98 * 10 ^ 100) 1 (-7) 336 = None.
Proof. vm_compute. repeat split. Qed.
