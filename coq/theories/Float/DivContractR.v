(** End to end for division: the result of repr_div (hence Context::div, Context::inv and the / operators)
    against the real quotient x = (s1 * B^e1) / (s2 * B^e2), in the words of the property: error below one ulp
    at precision p (ulp_p(x) = B^(e_x - p + 1), B^e_x <= |x| < B^(e_x+1)), half an ulp for the nearest modes,
    the prescribed side, truthful flags, Exact iff equal. *)
From Coq Require Import ZArith Reals Lra Lia.
From Dashu Require Import Base.Prelude Float.RoundSpec Float.RoundSpecProof Float.Contract Float.Model Float.ModelProof
  Float.AddModel Float.DivMulModel Float.DivMulProof Float.ContractProof.
From DashuGen Require Import RoundTables.
Open Scope Z_scope.

Section DivContractR.
Variable B : Z.
Hypothesis B_ge_2 : 2 <= B.

Local Notation bpow := (bpow B).
Local Notation fval := (fval B).

Lemma bpow_lt_inv a b : (bpow a < bpow b)%R -> a < b.
Proof.
  intros H. destruct (Z.lt_ge_cases a b) as [|Hge]; [assumption|].
  pose proof (bpow_le B B_ge_2 b a Hge). lra.
Qed.

(** a value x = (N / D) * U with U = B^t, rounded to r * U with |r D - N| < D while |N / D| >= B^(p-1):
    one unit U is at most one ulp of x at precision p *)
Lemma unit_le_ulp p t N D ex : 1 <= p -> 0 < D -> B ^ (p - 1) * D <= Z.abs N ->
  let x := (IZR N / IZR D * bpow t)%R in
  (Rabs x < bpow (ex + 1))%R -> (bpow t <= bpow (ex - p + 1))%R.
Proof.
  intros Hp HD HN x Hx. apply (bpow_le B B_ge_2).
  assert (HDr : (0 < IZR D)%R) by (apply IZR_lt; exact HD).
  assert (Hlow : (bpow (p - 1 + t) <= Rabs x)%R).
  { unfold x. pose proof (bpow_pos B B_ge_2 t) as Ht.
    rewrite Rabs_mult, (Rabs_right (bpow t)) by lra.
    unfold Rdiv. rewrite Rabs_mult, (Rabs_right (/ IZR D)) by (apply Rle_ge; left; apply Rinv_0_lt_compat; exact HDr).
    rewrite <- abs_IZR. rewrite (bpow_add B B_ge_2), (bpow_Z B (p - 1)) by lia.
    apply Rmult_le_compat_r; [lra|].
    apply IZR_le in HN. rewrite mult_IZR in HN.
    apply (Rmult_le_reg_r (IZR D)); [exact HDr|]. rewrite Rmult_assoc, Rinv_l, Rmult_1_r by lra. exact HN. }
  assert (p - 1 + t < ex + 1) by (apply bpow_lt_inv; lra). lia.
Qed.

Lemma scaled_err r N D t : 0 < D ->
  (IZR r * bpow t - IZR N / IZR D * bpow t = IZR (r * D - N) / IZR D * bpow t)%R.
Proof. intros HD. assert (0 < IZR D)%R by (apply IZR_lt; exact HD). rewrite minus_IZR, mult_IZR. field. lra. Qed.

Lemma Rabs_scaled z D t : 0 < D -> Rabs (IZR z / IZR D * bpow t) = (IZR (Z.abs z) / IZR D * bpow t)%R.
Proof.
  intros HD. assert (HDr : (0 < IZR D)%R) by (apply IZR_lt; exact HD). pose proof (bpow_pos B B_ge_2 t).
  rewrite Rabs_mult, (Rabs_right (bpow t)) by lra. unfold Rdiv.
  rewrite Rabs_mult, (Rabs_right (/ IZR D)) by (apply Rle_ge; left; apply Rinv_0_lt_compat; exact HDr).
  rewrite abs_IZR. reflexivity.
Qed.

(** order of r * U and (N / D) * U from the integer order of r * D and N *)
Lemma scaled_lt r N D t : 0 < D -> r * D < N -> (IZR r * bpow t < IZR N / IZR D * bpow t)%R.
Proof.
  intros HD H. assert (HDr : (0 < IZR D)%R) by (apply IZR_lt; exact HD). pose proof (bpow_pos B B_ge_2 t).
  apply Rmult_lt_compat_r; [assumption|]. apply IZR_lt in H. rewrite mult_IZR in H.
  apply (Rmult_lt_reg_r (IZR D)); [exact HDr|]. unfold Rdiv. rewrite Rmult_assoc, Rinv_l, Rmult_1_r by lra. exact H.
Qed.
Lemma scaled_gt r N D t : 0 < D -> N < r * D -> (IZR N / IZR D * bpow t < IZR r * bpow t)%R.
Proof.
  intros HD H. assert (HDr : (0 < IZR D)%R) by (apply IZR_lt; exact HD). pose proof (bpow_pos B B_ge_2 t).
  apply Rmult_lt_compat_r; [assumption|]. apply IZR_lt in H. rewrite mult_IZR in H.
  apply (Rmult_lt_reg_r (IZR D)); [exact HDr|]. unfold Rdiv. rewrite Rmult_assoc, Rinv_l, Rmult_1_r by lra. exact H.
Qed.

(** [rounded_quot] read over the reals, in units U = B^t *)
Theorem rounded_quot_R p m N D t a ex : 1 <= p -> 0 < D -> rounded_quot B p m N D a ->
  let x := (IZR N / IZR D * bpow t)%R in
  (bpow ex <= Rabs x < bpow (ex + 1))%R ->
  match a with
  | AExact q _ => (IZR q * bpow t)%R = x
  | AInexact r _ f =>
      let v := (IZR r * bpow t)%R in let u := bpow (ex - p + 1) in
      v <> x /\ (Rabs (v - x) < u)%R /\ (is_half_mode m = true -> 2 * Rabs (v - x) <= u)%R /\
      side_R m v x /\ (f = AddOne -> x < v)%R /\ (f = SubOne -> v < x)%R
  end.
Proof.
  intros Hp HD H x [Hex1 Hex2]. assert (HDr : (0 < IZR D)%R) by (apply IZR_lt; exact HD).
  pose proof (bpow_pos B B_ge_2 t) as Ht.
  pose proof (rounded_quot_contract B B_ge_2 p m N D a Hp HD H) as C.
  destruct a as [q e|r e f].
  - destruct C as [C _]. unfold x. rewrite <- C, mult_IZR. field. lra.
  - destruct C as (Hne & _ & E1 & HwL & E2 & Hside & Hf1 & Hf2 & _).
    cbv zeta. pose proof (unit_le_ulp p t N D ex Hp HD HwL Hex2) as HU. fold x in HU.
    assert (Herr : Rabs (IZR r * bpow t - x) = (IZR (Z.abs (r * D - N)) / IZR D * bpow t)%R).
    { unfold x. rewrite scaled_err by exact HD. apply Rabs_scaled. exact HD. }
    assert (Hlt1 : (IZR (Z.abs (r * D - N)) / IZR D < 1)%R).
    { apply IZR_lt in E1. apply (Rmult_lt_reg_r (IZR D)); [exact HDr|]. unfold Rdiv. rewrite Rmult_assoc, Rinv_l by lra. lra. }
    split.
    { intros Heq. assert (Rabs (IZR r * bpow t - x) = 0%R) by (rewrite Heq, Rminus_diag_eq, Rabs_R0; reflexivity).
      rewrite Herr in H0. assert (IZR (Z.abs (r * D - N)) = 0%R).
      { apply (Rmult_eq_reg_r (/ IZR D * bpow t)); [|apply Rmult_integral_contrapositive_currified; [apply Rinv_neq_0_compat|]; lra].
        unfold Rdiv in H0. rewrite Rmult_0_l. lra. }
      apply eq_IZR in H1. lia. }
    split. { rewrite Herr. assert (IZR (Z.abs (r * D - N)) / IZR D * bpow t < 1 * bpow t)%R by (apply Rmult_lt_compat_r; assumption). lra. }
    split.
    { intros Hm. specialize (E2 Hm). rewrite Herr.
      assert (2 * (IZR (Z.abs (r * D - N)) / IZR D) <= 1)%R.
      { apply IZR_le in E2. rewrite mult_IZR in E2. apply (Rmult_le_reg_r (IZR D)); [exact HDr|].
        unfold Rdiv. rewrite Rmult_assoc, Rmult_assoc, Rinv_l by lra. lra. }
      assert (2 * (IZR (Z.abs (r * D - N)) / IZR D) * bpow t <= 1 * bpow t)%R by (apply Rmult_le_compat_r; lra). lra. }
    assert (Hsx : ((0 < x)%R -> 0 < N) /\ ((x < 0)%R -> N < 0)).
    { unfold x. split; intros Hs.
      - destruct (Z.lt_ge_cases 0 N) as [|Hge]; [assumption|]. exfalso. apply IZR_le in Hge.
        assert (IZR N / IZR D <= 0)%R by (unfold Rdiv; assert (0 < / IZR D)%R by (apply Rinv_0_lt_compat; lra); nra). nra.
      - destruct (Z.lt_ge_cases N 0) as [|Hge]; [assumption|]. exfalso. apply IZR_le in Hge.
        assert (0 <= IZR N / IZR D)%R by (unfold Rdiv; assert (0 < / IZR D)%R by (apply Rinv_0_lt_compat; lra); nra). nra. }
    destruct Hsx as [Hsp Hsn].
    pose proof (Z.pow_pos_nonneg B (p - 1) ltac:(lia) ltac:(lia)) as HBp.
    split.
    { destruct m; cbn [side_R side_ok] in *; try exact I.
      - split; intros Hs; [apply scaled_lt; [exact HD|]; specialize (Hsp Hs); lia | apply scaled_gt; [exact HD|]; specialize (Hsn Hs); lia].
      - split; intros Hs; [apply scaled_gt; [exact HD|]; specialize (Hsp Hs); nia | apply scaled_lt; [exact HD|]; specialize (Hsn Hs); nia].
      - apply scaled_gt; [exact HD | lia].
      - apply scaled_lt; [exact HD | lia]. }
    split; intros Hf; [apply scaled_gt; [exact HD | auto] | apply scaled_lt; [exact HD | auto]].
Qed.

(** repr_div against the real quotient of the operands *)
Theorem repr_div_contract_R p m s1 e1 s2 e2 ex : 1 <= p -> s2 <> 0 -> dlen B s1 <= p + dlen B s2 ->
  let x := (fval s1 e1 / fval s2 e2)%R in
  (bpow ex <= Rabs x < bpow (ex + 1))%R ->
  exists a, repr_div B p m s1 e1 s2 e2 = Ok a /\
  match a with
  | AExact q e => fval q e = x
  | AInexact r e f =>
      let v := fval r e in let u := bpow (ex - p + 1) in
      v <> x /\ (Rabs (v - x) < u)%R /\ (is_half_mode m = true -> 2 * Rabs (v - x) <= u)%R /\
      side_R m v x /\ (f = AddOne -> x < v)%R /\ (f = SubOne -> v < x)%R
  end.
Proof.
  intros Hp Hs Hpre x Hex.
  destruct (repr_div_rounded B B_ge_2 p m s1 e1 s2 e2 Hp Hs Hpre) as (Hk & a & E & He & RQ).
  set (k := repr_div_shift B p s1 s2) in *. set (t := e1 - e2 - k) in *.
  assert (HD : 0 < Z.abs s2) by lia.
  assert (Ex : x = (IZR (Z.sgn s2 * (s1 * B ^ k)) / IZR (Z.abs s2) * bpow t)%R).
  { unfold x, ContractProof.fval, t. rewrite !mult_IZR, <- (bpow_Z B k) by exact Hk.
    replace e1 with ((e1 - e2 - k) + k + e2) at 1 by lia. rewrite !(bpow_add B B_ge_2).
    pose proof (bpow_pos B B_ge_2 e2). pose proof (bpow_pos B B_ge_2 k). pose proof (bpow_pos B B_ge_2 (e1 - e2 - k)).
    assert (IZR s2 <> 0)%R by (apply not_0_IZR; exact Hs).
    destruct (Z.lt_trichotomy s2 0) as [Hn|[Hz|Hpz]]; [|contradiction|].
    - rewrite Z.sgn_neg, Z.abs_neq, opp_IZR by lia. field. split; lra.
    - rewrite Z.sgn_pos, Z.abs_eq by lia. field. split; lra. }
  exists a. split; [exact E|].
  rewrite Ex in Hex. pose proof (rounded_quot_R p m _ _ t a ex Hp HD RQ Hex) as C.
  destruct a as [q e|r e f]; cbn [approx_exp] in He; subst e; unfold ContractProof.fval; rewrite Ex; exact C.
Qed.

End DivContractR.
