(** C03 round 3: Context::sqrt (AddModel.ctx_sqrt, transcribed from float/src/root.rs) for a radicand of ANY
    length.  A radicand with more than 2p - (parity) digits is cut: the integer root of the kept prefix is
    rounded once with a half test on (remainder, cut-off part); the result is exact only if both vanish
    (repaired in this round: a perfect-square prefix with a non-zero cut-off part was flagged Exact). *)
From Dashu Require Import Base.Prelude Float.RoundSpec Float.RoundTablesProof Float.RoundSpecProof
  Float.Contract Float.Model Float.ModelProof Float.AddModel Float.AddModelProof Float.SqrtModelProof
  Float.DivMulModel Float.LongModel.
From DashuGen Require Import RoundTables.
From Coq Require Import ZifyBool.
Open Scope Z_scope.

(** [sqrt_round_frac] is the documented contract for the square root of M / K *)
Theorem sqrt_round_frac_contract m M K : 0 <= M -> 0 < K ->
  let t := Z.sqrt (M / K) in let R := sqrt_round_frac m M K in
  0 <= t /\ t * t * K <= M < (t + 1) * (t + 1) * K /\ (R = t \/ R = t + 1) /\
  (t * t * K <> M ->
   match m with
   | MDown | MZero => R * R * K < M
   | MUp | MAway => M < R * R * K
   | MHalfAway => (R = t -> 4 * M < (2 * t + 1) * (2 * t + 1) * K) /\ (R = t + 1 -> (2 * t + 1) * (2 * t + 1) * K <= 4 * M)
   | MHalfEven => (R = t -> 4 * M <= (2 * t + 1) * (2 * t + 1) * K) /\ (R = t + 1 -> (2 * t + 1) * (2 * t + 1) * K <= 4 * M) /\
                  (4 * M = (2 * t + 1) * (2 * t + 1) * K -> Z.even R = true)
   end).
Proof.
  intros HM HK t R.
  pose proof (Z.div_mod M K ltac:(lia)) as E. pose proof (Z.mod_pos_bound M K HK) as Hm.
  assert (Hh : 0 <= M / K) by (apply Z.div_pos; lia).
  pose proof (Z.sqrt_spec (M / K) Hh) as [SL SU]. fold t in SL, SU.
  replace (Z.succ t) with (t + 1) in SU by lia.
  pose proof (Z.sqrt_nonneg (M / K)) as Ht. fold t in Ht.
  set (h := M / K) in *. set (l := M mod K) in *.
  assert (W : t * t * K <= M < (t + 1) * (t + 1) * K) by nia.
  split; [exact Ht|]. split; [exact W|].
  assert (HR : R = t \/ R = t + 1).
  { subst R. unfold sqrt_round_frac. fold h. fold t. destruct m; auto.
    - destruct (_ ?= _); auto. destruct (Z.even t); auto.
    - destruct (_ <? _); auto. }
  split; [exact HR|]. intros Hne.
  subst R. unfold sqrt_round_frac. fold h. fold t. destruct m; try nia.
  - (* HalfEven *)
    destruct (Z.compare_spec (4 * M) ((2 * t + 1) * (2 * t + 1) * K)) as [C|C|C].
    + destruct (Z.even t) eqn:Ev.
      * split; [lia | split; [lia | intros _; exact Ev]].
      * split; [lia | split; [lia | intros _]]. rewrite Z.even_add, Ev. reflexivity.
    + split; [lia | split; [lia | intros C2; lia]].
    + split; [lia | split; [lia | intros C2; lia]].
  - (* HalfAway *)
    destruct (Z.ltb_spec (4 * M) ((2 * t + 1) * (2 * t + 1) * K)); split; lia.
Qed.

Lemma table_eq m t : 0 <= t ->
  adj (round_low_part m t Positive Eq) =
  match m with MDown | MZero => 0 | MUp | MAway | MHalfAway => 1 | MHalfEven => if Z.even t then 0 else 1 end.
Proof.
  intros Ht. pose proof (T_round m t 2 4 ltac:(lia) ltac:(lia) ltac:(lia)) as T.
  change (sign_of 2) with Positive in T. change (2 * Z.abs 2 ?= 4) with Eq in T.
  assert (D : (t * 4 + 2) / 4 = t /\ (t * 4 + 2) mod 4 = 2) by (apply div_pos_frac; lia).
  destruct D as [D1 D2].
  assert (Q : Z.quot (t * 4 + 2) 4 = t) by (rewrite Z.quot_div_nonneg by lia; exact D1).
  destruct m; cbn [spec_round] in T.
  - rewrite Q in T. lia.
  - rewrite D2, Q in T. cbn [Z.eqb] in T. rewrite Z.sgn_pos in T by lia. lia.
  - assert ((- (t * 4 + 2)) / 4 = - t - 1) by (symmetry; apply Z.div_unique with 2; lia). lia.
  - lia.
  - rewrite D1, D2 in T. cbn [Z.mul Z.compare Pos.mul Pos.compare Pos.compare_cont] in T. destruct (Z.even t); lia.
  - rewrite Z.sgn_pos, Z.abs_eq in T by lia.
    assert ((2 * (t * 4 + 2) + 4) / (2 * 4) = t + 1) by (symmetry; apply Z.div_unique with 0; lia). lia.
Qed.

(** arithmetic helpers, stated with small contexts so that nia stays fast without a certificate cache *)
Lemma sqrt_window hi t P1 P : 0 <= t -> 0 < P1 -> 0 < P -> t * t <= hi < (t + 1) * (t + 1) ->
  P1 * P1 <= hi < P * P -> P1 <= t < P.
Proof. intros Ht H1 H2 Hs Hw. split; nia. Qed.

Lemma half_cmp_lex hi lo K t : 0 < K -> 0 <= lo < K -> 0 <= t -> t * t <= hi ->
  (match hi - t * t ?= t with Eq => lo * 4 ?= K | c => c end) = (4 * (hi * K + lo) ?= (2 * t + 1) * (2 * t + 1) * K).
Proof.
  intros HK Hlo Ht Hs. symmetry. destruct (Z.compare_spec (hi - t * t) t) as [C|C|C].
  - assert (E : hi = t * t + t) by lia. subst hi.
    destruct (Z.compare_spec (lo * 4) K) as [C2|C2|C2].
    + apply Z.compare_eq_iff. nia.
    + apply Z.compare_lt_iff. nia.
    + apply Z.compare_gt_iff. nia.
  - apply Z.compare_lt_iff. assert (hi + 1 <= t * t + t) by lia. nia.
  - apply Z.compare_gt_iff. assert (t * t + t + 1 <= hi) by lia. nia.
Qed.

Lemma div_window s K lo hi L U : 0 < K -> s = K * hi + lo -> 0 <= lo < K -> L * K <= s < U * K -> L <= hi < U.
Proof. intros HK E Hlo [H1 H2]. split; nia. Qed.

Section SqrtLong.
Variable B : Z.
Hypothesis B_ge_2 : 2 <= B.
Local Notation Bpos := (Bpow_pos B B_ge_2).

(** what a correct square root of (M / K) * B^(2k) is *)
Definition rounded_sqrt_frac (p : Z) (m : mode) (M K k : Z) (a : approx) : Prop :=
  let t := Z.sqrt (M / K) in
  match a with
  | AExact r e => (exists j, 0 <= j /\ e = k + j /\ (r * B ^ j) * (r * B ^ j) * K = M) \/ (r = 0 /\ M = 0)
  | AInexact r e f =>
      exists j, 0 <= j /\ e = k + j /\
        t * t * K <> M /\ r * B ^ j = sqrt_round_frac m M K /\
        f = (if sqrt_round_frac m M K =? t then NoOp else AddOne) /\
        B ^ (p - 1) <= r * B ^ j <= B ^ p /\ dlen B r <= p
  end.

Theorem ctx_sqrt_long p m s e : 1 <= p -> 0 <= s ->
  let shift := sqrt_shift B p s e in
  let M := fst (sqrt_radicand B p s e) in
  let K := snd (sqrt_radicand B p s e) in
  e - shift = 2 * ((e - shift) / 2) /\ 0 < K /\ 0 <= M /\
  M = s * B ^ (Z.max shift 0) /\ K = B ^ (Z.max (- shift) 0) /\
  exists a, ctx_sqrt B p m s e = Ok a /\ rounded_sqrt_frac p m M K ((e - shift) / 2) a.
Proof.
  intros Hp Hs shift M K.
  pose proof (dlen_nonneg B B_ge_2 s) as Hd0.
  pose proof (Z.mod_pos_bound (dlen B s + e) 2 ltac:(lia)) as Hpar.
  assert (Hshift : shift = p * 2 - (dlen B s + e) mod 2 - dlen B s) by reflexivity.
  assert (Heven : e - shift = 2 * ((e - shift) / 2)).
  { pose proof (Z.div_mod (dlen B s + e) 2 ltac:(lia)) as E.
    assert ((e - shift) mod 2 = 0).
    { replace (e - shift) with ((dlen B s + e) mod 2 + (dlen B s + e) + (- p) * 2) by lia.
      rewrite Z.mod_add by lia. rewrite E at 2.
      replace ((dlen B s + e) mod 2 + (2 * ((dlen B s + e) / 2) + (dlen B s + e) mod 2))
        with (((dlen B s + e) mod 2 + (dlen B s + e) / 2) * 2) by ring.
      apply Z.mod_mul. lia. }
    pose proof (Z.div_mod (e - shift) 2 ltac:(lia)). lia. }
  split; [exact Heven|].
  (* the radicand in both arms of the scaling: signif = M / K, low = M mod K, B^low_digits = K *)
  assert (HMK : M = s * B ^ (Z.max shift 0) /\ K = B ^ (Z.max (- shift) 0)).
  { unfold M, K, sqrt_radicand. fold shift. destruct (Z.gtb_spec shift 0).
    - cbn [fst snd]. rewrite Z.max_l, Z.max_r by lia. rewrite Z.pow_0_r. auto.
    - cbn [fst snd]. rewrite Z.max_r, Z.max_l by lia. rewrite Z.pow_0_r, Z.mul_1_r. auto. }
  destruct HMK as [EM EK].
  assert (HK : 0 < K) by (rewrite EK; apply Bpos; lia).
  assert (HM : 0 <= M) by (rewrite EM; pose proof (Bpos (Z.max shift 0) ltac:(lia)); nia).
  split; [exact HK|]. split; [exact HM|]. split; [exact EM|]. split; [exact EK|].
  unfold ctx_sqrt. destruct (Z.eqb_spec p 0) as [|_]; [lia|].
  destruct (Z.ltb_spec s 0) as [|_]; [lia|].
  fold (sqrt_shift B p s e). fold shift.
  set (hi := M / K). set (lo := M mod K).
  pose proof (Z.div_mod M K ltac:(lia)) as EDM. pose proof (Z.mod_pos_bound M K HK) as Hlo. fold hi lo in EDM, Hlo.
  assert (Hhi0 : 0 <= hi) by (apply Z.div_pos; lia).
  assert (Hsig : exists ld, (if shift >? 0 then (shl_digits B s shift, 0, 0)
                  else let '(hi, lo) := split_digits B s (- shift) in (hi, lo, - shift)) = (hi, lo, ld) /\ B ^ ld = K).
  { destruct (Z.gtb_spec shift 0) as [G|G].
    - exists 0. assert (K = 1) by (rewrite EK, Z.max_r by lia; apply Z.pow_0_r).
      split; [|rewrite Z.pow_0_r; lia]. unfold hi, lo, shl_digits. replace K with 1 by lia.
      rewrite Z.div_1_r, Z.mod_1_r, EM, Z.max_l by lia. reflexivity.
    - exists (- shift). assert (EK2 : K = B ^ (- shift)) by (rewrite EK, Z.max_l by lia; reflexivity).
      assert (EM2 : M = s) by (rewrite EM, Z.max_r by lia; rewrite Z.pow_0_r; ring).
      split; [|lia]. unfold split_digits. rewrite <- EK2.
      rewrite Z.quot_div_nonneg, Z.rem_mod_nonneg by lia. unfold hi, lo. rewrite EM2. reflexivity. }
  destruct Hsig as (ld & -> & HKld). rewrite HKld.
  rewrite (Z.abs_eq hi Hhi0).
  set (t := Z.sqrt hi). pose proof (Z.sqrt_spec hi Hhi0) as [SL SU]. fold t in SL, SU.
  replace (Z.succ t) with (t + 1) in SU by lia.
  pose proof (Z.sqrt_nonneg hi) as Ht. fold t in Ht.
  set (k := (e - shift) / 2).
  assert (Hq : Z.quot (e - shift) 2 = k).
  { unfold k. rewrite Heven at 1. rewrite Z.mul_comm, Z.quot_mul by lia. reflexivity. }
  rewrite Hq.
  (* digits of the kept prefix: B^(2p-2) <= hi < B^(2p) unless s = 0 *)
  assert (Hwin : s <> 0 -> B ^ (p - 1) * B ^ (p - 1) <= hi < B ^ p * B ^ p).
  { intros Hs0. destruct (dlen_spec B B_ge_2 s Hs0) as [[L U] G]. rewrite Z.abs_eq in L, U by lia.
    rewrite <- !Z.pow_add_r by lia.
    assert (HL2 : B ^ (p - 1 + (p - 1)) <= B ^ (dlen B s - 1 + shift)) by (apply pow_le_mono; [exact B_ge_2 | lia]).
    assert (HU2 : B ^ (dlen B s + shift) <= B ^ (p + p)) by (apply pow_le_mono; [exact B_ge_2 | lia]).
    destruct (Z.le_gt_cases 0 shift) as [G0|G0].
    - assert (K = 1) by (rewrite EK, Z.max_r by lia; apply Z.pow_0_r).
      assert (hi = s * B ^ shift) by (unfold hi; replace K with 1 by lia; rewrite Z.div_1_r, EM, Z.max_l by lia; reflexivity).
      rewrite (Z.pow_add_r B (dlen B s - 1) shift) in HL2 by lia. rewrite (Z.pow_add_r B (dlen B s) shift) in HU2 by lia.
      pose proof (Bpos shift G0). nia.
    - assert (EK2 : K = B ^ (- shift)) by (rewrite EK, Z.max_l by lia; reflexivity).
      assert (EM2 : M = s) by (rewrite EM, Z.max_r by lia; rewrite Z.pow_0_r; ring).
      (* s = hi * K + lo with 0 <= lo < K and B^(d-1) <= s < B^d, d + shift >= 1 *)
      assert (Hd1 : B ^ (dlen B s - 1) = B ^ (dlen B s - 1 + shift) * K).
      { rewrite EK2, <- Z.pow_add_r by lia. f_equal. lia. }
      assert (Hd2 : B ^ (dlen B s) = B ^ (dlen B s + shift) * K).
      { rewrite EK2, <- Z.pow_add_r by lia. f_equal. lia. }
      pose proof (Bpos (dlen B s - 1 + shift) ltac:(lia)). pose proof (Bpos (dlen B s + shift) ltac:(lia)).
      rewrite EM2 in EDM.
      assert (DW : B ^ (dlen B s - 1 + shift) <= hi < B ^ (dlen B s + shift)).
      { apply (div_window s K lo hi); [exact HK | exact EDM | exact Hlo | rewrite <- Hd1, <- Hd2; lia]. }
      clear - DW HL2 HU2. lia. }
  pose proof (Bpos (p - 1) ltac:(lia)) as HP1. pose proof (Bpos p ltac:(lia)) as HPp.
  assert (HtW : s <> 0 -> B ^ (p - 1) <= t < B ^ p).
  { intros Hs0. specialize (Hwin Hs0). apply (sqrt_window hi t); try assumption. lia. }
  assert (HtU : t < B ^ p).
  { destruct (Z.eq_dec s 0) as [Hs0|Hs0].
    - assert (hi = 0) by (unfold hi; rewrite EM, Hs0; apply Z.div_0_l; lia). subst t. rewrite H. cbn. lia.
    - apply HtW. exact Hs0. }
  eexists. split; [reflexivity|].
  destruct ((hi - t * t =? 0) && (lo =? 0)) eqn:Ex.
  - (* exact: perfect square and nothing cut off *)
    apply Bool.andb_true_iff in Ex. destruct Ex as [Hsq Hl0]. apply Z.eqb_eq in Hsq, Hl0.
    cbn [approx_and_then].
    pose proof (normalize_spec B B_ge_2 t k) as NS. destruct (normalize B t k) as [s' e'].
    destruct NS as [N0 N1].
    destruct (Z.eq_dec t 0) as [Ht0|Htn].
    + destruct (N0 Ht0) as [-> ->]. rewrite (repr_round_exact B) by (rewrite dlen_zero; lia).
      unfold rounded_sqrt_frac. right. split; [reflexivity | clear - Hsq Hl0 EDM Ht0; nia].
    + destruct (N1 Htn) as (Hs' & Hmod & j & Hj & Ee & Es).
      assert (Hfit : dlen B s' <= p).
      { apply (normalized_fits B B_ge_2 p t s'); [exact Hp | clear - Ht HtU; lia | exact Hmod | exists j; auto]. }
      rewrite (repr_round_exact B) by exact Hfit. unfold rounded_sqrt_frac. left. exists j.
      split; [exact Hj|]. split; [exact Ee|]. rewrite <- Es. clear - Hsq Hl0 EDM. nia.
  - (* inexact: one rounding of the integer root, half test on (remainder, cut-off part) *)
    assert (Hpos : 0 < (hi - t * t) * K + lo).
    { apply Bool.andb_false_iff in Ex. destruct Ex as [Ex|Ex]; apply Z.eqb_neq in Ex; clear - Ex SL Hlo HK; nia. }
    assert (Hne : t * t * K <> M) by (clear - Hpos EDM; nia).
    assert (Hs0 : s <> 0).
    { intros Hz. assert (M = 0) by (rewrite EM, Hz; ring). clear - H Hpos EDM SL Hlo HK Hhi0. nia. }
    assert (HtL : B ^ (p - 1) <= t) by (apply HtW; exact Hs0).
    set (c := match hi - t * t ?= t with Eq => lo * 4 ?= K | c => c end).
    assert (Hc : c = (4 * M ?= (2 * t + 1) * (2 * t + 1) * K)).
    { unfold c. rewrite EDM. rewrite (Z.mul_comm K hi). apply half_cmp_lex; assumption. }
    fold c.
    assert (Hadj : t + adj (round_low_part m t Positive c) = sqrt_round_frac m M K /\
                   round_low_part m t Positive c = (if sqrt_round_frac m M K =? t then NoOp else AddOne)).
    { unfold sqrt_round_frac. fold hi. fold t. rewrite <- Hc.
      pose proof (table_lt m t Ht) as TL. pose proof (table_gt m t Ht) as TG. pose proof (table_eq m t Ht) as TE.
      assert (Hne1 : (t + 1 =? t) = false) by (apply Z.eqb_neq; lia).
      destruct c eqn:Ec.
      - (* tie *)
        assert (Hlt : (4 * M <? (2 * t + 1) * (2 * t + 1) * K) = false).
        { apply Z.ltb_ge. assert (C0 : (4 * M ?= (2 * t + 1) * (2 * t + 1) * K) = Eq) by congruence. apply Z.compare_eq_iff in C0. lia. }
        rewrite Hlt.
        destruct (round_low_part m t Positive Eq) eqn:ER; destruct m; cbn [adj] in *; try lia;
          try (destruct (Z.even t)); try lia;
          rewrite ?Z.add_0_r, ?Z.eqb_refl, ?Hne1; split; reflexivity.
      - assert (Hlt : (4 * M <? (2 * t + 1) * (2 * t + 1) * K) = true).
        { apply Z.ltb_lt. unfold Z.lt. congruence. }
        rewrite Hlt.
        destruct (round_low_part m t Positive Lt) eqn:ER; destruct m; cbn [adj] in *; try lia;
          rewrite ?Z.add_0_r, ?Z.eqb_refl, ?Hne1; split; reflexivity.
      - assert (Hlt : (4 * M <? (2 * t + 1) * (2 * t + 1) * K) = false).
        { apply Z.ltb_ge. assert (C0 : (4 * M ?= (2 * t + 1) * (2 * t + 1) * K) = Gt) by congruence. apply Z.compare_gt_iff in C0. lia. }
        rewrite Hlt.
        destruct (round_low_part m t Positive Gt) eqn:ER; destruct m; cbn [adj] in *; try lia;
          rewrite ?Z.add_0_r, ?Z.eqb_refl, ?Hne1; split; reflexivity. }
    destruct Hadj as [HR Hflag]. set (R := sqrt_round_frac m M K) in *.
    assert (HRt : R = t \/ R = t + 1).
    { pose proof (sqrt_round_frac_contract m M K HM HK) as (_ & _ & H & _). exact H. }
    assert (HRw : B ^ (p - 1) <= R <= B ^ p) by (clear - HRt HtL HtU; lia).
    rewrite HR. cbn [approx_and_then].
    pose proof (normalize_spec B B_ge_2 R k) as NS. destruct (normalize B R k) as [s' e'].
    destruct NS as [_ N1]. destruct (N1 ltac:(lia)) as (Hs' & Hmod & j & Hj & Ee & Es).
    assert (Hfit : dlen B s' <= p).
    { apply (normalized_fits B B_ge_2 p R s'); [exact Hp | clear - HRw HP1; lia | exact Hmod | exists j; auto]. }
    rewrite (repr_round_exact B) by exact Hfit. unfold rounded_sqrt_frac. exists j.
    split; [exact Hj|]. split; [exact Ee|]. split; [exact Hne|]. split; [clear - Es; lia|].
    split; [exact Hflag|]. split; [rewrite <- Es; exact HRw | exact Hfit].
Qed.

(** for operands that fit the precision (no cut-off part) this is the pinned specification [sqrt_round] *)
Theorem sqrt_round_frac_int m N : 0 <= N -> sqrt_round_frac m N 1 = sqrt_round m N.
Proof.
  intros HN. unfold sqrt_round_frac, sqrt_round. rewrite Z.div_1_r.
  set (t := Z.sqrt N). pose proof (Z.sqrt_nonneg N). fold t in H.
  destruct m; try reflexivity.
  - destruct (Z.compare_spec (4 * N) ((2 * t + 1) * (2 * t + 1) * 1)) as [C|C|C]; destruct (Z.leb_spec (N - t * t) t); try reflexivity; lia.
  - destruct (Z.ltb_spec (4 * N) ((2 * t + 1) * (2 * t + 1) * 1)); destruct (Z.leb_spec (N - t * t) t); try reflexivity; lia.
Qed.

End SqrtLong.

(** the repaired flag: sqrt(40001) at two digits is 2.0e2 rounded down, not an exact 2e2; a tie exists once a part
    is cut off: sqrt(225) = 15 = 1.5e1 at one digit *)
Example sqrt_long_nonvacuous :
  ctx_sqrt 10 2 MUp 40001 0 = Ok (AInexact 21 1 AddOne) /\ ctx_sqrt 10 2 MHalfEven 40001 0 = Ok (AInexact 2 2 NoOp) /\
  ctx_sqrt 10 1 MHalfEven 225 0 = Ok (AInexact 2 1 AddOne) /\ ctx_sqrt 10 1 MHalfAway 225 0 = Ok (AInexact 2 1 AddOne) /\
  ctx_sqrt 10 1 MHalfEven 625 0 = Ok (AInexact 2 1 NoOp) /\ ctx_sqrt 10 1 MDown 40000 0 = Ok (AExact 2 2) /\
  sqrt_radicand 10 2 40001 0 = (40001, 100) /\ sqrt_round_frac MUp 40001 100 = 21.
Proof. vm_compute. repeat split. Qed.
