(** C03 round 3: the f32 arithmetic of Round::round_fract's pre-filter, modelled with Flocq.

    The closure [test] of round_fract computes  lb + 0.999 > b_ub * (precision as f32)  and
    ub + 1.001 < b_lb * (precision as f32)  in IEEE binary32.  Flocq's IEEE754.Bits.b32_plus / b32_mult
    (round to nearest even) return, when they do not overflow, [round radix2 (FLT_exp (-149) 24) ZnearestE]
    of the exact sum / product (Bplus_correct, Bmult_correct) and Bcompare compares the real values.  That
    rounding is monotone (Flocq round_le), fixes 1 and every integer below 2^24, so the four hypotheses of
    FilterProof.round_fract_f32_eq are THEOREMS for it: the filter of the code never contradicts the exact
    comparison, with no assumption left about f32 arithmetic (only about the log2 bounds, C12). *)
From Coq Require Import ZArith QArith Reals Qreals Lra Lia.
From Flocq Require Import Core IEEE754.Binary IEEE754.Bits.
From Flocq Require IEEE754.BinarySingleNaN.
Notation mode_NE := BinarySingleNaN.mode_NE.
From Dashu Require Import Base.Prelude Float.RoundSpec Float.Contract Float.Model Float.AddModel Float.DivMulModel Float.FilterProof.
From DashuGen Require Import RoundTables FloatDivParams.
Open Scope Z_scope.

Definition fexp32 : Z -> Z := FLT_exp (-149) 24.
(** what a binary32 addition / multiplication does to the exact result (no overflow) *)
Definition fl32R (x : R) : R := round radix2 fexp32 ZnearestE x.

#[export] Instance fexp32_valid : Valid_exp fexp32.
Proof. apply FLT_exp_valid. unfold Prec_gt_0. lia. Qed.

(** 2^e as a rational *)
Definition q2pow (e : Z) : Q := if 0 <=? e then inject_Z (2 ^ e) else Qmake 1 (Z.to_pos (2 ^ (- e))).

Lemma Q2R_inject_Z k : Q2R (inject_Z k) = IZR k.
Proof. unfold Q2R, inject_Z. cbn [Qnum Qden]. field. Qed.

Lemma Q2R_q2pow e : Q2R (q2pow e) = bpow radix2 e.
Proof.
  unfold q2pow. destruct (Z.leb_spec 0 e) as [H|H].
  - rewrite Q2R_inject_Z. rewrite <- IZR_Zpower by exact H. reflexivity.
  - unfold Q2R. cbn [Qnum Qden]. rewrite Z2Pos.id by (apply Z.pow_pos_nonneg; lia).
    replace e with (- (- e)) at 2 by lia. rewrite bpow_opp. rewrite <- IZR_Zpower by lia.
    change (radix_val radix2) with 2. field. apply IZR_neq. pose proof (Z.pow_pos_nonneg 2 (- e) ltac:(lia) ltac:(lia)). lia.
Qed.

(** the same rounding on the rationals (f32 values are dyadic rationals); not meant to be executed *)
Definition fl32 (q : Q) : Q :=
  let x := Q2R q in
  (inject_Z (ZnearestE (scaled_mantissa radix2 fexp32 x)) * q2pow (cexp radix2 fexp32 x))%Q.

Lemma Q2R_fl32 q : Q2R (fl32 q) = fl32R (Q2R q).
Proof.
  unfold fl32, fl32R, round, F2R. cbn [Fnum Fexp]. rewrite Q2R_mult, Q2R_inject_Z, Q2R_q2pow. reflexivity.
Qed.

Theorem fl32_mono x y : (x <= y)%Q -> (fl32 x <= fl32 y)%Q.
Proof.
  intros H. apply Rle_Qle. rewrite !Q2R_fl32. apply round_le.
  - exact fexp32_valid.
  - apply valid_rnd_N.
  - apply Qle_Rle. exact H.
Qed.

(** integers below 2^24 are binary32 numbers: [precision as f32] is exact, and so is 1 *)
Lemma int_in_format k : Z.abs k < 2 ^ 24 -> generic_format radix2 fexp32 (IZR k).
Proof.
  intros H. apply generic_format_FLT. exists (Float radix2 k 0).
  - unfold F2R. cbn [Fnum Fexp bpow]. ring.
  - cbn [Fnum]. exact H.
  - cbn [Fexp]. lia.
Qed.

Theorem fl32_int k : Z.abs k < 2 ^ 24 -> (fl32 (inject_Z k) == inject_Z k)%Q.
Proof.
  intros H. apply eqR_Qeq. rewrite Q2R_fl32, Q2R_inject_Z. unfold fl32R.
  apply round_generic; [apply valid_rnd_N | apply int_in_format; exact H].
Qed.

(** [precision as f32] and the two literals as the compiler rounds them *)
Definition cvt32 (k : Z) : Q := fl32 (inject_Z k).
Definition c999_32 : Q := fl32 filter_c_gt_gen.
Definition c1001_32 : Q := fl32 filter_c_lt_gen.

Lemma cvt32_exact k : 0 <= k < 2 ^ 24 -> (cvt32 k == inject_Z k)%Q.
Proof. intros H. apply fl32_int. lia. Qed.

Lemma fl32_one : (fl32 1 == 1)%Q.
Proof. apply (fl32_int 1). cbn. lia. Qed.

Lemma c_bounds : (c999_32 <= 1)%Q /\ (1 <= c1001_32)%Q.
Proof.
  unfold c999_32, c1001_32. split.
  - rewrite <- fl32_one. apply fl32_mono. unfold filter_c_gt_gen, Qle. cbn. lia.
  - rewrite <- fl32_one at 1. apply fl32_mono. unfold filter_c_lt_gen, Qle. cbn. lia.
Qed.

(** Round::round_fract with the binary32 arithmetic of Flocq = the exact comparison: for every base, mode,
    sound log2 bounds and precision below 2^24 digits *)
Theorem round_fract_flocq32 B : 2 <= B ->
  forall (lb ub : Z -> Q) (b_lb b_ub : Q),
  (forall f, 0 < f -> (Q2R (lb f) <= log2R (IZR f) <= Q2R (ub f))%R) ->
  (Q2R b_lb <= log2R (IZR B) <= Q2R b_ub)%R ->
  forall m i fract k, 0 <= k < 2 ^ 24 ->
  round_fract_f32 fl32 cvt32 lb ub b_lb b_ub c999_32 c1001_32 B m i fract k = round_fract B m i fract k.
Proof.
  intros HB lb ub b_lb b_ub Hl Hb m i fract k Hk. destruct c_bounds as [C1 C2].
  apply round_fract_f32_eq; try assumption.
  - exact fl32_mono.
  - exact cvt32_exact.
Qed.

(** the link to the IEEE operations: without overflow, b32_plus / b32_mult in the mode nearest-even return
    fl32R of the exact result, and the comparison of two finite binary32 numbers is the comparison of reals *)
Theorem b32_ops_are_fl32R (x y : binary32) :
  is_finite 24 128 x = true -> is_finite 24 128 y = true ->
  ((Rabs (fl32R (B2R 24 128 x + B2R 24 128 y)) < bpow radix2 128)%R ->
     B2R 24 128 (b32_plus mode_NE x y) = fl32R (B2R 24 128 x + B2R 24 128 y) /\
     is_finite 24 128 (b32_plus mode_NE x y) = true) /\
  ((Rabs (fl32R (B2R 24 128 x * B2R 24 128 y)) < bpow radix2 128)%R ->
     B2R 24 128 (b32_mult mode_NE x y) = fl32R (B2R 24 128 x * B2R 24 128 y) /\
     is_finite 24 128 (b32_mult mode_NE x y) = true).
Proof.
  intros Fx Fy. split; intros Hov.
  - unfold b32_plus.
    match goal with |- context [Bplus 24 128 ?hp ?hm ?nan mode_NE x y] =>
      pose proof (Bplus_correct 24 128 hp hm nan mode_NE x y Fx Fy) as C end.
    change (round radix2 (FLT_exp (3 - 128 - 24) 24) (BinarySingleNaN.round_mode mode_NE)) with fl32R in C.
    rewrite Rlt_bool_true in C by exact Hov. destruct C as (C1 & C2 & _). split; assumption.
  - unfold b32_mult.
    match goal with |- context [Bmult 24 128 ?hp ?hm ?nan mode_NE x y] =>
      pose proof (Bmult_correct 24 128 hp hm nan mode_NE x y) as C end.
    change (round radix2 (FLT_exp (3 - 128 - 24) 24) (BinarySingleNaN.round_mode mode_NE)) with fl32R in C.
    rewrite Rlt_bool_true in C by exact Hov. destruct C as (C1 & C2 & _). split; [assumption|].
    rewrite C2, Fx, Fy. reflexivity.
Qed.

(** the first comparison of the closure, on binary32 values:  lb + 0.999 > b_ub * precision  *)
Theorem b32_filter_gt (lbv c bv kv : binary32) :
  is_finite 24 128 lbv = true -> is_finite 24 128 c = true -> is_finite 24 128 bv = true -> is_finite 24 128 kv = true ->
  (Rabs (fl32R (B2R 24 128 lbv + B2R 24 128 c)) < bpow radix2 128)%R ->
  (Rabs (fl32R (B2R 24 128 bv * B2R 24 128 kv)) < bpow radix2 128)%R ->
  (Bcompare 24 128 (b32_plus mode_NE lbv c) (b32_mult mode_NE bv kv) = Some Gt <->
   (fl32R (B2R 24 128 bv * B2R 24 128 kv) < fl32R (B2R 24 128 lbv + B2R 24 128 c))%R).
Proof.
  intros F1 F2 F3 F4 O1 O2.
  destruct (b32_ops_are_fl32R lbv c F1 F2) as [P _]. destruct (P O1) as [EP FP].
  destruct (b32_ops_are_fl32R bv kv F3 F4) as [_ M]. destruct (M O2) as [EM FM].
  rewrite Bcompare_correct by assumption. rewrite EP, EM.
  split.
  - intros H. injection H as H. apply Rcompare_Gt_inv in H. exact H.
  - intros H. f_equal. apply Rcompare_Gt. exact H.
Qed.

(** non-vacuity: 1 and 2^24 - 1 are fixed, 2^24 + 1 is not representable (rounds to 2^24) *)
Example flocq32_nonvacuous :
  (fl32 1 == 1)%Q /\ (cvt32 16777215 == inject_Z 16777215)%Q /\ (c999_32 <= 1)%Q /\ (1 <= c1001_32)%Q.
Proof.
  split; [exact fl32_one|]. split; [apply cvt32_exact; cbn; lia|]. exact c_bounds.
Qed.
