(** C08 (round 5): the integer rounding of the specification ([RoundSpec.spec_round]) is MONOTONE in the
    numerator, for every mode: the step "a rounding that agrees at both ends of an interval is constant on it"
    (LargeExpAsis5Proof.monotone_stable_between) applies to it.  Each mode is written as floor + bump. *)
From Dashu Require Import Base.Prelude Float.RoundSpec Float.RoundSpecProof.
From DashuGen Require Import RoundTables.
Open Scope Z_scope.

Definition bump (m : mode) (q r d : Z) : Z :=
  match m with
  | MDown => 0
  | MUp => if r =? 0 then 0 else 1
  | MZero => if (0 <=? q) || (r =? 0) then 0 else 1
  | MAway => if r =? 0 then 0 else if 0 <=? q then 1 else 0
  | MHalfAway => if 0 <=? q then (if d <=? 2 * r then 1 else 0) else (if d <? 2 * r then 1 else 0)
  | MHalfEven => match 2 * r ?= d with Lt => 0 | Gt => 1 | Eq => if Z.even q then 0 else 1 end
  end.

Lemma ceil_form N d : 0 < d -> - ((- N) / d) = N / d + (if N mod d =? 0 then 0 else 1).
Proof.
  intros Hd. pose proof (Z.div_mod N d ltac:(lia)) as E. pose proof (Z.mod_pos_bound N d Hd) as Bd.
  set (q := N / d) in *. set (r := N mod d) in *.
  destruct (Z.eqb_spec r 0) as [R0|R0].
  - assert ((- N) / d = - q) by (symmetry; apply (Z.div_unique (- N) d (- q) 0); lia). lia.
  - assert ((- N) / d = - q - 1) by (symmetry; apply (Z.div_unique (- N) d (- q - 1) (d - r)); lia). lia.
Qed.

Lemma quot_form N d : 0 < d -> Z.quot N d = N / d + (if (0 <=? N / d) || (N mod d =? 0) then 0 else 1).
Proof.
  intros Hd. pose proof (Z.div_mod N d ltac:(lia)) as E. pose proof (Z.mod_pos_bound N d Hd) as Bd.
  destruct (Z.leb_spec 0 (N / d)) as [Q|Q]; cbn [orb].
  - assert (0 <= N) by nia. rewrite Z.quot_div_nonneg by lia. lia.
  - assert (N < 0) by nia.
    replace N with (- - N) at 1 by lia. rewrite Z.quot_opp_l by lia. rewrite Z.quot_div_nonneg by lia.
    apply ceil_form. exact Hd.
Qed.

Theorem spec_round_floor_form m N d : 0 < d -> spec_round m N d = N / d + bump m (N / d) (N mod d) d.
Proof.
  intros Hd. pose proof (Z.div_mod N d ltac:(lia)) as E. pose proof (Z.mod_pos_bound N d Hd) as Bd.
  destruct m; cbn [spec_round bump].
  - (* Zero *) apply quot_form; exact Hd.
  - (* Away *)
    destruct (Z.eqb_spec (N mod d) 0) as [R0|R0]; [lia|].
    rewrite (quot_form N d Hd). destruct (Z.eqb_spec (N mod d) 0); [contradiction|]. rewrite Bool.orb_false_r.
    destruct (Z.leb_spec 0 (N / d)) as [Q|Q].
    + assert (0 < N) by nia. rewrite Z.sgn_pos by lia. lia.
    + assert (N < 0) by nia. rewrite Z.sgn_neg by lia. lia.
  - (* Up *) apply ceil_form; exact Hd.
  - (* Down *) lia.
  - (* HalfEven *) cbv zeta. destruct (2 * (N mod d) ?= d); [destruct (Z.even (N / d))|..]; rewrite ?Z.add_0_r; reflexivity.
  - (* HalfAway *)
    set (q := N / d) in *. set (r := N mod d) in *.
    destruct (Z.leb_spec 0 q) as [Q|Q].
    + assert (0 <= N) by nia.
      destruct (Z.eq_dec N 0) as [->|NZ].
      { unfold q, r. rewrite Z.div_0_l, Z.mod_0_l by lia. change (Z.sgn 0) with 0.
        destruct (Z.leb_spec d (2 * 0)); lia. }
      rewrite Z.sgn_pos, Z.abs_eq by lia. rewrite Z.mul_1_l.
      destruct (Z.leb_spec d (2 * r)).
      * symmetry. apply (Z.div_unique _ _ (q + 1) (2 * r - d)); lia.
      * symmetry. apply (Z.div_unique _ _ (q + 0) (2 * r + d)); lia.
    + assert (N < 0) by nia. rewrite Z.sgn_neg, Z.abs_neq by lia.
      destruct (Z.ltb_spec d (2 * r)).
      * assert ((2 * - N + d) / (2 * d) = - q - 1) by (symmetry; apply (Z.div_unique _ _ (- q - 1) (3 * d - 2 * r)); lia). lia.
      * assert ((2 * - N + d) / (2 * d) = - q) by (symmetry; apply (Z.div_unique _ _ (- q) (d - 2 * r)); lia). lia.
Qed.

Lemma bump_range m q r d : 0 <= bump m q r d <= 1.
Proof.
  destruct m; cbn [bump];
    repeat match goal with
           | |- context [if ?b then _ else _] => destruct b
           | |- context [match ?c with Eq => _ | Lt => _ | Gt => _ end] => destruct c
           end; lia.
Qed.

Lemma bump_mono m q r1 r2 d : 0 <= r1 <= r2 -> r2 < d -> bump m q r1 d <= bump m q r2 d.
Proof.
  intros H1 H2. destruct m; cbn [bump].
  - destruct (0 <=? q); cbn [orb]; [lia|]. destruct (Z.eqb_spec r1 0); destruct (Z.eqb_spec r2 0); lia.
  - destruct (Z.eqb_spec r1 0); destruct (Z.eqb_spec r2 0); destruct (0 <=? q); lia.
  - destruct (Z.eqb_spec r1 0); destruct (Z.eqb_spec r2 0); lia.
  - lia.
  - destruct (Z.compare_spec (2 * r1) d); destruct (Z.compare_spec (2 * r2) d); destruct (Z.even q); lia.
  - destruct (0 <=? q).
    + destruct (Z.leb_spec d (2 * r1)); destruct (Z.leb_spec d (2 * r2)); lia.
    + destruct (Z.ltb_spec d (2 * r1)); destruct (Z.ltb_spec d (2 * r2)); lia.
Qed.

(** the rounding of the specification is monotone *)
Theorem spec_round_mono m N1 N2 d : 0 < d -> N1 <= N2 -> spec_round m N1 d <= spec_round m N2 d.
Proof.
  intros Hd H. rewrite !spec_round_floor_form by exact Hd.
  pose proof (Z.div_mod N1 d ltac:(lia)) as E1. pose proof (Z.mod_pos_bound N1 d Hd) as B1.
  pose proof (Z.div_mod N2 d ltac:(lia)) as E2. pose proof (Z.mod_pos_bound N2 d Hd) as B2.
  pose proof (Z.div_le_mono N1 N2 d Hd H) as Q.
  pose proof (bump_range m (N1 / d) (N1 mod d) d). pose proof (bump_range m (N2 / d) (N2 mod d) d).
  destruct (Z.eq_dec (N1 / d) (N2 / d)) as [Eq|Ne].
  - rewrite Eq in *. assert (N1 mod d <= N2 mod d) by lia.
    pose proof (bump_mono m (N2 / d) (N1 mod d) (N2 mod d) d ltac:(lia) ltac:(lia)). lia.
  - lia.
Qed.

(** hence constant between two numerators with the same rounding *)
Theorem spec_round_between m N1 N N2 d : 0 < d -> N1 <= N <= N2 -> spec_round m N1 d = spec_round m N2 d ->
  spec_round m N d = spec_round m N1 d.
Proof.
  intros Hd [H1 H2] E. pose proof (spec_round_mono m N1 N d Hd H1). pose proof (spec_round_mono m N N2 d Hd H2). lia.
Qed.

Example spec_round_mono_ex : spec_round MHalfEven 25 10 = 2 /\ spec_round MHalfEven 26 10 = 3 /\ spec_round MHalfEven 35 10 = 4.
Proof. vm_compute. repeat split. Qed.
