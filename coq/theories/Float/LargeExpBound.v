(** C08: the accuracy the large-exponent route of Context::convert_base can guarantee, as an executable
    test on integers.  Definitions only; the bound is proved in LargeExpRoute.v (convert_large_route_error)
    under the error contract "ln and exp err by at most k units in the last place of the work precision". *)
From Coq Require Import ZArith Bool.
Open Scope Z_scope.

(** tn / D bounds  kap * (3 ln NB + 5 |e| ln B),  D = NB^(2p-1),  kap = k / D *)
Definition lr_D (NB p : Z) : Z := NB ^ (2 * p - 1).
Definition lr_tn (k B NB e : Z) : Z := k * (3 * Z.log2_up NB + 5 * Z.abs e * Z.log2_up B).
Definition lr_en (k B NB p e : Z) : Z :=
  let D := lr_D NB p in let tn := lr_tn k B NB e in k * D + 2 * tn * D + 2 * k * tn.

(** the domain in which the contract implies any accuracy at all *)
Definition lr_accurate (k B NB p e : Z) : bool :=
  (2 * lr_tn k B NB e <=? lr_D NB p) && (4 * k <=? lr_D NB p).

(** |R - V| <= rho * |V|  for  V = N / Dv (Dv > 0),  R = rs * NB^re  and
    rho = NB^(1-p) * (1 + eps) + eps,  eps = en / D^2;  None outside the accurate domain *)
Definition large_route_check (k B NB p e N Dv rs re : Z) : option bool :=
  if negb (lr_accurate k B NB p e) then None
  else
    let D := lr_D NB p in
    let en := lr_en k B NB p e in
    let P1 := NB ^ (p - 1) in
    let '(l, r) := if 0 <=? re then (Z.abs (rs * NB ^ re * Dv - N), Z.abs N)
                   else (Z.abs (rs * Dv - N * NB ^ (- re)), Z.abs N * NB ^ (- re)) in
    Some (l * (D * D * P1) <=? (D * D + en + en * P1) * r).
