(** C08 (round 4): Context::convert_base, every route, as it is after the repairs 344196e and F10:
    [ConvBaseModel4.convert_base_asis4] for the routes without logarithm, C08's model of the ln/exp route
    ([LargeExpAsis.convert_large_asis], unchanged) where that one says CLarge - now only |exponent| > 38
    between bases without a common root.  Definitions and the two immediate facts. *)
From Dashu Require Import Base.Prelude Float.RoundSpec Float.Contract Float.Model Float.ElemF32 Float.ElemAsis
  Int.IoSpec Float.TextIoSpec Float.TextIoModel Float.LargeExpBound Float.LargeExpAsis Float.ConvBaseModel4.
From DashuGen Require Import RoundTables ConvBaseGen.
Open Scope Z_scope.

Section Full4.
Context {F : Type} (O : f32ops F).
Variable W : Z.

Definition convert_base_full_asis4 (fuel : nat) (B NB p : Z) (m : mode) (s e : Z) : TextIoModel.conv :=
  match convert_base_asis4 B NB p m s e with
  | CLarge => convert_large_asis O W fuel B NB p m s e
  | r => r
  end.

Theorem convert_base_full_asis4_modelled fuel B NB p m s e :
  convert_base_asis4 B NB p m s e <> CLarge ->
  convert_base_full_asis4 fuel B NB p m s e = convert_base_asis4 B NB p m s e.
Proof. unfold convert_base_full_asis4. destruct (convert_base_asis4 B NB p m s e); congruence. Qed.

(** on the ln/exp route nothing changed: one specification rounding of the product the trace ends in *)
Theorem convert4_large_asis_round fuel B NB p m s e t :
  convert_base_asis4 B NB p m s e = CLarge ->
  large_trace_asis O W fuel B NB p m e = Ok t ->
  convert_base_full_asis4 fuel B NB p m s e =
  round_norm NB p m (s * approx_sig (lt_exp t)) (lt_q t + approx_exp (lt_exp t)).
Proof.
  intros HL HT. unfold convert_base_full_asis4, convert_large_asis. rewrite HL, HT. reflexivity.
Qed.

End Full4.
