(** C08: the defects found, as theorems about the code as it was (refutations), and closed instances
    of the general theorems (non-vacuity of their hypotheses). *)
From Dashu Require Import Base.Prelude Float.RoundSpec Float.Contract Float.Model Int.IoSpec
  Float.TextIoSpec Float.TextIoModel Float.BaseConvProof Float.TextIoProof Float.ParseProof.
From DashuGen Require Import RoundTables.
Open Scope Z_scope.

(** "1.+5" = [49; 46; 43; 53] *)
(** F02: the digit sub-parser used before the repair (UBig::from_str_radix) strips a '+' of its own,
    so "1.+5" was read as 1.05 with three digits; the grammar has no such text, the repaired parser
    refuses it.  Likewise "0x." (base 2). *)
Theorem parse_before_fix_refuted :
  parse_unsigned_old 10 [43; 53] = Ok 5 /\ parse_unsigned 10 [43; 53] = Err E_InvalidDigit /\
  parse_spec 10 [49; 46; 43; 53] = None /\ parse_asis 10 [49; 46; 43; 53] = Err E_InvalidDigit /\
  parse_spec 2 [48; 120; 46] = None /\ parse_asis 2 [48; 120; 46] = Err E_NoDigits.
Proof. vm_compute. repeat split. Qed.

(** F03: 9.96 printed with {:.1e} under HalfAway.  "1.00e1" before the repair, "1.0e1" = the
    specification after it. *)
Theorem sci_before_fix_refuted :
  sci_layout 10 false 996 (Some 1) (sci_rounded_old 10 MHalfAway 996 (-2) (Some 1)) = [49; 46; 48; 48; 101; 49] /\
  sci_body_spec 10 MHalfAway false 996 (-2) (Some 1) = [49; 46; 48; 101; 49] /\
  sci_body_asis 10 MHalfAway false 996 (-2) (Some 1) = [49; 46; 48; 101; 49].
Proof. vm_compute. repeat split. Qed.

(** F04: "10e9223372036854775807": the exponent after normalisation leaves isize; specification and
    repaired parser refuse the text (the old code overflowed) *)
Theorem parse_exponent_overflow_refused :
  let t := [49; 48; 101; 57; 50; 50; 51; 51; 55; 50; 48; 51; 54; 56; 53; 52; 55; 55; 53; 56; 48; 55] in
  parse_spec 10 t = None /\ parse_asis 10 t = Err E_InvalidDigit.
Proof. vm_compute. repeat split. Qed.

(* ---------------------------------------------------------------- instances (non-vacuity) *)

(** "-1.23400e-3" and "-123.4@-05" (the examples of the documentation): same value, precisions 6 and 4 *)
Example parse_doc_example :
  parse_spec 10 [45; 49; 46; 50; 51; 52; 48; 48; 101; 45; 51] = Some (-1234, -6, 6) /\
  parse_asis 10 [45; 49; 46; 50; 51; 52; 48; 48; 101; 45; 51] = Ok (-1234, -6, 6) /\
  parse_asis 10 [45; 49; 50; 51; 46; 52; 64; 45; 48; 53] = Ok (-1234, -6, 4).
Proof. vm_compute. repeat split. Qed.

(** hexadecimal form in base 2: "0x1.8p3" = 12 = 3 * 2^2, 8 bits written *)
Example parse_hex_example : parse_asis 2 [48; 120; 49; 46; 56; 112; 51] = Ok (3, 2, 8) /\
  parse_spec 2 [48; 120; 49; 46; 56; 112; 51] = Some (3, 2, 8).
Proof. vm_compute. repeat split. Qed.

(** print -> parse: -12345 * 10^-7 prints as "-0.0012345" and is read back *)
Example roundtrip_example :
  fmt_round_body_asis 10 MHalfAway (-12345) (-7) None = [48; 46; 48; 48; 49; 50; 51; 52; 53] /\
  parse_asis 10 (45 :: fmt_round_body_asis 10 MHalfAway (-12345) (-7) None) = Ok (-12345, -7, 8) /\
  printed_digits 10 (-12345) (-7) = 8.
Proof. vm_compute. repeat split. Qed.

(** Display with a precision: 9.96 with one fractional digit, HalfAway: "10.0"; -0.001 with one: "0.0" *)
Example display_prec_example :
  fmt_round_body_asis 10 MHalfAway 996 (-2) (Some 1) = [49; 48; 46; 48] /\
  display_body_spec 10 MHalfAway 996 (-2) (Some 1) = [49; 48; 46; 48] /\
  fmt_round_body_asis 10 MHalfAway (-1) (-3) (Some 1) = [48; 46; 48].
Proof. vm_compute. repeat split. Qed.

(** with_precision: 12345 to 3 digits, HalfAway: 123 * 10^2, truncated (NoOp); 2.345 to 3: 2.35 (AddOne) *)
Example with_precision_example :
  with_precision_asis 10 0 3 MHalfAway 12345 0 = (123, 2, FInexact NoOp) /\
  with_precision_asis 10 4 3 MHalfAway 2345 (-3) = (235, -2, FInexact AddOne) /\
  with_precision_asis 10 4 5 MHalfAway 2345 (-3) = (2345, -3, FExact).
Proof. vm_compute. repeat split. Qed.

(** base conversion routes: 0x1.234 (base 2, 13 bits) to base 16 is exact (power route), to base 10 at
    precision 4 = 1.1376 rounded towards zero (repr_div keeps p+1 digits here) *)
Example convert_example :
  convert_base_asis 2 16 4 MZero 0x1234 (-12) = CDone 0x1234 (-3) FExact /\
  convert_base_asis 2 10 4 MZero 0x1234 (-12) = CDone 11376 (-4) (FInexact NoOp) /\
  convert_base_asis 16 2 3 MZero 0xff 3 = CDone 7 17 (FInexact NoOp) /\
  convert_base_asis 10 10 2 MHalfAway 5678 0 = CDone 57 2 (FInexact AddOne) /\
  base_prec_spec 10 2 3 = 9 /\ ilog_exact 16 2 = 4 /\ ilog_exact 10 2 = 0.
Proof. vm_compute. repeat split. Qed.

(** the long division: 3^16 * 41 / 3^2 in base 10 at 3 digits (dividend longer than 3 + 1 digits) *)
Example div_long_example :
  div_long 10 3 MHalfEven 43046721 0 9 0 = CDone 478 4 (FInexact NoOp) /\ 3 < dlen 10 (Z.quot 43046721 9).
Proof. vm_compute. split; reflexivity. Qed.

(** IEEE import: 1.0f64, the smallest subnormal, -inf, NaN *)
Example ieee_example :
  from_ieee_spec 52 11 0x3ff0000000000000 = Some (1, 0, 53) /\
  from_ieee_spec 52 11 1 = Some (1, -1074, 1) /\
  ieee_decode 52 11 0xfff0000000000000 = IInf true /\ ieee_decode 23 8 0x7fc00000 = INan.
Proof. vm_compute. repeat split. Qed.
