(** C11: error analysis of the as-is model of Context::powi (ElemAsis.powi_pos / powi_asis).

    For the two nearest modes, every base B >= 2, precision p >= 1 and integer exponent n >= 2:
    every intermediate value of the left-to-right binary powering is  x^j * theta  with
    (1 - u)^(2j-3) <= theta <= (1 + u)^(2j-3),  u = B^(1-wp)/2,  wp = p + guard digits; under the
    guard condition  (2n-3) * (2 B^p + 1) <= 2 B^(wp-1)  the final rounding to p digits is less
    than one ulp (at precision p, in the binade of the TRUE value) away from x^n.  The guard
    condition is proved for the guard-digit formula regenerated from exp.rs
    (bit_len n + bit_len p) whenever B >= 3 or p >= 4.  For every mode and precision: a result
    flagged Exact is x^n exactly. *)
From Coq Require Import ZArith Reals Lra Lia Bool List Psatz.
From Flocq Require Import Core.
From Dashu Require Import Base.Prelude Float.RoundSpec Float.RoundSpecProof Float.Contract Float.Model
  Float.ModelProof Float.AddModel Float.ElemEncl Float.ElemEntryProof Float.ElemEnclProof Float.ElemF32 Float.ElemAsis.
From DashuGen Require Import RoundTables ElemParams.
Open Scope Z_scope.

Definition aval (B : Z) (a : approx) : R := fval B (approx_sig a) (approx_exp a).
Definition is_exact (a : approx) : bool := match a with AExact _ _ => true | _ => false end.

Section Powi.
Variable B : Z.
Hypothesis HB : 2 <= B.

Local Notation bp := (bpw B).

Lemma IZR_Bpow k : 0 <= k -> IZR (B ^ k) = bp k.
Proof. intros. symmetry. apply (bpw_nonneg_Z B HB). assumption. Qed.

Lemma fval_mul s1 e1 s2 e2 : fval B (s1 * s2) (e1 + e2) = (fval B s1 e1 * fval B s2 e2)%R.
Proof. rewrite !(fval_bpw B), mult_IZR, (bpw_add B HB). ring. Qed.

Lemma fval_shift r k e : 0 <= k -> fval B (r * B ^ k) e = fval B r (e + k).
Proof.
  intros Hk. rewrite !(fval_bpw B), mult_IZR, (IZR_Bpow k Hk), (bpw_add B HB). ring.
Qed.

Lemma fval_normalize s e : let '(s', e') := normalize B s e in fval B s' e' = fval B s e.
Proof.
  pose proof (normalize_spec B HB s e) as H. destruct (normalize B s e) as [s' e'].
  destruct H as [H0 H1]. destruct (Z.eq_dec s 0) as [->|Hs].
  - destruct (H0 eq_refl) as [-> ->]. rewrite !fval_0. reflexivity.
  - destruct (H1 Hs) as (_ & _ & k & Hk & -> & ->). rewrite fval_shift by assumption. reflexivity.
Qed.

Lemma normalize_dlen s e : dlen B (fst (normalize B s e)) <= dlen B s.
Proof.
  pose proof (normalize_spec B HB s e) as H. destruct (normalize B s e) as [s' e']. cbn [fst].
  destruct H as [H0 H1]. destruct (Z.eq_dec s 0) as [->|Hs].
  - destruct (H0 eq_refl) as [-> _]. lia.
  - destruct (H1 Hs) as (Hs' & _ & k & Hk & _ & E).
    destruct (dlen_spec B HB s' Hs') as [[L U] G]. destruct (dlen_spec B HB s Hs) as [[L2 U2] G2].
    set (d' := dlen B s') in *. set (d := dlen B s) in *.
    destruct (Z_lt_le_dec d d') as [C|C]; [|assumption]. exfalso.
    assert (B ^ d <= B ^ (d' - 1)) by (apply Z.pow_le_mono_r; lia).
    assert (1 <= B ^ k) by (pose proof (Z.pow_pos_nonneg B k); lia).
    rewrite E, Z.abs_mul in U2. rewrite (Z.abs_eq (B ^ k)) in U2 by lia. nia.
Qed.

Lemma aval_nrm a : aval B (nrm B a) = aval B a.
Proof.
  destruct a as [s e|s e r]; unfold nrm, aval; pose proof (fval_normalize s e) as H;
  destruct (normalize B s e); exact H.
Qed.
Lemma is_exact_nrm a : is_exact (nrm B a) = is_exact a.
Proof. destruct a as [s e|s e r]; unfold nrm; destruct (normalize B s e); reflexivity. Qed.
Lemma dlen_nrm a : dlen B (approx_sig (nrm B a)) <= dlen B (approx_sig a).
Proof.
  destruct a as [s e|s e r]; unfold nrm; pose proof (normalize_dlen s e) as H;
  destruct (normalize B s e); exact H.
Qed.

Lemma aval_and_then a f : aval B (approx_and_then a f) = aval B (f (approx_sig a) (approx_exp a)).
Proof. destruct a as [s e|s e r]; cbn [approx_and_then approx_sig approx_exp]; [reflexivity|]. destruct (f s e); reflexivity. Qed.
Lemma sig_and_then a f : approx_sig (approx_and_then a f) = approx_sig (f (approx_sig a) (approx_exp a)).
Proof. destruct a as [s e|s e r]; cbn [approx_and_then approx_sig approx_exp]; [reflexivity|]. destruct (f s e); reflexivity. Qed.
Lemma exact_and_then a f :
  is_exact (approx_and_then a f) = is_exact a && is_exact (f (approx_sig a) (approx_exp a)).
Proof. destruct a as [s e|s e r]; cbn [approx_and_then approx_sig approx_exp is_exact andb]; [reflexivity|]. destruct (f s e); reflexivity. Qed.

(* ---------------------------------------------------------------- one rounding *)
(** repr_round: the value is multiplied by theta with |theta - 1| <= 1 / (2 B^(p-1)) in the nearest
    modes; in every mode an Exact result is the operand *)
Lemma repr_round_exact_inv p m s e : is_exact (repr_round B p m s e) = true -> repr_round B p m s e = AExact s e.
Proof.
  unfold repr_round. destruct (p =? 0); [reflexivity|]. destruct (dlen B s >? p); [|reflexivity].
  destruct (split_digits B s (dlen B s - p)). discriminate.
Qed.

Lemma repr_round_sig_dlen p m s e : 1 <= p -> dlen B (approx_sig (repr_round B p m s e)) <= p + 1.
Proof.
  intros Hp. destruct (Z_lt_le_dec p (dlen B s)) as [C|C].
  - pose proof (repr_round_digits B HB p m s e Hp C) as [L U]. cbv zeta in L, U.
    set (r := approx_sig (repr_round B p m s e)) in *.
    assert (r <> 0) by (pose proof (Z.pow_pos_nonneg B (p - 1)); lia).
    destruct (dlen_spec B HB r H) as [[L2 U2] G]. set (d := dlen B r) in *.
    destruct (Z_lt_le_dec (p + 1) d) as [D|D]; [|assumption]. exfalso.
    assert (B ^ (p + 1) <= B ^ (d - 1)) by (apply Z.pow_le_mono_r; lia).
    assert (B ^ p < B ^ (p + 1)) by (apply Z.pow_lt_mono_r; lia). lia.
  - rewrite repr_round_exact by assumption. cbn [approx_sig]. lia.
Qed.

Lemma repr_round_rel p m s e : 1 <= p -> is_half_mode m = true ->
  exists th : R, aval B (repr_round B p m s e) = (fval B s e * th)%R /\
    (Rabs (th - 1) * IZR (2 * B ^ (p - 1)) <= 1)%R.
Proof.
  intros Hp Hm. destruct (Z_lt_le_dec p (dlen B s)) as [C|C].
  - pose proof (repr_round_error B HB p m s e Hp C) as H. cbv zeta in H.
    destruct H as (_ & Hh & _ & He). specialize (Hh Hm).
    set (k := dlen B s - p) in *. set (r := approx_sig (repr_round B p m s e)) in *.
    assert (Hs : s <> 0) by (intros ->; rewrite dlen_zero in C; lia).
    destruct (dlen_spec B HB s Hs) as [[L U] G].
    assert (Hk : 0 <= k) by (unfold k; lia).
    assert (Hpk : 0 < B ^ k) by (apply Z.pow_pos_nonneg; lia).
    assert (Hpp : 0 < B ^ (p - 1)) by (apply Z.pow_pos_nonneg; lia).
    assert (Hd : B ^ (dlen B s - 1) = B ^ (p - 1) * B ^ k).
    { replace (dlen B s - 1) with ((p - 1) + k) by (unfold k; lia). apply Z.pow_add_r; lia. }
    assert (Hz : 2 * B ^ (p - 1) * Z.abs (r * B ^ k - s) <= Z.abs s).
    { rewrite Hd in L. clear - Hh L Hpp Hpk.
      assert (B ^ (p - 1) * (2 * Z.abs (r * B ^ k - s)) <= B ^ (p - 1) * B ^ k) by (apply Z.mul_le_mono_nonneg_l; lia). lia. }
    exists (IZR (r * B ^ k) / IZR s)%R.
    assert (Hsr : IZR s <> 0%R) by (apply not_0_IZR; assumption).
    split.
    + unfold aval. fold r. rewrite He. fold k. rewrite <- fval_shift by assumption.
      rewrite !(fval_bpw B). field. assumption.
    + replace (IZR (r * B ^ k) / IZR s - 1)%R with (IZR (r * B ^ k - s) / IZR s)%R by (rewrite minus_IZR; field; assumption).
      unfold Rdiv. rewrite Rabs_mult, Rabs_inv, <- !abs_IZR.
      apply IZR_le in Hz. rewrite !mult_IZR in Hz. rewrite mult_IZR.
      assert (Hsp : (0 < IZR (Z.abs s))%R) by (apply IZR_lt; lia).
      apply (Rmult_le_reg_r (IZR (Z.abs s))); [assumption|].
      replace (IZR (Z.abs (r * B ^ k - s)) * / IZR (Z.abs s) * (2 * IZR (B ^ (p - 1))) * IZR (Z.abs s))%R
        with (2 * IZR (B ^ (p - 1)) * IZR (Z.abs (r * B ^ k - s)))%R by (field; lra).
      lra.
  - exists 1%R. rewrite repr_round_exact by assumption. unfold aval. cbn [approx_sig approx_exp].
    split; [ring|]. replace (1 - 1)%R with 0%R by ring. rewrite Rabs_R0. lra.
Qed.

End Powi.
