(** C11: error analysis of the as-is model of Context::powi (ElemAsis.powi_pos / powi_asis).

    For the two nearest modes, every base B >= 2, precision p >= 1 and integer exponent n >= 2:
    every intermediate value of the left-to-right binary powering is  x^j * theta  with
    (1 - u)^(2j-3) <= theta <= (1 + u)^(2j-3),  u = B^(1-wp)/2,  wp = p + guard digits; under the
    guard condition  (2n-3) * (2 B^p + 1) <= 2 B^(wp-1)  the final rounding to p digits is less
    than one ulp (at precision p, in the binade of the TRUE value) away from x^n.  The guard
    condition is proved for the guard-digit formula regenerated from exp.rs
    (bit_len n + bit_len p) whenever B >= 3 or p >= 4.  For every mode and precision: a result
    flagged Exact is x^n exactly. *)
From Coq Require Import ZArith Reals Lra Lia Bool List Psatz.
From Flocq Require Import Core.
From Dashu Require Import Base.Prelude Float.RoundSpec Float.RoundSpecProof Float.Contract Float.Model
  Float.ModelProof Float.AddModel Float.ElemEncl Float.ElemEntryProof Float.ElemEnclProof Float.ElemF32 Float.ElemAsis
  Float.ElemParamsProof.
From DashuGen Require Import RoundTables ElemParams.
Open Scope Z_scope.

Definition aval (B : Z) (a : approx) : R := fval B (approx_sig a) (approx_exp a).
Definition is_exact (a : approx) : bool := match a with AExact _ _ => true | _ => false end.

Section Powi.
Variable B : Z.
Hypothesis HB : 2 <= B.

Local Notation bp := (bpw B).

Lemma IZR_Bpow k : 0 <= k -> IZR (B ^ k) = bp k.
Proof. intros. symmetry. apply (bpw_nonneg_Z B). assumption. Qed.

Lemma fval_mul s1 e1 s2 e2 : fval B (s1 * s2) (e1 + e2) = (fval B s1 e1 * fval B s2 e2)%R.
Proof. rewrite !(fval_bpw B), mult_IZR, (bpw_add B HB). ring. Qed.

Lemma fval_shift r k e : 0 <= k -> fval B (r * B ^ k) e = fval B r (e + k).
Proof.
  intros Hk. rewrite !(fval_bpw B), mult_IZR, (IZR_Bpow k Hk), (bpw_add B HB). ring.
Qed.

Lemma fval_normalize s e : let '(s', e') := normalize B s e in fval B s' e' = fval B s e.
Proof.
  pose proof (normalize_spec B HB s e) as H. destruct (normalize B s e) as [s' e'].
  destruct H as [H0 H1]. destruct (Z.eq_dec s 0) as [->|Hs].
  - destruct (H0 eq_refl) as [-> ->]. rewrite !fval_0. reflexivity.
  - destruct (H1 Hs) as (_ & _ & k & Hk & -> & ->). rewrite fval_shift by assumption. reflexivity.
Qed.

Lemma normalize_dlen s e : dlen B (fst (normalize B s e)) <= dlen B s.
Proof.
  pose proof (normalize_spec B HB s e) as H. destruct (normalize B s e) as [s' e']. cbn [fst].
  destruct H as [H0 H1]. destruct (Z.eq_dec s 0) as [->|Hs].
  - destruct (H0 eq_refl) as [-> _]. lia.
  - destruct (H1 Hs) as (Hs' & _ & k & Hk & _ & E).
    destruct (dlen_spec B HB s' Hs') as [[L U] G]. destruct (dlen_spec B HB s Hs) as [[L2 U2] G2].
    set (d' := dlen B s') in *. set (d := dlen B s) in *.
    destruct (Z_lt_le_dec d d') as [C|C]; [|assumption]. exfalso.
    assert (B ^ d <= B ^ (d' - 1)) by (apply Z.pow_le_mono_r; lia).
    assert (1 <= B ^ k) by (pose proof (Z.pow_pos_nonneg B k); lia).
    rewrite E, Z.abs_mul in U2. rewrite (Z.abs_eq (B ^ k)) in U2 by lia. nia.
Qed.

Lemma aval_nrm a : aval B (nrm B a) = aval B a.
Proof.
  destruct a as [s e|s e r]; unfold nrm, aval; pose proof (fval_normalize s e) as H;
  destruct (normalize B s e); exact H.
Qed.
Lemma is_exact_nrm a : is_exact (nrm B a) = is_exact a.
Proof. destruct a as [s e|s e r]; unfold nrm; destruct (normalize B s e); reflexivity. Qed.
Lemma dlen_nrm a : dlen B (approx_sig (nrm B a)) <= dlen B (approx_sig a).
Proof.
  destruct a as [s e|s e r]; unfold nrm; pose proof (normalize_dlen s e) as H;
  destruct (normalize B s e); exact H.
Qed.

Lemma aval_and_then a f : aval B (approx_and_then a f) = aval B (f (approx_sig a) (approx_exp a)).
Proof. destruct a as [s e|s e r]; cbn [approx_and_then approx_sig approx_exp]; [reflexivity|]. destruct (f s e); reflexivity. Qed.
Lemma sig_and_then a f : approx_sig (approx_and_then a f) = approx_sig (f (approx_sig a) (approx_exp a)).
Proof. destruct a as [s e|s e r]; cbn [approx_and_then approx_sig approx_exp]; [reflexivity|]. destruct (f s e); reflexivity. Qed.
Lemma exact_and_then a f :
  is_exact (approx_and_then a f) = is_exact a && is_exact (f (approx_sig a) (approx_exp a)).
Proof. destruct a as [s e|s e r]; cbn [approx_and_then approx_sig approx_exp is_exact andb]; [reflexivity|]. destruct (f s e); reflexivity. Qed.

(* ---------------------------------------------------------------- one rounding *)
(** repr_round: the value is multiplied by theta with |theta - 1| <= 1 / (2 B^(p-1)) in the nearest
    modes; in every mode an Exact result is the operand *)
Lemma repr_round_exact_inv p m s e : is_exact (repr_round B p m s e) = true -> repr_round B p m s e = AExact s e.
Proof.
  unfold repr_round. destruct (p =? 0); [reflexivity|]. destruct (dlen B s >? p); [|reflexivity].
  destruct (split_digits B s (dlen B s - p)). discriminate.
Qed.

Lemma repr_round_sig_dlen p m s e : 1 <= p -> dlen B (approx_sig (repr_round B p m s e)) <= p + 1.
Proof.
  intros Hp. destruct (Z_lt_le_dec p (dlen B s)) as [C|C].
  - pose proof (repr_round_digits B HB p m s e Hp C) as [L U]. cbv zeta in L, U.
    set (r := approx_sig (repr_round B p m s e)) in *.
    assert (r <> 0) by (pose proof (Z.pow_pos_nonneg B (p - 1)); lia).
    destruct (dlen_spec B HB r H) as [[L2 U2] G]. set (d := dlen B r) in *.
    destruct (Z_lt_le_dec (p + 1) d) as [D|D]; [|assumption]. exfalso.
    assert (B ^ (p + 1) <= B ^ (d - 1)) by (apply Z.pow_le_mono_r; lia).
    assert (B ^ p < B ^ (p + 1)) by (apply Z.pow_lt_mono_r; lia). lia.
  - rewrite repr_round_exact by assumption. cbn [approx_sig]. lia.
Qed.

Lemma repr_round_rel p m s e : 1 <= p -> is_half_mode m = true ->
  exists th : R, aval B (repr_round B p m s e) = (fval B s e * th)%R /\
    (Rabs (th - 1) * IZR (2 * B ^ (p - 1)) <= 1)%R.
Proof.
  intros Hp Hm. destruct (Z_lt_le_dec p (dlen B s)) as [C|C].
  - pose proof (repr_round_error B HB p m s e Hp C) as H. cbv zeta in H.
    destruct H as (_ & Hh & _ & He). specialize (Hh Hm).
    set (k := dlen B s - p) in *. set (r := approx_sig (repr_round B p m s e)) in *.
    assert (Hs : s <> 0) by (intros ->; rewrite dlen_zero in C; lia).
    destruct (dlen_spec B HB s Hs) as [[L U] G].
    assert (Hk : 0 <= k) by (unfold k; lia).
    assert (Hpk : 0 < B ^ k) by (apply Z.pow_pos_nonneg; lia).
    assert (Hpp : 0 < B ^ (p - 1)) by (apply Z.pow_pos_nonneg; lia).
    assert (Hd : B ^ (dlen B s - 1) = B ^ (p - 1) * B ^ k).
    { replace (dlen B s - 1) with ((p - 1) + k) by (unfold k; lia). apply Z.pow_add_r; lia. }
    assert (Hz : 2 * B ^ (p - 1) * Z.abs (r * B ^ k - s) <= Z.abs s).
    { rewrite Hd in L. clear - Hh L Hpp Hpk.
      assert (B ^ (p - 1) * (2 * Z.abs (r * B ^ k - s)) <= B ^ (p - 1) * B ^ k) by (apply Z.mul_le_mono_nonneg_l; lia). lia. }
    exists (IZR (r * B ^ k) / IZR s)%R.
    assert (Hsr : IZR s <> 0%R) by (apply not_0_IZR; assumption).
    split.
    + unfold aval. fold r. rewrite He. fold k. rewrite <- fval_shift by assumption.
      rewrite !(fval_bpw B). field. assumption.
    + replace (IZR (r * B ^ k) / IZR s - 1)%R with (IZR (r * B ^ k - s) / IZR s)%R by (rewrite minus_IZR; field; assumption).
      unfold Rdiv. rewrite Rabs_mult, Rabs_inv, <- !abs_IZR.
      apply IZR_le in Hz. rewrite !mult_IZR in Hz. rewrite mult_IZR.
      assert (Hsp : (0 < IZR (Z.abs s))%R) by (apply IZR_lt; lia).
      apply (Rmult_le_reg_r (IZR (Z.abs s))); [assumption|].
      replace (IZR (Z.abs (r * B ^ k - s)) * / IZR (Z.abs s) * (2 * IZR (B ^ (p - 1))) * IZR (Z.abs s))%R
        with (2 * IZR (B ^ (p - 1)) * IZR (Z.abs (r * B ^ k - s)))%R by (field; lra).
      lra.
  - exists 1%R. rewrite repr_round_exact by assumption. unfold aval. cbn [approx_sig approx_exp].
    split; [ring|]. replace (1 - 1)%R with 0%R by ring. rewrite Rabs_R0. lra.
Qed.

End Powi.

(* ---------------------------------------------------------------- accumulated relative error *)
Section RelErr.
Variable u : R.
Hypothesis u0 : (0 <= u)%R.
Hypothesis u1 : (u <= 1)%R.

(** v = t * theta with (1-u)^c <= theta <= (1+u)^c *)
Definition RA (c : nat) (t v : R) : Prop :=
  exists th : R, v = (t * th)%R /\ ((1 - u) ^ c <= th <= (1 + u) ^ c)%R.

Lemma pow_1mu_nonneg c : (0 <= (1 - u) ^ c)%R.
Proof. apply pow_le. lra. Qed.
Lemma pow_1pu_ge1 c : (1 <= (1 + u) ^ c)%R.
Proof. apply pow_R1_Rle. lra. Qed.
Lemma pow_1mu_le1 c : ((1 - u) ^ c <= 1)%R.
Proof. induction c; cbn [pow]; [lra|]. pose proof (pow_1mu_nonneg c). nra. Qed.

Lemma RA_refl t : RA 0 t t.
Proof. exists 1%R. cbn [pow]. split; [ring | lra]. Qed.

Lemma RA_mul c1 c2 t1 t2 v1 v2 : RA c1 t1 v1 -> RA c2 t2 v2 -> RA (c1 + c2) (t1 * t2) (v1 * v2).
Proof.
  intros (a & -> & La & Ua) (b & -> & Lb & Ub). exists (a * b)%R. split; [ring|].
  rewrite !pow_add. pose proof (pow_1mu_nonneg c1). pose proof (pow_1mu_nonneg c2).
  pose proof (pow_1pu_ge1 c1). pose proof (pow_1pu_ge1 c2). split; nra.
Qed.

Lemma RA_step c t v th : RA c t v -> (Rabs (th - 1) <= u)%R -> RA (S c) t (v * th).
Proof.
  intros (a & -> & La & Ua) Hth. exists (a * th)%R. split; [ring|]. cbn [pow].
  apply Rabs_le_inv in Hth. pose proof (pow_1mu_nonneg c). pose proof (pow_1pu_ge1 c). split; nra.
Qed.

Lemma RA_mono c c' t v : (c <= c')%nat -> RA c t v -> RA c' t v.
Proof.
  intros Hc (a & -> & La & Ua). exists a. split; [reflexivity|].
  replace c' with (c + (c' - c))%nat by lia. rewrite !pow_add.
  pose proof (pow_1mu_nonneg c). pose proof (pow_1mu_le1 (c' - c)). pose proof (pow_1mu_nonneg (c' - c)).
  pose proof (pow_1pu_ge1 c). pose proof (pow_1pu_ge1 (c' - c)). split; nra.
Qed.

(** Bernoulli, both sides *)
Lemma bernoulli_minus c : (1 - INR c * u <= (1 - u) ^ c)%R.
Proof.
  induction c; [cbn [pow INR]; lra|]. rewrite S_INR. cbn [pow].
  pose proof (pos_INR c). nra.
Qed.

Lemma bernoulli_plus c : ((1 + u) ^ c * (1 - INR c * u) <= 1)%R.
Proof.
  destruct (Rle_lt_dec (1 - INR c * u) 0) as [N|P].
  - pose proof (pow_1pu_ge1 c). nra.
  - pose proof (bernoulli_minus c) as Bm.
    assert (H : ((1 + u) ^ c * (1 - u) ^ c <= 1)%R).
    { rewrite <- Rpow_mult_distr. replace ((1 + u) * (1 - u))%R with (1 - u * u)%R by ring.
      clear - u0 u1. induction c; cbn [pow]; [lra|]. assert (0 <= (1 - u * u) ^ c)%R by (apply pow_le; nra). nra. }
    pose proof (pow_1pu_ge1 c). nra.
Qed.

(** the distance of theta from 1 *)
Lemma RA_dist c t v : (INR c * u < 1)%R -> RA c t v ->
  (Rabs (v - t) * (1 - INR c * u) <= Rabs t * (INR c * u))%R.
Proof.
  intros Hc (a & -> & La & Ua).
  replace (t * a - t)%R with (t * (a - 1))%R by ring. rewrite Rabs_mult.
  pose proof (bernoulli_minus c). pose proof (bernoulli_plus c). pose proof (Rabs_pos t).
  assert (Rabs (a - 1) * (1 - INR c * u) <= INR c * u)%R.
  { pose proof (pos_INR c). unfold Rabs. destruct (Rcase_abs (a - 1)); nra. }
  nra.
Qed.

End RelErr.

(* ---------------------------------------------------------------- the powering loop *)
Section Loop.
Variable B : Z.
Hypothesis HB : 2 <= B.
Variable wp : Z.
Hypothesis Hwp : 1 <= wp.
Variable m : mode.

Local Notation U := (IZR (2 * B ^ (wp - 1))).
Local Notation u := (/ U)%R.

Lemma U_ge2 : (2 <= U)%R.
Proof. apply IZR_le. pose proof (Z.pow_pos_nonneg B (wp - 1)). lia. Qed.
Lemma u_bounds : (0 <= u)%R /\ (u <= 1)%R.
Proof.
  pose proof U_ge2 as H. split.
  - left. apply Rinv_0_lt_compat. lra.
  - rewrite <- Rinv_1. apply Rinv_le_contravar; lra.
Qed.
Lemma rel_to_u th : (Rabs (th - 1) * U <= 1)%R -> (Rabs (th - 1) <= u)%R.
Proof.
  intros H. pose proof U_ge2. apply (Rmult_le_reg_r U); [lra|]. rewrite Rinv_l by lra. exact H.
Qed.

Lemma shrink_id k s e : 0 <= k -> dlen B s <= k * wp -> shrink B wp k m s e = (s, e).
Proof.
  intros Hk H. unfold shrink. destruct (wp =? 0); [reflexivity|].
  destruct (Z.gtb_spec (dlen B s) (k * wp)); [lia | reflexivity].
Qed.

(** Context::mul on operands of at most 2 wp digits: one rounding of the exact product *)
Lemma c_mul_facts s1 e1 s2 e2 : dlen B s1 <= 2 * wp -> dlen B s2 <= 2 * wp ->
  dlen B (approx_sig (c_mul B wp m s1 e1 s2 e2)) <= wp + 1 /\
  (is_exact (c_mul B wp m s1 e1 s2 e2) = true ->
     aval B (c_mul B wp m s1 e1 s2 e2) = (fval B s1 e1 * fval B s2 e2)%R) /\
  (is_half_mode m = true -> exists th : R,
     aval B (c_mul B wp m s1 e1 s2 e2) = (fval B s1 e1 * fval B s2 e2 * th)%R /\ (Rabs (th - 1) <= u)%R).
Proof.
  intros H1 H2. unfold c_mul, ctx_mul. rewrite !shrink_id by lia.
  pose proof (fval_normalize B HB (s1 * s2) (e1 + e2)) as Hn.
  destruct (normalize B (s1 * s2) (e1 + e2)) as [s' e']. rewrite fval_mul in Hn by assumption.
  split; [|split].
  - eapply Z.le_trans; [apply dlen_nrm; assumption | apply repr_round_sig_dlen; assumption].
  - rewrite is_exact_nrm, aval_nrm by assumption. intros Hx.
    rewrite (repr_round_exact_inv B wp m s' e' Hx). exact Hn.
  - intros Hm. destruct (repr_round_rel B HB wp m s' e' Hwp Hm) as (th & E & Hth).
    exists th. rewrite aval_nrm, E, Hn by assumption. split; [reflexivity | apply rel_to_u; exact Hth].
Qed.

Lemma c_sqr_facts s e : dlen B s <= 2 * wp ->
  dlen B (approx_sig (c_sqr B wp m s e)) <= wp + 1 /\
  (is_exact (c_sqr B wp m s e) = true -> aval B (c_sqr B wp m s e) = (fval B s e * fval B s e)%R) /\
  (is_half_mode m = true -> exists th : R,
     aval B (c_sqr B wp m s e) = (fval B s e * fval B s e * th)%R /\ (Rabs (th - 1) <= u)%R).
Proof.
  intros H1. unfold c_sqr, ctx_sqr. rewrite !shrink_id by lia.
  replace (2 * e) with (e + e) by lia.
  pose proof (fval_normalize B HB (s * s) (e + e)) as Hn.
  destruct (normalize B (s * s) (e + e)) as [s' e']. rewrite fval_mul in Hn by assumption.
  split; [|split].
  - eapply Z.le_trans; [apply dlen_nrm; assumption | apply repr_round_sig_dlen; assumption].
  - rewrite is_exact_nrm, aval_nrm by assumption. intros Hx.
    rewrite (repr_round_exact_inv B wp m s' e' Hx). exact Hn.
  - intros Hm. destruct (repr_round_rel B HB wp m s' e' Hwp Hm) as (th & E & Hth).
    exists th. rewrite aval_nrm, E, Hn by assumption. split; [reflexivity | apply rel_to_u; exact Hth].
Qed.

Variables s e : Z.
Hypothesis Hs : dlen B s <= 2 * wp.
Local Notation X := (fval B s e).

(** the invariant: value, digit count, truthful Exact flag; the error bound in the nearest modes *)
Definition Inv (j : Z) (res : approx) : Prop :=
  dlen B (approx_sig res) <= 2 * wp /\
  (is_exact res = true -> aval B res = (X ^ Z.to_nat j)%R) /\
  (is_half_mode m = true -> RA u (Z.to_nat (2 * j - 3)) (X ^ Z.to_nat j) (aval B res)).

Lemma Inv_init : Inv 2 (c_sqr B wp m s e).
Proof.
  destruct (c_sqr_facts s e Hs) as (D & Ex & Rel). split; [lia|]. split.
  - intros H. rewrite (Ex H). change (Z.to_nat 2) with 2%nat. cbn [pow]. ring.
  - intros Hm. destruct (Rel Hm) as (th & E & Hth). rewrite E.
    change (Z.to_nat (2 * 2 - 3)) with 1%nat. change (Z.to_nat 2) with 2%nat.
    destruct u_bounds as [u0 u1].
    replace (X ^ 2)%R with (X * X)%R by (cbn [pow]; ring).
    apply (RA_step u u0 u1 0). 2: exact Hth.
    apply (RA_mul u u0 u1 0 0); apply RA_refl.
Qed.

Lemma Inv_sqr j res : 2 <= j -> Inv j res ->
  Inv (2 * j) (approx_and_then res (fun s' e' => c_sqr B wp m s' e')).
Proof.
  intros Hj (D & Ex & Rel).
  destruct (c_sqr_facts (approx_sig res) (approx_exp res) D) as (D' & Ex' & Rel').
  assert (Hpow : (X ^ Z.to_nat (2 * j) = X ^ Z.to_nat j * X ^ Z.to_nat j)%R).
  { replace (Z.to_nat (2 * j)) with (Z.to_nat j + Z.to_nat j)%nat by lia. apply pow_add. }
  split; [rewrite sig_and_then; lia|]. split.
  - rewrite exact_and_then, aval_and_then. intros H. apply andb_prop in H. destruct H as [H1 H2].
    rewrite (Ex' H2). fold (aval B res). rewrite (Ex H1). symmetry. exact Hpow.
  - intros Hm. rewrite aval_and_then. destruct (Rel' Hm) as (th & E & Hth). rewrite E. fold (aval B res).
    rewrite Hpow. destruct u_bounds as [u0 u1].
    apply (RA_mono u u0 u1 (S (Z.to_nat (2 * j - 3) + Z.to_nat (2 * j - 3)))); [lia|].
    apply (RA_step u u0 u1). 2: exact Hth.
    apply (RA_mul u u0 u1); apply Rel; exact Hm.
Qed.

Lemma Inv_mul j res : 2 <= j -> Inv j res ->
  Inv (j + 1) (approx_and_then res (fun s' e' => c_mul B wp m s' e' s e)).
Proof.
  intros Hj (D & Ex & Rel).
  destruct (c_mul_facts (approx_sig res) (approx_exp res) s e D Hs) as (D' & Ex' & Rel').
  assert (Hpow : (X ^ Z.to_nat (j + 1) = X ^ Z.to_nat j * X)%R).
  { replace (Z.to_nat (j + 1)) with (Z.to_nat j + 1)%nat by lia. rewrite pow_add. cbn [pow]. ring. }
  split; [rewrite sig_and_then; lia|]. split.
  - rewrite exact_and_then, aval_and_then. intros H. apply andb_prop in H. destruct H as [H1 H2].
    rewrite (Ex' H2). fold (aval B res). rewrite (Ex H1). symmetry. exact Hpow.
  - intros Hm. rewrite aval_and_then. destruct (Rel' Hm) as (th & E & Hth). rewrite E. fold (aval B res).
    rewrite Hpow. destruct u_bounds as [u0 u1].
    apply (RA_mono u u0 u1 (S (Z.to_nat (2 * j - 3) + 0))); [lia|].
    apply (RA_step u u0 u1). 2: exact Hth.
    apply (RA_mul u u0 u1); [apply Rel; exact Hm | apply RA_refl].
Qed.

Variable n : Z.

Lemma shiftr_step k : 0 <= k -> Z.shiftr n k = 2 * Z.shiftr n (k + 1) + Z.b2z (Z.testbit n k).
Proof.
  intros Hk. rewrite (Z.div2_odd (Z.shiftr n k)) at 1.
  rewrite Z.div2_spec, Z.shiftr_shiftr by lia.
  rewrite <- Z.bit0_odd, Z.shiftr_spec by lia. rewrite Z.add_0_l. reflexivity.
Qed.

Lemma powi_loop_inv k : forall res,
  2 <= 2 * Z.shiftr n (Z.of_nat k + 1) ->
  Inv (2 * Z.shiftr n (Z.of_nat k + 1)) res ->
  Inv n (powi_loop B wp m s e n k res).
Proof.
  induction k as [|k IH]; intros res Hj HI.
  - cbn [powi_loop]. pose proof (shiftr_step 0 ltac:(lia)) as E. rewrite Z.shiftr_0_r in E.
    change (Z.of_nat 0) with 0 in *. destruct (Z.testbit n 0); cbn [Z.b2z] in E.
    + rewrite E. apply Inv_mul; assumption.
    + rewrite E, Z.add_0_r. exact HI.
  - cbn [powi_loop]. pose proof (shiftr_step (Z.of_nat (S k)) ltac:(lia)) as E.
    replace (Z.of_nat k + 1) with (Z.of_nat (S k)) in IH by lia.
    apply IH.
    + rewrite E. destruct (Z.testbit n (Z.of_nat (S k))); cbn [Z.b2z]; lia.
    + rewrite E. destruct (Z.testbit n (Z.of_nat (S k))); cbn [Z.b2z].
      * apply Inv_sqr; [lia|]. apply Inv_mul; assumption.
      * rewrite Z.add_0_r. apply Inv_sqr; [lia | exact HI].
Qed.

Hypothesis Hn : 2 <= n.

Lemma shiftr_top : Z.shiftr n (Z.log2 n) = 1.
Proof.
  rewrite Z.shiftr_div_pow2 by apply Z.log2_nonneg.
  pose proof (Z.log2_spec n ltac:(lia)) as [L Up]. rewrite Z.pow_succ_r in Up by apply Z.log2_nonneg.
  symmetry. apply (Z.div_unique n (2 ^ Z.log2 n) 1 (n - 2 ^ Z.log2 n)); lia.
Qed.

(** the working-precision result of the loop of powi: x^n up to (1 +- u)^(2n-3) *)
Theorem powi_loop_result :
  Inv n (powi_loop B wp m s e n (Z.to_nat (bit_len n - 2)) (c_sqr B wp m s e)).
Proof.
  assert (Hl : 1 <= Z.log2 n) by (apply Z.log2_le_pow2; lia).
  assert (Hk : Z.of_nat (Z.to_nat (bit_len n - 2)) + 1 = Z.log2 n).
  { unfold bit_len. destruct (Z.eqb_spec n 0); [lia|]. rewrite Z.abs_eq by lia. lia. }
  apply powi_loop_inv; rewrite Hk, shiftr_top; [lia | exact Inv_init].
Qed.

End Loop.

(* ---------------------------------------------------------------- the final rounding *)
Section Final.
Variable B : Z.
Hypothesis HB : 2 <= B.
Local Notation bp := (bpw B).

Lemma bpw_le a b : a <= b -> (bp a <= bp b)%R.
Proof. intros H. rewrite !(bpw_bpow B HB). apply bpow_le. exact H. Qed.
Lemma bpw_lt a b : a < b -> (bp a < bp b)%R.
Proof. intros H. rewrite !(bpw_bpow B HB). apply bpow_lt. exact H. Qed.

(** a nearest-mode rounding is at least as close as any other multiple of the unit *)
Lemma nearest_multiple m N d q : 0 < d -> is_half_mode m = true ->
  Z.abs (spec_round m N d * d - N) <= Z.abs (q * d - N).
Proof.
  intros Hd Hm. destruct (spec_round_error m N d Hd) as [_ H]. specialize (H Hm). cbv zeta in H.
  set (r := spec_round m N d) in *. destruct (Z.eq_dec q r) as [->|Hne]; [lia|].
  assert (d <= Z.abs (q * d - r * d)).
  { replace (q * d - r * d) with ((q - r) * d) by ring. rewrite Z.abs_mul, (Z.abs_eq d) by lia.
    assert (1 <= Z.abs (q - r)) by lia. nia. }
  lia.
Qed.

(** rounding the working-precision value v to p digits, when v is within half an ulp (of the true
    value t, at precision p) of t: the result is within one ulp of t *)
Lemma final_round p m sv ev t E : 1 <= p -> is_half_mode m = true ->
  (bp E <= Rabs t)%R -> (Rabs t < bp (E + 1))%R ->
  (Rabs (fval B sv ev - t) < bp (E - p + 1) / 2)%R ->
  (Rabs (aval B (c_repr_round B p m sv ev) - t) < bp (E - p + 1))%R.
Proof.
  intros Hp Hm HtL HtU Hv. unfold c_repr_round. rewrite aval_nrm by assumption.
  set (v := fval B sv ev) in *. set (ulp := bp (E - p + 1)) in *.
  destruct (Z_lt_le_dec p (dlen B sv)) as [C|C].
  2:{ rewrite repr_round_exact by assumption. unfold aval. cbn [approx_sig approx_exp]. fold v.
      assert (0 < ulp)%R by apply (bpw_pos B HB). lra. }
  destruct (repr_round_spec B HB p m sv ev Hp C) as (a & E1 & _).
  set (k := dlen B sv - p) in *. rewrite E1. unfold aval. cbn [approx_sig approx_exp].
  set (r := spec_round m sv (B ^ k)).
  assert (Hk : 0 <= k) by (unfold k; lia).
  assert (Hpk : 0 < B ^ k) by (apply Z.pow_pos_nonneg; lia).
  assert (Hsv : sv <> 0) by (intros ->; rewrite dlen_zero in C; lia).
  destruct (dlen_spec B HB sv Hsv) as [[L Up] G]. set (d := dlen B sv) in *.
  destruct (spec_round_error m sv (B ^ k) Hpk) as [_ Hh]. specialize (Hh Hm). cbv zeta in Hh. fold r in Hh.
  (* the power of B below |sv| is a multiple of the unit *)
  assert (Hq : Z.abs (r * B ^ k - sv) <= Z.abs sv - B ^ (d - 1)).
  { pose proof (nearest_multiple m sv (B ^ k) (Z.sgn sv * B ^ (p - 1)) Hpk Hm) as Hn. fold r in Hn.
    assert (Ed : B ^ (d - 1) = B ^ (p - 1) * B ^ k).
    { replace (d - 1) with ((p - 1) + k) by (unfold k; lia). apply Z.pow_add_r; lia. }
    replace (Z.sgn sv * B ^ (p - 1) * B ^ k - sv) with (Z.sgn sv * B ^ (d - 1) - sv) in Hn by (rewrite Ed; ring).
    assert (0 < B ^ (d - 1)) by (apply Z.pow_pos_nonneg; lia).
    destruct (Z.lt_trichotomy sv 0) as [N|[N|N]]; [|lia|].
    - rewrite (Z.sgn_neg sv N) in Hn. lia.
    - rewrite (Z.sgn_pos sv N) in Hn. lia. }
  set (D := Z.abs (r * B ^ k - sv)) in *.
  (* real side *)
  assert (Hbe : (0 < bp ev)%R) by apply (bpw_pos B HB).
  assert (Hdist : (Rabs (fval B r (ev + k) - v) = IZR D * bp ev)%R).
  { unfold v. rewrite <- fval_shift by assumption. rewrite !(fval_bpw B).
    replace (IZR (r * B ^ k) * bp ev - IZR sv * bp ev)%R with (IZR (r * B ^ k - sv) * bp ev)%R by (rewrite minus_IZR; ring).
    rewrite Rabs_mult, (Rabs_pos_eq (bp ev)) by lra. unfold D. rewrite abs_IZR. reflexivity. }
  assert (Habsv : (Rabs v = IZR (Z.abs sv) * bp ev)%R).
  { unfold v. rewrite (fval_bpw B), Rabs_mult, (Rabs_pos_eq (bp ev)) by lra. rewrite abs_IZR. reflexivity. }
  assert (Hunit : (IZR (B ^ k) * bp ev = bp (ev + k))%R).
  { rewrite (IZR_Bpow B k Hk), (bpw_add B HB). ring. }
  assert (HEv : (IZR (B ^ (d - 1)) * bp ev = bp (ev + k + p - 1))%R).
  { rewrite (IZR_Bpow B (d - 1)) by lia. rewrite <- (bpw_add B HB). f_equal. unfold k. lia. }
  assert (Htri : (Rabs (fval B r (ev + k) - t) <= Rabs (fval B r (ev + k) - v) + Rabs (v - t))%R).
  { replace (fval B r (ev + k) - t)%R with ((fval B r (ev + k) - v) + (v - t))%R by ring. apply Rabs_triang. }
  destruct (Z_le_gt_dec (ev + k) (E - p + 1)) as [Cs|Cb].
  - (* the unit of v is at most the ulp of t *)
    assert (bp (ev + k) <= ulp)%R by (apply bpw_le; assumption).
    assert (2 * (IZR D * bp ev) <= bp (ev + k))%R.
    { rewrite <- Hunit. apply IZR_le in Hh. rewrite mult_IZR in Hh. nra. }
    lra.
  - (* v lies in a higher binade than t: the power of B between them is representable *)
    assert (bp (E + 1) <= bp (ev + k + p - 1))%R by (apply bpw_le; lia).
    assert (IZR D * bp ev <= Rabs v - bp (ev + k + p - 1))%R.
    { rewrite Habsv, <- HEv. apply IZR_le in Hq. rewrite minus_IZR in Hq. nra. }
    assert (Rabs v - Rabs t <= Rabs (v - t))%R by apply Rabs_triang_inv.
    lra.
Qed.

End Final.

(* ---------------------------------------------------------------- the theorems *)
Section Main.
Variable B : Z.
Hypothesis HB : 2 <= B.
Local Notation bp := (bpw B).

(** what the guard digits have to provide: (2n-3) roundings at the working precision stay below
    half an ulp at the target precision *)
Definition guard_condition (p n wp : Z) : Prop := (2 * n - 3) * (2 * B ^ p + 1) <= 2 * B ^ (wp - 1).

Lemma with_precision_round wp p m s e : p < wp -> with_precision B wp p m s e = c_repr_round B p m s e.
Proof.
  intros H. unfold with_precision. destruct (wp =? 0); [reflexivity|].
  destruct (Z.gtb_spec wp p); [reflexivity | lia].
Qed.

Lemma c_repr_round_exact_val p m s e :
  is_exact (c_repr_round B p m s e) = true -> aval B (c_repr_round B p m s e) = fval B s e.
Proof.
  unfold c_repr_round. rewrite is_exact_nrm, aval_nrm by assumption. intros H.
  rewrite (repr_round_exact_inv B p m s e H). reflexivity.
Qed.

Lemma pow_Z_powerRZ x n : 0 <= n -> (x ^ Z.to_nat n)%R = powerRZ x n.
Proof. intros Hn. rewrite <- (Z2Nat.id n Hn) at 2. apply pow_powerRZ. Qed.

(** EVERY mode: a result of powi flagged Exact is x^n exactly *)
Theorem powi_pos_exact_flag p m s e n : 1 <= p -> 0 <= n ->
  dlen B s <= 2 * powi_work_precision p n ->
  is_exact (powi_pos B p m s e n) = true ->
  aval B (powi_pos B p m s e n) = powerRZ (fval B s e) n.
Proof.
  intros Hp Hn Hs. unfold powi_pos.
  destruct (Z.eqb_spec n 0) as [->|N0].
  { intros _. unfold aval. cbn [approx_sig approx_exp powerRZ]. apply fval_1_0. }
  destruct (Z.eqb_spec n 1) as [->|N1].
  { intros H. rewrite (c_repr_round_exact_val _ _ _ _ H). rewrite powerRZ_1. reflexivity. }
  set (wp := powi_work_precision p n) in *.
  assert (Hwp : 1 <= wp).
  { unfold wp, powi_work_precision. destruct (Z.eqb_spec p 0); [lia|]. unfold powi_work_precision_gen, powi_guard_digits_gen, bit_len.
    destruct (n =? 0); destruct (p =? 0); pose proof (Z.log2_nonneg (Z.abs n)); pose proof (Z.log2_nonneg (Z.abs p)); lia. }
  pose proof (powi_loop_result B HB wp Hwp m s e Hs n ltac:(lia)) as (D & Ex & _).
  set (res := powi_loop B wp m s e n (Z.to_nat (bit_len n - 2)) (c_sqr B wp m s e)) in *.
  rewrite exact_and_then, aval_and_then. intros H. apply andb_prop in H. destruct H as [H1 H2].
  unfold with_precision in *. destruct ((wp =? 0) || (wp >? p)).
  - rewrite (c_repr_round_exact_val _ _ _ _ H2). fold (aval B res). rewrite (Ex H1). apply pow_Z_powerRZ. lia.
  - unfold aval at 1. cbn [approx_sig approx_exp]. fold (aval B res). rewrite (Ex H1). apply pow_Z_powerRZ. lia.
Qed.

(** the two NEAREST modes: under the guard condition powi is within one ulp of x^n (in the binade of
    the true value) and flags Exact only an exact result - the acceptance criterion of the property *)
Theorem powi_pos_nearest p m s e n : 1 <= p -> 2 <= n -> s <> 0 -> is_half_mode m = true ->
  let wp := powi_work_precision p n in
  p < wp -> dlen B s <= 2 * wp -> guard_condition p n wp ->
  Accepted B p (powerRZ (fval B s e) n) (aval B (powi_pos B p m s e n)) (is_exact (powi_pos B p m s e n)).
Proof.
  intros Hp Hn Hs0 Hm wp Hpw Hs GC. split.
  2:{ intros H. apply powi_pos_exact_flag; try assumption; lia. }
  right. unfold powi_pos.
  destruct (Z.eqb_spec n 0) as [->|N0]; [lia|]. destruct (Z.eqb_spec n 1) as [->|N1]; [lia|]. fold wp.
  assert (Hwp : 1 <= wp) by lia.
  pose proof (powi_loop_result B HB wp Hwp m s e Hs n Hn) as (D & _ & Rel). specialize (Rel Hm).
  set (res := powi_loop B wp m s e n (Z.to_nat (bit_len n - 2)) (c_sqr B wp m s e)) in *.
  rewrite aval_and_then, with_precision_round by assumption.
  rewrite <- pow_Z_powerRZ by lia. set (t := (fval B s e ^ Z.to_nat n)%R) in *.
  assert (Ht : t <> 0%R) by (apply pow_nonzero, (fval_neq0 B HB); assumption).
  set (E := mag (rdx B HB) t - 1).
  assert (HtL : (bp E <= Rabs t)%R).
  { rewrite (bpw_bpow B HB). unfold E. apply bpow_mag_le. exact Ht. }
  assert (HtU : (Rabs t < bp (E + 1))%R).
  { rewrite (bpw_bpow B HB). unfold E. replace (mag (rdx B HB) t - 1 + 1) with (mag (rdx B HB) t : Z) by lia. apply bpow_mag_gt. }
  exists E. split; [exact HtL|].
  apply final_round; try assumption.
  (* the accumulated error is below half an ulp *)
  fold (aval B res). set (v := aval B res) in *.
  set (c := Z.to_nat (2 * n - 3)) in *. set (U := IZR (2 * B ^ (wp - 1))) in *.
  assert (HU : (2 <= U)%R) by apply (U_ge2 B HB wp Hwp).
  assert (Hc : INR c = IZR (2 * n - 3)).
  { unfold c. rewrite INR_IZR_INZ, Z2Nat.id by lia. reflexivity. }
  assert (Hc1 : (1 <= INR c)%R) by (rewrite Hc; apply IZR_le; lia).
  assert (HBp : (1 <= IZR (B ^ p))%R) by (apply IZR_le; pose proof (Z.pow_pos_nonneg B p); lia).
  assert (HGC : (INR c * (2 * IZR (B ^ p) + 1) <= U)%R).
  { rewrite Hc. unfold U. rewrite <- (mult_IZR 2 (B ^ p)), <- (plus_IZR _ 1), <- mult_IZR. apply IZR_le. exact GC. }
  destruct (u_bounds B HB wp Hwp) as [u0 u1]. fold U in u0, u1.
  assert (Hcu : (INR c * / U < 1)%R).
  { apply (Rmult_lt_reg_r U); [lra|]. rewrite Rmult_assoc, Rinv_l by lra. nra. }
  pose proof (RA_dist (/ U) u0 u1 c t v Hcu Rel) as Hd.
  (* multiply through by U *)
  assert (Hd' : (Rabs (v - t) * (U - INR c) <= Rabs t * INR c)%R).
  { assert (Rabs (v - t) * (1 - INR c * / U) * U <= Rabs t * (INR c * / U) * U)%R by (apply Rmult_le_compat_r; lra).
    replace (Rabs (v - t) * (1 - INR c * / U) * U)%R with (Rabs (v - t) * (U - INR c))%R in H by (field; lra).
    replace (Rabs t * (INR c * / U) * U)%R with (Rabs t * INR c)%R in H by (field; lra). exact H. }
  assert (Hulp : (bp (E + 1) = bp (E - p + 1) * IZR (B ^ p))%R).
  { rewrite (IZR_Bpow B p) by lia. rewrite <- (bpw_add B HB). f_equal. lia. }
  set (ulp := bp (E - p + 1)) in *. assert (0 < ulp)%R by apply (bpw_pos B HB).
  pose proof (Rabs_pos (v - t)) as Hv0.
  assert (H1 : (Rabs (v - t) * (2 * INR c * IZR (B ^ p)) <= Rabs (v - t) * (U - INR c))%R) by (apply Rmult_le_compat_l; nra).
  assert (H2 : (Rabs t * INR c < ulp * IZR (B ^ p) * INR c)%R) by (apply Rmult_lt_compat_r; lra).
  assert (H3 : (Rabs (v - t) * 2 * (INR c * IZR (B ^ p)) < ulp * (INR c * IZR (B ^ p)))%R) by nra.
  assert (0 < INR c * IZR (B ^ p))%R by nra.
  apply (Rmult_lt_reg_r (2 * (INR c * IZR (B ^ p)))); [nra|]. nra.
Qed.

(* ---- the guard digits of the source satisfy the guard condition *)
Lemma pow23 L : (2 <= L)%nat -> 6 * 2 ^ Z.of_nat L - 15 <= 2 * 3 ^ Z.of_nat L.
Proof.
  induction L as [|L IH]; [lia|]. intros H.
  destruct (Nat.eq_dec L 1) as [->|N]; [vm_compute; discriminate|].
  specialize (IH ltac:(lia)). rewrite Nat2Z.inj_succ, !Z.pow_succ_r by lia.
  assert (9 <= 3 ^ Z.of_nat L).
  { change 9 with (3 ^ 2). apply Z.pow_le_mono_r; lia. }
  lia.
Qed.

Lemma bit_len_bounds x : 1 <= x -> 1 <= bit_len x /\ x < 2 ^ bit_len x /\ 2 ^ (bit_len x - 1) <= x.
Proof.
  intros H. unfold bit_len. destruct (Z.eqb_spec x 0); [lia|]. rewrite Z.abs_eq by lia.
  pose proof (Z.log2_nonneg x). pose proof (Z.log2_spec x ltac:(lia)) as [L U].
  replace (Z.succ (Z.log2 x)) with (Z.log2 x + 1) in U by lia.
  replace (Z.log2 x + 1 - 1) with (Z.log2 x) by lia. lia.
Qed.

(** exp.rs: guard_digits = exp.bit_len() + self.precision.bit_len() (regenerated): enough for every
    base >= 3 at every precision, and for base 2 from 4 digits on *)
Theorem powi_guard_condition p n : 1 <= p -> 2 <= n -> 3 <= B \/ 4 <= p ->
  guard_condition p n (powi_work_precision p n).
Proof.
  intros Hp Hn Hcase. unfold guard_condition, powi_work_precision, powi_work_precision_gen, powi_guard_digits_gen.
  destruct (Z.eqb_spec p 0); [lia|].
  destruct (bit_len_bounds n ltac:(lia)) as (Ln1 & Un & Lown). destruct (bit_len_bounds p Hp) as (Lp1 & Up & Lowp).
  set (L := bit_len n) in *. set (Lp := bit_len p) in *.
  assert (L2 : 2 <= L).
  { destruct (Z_lt_le_dec L 2); [|assumption]. exfalso. assert (L = 1) by lia. rewrite H in Un. simpl in Un. lia. }
  replace (p + (L + Lp) - 1) with ((p - 1) + L + Lp) by lia.
  rewrite !Z.pow_add_r by lia.
  assert (Hpp : 0 < B ^ (p - 1)) by (apply Z.pow_pos_nonneg; lia).
  assert (HBp : B ^ p = B * B ^ (p - 1)).
  { replace p with (1 + (p - 1)) at 1 by lia. rewrite Z.pow_add_r, Z.pow_1_r by lia. reflexivity. }
  assert (H2L : 2 ^ L <= B ^ L) by (apply Z.pow_le_mono_l; lia).
  assert (HBLp : B <= B ^ Lp).
  { rewrite <- (Z.pow_1_r B) at 1. apply Z.pow_le_mono_r; lia. }
  assert (H1 : 2 * B ^ p + 1 <= 3 * B ^ p) by (rewrite HBp; nia).
  assert (Hn3 : 0 <= 2 * n - 3) by lia.
  destruct Hcase as [HB3|Hp4].
  - (* B >= 3: 3 (2n - 3) <= 2 * 3^L <= 2 B^L *)
    assert (H3L : 3 ^ L <= B ^ L) by (apply Z.pow_le_mono_l; lia).
    pose proof (pow23 (Z.to_nat L) ltac:(lia)) as P. rewrite Z2Nat.id in P by lia.
    assert (Hk : 3 * (2 * n - 3) <= 2 * B ^ L) by lia.
    (* LHS <= (2n-3) * 3 B^p = 3(2n-3) * B * B^(p-1) <= 2 B^L * B^Lp * B^(p-1) *)
    assert (A1 : (2 * n - 3) * (2 * B ^ p + 1) <= (2 * n - 3) * (3 * B ^ p)) by (apply Z.mul_le_mono_nonneg_l; lia).
    assert (A2 : (2 * n - 3) * (3 * B ^ p) = 3 * (2 * n - 3) * B * B ^ (p - 1)) by (rewrite HBp; ring).
    assert (A3 : 3 * (2 * n - 3) * B <= 2 * B ^ L * B ^ Lp).
    { assert (0 <= 2 * B ^ L) by lia. clear - Hk HBLp H HB Hn3. nia. }
    assert (A4 : 3 * (2 * n - 3) * B * B ^ (p - 1) <= 2 * B ^ L * B ^ Lp * B ^ (p - 1)) by (apply Z.mul_le_mono_nonneg_r; lia).
    lia.
  - (* p >= 4: bit_len p >= 3 *)
    assert (Lp3 : 3 <= Lp).
    { destruct (Z_lt_le_dec Lp 3); [|assumption]. exfalso.
      assert (2 ^ Lp <= 2 ^ 2) by (apply Z.pow_le_mono_r; lia). simpl in H. lia. }
    assert (HB3 : B * 4 <= B ^ Lp).
    { replace Lp with (1 + 2 + (Lp - 3)) by lia. rewrite !Z.pow_add_r, Z.pow_1_r by lia.
      assert (4 <= B ^ 2) by (change 4 with (2 ^ 2); apply Z.pow_le_mono_l; lia).
      assert (1 <= B ^ (Lp - 3)) by (pose proof (Z.pow_pos_nonneg B (Lp - 3)); lia).
      assert (B * 4 <= B * B ^ 2) by (apply Z.mul_le_mono_nonneg_l; lia).
      assert (0 <= B * B ^ 2) by lia.
      assert (B * B ^ 2 * 1 <= B * B ^ 2 * B ^ (Lp - 3)) by (apply Z.mul_le_mono_nonneg_l; lia). lia. }
    assert (A1 : (2 * n - 3) * (2 * B ^ p + 1) <= (2 * n - 3) * (3 * B ^ p)) by (apply Z.mul_le_mono_nonneg_l; lia).
    assert (A2 : (2 * n - 3) * (3 * B ^ p) = 3 * (2 * n - 3) * B * B ^ (p - 1)) by (rewrite HBp; ring).
    assert (A3 : 3 * (2 * n - 3) * B <= 2 * B ^ L * B ^ Lp).
    { assert (Hx : 3 * (2 * n - 3) <= 8 * B ^ L) by lia. clear - Hx HB3 HB Hn3 H2L. nia. }
    assert (A4 : 3 * (2 * n - 3) * B * B ^ (p - 1) <= 2 * B ^ L * B ^ Lp * B ^ (p - 1)) by (apply Z.mul_le_mono_nonneg_r; lia).
    lia.
Qed.

Lemma powi_work_precision_gt p n : 1 <= p -> 2 <= n -> p < powi_work_precision p n.
Proof.
  intros Hp Hn. unfold powi_work_precision, powi_work_precision_gen, powi_guard_digits_gen. destruct (Z.eqb_spec p 0); [lia|].
  destruct (bit_len_bounds n ltac:(lia)) as (L1 & _). destruct (bit_len_bounds p Hp) as (L2 & _). lia.
Qed.

(** Context::powi with a non-negative exponent, nearest modes, B >= 3 or p >= 4, an operand of at
    most 2 wp digits (every operand that fits the context precision does): within one ulp, Exact
    only if exact *)
Theorem powi_asis_nearest p m s e n : 1 <= p -> 2 <= n -> s <> 0 -> is_half_mode m = true ->
  3 <= B \/ 4 <= p -> dlen B s <= 2 * powi_work_precision p n ->
  exists a, powi_asis B p m s e n = Ok a /\
    Accepted B p (powerRZ (fval B s e) n) (aval B a) (is_exact a).
Proof.
  intros Hp Hn Hs Hm Hc Hd. unfold powi_asis. destruct (Z.ltb_spec n 0); [lia|].
  eexists. split; [reflexivity|].
  apply powi_pos_nearest; try assumption.
  - apply powi_work_precision_gt; assumption.
  - apply powi_guard_condition; assumption.
Qed.

End Main.

(* ================================================================ negative exponents *)
(** v = t * theta with |theta - 1| <= d *)
Definition RD (d t v : R) : Prop := exists th : R, v = (t * th)%R /\ (Rabs (th - 1) <= d)%R.

Lemma RD_weaken d d' t v : (d <= d')%R -> RD d t v -> RD d' t v.
Proof. intros H (th & E & Hth). exists th. split; [exact E | lra]. Qed.

Lemma RA_to_RD u c t v : (0 <= u)%R -> (u <= 1)%R -> (INR c * u < 1)%R -> RA u c t v ->
  RD (INR c * u / (1 - INR c * u)) t v.
Proof.
  intros u0 u1 Hc (th & E & L & Up). exists th. split; [exact E|].
  pose proof (bernoulli_minus u u1 c) as Bm. pose proof (bernoulli_plus u u0 u1 c) as Bp.
  pose proof (pos_INR c) as Hc0. set (y := (INR c * u)%R) in *.
  assert (Hy : (0 <= y)%R) by (unfold y; nra).
  assert (Hd : (y <= y / (1 - y))%R).
  { apply (Rmult_le_reg_r (1 - y)); [lra|]. unfold Rdiv. rewrite Rmult_assoc, Rinv_l by lra. nra. }
  assert (Hup : (th - 1 <= y / (1 - y))%R).
  { apply (Rmult_le_reg_r (1 - y)); [lra|]. unfold Rdiv. rewrite Rmult_assoc, Rinv_l by lra.
    assert (1 <= (1 + u) ^ c)%R by (apply pow_R1_Rle; lra). nra. }
  apply Rabs_le. lra.
Qed.

Lemma RD_step d t v th u' : (0 <= d)%R -> RD d t v -> (Rabs (th - 1) <= u')%R -> RD (d + u' + d * u') t (v * th).
Proof.
  intros Hd (a & -> & Ha) Hth. exists (a * th)%R. split; [ring|].
  replace (a * th - 1)%R with ((a - 1) * (th - 1) + (a - 1) + (th - 1))%R by ring.
  eapply Rle_trans; [apply Rabs_triang|]. eapply Rle_trans; [apply Rplus_le_compat_r, Rabs_triang|].
  rewrite Rabs_mult. pose proof (Rabs_pos (a - 1)). pose proof (Rabs_pos (th - 1)). nra.
Qed.

Lemma RD_inv d t v : (0 <= d)%R -> (d < 1)%R -> t <> 0%R -> RD d t v -> RD (d / (1 - d)) (/ t) (/ v).
Proof.
  intros Hd0 Hd1 Ht (a & -> & Ha). apply Rabs_le_inv in Ha.
  assert (Ha0 : (0 < a)%R) by lra.
  exists (/ a)%R. split; [field; split; lra|].
  replace (/ a - 1)%R with ((1 - a) / a)%R by (field; lra).
  unfold Rdiv. rewrite Rabs_mult, Rabs_inv, (Rabs_pos_eq a) by lra.
  apply (Rmult_le_reg_r a); [lra|]. rewrite Rmult_assoc, Rinv_l by lra.
  apply (Rmult_le_reg_r (1 - d)); [lra|].
  replace (d * / (1 - d) * a * (1 - d))%R with (d * a)%R by (field; lra).
  assert (Rabs (1 - a) <= d)%R by (apply Rabs_le; lra). pose proof (Rabs_pos (1 - a)). nra.
Qed.

Section Neg.
Variable B : Z.
Hypothesis HB : 2 <= B.
Local Notation bp := (bpw B).

(** the last rounding, from a relative error d with 2 d B^p <= 1 *)
Lemma RD_final p m sv ev t d : 1 <= p -> is_half_mode m = true -> t <> 0%R -> (0 <= d)%R ->
  (2 * d * IZR (B ^ p) <= 1)%R -> RD d t (fval B sv ev) ->
  exists E, (bp E <= Rabs t)%R /\ (Rabs (aval B (c_repr_round B p m sv ev) - t) < bp (E - p + 1))%R.
Proof.
  intros Hp Hm Ht Hd0 Hd (th & Ev & Hth).
  set (E := mag (rdx B HB) t - 1).
  assert (HtL : (bp E <= Rabs t)%R) by (rewrite (bpw_bpow B HB); unfold E; apply bpow_mag_le; exact Ht).
  assert (HtU : (Rabs t < bp (E + 1))%R).
  { rewrite (bpw_bpow B HB). unfold E. replace (mag (rdx B HB) t - 1 + 1) with (mag (rdx B HB) t : Z) by lia. apply bpow_mag_gt. }
  exists E. split; [exact HtL|]. apply final_round; try assumption.
  rewrite Ev. replace (t * th - t)%R with (t * (th - 1))%R by ring. rewrite Rabs_mult.
  assert (Hulp : (bp (E + 1) = bp (E - p + 1) * IZR (B ^ p))%R).
  { rewrite (IZR_Bpow B p) by lia. rewrite <- (bpw_add B HB). f_equal. lia. }
  set (ulp := bp (E - p + 1)) in *. assert (0 < ulp)%R by apply (bpw_pos B HB).
  assert (HBp : (1 <= IZR (B ^ p))%R) by (apply IZR_le; pose proof (Z.pow_pos_nonneg B p); lia).
  pose proof (Rabs_pos (th - 1)). assert (0 < Rabs t)%R by (apply Rabs_pos_lt; exact Ht).
  destruct (Req_dec (Rabs (th - 1)) 0) as [Z0|NZ]; [rewrite Z0; lra|].
  assert (Rabs t * Rabs (th - 1) < ulp * IZR (B ^ p) * Rabs (th - 1))%R by (apply Rmult_lt_compat_r; lra).
  assert (ulp * IZR (B ^ p) * Rabs (th - 1) <= ulp * IZR (B ^ p) * d)%R by (apply Rmult_le_compat_l; nra).
  assert (ulp * IZR (B ^ p) * d <= ulp / 2)%R by nra. lra.
Qed.

(** Context::repr_div(1, v) in a nearest mode: one rounding of the exact inverse *)
Lemma c_repr_div_one_rel rp m sv ev : 1 <= rp -> sv <> 0 -> is_half_mode m = true ->
  exists a, c_repr_div B rp m 1 0 sv ev = Ok a /\
    exists th : R, aval B a = (/ fval B sv ev * th)%R /\ (Rabs (th - 1) * IZR (2 * B ^ (rp - 1)) <= 1)%R /\
                   (is_exact a = true -> th = 1%R).
Proof.
  intros Hrp Hsv Hm. unfold c_repr_div.
  pose proof (repr_div_spec B HB rp m 1 0 sv ev Hrp Hsv) as H. cbv zeta in H.
  destruct H as (Hk & a & Ea & Eexp & Esig & Hmatch). set (k := repr_div_shift B rp 1 sv) in *.
  rewrite Ea. cbn [rbind]. eexists. split; [reflexivity|]. rewrite aval_nrm, is_exact_nrm by assumption.
  assert (Hpk : 0 < B ^ k) by (apply Z.pow_pos_nonneg; lia).
  set (D := Z.abs sv) in *. assert (HD : 0 < D) by (unfold D; lia).
  set (N := Z.sgn sv * (1 * B ^ k)) in *. set (q := approx_sig a) in *.
  assert (HN : Z.abs N = B ^ k).
  { unfold N. rewrite Z.mul_1_l. destruct (Z.lt_trichotomy sv 0) as [L|[L|L]];
      [rewrite Z.sgn_neg by lia | lia | rewrite Z.sgn_pos by lia]; lia. }
  assert (HNsv : N * sv = B ^ k * D).
  { unfold N, D. rewrite Z.mul_1_l. destruct (Z.lt_trichotomy sv 0) as [L|[L|L]]; [|lia|].
    - rewrite Z.sgn_neg, Z.abs_neq by lia. ring.
    - rewrite Z.sgn_pos, Z.abs_eq by lia. ring. }
  destruct (spec_round_error m N D HD) as [_ Hh]. specialize (Hh Hm). cbv zeta in Hh. rewrite <- Esig in Hh. fold q in Hh.
  (* magnitude: B^(rp-1) * D <= B^k, or D = 1 and the quotient is exact *)
  assert (Hmag : 2 * B ^ (rp - 1) * Z.abs (q * D - N) <= B ^ k).
  { destruct (Z.eq_dec D 1) as [D1|D1].
    - assert (q * D = N).
      { rewrite Esig. apply spec_round_exact; [lia|]. rewrite D1. apply Z.mod_1_r. }
      rewrite H, Z.sub_diag. cbn [Z.abs]. lia.
    - assert (Hrem : Z.rem 1 sv <> 0).
      { destruct (Z.lt_trichotomy sv 0) as [L|[L|L]]; [|lia|].
        - replace sv with (- (- sv)) by lia. rewrite Z.rem_opp_r by lia. rewrite Z.rem_small by (unfold D in *; lia). lia.
        - rewrite Z.rem_small by (unfold D in *; lia). lia. }
      destruct (repr_div_magnitude B HB rp 1 sv Hrp Hsv Hrem) as [M _]. fold k D in M.
      change (Z.abs 1) with 1 in M. rewrite Z.mul_1_l in M.
      assert (0 < B ^ (rp - 1)) by (apply Z.pow_pos_nonneg; lia).
      assert (B ^ (rp - 1) * (2 * Z.abs (q * D - N)) <= B ^ (rp - 1) * D) by (apply Z.mul_le_mono_nonneg_l; lia). lia. }
  (* theta = q * D / N *)
  assert (HNr : IZR N <> 0%R) by (apply not_0_IZR; lia).
  assert (Hsr : IZR sv <> 0%R) by (apply not_0_IZR; assumption).
  exists (IZR (q * D) / IZR N)%R. split; [|split].
  - unfold aval. fold q. rewrite Eexp. rewrite !(fval_bpw B).
    replace (0 - ev - k) with (- ev + - k) by lia. rewrite (bpw_add B HB), !(bpw_neg B HB).
    rewrite <- (IZR_Bpow B k Hk).
    assert (Hbe : (bp ev <> 0)%R) by (pose proof (bpw_pos B HB ev); lra).
    assert (Hbk : IZR (B ^ k) <> 0%R) by (apply not_0_IZR; lia).
    assert (E2 : (IZR N * IZR sv = IZR (B ^ k) * IZR D)%R) by (rewrite <- !mult_IZR; f_equal; exact HNsv).
    assert (ED : IZR D = (IZR N * IZR sv / IZR (B ^ k))%R) by (rewrite E2; field; assumption).
    rewrite mult_IZR, ED. field. repeat split; assumption.
  - replace (IZR (q * D) / IZR N - 1)%R with (IZR (q * D - N) / IZR N)%R by (rewrite minus_IZR; field; assumption).
    unfold Rdiv. rewrite Rabs_mult, Rabs_inv, <- !abs_IZR, HN.
    apply IZR_le in Hmag. rewrite !mult_IZR in Hmag. rewrite mult_IZR.
    assert (Hkp : (0 < IZR (B ^ k))%R) by (apply IZR_lt; lia).
    apply (Rmult_le_reg_r (IZR (B ^ k))); [assumption|].
    replace (IZR (Z.abs (q * D - N)) * / IZR (B ^ k) * (2 * IZR (B ^ (rp - 1))) * IZR (B ^ k))%R
      with (2 * IZR (B ^ (rp - 1)) * IZR (Z.abs (q * D - N)))%R by (field; lra).
    lra.
  - intros Hx. destruct a as [qa ea|qa ea ra]; [|discriminate]. cbn [approx_sig] in q. subst q.
    (* qa * sv = 1 * B^k *)
    assert (qa * D = N).
    { unfold N, D. rewrite Z.mul_1_l in *. destruct (Z.lt_trichotomy sv 0) as [L|[L|L]]; [|lia|].
      - rewrite Z.sgn_neg, Z.abs_neq by lia. lia.
      - rewrite Z.sgn_pos, Z.abs_eq by lia. lia. }
    rewrite H. field. assumption.
Qed.

Lemma with_precision_exact_val wp p m s e : is_exact (with_precision B wp p m s e) = true ->
  aval B (with_precision B wp p m s e) = fval B s e.
Proof.
  unfold with_precision. destruct ((wp =? 0) || (wp >? p)); [apply c_repr_round_exact_val; assumption | reflexivity].
Qed.

(** the positive power at the enlarged precision rp of the negative-exponent path *)
Lemma powi_pos_RD rp m s e N : 3 <= rp -> 1 <= N -> s <> 0 -> is_half_mode m = true ->
  dlen B s <= 2 * powi_work_precision rp N ->
  RD (17 / 8 * / IZR (2 * B ^ (rp - 1))) (fval B s e ^ Z.to_nat N) (aval B (powi_pos B rp m s e N)).
Proof.
  intros Hrp HN Hs Hm Hd. set (w := (/ IZR (2 * B ^ (rp - 1)))%R).
  assert (Hw8 : (0 < w <= / 8)%R).
  { unfold w. assert (4 <= B ^ (rp - 1)).
    { change 4 with (2 ^ 2). transitivity (2 ^ (rp - 1)); [apply Z.pow_le_mono_r; lia | apply Z.pow_le_mono_l; lia]. }
    assert (8 <= IZR (2 * B ^ (rp - 1)))%R by (apply IZR_le; lia).
    split; [apply Rinv_0_lt_compat; lra | apply Rinv_le_contravar; lra]. }
  unfold powi_pos. destruct (Z.eqb_spec N 0); [lia|].
  destruct (Z.eqb_spec N 1) as [->|N1].
  - destruct (repr_round_rel B HB rp m s e ltac:(lia) Hm) as (th & E & Hth).
    exists th. unfold c_repr_round. rewrite aval_nrm, E by assumption. change (Z.to_nat 1) with 1%nat. split; [cbn [pow]; ring|].
    fold w. assert (Rabs (th - 1) <= w)%R.
    { unfold w. apply (rel_to_u B HB rp ltac:(lia)). exact Hth. }
    lra.
  - set (wp := powi_work_precision rp N) in *.
    assert (Hg : rp + bit_len N + bit_len rp = wp).
    { unfold wp, powi_work_precision, powi_work_precision_gen, powi_guard_digits_gen. destruct (Z.eqb_spec rp 0); lia. }
    destruct (bit_len_bounds N ltac:(lia)) as (LN1 & UN & _). destruct (bit_len_bounds rp ltac:(lia)) as (Lr1 & Ur & _).
    assert (Lr2 : 2 <= bit_len rp).
    { destruct (Z_lt_le_dec (bit_len rp) 2); [|assumption]. exfalso. assert (bit_len rp = 1) by lia. rewrite H in Ur. simpl in Ur. lia. }
    assert (Hwp : 1 <= wp) by lia.
    pose proof (powi_loop_result B HB wp Hwp m s e Hd N ltac:(lia)) as (_ & _ & Rel). specialize (Rel Hm).
    set (res := powi_loop B wp m s e N (Z.to_nat (bit_len N - 2)) (c_sqr B wp m s e)) in *.
    rewrite aval_and_then, with_precision_round by lia.
    destruct (u_bounds B HB wp Hwp) as [u0 u1]. set (u := (/ IZR (2 * B ^ (wp - 1)))%R) in *.
    set (c := Z.to_nat (2 * N - 3)) in *.
    assert (Hc : INR c = IZR (2 * N - 3)) by (unfold c; rewrite INR_IZR_INZ, Z2Nat.id by lia; reflexivity).
    (* c u <= w / 2 *)
    assert (Hcu : (INR c * u <= w / 2)%R).
    { rewrite Hc. unfold u, w.
      assert (Hz : (2 * N - 3) * (4 * B ^ (rp - 1)) <= 2 * B ^ (wp - 1)).
      { replace (wp - 1) with ((rp - 1) + bit_len N + bit_len rp) by lia. rewrite !Z.pow_add_r by lia.
        assert (0 < B ^ (rp - 1)) by (apply Z.pow_pos_nonneg; lia).
        assert (2 ^ bit_len N <= B ^ bit_len N) by (apply Z.pow_le_mono_l; lia).
        assert (4 <= B ^ bit_len rp).
        { change 4 with (2 ^ 2). transitivity (2 ^ bit_len rp); [apply Z.pow_le_mono_r; lia | apply Z.pow_le_mono_l; lia]. }
        assert (2 * (2 * N - 3) <= B ^ bit_len N * B ^ bit_len rp) by nia.
        assert (B ^ (rp - 1) * (2 * (2 * N - 3)) <= B ^ (rp - 1) * (B ^ bit_len N * B ^ bit_len rp)) by (apply Z.mul_le_mono_nonneg_l; lia).
        lia. }
      apply IZR_le in Hz. rewrite !mult_IZR in Hz. rewrite !mult_IZR.
      assert (0 < IZR (B ^ (rp - 1)))%R by (apply IZR_lt, Z.pow_pos_nonneg; lia).
      assert (0 < IZR (B ^ (wp - 1)))%R by (apply IZR_lt, Z.pow_pos_nonneg; lia).
      apply (Rmult_le_reg_r (2 * IZR (B ^ (wp - 1)))); [lra|].
      replace (IZR (2 * N - 3) * / (2 * IZR (B ^ (wp - 1))) * (2 * IZR (B ^ (wp - 1))))%R with (IZR (2 * N - 3)) by (field; lra).
      apply (Rmult_le_reg_r (4 * IZR (B ^ (rp - 1)))); [lra|].
      replace (/ (2 * IZR (B ^ (rp - 1))) / 2 * (2 * IZR (B ^ (wp - 1))) * (4 * IZR (B ^ (rp - 1))))%R
        with (2 * IZR (B ^ (wp - 1)))%R by (field; lra).
      lra. }
    assert (Hc0 : (0 <= INR c * u)%R) by (pose proof (pos_INR c); nra).
    assert (Hlt : (INR c * u < 1)%R) by lra.
    pose proof (RA_to_RD u c _ _ u0 u1 Hlt Rel) as RD1.
    assert (Ha : (INR c * u / (1 - INR c * u) <= w)%R).
    { apply (Rmult_le_reg_r (1 - INR c * u)); [lra|]. unfold Rdiv. rewrite Rmult_assoc, Rinv_l by lra. nra. }
    apply (RD_weaken _ w) in RD1; [|exact Ha].
    destruct (repr_round_rel B HB rp m (approx_sig res) (approx_exp res) ltac:(lia) Hm) as (th & E & Hth).
    assert (Hthw : (Rabs (th - 1) <= w)%R) by (apply (rel_to_u B HB rp ltac:(lia)); exact Hth).
    unfold c_repr_round. rewrite aval_nrm, E by assumption. fold (aval B res).
    apply (RD_weaken (w + w + w * w)); [nra|]. apply RD_step; [lra | exact RD1 | exact Hthw].
Qed.

Lemma powi_pos_exact_val rp m s e N : 1 <= rp -> 1 <= N -> dlen B s <= 2 * powi_work_precision rp N ->
  is_exact (powi_pos B rp m s e N) = true -> aval B (powi_pos B rp m s e N) = (fval B s e ^ Z.to_nat N)%R.
Proof.
  intros. rewrite pow_Z_powerRZ by lia. apply powi_pos_exact_flag; try assumption; lia.
Qed.

(** Context::powi with a NEGATIVE exponent, nearest modes, p >= 2 or B >= 5: within one ulp of
    x^n = 1 / x^|n|, Exact only if exact *)
Theorem powi_asis_neg_nearest p m s e n : 1 <= p -> n < 0 -> s <> 0 -> is_half_mode m = true ->
  2 <= p \/ 5 <= B ->
  dlen B s <= 2 * powi_work_precision (powi_neg_precision_gen no_f32 p (powi_neg_guard_bits_gen no_f32 p)) (- n) ->
  exists a, powi_asis B p m s e n = Ok a /\
    Accepted B p (powerRZ (fval B s e) n) (aval B a) (is_exact a).
Proof.
  intros Hp Hn Hs Hm Hcase Hd. unfold powi_asis. destruct (Z.ltb_spec n 0); [|lia].
  destruct (Z.eqb_spec p 0); [lia|]. rewrite (reverse_mode_half m Hm).
  set (rp := powi_neg_precision_gen no_f32 p (powi_neg_guard_bits_gen no_f32 p)) in *.
  destruct (bit_len_bounds p Hp) as (Lp1 & Up & _).
  assert (Hrp : rp = p + 2 * bit_len p) by (unfold rp, powi_neg_precision_gen, powi_neg_guard_bits_gen; lia).
  assert (Hrp3 : 3 <= rp) by lia.
  set (N := - n) in *. assert (HN : 1 <= N) by (unfold N; lia).
  set (X := fval B s e). assert (HX : X <> 0%R) by (apply (fval_neq0 B HB); assumption).
  assert (Ht : powerRZ X n = (/ X ^ Z.to_nat N)%R).
  { replace n with (- N) by (unfold N; lia). rewrite powerRZ_neg', <- pow_Z_powerRZ by lia. reflexivity. }
  rewrite Ht. set (T := (X ^ Z.to_nat N)%R). assert (HT : T <> 0%R) by (apply pow_nonzero; exact HX).
  set (w := (/ IZR (2 * B ^ (rp - 1)))%R).
  assert (HB4 : 4 <= B ^ (rp - 1)).
  { change 4 with (2 ^ 2). transitivity (2 ^ (rp - 1)); [apply Z.pow_le_mono_r; lia | apply Z.pow_le_mono_l; lia]. }
  assert (Hw8 : (0 < w <= / 8)%R).
  { unfold w. assert (8 <= IZR (2 * B ^ (rp - 1)))%R by (apply IZR_le; lia).
    split; [apply Rinv_0_lt_compat; lra | apply Rinv_le_contravar; lra]. }
  pose proof (powi_pos_RD rp m s e N Hrp3 HN Hs Hm Hd) as RDp. fold w X T in RDp.
  pose proof (powi_pos_exact_val rp m s e N ltac:(lia) HN Hd) as Exp. fold X T in Exp.
  set (pow := powi_pos B rp m s e N) in *.
  (* the power is not zero *)
  assert (Hpv : aval B pow <> 0%R).
  { destruct RDp as (th & E & Hth). rewrite E. apply Rabs_le_inv in Hth.
    apply Rmult_integral_contrapositive_currified; [exact HT | lra]. }
  assert (Hps : approx_sig pow <> 0).
  { intros Z0. apply Hpv. unfold aval. rewrite Z0. apply fval_0. }
  destruct (c_repr_div_one_rel rp m (approx_sig pow) (approx_exp pow) ltac:(lia) Hps Hm) as (inv & Einv & th & Ev & Hth & Hex).
  fold (aval B pow) in Ev.
  assert (Einv' : approx_and_then_r pow (fun s' e' => c_repr_div B rp m 1 0 s' e') =
                  Ok (match pow with AExact _ _ => inv | AInexact _ _ r => match inv with AExact s' e' => AInexact s' e' r | b => b end end)).
  { destruct pow as [ps pe|ps pe pr]; cbn [approx_and_then_r approx_sig approx_exp] in *; rewrite Einv; reflexivity. }
  rewrite Einv'. cbn [rbind]. eexists. split; [reflexivity|].
  set (inv' := match pow with AExact _ _ => inv | AInexact _ _ r => match inv with AExact s' e' => AInexact s' e' r | b => b end end).
  assert (Hval' : aval B inv' = aval B inv) by (unfold inv'; destruct pow; destruct inv; reflexivity).
  assert (Hsig' : approx_sig inv' = approx_sig inv /\ approx_exp inv' = approx_exp inv) by (unfold inv'; destruct pow; destruct inv; split; reflexivity).
  assert (Hex' : is_exact inv' = is_exact pow && is_exact inv) by (unfold inv'; destruct pow; destruct inv; reflexivity).
  (* relative error of the rounded inverse *)
  assert (Hthw : (Rabs (th - 1) <= w)%R) by (apply (rel_to_u B HB rp ltac:(lia)); exact Hth).
  assert (RDi : RD (200 / 47 * w) (/ T) (aval B inv)).
  { rewrite Ev. apply (RD_weaken (136 / 47 * w + w + 136 / 47 * w * w)); [nra|].
    apply RD_step; [lra | | exact Hthw].
    apply (RD_weaken ((17 / 8 * w) / (1 - 17 / 8 * w))).
    { apply (Rmult_le_reg_r (1 - 17 / 8 * w)); [lra|]. unfold Rdiv at 1. rewrite Rmult_assoc, Rinv_l by lra. nra. }
    apply RD_inv; [lra | lra | exact HT | exact RDp]. }
  split.
  - (* within one ulp *)
    right. rewrite aval_and_then. destruct Hsig' as [-> ->].
    assert (Hti : (/ T <> 0)%R) by (apply Rinv_neq_0_compat; exact HT).
    apply (RD_final p m _ _ (/ T) (200 / 47 * w) Hp Hm Hti); [lra | | exact RDi].
    (* 2 * (200/47) w * B^p <= 1 : (200/47) B^p <= B^(rp-1) *)
    unfold w.
    assert (Hz : 5 * B ^ p <= B ^ (rp - 1)).
    { destruct Hcase as [P2|B5].
      - assert (2 <= bit_len p).
        { destruct (Z_lt_le_dec (bit_len p) 2); [|assumption]. exfalso. assert (Hb1 : bit_len p = 1) by lia. rewrite Hb1 in Up. simpl in Up. lia. }
        replace (rp - 1) with (p + (2 * bit_len p - 1)) by lia. rewrite Z.pow_add_r by lia.
        assert (8 <= B ^ (2 * bit_len p - 1)).
        { change 8 with (2 ^ 3). transitivity (2 ^ (2 * bit_len p - 1)); [apply Z.pow_le_mono_r; lia | apply Z.pow_le_mono_l; lia]. }
        assert (0 < B ^ p) by (apply Z.pow_pos_nonneg; lia). nia.
      - replace (rp - 1) with (p + (2 * bit_len p - 1)) by lia. rewrite Z.pow_add_r by lia.
        assert (B <= B ^ (2 * bit_len p - 1)).
        { rewrite <- (Z.pow_1_r B) at 1. apply Z.pow_le_mono_r; lia. }
        assert (0 < B ^ p) by (apply Z.pow_pos_nonneg; lia). nia. }
    apply IZR_le in Hz. rewrite mult_IZR in Hz. rewrite mult_IZR.
    assert (0 < IZR (B ^ (rp - 1)))%R by (apply IZR_lt; lia).
    assert (0 < IZR (B ^ p))%R by (apply IZR_lt, Z.pow_pos_nonneg; lia).
    apply (Rmult_le_reg_r (2 * IZR (B ^ (rp - 1)))); [lra|].
    replace (2 * (200 / 47 * / (2 * IZR (B ^ (rp - 1)))) * IZR (B ^ p) * (2 * IZR (B ^ (rp - 1))))%R
      with (400 / 47 * IZR (B ^ p))%R by (field; lra).
    lra.
  - (* Exact only if exact *)
    rewrite exact_and_then, aval_and_then. destruct Hsig' as [-> ->]. intros Hx. apply andb_prop in Hx. destruct Hx as [H1 H2].
    rewrite Hex' in H1. apply andb_prop in H1. destruct H1 as [Hp1 Hi1].
    rewrite (c_repr_round_exact_val B HB _ _ _ _ H2). fold (aval B inv). rewrite Ev, (Hex Hi1), (Exp Hp1). ring.
Qed.

End Neg.

(** EVERY integer exponent: Context::powi in the nearest modes, for p >= 4 or B >= 5 and an operand of
    at most 2 p digits, is within one ulp of x^n and flags Exact only an exact result *)
Theorem powi_asis_nearest_every_exponent B : 2 <= B -> forall p m s e n,
  1 <= p -> s <> 0 -> is_half_mode m = true -> 4 <= p \/ 5 <= B -> dlen B s <= 2 * p ->
  exists a, powi_asis B p m s e n = Ok a /\
    Accepted B p (powerRZ (fval B s e) n) (aval B a) (is_exact a).
Proof.
  intros HB p m s e n Hp Hs Hm Hc Hd.
  assert (Hwp : forall q k, 1 <= q -> 1 <= k -> q <= powi_work_precision q k).
  { intros q k Hq Hk. unfold powi_work_precision, powi_work_precision_gen, powi_guard_digits_gen. destruct (Z.eqb_spec q 0); [lia|].
    pose proof (bit_len_nonneg k). pose proof (bit_len_nonneg q). lia. }
  destruct (Z.lt_trichotomy n 0) as [N|[->|P]].
  - apply powi_asis_neg_nearest; try assumption; [lia|].
    pose proof (bit_len_nonneg p).
    specialize (Hwp (powi_neg_precision_gen no_f32 p (powi_neg_guard_bits_gen no_f32 p)) (- n)).
    unfold powi_neg_precision_gen, powi_neg_guard_bits_gen in *. lia.
  - exists (AExact 1 0). split; [reflexivity|]. split.
    + left. unfold aval. cbn [approx_sig approx_exp powerRZ]. apply fval_1_0.
    + intros _. unfold aval. cbn [approx_sig approx_exp powerRZ]. apply fval_1_0.
  - destruct (Z.eq_dec n 1) as [->|N1].
    + unfold powi_asis, powi_pos. cbn [Z.ltb Z.compare Z.eqb]. eexists. split; [reflexivity|].
      rewrite powerRZ_1. assert (HX : fval B s e <> 0%R) by (apply (fval_neq0 B HB); assumption). split.
      * right. apply (RD_final B HB p m s e (fval B s e) 0 Hp Hm HX); [lra | lra |].
        exists 1%R. split; [ring|]. replace (1 - 1)%R with 0%R by ring. rewrite Rabs_R0. lra.
      * apply c_repr_round_exact_val; assumption.
    + apply powi_asis_nearest; try assumption; try lia.
      specialize (Hwp p n). lia.
Qed.

(** non-vacuity: the documented example of exp.rs, (-1.234)^10 at 3 digits *)
Example powi_asis_nearest_example :
  exists a, powi_asis 10 3 MHalfEven (-1234) (-3) 10 = Ok a /\
    Accepted 10 3 (powerRZ (fval 10 (-1234) (-3)) 10) (aval 10 a) (is_exact a).
Proof.
  apply (powi_asis_nearest 10 ltac:(lia) 3 MHalfEven (-1234) (-3) 10); try lia; [reflexivity|].
  vm_compute. discriminate.
Qed.

Example powi_asis_neg_example :
  exists a, powi_asis 10 2 MHalfAway 2001 (-3) (-7) = Ok a /\
    Accepted 10 2 (powerRZ (fval 10 2001 (-3)) (-7)) (aval 10 a) (is_exact a).
Proof.
  apply (powi_asis_neg_nearest 10 ltac:(lia) 2 MHalfAway 2001 (-3) (-7)); try lia; [reflexivity|].
  vm_compute. discriminate.
Qed.
