(** C05, float part: the Context operations as the library runs them end to end - C03's as-is model of the operation
    (Float/Model.v mul sqr cubic, Float/AddModel.v add sub sqrt, Float/DivMulModel.v div inv) followed by Repr::new on the
    pair it returns.  DEFINITIONS (proofs: FloatOrdProducers2.v); the oracle replays [fprod_asis] on every `fprod` case and
    compares significand, exponent and flag with what Context::<R>::new(p).op(..) returned. *)
From Dashu Require Import Base.Prelude Float.RoundSpec Float.Contract Float.Model Float.AddModel Float.DivMulModel.
From DashuGen Require Import RoundTables.
Open Scope Z_scope.

Inductive fop := FoAdd | FoSub | FoMul | FoDiv | FoInv | FoSqrt | FoSqr | FoCubic.

(** Repr::new on the pair, the flag kept *)
Definition fin_new (B : Z) (a : approx) : Z * Z * option rounding :=
  let '(s, e) := Model.normalize B (approx_sig a) (approx_exp a) in
  (s, e, match a with AExact _ _ => None | AInexact _ _ r => Some r end).

Definition rfin (B : Z) (x : result approx) : result (Z * Z * option rounding) :=
  match x with Ok a => Ok (fin_new B a) | Panic c => Panic c | Err c => Err c | OutOfFuel => OutOfFuel end.

(** Context::div as the code runs it: the over-long dividend is shortened with repr_round_ref, whose Inexact arm builds
    its value with Repr::new - so the dividend handed to repr_div is NORMALISED (C03's DivMulModel.ctx_div keeps the
    unnormalised pair: the same value, but repr_div then sees more digits and can return precision + 1 digits where the
    code returns precision; observed by the `fprod` run, e.g. base 2, Down, precision 26,
    -0xdc5ee868f6525eb67c370eb5891c6dcb * 2^100 / -0x2c62546f5028d7 * 2^-5) *)
Definition ctx_div_n (B : Z) (du dl : Z -> Z) (p : Z) (m : mode) (s1 e1 s2 e2 : Z) : result approx :=
  let '(s1', e1') :=
    if negb (s1 =? 0) && (du s1 >? dl s2 + p)
    then match repr_round B (dlen B s2 + p) m s1 e1 with
         | AExact s e => (s, e)
         | AInexact s e _ => Model.normalize B s e
         end
    else (s1, e1) in
  repr_div B p m s1' e1' s2 e2.

(** [du], [dl]: Repr::digits_ub / digits_lb as the run reported them *)
Definition fprod_asis (B : Z) (du dl : Z -> Z) (o : fop) (p : Z) (m : mode) (s1 e1 s2 e2 : Z) : result (Z * Z * option rounding) :=
  match o with
  | FoAdd => Ok (fin_new B (ctx_add B du p m s1 e1 s2 e2))
  | FoSub => Ok (fin_new B (ctx_sub B du p m s1 e1 s2 e2))
  | FoMul => Ok (fin_new B (ctx_mul B p m s1 e1 s2 e2))
  | FoSqr => Ok (fin_new B (ctx_sqr B p m s1 e1))
  | FoCubic => Ok (fin_new B (ctx_cubic B p m s1 e1))
  | FoDiv => rfin B (ctx_div_n B du dl p m s1 e1 s2 e2)
  | FoInv => rfin B (ctx_inv B p m s1 e1)
  | FoSqrt => rfin B (ctx_sqrt B p m s1 e1)
  end.
