(** C05, float part: the Context operations as the library runs them end to end - C03's as-is model of the operation
    (Float/Model.v mul sqr cubic, Float/AddModel.v add sub sqrt, Float/DivMulModel.v div inv) followed by Repr::new on the
    pair it returns.  DEFINITIONS (proofs: FloatOrdProducers2.v); the oracle replays [fprod_asis] on every `fprod` case and
    compares significand, exponent and flag with what Context::<R>::new(p).op(..) returned. *)
From Dashu Require Import Base.Prelude Float.RoundSpec Float.Contract Float.Model Float.AddModel Float.DivMulModel Float.LongModel Float.FixModel.
From DashuGen Require Import RoundTables.
Open Scope Z_scope.

Inductive fop := FoAdd | FoSub | FoMul | FoDiv | FoInv | FoSqrt | FoSqr | FoCubic.

(** Repr::new on the pair, the flag kept *)
Definition fin_new (B : Z) (a : approx) : Z * Z * option rounding :=
  let '(s, e) := Model.normalize B (approx_sig a) (approx_exp a) in
  (s, e, match a with AExact _ _ => None | AInexact _ _ r => Some r end).

Definition rfin (B : Z) (x : result approx) : result (Z * Z * option rounding) :=
  match x with Ok a => Ok (fin_new B a) | Panic c => Panic c | Err c => Err c | OutOfFuel => OutOfFuel end.

(** Round 3 carried a private model ctx_div_n of Context::div (the over-long dividend shortened with repr_round_ref AND
    normalised before repr_div; C03's DivMulModel.ctx_div kept the unnormalised pair and deviated from the code).
    Round 4: the private copy is dropped.  deep-C03 first added the `_n` models with every Repr::new of the code
    (Float/LongModel.v; LongModel.ctx_div_n is the function of round 3); since then add.rs, mul.rs and div.rs were REPAIRED
    in /repo (b8f1245, 675af08, da565f6: over-long operands are no longer rounded twice; Context::div does not shrink the
    dividend any more, repr_div scales the divisor instead) and deep-C03 models the repaired code in Float/FixModel.v
    (`_fix_n`: with every Repr::new; C03's oracle compares them with the implementation digit for digit).  The replayed
    producer below runs exactly those models; Context::sqrt is LongModel.ctx_sqrt_n (root.rs unchanged).  [dl] is kept
    in the signature for the driver, the repaired Context::div reads no lower digit estimate. *)

(** [du], [dl]: Repr::digits_ub / digits_lb as the run reported them *)
Definition fprod_asis (B : Z) (du dl : Z -> Z) (o : fop) (p : Z) (m : mode) (s1 e1 s2 e2 : Z) : result (Z * Z * option rounding) :=
  match o with
  | FoAdd => rfin B (ctx_add_fix_n B du p m s1 e1 s2 e2)
  | FoSub => rfin B (ctx_sub_fix_n B du p m s1 e1 s2 e2)
  | FoMul => Ok (fin_new B (ctx_mul_fix_n B p m s1 e1 s2 e2))
  | FoSqr => Ok (fin_new B (ctx_sqr_fix_n B p m s1 e1))
  | FoCubic => Ok (fin_new B (ctx_cubic_fix_n B p m s1 e1))
  | FoDiv => rfin B (repr_div_fix_n B p m s1 e1 s2 e2)
  | FoInv => rfin B (ctx_inv_fix_n B p m s1 e1)
  | FoSqrt => rfin B (ctx_sqrt_n B p m s1 e1)
  end.
