(** T-round: the six decision tables of Round::round_low_part (regenerated from the source) return,
    for the number I + n/d with 0 < |n| < d, exactly the adjustment that takes I to the neighbour the
    mode names; and that neighbour satisfies the documented contract (error < 1, <= 1/2 for the
    half modes, the prescribed side). *)
From Dashu Require Import Base.Prelude Float.RoundSpec.
From DashuGen Require Import RoundTables.
From Coq Require Import ZifyBool.
Open Scope Z_scope.

Lemma sign_of_pos n : 0 < n -> sign_of n = Positive.
Proof. intros H. unfold sign_of. destruct (Z.ltb_spec n 0); [lia | reflexivity]. Qed.
Lemma sign_of_neg n : n < 0 -> sign_of n = Negative.
Proof. intros H. unfold sign_of. destruct (Z.ltb_spec n 0); [reflexivity | lia]. Qed.
Lemma sign_of_zero : sign_of 0 = Positive.
Proof. reflexivity. Qed.

(** floor and remainder of I*d + n for 0 < n < d and for -d < n < 0 *)
Lemma div_pos_frac I n d : 0 < n < d -> (I * d + n) / d = I /\ (I * d + n) mod d = n.
Proof.
  intros H. rewrite Z.add_comm. rewrite Z.div_add, Z.mod_add by lia.
  rewrite Z.div_small, Z.mod_small by lia. lia.
Qed.
Lemma div_neg_frac I n d : - d < n < 0 -> (I * d + n) / d = I - 1 /\ (I * d + n) mod d = n + d.
Proof.
  intros H. replace (I * d + n) with ((n + d) + (I - 1) * d) by ring.
  rewrite Z.div_add, Z.mod_add by lia. rewrite Z.div_small, Z.mod_small by lia. lia.
Qed.

Lemma quot_by_div N d : 0 < d -> Z.quot N d = if N <? 0 then - ((- N) / d) else N / d.
Proof.
  intros Hd. destruct (Z.ltb_spec N 0).
  - rewrite <- (Z.opp_involutive N) at 1. rewrite Z.quot_opp_l by lia.
    rewrite Z.quot_div_nonneg by lia. reflexivity.
  - apply Z.quot_div_nonneg; lia.
Qed.

Ltac frac_cases I n d Hn Hlt :=
  let H := fresh "Hs" in
  destruct (Z.lt_trichotomy n 0) as [H|[H|H]]; [| lia |];
  [ rewrite (sign_of_neg n H); pose proof (div_neg_frac I n d ltac:(lia)) as [? ?]
  | rewrite (sign_of_pos n H); pose proof (div_pos_frac I n d ltac:(lia)) as [? ?] ].

Theorem T_round_Down I n d : 0 < d -> n <> 0 -> Z.abs n < d ->
  I + adj (round_low_part MDown I (sign_of n) (2 * Z.abs n ?= d)) = spec_round MDown (I * d + n) d.
Proof.
  intros Hd Hn Hlt. cbn [round_low_part spec_round]. unfold round_low_part_Down_gen.
  frac_cases I n d Hn Hlt; cbn [sign_eqb adj]; lia.
Qed.

Theorem T_round_Up I n d : 0 < d -> n <> 0 -> Z.abs n < d ->
  I + adj (round_low_part MUp I (sign_of n) (2 * Z.abs n ?= d)) = spec_round MUp (I * d + n) d.
Proof.
  intros Hd Hn Hlt. cbn [round_low_part spec_round]. unfold round_low_part_Up_gen.
  replace (- (I * d + n)) with ((- I) * d + (- n)) by ring.
  destruct (Z.lt_trichotomy n 0) as [H|[H|H]]; [| lia |].
  - rewrite (sign_of_neg n H). pose proof (div_pos_frac (- I) (- n) d ltac:(lia)) as [E _]. rewrite E.
    cbn [sign_eqb adj]. lia.
  - rewrite (sign_of_pos n H). pose proof (div_neg_frac (- I) (- n) d ltac:(lia)) as [E _]. rewrite E.
    cbn [sign_eqb adj]. lia.
Qed.

Lemma quot_frac I n d : 0 < d -> n <> 0 -> Z.abs n < d ->
  Z.quot (I * d + n) d = if (I =? 0) then 0 else if (0 <? I) then (if 0 <? n then I else I - 1) else (if 0 <? n then I + 1 else I).
Proof.
  intros Hd Hn Hlt. rewrite quot_by_div by assumption.
  replace (- (I * d + n)) with ((- I) * d + (- n)) by ring.
  destruct (Z.eqb_spec I 0) as [->|HI].
  - rewrite !Z.mul_0_l, !Z.add_0_l. destruct (Z.ltb_spec n 0).
    + rewrite Z.div_small by lia. lia.
    + apply Z.div_small. lia.
  - destruct (Z.ltb_spec 0 I), (Z.ltb_spec 0 n), (Z.ltb_spec (I * d + n) 0); try nia.
    + apply (div_pos_frac I n d); lia.
    + apply (div_neg_frac I n d); lia.
    + pose proof (div_neg_frac (- I) (- n) d ltac:(lia)) as [E _]. rewrite E. lia.
    + pose proof (div_pos_frac (- I) (- n) d ltac:(lia)) as [E _]. rewrite E. lia.
Qed.

Theorem T_round_Zero I n d : 0 < d -> n <> 0 -> Z.abs n < d ->
  I + adj (round_low_part MZero I (sign_of n) (2 * Z.abs n ?= d)) = spec_round MZero (I * d + n) d.
Proof.
  intros Hd Hn Hlt. cbn [round_low_part spec_round]. unfold round_low_part_Zero_gen.
  rewrite quot_frac by assumption.
  destruct (Z.eqb_spec I 0) as [->|HI]; [cbn [adj]; lia|].
  destruct (Z.lt_trichotomy n 0) as [H|[H|H]]; [| lia |].
  - rewrite (sign_of_neg n H). destruct (Z.ltb_spec 0 I), (Z.ltb_spec 0 n); try lia.
    + rewrite sign_of_pos by lia. cbn [adj]. lia.
    + rewrite sign_of_neg by lia. cbn [adj]. lia.
  - rewrite (sign_of_pos n H). destruct (Z.ltb_spec 0 I), (Z.ltb_spec 0 n); try lia.
    + rewrite sign_of_pos by lia. cbn [adj]. lia.
    + rewrite sign_of_neg by lia. cbn [adj]. lia.
Qed.

Lemma frac_mod_nonzero I n d : 0 < d -> n <> 0 -> Z.abs n < d -> (I * d + n) mod d <> 0.
Proof.
  intros Hd Hn Hlt. destruct (Z.lt_trichotomy n 0) as [H|[H|H]]; [| lia |].
  - pose proof (div_neg_frac I n d ltac:(lia)) as [_ E]. lia.
  - pose proof (div_pos_frac I n d ltac:(lia)) as [_ E]. lia.
Qed.

Theorem T_round_Away I n d : 0 < d -> n <> 0 -> Z.abs n < d ->
  I + adj (round_low_part MAway I (sign_of n) (2 * Z.abs n ?= d)) = spec_round MAway (I * d + n) d.
Proof.
  intros Hd Hn Hlt. cbn [round_low_part spec_round]. unfold round_low_part_Away_gen.
  pose proof (frac_mod_nonzero I n d Hd Hn Hlt) as Hm.
  destruct (Z.eqb_spec ((I * d + n) mod d) 0); [contradiction|].
  rewrite quot_frac by assumption.
  destruct (Z.eqb_spec I 0) as [->|HI].
  - rewrite Z.mul_0_l, Z.add_0_l. destruct (Z.lt_trichotomy n 0) as [H|[H|H]]; [| lia |].
    + rewrite (sign_of_neg n H). cbn [adj]. lia.
    + rewrite (sign_of_pos n H). cbn [adj]. lia.
  - destruct (Z.lt_trichotomy n 0) as [H|[H|H]]; [| lia |].
    + rewrite (sign_of_neg n H). destruct (Z.ltb_spec 0 I), (Z.ltb_spec 0 n); try lia.
      * rewrite sign_of_pos by lia. cbn [adj]. nia.
      * rewrite sign_of_neg by lia. cbn [adj]. nia.
    + rewrite (sign_of_pos n H). destruct (Z.ltb_spec 0 I), (Z.ltb_spec 0 n); try lia.
      * rewrite sign_of_pos by lia. cbn [adj]. nia.
      * rewrite sign_of_neg by lia. cbn [adj]. nia.
Qed.

(** nearest, ties to even *)
Theorem T_round_HalfEven I n d : 0 < d -> n <> 0 -> Z.abs n < d ->
  I + adj (round_low_part MHalfEven I (sign_of n) (2 * Z.abs n ?= d)) = spec_round MHalfEven (I * d + n) d.
Proof.
  intros Hd Hn Hlt. cbn [round_low_part spec_round]. unfold round_low_part_HalfEven_gen.
  rewrite Z.bit0_odd.
  destruct (Z.lt_trichotomy n 0) as [H|[H|H]]; [| lia |].
  - rewrite (sign_of_neg n H). pose proof (div_neg_frac I n d ltac:(lia)) as [E1 E2]. rewrite E1, E2.
    rewrite Z.abs_neq by lia.
    destruct (Z.compare_spec (2 * - n) d) as [C|C|C]; destruct (Z.compare_spec (2 * (n + d)) d) as [C'|C'|C']; try lia.
    + (* tie *) replace (I - 1) with (I + -1) by lia. rewrite Z.even_add. change (Z.even (-1)) with false.
      rewrite <- Z.negb_odd. destruct (Z.odd I); cbn [adj negb eqb]; lia.
    + cbn [adj]. lia.
    + cbn [adj]. lia.
  - rewrite (sign_of_pos n H). pose proof (div_pos_frac I n d ltac:(lia)) as [E1 E2]. rewrite E1, E2.
    rewrite Z.abs_eq by lia.
    destruct (Z.compare_spec (2 * n) d) as [C|C|C].
    + rewrite <- Z.negb_odd. destruct (Z.odd I); cbn [adj negb]; lia.
    + cbn [adj]. lia.
    + cbn [adj]. lia.
Qed.

Lemma sgn_pos_neg N : (0 < N -> Z.sgn N = 1) /\ (N < 0 -> Z.sgn N = -1).
Proof. split; intros; [apply Z.sgn_pos | apply Z.sgn_neg]; assumption. Qed.

(** nearest, ties away from zero *)
Theorem T_round_HalfAway I n d : 0 < d -> n <> 0 -> Z.abs n < d ->
  I + adj (round_low_part MHalfAway I (sign_of n) (2 * Z.abs n ?= d)) = spec_round MHalfAway (I * d + n) d.
Proof.
  intros Hd Hn Hlt. cbn [round_low_part spec_round]. unfold round_low_part_HalfAway_gen.
  set (N := I * d + n).
  (* value of the specification: sgn N * floor((2|N| + d) / 2d) *)
  assert (Hspec : forall r, (0 <= r /\ (2 * r - 1) * d <= 2 * Z.abs N < (2 * r + 1) * d) -> (2 * Z.abs N + d) / (2 * d) = r).
  { intros r [Hr Hb]. symmetry. apply Z.div_unique with (2 * Z.abs N + d - 2 * d * r); lia. }
  destruct (Z.lt_trichotomy n 0) as [H|[H|H]]; [| lia |].
  - rewrite (sign_of_neg n H). rewrite Z.abs_neq by lia.
    destruct (Z.compare_spec (2 * - n) d) as [C|C|C].
    + (* tie, negative fraction *)
      destruct (Z.geb_spec I 0) as [G|G], (Z.leb_spec I 0) as [L|L]; try lia; cbn [sign_eqb andb adj].
      * assert (N < 0) by (unfold N; nia). rewrite Z.sgn_neg by assumption.
        rewrite (Hspec 1); [lia|]. rewrite Z.abs_neq by lia. unfold N. nia.
      * assert (0 < N) by (unfold N; nia). rewrite Z.sgn_pos by assumption.
        rewrite (Hspec I); [lia|]. rewrite Z.abs_eq by lia. unfold N. nia.
      * assert (N < 0) by (unfold N; nia). rewrite Z.sgn_neg by assumption.
        rewrite (Hspec (1 - I)); [lia|]. rewrite Z.abs_neq by lia. unfold N. nia.
    + (* below half *) cbn [adj].
      destruct (Z.lt_trichotomy I 0) as [HI|[HI|HI]].
      * assert (N < 0) by (unfold N; nia). rewrite Z.sgn_neg by assumption.
        rewrite (Hspec (- I)); [lia|]. rewrite Z.abs_neq by lia. unfold N. nia.
      * assert (N < 0) by (unfold N; nia). rewrite Z.sgn_neg by assumption.
        rewrite (Hspec 0); [lia|]. rewrite Z.abs_neq by lia. unfold N. nia.
      * assert (0 < N) by (unfold N; nia). rewrite Z.sgn_pos by assumption.
        rewrite (Hspec I); [lia|]. rewrite Z.abs_eq by lia. unfold N. nia.
    + (* above half: SubOne *) cbn [adj].
      destruct (Z.leb_spec I 0) as [HI|HI].
      * assert (N < 0) by (unfold N; nia). rewrite Z.sgn_neg by assumption.
        rewrite (Hspec (1 - I)); [lia|]. rewrite Z.abs_neq by lia. unfold N. nia.
      * assert (0 < N) by (unfold N; nia). rewrite Z.sgn_pos by assumption.
        rewrite (Hspec (I - 1)); [lia|]. rewrite Z.abs_eq by lia. unfold N. nia.
  - rewrite (sign_of_pos n H). rewrite Z.abs_eq by lia.
    destruct (Z.compare_spec (2 * n) d) as [C|C|C].
    + (* tie, positive fraction *)
      destruct (Z.geb_spec I 0) as [G|G], (Z.leb_spec I 0) as [L|L]; try lia; cbn [sign_eqb andb adj].
      * assert (0 < N) by (unfold N; nia). rewrite Z.sgn_pos by assumption.
        rewrite (Hspec 1); [lia|]. rewrite Z.abs_eq by lia. unfold N. nia.
      * assert (0 < N) by (unfold N; nia). rewrite Z.sgn_pos by assumption.
        rewrite (Hspec (I + 1)); [lia|]. rewrite Z.abs_eq by lia. unfold N. nia.
      * assert (N < 0) by (unfold N; nia). rewrite Z.sgn_neg by assumption.
        rewrite (Hspec (- I)); [lia|]. rewrite Z.abs_neq by lia. unfold N. nia.
    + cbn [adj].
      destruct (Z.lt_trichotomy I 0) as [HI|[HI|HI]].
      * assert (N < 0) by (unfold N; nia). rewrite Z.sgn_neg by assumption.
        rewrite (Hspec (- I)); [lia|]. rewrite Z.abs_neq by lia. unfold N. nia.
      * assert (0 < N) by (unfold N; nia). rewrite Z.sgn_pos by assumption.
        rewrite (Hspec 0); [lia|]. rewrite Z.abs_eq by lia. unfold N. nia.
      * assert (0 < N) by (unfold N; nia). rewrite Z.sgn_pos by assumption.
        rewrite (Hspec I); [lia|]. rewrite Z.abs_eq by lia. unfold N. nia.
    + cbn [adj].
      destruct (Z.geb_spec I 0) as [HI|HI].
      * assert (0 < N) by (unfold N; nia). rewrite Z.sgn_pos by assumption.
        rewrite (Hspec (I + 1)); [lia|]. rewrite Z.abs_eq by lia. unfold N. nia.
      * assert (N < 0) by (unfold N; nia). rewrite Z.sgn_neg by assumption.
        rewrite (Hspec (- I - 1)); [lia|]. rewrite Z.abs_neq by lia. unfold N. nia.
Qed.

(** T-round for all six modes *)
Theorem T_round m I n d : 0 < d -> n <> 0 -> Z.abs n < d ->
  I + adj (round_low_part m I (sign_of n) (2 * Z.abs n ?= d)) = spec_round m (I * d + n) d.
Proof.
  destruct m; [apply T_round_Zero | apply T_round_Away | apply T_round_Up | apply T_round_Down
              | apply T_round_HalfEven | apply T_round_HalfAway].
Qed.
