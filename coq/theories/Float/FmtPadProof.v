(** C08 (round 3): the WHOLE printed text - sign, body and padding - of Display (Repr::fmt_round) and of
    LowerExp / UpperExp (Repr::fmt_round_scientific) as modelled equals the specified text
      display_spec = pad_spec flags negative display_body_spec,   sci_spec = pad_spec flags negative sci_body_spec
    for every width, fill, alignment, sign and zero flag (pad_spec: the convention of core::fmt for numbers).
    The point of the proof is the WIDTH the code computes from the parts it is going to print (digits, leading and
    trailing zeros, sign, radix point, marker, exponent text): it equals the length of sign ++ body.  Before the
    repair F08 it did not (exponent 0 without precision; zero flag in the scientific forms). *)
From Coq Require Import ZArith List Lia Bool.
From Dashu Require Import Base.Prelude Float.RoundSpec Float.Contract Float.Model Int.IoSpec Float.TextIoSpec Float.TextIoModel
  Float.TextIoProof Float.SciProof.
From DashuGen Require Import RoundTables.
Import ListNotations.
Open Scope Z_scope.

Lemma rep_0 c : rep 0 c = [].
Proof. reflexivity. Qed.

Lemma len_app' {A} (a b : list A) : len (a ++ b) = len a + len b.
Proof. unfold len. rewrite app_length. lia. Qed.
Lemma len_cons' {A} (x : A) l : len (x :: l) = 1 + len l.
Proof. unfold len. cbn [length]. lia. Qed.
Lemma len_nil' {A} : len (@nil A) = 0.
Proof. reflexivity. Qed.
Lemma len_zeros k : len (zeros k) = Z.max 0 k.
Proof. unfold zeros, len. rewrite repeat_length. lia. Qed.
Lemma len_firstn' {A} (l : list A) k : len (firstn (Z.to_nat k) l) = Z.min (Z.max 0 k) (len l).
Proof. unfold len. rewrite firstn_length. lia. Qed.
Lemma len_skipn' {A} (l : list A) k : len (skipn (Z.to_nat k) l) = len l - Z.min (Z.max 0 k) (len l).
Proof. unfold len. rewrite skipn_length. lia. Qed.
Lemma len_ge0 {A} (l : list A) : 0 <= len l.
Proof. unfold len. lia. Qed.

Ltac lens := rewrite ?len_app', ?len_cons', ?len_nil', ?len_zeros, ?len_firstn', ?len_skipn'.

(** the generic step: whatever the paddings, the layout code around a body whose width was computed correctly
    prints pad_spec *)
Lemma pad_layout (f : fmtflags) (neg : bool) (body : list Z) (W0 : Z) :
  W0 = len body ->
  let has_sign := if neg || f_plus f then 1 else 0 in
  let width := W0 + has_sign in
  let pads := match f_width f with
              | None => (0, 0)
              | Some minw =>
                if minw <=? width then (0, 0)
                else if f_zero f then (minw - width, 0)
                else match f_align f with
                     | Some ALeft => (0, minw - width)
                     | Some ARight | None => (minw - width, 0)
                     | Some ACenter => let d := minw - width in (d / 2, d - d / 2)
                     end
              end in
  (if f_zero f then [] else rep (fst pads) (f_fill f)) ++
  (if neg then [45] else if f_plus f then [43] else []) ++
  (if f_zero f then zeros (fst pads) else []) ++ body ++ rep (snd pads) (f_fill f)
  = pad_spec f neg body.
Proof.
  intros HW has_sign width pads. unfold pad_spec.
  set (sg := if neg then [45] else if f_plus f then [43] else []).
  assert (Hs : len sg = has_sign).
  { unfold sg, has_sign. destruct neg; cbn [orb]; [reflexivity|]. destruct (f_plus f); reflexivity. }
  assert (Ew : len sg + len body = width) by (unfold width; lia).
  rewrite Ew. unfold pads. clear pads.
  destruct (f_width f) as [minw|].
  2:{ cbn [fst snd]. rewrite rep_0, zeros_0, app_nil_r. destruct (f_zero f); reflexivity. }
  destruct (Z.leb_spec minw width).
  { cbn [fst snd]. rewrite rep_0, zeros_0, app_nil_r. destruct (f_zero f); reflexivity. }
  destruct (f_zero f).
  { cbn [fst snd]. rewrite rep_0, app_nil_r. reflexivity. }
  destruct (f_align f) as [[| |]|]; cbn [fst snd]; reflexivity.
Qed.

Section Pad.
Variable B : Z.
Hypothesis B_ge_2 : 2 <= B.

(** the rounded pair the layout works on: with a precision p the exponent is at least -p; without one the
    significand text is not empty *)
Lemma fmt_rounded_inv m s e prec signif exp : (forall p, prec = Some p -> 0 <= p) ->
  fmt_rounded B m s e prec = (signif, exp) ->
  match prec with Some p => - exp <= p | None => 1 <= len (signif_str B (s <? 0) signif) end.
Proof.
  intros Hp H. unfold fmt_rounded in H. destruct prec as [p|].
  - specialize (Hp p eq_refl). destruct (Z.ltb_spec (p + e) 0).
    + destruct (split_digits B s (- (p + e))) as [hi lo]. injection H as _ <-. lia.
    + injection H as _ <-. lia.
  - injection H as <- <-. unfold signif_str.
    assert (P : 1 <= len (dtext false B (Z.abs s))) by (pose proof (dtext_len_pos B B_ge_2 (Z.abs s)); lia).
    destruct (Z.ltb_spec s 0); cbn [andb]; [|exact P]. destruct (Z.eqb_spec s 0); [lia | exact P].
Qed.

(** the width fmt_round computes for the body = the length of the body it prints *)
Lemma fmt_round_body_width m s e prec : (forall p, prec = Some p -> 0 <= p) ->
  let '(signif, exp) := fmt_rounded B m s e prec in
  let n := len (signif_str B (s <? 0) signif) in
  let leading := - Z.min (exp + n - 1) 0 in
  let trailing := Z.max exp 0 +
    match prec with Some p => let d := p + Z.min exp 0 in if 0 <? d then d else 0 | None => 0 end in
  let digits := if leading =? 0 then Z.max n 1 else n in
  let has_point :=
    if 0 <=? exp then (match prec with Some p => if 0 <? p then 1 else 0 | None => 0 end)
    else (match prec with Some 0 => 0 | _ => 1 end) in
  digits + has_point + leading + trailing = len (fmt_round_body_asis B m s e prec).
Proof.
  intros Hp. unfold fmt_round_body_asis.
  destruct (fmt_rounded B m s e prec) as [signif exp] eqn:HR.
  pose proof (fmt_rounded_inv m s e prec signif exp Hp HR) as Inv.
  set (str := signif_str B (s <? 0) signif) in *. cbv zeta.
  pose proof (len_ge0 str) as N0. set (n := len str) in *.
  destruct (Z.ltb_spec exp 0) as [En|En].
  - (* a fractional part *)
    destruct (Z.leb_spec 0 exp); [lia|].
    set (cut := Z.max 0 (n - - exp)).
    assert (Lint : len (firstn (Z.to_nat cut) str) = cut) by (lens; fold n; unfold cut; lia).
    assert (Lfr : len (skipn (Z.to_nat cut) str) = n - cut) by (lens; fold n; unfold cut; lia).
    rewrite ?Lint.
    assert (Lhead : len (if cut =? 0 then [48] else firstn (Z.to_nat cut) str) = Z.max cut 1).
    { destruct (Z.eqb_spec cut 0); [rewrite e0; reflexivity | rewrite Lint; unfold cut in *; lia]. }
    rewrite len_app', Lhead.
    destruct prec as [p|].
    + specialize (Hp p eq_refl).
      destruct (Z.eqb_spec p 0) as [->|Pn]; [lia|].
      destruct p as [|pp|pp]; try lia. set (p := Z.pos pp) in *.
      rewrite len_cons'.
      destruct (Z.leb_spec p (- exp)).
      * lens. rewrite ?Lfr. destruct (Z.ltb_spec 0 (p + Z.min exp 0)); destruct (Z.eqb_spec (- Z.min (exp + n - 1) 0) 0); unfold cut; lia.
      * lens. rewrite ?Lfr. destruct (Z.ltb_spec 0 (p + Z.min exp 0)); destruct (Z.eqb_spec (- Z.min (exp + n - 1) 0) 0); unfold cut; lia.
    + rewrite Lfr. destruct (Z.ltb_spec 0 (n - cut)).
      * rewrite len_cons'. lens. rewrite ?Lfr.
        destruct (Z.eqb_spec (- Z.min (exp + n - 1) 0) 0); unfold cut in *; lia.
      * unfold cut in *. lia.
  - (* an integer *)
    destruct (Z.leb_spec 0 exp); [|lia].
    assert (Lhead : len (if n =? 0 then [48] else str) = Z.max n 1).
    { destruct (Z.eqb_spec n 0) as [E0|E0]; [rewrite E0; reflexivity | fold n; lia]. }
    rewrite !len_app', Lhead, len_zeros.
    destruct prec as [p|].
    + specialize (Hp p eq_refl). destruct (Z.ltb_spec 0 p).
      * rewrite len_cons', len_zeros.
        destruct (Z.ltb_spec 0 (p + Z.min exp 0)); destruct (Z.eqb_spec (- Z.min (exp + n - 1) 0) 0); lia.
      * change (len (@nil Z)) with 0.
        destruct (Z.ltb_spec 0 (p + Z.min exp 0)); destruct (Z.eqb_spec (- Z.min (exp + n - 1) 0) 0); lia.
    + change (len (@nil Z)) with 0. destruct (Z.eqb_spec (- Z.min (exp + n - 1) 0) 0); lia.
Qed.

(** Display, the whole text *)
Theorem fmt_round_asis_full m f s e prec : (forall p, prec = Some p -> 0 <= p) ->
  fmt_round_asis B m f s e prec = pad_spec f (s <? 0) (fmt_round_body_asis B m s e prec).
Proof.
  intros Hp. unfold fmt_round_asis.
  rewrite <- (pad_layout f (s <? 0) (fmt_round_body_asis B m s e prec) _ eq_refl). cbv zeta.
  set (body := fmt_round_body_asis B m s e prec).
  set (hs := if (s <? 0) || f_plus f then 1 else 0).
  match goal with |- _ = ?R => match R with context [rep (fst ?P) _] => set (pads := P) end end.
  assert (E : fmt_round_pads B m f s e prec = pads).
  { unfold fmt_round_pads, pads. pose proof (fmt_round_body_width m s e prec Hp) as HW.
    destruct (fmt_rounded B m s e prec) as [signif exp]. cbv zeta in HW. fold body in HW.
    destruct (f_width f) as [minw|]; [|reflexivity]. cbv zeta. fold hs.
    match goal with |- context [minw <=? ?w] => replace w with (len body + hs) by lia end.
    reflexivity. }
  rewrite E. destruct pads as [l r]. reflexivity.
Qed.

(* ------------------------------------------------------------------------------------------ *)
(** LowerExp / UpperExp *)

Lemma sci_rounded_nonzero m s e prec : s <> 0 -> (forall p, prec = Some p -> 0 <= p) ->
  fst (sci_rounded B m s e prec) <> 0.
Proof.
  intros Hs Hp. destruct prec as [p|]; [|cbn; exact Hs].
  specialize (Hp p eq_refl). destruct (sci_rounded_spec B B_ge_2 m s e p Hp Hs) as [E G]. rewrite E.
  destruct (sci_round B m s e p) as [a x] eqn:SR.
  destruct (Z.leb_spec (dlen B s) (p + 1)); [cbn; exact Hs|].
  specialize (G ltac:(lia)). cbn [fst].
  assert (0 < B ^ p) by (apply Z.pow_pos_nonneg; lia).
  destruct (s <? 0); lia.
Qed.

Lemma sci_body_width m upper s e prec : s <> 0 \/ (s = 0) -> (forall p, prec = Some p -> 0 <= p) ->
  let '(signif, exp) := sci_rounded B m s e prec in
  let str := if (s <? 0) && (signif =? 0) then [] else dtext upper B (Z.abs signif) in
  let n := len str in
  let p := match prec with Some p => p | None => 0 end in
  let has_point := if (1 <? n) || (0 <? p) then 1 else 0 in
  let trailing := if n - 1 <? p then p - (n - 1) else 0 in
  n + len (itoa (exp + n - 1)) + 1 + has_point + trailing = len (sci_body_asis B m upper s e prec).
Proof.
  intros _ Hp. unfold sci_body_asis, sci_layout.
  pose proof (sci_rounded_nonzero m s e prec) as NZ.
  destruct (sci_rounded B m s e prec) as [signif exp]. cbn [fst] in NZ. cbv zeta.
  set (str := if (s <? 0) && (signif =? 0) then [] else dtext upper B (Z.abs signif)).
  assert (N1 : 1 <= len str).
  { unfold str. assert (P : 1 <= len (dtext upper B (Z.abs signif))).
    { unfold dtext, digit_text. rewrite len_map. pose proof (digits_spec_nonempty B B_ge_2 (Z.abs signif)) as NE.
      destruct (digits_spec B (Z.abs signif)); [contradiction | rewrite len_cons'; pose proof (len_ge0 l); lia]. }
    destruct (Z.ltb_spec s 0); cbn [andb]; [|exact P].
    destruct (Z.eqb_spec signif 0) as [E0|E0]; [exfalso; apply (NZ ltac:(lia) Hp); exact E0 | exact P]. }
  set (n := len str) in *.
  assert (Li : len (firstn 1 str) = 1) by (change 1%nat with (Z.to_nat 1); lens; fold n; lia).
  assert (Lf : len (skipn 1 str) = n - 1) by (change 1%nat with (Z.to_nat 1); lens; fold n; lia).
  set (p := match prec with Some p => p | None => 0 end).
  assert (P0 : 0 <= p) by (unfold p; destruct prec as [q|]; [exact (Hp q eq_refl) | lia]).
  rewrite !len_app', ?Li, ?Lf, ?len_cons'. change (len (@nil Z)) with 0.
  set (E := len (itoa (exp + n - 1))).
  destruct (Z.eqb_spec (n - 1) 0) as [E1|E1].
  - change (len (@nil Z)) with 0.
    destruct (Z.ltb_spec 0 p).
    + lens. change (len (@nil Z)) with 0.
      destruct (Z.ltb_spec 1 n); destruct (Z.ltb_spec (n - 1) p); cbn [orb]; lia.
    + change (len (@nil Z)) with 0.
      destruct (Z.ltb_spec 1 n); destruct (Z.ltb_spec (n - 1) p); cbn [orb]; lia.
  - rewrite len_cons', Lf.
    destruct (Z.ltb_spec 0 p).
    + lens. change (len (@nil Z)) with 0.
      destruct (Z.ltb_spec 1 n); destruct (Z.ltb_spec (n - 1) p); cbn [orb]; lia.
    + change (len (@nil Z)) with 0.
      destruct (Z.ltb_spec 1 n); destruct (Z.ltb_spec (n - 1) p); cbn [orb]; lia.
Qed.

Theorem sci_asis_full m upper f s e prec : (forall p, prec = Some p -> 0 <= p) ->
  sci_asis B m upper f s e prec = pad_spec f (s <? 0) (sci_body_asis B m upper s e prec).
Proof.
  intros Hp. unfold sci_asis.
  rewrite <- (pad_layout f (s <? 0) (sci_body_asis B m upper s e prec) _ eq_refl). cbv zeta.
  set (body := sci_body_asis B m upper s e prec).
  set (hs := if (s <? 0) || f_plus f then 1 else 0).
  match goal with |- _ = ?R => match R with context [rep (fst ?P) _] => set (pads := P) end end.
  assert (E : sci_pads B m upper f s e prec = pads).
  { unfold sci_pads, pads. pose proof (sci_body_width m upper s e prec ltac:(destruct (Z.eq_dec s 0); [right|left]; assumption) Hp) as HW.
    destruct (sci_rounded B m s e prec) as [signif exp]. cbv zeta in HW. fold body in HW.
    destruct (f_width f) as [minw|]; [|reflexivity]. cbv zeta. fold hs.
    match goal with |- context [minw <=? ?w] => replace w with (len body + hs) by lia end.
    reflexivity. }
  rewrite E. destruct pads as [l r]. reflexivity.
Qed.

(** ... against the specified texts (the body theorems of round 1) *)
Theorem display_full_text_asis_spec m f s e prec : (s = 0 -> e = 0) -> (forall p, prec = Some p -> 0 <= p) ->
  fmt_round_asis B m f s e prec = display_spec B m f s e prec.
Proof.
  intros Hz Hp. unfold display_spec.
  rewrite <- (fmt_round_body_asis_spec B B_ge_2 m s e prec Hz Hp). exact (fmt_round_asis_full m f s e prec Hp).
Qed.

Theorem sci_full_text_asis_spec m upper f s e prec : (s = 0 -> e = 0) -> (forall p, prec = Some p -> 0 <= p) ->
  sci_asis B m upper f s e prec = sci_spec B m upper f s e prec.
Proof.
  intros Hz Hp. unfold sci_spec.
  rewrite <- (sci_body_asis_spec B B_ge_2 m upper s e prec Hz Hp). exact (sci_asis_full m upper f s e prec Hp).
Qed.

End Pad.
