(** C11: the value-level as-is models of ElemAsis.v REFINE the entry logic of ElemEntry.v (whose
    theorems - unlimited precision panics, Exact shortcuts return the true value, domain panics -
    are pinned since the first round), and outside the shortcuts they never flag a result Exact
    (exp, exp_m1, ln, ln_1p: never_exact; powf: only 1^y = 1).  For every f32 estimate layer, every
    fuel, base, mode, precision and operand. *)
From Coq Require Import ZArith Lia Bool.
From Dashu Require Import Base.Prelude Float.RoundSpec Float.Contract Float.Model Float.ModelProof Float.AddModel
  Float.DivMulModel Float.ElemF32 Float.ElemEntry Float.ElemAsis.
From DashuGen Require Import RoundTables ElemParams.
Open Scope Z_scope.

Definition is_exact_a (a : approx) : bool := match a with AExact _ _ => true | _ => false end.

Lemma rbind_ok {A C} (x : result A) (f : A -> result C) c :
  rbind x f = Ok c -> exists a, x = Ok a /\ f a = Ok c.
Proof. destruct x; cbn [rbind]; try discriminate. intros H. eauto. Qed.

Lemma never_exact_false a : is_exact_a (never_exact a) = false.
Proof. destruct a; reflexivity. Qed.

Lemma and_then_r_inexact s e r f b :
  approx_and_then_r (AInexact s e r) f = Ok b -> is_exact_a b = false.
Proof.
  cbn [approx_and_then_r]. intros H. apply rbind_ok in H. destruct H as (a & _ & H).
  inversion H. destruct a; reflexivity.
Qed.
Lemma and_then_inexact s e r f : is_exact_a (approx_and_then (AInexact s e r) f) = false.
Proof. cbn [approx_and_then]. destruct (f s e); reflexivity. Qed.

Section Entry.
Variable B : Z.
Hypothesis HB : 2 <= B.
Context {F : Type} (O : f32ops F).
Variable W : Z.

(* ------------------------------------------------------------------ exp, exp_m1 *)
Theorem exp_internal_refines_entry fuel p m s e mo :
  match exp_entry p s mo with
  | EPanic _ => exp_internal B O W fuel p m s e mo = Panic UnlimitedPrecision
  | EExact s' e' => exp_internal B O W fuel p m s e mo = Ok (AExact s' e')
  | ECompute => forall a, exp_internal B O W fuel p m s e mo = Ok a -> is_exact_a a = false
  | ERound _ => False
  end.
Proof.
  unfold exp_entry, exp_internal. destruct (p =? 0); [reflexivity|].
  destruct (s =? 0); [destruct mo; reflexivity|].
  intros a H. apply rbind_ok in H. destruct H as (((s2 & n) & r) & _ & H).
  apply rbind_ok in H. destruct H as (sum & _ & H).
  destruct (mo && _).
  - inversion H. apply never_exact_false.
  - destruct mo.
    + apply rbind_ok in H. destruct H as (pw & _ & H). inversion H. apply never_exact_false.
    + apply rbind_ok in H. destruct H as (pw & _ & H). inversion H. apply never_exact_false.
Qed.

(* ------------------------------------------------------------------ ln, ln_1p *)
Lemma ln_domain_test s e :
  negb (fval_lt B (-1) 0 s e) = (if 0 <=? e then s * B ^ e + 1 <=? 0 else s + B ^ (- e) <=? 0).
Proof.
  unfold fval_lt, fval_cmp. destruct (Z.leb_spec 0 e) as [He|He].
  - rewrite Z.sub_0_r. destruct (Z.compare_spec (-1) (s * B ^ e)); destruct (Z.leb_spec (s * B ^ e + 1) 0); cbn [negb]; lia.
  - rewrite Z.sub_0_l. destruct (Z.compare_spec (-1 * B ^ (- e)) s); destruct (Z.leb_spec (s + B ^ (- e)) 0); cbn [negb]; lia.
Qed.

Theorem ln_internal_refines_entry fuel p m s e op :
  match ln_entry B p s e op with
  | EPanic EPUnlimited => ln_internal B O W fuel p m s e op = Panic UnlimitedPrecision
  | EPanic _ => ln_internal B O W fuel p m s e op = Panic LogOperand
  | EExact s' e' => ln_internal B O W fuel p m s e op = Ok (AExact s' e')
  | ECompute => forall a, ln_internal B O W fuel p m s e op = Ok a -> is_exact_a a = false
  | ERound _ => False
  end.
Proof.
  unfold ln_entry, ln_internal, is_one. destruct (p =? 0); [reflexivity|].
  rewrite <- andb_assoc.
  destruct ((op && (s =? 0)) || (negb op && ((s =? 1) && (e =? 0)))); [reflexivity|].
  rewrite ln_domain_test.
  destruct op.
  - destruct (if 0 <=? e then s * B ^ e + 1 <=? 0 else s + B ^ (- e) <=? 0); [reflexivity|].
    intros a H. apply rbind_ok in H. destruct H as ((s2 & xs) & _ & H).
    apply rbind_ok in H. destruct H as (z & _ & H).
    apply rbind_ok in H. destruct H as (sum & _ & H).
    apply rbind_ok in H. destruct H as (res & _ & H). inversion H. apply never_exact_false.
  - destruct (s <=? 0); [reflexivity|].
    intros a H. apply rbind_ok in H. destruct H as ((s2 & xs) & _ & H).
    apply rbind_ok in H. destruct H as (z & _ & H).
    apply rbind_ok in H. destruct H as (sum & _ & H).
    apply rbind_ok in H. destruct H as (res & _ & H). inversion H. apply never_exact_false.
Qed.

(** ln returns an Exact value only for the argument one (value zero) *)
Corollary ln_internal_exact_only_one fuel p m s e s' e' :
  ln_internal B O W fuel p m s e false = Ok (AExact s' e') -> s = 1 /\ e = 0 /\ s' = 0 /\ e' = 0.
Proof.
  intros H. pose proof (ln_internal_refines_entry fuel p m s e false) as R.
  unfold ln_entry, is_one in R. destruct (p =? 0); [rewrite H in R; discriminate|].
  cbn [andb orb negb] in R.
  destruct (Z.eqb_spec s 1) as [->|]; destruct (Z.eqb_spec e 0) as [->|]; cbn [andb] in R.
  - rewrite H in R. inversion R. auto.
  - destruct (1 <=? 0); [rewrite H in R; discriminate | specialize (R _ H); discriminate].
  - destruct (s <=? 0); [rewrite H in R; discriminate | specialize (R _ H); discriminate].
  - destruct (s <=? 0); [rewrite H in R; discriminate | specialize (R _ H); discriminate].
Qed.

(* ------------------------------------------------------------------ powi *)
Theorem powi_asis_refines_entry p m s e n :
  match powi_entry B p m s e n with
  | EPanic _ => powi_asis B p m s e n = Panic UnlimitedPrecision
  | EExact s' e' => n = 0 -> powi_asis B p m s e n = Ok (AExact s' e')
  | ERound a => powi_asis B p m s e n = Ok (nrm B a)
  | ECompute => True
  end.
Proof.
  unfold powi_entry, powi_asis, powi_pos. destruct (n <? 0).
  - destruct (p =? 0); [reflexivity | exact I].
  - destruct (Z.eqb_spec n 0) as [->|]; [reflexivity|].
    destruct (Z.eqb_spec n 1) as [->|]; [reflexivity|].
    destruct (p =? 0); [|exact I]. destruct (normalize B (s ^ n) (e * n)). intros; contradiction.
Qed.

(* ------------------------------------------------------------------ powf *)
Lemma normalize_1_0 : normalize B 1 0 = (1, 0).
Proof.
  unfold normalize. change (1 =? 0) with false. cbv iota.
  change (Z.to_nat (Z.log2 (Z.abs 1) + 1)) with 1%nat. cbn [strip_aux].
  rewrite Z.mod_1_l by lia. reflexivity.
Qed.

Lemma c_mul_zero_l wp m ys ye : 0 <= wp -> c_mul B wp m 0 0 ys ye = AExact 0 0.
Proof.
  intros Hw. unfold c_mul, ctx_mul. replace (shrink B wp 2 m 0 0) with (0, 0).
  2:{ unfold shrink. destruct (wp =? 0); [reflexivity|]. rewrite dlen_zero.
      destruct (Z.gtb_spec 0 (2 * wp)); [lia | reflexivity]. }
  destruct (shrink B wp 2 m ys ye) as [b eb]. rewrite Z.mul_0_l.
  unfold normalize at 1. cbn [Z.eqb]. unfold repr_round. destruct (wp =? 0); [reflexivity|].
  rewrite dlen_zero. destruct (Z.gtb_spec 0 wp); [lia | reflexivity].
Qed.

(** `as usize` never yields a negative number *)
Hypothesis usize_nonneg : forall x, 0 <= f_to_usize O x.

Theorem powf_asis_refines_entry fuel p m s e ys ye : 0 <= p ->
  match powf_entry B p m s e ys ye with
  | EPanic EPUnlimited => powf_asis B O W fuel p m s e ys ye = Panic UnlimitedPrecision
  | EPanic _ => powf_asis B O W fuel p m s e ys ye = Panic PowerNegativeBase
  | EExact s' e' => powf_asis B O W fuel p m s e ys ye = Ok (AExact s' e')
  | ERound a => powf_asis B O W fuel p m s e ys ye = Ok (nrm B a)
  | ECompute =>
      (* the general route x^y = exp(y ln x) is flagged Exact only for x = 1: 1^y = 1 *)
      forall a, powf_asis B O W fuel p m s e ys ye = Ok a -> is_exact_a a = true ->
        s = 1 /\ e = 0 /\ a = AExact 1 0
  end.
Proof.
  intros Hp0. unfold powf_entry, powf_asis, is_one.
  destruct (Z.eqb_spec p 0) as [|Hp]; [reflexivity|].
  destruct (ys =? 0); [reflexivity|].
  destruct ((ys =? 1) && (ye =? 0)); [reflexivity|].
  destruct (s =? 0); [reflexivity|]. destruct (s <? 0); [reflexivity|].
  intros a H Hx. set (wp := powf_work_precision_gen O p (powf_guard_digits_gen O p)) in *.
  assert (Hwp : p < wp) by (unfold wp, powf_work_precision_gen, powf_guard_digits_gen; pose proof (usize_nonneg (uint_log2_est O p)); lia).
  apply rbind_ok in H. destruct H as (l & Hl & H).
  apply rbind_ok in H. destruct H as (t & Ht & H).
  apply rbind_ok in H. destruct H as (r & Hr & H). inversion H; subst a; clear H.
  destruct l as [ls le|ls le lr].
  2:{ apply and_then_r_inexact in Ht. destruct t; [discriminate|].
      apply and_then_r_inexact in Hr. destruct r; [discriminate|].
      rewrite and_then_inexact in Hx. discriminate. }
  destruct (ln_internal_exact_only_one _ _ _ _ _ _ _ Hl) as (-> & -> & -> & ->).
  cbn [approx_and_then_r] in Ht. rewrite c_mul_zero_l in Ht by lia. inversion Ht; subst t; clear Ht.
  cbn [approx_and_then_r] in Hr. unfold exp_internal in Hr.
  destruct (Z.eqb_spec wp 0) as [E0|N0]; [discriminate|]. cbn [Z.eqb] in Hr. inversion Hr; subst r; clear Hr.
  split; [reflexivity|]. split; [reflexivity|].
  cbn [approx_and_then]. unfold with_precision, c_repr_round, repr_round.
  destruct ((wp =? 0) || (wp >? p)); [|reflexivity].
  destruct (Z.eqb_spec p 0); [contradiction|].
  assert (D1 : dlen B 1 = 1) by (apply (dlen_unique B HB); [lia | rewrite Z.pow_0_r, Z.pow_1_r; cbn; lia]).
  rewrite D1. destruct (Z.gtb_spec 1 p).
  - exfalso. lia.
  - unfold nrm. rewrite normalize_1_0. reflexivity.
Qed.

End Entry.
