(** C08 (round 3): the digit count of FBig::from_parts_const (non-power-of-two base) is the number of digits for
    EVERY DoubleWord significand - also when the next power of the base does not fit in a DoubleWord, which is where
    the loop was one short before the repair F09 (10^38 <= significand < 2^128 in base 10: 38 instead of 39). *)
From Coq Require Import ZArith Lia Bool.
From Dashu Require Import Base.Prelude Float.RoundSpec Float.Contract Float.Model Float.ModelProof Float.ElemF32 Int.IoSpec Float.TextIoSpec Float.TextIoModel
  Float.ParseProof Float.ParseSound Float.PartsConstModel.
From DashuGen Require Import ConvBaseGen.
Open Scope Z_scope.

Section Digits.
Variable B : Z.
Hypothesis B_ge_2 : 2 <= B.

Lemma digits_loop_inv dw s : 0 < s < dw ->
  forall fuel pow d, 1 <= d -> pow = B ^ (d - 1) -> pow <= s -> Z.of_nat fuel + d >= dlen B s + 1 ->
  digits_loop fuel dw B s pow d = dlen B s.
Proof.
  intros Hs. destruct (dlen_spec B B_ge_2 s ltac:(lia)) as [[DL DU] D1]. rewrite Z.abs_eq in DL, DU by lia.
  assert (Mono : forall d, 1 <= d -> B ^ (d - 1) <= s -> d <= dlen B s).
  { intros d Hd Hle. destruct (Z.le_gt_cases d (dlen B s)) as [L|G]; [exact L|].
    pose proof (Z.pow_le_mono_r B (dlen B s) (d - 1) ltac:(lia) ltac:(lia)). lia. }
  induction fuel as [|f IH]; intros pow d Hd Hpow Hle Hfuel.
  - cbn [digits_loop]. specialize (Mono d Hd ltac:(rewrite <- Hpow; exact Hle)). lia.
  - cbn [digits_loop].
    assert (Enext : pow * B = B ^ d).
    { rewrite Hpow. replace d with (Z.succ (d - 1)) at 2 by lia. rewrite Z.pow_succ_r by lia. ring. }
    rewrite Enext.
    destruct (Z.leb_spec dw (B ^ d)) as [Ov|NoOv].
    + symmetry. apply (dlen_unique B B_ge_2 s d Hd). rewrite Z.abs_eq by lia. rewrite <- Hpow. lia.
    + destruct (Z.ltb_spec s (B ^ d)) as [Lt|Ge].
      * symmetry. apply (dlen_unique B B_ge_2 s d Hd). rewrite Z.abs_eq by lia. rewrite <- Hpow. lia.
      * rewrite Nat2Z.inj_succ in Hfuel. apply IH; try lia.
        replace (d + 1 - 1) with d by lia. reflexivity.
Qed.

(** the loop as called: pow = 1, digits = 1, fuel 2W + 1 (a DoubleWord has at most 2W digits) *)
Theorem digits_loop_correct W s : 1 <= W -> 0 < s < 2 ^ (2 * W) ->
  digits_loop (Z.to_nat (2 * W + 1)) (2 ^ (2 * W)) B s 1 1 = dlen B s.
Proof.
  intros HW Hs. apply digits_loop_inv; try lia.
  (* dlen B s <= 2W *)
  { destruct (dlen_spec B B_ge_2 s ltac:(lia)) as [[DL _] D1]. rewrite Z.abs_eq in DL by lia.
    assert (dlen B s - 1 < 2 * W).
    { destruct (Z.lt_ge_cases (dlen B s - 1) (2 * W)) as [L|G]; [exact L|].
      pose proof (Z.pow_le_mono_r 2 (2 * W) (dlen B s - 1) ltac:(lia) G).
      pose proof (Z.pow_le_mono_l 2 B (dlen B s - 1) ltac:(lia)). lia. }
    rewrite Z2Nat.id by lia. lia. }
Qed.

End Digits.

(** the non-power-of-two branch of from_parts_const meets the specification *)
Theorem from_parts_const_asis_spec W B neg sig e minp : 1 <= W -> 2 <= B -> is_pow2 B = false ->
  0 < sig < 2 ^ (2 * W) -> (forall p, minp = Some p -> 0 <= p) ->
  from_parts_const_asis W B neg sig e minp = from_parts_const_spec B neg sig e minp.
Proof.
  intros HW HB Hp2 Hs Hm. unfold from_parts_const_asis, from_parts_const_spec.
  destruct (Z.eqb_spec sig 0); [lia|]. rewrite Hp2.
  pose proof (normalize_spec B HB sig e) as NS.
  destruct (normalize B sig e) as [s1 e1]. destruct NS as [_ NS]. destruct (NS ltac:(lia)) as (N0 & _ & k & Hk & _ & Hv).
  assert (S1 : 0 < s1 < 2 ^ (2 * W)).
  { assert (0 < B ^ k) by (apply Z.pow_pos_nonneg; lia). split; nia. }
  rewrite (digits_loop_correct B HB W s1 HW S1).
  pose proof (dlen_nonneg B HB s1).
  f_equal. destruct minp as [p|].
  - specialize (Hm p eq_refl). destruct (Z.ltb_spec (dlen B s1) p); lia.
  - lia.
Qed.

(** before the repair: 10^38 (39 digits) was given the precision 38 *)
Theorem from_parts_const_before_fix_refuted :
  digits_loop_old (Z.to_nat 129) (2 ^ 128) 10 (10 ^ 38) 1 0 = 38 /\
  digits_loop (Z.to_nat 129) (2 ^ 128) 10 (10 ^ 38) 1 1 = 39 /\ dlen 10 (10 ^ 38) = 39.
Proof. vm_compute. repeat split. Qed.

(** FBig::from_str / from_str_native: accepted iff the grammar accepts the text, with exactly the written value and
    the number of written digits as precision (parse_asis_iff lifted through the regenerated context rule) *)
Theorem fbig_from_str_iff B text v : radix_valid B = true ->
  (fbig_from_str_asis B text = Ok v <-> parse_spec B text = Some v).
Proof.
  intros HB. unfold fbig_from_str_asis, fbig_parse_precision_gen.
  pose proof (parse_asis_iff B text) as I.
  destruct (parse_asis B text) as [[[s e] nd]| | |] eqn:E.
  - split.
    + intros H. injection H as <-. apply (I (s, e, nd) HB). reflexivity.
    + intros H. apply (I v HB) in H. rewrite H. destruct v as [[s' e'] nd']. reflexivity.
  - split; [discriminate|]. intros H. apply (I v HB) in H. discriminate.
  - split; [discriminate|]. intros H. apply (I v HB) in H. discriminate.
  - split; [discriminate|]. intros H. apply (I v HB) in H. discriminate.
Qed.
