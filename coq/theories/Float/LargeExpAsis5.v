(** C08 (round 5): the ln/exp route of Context::convert_base AS IT IS after the repair of F05 (float/src/convert.rs):
    a loop over the number of extra guard digits.  Every pass computes the approximant of the old route
    ([LargeExpAsis.large_trace_asis] at the work precision 2p + digits(exponent * bit_len B) + digits(2^20) + extra),
    rounds BOTH ends approximant * (NB^pad -+ 1) * NB^-pad of its error interval (pad = 2p + extra - 1) and returns
    when the two roundings agree, flag included; otherwise a number inside the window
    |exponent| / 128 <= max(bit_len significand, (p + 1) * bit_len NB) + 1 goes through convert_base_exact
    (the code of the small exponents, any exponent), every other one takes another pass with 2 * extra + digits(2^20)
    extra digits.  The formulas are the ones regenerated from the source (DashuGen.ConvBaseGen5).
    Definitions only (proofs: LargeExpAsis5Proof.v). *)
From Dashu Require Import Base.Prelude Float.RoundSpec Float.Contract Float.Model Float.ElemF32 Float.ElemAsis
  Int.IoSpec Float.TextIoSpec Float.TextIoModel Conv.ConvSpec Conv.ConvModel Float.LargeExpBound Float.LargeExpAsis Float.ConvBaseModel4.
From DashuGen Require Import RoundTables ConvBaseGen ConvBaseGen5.
Open Scope Z_scope.

(** Context::convert_base_exact: the power of the base evaluated exactly, one rounding (any exponent) *)
Definition convert_exact_asis (B NB p : Z) (m : mode) (s e : Z) : TextIoModel.conv :=
  if 0 <=? e then round_norm NB p m (s * B ^ e) 0
  else
    let '(n, ne) := normalize NB s 0 in
    let '(d, de) := normalize NB (B ^ (- e)) 0 in
    conv_of_approx NB (div_round_once NB p m n ne d de).

Definition rounding_eqb (a b : rounding) : bool :=
  match a, b with NoOp, NoOp | AddOne, AddOne | SubOne, SubOne => true | _, _ => false end.
Definition flag_eqb (a b : flag) : bool :=
  match a, b with
  | FExact, FExact | FUnknown, FUnknown => true
  | FInexact x, FInexact y => rounding_eqb x y
  | _, _ => false
  end.
(** `low == high` of two Rounded<Repr> *)
Definition conv_eqb (a b : TextIoModel.conv) : bool :=
  match a, b with
  | CDone s e f, CDone s' e' f' => (s =? s') && (e =? e') && flag_eqb f f'
  | _, _ => false
  end.

(** the two ends of the error interval of the approximant ys * NB^ye, rounded *)
Definition large_ends (NB p : Z) (m : mode) (ys ye pad : Z) : TextIoModel.conv * TextIoModel.conv :=
  (round_norm NB p m (ys * (NB ^ pad - 1)) (ye - pad), round_norm NB p m (ys * (NB ^ pad + 1)) (ye - pad)).

Definition large_exact_window (NB p s e : Z) : bool :=
  Z.abs e / large_exact_div_gen <=? large_exact_bits_gen p NB s.

Section Large5.
Context {F : Type} (O : f32ops F).
Variable W : Z.

(** [LargeExpAsis.large_trace_asis] at an arbitrary work precision *)
Definition large_trace_wp (fuel : nat) (NB B wp : Z) (m : mode) (e : Z) : result large_trace :=
  let '(bs, be) := normalize NB B 0 in
  rbind (ln_internal NB O W fuel wp m bs be false) (fun a =>
  let lnB := FB (approx_sig a) (approx_exp a) wp in
  let new_exp := prim_mul NB m e lnB in
  rbind (ln_base NB O W fuel wp m) (fun lnNB =>
  rbind (fb_div_rem_euclid NB m new_exp lnNB) (fun qr =>
  let '(q, r) := qr in
  if (q <? - isize_max - 1) || (isize_max <? q) then Panic Undocumented
  else
    rbind (exp_internal NB O W fuel (fprec r) m (fsig r) (fexp r) false) (fun ex =>
    Ok (LT lnB new_exp lnNB q r ex))))).

(** one pass: Some answer, or None = take another pass *)
Inductive pass := PReturn (c : TextIoModel.conv) | PRetry.

Definition large_pass (fuel : nat) (B NB p : Z) (m : mode) (s e extra : Z) : pass :=
  match large_trace_wp fuel NB B (large_work_precision_extra_gen p e B NB extra) m e with
  | Ok t =>
      let '(ys, ye) := large_pre s t in
      let '(lo, hi) := large_ends NB p m ys ye (large_pad_gen p extra) in
      if conv_eqb lo hi then PReturn lo
      else if large_exact_window NB p s e then PReturn (convert_exact_asis B NB p m s e)
      else PRetry
  | Panic r => PReturn (CPanic r)
  | Err _ => PReturn (CPanic Undocumented)
  | OutOfFuel => PReturn CLarge
  end.

(** the loop; [passes] is fuel (CLarge = not evaluated further) *)
Fixpoint convert_large_loop (passes : nat) (fuel : nat) (B NB p : Z) (m : mode) (s e extra : Z) : TextIoModel.conv :=
  match passes with
  | 0%nat => CLarge
  | S k =>
      match large_pass fuel B NB p m s e extra with
      | PReturn c => c
      | PRetry => convert_large_loop k fuel B NB p m s e (large_next_extra_gen NB extra)
      end
  end.

Definition convert_large_asis5 (passes fuel : nat) (B NB p : Z) (m : mode) (s e : Z) : TextIoModel.conv :=
  convert_large_loop passes fuel B NB p m s e 0.

(** Context::convert_base after the repair, every route *)
Definition convert_base_full_asis5 (passes fuel : nat) (B NB p : Z) (m : mode) (s e : Z) : TextIoModel.conv :=
  match convert_base_asis4 B NB p m s e with
  | CLarge => convert_large_asis5 passes fuel B NB p m s e
  | r => r
  end.

End Large5.
