(** C11 round 4: argument reduction, recombination and the last rounding of exp (scaled branch of
    exp_internal), as statements about the real values of the quantities the as-is model computes.

      x'  = round_wp(x)                         (the argument at the working precision)
      L   = ln_base at wp                       (computed ln B)
      (q, r0) = div_rem_euclid(x', L)           x' = q L + r0 exactly, 0 <= r0
      r   = convert_int(r0) >> n                (one rounding), rho = r / B^n, N = B^n
      sum = Maclaurin loop                      = exp(rho) * ths            (ElemSeriesErr.v)
      v   = powi loop at p + guard              = sum^N * thp               (ElemPowiSharp.v: (1+-u')^(N-1))
      result = round_p(v) << q

    exp_compose_identity : v = exp x * B^-q * Theta  with
        Theta = exp((x' - x) - q (L - ln B) + (r - r0)) * ths^N * thp        (an IDENTITY: the
        recombination B^q * exp(r) is exact in the exponent, every error is a factor of Theta);
    exp_theta_bounds     : |arg| <= a, |ths - 1| <= es, |thp - 1| <= dp give
        exp(-a) (1-es)^N (1-dp) <= Theta <= exp(a) (1+es)^N (1+dp)
        - the relative error es of the series value is multiplied by N = B^n: the n digits that the
        working precision has to carry in addition (finding F06);
    exp_final_round      : |Theta - 1| <= d with 2 d B^p <= 1 makes the rounded and shifted result
        accepted (within one ulp in the binade of exp x), nearest modes;
    exp_nearest_1ulp_partial : the three together.  What is missing for an unconditional theorem
        about ElemAsis.exp_internal is listed in the header of ElemSeriesInst.v. *)
From Coq Require Import ZArith Reals Lra Lia Psatz.
From Flocq Require Import Core.
From Dashu Require Import Base.Prelude Float.RoundSpec Float.Contract Float.Model Float.AddModel
  Float.ElemEncl Float.ElemEntryProof Float.ElemEnclProof Float.ElemF32 Float.ElemAsis Float.ElemPowiProof.
Open Scope R_scope.

Section ExpFinal.
Variable B : Z.
Hypothesis HB : (2 <= B)%Z.
Local Notation bp := (bpw B).
Local Notation lnB := (ln (IZR B)).

Lemma bpw_exp_ln q : bp q = exp (IZR q * lnB).
Proof.
  unfold bpw. assert (0 < IZR B) by (apply IZR_lt; lia).
  rewrite powerRZ_Rpower by assumption. reflexivity.
Qed.

(** argument reduction: with the COMPUTED logarithm L the identity x' = q L + r0 gives
    exp x' = B^q * exp r0 * exp(q (L - ln B)) *)
Theorem exp_reduction_identity q x' L r0 : x' = IZR q * L + r0 ->
  exp x' = bp q * exp r0 * exp (IZR q * (L - lnB)).
Proof.
  intros ->. rewrite bpw_exp_ln, <- !exp_plus. f_equal. ring.
Qed.

(** the error of the reduced argument from the error of ln B: |q| * |L - ln B| *)
Theorem exp_reduced_argument_error q L eL : Rabs (L - lnB) <= eL ->
  exp (- (Rabs (IZR q) * eL)) <= exp (IZR q * (L - lnB)) <= exp (Rabs (IZR q) * eL).
Proof.
  intros H. assert (Rabs (IZR q * (L - lnB)) <= Rabs (IZR q) * eL).
  { rewrite Rabs_mult. apply Rmult_le_compat_l; [apply Rabs_pos | exact H]. }
  apply Rabs_le_inv in H0. split; apply exp_le_mono; lra.
Qed.

(** recombination: every error of the computation is a factor of Theta, the power of B is exact *)
Theorem exp_compose_identity q (N : nat) x x' L r0 r rho ths thp sum v :
  x' = IZR q * L + r0 -> rho * INR N = r -> sum = exp rho * ths -> v = sum ^ N * thp ->
  v = exp x * bp (- q) * (exp ((x' - x) - IZR q * (L - lnB) + (r - r0)) * ths ^ N * thp).
Proof.
  intros Hx Hr Hs Hv. rewrite Hv, Hs, Rpow_mult_distr.
  assert (E : exp rho ^ N = exp r).
  { rewrite <- Hr. clear. induction N as [|k IH]; [cbn [pow INR]; rewrite Rmult_0_r, exp_0; reflexivity|].
    rewrite S_INR. cbn [pow]. rewrite IH, <- exp_plus. f_equal. ring. }
  rewrite E, bpw_exp_ln, opp_IZR.
  replace (exp x * exp (- IZR q * lnB) * (exp (x' - x - IZR q * (L - lnB) + (r - r0)) * ths ^ N * thp))
    with ((exp x * exp (- IZR q * lnB) * exp (x' - x - IZR q * (L - lnB) + (r - r0))) * ths ^ N * thp) by ring.
  rewrite <- !exp_plus. f_equal. f_equal. f_equal. rewrite Hx. ring.
Qed.

Theorem exp_theta_bounds (N : nat) arg ths thp a es dp :
  Rabs arg <= a -> Rabs (ths - 1) <= es -> es <= 1 -> Rabs (thp - 1) <= dp -> dp <= 1 ->
  exp (- a) * (1 - es) ^ N * (1 - dp) <= exp arg * ths ^ N * thp <= exp a * (1 + es) ^ N * (1 + dp).
Proof.
  intros Ha Hs Hs1 Hp Hp1. apply Rabs_le_inv in Ha. apply Rabs_le_inv in Hs. apply Rabs_le_inv in Hp.
  assert (E1 : exp (- a) <= exp arg) by (apply exp_le_mono; lra).
  assert (E2 : exp arg <= exp a) by (apply exp_le_mono; lra).
  assert (E0 : 0 < exp (- a)) by apply exp_pos.
  assert (P1 : (1 - es) ^ N <= ths ^ N) by (apply pow_incr; lra).
  assert (P2 : ths ^ N <= (1 + es) ^ N) by (apply pow_incr; lra).
  assert (P0 : 0 <= (1 - es) ^ N) by (apply pow_le; lra).
  split.
  - assert (exp (- a) * (1 - es) ^ N <= exp arg * ths ^ N) by (apply Rmult_le_compat; lra).
    apply Rmult_le_compat; try lra. apply Rmult_le_pos; lra.
  - assert (0 <= ths ^ N) by lra.
    assert (exp arg * ths ^ N <= exp a * (1 + es) ^ N) by (apply Rmult_le_compat; lra).
    apply Rmult_le_compat; try lra. apply Rmult_le_pos; lra.
Qed.

(** shl_val multiplies the value by B^q *)
Lemma fval_shl_val s e q : let '(s', e') := shl_val s e q in fval B s' e' = fval B s e * bp q.
Proof.
  unfold shl_val. destruct (Z.eqb_spec s 0) as [->|Hs].
  - rewrite fval_0. ring.
  - rewrite !(fval_bpw B), (bpw_add B HB). ring.
Qed.

(** the last rounding and the shift by the quotient: from a relative error d of the working value
    with 2 d B^p <= 1 to the acceptance criterion of the property *)
Theorem exp_final_round p m sv ev q x d : (1 <= p)%Z -> is_half_mode m = true -> 0 <= d ->
  2 * d * IZR (B ^ p) <= 1 -> RD d (exp x * bp (- q)) (fval B sv ev) ->
  let a := c_repr_round B p m sv ev in
  let '(s', e') := shl_val (approx_sig a) (approx_exp a) q in
  exists E, bp E <= Rabs (exp x) /\ Rabs (fval B s' e' - exp x) < bp (E - p + 1).
Proof.
  intros Hp Hm Hd0 Hd HR a.
  assert (Hq : 0 < bp (- q)) by apply (bpw_pos B HB).
  assert (Ht : exp x * bp (- q) <> 0) by (pose proof (exp_pos x); nra).
  destruct (RD_final B HB p m sv ev _ d Hp Hm Ht Hd0 Hd HR) as (E & HE & Herr). fold a in Herr.
  pose proof (fval_shl_val (approx_sig a) (approx_exp a) q) as Hs.
  destruct (shl_val (approx_sig a) (approx_exp a) q) as [s' e']. rewrite Hs. fold (aval B a).
  assert (Hqq : bp q * bp (- q) = 1).
  { rewrite <- (bpw_add B HB). replace (q + - q)%Z with 0%Z by lia. reflexivity. }
  assert (Hbq : 0 < bp q) by apply (bpw_pos B HB).
  exists (E + q)%Z. split.
  - rewrite (bpw_add B HB). rewrite Rabs_mult, (Rabs_pos_eq (bp (- q))) in HE by lra.
    assert (bp E * bp q <= Rabs (exp x) * bp (- q) * bp q) by (apply Rmult_le_compat_r; lra).
    replace (Rabs (exp x) * bp (- q) * bp q) with (Rabs (exp x) * (bp q * bp (- q))) in H by ring.
    rewrite Hqq in H. lra.
  - replace (E + q - p + 1)%Z with ((E - p + 1) + q)%Z by lia. rewrite (bpw_add B HB).
    replace (aval B a * bp q - exp x) with ((aval B a - exp x * bp (- q)) * bp q)
      by (replace (exp x) with (exp x * (bp q * bp (- q))) at 2 by (rewrite Hqq; ring); ring).
    rewrite Rabs_mult, (Rabs_pos_eq (bp q)) by lra.
    apply Rmult_lt_compat_r; assumption.
Qed.

(** the three layers together.  [sv * B^ev] is the working value of the last powering (before its
    rounding to p digits), the result of exp is that rounding shifted by q. *)
Theorem exp_nearest_1ulp_partial p m sv ev q (N : nat) x x' L r0 r rho ths thp sum a es dp d :
  (1 <= p)%Z -> is_half_mode m = true ->
  (* argument reduction (exact identities of the model) *)
  x' = IZR q * L + r0 -> rho * INR N = r ->
  (* series value and powering, with their relative errors *)
  sum = exp rho * ths -> fval B sv ev = sum ^ N * thp ->
  Rabs ((x' - x) - IZR q * (L - lnB) + (r - r0)) <= a -> Rabs (ths - 1) <= es -> es <= 1 ->
  Rabs (thp - 1) <= dp -> dp <= 1 ->
  (* the side condition on the accumulated error *)
  0 <= d -> 1 - d <= exp (- a) * (1 - es) ^ N * (1 - dp) -> exp a * (1 + es) ^ N * (1 + dp) <= 1 + d ->
  2 * d * IZR (B ^ p) <= 1 ->
  let res := c_repr_round B p m sv ev in
  let '(s', e') := shl_val (approx_sig res) (approx_exp res) q in
  exists E, bp E <= Rabs (exp x) /\ Rabs (fval B s' e' - exp x) < bp (E - p + 1).
Proof.
  intros Hp Hm Hx Hr Hs Hv Ha Hes Hes1 Hdp Hdp1 Hd0 Hlo Hhi Hd.
  apply exp_final_round with (d := d); try assumption.
  pose proof (exp_compose_identity q N x x' L r0 r rho ths thp sum (fval B sv ev) Hx Hr Hs Hv) as Id.
  pose proof (exp_theta_bounds N _ ths thp a es dp Ha Hes Hes1 Hdp Hdp1) as [Lo Hi].
  eexists. split; [exact Id|]. apply Rabs_le. lra.
Qed.

End ExpFinal.

(** non-vacuity (degenerate instance: exp 0) *)
Example exp_nearest_1ulp_partial_example :
  let res := c_repr_round 10 3 MHalfEven 1 0 in
  let '(s', e') := shl_val (approx_sig res) (approx_exp res) 0 in
  exists E, (bpw 10 E <= Rabs (exp 0))%R /\ (Rabs (fval 10 s' e' - exp 0) < bpw 10 (E - 3 + 1))%R.
Proof.
  assert (R0 : forall t : R, t = 0 -> Rabs t <= 0) by (intros t ->; rewrite Rabs_R0; lra).
  apply (exp_nearest_1ulp_partial 10 ltac:(lia) 3 MHalfEven 1 0 0 1 0 0 0 0 0 0 1 1 1 0 0 0 0)%R;
    try lia; try reflexivity; rewrite ?Ropp_0, ?exp_0, ?fval_1_0; cbn [pow]; try lra; try ring;
    apply R0; ring.
Qed.
