(** C10 round 3: proofs about the public entry points (RoundOpsDeep.v).
    [rf] is ANY implementation of Round::round_fract that agrees with the exact comparison for digit counts
    below K; the f32 pre-filter of the code is such an implementation for K = 2^24 (C03: round_fract_f32_eq,
    and round_fract_flocq32 with Flocq's binary32 arithmetic) - see the instances at the end. *)
From Coq Require Import QArith Reals Qreals.
From Dashu Require Import Base.Prelude Float.RoundSpec Float.RoundSpecProof Float.Contract Float.Model Float.ModelProof
  Float.RoundOpsModel Float.RoundOpsProof Float.RoundOpsLegal Float.RoundOpsDeep Float.DivMulModel Float.FilterProof Float.F32Flocq.
From DashuGen Require Import RoundTables.
Open Scope Z_scope.

Section Deep.
Variable B : Z.
Hypothesis B_ge_2 : 2 <= B.
Variable digits_ub : Z -> Z.
Hypothesis dub_sound : forall s, dlen B s <= digits_ub s.
Variable rf : mode -> Z -> Z -> Z -> rounding.
Variable K : Z.
Hypothesis rf_ok : forall m i f k, 0 <= k < K -> rf m i f k = round_fract B m i f k.

Lemma chk_rf_eq m i f k : 0 <= k < K -> round_fract_chk_rf B rf m i f k = round_fract_chk B m i f k.
Proof. intros Hk. unfold round_fract_chk_rf, round_fract_chk. rewrite rf_ok by exact Hk. reflexivity. Qed.

Lemma round_to_rf_eq m p s e : e < 0 -> - e < K ->
  round_to_rf B digits_ub rf m p s e = round_to B digits_ub false m p s e.
Proof.
  intros He HK. unfold round_to_rf, round_to, split_internal.
  destruct (smaller_than_one digits_ub s e).
  - rewrite chk_rf_eq by lia. reflexivity.
  - destruct (split_digits B s (- e)) as [hi lo]. rewrite chk_rf_eq by lia. reflexivity.
Qed.

Lemma ceil_rf_eq p s e : - e < K -> ceil_rf B digits_ub rf p s e = ceil_asis B digits_ub false p s e.
Proof.
  intros HK. unfold ceil_rf, ceil_asis. destruct ((s =? 0) || (0 <=? e)) eqn:E; [reflexivity|].
  destruct (smaller_than_one digits_ub s e); [reflexivity|].
  apply Bool.orb_false_iff in E. destruct E as [_ E]. apply Z.leb_gt in E. apply round_to_rf_eq; lia.
Qed.

Lemma floor_rf_eq p s e : - e < K -> floor_rf B digits_ub rf p s e = floor_asis B digits_ub false p s e.
Proof.
  intros HK. unfold floor_rf, floor_asis. destruct (Z.leb_spec 0 e); [reflexivity|].
  destruct (smaller_than_one digits_ub s e); [reflexivity|]. apply round_to_rf_eq; lia.
Qed.

Lemma round_rf_eq p s e : - e < K -> round_rf B digits_ub rf p s e = round_asis B digits_ub false p s e.
Proof.
  intros HK. unfold round_rf, round_asis. destruct (Z.leb_spec 0 e); [reflexivity|].
  destruct (e + digits_ub s <? -2); [reflexivity|]. apply round_to_rf_eq; lia.
Qed.

Lemma to_int_rf_eq m p s e : - e < K -> to_int_rf B digits_ub rf m p s e = to_int_asis B digits_ub false m p s e.
Proof.
  intros HK. unfold to_int_rf, to_int_asis, split_internal. destruct (Z.leb_spec 0 e); [reflexivity|].
  destruct (smaller_than_one digits_ub s e).
  - rewrite chk_rf_eq by lia. reflexivity.
  - destruct (split_digits B s (- e)) as [hi lo]. rewrite chk_rf_eq by lia. reflexivity.
Qed.

(** Context::repr_round: the debug assertion of round_fract holds at its call, and with [rf] it is Model.repr_round *)
Lemma repr_round_rf_eq p m s e : 0 <= p -> dlen B s - p < K ->
  repr_round_rf B rf p m s e = Ok (repr_round B p m s e).
Proof.
  intros Hp HK. unfold repr_round_rf, repr_round. destruct (Z.eqb_spec p 0); [reflexivity|].
  destruct (Z.gtb_spec (dlen B s) p) as [G|G]; [|reflexivity]. cbn [split_digits].
  set (k := dlen B s - p) in *. pose proof (Bpow_pos B B_ge_2 k ltac:(lia)) as Hk.
  unfold round_fract_chk_rf. pose proof (Z.rem_bound_abs s (B ^ k) ltac:(lia)) as Hb.
  rewrite (Z.abs_eq (B ^ k)) in Hb by lia. destruct (Z.ltb_spec (Z.abs (Z.rem s (B ^ k))) (B ^ k)); [|lia].
  cbn [rbind]. rewrite rf_ok by lia. reflexivity.
Qed.

(* ---------------------------------------------------------------- finite inputs *)

Lemma finite_pass {A} s e (k : result A) : is_inf s e = false -> assert_finite s e k = k.
Proof. intros H. unfold assert_finite. rewrite H. reflexivity. Qed.

(** every public entry point, finite input, fewer than K digits after the radix point: exactly the as-is model
    that RoundOpsProof.v proves equal to the specification *)
Theorem entry_points_finite p s e : is_inf s e = false -> - e < K ->
  trunc_full B digits_ub p s e = Ok (trunc_asis B digits_ub p s e) /\
  fract_full B digits_ub p s e = Ok (fract_asis B digits_ub false p s e) /\
  split_full B digits_ub p s e = Ok (split_asis B digits_ub p s e) /\
  ceil_full B digits_ub rf p s e = ceil_asis B digits_ub false p s e /\
  floor_full B digits_ub rf p s e = floor_asis B digits_ub false p s e /\
  round_full B digits_ub rf p s e = round_asis B digits_ub false p s e /\
  (forall m, to_int_full B digits_ub rf m p s e = to_int_asis B digits_ub false m p s e) /\
  repr_to_int_full B digits_ub s e = Ok (repr_to_int_asis B digits_ub s e).
Proof.
  intros Hf HK.
  unfold trunc_full, fract_full, split_full, ceil_full, floor_full, round_full, to_int_full, repr_to_int_full.
  rewrite !finite_pass by exact Hf.
  repeat split; try reflexivity.
  - apply ceil_rf_eq; exact HK.
  - apply floor_rf_eq; exact HK.
  - apply round_rf_eq; exact HK.
  - intros m. rewrite finite_pass by exact Hf. apply to_int_rf_eq; exact HK.
Qed.

(** ... hence the specification, directly (floats as Repr::new leaves them: no trailing zero digit) *)
Theorem entry_points_spec p s e : is_inf s e = false -> - e < K -> (e < 0 -> s mod B <> 0) ->
  (exists f, trunc_full B digits_ub p s e = Ok f /\ int_valued B f (int_spec B MZero s e)) /\
  (exists f, floor_full B digits_ub rf p s e = Ok f /\ int_valued B f (int_spec B MDown s e)) /\
  (exists f, ceil_full B digits_ub rf p s e = Ok f /\ int_valued B f (int_spec B MUp s e)) /\
  (exists f, round_full B digits_ub rf p s e = Ok f /\ int_valued B f (int_spec B MHalfAway s e)) /\
  (forall m, to_int_full B digits_ub rf m p s e = Ok (to_int_spec B m s e)) /\
  repr_to_int_full B digits_ub s e = Ok (to_int_spec B MZero s e).
Proof.
  intros Hf HK Hn. destruct (entry_points_finite p s e Hf HK) as (T & _ & _ & C & F & R & I & RI).
  split; [eexists; split; [exact T | apply trunc_asis_spec; assumption]|].
  split; [rewrite F; apply floor_asis_spec; assumption|].
  split.
  { rewrite C. apply ceil_asis_spec; try assumption. intros He Hs. apply (Hn He). subst s. apply Z.mod_0_l. lia. }
  split; [rewrite R; apply round_asis_spec; assumption|].
  split; [intros m; rewrite I; apply to_int_asis_spec; assumption|].
  rewrite RI. f_equal. apply repr_to_int_asis_spec; assumption.
Qed.

(* ---------------------------------------------------------------- infinities *)

Theorem entry_points_infinite p s e : is_inf s e = true ->
  trunc_full B digits_ub p s e = Panic OperateWithInf /\
  fract_full B digits_ub p s e = Panic OperateWithInf /\
  split_full B digits_ub p s e = Panic OperateWithInf /\
  ceil_full B digits_ub rf p s e = Panic OperateWithInf /\
  floor_full B digits_ub rf p s e = Panic OperateWithInf /\
  round_full B digits_ub rf p s e = Panic OperateWithInf /\
  (forall m, to_int_full B digits_ub rf m p s e = Panic OperateWithInf) /\
  repr_to_int_full B digits_ub s e = Panic OperateWithInf /\
  (forall m np, with_precision_full B rf m p s e np =
     if (p =? 0) || (p >? np) then Panic OperateWithInf else Ok (AExact s e)) /\
  (forall m np, with_same_base_full B rf m s e np = Ok (AInexact s e NoOp)).
Proof.
  intros H.
  unfold trunc_full, fract_full, split_full, ceil_full, floor_full, round_full, to_int_full, repr_to_int_full,
    with_precision_full, with_same_base_full, assert_finite. rewrite H. repeat split; reflexivity.
Qed.

(* ---------------------------------------------------------------- with_precision and relatives *)

Theorem with_precision_full_asis m p s e np : is_inf s e = false -> 0 <= np -> dlen B s - np < K ->
  with_precision_full B rf m p s e np = Ok (with_precision_asis B false m p s e np).
Proof.
  intros Hf Hnp HK. unfold with_precision_full, with_precision_asis.
  destruct ((p =? 0) || (p >? np)); [|reflexivity].
  rewrite finite_pass by exact Hf. rewrite repr_round_rf_eq by assumption. reflexivity.
Qed.

Theorem with_precision_full_spec m p s e np : is_inf s e = false -> 0 <= p -> 0 <= np -> (p = 0 \/ dlen B s <= p) ->
  dlen B s - np < K ->
  with_precision_full B rf m p s e np = Ok (norm_approx B (with_precision_spec B m s e np)).
Proof.
  intros Hf Hp Hnp Hl HK. rewrite with_precision_full_asis by assumption. f_equal.
  apply with_precision_asis_spec; assumption.
Qed.

(** with_rounding::<NewR>() then with_precision(np): ONE rounding, under the new mode; the old mode plays no part *)
Theorem with_rounding_then_precision_spec m_old m_new p s e np :
  is_inf s e = false -> 0 <= p -> 0 <= np -> (p = 0 \/ dlen B s <= p) -> dlen B s - np < K ->
  with_rounding_then_precision B rf m_old m_new p s e np = Ok (norm_approx B (with_precision_spec B m_new s e np)).
Proof. intros. unfold with_rounding_then_precision. apply with_precision_full_spec; assumption. Qed.

(** conversion to the same base: ONE rounding to np digits whatever the old precision was (no legality premise) *)
Theorem with_same_base_full_spec m s e np : is_inf s e = false -> 0 <= np -> dlen B s - np < K ->
  with_same_base_full B rf m s e np = Ok (norm_approx B (with_precision_spec B m s e np)).
Proof.
  intros Hf Hnp HK. unfold with_same_base_full. rewrite Hf. rewrite repr_round_rf_eq by assumption. cbn [rmap rbind].
  f_equal. rewrite <- (with_precision_asis_spec B B_ge_2 m 0 s e np ltac:(lia) Hnp ltac:(left; reflexivity)).
  unfold with_precision_asis. cbn [Z.eqb orb]. reflexivity.
Qed.

(** with_precision twice: each step is the single specification rounding of what it is given (the second one of the
    ROUNDED value: for the nearest modes this is not the rounding of the original, see RoundTwiceProof.v) *)
Theorem with_precision_twice_steps m p s e np1 np2 :
  is_inf s e = false -> 0 <= p -> 1 <= np1 -> 0 <= np2 -> (p = 0 \/ dlen B s <= p) ->
  dlen B s - np1 < K -> np1 + 1 - np2 < K ->
  let a1 := norm_approx B (with_precision_spec B m s e np1) in
  with_precision_twice B rf m p s e np1 np2 =
    Ok (a1, norm_approx B (with_precision_spec B m (approx_sig a1) (approx_exp a1) np2)).
Proof.
  intros Hf Hp Hn1 Hn2 Hl HK1 HK2 a1. unfold with_precision_twice.
  rewrite with_precision_full_spec by (try assumption; lia). cbn [rbind]. fold a1.
  pose proof (with_precision_legal B B_ge_2 m s e np1 ltac:(lia)) as L. fold a1 in L.
  assert (Hd : dlen B (approx_sig a1) <= np1) by lia.
  assert (Hf1 : is_inf (approx_sig a1) (approx_exp a1) = false).
  { unfold is_inf. destruct (Z.eqb_spec (approx_sig a1) 0) as [Z0|]; [|reflexivity]. cbn [andb].
    (* a zero significand after norm_approx has exponent 0, or the value was the exact input *)
    subst a1. unfold with_precision_spec in *.
    destruct ((np1 =? 0) || (dlen B s <=? np1)).
    - cbn [norm_approx approx_sig approx_exp] in *. unfold is_inf in Hf. rewrite Z0 in Hf. cbn [Z.eqb andb] in Hf.
      apply Bool.negb_false_iff in Hf. rewrite Hf. reflexivity.
    - cbn [norm_approx] in *. pose proof (normalize_spec B B_ge_2 (spec_round m s (B ^ (dlen B s - np1))) (e + (dlen B s - np1))) as N.
      destruct (normalize B _ _) as [s' e']. cbn [approx_sig approx_exp] in *. destruct N as [N0 N1].
      destruct (Z.eq_dec (spec_round m s (B ^ (dlen B s - np1))) 0) as [Q|Q].
      + destruct (N0 Q) as [_ ->]. reflexivity.
      + destruct (N1 Q) as [Q' _]. contradiction. }
  rewrite with_precision_full_spec; try assumption; try lia. reflexivity.
Qed.

(* ---------------------------------------------------------------- to_int: how big the answer is *)

(** e >= 0: the answer is the integer s * B^e itself, at least B^e in magnitude - the allocation the documentation
    warns about is the size of the RESULT; e < 0: the answer never exceeds the significand *)
Theorem to_int_size m s e :
  (0 <= e -> to_int_spec B m s e = IExact (s * B ^ e) /\ (s <> 0 -> B ^ e <= Z.abs (s * B ^ e))) /\
  (e < 0 -> Z.abs (int_spec B m s e) <= Z.abs s).
Proof.
  split.
  - intros He. unfold to_int_spec, is_int, int_spec. destruct (Z.leb_spec 0 e); [|lia]. cbn [orb]. split; [reflexivity|].
    intros Hs. rewrite Z.abs_mul. pose proof (Bpow_pos B B_ge_2 e He). rewrite (Z.abs_eq (B ^ e)) by lia.
    assert (1 <= Z.abs s) by lia. nia.
  - intros He. unfold int_spec. destruct (Z.leb_spec 0 e); [lia|].
    pose proof (Bpow_pos B B_ge_2 (- e) ltac:(lia)) as Hp.
    assert (H2 : 2 <= B ^ (- e)).
    { replace (- e) with (1 + (- e - 1)) by lia. rewrite Z.pow_add_r, Z.pow_1_r by lia.
      pose proof (Bpow_pos B B_ge_2 (- e - 1) ltac:(lia)). nia. }
    pose proof (spec_round_error m s (B ^ (- e)) Hp) as [E _]. cbv zeta in E.
    set (r := spec_round m s (B ^ (- e))) in *. set (d := B ^ (- e)) in *. clearbody r d. clear - E H2.
    destruct (Z.le_gt_cases (Z.abs r) (Z.abs s)) as [|G]; [assumption|exfalso].
    assert (Hr : Z.abs (r * d) = Z.abs r * d) by (rewrite Z.abs_mul, (Z.abs_eq d); lia).
    assert ((Z.abs s + 1) * d <= Z.abs r * d) by (apply Z.mul_le_mono_nonneg_r; lia).
    assert (Z.abs s * 2 <= Z.abs s * d) by (apply Z.mul_le_mono_nonneg_l; lia).
    lia.
Qed.

End Deep.

(* ---------------------------------------------------------------- the instances *)

(** the exact comparison itself (what RoundOpsModel uses), no bound on the digit count *)
Lemma rf_exact_ok B K : forall m i f k, 0 <= k < K -> round_fract B m i f k = round_fract B m i f k.
Proof. reflexivity. Qed.

(** the f32 pre-filter of Round::round_fract with Flocq's binary32 arithmetic and any sound log2 bounds (C12's
    contract): agrees with the exact comparison below 2^24 digits - this is C03's theorem, cited *)
Lemma rf_flocq32_ok B (HB : 2 <= B) (lb ub : Z -> Q) (b_lb b_ub : Q) :
  (forall f, 0 < f -> (Q2R (lb f) <= log2R (IZR f) <= Q2R (ub f))%R) ->
  (Q2R b_lb <= log2R (IZR B) <= Q2R b_ub)%R ->
  forall m i f k, 0 <= k < 2 ^ 24 ->
  round_fract_f32 fl32 cvt32 lb ub b_lb b_ub c999_32 c1001_32 B m i f k = round_fract B m i f k.
Proof. intros Hl Hb. exact (round_fract_flocq32 B HB lb ub b_lb b_ub Hl Hb). Qed.

(** the primitive WITH its filter is the specification rounding *)
Theorem round_fract_flocq32_spec B (HB : 2 <= B) (lb ub : Z -> Q) (b_lb b_ub : Q) :
  (forall f, 0 < f -> (Q2R (lb f) <= log2R (IZR f) <= Q2R (ub f))%R) ->
  (Q2R b_lb <= log2R (IZR B) <= Q2R b_ub)%R ->
  forall m hi lo k, 0 <= k < 2 ^ 24 -> Z.abs lo < B ^ k ->
  hi + adj (round_fract_f32 fl32 cvt32 lb ub b_lb b_ub c999_32 c1001_32 B m hi lo k) =
  spec_round m (hi * B ^ k + lo) (B ^ k).
Proof.
  intros Hl Hb m hi lo k Hk Hlo. rewrite (rf_flocq32_ok B HB lb ub b_lb b_ub Hl Hb) by exact Hk.
  apply round_fract_spec; [exact HB | lia | exact Hlo].
Qed.

(** non-vacuity of the hypotheses about the log2 bounds: exact real logarithms do not exist in Q, but the
    integer brackets floor(log2)/floor(log2)+1 are sound bounds (used by FilterProof's own example) *)
Example entry_points_example :
  to_int_full 10 (dub_exact 10) (round_fract 10) MHalfEven 2 99 (-4) = Ok (IInexact 0 NoOp) /\
  to_int_full 10 (dub_exact 10) (round_fract 10) MUp 0 0 1 = Panic OperateWithInf /\
  ceil_full 10 (dub_plus 10) (round_fract 10) 3 (-125) (-2) = Ok (-1, 0, 1) /\
  with_precision_full 10 (round_fract 10) MHalfAway 0 0 (-1) 3 = Panic OperateWithInf /\
  with_precision_full 10 (round_fract 10) MHalfAway 2 0 (-1) 3 = Ok (AExact 0 (-1)) /\
  with_same_base_full 10 (round_fract 10) MHalfAway 12345 0 3 = Ok (AInexact 123 2 NoOp) /\
  with_precision_twice 10 (round_fract 10) MHalfAway 4 2449 (-3) 3 2 = Ok (AInexact 245 (-2) AddOne, AInexact 25 (-1) AddOne).
Proof. repeat split; vm_compute; reflexivity. Qed.
