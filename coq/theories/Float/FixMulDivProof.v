(** C03 round 4: Context::mul / sqr / cubic / div / inv after the repair of finding
    overlong_operand_double_rounding (FixModel.v, transcribed from the repaired float/src/{mul,div}.rs), and the
    repaired models WITH every Repr::new.

    - mul / sqr / cubic: ONE rounding of the exact product for operands of ANY length ([rounded_sum]);
    - repr_div / Context::div / inv / FBig / FBig: ONE rounding of the exact quotient for a dividend of ANY length
      ([rounded_quot] against sgn(s2) * s1 * B^k over |s2| * B^j, j the digits the dividend has too many);
    - up to the old thresholds the repaired functions return what the code returned before. *)
From Dashu Require Import Base.Prelude Float.RoundSpec Float.RoundTablesProof Float.RoundSpecProof
  Float.Contract Float.Model Float.ModelProof Float.AddModel Float.AddModelProof Float.DivMulModel
  Float.DivMulProof Float.LongModel Float.AddLongProof Float.MulDivLongProof Float.NormalProof Float.FixModel Float.FixAddProof.
From DashuGen Require Import RoundTables.
From Coq Require Import ZifyBool.
Open Scope Z_scope.

Section FixMulDiv.
Variable B : Z.
Hypothesis B_ge_2 : 2 <= B.
Local Notation Bpos := (Bpow_pos B B_ge_2).

(** * multiplication: any operand lengths *)
Theorem ctx_mul_fix_correct p m s1 e1 s2 e2 : 1 <= p ->
  rounded_sum B p m (s1 * s2) (e1 + e2) (ctx_mul_fix B p m s1 e1 s2 e2).
Proof. intros Hp. apply (equal_exp_rounded B B_ge_2). exact Hp. Qed.

Theorem ctx_sqr_fix_correct p m s e : 1 <= p -> rounded_sum B p m (s * s) (2 * e) (ctx_sqr_fix B p m s e).
Proof. intros Hp. apply (equal_exp_rounded B B_ge_2). exact Hp. Qed.

Theorem ctx_cubic_fix_correct p m s e : 1 <= p -> rounded_sum B p m (s * s * s) (3 * e) (ctx_cubic_fix B p m s e).
Proof. intros Hp. apply (equal_exp_rounded B B_ge_2). exact Hp. Qed.

(** unlimited precision: the exact product *)
Theorem ctx_mul_fix_unlimited m s1 e1 s2 e2 :
  let '(s, e) := normalize B (s1 * s2) (e1 + e2) in ctx_mul_fix B 0 m s1 e1 s2 e2 = AExact s e.
Proof. unfold ctx_mul_fix. destruct (normalize B (s1 * s2) (e1 + e2)). apply repr_round_unlimited. Qed.

(** up to the old thresholds nothing changed *)
Theorem ctx_mul_fix_eq_old p m s1 e1 s2 e2 : 1 <= p -> mul_long_class B p s1 s2 = false ->
  ctx_mul_fix B p m s1 e1 s2 e2 = ctx_mul B p m s1 e1 s2 e2.
Proof. intros Hp Hc. destruct (ctx_mul_long B B_ge_2 p m s1 e1 s2 e2 Hp Hc) as [E _]. rewrite E. reflexivity. Qed.
Theorem ctx_sqr_fix_eq_old p m s e : 1 <= p -> sqr_long_class B p s = false -> ctx_sqr_fix B p m s e = ctx_sqr B p m s e.
Proof. intros Hp Hc. destruct (ctx_sqr_long B B_ge_2 p m s e Hp Hc) as [E _]. rewrite E. reflexivity. Qed.
Theorem ctx_cubic_fix_eq_old p m s e : 1 <= p -> cubic_long_class B p s = false -> ctx_cubic_fix B p m s e = ctx_cubic B p m s e.
Proof. intros Hp Hc. destruct (ctx_cubic_long B B_ge_2 p m s e Hp Hc) as [E _]. rewrite E. reflexivity. Qed.

(** * division: any dividend length *)
Lemma dlen_shl s k : s <> 0 -> 0 <= k -> dlen B (s * B ^ k) = dlen B s + k.
Proof.
  intros Hs Hk. destruct (dlen_spec B B_ge_2 s Hs) as [[L U] G]. pose proof (Bpos k Hk) as HP.
  apply (dlen_unique B B_ge_2); [lia|].
  rewrite Z.abs_mul, (Z.abs_eq (B ^ k)) by lia.
  replace (dlen B s + k - 1) with ((dlen B s - 1) + k) by lia. rewrite !Z.pow_add_r by lia.
  split; [apply Z.mul_le_mono_nonneg_r; lia | apply Z.mul_lt_mono_pos_r; lia].
Qed.

(** the digits the dividend has too many *)
Definition div_excess (p s1 s2 : Z) : Z := Z.max 0 (dlen B s1 - p - dlen B s2).

Lemma div_scale_spec p s1 s2 e2 : s2 <> 0 -> 0 <= p ->
  let j := div_excess p s1 s2 in
  div_scale B p s1 s2 e2 = (s2 * B ^ j, e2 - j) /\ 0 <= j /\ dlen B s1 <= p + dlen B (s2 * B ^ j).
Proof.
  intros Hs Hp j. unfold div_scale, div_excess in *. unfold shl_digits.
  destruct (Z.gtb_spec (dlen B s1) (p + dlen B s2)) as [G|G].
  - assert (Ej : j = dlen B s1 - p - dlen B s2) by (unfold j; lia).
    rewrite Ej. split; [reflexivity|]. split; [lia|]. rewrite dlen_shl by (try assumption; lia). lia.
  - assert (Ej : j = 0) by (unfold j; lia).
    rewrite Ej, Z.pow_0_r, Z.mul_1_r, Z.sub_0_r. split; [reflexivity|]. split; lia.
Qed.

(** repr_div, repaired: the quotient s1 / s2 in units of B^(k - j) is rounded once, whatever the lengths *)
Theorem repr_div_fix_rounded p m s1 e1 s2 e2 : 1 <= p -> s2 <> 0 ->
  let j := div_excess p s1 s2 in
  let k := repr_div_shift B p s1 (s2 * B ^ j) in
  0 <= j /\ 0 <= k /\
  exists a, repr_div_fix B p m s1 e1 s2 e2 = Ok a /\ approx_exp a = e1 - e2 + j - k /\
    rounded_quot B p m (Z.sgn s2 * (s1 * B ^ k)) (Z.abs s2 * B ^ j) a.
Proof.
  intros Hp Hs j k. unfold repr_div_fix. destruct (Z.eqb_spec p 0) as [|_]; [lia|].
  destruct (div_scale_spec p s1 s2 e2 Hs ltac:(lia)) as (E & Hj & Hpre). fold j in E, Hj, Hpre. rewrite E.
  pose proof (Bpos j Hj) as HPj.
  assert (Hs' : s2 * B ^ j <> 0) by nia.
  destruct (repr_div_rounded B B_ge_2 p m s1 e1 (s2 * B ^ j) (e2 - j) Hp Hs' Hpre) as (Hk & a & Ea & Ee & RQ).
  fold k in Hk, Ee, RQ. split; [exact Hj|]. split; [exact Hk|]. exists a. split; [exact Ea|]. split; [lia|].
  replace (Z.sgn (s2 * B ^ j)) with (Z.sgn s2) in RQ by (rewrite Z.sgn_mul, (Z.sgn_pos (B ^ j)) by lia; lia).
  rewrite Z.abs_mul, (Z.abs_eq (B ^ j)) in RQ by lia. exact RQ.
Qed.

(** a dividend within the old bound is divided as before *)
Theorem repr_div_fix_eq_old p m s1 e1 s2 e2 : 1 <= p -> dlen B s1 <= p + dlen B s2 ->
  repr_div_fix B p m s1 e1 s2 e2 = repr_div B p m s1 e1 s2 e2.
Proof.
  intros Hp Hpre. unfold repr_div_fix, div_scale. destruct (Z.eqb_spec p 0) as [|_]; [lia|].
  destruct (Z.gtb_spec (dlen B s1) (p + dlen B s2)); [lia | reflexivity].
Qed.

Theorem ctx_div_fix_eq_old digits_ub digits_lb p m s1 e1 s2 e2 : 1 <= p -> div_long_class B p s1 s2 = false ->
  ctx_div_fix B p m s1 e1 s2 e2 = ctx_div B digits_ub digits_lb p m s1 e1 s2 e2.
Proof.
  intros Hp Hc. unfold div_long_class in Hc. rewrite Z.gtb_ltb in Hc. apply Z.ltb_ge in Hc.
  rewrite (ctx_div_eq B) by exact Hc. apply repr_div_fix_eq_old; assumption.
Qed.

(** panics, in the order of the code: unlimited precision first, then the zero divisor *)
Theorem repr_div_fix_panics m s1 e1 s2 e2 p :
  repr_div_fix B 0 m s1 e1 s2 e2 = Panic UnlimitedPrecision /\
  (1 <= p -> repr_div_fix B p m s1 e1 0 e2 = Panic DivideBy0).
Proof.
  split; [reflexivity|]. intros Hp. unfold repr_div_fix, div_scale, shl_digits.
  destruct (Z.eqb_spec p 0) as [|_]; [lia|].
  destruct (dlen B s1 >? p + dlen B 0); [rewrite Z.mul_0_l|]; apply repr_div_by_zero; exact Hp.
Qed.

(** Context::inv and the FBig forms *)
Theorem ctx_inv_fix_eq p m s e : 1 <= p -> s <> 0 -> ctx_inv_fix B p m s e = ctx_inv B p m s e.
Proof.
  intros Hp Hs. unfold ctx_inv_fix, ctx_inv. apply repr_div_fix_eq_old; [exact Hp|].
  rewrite (dlen_one B B_ge_2). destruct (dlen_spec B B_ge_2 s Hs) as [_ G]. lia.
Qed.

(* ------------------------------------------------------------------------------------------- *)
(** * with every Repr::new: normal results, equal to the models above followed by one normalisation *)
Section WithEstimate.
Variable digits_ub : Z -> Z.

Theorem ctx_add_sub_fix_n_eq p m s1 e1 s2 e2 : is_normal B s1 e1 = true -> is_normal B s2 e2 = true ->
  ctx_add_fix_n B digits_ub p m s1 e1 s2 e2 = bind_approx (ctx_add_fix B digits_ub p m s1 e1 s2 e2) (norm_approx B) /\
  ctx_sub_fix_n B digits_ub p m s1 e1 s2 e2 = bind_approx (ctx_sub_fix B digits_ub p m s1 e1 s2 e2) (norm_approx B) /\
  result_normal B (ctx_add_fix_n B digits_ub p m s1 e1 s2 e2) /\ result_normal B (ctx_sub_fix_n B digits_ub p m s1 e1 s2 e2).
Proof.
  intros H1 H2.
  assert (D : forall sg, add_dispatch_fix_n B digits_ub p m s1 e1 s2 e2 sg =
                         bind_approx (add_dispatch_fix B digits_ub p m s1 e1 s2 e2 sg) (norm_approx B)).
  { intros sg. unfold add_dispatch_fix_n, add_dispatch_fix. destruct (e1 ?= e2); try reflexivity.
    pose proof (normalize_then_round_n B B_ge_2 p m (s1 + sgnz sg * s2) e1) as N.
    destruct (normalize B (s1 + sgnz sg * s2) e1). cbn [bind_approx]. rewrite N. reflexivity. }
  assert (EA : ctx_add_fix_n B digits_ub p m s1 e1 s2 e2 = bind_approx (ctx_add_fix B digits_ub p m s1 e1 s2 e2) (norm_approx B)).
  { unfold ctx_add_fix_n, ctx_add_fix. destruct (s1 =? 0); [cbn [bind_approx]; f_equal; apply (repr_round_n_eq B B_ge_2); exact H2|].
    destruct (s2 =? 0); [cbn [bind_approx]; f_equal; apply (repr_round_n_eq B B_ge_2); exact H1|]. apply D. }
  assert (ES : ctx_sub_fix_n B digits_ub p m s1 e1 s2 e2 = bind_approx (ctx_sub_fix B digits_ub p m s1 e1 s2 e2) (norm_approx B)).
  { unfold ctx_sub_fix_n, ctx_sub_fix.
    destruct (s1 =? 0); [cbn [bind_approx]; f_equal; apply (repr_round_n_eq B B_ge_2); apply (is_normal_opp B B_ge_2); exact H2|].
    destruct (s2 =? 0); [cbn [bind_approx]; f_equal; apply (repr_round_n_eq B B_ge_2); exact H1|]. apply D. }
  split; [exact EA|]. split; [exact ES|]. rewrite EA, ES.
  split; [destruct (ctx_add_fix B digits_ub p m s1 e1 s2 e2) | destruct (ctx_sub_fix B digits_ub p m s1 e1 s2 e2)];
    cbn [bind_approx result_normal]; auto; apply (norm_approx_normal B B_ge_2).
Qed.
End WithEstimate.

Theorem ctx_mul_fix_n_eq p m s1 e1 s2 e2 :
  ctx_mul_fix_n B p m s1 e1 s2 e2 = norm_approx B (ctx_mul_fix B p m s1 e1 s2 e2) /\
  ctx_sqr_fix_n B p m s1 e1 = norm_approx B (ctx_sqr_fix B p m s1 e1) /\
  ctx_cubic_fix_n B p m s1 e1 = norm_approx B (ctx_cubic_fix B p m s1 e1) /\
  approx_normal B (ctx_mul_fix_n B p m s1 e1 s2 e2) /\ approx_normal B (ctx_sqr_fix_n B p m s1 e1) /\
  approx_normal B (ctx_cubic_fix_n B p m s1 e1).
Proof.
  unfold ctx_mul_fix_n, ctx_mul_fix, ctx_sqr_fix_n, ctx_sqr_fix, ctx_cubic_fix_n, ctx_cubic_fix.
  repeat split; try apply (normalize_then_round_n B B_ge_2); apply (round_after_normalize_normal B B_ge_2).
Qed.

Theorem repr_div_fix_n_normal p m s1 e1 s2 e2 :
  result_normal B (repr_div_fix_n B p m s1 e1 s2 e2) /\ result_normal B (ctx_inv_fix_n B p m s2 e2).
Proof.
  assert (W : forall a b c d, result_normal B (repr_div_fix_n B p m a b c d)).
  { intros. unfold repr_div_fix_n, map_approx, result_normal. destruct (repr_div_fix B p m a b c d); auto.
    apply (norm_approx_normal B B_ge_2). }
  split; apply W.
Qed.

End FixMulDiv.

(** the witnesses of the former finding now get the rounding of the exact result: 149 * 1 = 1e2, 149 / 1 = 15e1
    (two digits kept, AddOne), 123^2 = 15129 -> 2e4, 1145^3 = 1501123625 -> 2e9 (one digit, ties to even) *)
Example muldiv_fix_witnesses :
  ctx_mul_fix 10 1 MHalfEven 149 0 1 0 = AInexact 1 2 NoOp /\
  repr_div_fix 10 1 MHalfEven 149 0 1 0 = Ok (AInexact 15 1 AddOne) /\
  ctx_sqr_fix 10 1 MHalfEven 123 0 = AInexact 2 4 AddOne /\
  ctx_cubic_fix 10 1 MHalfEven 1145 0 = AInexact 2 9 AddOne /\
  repr_div_fix 10 3 MHalfEven 12345678 0 7 0 = Ok (AInexact 176 4 NoOp) /\
  div_excess 10 3 12345678 7 = 4.
Proof. vm_compute. repeat split. Qed.
