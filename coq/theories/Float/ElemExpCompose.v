(** C11 round 5: the scaled branch of ElemAsis.exp_internal (Context::exp: minus_one = false), composed.

    exp_internal_scaled     exp_internal = the series part [exp_scaled_series] (argument at the working
                            precision, ln_base, div_rem_euclid, >> n, Maclaurin loop), then Context::powi
                            with the exponent B^n, then << q: a refactoring of the as-is model, by
                            computation.
    powi_pos_working_value  the working value of the powering (before its rounding to p digits)
    exp_scaled_asis_nearest_partial
                            the layers of ElemExpFinal.exp_nearest_1ulp_partial instantiated with the
                            theorems about the model: rounding of the argument (repr_round), exact
                            Euclidean reduction (ElemSeriesInst), EVERY addition of the loop
                            (ElemAddInst: piece (i)), the error of the series value from the stop
                            criterion (ElemSeriesErr + the contract of digits_lb), the powering
                            (ElemPowiSharp).  The error of ln_base enters as one number eL (piece (ii):
                            ElemLnBaseInst discharges it for B = 2, 10 and the powers of two).
                            What remains is numeric: the side conditions C1 - C5 in which the number of
                            series terms appears as the fuel the model was run with (piece (iii): that the
                            loops stop within a fuel satisfying C3 is the term-count inequality), and that
                            the series value is not an over-long operand of the powering (finding F07). *)
From Coq Require Import ZArith Reals Lra Lia Bool Psatz.
From Flocq Require Import Core.
From Dashu Require Import Base.Prelude Float.RoundSpec Float.RoundSpecProof Float.Contract Float.Model
  Float.ModelProof Float.AddModel Float.DivMulModel Float.ElemEncl Float.ElemEntryProof Float.ElemEnclProof
  Float.ElemF32 Float.ElemAsis Float.ElemParamsProof Float.ElemPowiProof Float.ElemPowiSharp Float.ElemExpGuard
  Float.ElemSeriesErr Float.ElemSeriesInst Float.ElemExpFinal Float.ElemAddInst Float.ElemAtanhErr Float.ElemLnBaseInst.
From DashuGen Require Import RoundTables ElemParams.
Open Scope Z_scope.

Section Compose.
Variable B : Z.
Hypothesis HB : 2 <= B.
Local Notation bp := (bpw B).
Local Notation fbv := (fbv B).
Local Notation uP := (uP B).
Context {F : Type} (O : f32ops F).
Variable W : Z.
Variable m : mode.

(** the working precision of the scaled branch *)
Definition exp_scaled_wp (p s e : Z) : Z :=
  let sgd := exp_series_guard_digits_gen O p B in
  let pgd := exp_pow_guard_digits_gen O p B in
  let magnitude := repr_log2_est O W B s e in
  let md := if f_ltb O (f_of_Z O 0) magnitude then exp_magnitude_digits_pos_gen O magnitude B else 0 in
  exp_work_precision_scaled_gen O p sgd pgd md.

(** the part of exp_internal (scaled branch) up to the value of the series: (quotient, sum) *)
Definition exp_scaled_series (fuel : nat) (p s e : Z) : result (Z * fbig) :=
  let wp := exp_scaled_wp p s e in
  let x := fb_of B (approx_val (repr_round B wp m s e)) wp in
  rbind (ln_base B O W fuel wp m) (fun logb =>
  rbind (fb_div_rem_euclid B m x logb) (fun qr =>
  let '(q, r) := qr in
  if (q <? - isize_max - 1) || (isize_max <? q) then Panic Undocumented
  else
    let r := fb_shr r (exp_n_gen O p) in
    rbind (exp_series_loop B O W fuel m r (fb_add_vr B m ONE r Positive) r 1 2) (fun sum => Ok (q, sum)))).

Theorem exp_internal_scaled fuel p s e : p <> 0 -> s <> 0 ->
  exp_internal B O W fuel p m s e false =
  rbind (exp_scaled_series fuel p s e) (fun qs =>
    rbind (powi_asis B p m (fsig (snd qs)) (fexp (snd qs)) (B ^ exp_n_gen O p)) (fun pw =>
    Ok (never_exact (approx_map pw (fun s' e' => shl_val s' e' (fst qs)))))).
Proof.
  intros Hp Hs. unfold exp_internal, exp_scaled_series, exp_scaled_wp.
  destruct (Z.eqb_spec p 0); [contradiction|]. destruct (Z.eqb_spec s 0); [contradiction|].
  cbv zeta. cbn [andb].
  destruct (ln_base B O W fuel _ m) as [logb| | |]; cbn [rbind]; try reflexivity.
  destruct (fb_div_rem_euclid B m _ logb) as [[q r]| | |]; cbn [rbind]; try reflexivity.
  destruct ((q <? - isize_max - 1) || (isize_max <? q)); cbn [rbind]; try reflexivity.
  destruct (exp_series_loop B O W fuel m _ _ _ 1 2) as [sum| | |]; cbn [rbind fst snd]; reflexivity.
Qed.

(* ------------------------------------------------------------------ helpers *)
Lemma aval_never_exact a : aval B (never_exact a) = aval B a.
Proof. destruct a; reflexivity. Qed.

Lemma is_exact_never_exact a : is_exact (never_exact a) = false.
Proof. destruct a; reflexivity. Qed.

Lemma aval_map_shl pw q : aval B (approx_map pw (fun s' e' => shl_val s' e' q)) = (aval B pw * bp q)%R.
Proof.
  destruct pw as [s' e'|s' e' r]; unfold approx_map; pose proof (fval_shl_val B HB s' e' q) as H;
    destruct (shl_val s' e' q) as [s2 e2]; unfold aval; cbn [approx_sig approx_exp]; exact H.
Qed.

Lemma fb_nonneg_sign x : (0 <= fbv x)%R -> 0 <= fsig x.
Proof.
  unfold ElemSeriesInst.fbv. rewrite (fval_bpw B). intros H. pose proof (bpw_pos B HB (fexp x)) as Hp.
  destruct (Z_lt_le_dec (fsig x) 0) as [L|L]; [|exact L]. apply IZR_lt in L. nra.
Qed.

Lemma fb_div_rem_euclid_prec x y q rf : fb_div_rem_euclid B m x y = Ok (q, rf) ->
  fprec rf = ctx_max (fprec x) (fprec y).
Proof.
  unfold fb_div_rem_euclid. destruct (fsig y =? 0); [discriminate|].
  destruct (if 0 <=? fexp x - fexp y then _ else _) as [num den]. intros E. injection E as _ <-.
  set (c := convert_int B (ctx_max (fprec x) (fprec y)) m (num mod Z.abs den)).
  assert (Hc : fprec c = ctx_max (fprec x) (fprec y)) by (unfold c, convert_int; destruct (normalize B _ 0); apply fprec_fb_of).
  destruct (fsig c =? 0); [exact Hc | cbn [fprec]; exact Hc].
Qed.

Lemma frac_mono t t' : (0 <= t <= t')%R -> (t' < 1)%R -> (t / (1 - t) <= t' / (1 - t'))%R.
Proof.
  intros [H0 H1] H2. apply (Rmult_le_reg_r (1 - t)); [lra|]. unfold Rdiv at 1. rewrite Rmult_assoc, Rinv_l by lra.
  apply (Rmult_le_reg_r (1 - t')); [lra|].
  replace (t' / (1 - t') * (1 - t) * (1 - t'))%R with (t' * (1 - t))%R by (field; lra). nra.
Qed.

(** from one inequality on the accumulated error to the window of ElemExpFinal.exp_nearest_1ulp_partial *)
Lemma theta_window a es dp d (N : nat) : (0 <= a)%R -> (0 <= es)%R -> (0 <= dp)%R -> (1 <= N)%nat ->
  (2 * (a + INR N * es) + dp <= d)%R -> (d <= 1)%R ->
  (1 - d <= exp (- a) * (1 - es) ^ N * (1 - dp))%R /\ (exp a * (1 + es) ^ N * (1 + dp) <= 1 + d)%R /\
  (es <= 1)%R /\ (dp <= 1)%R.
Proof.
  intros Ha He Hdp HN H Hd.
  assert (HN1 : (1 <= INR N)%R) by (replace 1%R with (INR 1) by reflexivity; apply le_INR; exact HN).
  set (Es := (INR N * es)%R) in *.
  assert (HEs : (es <= Es)%R) by (unfold Es; nra).
  assert (He1 : (es <= 1)%R) by nra. assert (Hdp1 : (dp <= 1)%R) by nra.
  pose proof (bernoulli_minus es He1 N) as Bm. pose proof (bernoulli_plus es He He1 N) as Bp. fold Es in Bm, Bp.
  pose proof (exp_ineq1_le (- a)) as E1.
  assert (Ea : (exp a * exp (- a) = 1)%R) by (rewrite <- exp_plus; replace (a + - a)%R with 0%R by ring; apply exp_0).
  pose proof (exp_pos a) as Xp. pose proof (exp_pos (- a)) as Xn.
  assert (P1 : (1 <= (1 + es) ^ N)%R) by (apply pow_R1_Rle; lra).
  assert (P0 : (0 <= (1 - es) ^ N)%R) by (apply pow_le; lra).
  assert (Hae : (a + Es <= / 2)%R) by lra.
  split; [|split; [|split; assumption]].
  - assert (L1 : ((1 - a) * (1 - Es) <= exp (- a) * (1 - es) ^ N)%R) by (apply Rmult_le_compat; lra).
    assert (L2 : ((1 - a) * (1 - Es) * (1 - dp) <= exp (- a) * (1 - es) ^ N * (1 - dp))%R) by (apply Rmult_le_compat_r; lra).
    assert (L3 : (1 - a - Es <= (1 - a) * (1 - Es))%R) by nra.
    assert (L4 : ((1 - a - Es) * (1 - dp) <= (1 - a) * (1 - Es) * (1 - dp))%R) by (apply Rmult_le_compat_r; lra).
    assert (L5 : (1 - a - Es - dp <= (1 - a - Es) * (1 - dp))%R) by nra.
    lra.
  - assert (U1 : (exp a * (1 - a) <= 1)%R) by nra.
    assert (U2 : (exp a * (1 + es) ^ N * ((1 - a) * (1 - Es)) <= 1)%R).
    { replace (exp a * (1 + es) ^ N * ((1 - a) * (1 - Es)))%R with ((exp a * (1 - a)) * ((1 + es) ^ N * (1 - Es)))%R by ring.
      assert (0 <= exp a * (1 - a))%R by (apply Rmult_le_pos; lra).
      assert (0 <= (1 + es) ^ N * (1 - Es))%R by (apply Rmult_le_pos; lra). nra. }
    assert (Hq : (0 < (1 - a) * (1 - Es))%R) by (apply Rmult_lt_0_compat; lra).
    assert (Hk : (1 + dp <= (1 + d) * ((1 - a) * (1 - Es)))%R).
    { assert (L3 : (1 - a - Es <= (1 - a) * (1 - Es))%R) by nra.
      assert (0 <= d)%R by nra.
      assert (L4 : ((1 + d) * (1 - a - Es) <= (1 + d) * ((1 - a) * (1 - Es)))%R) by (apply Rmult_le_compat_l; lra).
      assert (L5 : ((1 + d) * (a + Es) <= 2 * (a + Es))%R) by nra.
      lra. }
    set (XY := (exp a * (1 + es) ^ N)%R) in *. assert (0 < XY)%R by (unfold XY; apply Rmult_lt_0_compat; lra).
    set (Q := ((1 - a) * (1 - Es))%R) in *.
    assert (XY * (1 + dp) <= XY * ((1 + d) * Q))%R by (apply Rmult_le_compat_l; lra).
    nra.
Qed.

(* ------------------------------------------------------------------ the composed theorem *)
Hypothesis usize_nonneg : forall x, 0 <= f_to_usize O x.
Hypothesis digits_lb_ok : forall s, digits_lb O W B s <= dlen B s.
Hypothesis Hm : is_half_mode m = true.

Lemma exp_n_ge1 p : 1 <= exp_n_gen O p.
Proof.
  unfold exp_n_gen. rewrite Z.mul_1_l. pose proof (Z.div_pos (bit_len p) 2 (bit_len_nonneg p) ltac:(lia)).
  pose proof (Z.pow_pos_nonneg 2 (bit_len p / 2) ltac:(lia) H). lia.
Qed.

Lemma exp_scaled_wp_ge p s e : 1 <= p -> p + exp_n_gen O p + 2 <= exp_scaled_wp p s e.
Proof.
  intros Hp. unfold exp_scaled_wp. cbv zeta.
  set (md := if f_ltb O (f_of_Z O 0) (repr_log2_est O W B s e) then exp_magnitude_digits_pos_gen O (repr_log2_est O W B s e) B else 0).
  assert (Hmd : 0 <= md).
  { unfold md. destruct (f_ltb O _ _); [|lia]. unfold exp_magnitude_digits_pos_gen.
    pose proof (usize_nonneg (f_div O (repr_log2_est O W B s e) (uint_log2_est O B))). lia. }
  pose proof (exp_scaled_work_precision_condition O usize_nonneg p B md Hmd) as [_ H]. cbv zeta in H. lia.
Qed.

Theorem exp_scaled_asis_nearest_partial fuel p s e a (eL d : R) :
  1 <= p -> s <> 0 ->
  exp_internal B O W fuel p m s e false = Ok a ->
  let x := fval B s e in
  let wp := exp_scaled_wp p s e in
  let n := exp_n_gen O p in
  let N := B ^ n in
  let wp' := powi_work_precision p N in
  let u := uP wp in
  let u' := uP wp' in
  let lnB := ln (IZR B) in
  (* piece (ii): the error of ln_base at the working precision *)
  (forall logb, ln_base B O W fuel wp m = Ok logb -> RD eL lnB (fbv logb) /\ wp <= fprec logb) ->
  (0 <= eL < 1)%R ->
  (* the series value is not an over-long operand of the powering (class of finding F07) *)
  (forall q sum, exp_scaled_series fuel p s e = Ok (q, sum) -> dlen B (fsig sum) <= 2 * wp') ->
  (* numeric side conditions; the number of series terms is at most the fuel *)
  let y := (INR (S fuel) * u)%R in
  let es := ((y + 2 * u) / (1 - y - 2 * u))%R in
  let dp := (IZR (N - 1) * u' / (1 - IZR (N - 1) * u'))%R in
  let qmax := (Rabs x * (1 + u) / (lnB * (1 - eL)) + 1)%R in
  let a_ := (u * Rabs x + qmax * (eL * lnB) + u * (lnB * (1 + eL)))%R in
  (y + 2 * u < 1)%R -> (IZR (N - 1) * u' < 1)%R ->
  (2 * (a_ + IZR N * es) + dp <= d)%R -> (d <= 1)%R -> (2 * d * IZR (B ^ p) <= 1)%R ->
  (lnB * (1 + eL) * (1 + u) * 2 <= IZR N)%R ->
  is_exact a = false /\
  exists E, (bp E <= Rabs (exp x))%R /\ (Rabs (aval B a - exp x) < bp (E - p + 1))%R.
Proof.
  intros Hp Hs E x wp n N wp' u u' lnB HLB HeL Hlong y es dp qmax a_ C1 C2 C3 Cd C4 C5.
  rewrite (exp_internal_scaled fuel p s e ltac:(lia) Hs) in E.
  destruct (exp_scaled_series fuel p s e) as [[q sum]| | |] eqn:ES; try discriminate. cbn [rbind fst snd] in E.
  specialize (Hlong q sum eq_refl).
  (* --- the series part *)
  unfold exp_scaled_series in ES. fold wp n in ES. cbv zeta in ES.
  pose proof (exp_scaled_wp_ge p s e Hp) as Hwpge. fold wp n in Hwpge. pose proof (exp_n_ge1 p) as Hn1. fold n in Hn1.
  assert (Hwp : 1 <= wp) by lia.
  pose proof (uP_pos B HB wp Hwp) as Hu. fold u in Hu.
  assert (Hu1 : (u <= / 2)%R) by (apply (uP_half B HB wp Hwp)).
  set (x' := fb_of B (approx_val (repr_round B wp m s e)) wp) in *.
  assert (Hx' : exists thx, fbv x' = (x * thx)%R /\ (Rabs (thx - 1) <= u)%R).
  { unfold x'. rewrite (fbv_fb_of B HB). destruct (repr_round_rel B HB wp m s e Hwp Hm) as (th & Eth & Hth).
    exists th. unfold approx_val. cbn [fst snd]. fold (aval B (repr_round B wp m s e)). split; [exact Eth|].
    apply (rel_to_u B HB wp Hwp). exact Hth. }
  destruct Hx' as (thx & Ex' & Hthx).
  assert (Hpx' : fprec x' = wp) by (unfold x'; apply fprec_fb_of).
  destruct (ln_base B O W fuel wp m) as [logb| | |] eqn:EL; try discriminate. cbn [rbind] in ES.
  destruct (HLB logb eq_refl) as (RL & HpL).
  assert (HlnB : (0 < lnB)%R) by (unfold lnB; rewrite <- ln_1; apply ln_increasing; [lra | apply IZR_lt; lia]).
  pose proof (RD_pos eL lnB (fbv logb) HlnB ltac:(lra) RL) as HLpos.
  pose proof (fb_sign_pos B HB logb HLpos) as HLs.
  assert (Hcm : wp <= ctx_max (fprec x') (fprec logb)) by (unfold ctx_max; destruct (Z.gtb_spec (fprec x') (fprec logb)); lia).
  destruct (fb_div_rem_euclid_spec B HB m x' logb Hm ltac:(lia) HLs) as (q0 & rf & Eqr & r0 & thr & Eeu & Hr0 & Erf & Hthr).
  rewrite Eqr in ES. cbn [rbind] in ES.
  destruct ((q0 <? - isize_max - 1) || (isize_max <? q0)); [discriminate|].
  destruct (exp_series_loop B O W fuel m (fb_shr rf n) (fb_add_vr B m ONE (fb_shr rf n) Positive) (fb_shr rf n) 1 2) as [sum0| | |] eqn:Eloop; try discriminate.
  cbn [rbind] in ES. injection ES as -> ->.
  assert (Hthr' : (Rabs (thr - 1) <= u)%R) by (eapply Rle_trans; [exact Hthr | apply (uP_antitone B HB); lia]).
  pose proof (fb_div_rem_euclid_prec x' logb q rf Eqr) as Hprf.
  set (r := fb_shr rf n) in *.
  assert (Hrv : fbv r = (fbv rf * bp (- n))%R) by apply (fb_shr_val B HB).
  assert (Hrprec : wp <= fprec r) by (unfold r, fb_shr; destruct (fsig rf =? 0); cbn [fprec]; lia).
  assert (Hthrpos : (0 < thr)%R) by (apply Rabs_le_inv in Hthr'; lra).
  assert (Hrf0 : (0 <= fbv rf)%R) by (rewrite Erf; apply Rmult_le_pos; lra).
  assert (Hrsig : 0 <= fsig r).
  { unfold r, fb_shr. pose proof (fb_nonneg_sign rf Hrf0). destruct (fsig rf =? 0); cbn [fsig]; lia. }
  (* L and its bounds *)
  destruct RL as (thL & EL' & HthL). apply Rabs_le_inv in HthL.
  set (L := fbv logb) in *.
  assert (HLub : (L <= lnB * (1 + eL))%R) by (rewrite EL'; apply Rmult_le_compat_l; lra).
  assert (HLlb : (lnB * (1 - eL) <= L)%R) by (rewrite EL'; apply Rmult_le_compat_l; lra).
  (* B^n as a real and as a nat *)
  assert (Hn0 : 0 <= n) by lia.
  assert (HNpos : 2 <= N).
  { unfold N. assert (B ^ 1 <= B ^ n) by (apply Z.pow_le_mono_r; lia). rewrite Z.pow_1_r in H. lia. }
  assert (HbN : bp n = IZR N) by (unfold N; symmetry; apply (IZR_Bpow B n Hn0)).
  assert (HbNn : (bp (- n) = / IZR N)%R) by (rewrite (bpw_neg B HB), HbN; reflexivity).
  assert (HNr : (2 <= IZR N)%R) by (apply IZR_le; exact HNpos).
  (* rho <= 1/2 *)
  assert (Hhalf : (fbv r <= / 2)%R).
  { rewrite Hrv, Erf, HbNn. apply Rabs_le_inv in Hthr'.
    assert (r0 * thr <= lnB * (1 + eL) * (1 + u))%R.
    { apply Rmult_le_compat; lra. }
    apply (Rmult_le_reg_r (IZR N)); [lra|]. rewrite Rmult_assoc, Rinv_l by lra. lra. }
  (* the series *)
  destruct (exp_series_asis_error B HB O W m Hm wp Hwp r Hrprec Hrsig fuel sum Hhalf Eloop)
    as (Hsprec & Hspos & K & HK1 & HK2 & Herr).
  set (yK := (INR (S K) * u)%R).
  assert (HyK : (0 <= yK <= y)%R).
  { unfold yK, y. split; [pose proof (pos_INR (S K)); nra|]. apply Rmult_le_compat_r; [lra|]. apply le_INR. lia. }
  assert (HyK1 : (INR (S K) * uP wp < 1)%R) by (change (yK < 1)%R; lra).
  specialize (Herr HyK1). change (INR (S K) * uP wp)%R with yK in Herr.
  assert (Hsnz : fsig sum <> 0).
  { intros Z0. assert (fbv sum = 0%R) by (unfold ElemSeriesInst.fbv; rewrite Z0; apply fval_0). lra. }
  pose proof (sub_ulp_le_rel B HB O W m Hm digits_lb_ok sum ltac:(lia) Hsnz) as Hthrs.
  assert (Hus : (uP (fprec sum) <= u)%R) by (apply (uP_antitone B HB); lia).
  assert (HRDs : RD ((yK + 2 * u) / (1 - yK - 2 * u)) (exp (fbv r)) (fbv sum)).
  { apply abs_err_to_RD; try lra; [apply exp_pos|].
    pose proof (Rabs_pos (fbv sum)). pose proof (uP_pos B HB (fprec sum) ltac:(lia)).
    assert (bp (sub_ulp_exp B O W sum) <= u * Rabs (fbv sum))%R by (eapply Rle_trans; [exact Hthrs | apply Rmult_le_compat_r; lra]).
    lra. }
  assert (Hes : ((yK + 2 * u) / (1 - yK - 2 * u) <= es)%R).
  { unfold es. replace (1 - yK - 2 * u)%R with (1 - (yK + 2 * u))%R by ring. replace (1 - y - 2 * u)%R with (1 - (y + 2 * u))%R by ring.
    apply frac_mono; lra. }
  apply (RD_weaken _ es _ _ Hes) in HRDs. destruct HRDs as (ths & Eths & Hths).
  assert (Hes0 : (0 <= es)%R).
  { unfold es. apply Rmult_le_pos; [unfold y; pose proof (pos_INR (S fuel)); nra | left; apply Rinv_0_lt_compat; lra]. }
  (* --- the powering *)
  unfold powi_asis in E. change (B ^ exp_n_gen O p) with N in E. destruct (Z.ltb_spec N 0) as [Hneg|_]; [lia|].
  cbn [rbind] in E. injection E as <-.
  assert (Hpw : p < wp') by (apply (powi_work_precision_gt p N Hp HNpos)).
  assert (Hwp' : 1 <= wp') by lia.
  unfold powi_pos. destruct (Z.eqb_spec N 0) as [|_]; [lia|]. destruct (Z.eqb_spec N 1) as [|_]; [lia|]. fold wp'.
  pose proof (powi_loop_result1 B HB wp' Hwp' m (fsig sum) (fexp sum) Hlong N HNpos) as (_ & _ & Rel). specialize (Rel Hm).
  set (res := powi_loop B wp' m (fsig sum) (fexp sum) N (Z.to_nat (bit_len N - 2)) (c_sqr B wp' m (fsig sum) (fexp sum))) in *.
  split; [apply is_exact_never_exact|].
  rewrite aval_never_exact, aval_map_shl, (aval_and_then B), (with_precision_round B wp' p m _ _ Hpw).
  set (sv := approx_sig res) in *. set (ev := approx_exp res) in *.
  set (Nn := Z.to_nat N) in *.
  assert (HNn : INR Nn = IZR N) by (unfold Nn; rewrite INR_IZR_INZ, Z2Nat.id by lia; reflexivity).
  assert (Hc : INR (Z.to_nat (N - 1)) = IZR (N - 1)) by (rewrite INR_IZR_INZ, Z2Nat.id by lia; reflexivity).
  destruct (u_bounds B HB wp' Hwp') as [u0' u1']. fold (ElemSeriesInst.uP B wp') in u0', u1'. fold u' in u0', u1'.
  pose proof (RA_to_RD u' (Z.to_nat (N - 1)) _ _ u0' u1' ltac:(rewrite Hc; exact C2) Rel) as RDp. rewrite Hc in RDp. fold dp in RDp.
  destruct RDp as (thp & Ethp & Hthp). fold (ElemSeriesInst.fbv B sum) in Ethp. fold Nn in Ethp.
  assert (Hdp0 : (0 <= dp)%R).
  { unfold dp. assert (0 <= IZR (N - 1))%R by (apply IZR_le; lia). apply Rmult_le_pos; [nra | left; apply Rinv_0_lt_compat; lra]. }
  (* --- the accumulated argument error *)
  assert (Hxabs : (Rabs (fbv x' - x) <= u * Rabs x)%R).
  { rewrite Ex'. replace (x * thx - x)%R with (x * (thx - 1))%R by ring. rewrite Rabs_mult. pose proof (Rabs_pos x). nra. }
  assert (HLabs : (Rabs (L - lnB) <= eL * lnB)%R).
  { rewrite EL'. replace (lnB * thL - lnB)%R with (lnB * (thL - 1))%R by ring. rewrite Rabs_mult, (Rabs_pos_eq lnB) by lra.
    assert (Rabs (thL - 1) <= eL)%R by (apply Rabs_le; lra). nra. }
  assert (Hrabs : (Rabs (fbv rf - r0) <= u * (lnB * (1 + eL)))%R).
  { rewrite Erf. replace (r0 * thr - r0)%R with (r0 * (thr - 1))%R by ring. rewrite Rabs_mult, (Rabs_pos_eq r0) by lra.
    pose proof (Rabs_pos (thr - 1)). nra. }
  assert (Hqabs : (Rabs (IZR q) <= qmax)%R).
  { assert (HLp : (0 < lnB * (1 - eL))%R) by (apply Rmult_lt_0_compat; lra).
    assert (Eq : IZR q = ((fbv x' - r0) / L)%R) by (rewrite Eeu; field; lra).
    rewrite Eq. unfold Rdiv. rewrite Rabs_mult, Rabs_inv, (Rabs_pos_eq L) by lra.
    assert (Rabs (fbv x' - r0) <= Rabs x * (1 + u) + L)%R.
    { eapply Rle_trans; [apply Rabs_triang|]. rewrite Rabs_Ropp, (Rabs_pos_eq r0) by lra.
      rewrite Ex', Rabs_mult. apply Rabs_le_inv in Hthx. rewrite (Rabs_pos_eq thx) by lra. pose proof (Rabs_pos x). nra. }
    unfold qmax. apply (Rmult_le_reg_r L); [lra|]. rewrite Rmult_assoc, Rinv_l by lra.
    assert (Rabs x * (1 + u) / (lnB * (1 - eL)) * (lnB * (1 - eL)) = Rabs x * (1 + u))%R by (field; lra).
    assert (0 <= Rabs x * (1 + u) / (lnB * (1 - eL)))%R.
    { apply Rmult_le_pos; [pose proof (Rabs_pos x); nra | left; apply Rinv_0_lt_compat; lra]. }
    nra. }
  assert (Harg : (Rabs ((fbv x' - x) - IZR q * (L - lnB) + (fbv rf - r0)) <= a_)%R).
  { assert (T3 : forall A Q C : R, (Rabs (A - Q + C) <= Rabs A + Rabs Q + Rabs C)%R).
    { intros A Q C. eapply Rle_trans; [apply Rabs_triang|]. apply Rplus_le_compat_r.
      unfold Rminus. eapply Rle_trans; [apply Rabs_triang|]. rewrite Rabs_Ropp. lra. }
    eapply Rle_trans; [apply T3|]. rewrite Rabs_mult. unfold a_.
    assert (Rabs (IZR q) * Rabs (L - lnB) <= qmax * (eL * lnB))%R.
    { apply Rmult_le_compat; try apply Rabs_pos; assumption. }
    lra. }
  (* --- the window *)
  assert (Ha0 : (0 <= a_)%R) by (eapply Rle_trans; [apply Rabs_pos | exact Harg]).
  assert (HNn1 : (1 <= Nn)%nat) by (unfold Nn; lia).
  destruct (theta_window a_ es dp d Nn Ha0 Hes0 Hdp0 HNn1 ltac:(rewrite HNn; exact C3) Cd) as (Wlo & Whi & Hes1 & Hdp1).
  assert (Hd0 : (0 <= d)%R) by (pose proof (pos_INR Nn); nra).
  pose proof (exp_nearest_1ulp_partial B HB p m sv ev q Nn x (fbv x') L r0 (fbv rf) (fbv r) ths thp (fbv sum) a_ es dp d
                Hp Hm Eeu ltac:(rewrite Hrv, HNn, HbNn; field; lra) Eths Ethp Harg Hths Hes1 Hthp Hdp1 Hd0 Wlo Whi C4) as Fin.
  cbv zeta in Fin. pose proof (fval_shl_val B HB (approx_sig (c_repr_round B p m sv ev)) (approx_exp (c_repr_round B p m sv ev)) q) as Hsh.
  destruct (shl_val (approx_sig (c_repr_round B p m sv ev)) (approx_exp (c_repr_round B p m sv ev)) q) as [s2 e2].
  rewrite Hsh in Fin. exact Fin.
Qed.

(** base 2: piece (ii) discharged by ElemLnBaseInst (ln 2 = 4 atanh(1/6) + 2 atanh(1/99), the iacoth series) *)
Theorem exp_scaled_asis_nearest_base2_partial fuel p s e a (d : R) :
  B = 2 -> 1 <= p -> s <> 0 ->
  exp_internal B O W fuel p m s e false = Ok a ->
  let x := fval B s e in
  let wp := exp_scaled_wp p s e in
  let n := exp_n_gen O p in
  let N := B ^ n in
  let wp' := powi_work_precision p N in
  let u := uP wp in
  let u' := uP wp' in
  let lnB := ln (IZR B) in
  let uL := uP (iacoth_wp B O wp) in
  let eL := rstep uL (rstep uL (iacoth_rel uL fuel)) in
  (INR (10 * fuel + 16) * uL + 2 * uL < 1)%R -> (rstep uL (iacoth_rel uL fuel) < 1)%R -> (eL < 1)%R ->
  (forall q sum, exp_scaled_series fuel p s e = Ok (q, sum) -> dlen B (fsig sum) <= 2 * wp') ->
  let y := (INR (S fuel) * u)%R in
  let es := ((y + 2 * u) / (1 - y - 2 * u))%R in
  let dp := (IZR (N - 1) * u' / (1 - IZR (N - 1) * u'))%R in
  let qmax := (Rabs x * (1 + u) / (lnB * (1 - eL)) + 1)%R in
  let a_ := (u * Rabs x + qmax * (eL * lnB) + u * (lnB * (1 + eL)))%R in
  (y + 2 * u < 1)%R -> (IZR (N - 1) * u' < 1)%R ->
  (2 * (a_ + IZR N * es) + dp <= d)%R -> (d <= 1)%R -> (2 * d * IZR (B ^ p) <= 1)%R ->
  (lnB * (1 + eL) * (1 + u) * 2 <= IZR N)%R ->
  is_exact a = false /\
  exists E, (bp E <= Rabs (exp x))%R /\ (Rabs (aval B a - exp x) < bp (E - p + 1))%R.
Proof.
  intros E2 Hp Hs E x wp n N wp' u u' lnB uL eL L1 L2 L3 Hlong y es dp qmax a_ C1 C2 C3 Cd C4 C5.
  pose proof (exp_scaled_wp_ge p s e Hp) as Hwpge. fold wp in Hwpge. pose proof (exp_n_ge1 p) as Hn1.
  assert (Hwp : 1 <= wp) by lia.
  pose proof (iacoth_wp_ge B O usize_nonneg m Hm wp Hwp) as HwL.
  pose proof (uP_pos B HB (iacoth_wp B O wp) ltac:(lia)) as HuL. fold uL in HuL.
  assert (He0 : (0 <= iacoth_rel uL fuel)%R) by (apply iacoth_rel_nonneg; lra).
  assert (HeL0 : (0 <= eL)%R) by (unfold eL, rstep; nra).
  apply (exp_scaled_asis_nearest_partial fuel p s e a eL d Hp Hs E); try assumption; [|lra].
  intros logb EL.
  destruct (ln_base2_asis_rel_fuel B HB O W usize_nonneg m Hm digits_lb_ok fuel wp logb E2 Hwp EL L1 L2) as (R & Hprec).
  split; [exact R | lia].
Qed.

End Compose.

(* ------------------------------------------------------------------ non-vacuity *)
(** an estimate layer for the example: every logarithm is estimated as 0 (a valid lower bound, so that
    digits_lb = 0 <= the number of digits), every quotient / product of estimates as 20 (generous guard
    digits).  exp(1) in base 2 at 64 bits, fuel 80: every hypothesis of the theorem holds. *)
Definition toy_f32 : f32ops Z :=
  mk_f32ops Z (fun _ => 0) (fun _ => 0) (fun _ _ => 0) (fun _ _ => 0) (fun _ _ => 20) (fun _ _ => 20) (fun _ => 0)
    (fun _ _ => false) (fun v => Z.max 0 v) (fun v => v) (fun v => v) (fun v => v) 0 0 0.

Lemma toy_usize : forall x, 0 <= f_to_usize toy_f32 x.
Proof. intros x. cbn [f_to_usize toy_f32]. lia. Qed.

Lemma toy_digits_lb : forall s, digits_lb toy_f32 64 2 s <= dlen 2 s.
Proof.
  intros s. unfold digits_lb. destruct (Z.eqb_spec s 0) as [->|Hs]; [vm_compute; discriminate|].
  change (2 =? 2) with true. cbv iota.
  destruct (dlen_spec 2 ltac:(lia) s Hs) as [[_ U] L1].
  unfold ubig_log2_bounds. destruct (Z.ltb_spec (Z.abs s) (2 ^ (2 * 64))) as [Sm|Lg].
  - assert (E : fst (uint_log2_bounds toy_f32 (Z.abs s)) = 0).
    { unfold uint_log2_bounds. destruct (Z.abs s =? 0); [reflexivity|]. destruct (is_pow2 (Z.abs s)); [reflexivity|].
      destruct (Z.log2 (Z.abs s) + 1 <=? 24); reflexivity. }
    rewrite E. cbn [f_to_usize toy_f32]. lia.
  - destruct (uint_log2_bounds toy_f32 _) as [hl hu]. cbn [fst f_mul f_to_usize toy_f32].
    assert (2 ^ (2 * 64) < 2 ^ dlen 2 s) by lia.
    apply Z.pow_lt_mono_r_iff in H; lia.
Qed.

Lemma inv_pow2_add a b : 0 <= a -> 0 <= b -> (/ IZR (2 ^ (a + b)) = / IZR (2 ^ a) * / IZR (2 ^ b))%R.
Proof. intros Ha Hb. rewrite Z.pow_add_r, mult_IZR, Rinv_mult by assumption. reflexivity. Qed.

Lemma small_frac t : (0 <= t <= / 2)%R -> (t / (1 - t) <= 2 * t)%R.
Proof.
  intros [H0 H1]. apply (Rmult_le_reg_r (1 - t)); [lra|]. unfold Rdiv. rewrite Rmult_assoc, Rinv_l by lra. nra.
Qed.

Lemma ln_le' x y : (0 < x)%R -> (x <= y)%R -> (ln x <= ln y)%R.
Proof. intros Hx [H|H]; [left; apply ln_increasing; assumption | rewrite H; lra]. Qed.

Lemma ln2_bounds : (/ 2 <= ln 2 <= 1)%R.
Proof.
  split.
  - rewrite <- (ln_exp (/ 2)). apply ln_le'; [apply exp_pos|].
    pose proof (exp_ineq1_le (- / 2)) as H. pose proof (exp_pos (/ 2)) as Hp.
    assert (E : (exp (/ 2) * exp (- / 2) = 1)%R) by (rewrite <- exp_plus; replace (/ 2 + - / 2)%R with 0%R by lra; apply exp_0).
    nra.
  - apply Rle_trans with (ln (exp 1)); [|rewrite ln_exp; lra]. apply ln_le'; [lra|]. pose proof (exp_ineq1_le 1). lra.
Qed.

Example exp_scaled_asis_nearest_example :
  exp_internal 2 toy_f32 64 80 64 MHalfEven 1 0 false = Ok (AInexact 12535862302449814171 (-62) AddOne) /\
  exists E, (bpw 2 E <= Rabs (exp (fval 2 1 0)))%R /\
            (Rabs (aval 2 (AInexact 12535862302449814171 (-62) AddOne) - exp (fval 2 1 0)) < bpw 2 (E - 64 + 1))%R.
Proof.
  assert (Run : exp_internal 2 toy_f32 64 80 64 MHalfEven 1 0 false = Ok (AInexact 12535862302449814171 (-62) AddOne))
    by (vm_compute; reflexivity).
  split; [exact Run|].
  pose proof (exp_scaled_asis_nearest_base2_partial 2 ltac:(lia) toy_f32 64 MHalfEven toy_usize toy_digits_lb eq_refl
                80 64 1 0 _ (/ IZR (2 ^ 65)) eq_refl ltac:(lia) ltac:(lia) Run) as T.
  cbv zeta in T.
  replace (exp_scaled_wp 2 toy_f32 64 64 1 0) with 114 in T by (vm_compute; reflexivity).
  replace (iacoth_wp 2 toy_f32 114) with 136 in T by (vm_compute; reflexivity).
  replace (exp_n_gen toy_f32 64) with 8 in T by (vm_compute; reflexivity).
  replace (powi_work_precision 64 (2 ^ 8)) with 80 in T by (vm_compute; reflexivity).
  unfold ElemSeriesInst.uP in T.
  replace (2 * 2 ^ (114 - 1)) with (2 ^ 114) in T by (vm_compute; reflexivity).
  replace (2 * 2 ^ (136 - 1)) with (2 ^ 136) in T by (vm_compute; reflexivity).
  replace (2 * 2 ^ (80 - 1)) with (2 ^ 80) in T by (vm_compute; reflexivity).
  replace (2 ^ 8 - 1) with 255 in T by (vm_compute; reflexivity). replace (2 ^ 8) with 256 in T by (vm_compute; reflexivity).
  rewrite !INR_IZR_INZ in T.
  replace (Z.of_nat (10 * 80 + 16)) with 816 in T by (vm_compute; reflexivity).
  replace (Z.of_nat 81) with 81 in T by (vm_compute; reflexivity).
  rewrite fval_1_0, Rabs_R1 in T.
  set (u := (/ IZR (2 ^ 114))%R) in *. set (uL := (/ IZR (2 ^ 136))%R) in *. set (u' := (/ IZR (2 ^ 80))%R) in *.
  pose proof ln2_bounds as [Ll Lu].
  assert (Hu : (u = / IZR (2 ^ 114))%R) by reflexivity. assert (HuL : (uL = / IZR (2 ^ 136))%R) by reflexivity.
  assert (Hu' : (u' = / IZR (2 ^ 80))%R) by reflexivity.
  assert (Pu : (0 < u)%R) by (unfold u; apply Rinv_0_lt_compat, IZR_lt; reflexivity).
  assert (PuL : (0 < uL)%R) by (unfold uL; apply Rinv_0_lt_compat, IZR_lt; reflexivity).
  assert (Pu' : (0 < u')%R) by (unfold u'; apply Rinv_0_lt_compat, IZR_lt; reflexivity).
  assert (Bu : (u <= / IZR (2 ^ 100))%R) by (unfold u; apply Rinv_le_contravar; [apply IZR_lt; reflexivity | apply IZR_le; vm_compute; discriminate]).
  assert (BuL : (uL <= / IZR (2 ^ 130))%R) by (unfold uL; apply Rinv_le_contravar; [apply IZR_lt; reflexivity | apply IZR_le; vm_compute; discriminate]).
  assert (Bu' : (u' <= / IZR (2 ^ 80))%R) by (unfold u'; lra).
  assert (K100 : (/ IZR (2 ^ 100) <= / IZR (2 ^ 90))%R) by (apply Rinv_le_contravar; [apply IZR_lt; reflexivity | apply IZR_le; vm_compute; discriminate]).
  assert (K130 : (/ IZR (2 ^ 130) <= / IZR (2 ^ 100))%R) by (apply Rinv_le_contravar; [apply IZR_lt; reflexivity | apply IZR_le; vm_compute; discriminate]).
  assert (E80 : (/ IZR (2 ^ 80) = / IZR (2 ^ 65) * / 32768)%R).
  { replace 80 with (65 + 15) by reflexivity. rewrite (inv_pow2_add 65 15) by lia. reflexivity. }
  assert (E90 : (/ IZR (2 ^ 90) = / IZR (2 ^ 80) * / 1024)%R).
  { replace 90 with (80 + 10) by reflexivity. rewrite (inv_pow2_add 80 10) by lia. reflexivity. }
  assert (Pd : (0 < / IZR (2 ^ 65))%R) by (apply Rinv_0_lt_compat, IZR_lt; reflexivity).
  assert (P90 : (0 < / IZR (2 ^ 90))%R) by (apply Rinv_0_lt_compat, IZR_lt; reflexivity).
  assert (P80 : (0 < / IZR (2 ^ 80))%R) by (apply Rinv_0_lt_compat, IZR_lt; reflexivity).
  assert (S90 : (/ IZR (2 ^ 90) <= / 1048576)%R) by (apply Rinv_le_contravar; [lra | apply IZR_le; vm_compute; discriminate]).
  set (e90 := (/ IZR (2 ^ 90))%R) in *. set (e80 := (/ IZR (2 ^ 80))%R) in *. set (dd := (/ IZR (2 ^ 65))%R) in *.
  (* the error of ln_base *)
  set (tL := (816 * uL + 2 * uL)%R) in *.
  assert (HtL : (0 <= tL <= 1024 * e90)%R) by (unfold tL; lra).
  assert (Hr1 : (0 <= iacoth_rel uL 80 <= 2048 * e90)%R).
  { unfold iacoth_rel. rewrite INR_IZR_INZ. change (Z.of_nat (10 * 80 + 16)) with 816. fold tL.
    replace (1 - 816 * uL - 2 * uL)%R with (1 - tL)%R by (unfold tL; ring). split.
    - apply Rmult_le_pos; [lra | left; apply Rinv_0_lt_compat; lra].
    - eapply Rle_trans; [apply small_frac; lra | lra]. }
  set (r1 := iacoth_rel uL 80) in *.
  assert (Hr2 : (0 <= rstep uL r1 <= 4096 * e90)%R) by (unfold rstep; split; nra).
  set (r2 := rstep uL r1) in *.
  assert (HeL : (0 <= rstep uL r2 <= 8192 * e90)%R) by (unfold rstep; split; nra).
  set (eL := rstep uL r2) in *.
  (* the series, the powering *)
  set (t := (81 * u + 2 * u)%R) in *.
  assert (Ht : (0 <= t <= 128 * e90)%R) by (unfold t; lra).
  set (es := (t / (1 - 81 * u - 2 * u))%R) in *.
  assert (Hes : (0 <= es <= 256 * e90)%R).
  { unfold es. replace (1 - 81 * u - 2 * u)%R with (1 - t)%R by (unfold t; ring). split.
    - apply Rmult_le_pos; [lra | left; apply Rinv_0_lt_compat; lra].
    - eapply Rle_trans; [apply small_frac; lra | lra]. }
  set (dp := (255 * u' / (1 - 255 * u'))%R) in *.
  assert (Hdp : (0 <= dp <= 512 * e80)%R).
  { unfold dp. assert (255 * u' <= / 2)%R by lra. split.
    - apply Rmult_le_pos; [lra | left; apply Rinv_0_lt_compat; lra].
    - eapply Rle_trans; [apply small_frac; lra | lra]. }
  set (qmax := (1 * (1 + u) / (ln 2 * (1 - eL)) + 1)%R) in *.
  assert (Hq : (0 <= qmax <= 6)%R).
  { unfold qmax. assert (HD : (/ 4 <= ln 2 * (1 - eL))%R) by nra.
    assert (HI : (0 < / (ln 2 * (1 - eL)) <= 4)%R).
    { split; [apply Rinv_0_lt_compat; lra|]. rewrite <- (Rinv_inv 4). apply Rinv_le_contravar; lra. }
    unfold Rdiv. nra. }
  rewrite fval_1_0.
  apply (fun c1 c2 c3 c4 c5 c6 c7 c8 c9 c10 => proj2 (T c1 c2 c3 c4 c5 c6 c7 c8 c9 c10)); clear T.
  - lra.
  - lra.
  - lra.
  - intros q sum ES. vm_compute in ES. injection ES as <- <-. vm_compute. discriminate.
  - lra.
  - lra.
  - assert (A1 : (qmax * (eL * ln 2) <= 6 * (8192 * e90))%R).
    { assert (eL * ln 2 <= 8192 * e90)%R by nra. assert (0 <= eL * ln 2)%R by nra. nra. }
    assert (A2 : (u * (ln 2 * (1 + eL)) <= 2 * u)%R) by nra.
    assert (A3 : (256 * es <= 256 * 256 * e90)%R) by lra.
    lra.
  - unfold dd. apply (Rle_trans _ (/ 1)); [|lra]. apply Rinv_le_contravar; [lra | apply IZR_le; vm_compute; discriminate].
  - unfold dd. change (2 ^ 65) with (2 * 2 ^ 64). rewrite mult_IZR.
    assert (0 < IZR (2 ^ 64))%R by (apply IZR_lt; reflexivity).
    replace (2 * / (2 * IZR (2 ^ 64)) * IZR (2 ^ 64))%R with 1%R by (field; lra). lra.
  - nra.
Qed.

