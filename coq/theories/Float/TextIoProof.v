(** C08 proofs, part 2: the printer.  The as-is model of Repr::fmt_round (digits of the rounded
    significand, cut at the radix point, zero filling) prints exactly the text of the specification:
    integer part, point, exactly the requested number of fractional digits of the value rounded by
    spec_round. *)
From Dashu Require Import Base.Prelude Float.RoundSpec Float.RoundSpecProof Float.Contract Float.Model Float.ModelProof
  Int.IoSpec Int.IoDigits Float.TextIoSpec Float.TextIoModel.
From DashuGen Require Import RoundTables.
Open Scope Z_scope.

Section Print.
Variable B : Z.
Hypothesis B_ge_2 : 2 <= B.

Local Notation pw := (Bpow_pos B B_ge_2).

(* ---------------------------------------------------------------- digit lists *)

Lemma value_repeat0 n : digits_value B (repeat 0 n) = 0.
Proof. induction n as [|n IH]; cbn [repeat]; [reflexivity|]. rewrite value_cons, IH. lia. Qed.

Lemma range_repeat0 n : in_range B (repeat 0 n).
Proof. induction n; cbn [repeat]; constructor; [lia | assumption]. Qed.

Lemma digits_pad_zero k : digits_pad k B 0 = repeat 0 k.
Proof.
  induction k as [|k IH]; [reflexivity|]. rewrite digits_pad_S, Z.div_0_l, Z.mod_0_l, IH by lia.
  symmetry. apply repeat_cons.
Qed.

Lemma digits_spec_nonempty a : digits_spec B a <> [].
Proof.
  destruct (Z.le_gt_cases a 0) as [H|H].
  - unfold digits_spec. destruct (Z.leb_spec a 0); [discriminate | lia].
  - destruct (digits_spec_canonical B B_ge_2 a ltac:(lia)) as [_ [E|(d & t & E & _)]]; rewrite E; discriminate.
Qed.

(** a * B^k : the digits of a followed by k zeros *)
Lemma digits_mul_pow a k : 0 < a -> digits_spec B (a * B ^ Z.of_nat k) = digits_spec B a ++ repeat 0 k.
Proof.
  intros Ha. rewrite <- digits_pad_zero, <- (digits_spec_split B B_ge_2 a k 0 Ha); [f_equal; lia|].
  pose proof (pw (Z.of_nat k) ltac:(lia)). lia.
Qed.

(** fewer digits than k: zero padding is "zeros, then the digits" *)
Lemma digits_pad_small a k : 0 <= a < B ^ Z.of_nat k -> (1 <= k)%nat ->
  (length (digits_spec B a) <= k)%nat /\
  digits_pad k B a = repeat 0 (k - length (digits_spec B a)) ++ digits_spec B a.
Proof.
  intros Ha Hk.
  assert (L : (length (digits_spec B a) <= k)%nat).
  { destruct (Z.eq_dec a 0) as [->|Hz]; [cbn; lia|].
    pose proof (canonical_len_value B B_ge_2 _ (digits_spec_canonical B B_ge_2 a ltac:(lia))) as C.
    rewrite digits_spec_value in C by lia. specialize (C Hz).
    assert (len (digits_spec B a) - 1 < Z.of_nat k).
    { apply (Z.pow_lt_mono_r_iff B); lia. }
    unfold len in *. lia. }
  split; [exact L|].
  apply (value_inj_same_len B B_ge_2).
  - apply digits_pad_range; exact B_ge_2.
  - apply Forall_app. split; [apply range_repeat0 | apply digits_spec_range; lia].
  - rewrite digits_pad_length, app_length, repeat_length. lia.
  - rewrite value_app, value_repeat0, digits_pad_value, digits_spec_value by lia.
    rewrite Z.mod_small by lia. lia.
Qed.

(** the cut fmt_round makes in the digit string: [cut = max 0 (n - k)] *)
Lemma digits_cut a k : 0 <= a -> (1 <= k)%nat ->
  let ds := digits_spec B a in
  let cut := (length ds - k)%nat in
  (if (length (firstn cut ds) =? 0)%nat then [0] else firstn cut ds) = digits_spec B (a / B ^ Z.of_nat k) /\
  repeat 0 (k - length (skipn cut ds)) ++ skipn cut ds = digits_pad k B (a mod B ^ Z.of_nat k) /\
  (1 <= length (skipn cut ds) <= k)%nat.
Proof.
  intros Ha Hk ds cut. pose proof (pw (Z.of_nat k) ltac:(lia)) as Hp.
  destruct (Z.lt_ge_cases a (B ^ Z.of_nat k)) as [Hlt|Hge].
  - destruct (digits_pad_small a k ltac:(lia) Hk) as [L E]. fold ds in L, E.
    assert (cut = 0%nat) by (unfold cut; lia). rewrite H. cbn [firstn skipn length Nat.eqb].
    rewrite Z.div_small, Z.mod_small by lia. split; [reflexivity|]. split; [symmetry; exact E|].
    split; [|exact L]. pose proof (digits_spec_nonempty a). fold ds in H0. destruct ds; [contradiction | cbn; lia].
  - pose proof (digits_spec_divmod B B_ge_2 a k Hge) as E. fold ds in E.
    set (q := digits_spec B (a / B ^ Z.of_nat k)) in *. set (m := digits_pad k B (a mod B ^ Z.of_nat k)) in *.
    assert (Lm : length m = k) by apply digits_pad_length.
    assert (cut = length q) by (unfold cut; rewrite E, app_length; lia).
    rewrite H, E. rewrite firstn_app, Nat.sub_diag, firstn_all, firstn_O, app_nil_r.
    rewrite skipn_app, Nat.sub_diag, skipn_all, skipn_O. cbn [app]. rewrite Lm, Nat.sub_diag. cbn [repeat app].
    split; [|split; [reflexivity | lia]].
    pose proof (digits_spec_nonempty (a / B ^ Z.of_nat k)). fold q in H0.
    destruct q; [contradiction | reflexivity].
Qed.

(* ---------------------------------------------------------------- characters *)

Lemma map_char_zeros n : map (digit_char false) (repeat 0 n) = repeat 48 n.
Proof. induction n as [|n IH]; [reflexivity|]. cbn [repeat map]. rewrite IH. reflexivity. Qed.

Lemma zeros_nat n : zeros (Z.of_nat n) = repeat 48 n.
Proof. unfold zeros. rewrite Nat2Z.id. reflexivity. Qed.

Lemma len_map {A C} (f : A -> C) l : len (map f l) = len l.
Proof. unfold len. rewrite map_length. reflexivity. Qed.

Lemma dtext_len_pos a : 0 < len (dtext false B a).
Proof.
  unfold dtext, digit_text. rewrite len_map. pose proof (digits_spec_nonempty a).
  destruct (digits_spec B a); [contradiction | unfold len; cbn [length]; lia].
Qed.

(** the text cut at the radix point, as fmt_round does it, is the integer part and the zero-padded
    fraction of the specification.  [str] is the digit text of a, or empty for a = 0 (a negative
    number rounded to zero). *)
Lemma fixed_cut a ex str : 0 <= a -> 1 <= ex -> (str = dtext false B a \/ (str = [] /\ a = 0)) ->
  let cut := Z.max 0 (len str - ex) in
  let int := firstn (Z.to_nat cut) str in
  let fract := skipn (Z.to_nat cut) str in
  (if len int =? 0 then [48] else int) = dtext false B (a / B ^ ex) /\
  zeros (ex - len fract) ++ fract = map (digit_char false) (digits_pad (Z.to_nat ex) B (a mod B ^ ex)) /\
  0 <= len fract <= ex /\ (str <> [] -> 1 <= len fract).
Proof.
  intros Ha Hex Hs. set (k := Z.to_nat ex). assert (Ek : ex = Z.of_nat k) by (unfold k; lia).
  assert (Hk1 : (1 <= k)%nat) by lia. clearbody k. subst ex. rewrite ?Nat2Z.id. intros cut int fract.
  destruct Hs as [Hs|[Hs Hz]].
  - pose proof (digits_cut a k Ha Hk1) as (C1 & C2 & C3). cbv zeta in C1, C2, C3.
    set (ds := digits_spec B a) in *.
    assert (Ecut : Z.to_nat cut = (length ds - k)%nat).
    { unfold cut. rewrite Hs. unfold dtext, digit_text. fold ds. rewrite len_map. unfold len. lia. }
    unfold int, fract. rewrite Ecut, Hs. unfold dtext, digit_text. fold ds.
    rewrite firstn_map, skipn_map, !len_map. rewrite <- C1, <- C2.
    split; [|split; [|split]].
    + unfold len. destruct (firstn (length ds - k) ds) eqn:F; cbn [length Nat.eqb map]; [reflexivity|].
      destruct (Z.eqb_spec (Z.of_nat (S (length l))) 0); [lia | reflexivity].
    + rewrite map_app, map_char_zeros. f_equal.
      replace (Z.of_nat k - len (skipn (length ds - k) ds)) with (Z.of_nat (k - length (skipn (length ds - k) ds))) by (unfold len; lia).
      apply zeros_nat.
    + unfold len. lia.
    + intros _. unfold len. lia.
  - subst str a. unfold int, fract, cut. cbn [len length firstn skipn]. rewrite firstn_nil, skipn_nil.
    cbn [len length Z.of_nat Z.eqb]. rewrite Z.div_0_l, Z.mod_0_l by (pose proof (pw (Z.of_nat k) ltac:(lia)); lia).
    rewrite digits_pad_zero, map_char_zeros, app_nil_r, Z.sub_0_r. rewrite zeros_nat.
    split; [reflexivity|]. split; [reflexivity|]. split; [lia | intros X; contradiction].
Qed.

Lemma dtext_mul_pow a k : 0 < a -> 0 <= k -> dtext false B (a * B ^ k) = dtext false B a ++ zeros k.
Proof.
  intros Ha Hk. unfold dtext, digit_text. rewrite <- (Z2Nat.id k Hk) at 1. rewrite digits_mul_pow by lia.
  rewrite map_app, map_char_zeros. reflexivity.
Qed.

(* ---------------------------------------------------------------- fmt_round *)

Lemma signif_str_cases neg v : (neg = true -> v <= 0) ->
  signif_str B neg v = dtext false B (Z.abs v) \/ (signif_str B neg v = [] /\ Z.abs v = 0).
Proof.
  intros H. unfold signif_str. destruct neg; cbn [andb]; [|left; reflexivity].
  destruct (Z.eqb_spec v 0) as [->|]; [right; split; reflexivity | left; reflexivity].
Qed.

Lemma spec_round_sign m N d : 0 < d -> N <= 0 -> spec_round m N d <= 0.
Proof.
  intros Hd HN. pose proof (spec_round_error m N d Hd) as [E _]. cbv zeta in E.
  destruct (Z.le_gt_cases (spec_round m N d) 0); [assumption | nia].
Qed.

(** Display without padding: the as-is layout = the specification, for every normalised float
    (zero is (0, 0)), every mode, every precision option *)
Theorem fmt_round_body_asis_spec m s e prec : (s = 0 -> e = 0) -> (forall p, prec = Some p -> 0 <= p) ->
  fmt_round_body_asis B m s e prec = display_body_spec B m s e prec.
Proof.
  intros Hz Hp. unfold fmt_round_body_asis, display_body_spec, fmt_rounded.
  assert (Sstr : signif_str B (s <? 0) s = dtext false B (Z.abs s)).
  { unfold signif_str. destruct (Z.ltb_spec s 0); cbn [andb]; [|reflexivity]. destruct (Z.eqb_spec s 0); [lia | reflexivity]. }
  (* the un-rounded layouts, shared by "no precision" and "precision beyond the digits held" *)
  assert (Int : 0 <= e -> dtext false B (Z.abs s * B ^ e) = dtext false B (Z.abs s) ++ zeros e).
  { intros He. destruct (Z.eq_dec s 0) as [->|Hs].
    - rewrite (Hz eq_refl). cbn [Z.abs]. rewrite Z.mul_0_l. unfold zeros. cbn [Z.to_nat repeat]. rewrite app_nil_r. reflexivity.
    - apply dtext_mul_pow; lia. }
  destruct prec as [p|].
  - specialize (Hp p eq_refl). unfold round_to_frac.
    destruct (Z.ltb_spec (p + e) 0) as [Hd|Hd]; destruct (Z.leb_spec 0 (p + e)); try lia.
    + (* rounding at -(p+e) digits *)
      cbn [split_digits]. set (k := - (p + e)).
      pose proof (pw k ltac:(unfold k; lia)) as Hk.
      assert (Hrem : Z.abs (Z.rem s (B ^ k)) < B ^ k).
      { pose proof (Z.rem_bound_abs s (B ^ k) ltac:(lia)) as Hb. rewrite (Z.abs_eq (B ^ k)) in Hb by lia. exact Hb. }
      rewrite (round_fract_spec B B_ge_2 m _ _ k ltac:(unfold k; lia) Hrem).
      replace (Z.quot s (B ^ k) * B ^ k + Z.rem s (B ^ k)) with s by (pose proof (Z.quot_rem' s (B ^ k)); lia).
      set (r := spec_round m s (B ^ k)). replace (e - (p + e)) with (- p) by lia.
      assert (Hneg : (s <? 0) = true -> r <= 0).
      { intros X. apply Z.ltb_lt in X. apply spec_round_sign; lia. }
      pose proof (signif_str_cases (s <? 0) r Hneg) as Cases.
      destruct (Z.ltb_spec (- p) 0) as [Hp0|Hp0].
      * (* p > 0 *)
        replace (- - p) with p by lia.
        pose proof (fixed_cut (Z.abs r) p (signif_str B (s <? 0) r) ltac:(lia) ltac:(lia)) as F.
        specialize (F ltac:(destruct Cases as [C|[C1 C2]]; [left; exact C | right; split; assumption])).
        cbv zeta in F. destruct F as (F1 & F2 & F3 & _).
        destruct (Z.eqb_spec p 0); [lia|]. destruct (Z.leb_spec p p); [|lia].
        unfold fixed_text. destruct (Z.eqb_spec p 0); [lia|]. rewrite F1, F2. reflexivity.
      * (* p = 0 *)
        assert (p = 0) by lia. subst p. unfold fixed_text. cbn [Z.eqb]. rewrite Z.pow_0_r, Z.div_1_r, app_nil_r.
        cbn [Z.ltb Z.compare]. unfold zeros. cbn [Z.to_nat repeat app]. rewrite app_nil_r.
        destruct Cases as [C|[C1 C2]]; rewrite ?C, ?C1, ?C2.
        -- pose proof (dtext_len_pos (Z.abs r)). destruct (Z.eqb_spec (len (dtext false B (Z.abs r))) 0); [lia | reflexivity].
        -- reflexivity.
    + (* enough digits: nothing is rounded, zeros are appended *)
      rewrite Sstr. rewrite Z.abs_mul, (Z.abs_eq (B ^ (p + e))) by (pose proof (pw (p + e) ltac:(lia)); lia).
      pose proof (dtext_len_pos (Z.abs s)) as Ls.
      destruct (Z.ltb_spec e 0) as [He|He].
      * (* fractional digits present: ex = -e <= p *)
        set (ex := - e).
        pose proof (fixed_cut (Z.abs s) ex (dtext false B (Z.abs s)) ltac:(lia) ltac:(unfold ex; lia) (or_introl eq_refl)) as F.
        cbv zeta in F. destruct F as (F1 & F2 & F3 & F4).
        destruct (Z.eqb_spec p 0); [unfold ex in *; lia|].
        unfold fixed_text. destruct (Z.eqb_spec p 0); [lia|].
        pose proof (pw ex ltac:(unfold ex; lia)) as Hex. pose proof (pw (p - ex) ltac:(unfold ex; lia)) as Hj.
        assert (Epow : B ^ p = B ^ ex * B ^ (p - ex)) by (rewrite <- Z.pow_add_r by (unfold ex; lia); f_equal; lia).
        replace (p + e) with (p - ex) by (unfold ex; lia).
        rewrite Epow, Z.div_mul_cancel_r, Z.mul_mod_distr_r by lia. rewrite F1. f_equal. f_equal.
        (* the fraction digits, then p - ex zeros *)
        replace (Z.to_nat p) with (Z.to_nat ex + Z.to_nat (p - ex))%nat by (unfold ex; lia).
        rewrite (digits_pad_split B B_ge_2) by (pose proof (Z.mod_pos_bound (Z.abs s) (B ^ ex) Hex); nia).
        rewrite (Z2Nat.id (p - ex)) by (unfold ex; lia).
        rewrite Z.div_mul, Z.mod_mul, digits_pad_zero, map_app, map_char_zeros by lia. rewrite <- F2.
        unfold zeros at 3.
        destruct (Z.leb_spec p ex).
        -- assert (p = ex) by (unfold ex in *; lia). subst p. rewrite Z.sub_diag. cbn [Z.to_nat repeat]. rewrite app_nil_r. reflexivity.
        -- rewrite <- app_assoc. reflexivity.
      * (* an integer *)
        destruct (Z.eqb_spec (len (dtext false B (Z.abs s))) 0); [lia|].
        unfold fixed_text. pose proof (pw p Hp) as Hpp.
        rewrite (Z.add_comm p e), Z.pow_add_r, Z.mul_assoc, Z.div_mul, Z.mod_mul by lia.
        rewrite Int by lia. rewrite <- app_assoc. f_equal. f_equal.
        destruct (Z.ltb_spec 0 p); destruct (Z.eqb_spec p 0); try lia; [|reflexivity].
        rewrite digits_pad_zero, map_char_zeros. reflexivity.
  - (* no precision option *)
    rewrite Sstr. pose proof (dtext_len_pos (Z.abs s)) as Ls.
    destruct (Z.ltb_spec e 0) as [He|He]; destruct (Z.leb_spec 0 e); try lia.
    + set (ex := - e).
      assert (Hs : s <> 0) by (intros X; specialize (Hz X); lia).
      pose proof (fixed_cut (Z.abs s) ex (dtext false B (Z.abs s)) ltac:(lia) ltac:(unfold ex; lia) (or_introl eq_refl)) as F.
      cbv zeta in F. destruct F as (F1 & F2 & F3 & F4).
      assert (Hne : dtext false B (Z.abs s) <> []) by (intros X; rewrite X in Ls; cbn in Ls; lia).
      specialize (F4 Hne).
      unfold fixed_text. destruct (Z.eqb_spec ex 0); [unfold ex in *; lia|].
      rewrite F1. f_equal. match goal with |- context [0 <? ?x] => destruct (Z.ltb_spec 0 x); [|lia] end.
      rewrite F2. reflexivity.
    + destruct (Z.eqb_spec (len (dtext false B (Z.abs s))) 0); [lia|]. rewrite app_nil_r. symmetry. apply Int. exact H.
Qed.

End Print.
