(** As-is models of the float layer (float/src/{round,repr,mul,div}.rs) over Z significands.
    Definitions only.  A float is (s, e) = s * B^e; IBig arithmetic is Z arithmetic (C01/C02). *)
From Dashu Require Import Base.Prelude Float.RoundSpec Float.Contract.
From DashuGen Require Import RoundTables.
Open Scope Z_scope.

Section FloatModel.
Variable B : Z.

(** utils::split_digits: IBig::div_rem by B^k truncates, both parts carry the sign of v *)
Definition split_digits (v k : Z) : Z * Z := (Z.quot v (B ^ k), Z.rem v (B ^ k)).

(** Round::round_fract: integer + fract / B^k, |fract| < B^k.  The f32 log2 pre-filter returns the
    same ordering as the exact comparison whenever its bounds are sound (C12), so the model keeps
    only the exact comparison. *)
Definition round_fract (m : mode) (i fract k : Z) : rounding :=
  if fract =? 0 then NoOp
  else round_low_part m i (sign_of fract) (2 * Z.abs fract ?= B ^ k).

(** Round::round_ratio: integer + num / den, |num| <= |den| *)
Definition round_ratio (m : mode) (i num den : Z) : rounding :=
  if num =? 0 then NoOp
  else round_low_part m i (sign_mul (sign_of num) (sign_of den))
         (if 0 <? den then (2 * Z.abs num ?= den) else (den ?= - (2 * Z.abs num))).

Inductive approx := AExact (s e : Z) | AInexact (s e : Z) (r : rounding).

Definition approx_sig (a : approx) : Z := match a with AExact s _ | AInexact s _ _ => s end.
Definition approx_exp (a : approx) : Z := match a with AExact _ e | AInexact _ e _ => e end.

(** Context::repr_round (precision 0 = unlimited) *)
Definition repr_round (p : Z) (m : mode) (s e : Z) : approx :=
  if p =? 0 then AExact s e
  else
    let d := dlen B s in
    if d >? p then
      let shift := d - p in
      let '(hi, lo) := split_digits s shift in
      let a := round_fract m hi lo shift in
      AInexact (hi + adj a) (e + shift) a
    else AExact s e.

(** Repr::new = normalize: strip trailing zero digits; zero is (0, 0) *)
Fixpoint strip_aux (fuel : nat) (s e : Z) : Z * Z :=
  match fuel with
  | O => (s, e)
  | S f => if s mod B =? 0 then strip_aux f (s / B) (e + 1) else (s, e)
  end.
Definition normalize (s e : Z) : Z * Z :=
  if s =? 0 then (0, 0) else strip_aux (Z.to_nat (Z.log2 (Z.abs s) + 1)) s e.

(** Context::mul / sqr / cubic, including the pre-shrinking of over-long operands *)
Definition shrink (p k : Z) (m : mode) (s e : Z) : Z * Z :=
  if (p =? 0) then (s, e)
  else if dlen B s >? k * p then
    let a := repr_round (k * p) m s e in (approx_sig a, approx_exp a)
  else (s, e).

Definition ctx_mul (p : Z) (m : mode) (s1 e1 s2 e2 : Z) : approx :=
  let '(a, ea) := shrink p 2 m s1 e1 in
  let '(b, eb) := shrink p 2 m s2 e2 in
  let '(s, e) := normalize (a * b) (ea + eb) in repr_round p m s e.

Definition ctx_sqr (p : Z) (m : mode) (s e : Z) : approx :=
  let '(a, ea) := shrink p 2 m s e in
  let '(s', e') := normalize (a * a) (2 * ea) in repr_round p m s' e'.

Definition ctx_cubic (p : Z) (m : mode) (s e : Z) : approx :=
  let '(a, ea) := shrink p 3 m s e in
  let '(s', e') := normalize (a * a * a) (3 * ea) in repr_round p m s' e'.

(** Context::repr_div (limited precision p >= 1) *)
Definition repr_div (p : Z) (m : mode) (s1 e1 s2 e2 : Z) : result approx :=
  if p =? 0 then Panic UnlimitedPrecision else
  if s2 =? 0 then Panic DivideBy0 else
  let q := Z.quot s1 s2 in
  let r := Z.rem s1 s2 in
  let e := e1 - e2 in
  if r =? 0 then Ok (AExact q e) else
  let dd := dlen B s2 in
  let '(q, r, e) :=
    if q =? 0 then
      let rd := dlen B r in
      let shift := dd + p - rd in
      let r' := r * B ^ shift in
      (Z.quot r' s2, Z.rem r' s2, e - shift)
    else
      let nd := dlen B q + dd in
      if nd <? dd + p then
        let shift := dd + p - nd in
        let r' := r * B ^ shift in
        (q * B ^ shift + Z.quot r' s2, Z.rem r' s2, e - shift)
      else (q, r, e) in
  if r =? 0 then Ok (AExact q e)
  else let a := round_ratio m q r s2 in Ok (AInexact (q + adj a) e a).

(** the scaling exponent repr_div ends up with, as a function of the operands *)
Definition repr_div_shift (p s1 s2 : Z) : Z :=
  let q := Z.quot s1 s2 in
  let r := Z.rem s1 s2 in
  if r =? 0 then 0 else
  let dd := dlen B s2 in
  if q =? 0 then dd + p - dlen B r
  else let nd := dlen B q + dd in if nd <? dd + p then dd + p - nd else 0.

End FloatModel.
