(** C11 round 4: Context::powi in base 2 at ONE bit of precision, exponents n >= 2, nearest modes.

    The guard condition of ElemPowiSharp.v fails here ((n-1) * 5 <= 2^(L+2) does not hold for n next
    to 2^L), but one-bit results are powers of two and the rule of the property accepts BOTH
    neighbours of a value that is not a power of two: it is enough that the working value is
    x^n * theta with 3/4 < theta < 4/3, which (1 +- u)^(n-1), u = 2^-(bit_len n + 2), provides. *)
From Coq Require Import ZArith Reals Lra Lia Bool List Psatz.
From Flocq Require Import Core.
From Dashu Require Import Base.Prelude Float.RoundSpec Float.RoundSpecProof Float.Contract Float.Model
  Float.ModelProof Float.AddModel Float.ElemEncl Float.ElemEntryProof Float.ElemEnclProof Float.ElemF32 Float.ElemAsis
  Float.ElemParamsProof Float.ElemPowiProof Float.ElemPowiSharp.
From DashuGen Require Import RoundTables ElemParams.
Open Scope Z_scope.

Section Bin1.
Local Notation bp := (bpw 2).
Let HB2 : 2 <= 2 := Z.le_refl 2.

Lemma bp_S e : bp (e + 1) = (2 * bp e)%R.
Proof. rewrite (bpw_add 2 HB2). replace (bp 1) with 2%R; [ring|]. unfold bpw. rewrite powerRZ_1. reflexivity. Qed.

Lemma bp_pos e : (0 < bp e)%R.
Proof. apply (bpw_pos 2 HB2). Qed.

Lemma bp_le a b : a <= b -> (bp a <= bp b)%R.
Proof. apply (bpw_le 2 HB2). Qed.

(** positive values: the one-bit rounding R of V = T theta is within 2^E of T *)
Lemma one_bit_pos G E (T V R th : R) :
  (bp E <= T < bp (E + 1))%R -> V = (T * th)%R -> (3 / 4 < th < 4 / 3)%R ->
  (bp G <= V < bp (G + 1))%R -> R = bp G \/ R = bp (G + 1) -> (Rabs (R - V) <= bp G / 2)%R ->
  (Rabs (R - T) < bp E)%R.
Proof.
  intros [TL TU] EV [thL thU] [VL VU] HR Hn.
  pose proof (bp_pos E) as PE. pose proof (bp_pos G) as PG.
  rewrite bp_S in TU, VU.
  assert (T0 : (0 < T)%R) by lra.
  (* T between 3/4 V and 4/3 V *)
  assert (TV1 : (3 / 4 * V < T)%R) by (rewrite EV; nra).
  assert (TV2 : (T < 4 / 3 * V)%R) by (rewrite EV; nra).
  apply Rabs_le_inv in Hn.
  destruct HR as [-> | ->].
  - (* R = 2^G: V <= 1.5 * 2^G, T in (0.75 2^G, 2 * 2^G): G = E or G = E + 1 *)
    assert (GE : E <= G).
    { destruct (Z_lt_le_dec G E) as [C|C]; [|exact C]. exfalso.
      assert (bp (G + 1) <= bp E)%R by (apply bp_le; lia). rewrite bp_S in H. nra. }
    assert (GE2 : G <= E + 1).
    { destruct (Z_lt_le_dec (E + 1) G) as [C|C]; [|lia]. exfalso.
      assert (bp (E + 1 + 1) <= bp G)%R by (apply bp_le; lia). rewrite !bp_S in H. nra. }
    assert (G = E \/ G = E + 1) as [-> | ->] by lia.
    + apply Rabs_def1; lra.
    + rewrite bp_S in *. apply Rabs_def1; nra.
  - (* R = 2^(G+1): V >= 1.5 * 2^G *)
    rewrite bp_S in *.
    assert (GE : G <= E).
    { destruct (Z_lt_le_dec E G) as [C|C]; [|exact C]. exfalso.
      assert (bp (E + 1) <= bp G)%R by (apply bp_le; lia). rewrite bp_S in H. nra. }
    assert (GE2 : E <= G + 1).
    { destruct (Z_lt_le_dec (G + 1) E) as [C|C]; [|lia]. exfalso.
      assert (bp (G + 1 + 1) <= bp E)%R by (apply bp_le; lia). rewrite !bp_S in H. nra. }
    assert (E = G \/ E = G + 1) as [-> | ->] by lia.
    + apply Rabs_def1; nra.
    + rewrite bp_S in *. apply Rabs_def1; nra.
Qed.

(** any sign *)
Lemma one_bit_signed G E (t v r th : R) :
  (bp E <= Rabs t < bp (E + 1))%R -> v = (t * th)%R -> (3 / 4 < th < 4 / 3)%R ->
  (bp G <= Rabs v < bp (G + 1))%R -> Rabs r = bp G \/ Rabs r = bp (G + 1) -> (Rabs (r - v) <= bp G / 2)%R ->
  (Rabs (r - t) < bp E)%R.
Proof.
  intros Ht Ev Hth Hv Hr Hn. pose proof (bp_pos G) as PG. pose proof (bp_pos E) as PE.
  destruct (Rlt_le_dec 0 t) as [Tp|Tn].
  - (* positive *)
    assert (Vp : (0 < v)%R) by (rewrite Ev; nra).
    rewrite (Rabs_pos_eq t) in Ht by lra. rewrite (Rabs_pos_eq v) in Hv by lra.
    assert (Rp : (0 < r)%R).
    { pose proof Hn as Hn'. apply Rabs_le_inv in Hn'. lra. }
    rewrite (Rabs_pos_eq r) in Hr by lra.
    apply (one_bit_pos G E t v r th); assumption.
  - assert (Tz : t <> 0%R).
    { intros ->. rewrite Rabs_R0 in Ht. lra. }
    assert (Tneg : (t < 0)%R) by lra.
    assert (Vn : (v < 0)%R) by (rewrite Ev; nra).
    rewrite (Rabs_left t) in Ht by lra. rewrite (Rabs_left v) in Hv by lra.
    assert (Rn : (r < 0)%R).
    { pose proof Hn as Hn'. apply Rabs_le_inv in Hn'. lra. }
    rewrite (Rabs_left r) in Hr by lra.
    replace (r - t)%R with (- (- r - - t))%R by ring. rewrite Rabs_Ropp.
    apply (one_bit_pos G E (- t) (- v) (- r) th); try assumption.
    + rewrite Ev. ring.
    + replace (- r - - v)%R with (- (r - v))%R by ring. rewrite Rabs_Ropp. exact Hn.
Qed.

(** the rounding to one bit of a non-zero (sv, ev): the value is +-2^G or +-2^(G+1) where 2^G <= |v| < 2^(G+1),
    at distance at most 2^G / 2 from v (nearest modes) *)
Lemma round_one_bit m sv ev : sv <> 0 -> is_half_mode m = true ->
  exists G, (bp G <= Rabs (fval 2 sv ev) < bp (G + 1))%R /\
    (Rabs (aval 2 (c_repr_round 2 1 m sv ev)) = bp G \/ Rabs (aval 2 (c_repr_round 2 1 m sv ev)) = bp (G + 1)) /\
    (Rabs (aval 2 (c_repr_round 2 1 m sv ev) - fval 2 sv ev) <= bp G / 2)%R.
Proof.
  intros Hsv Hm. unfold c_repr_round. rewrite (aval_nrm 2 HB2).
  destruct (dlen_spec 2 HB2 sv Hsv) as [[L U] Gd]. set (d := dlen 2 sv) in *.
  set (k := d - 1). assert (Hk : 0 <= k) by (unfold k; lia).
  assert (Hpk : 0 < 2 ^ k) by (apply Z.pow_pos_nonneg; lia).
  assert (Ed : 2 ^ d = 2 * 2 ^ k) by (unfold k; replace d with (1 + (d - 1)) at 1 by lia; rewrite Z.pow_add_r by lia; reflexivity).
  fold k in L.
  exists (ev + k).
  assert (Hbe : (0 < bp ev)%R) by apply bp_pos.
  assert (Hunit : (bp (ev + k) = IZR (2 ^ k) * bp ev)%R).
  { rewrite (IZR_Bpow 2 k Hk), (bpw_add 2 HB2). ring. }
  assert (Habsv : (Rabs (fval 2 sv ev) = IZR (Z.abs sv) * bp ev)%R).
  { rewrite (fval_bpw 2), Rabs_mult, (Rabs_pos_eq (bp ev)) by lra. rewrite abs_IZR. reflexivity. }
  split.
  { rewrite Habsv, bp_S, Hunit. apply IZR_le in L. apply IZR_lt in U. rewrite Ed, mult_IZR in U. split; nra. }
  destruct (Z_lt_le_dec 1 d) as [C|C].
  - (* rounded *)
    destruct (repr_round_spec 2 HB2 1 m sv ev ltac:(lia) C) as (a & E1 & _). fold d in E1. fold k in E1.
    pose proof (repr_round_digits 2 HB2 1 m sv ev ltac:(lia) C) as [RL RU]. cbv zeta in RL, RU.
    rewrite E1 in *. unfold aval. cbn [approx_sig approx_exp] in *.
    set (r := spec_round m sv (2 ^ k)) in *.
    destruct (spec_round_error m sv (2 ^ k) Hpk) as [_ Hh]. specialize (Hh Hm). cbv zeta in Hh. fold r in Hh.
    change (2 ^ (1 - 1)) with 1 in RL. change (2 ^ 1) with 2 in RU.
    assert (Hr : Z.abs r = 1 \/ Z.abs r = 2) by lia.
    assert (Hav : (Rabs (fval 2 r (ev + k)) = IZR (Z.abs r) * bp (ev + k))%R).
    { rewrite (fval_bpw 2), Rabs_mult, (Rabs_pos_eq (bp (ev + k))) by (pose proof (bp_pos (ev + k)); lra). rewrite abs_IZR. reflexivity. }
    split.
    + rewrite Hav, bp_S. destruct Hr as [-> | ->]; [left | right]; simpl (IZR _); ring.
    + rewrite <- (fval_shift 2 HB2 r k ev Hk), !(fval_bpw 2).
      replace (IZR (r * 2 ^ k) * bp ev - IZR sv * bp ev)%R with (IZR (r * 2 ^ k - sv) * bp ev)%R by (rewrite minus_IZR; ring).
      rewrite Rabs_mult, (Rabs_pos_eq (bp ev)) by lra. rewrite <- abs_IZR, Hunit.
      apply IZR_le in Hh. rewrite mult_IZR in Hh. simpl (IZR 2) in Hh. nra.
  - (* one bit already: exact *)
    rewrite repr_round_exact by (fold d; lia). unfold aval. cbn [approx_sig approx_exp].
    assert (d = 1) by lia. assert (k = 0) by (unfold k; lia).
    split.
    + left. rewrite Habsv, Hunit, H0. change (2 ^ 0) with 1 in *. rewrite H in U. change (2 ^ 1) with 2 in U.
      assert (Z.abs sv = 1) by lia. rewrite H1. simpl (IZR 1). ring.
    + replace (fval 2 sv ev - fval 2 sv ev)%R with 0%R by ring. rewrite Rabs_R0. pose proof (bp_pos (ev + k)). lra.
Qed.

(** Context::powi, base 2, one bit, n >= 2, nearest modes: within one ulp, Exact only if exact *)
Theorem powi_asis_nearest_bin1 m s e n : 2 <= n -> s <> 0 -> is_half_mode m = true ->
  dlen 2 s <= 2 * powi_work_precision 1 n ->
  exists a, powi_asis 2 1 m s e n = Ok a /\
    Accepted 2 1 (powerRZ (fval 2 s e) n) (aval 2 a) (is_exact a).
Proof.
  intros Hn Hs0 Hm Hs. unfold powi_asis. destruct (Z.ltb_spec n 0); [lia|].
  eexists. split; [reflexivity|]. split.
  2:{ intros Hx. apply (powi_pos_exact_flag 2 HB2); try assumption; lia. }
  right. unfold powi_pos.
  destruct (Z.eqb_spec n 0) as [->|N0]; [lia|]. destruct (Z.eqb_spec n 1) as [->|N1]; [lia|].
  set (wp := powi_work_precision 1 n) in *.
  destruct (bit_len_bounds n ltac:(lia)) as (Ln1 & Un & Lown). set (L := bit_len n) in *.
  assert (Ewp : wp = L + 2).
  { unfold wp, powi_work_precision, powi_work_precision_gen, powi_guard_digits_gen. cbn [Z.eqb]. fold L.
    change (bit_len 1) with 1. lia. }
  assert (Hwp : 1 <= wp) by lia.
  pose proof (powi_loop_result1 2 HB2 wp Hwp m s e Hs n Hn) as (D & _ & Rel). specialize (Rel Hm).
  set (res := powi_loop 2 wp m s e n (Z.to_nat (bit_len n - 2)) (c_sqr 2 wp m s e)) in *.
  rewrite aval_and_then, with_precision_round by lia.
  rewrite <- pow_Z_powerRZ by lia. set (t := (fval 2 s e ^ Z.to_nat n)%R) in *.
  assert (Ht : t <> 0%R) by (apply pow_nonzero, (fval_neq0 2 HB2); assumption).
  set (E := mag (rdx 2 HB2) t - 1).
  assert (HtL : (bp E <= Rabs t)%R).
  { rewrite (bpw_bpow 2 HB2). unfold E. apply bpow_mag_le. exact Ht. }
  assert (HtU : (Rabs t < bp (E + 1))%R).
  { rewrite (bpw_bpow 2 HB2). unfold E. replace (mag (rdx 2 HB2) t - 1 + 1) with (mag (rdx 2 HB2) t : Z) by lia. apply bpow_mag_gt. }
  exists E. split; [exact HtL|]. replace (E - 1 + 1) with E by lia.
  (* theta between 3/4 and 4/3 *)
  destruct (u_bounds 2 HB2 wp Hwp) as [u0 u1]. set (u := (/ IZR (2 * 2 ^ (wp - 1)))%R) in *.
  set (c := Z.to_nat (n - 1)) in *.
  destruct Rel as (th & Ev & ThL & ThU).
  assert (Hc : INR c = IZR (n - 1)) by (unfold c; rewrite INR_IZR_INZ, Z2Nat.id by lia; reflexivity).
  assert (Hcu : (INR c * u < 1 / 4)%R).
  { rewrite Hc. unfold u. replace (2 * 2 ^ (wp - 1)) with (2 ^ wp) by (replace wp with (1 + (wp - 1)) at 1 by lia; rewrite Z.pow_add_r by lia; reflexivity).
    rewrite Ewp, Z.pow_add_r by lia. change (2 ^ 2) with 4. rewrite mult_IZR.
    assert (HL : (0 < IZR (2 ^ L))%R) by (apply IZR_lt, Z.pow_pos_nonneg; lia).
    assert (Hn1 : (IZR (n - 1) < IZR (2 ^ L))%R) by (apply IZR_lt; lia).
    apply (Rmult_lt_reg_r (IZR (2 ^ L) * 4)); [simpl (IZR 4); lra|].
    replace (IZR (n - 1) * / (IZR (2 ^ L) * IZR 4) * (IZR (2 ^ L) * 4))%R with (IZR (n - 1)) by (simpl (IZR 4); field; lra).
    simpl (IZR 4). lra. }
  pose proof (bernoulli_minus u u1 c) as Bm. pose proof (bernoulli_plus u u0 u1 c) as Bp.
  pose proof (pos_INR c) as Hc0.
  assert (Hth : (3 / 4 < th < 4 / 3)%R).
  { split; [lra|]. assert (0 <= INR c * u)%R by nra.
    assert (1 <= (1 + u) ^ c)%R by (apply pow_R1_Rle; lra). nra. }
  (* the last rounding *)
  assert (Hsv : approx_sig res <> 0).
  { intros Z0. assert (aval 2 res = 0%R) by (unfold aval; rewrite Z0; apply fval_0).
    rewrite H0 in Ev. assert (t * th <> 0)%R by (apply Rmult_integral_contrapositive_currified; lra). lra. }
  destruct (round_one_bit m (approx_sig res) (approx_exp res) Hsv Hm) as (G & Hv & Hr & Hnear).
  fold (aval 2 res) in Hv, Hnear.
  apply (one_bit_signed G E t (aval 2 res) _ th); try assumption. split; assumption.
Qed.

End Bin1.

(* ================================================================ one digit, negative exponents, B >= 3 *)
Section NegOne.
Variable B : Z.
Hypothesis HB3 : 3 <= B.
Let HB : 2 <= B := ltac:(lia).
Local Notation bp := (bpw B).

(** the positive power at the enlarged precision rp >= 3, with the sharper count of ElemPowiSharp.v *)
Lemma powi_pos_RD1 rp m s e N : 3 <= rp -> 1 <= N -> s <> 0 -> is_half_mode m = true ->
  dlen B s <= 2 * powi_work_precision rp N ->
  RD (6 / 5 * / IZR (2 * B ^ (rp - 1))) (fval B s e ^ Z.to_nat N) (aval B (powi_pos B rp m s e N)).
Proof.
  intros Hrp HN Hs Hm Hd. set (w := (/ IZR (2 * B ^ (rp - 1)))%R).
  assert (HB9 : 9 <= B ^ (rp - 1)).
  { change 9 with (3 ^ 2). transitivity (3 ^ (rp - 1)); [apply Z.pow_le_mono_r; lia | apply Z.pow_le_mono_l; lia]. }
  assert (Hw : (0 < w <= / 18)%R).
  { unfold w. assert (18 <= IZR (2 * B ^ (rp - 1)))%R by (apply IZR_le; lia).
    split; [apply Rinv_0_lt_compat; lra | apply Rinv_le_contravar; lra]. }
  unfold powi_pos. destruct (Z.eqb_spec N 0); [lia|].
  destruct (Z.eqb_spec N 1) as [->|N1].
  - destruct (repr_round_rel B HB rp m s e ltac:(lia) Hm) as (th & E & Hth).
    exists th. unfold c_repr_round. rewrite (aval_nrm B HB), E. change (Z.to_nat 1) with 1%nat. split; [cbn [pow]; ring|].
    fold w. assert (Rabs (th - 1) <= w)%R by (unfold w; apply (rel_to_u B HB rp ltac:(lia)); exact Hth). lra.
  - set (wp := powi_work_precision rp N) in *.
    assert (Hg : rp + bit_len N + bit_len rp = wp).
    { unfold wp, powi_work_precision, powi_work_precision_gen, powi_guard_digits_gen. destruct (Z.eqb_spec rp 0); lia. }
    destruct (bit_len_bounds N ltac:(lia)) as (LN1 & UN & _). destruct (bit_len_bounds rp ltac:(lia)) as (Lr1 & Ur & _).
    assert (Lr2 : 2 <= bit_len rp).
    { destruct (Z_lt_le_dec (bit_len rp) 2); [|assumption]. exfalso. assert (Hb1 : bit_len rp = 1) by lia. rewrite Hb1 in Ur. simpl in Ur. lia. }
    assert (Hwp : 1 <= wp) by lia.
    pose proof (powi_loop_result1 B HB wp Hwp m s e Hd N ltac:(lia)) as (_ & _ & Rel). specialize (Rel Hm).
    set (res := powi_loop B wp m s e N (Z.to_nat (bit_len N - 2)) (c_sqr B wp m s e)) in *.
    rewrite aval_and_then, with_precision_round by lia.
    destruct (u_bounds B HB wp Hwp) as [u0 u1]. set (u := (/ IZR (2 * B ^ (wp - 1)))%R) in *.
    set (c := Z.to_nat (N - 1)) in *.
    assert (Hc : INR c = IZR (N - 1)) by (unfold c; rewrite INR_IZR_INZ, Z2Nat.id by lia; reflexivity).
    (* c u <= w / 9 *)
    assert (Hcu : (INR c * u <= w / 9)%R).
    { rewrite Hc. unfold u, w.
      assert (Hz : (N - 1) * (9 * B ^ (rp - 1)) <= B ^ (wp - 1)).
      { replace (wp - 1) with ((rp - 1) + bit_len N + bit_len rp) by lia. rewrite !Z.pow_add_r by lia.
        assert (0 < B ^ (rp - 1)) by lia.
        assert (2 ^ bit_len N <= B ^ bit_len N) by (apply Z.pow_le_mono_l; lia).
        assert (9 <= B ^ bit_len rp).
        { change 9 with (3 ^ 2). transitivity (3 ^ bit_len rp); [apply Z.pow_le_mono_r; lia | apply Z.pow_le_mono_l; lia]. }
        assert (0 <= N - 1) by lia. assert (N - 1 <= B ^ bit_len N) by lia.
        assert ((N - 1) * 9 <= B ^ bit_len N * B ^ bit_len rp) by (apply Z.mul_le_mono_nonneg; lia).
        assert (B ^ (rp - 1) * ((N - 1) * 9) <= B ^ (rp - 1) * (B ^ bit_len N * B ^ bit_len rp)) by (apply Z.mul_le_mono_nonneg_l; lia).
        lia. }
      apply IZR_le in Hz. rewrite !mult_IZR in Hz. rewrite !mult_IZR.
      assert (0 < IZR (B ^ (rp - 1)))%R by (apply IZR_lt; lia).
      assert (0 < IZR (B ^ (wp - 1)))%R by (apply IZR_lt, Z.pow_pos_nonneg; lia).
      apply (Rmult_le_reg_r (2 * IZR (B ^ (wp - 1)))); [lra|].
      replace (IZR (N - 1) * / (2 * IZR (B ^ (wp - 1))) * (2 * IZR (B ^ (wp - 1))))%R with (IZR (N - 1)) by (field; lra).
      apply (Rmult_le_reg_r (9 * IZR (B ^ (rp - 1)))); [lra|].
      replace (/ (2 * IZR (B ^ (rp - 1))) / 9 * (2 * IZR (B ^ (wp - 1))) * (9 * IZR (B ^ (rp - 1))))%R
        with (IZR (B ^ (wp - 1)))%R by (field; lra).
      simpl (IZR 9) in Hz. lra. }
    assert (Hc0 : (0 <= INR c * u)%R) by (pose proof (pos_INR c); nra).
    assert (Hlt : (INR c * u < 1)%R) by lra.
    pose proof (RA_to_RD u c _ _ u0 u1 Hlt Rel) as RD1.
    assert (Ha : (INR c * u / (1 - INR c * u) <= w / 8)%R).
    { apply (Rmult_le_reg_r (1 - INR c * u)); [lra|]. unfold Rdiv at 1. rewrite Rmult_assoc, Rinv_l by lra. nra. }
    apply (RD_weaken _ (w / 8)) in RD1; [|exact Ha].
    destruct (repr_round_rel B HB rp m (approx_sig res) (approx_exp res) ltac:(lia) Hm) as (th & E & Hth).
    assert (Hthw : (Rabs (th - 1) <= w)%R) by (apply (rel_to_u B HB rp ltac:(lia)); exact Hth).
    unfold c_repr_round. rewrite (aval_nrm B HB), E. fold (aval B res).
    apply (RD_weaken (w / 8 + w + w / 8 * w)); [nra|]. apply RD_step; [lra | exact RD1 | exact Hthw].
Qed.

(** Context::powi with a NEGATIVE exponent at ONE digit of precision, every base >= 3, nearest modes *)
Theorem powi_asis_neg_nearest_one_digit m s e n : n < 0 -> s <> 0 -> is_half_mode m = true ->
  dlen B s <= 2 * powi_work_precision (powi_neg_precision_gen no_f32 1 (powi_neg_guard_bits_gen no_f32 1)) (- n) ->
  exists a, powi_asis B 1 m s e n = Ok a /\
    Accepted B 1 (powerRZ (fval B s e) n) (aval B a) (is_exact a).
Proof.
  intros Hn Hs Hm Hd. unfold powi_asis. destruct (Z.ltb_spec n 0); [|lia].
  cbn [Z.eqb]. rewrite (reverse_mode_half m Hm).
  set (rp := powi_neg_precision_gen no_f32 1 (powi_neg_guard_bits_gen no_f32 1)) in *.
  assert (Hrp : rp = 3) by reflexivity.
  set (N := - n) in *. assert (HN : 1 <= N) by (unfold N; lia).
  set (X := fval B s e). assert (HX : X <> 0%R) by (apply (fval_neq0 B HB); assumption).
  assert (Ht : powerRZ X n = (/ X ^ Z.to_nat N)%R).
  { replace n with (- N) by (unfold N; lia). rewrite powerRZ_neg', <- pow_Z_powerRZ by lia. reflexivity. }
  rewrite Ht. set (T := (X ^ Z.to_nat N)%R). assert (HT : T <> 0%R) by (apply pow_nonzero; exact HX).
  set (w := (/ IZR (2 * B ^ (rp - 1)))%R).
  assert (HB9 : 9 <= B ^ (rp - 1)).
  { rewrite Hrp. change (3 - 1) with 2. change 9 with (3 ^ 2). apply Z.pow_le_mono_l; lia. }
  assert (Hw : (0 < w <= / 18)%R).
  { unfold w. assert (18 <= IZR (2 * B ^ (rp - 1)))%R by (apply IZR_le; lia).
    split; [apply Rinv_0_lt_compat; lra | apply Rinv_le_contravar; lra]. }
  pose proof (powi_pos_RD1 rp m s e N ltac:(lia) HN Hs Hm Hd) as RDp. fold w X T in RDp.
  pose proof (powi_pos_exact_val B HB rp m s e N ltac:(lia) HN Hd) as Exp. fold X T in Exp.
  set (pow := powi_pos B rp m s e N) in *.
  assert (Hpv : aval B pow <> 0%R).
  { destruct RDp as (th & E & Hth). rewrite E. apply Rabs_le_inv in Hth.
    apply Rmult_integral_contrapositive_currified; [exact HT | lra]. }
  assert (Hps : approx_sig pow <> 0).
  { intros Z0. apply Hpv. unfold aval. rewrite Z0. apply fval_0. }
  destruct (c_repr_div_one_rel B HB rp m (approx_sig pow) (approx_exp pow) ltac:(lia) Hps Hm) as (inv & Einv & th & Ev & Hth & Hex).
  fold (aval B pow) in Ev.
  assert (Einv' : approx_and_then_r pow (fun s' e' => c_repr_div B rp m 1 0 s' e') =
                  Ok (match pow with AExact _ _ => inv | AInexact _ _ r => match inv with AExact s' e' => AInexact s' e' r | b => b end end)).
  { destruct pow as [ps pe|ps pe pr]; cbn [approx_and_then_r approx_sig approx_exp] in *; rewrite Einv; reflexivity. }
  rewrite Einv'. cbn [rbind]. eexists. split; [reflexivity|].
  set (inv' := match pow with AExact _ _ => inv | AInexact _ _ r => match inv with AExact s' e' => AInexact s' e' r | b => b end end).
  assert (Hval' : aval B inv' = aval B inv) by (unfold inv'; destruct pow; destruct inv; reflexivity).
  assert (Hsig' : approx_sig inv' = approx_sig inv /\ approx_exp inv' = approx_exp inv) by (unfold inv'; destruct pow; destruct inv; split; reflexivity).
  assert (Hex' : is_exact inv' = is_exact pow && is_exact inv) by (unfold inv'; destruct pow; destruct inv; reflexivity).
  assert (Hthw : (Rabs (th - 1) <= w)%R) by (apply (rel_to_u B HB rp ltac:(lia)); exact Hth).
  assert (RDi : RD (33 / 14 * w) (/ T) (aval B inv)).
  { rewrite Ev. apply (RD_weaken (9 / 7 * w + w + 9 / 7 * w * w)); [nra|].
    apply RD_step; [lra | | exact Hthw].
    apply (RD_weaken ((6 / 5 * w) / (1 - 6 / 5 * w))).
    { apply (Rmult_le_reg_r (1 - 6 / 5 * w)); [lra|]. unfold Rdiv at 1. rewrite Rmult_assoc, Rinv_l by lra. nra. }
    apply RD_inv; [lra | lra | exact HT | exact RDp]. }
  split.
  - right. rewrite aval_and_then. destruct Hsig' as [-> ->].
    assert (Hti : (/ T <> 0)%R) by (apply Rinv_neq_0_compat; exact HT).
    apply (RD_final B HB 1 m _ _ (/ T) (33 / 14 * w) ltac:(lia) Hm Hti); [lra | | exact RDi].
    unfold w. rewrite Hrp. change (3 - 1) with 2. rewrite Z.pow_1_r, mult_IZR.
    replace (B ^ 2) with (B * B) by ring. rewrite mult_IZR.
    assert (HBr : (3 <= IZR B)%R) by (apply IZR_le; exact HB3).
    apply (Rmult_le_reg_r (2 * (IZR B * IZR B))); [nra|].
    replace (2 * (33 / 14 * / (IZR 2 * (IZR B * IZR B))) * IZR B * (2 * (IZR B * IZR B)))%R
      with (33 / 7 * IZR B)%R by (simpl (IZR 2); field; lra).
    nra.
  - rewrite exact_and_then, aval_and_then. destruct Hsig' as [-> ->]. intros Hx. apply andb_prop in Hx. destruct Hx as [H1 H2].
    rewrite Hex' in H1. apply andb_prop in H1. destruct H1 as [Hp1 Hi1].
    rewrite (c_repr_round_exact_val B HB _ _ _ _ H2). fold (aval B inv). rewrite Ev, (Hex Hi1), (Exp Hp1). ring.
Qed.

End NegOne.

(* ================================================================ summary: the region of the powi theorem *)
(** Context::powi in the nearest modes is within one ulp of x^n and flags Exact only an exact result, for
    every base B >= 2, every precision p >= 1 and every integer exponent n, every operand of at most 2p
    digits - EXCEPT base 2 at one bit with a negative exponent *)
Theorem powi_asis_nearest_all B : 2 <= B -> forall p m s e n,
  1 <= p -> s <> 0 -> is_half_mode m = true -> dlen B s <= 2 * p ->
  ~ (B = 2 /\ p = 1 /\ n < 0) ->
  exists a, powi_asis B p m s e n = Ok a /\
    Accepted B p (powerRZ (fval B s e) n) (aval B a) (is_exact a).
Proof.
  intros HB p m s e n Hp Hs Hm Hd Hex.
  destruct (Z_le_gt_dec 2 p) as [P2|P1].
  { apply powi_asis_nearest_every_exponent1; try assumption. left. exact P2. }
  assert (p = 1) by lia. subst p.
  assert (Hwp : forall q k, 1 <= q -> 1 <= k -> q <= powi_work_precision q k).
  { intros q k Hq Hk. unfold powi_work_precision, powi_work_precision_gen, powi_guard_digits_gen. destruct (Z.eqb_spec q 0); [lia|].
    pose proof (bit_len_nonneg k). pose proof (bit_len_nonneg q). lia. }
  destruct (Z_lt_le_dec n 0) as [N|N].
  - (* negative: B >= 3 *)
    assert (3 <= B) by lia.
    apply powi_asis_neg_nearest_one_digit; try assumption.
    specialize (Hwp (powi_neg_precision_gen no_f32 1 (powi_neg_guard_bits_gen no_f32 1)) (- n)).
    change (powi_neg_precision_gen no_f32 1 (powi_neg_guard_bits_gen no_f32 1)) with 3 in *. lia.
  - destruct (Z_lt_le_dec n 2) as [N2|N2].
    + (* n = 0, 1: the general theorem does not use its case hypothesis there *)
      destruct (Z.eq_dec B 2) as [->|NB].
      * assert (n = 0 \/ n = 1) as [-> | ->] by lia.
        -- exists (AExact 1 0). split; [reflexivity|]. split.
           ++ left. unfold aval. cbn [approx_sig approx_exp powerRZ]. apply fval_1_0.
           ++ intros _. unfold aval. cbn [approx_sig approx_exp powerRZ]. apply fval_1_0.
        -- unfold powi_asis, powi_pos. cbn [Z.ltb Z.compare Z.eqb]. eexists. split; [reflexivity|].
           rewrite powerRZ_1. assert (HX : fval 2 s e <> 0%R) by (apply (fval_neq0 2 HB); assumption). split.
           ++ right. apply (RD_final 2 HB 1 m s e (fval 2 s e) 0 ltac:(lia) Hm HX); [lra | lra |].
              exists 1%R. split; [ring|]. replace (1 - 1)%R with 0%R by ring. rewrite Rabs_R0. lra.
           ++ apply c_repr_round_exact_val; assumption.
      * destruct (Z_lt_le_dec B 5).
        -- (* B = 3, 4 *)
           assert (n = 0 \/ n = 1) as [-> | ->] by lia.
           ++ exists (AExact 1 0). split; [reflexivity|]. split.
              ** left. unfold aval. cbn [approx_sig approx_exp powerRZ]. apply fval_1_0.
              ** intros _. unfold aval. cbn [approx_sig approx_exp powerRZ]. apply fval_1_0.
           ++ unfold powi_asis, powi_pos. cbn [Z.ltb Z.compare Z.eqb]. eexists. split; [reflexivity|].
              rewrite powerRZ_1. assert (HX : fval B s e <> 0%R) by (apply (fval_neq0 B HB); assumption). split.
              ** right. apply (RD_final B HB 1 m s e (fval B s e) 0 ltac:(lia) Hm HX); [lra | lra |].
                 exists 1%R. split; [ring|]. replace (1 - 1)%R with 0%R by ring. rewrite Rabs_R0. lra.
              ** apply c_repr_round_exact_val; assumption.
        -- apply powi_asis_nearest_every_exponent1; try assumption; lia.
    + destruct (Z.eq_dec B 2) as [->|NB].
      * apply powi_asis_nearest_bin1; try assumption. specialize (Hwp 1 n). lia.
      * apply powi_asis_nearest1; try assumption; try lia. specialize (Hwp 1 n). lia.
Qed.

(** non-vacuity: base 2 at one bit, base 3 at one digit with a negative exponent *)
Example powi_asis_nearest_all_example :
  (exists a, powi_asis 2 1 MHalfEven 3 0 1000003 = Ok a /\
     Accepted 2 1 (powerRZ (fval 2 3 0) 1000003) (aval 2 a) (is_exact a)) /\
  (exists a, powi_asis 3 1 MHalfAway 7 (-1) (-5) = Ok a /\
     Accepted 3 1 (powerRZ (fval 3 7 (-1)) (-5)) (aval 3 a) (is_exact a)).
Proof.
  split.
  - apply (powi_asis_nearest_all 2 ltac:(lia) 1 MHalfEven 3 0 1000003); try lia; [reflexivity | vm_compute; discriminate].
  - apply (powi_asis_nearest_all 3 ltac:(lia) 1 MHalfAway 7 (-1) (-5)); try lia; [reflexivity | vm_compute; discriminate].
Qed.
