(** C10 round 4: the assertions of the two public primitives after the repairs F04 / F05.

    (1) the repaired debug assertion of Round::round_fract (sizes first, power only when they do not decide) is the
        SAME condition as |fract| < B^precision for every input (any usize::MAX, any base >= 2), so round_fract in a
        build with debug assertions is unchanged as a function; what changes is the cost: the power is formed only
        when precision < bit_len(fract), and is then shorter than twice the fraction - before the repair it had more
        than `precision` bits whatever the fraction (to_int of 1 * B^isize::MIN: 2^63 digits);
    (2) round_ratio with the assertion |num| < |den|: answers iff the documented precondition holds, every answer is
        the specification's adjustment for all six modes; all shapes of argument the workspace passes (remainders of a
        division, remainders scaled by a power) satisfy it; it differs from the old assertion at |num| = |den| only;
    (3) round_fract far below one half without a power (the oracle's form for digit counts up to usize::MAX);
    (4) Round::Reverse (table regenerated from the six impls by C11: ElemParams.reverse_mode_gen): a directed mode and
        its reverse return the two neighbours floor / ceil of the exact value, a nearest mode is its own reverse. *)
From Coq Require Import ZArith Lia Bool.
From Dashu Require Import Base.Prelude Float.RoundSpec Float.RoundSpecProof Float.Contract Float.Model Float.ModelProof
  Float.RoundOpsModel Float.RoundOpsDeep Float.RoundOpsDeepProof Float.RoundPrimGenProof Float.RoundTwiceProof Float.RoundAssertModel.
From DashuGen Require Import RoundTables ElemParams RoundPrimGen.
Open Scope Z_scope.

(* ---------------------------------------------------------------- bit lengths *)

Lemma blen_nonneg z : 0 <= blen z.
Proof. unfold blen. destruct (z =? 0); [lia|]. pose proof (Z.log2_nonneg (Z.abs z)). lia. Qed.

Lemma abs_lt_pow_blen z : Z.abs z < 2 ^ blen z.
Proof.
  unfold blen. destruct (Z.eqb_spec z 0) as [->|Hz]; [cbn; lia|].
  assert (H : 0 < Z.abs z) by lia. pose proof (Z.log2_spec _ H) as [_ L].
  replace (Z.log2 (Z.abs z) + 1) with (Z.succ (Z.log2 (Z.abs z))) by lia. exact L.
Qed.

Lemma blen_le_of_lt z n : 0 <= n -> Z.abs z < 2 ^ n -> blen z <= n.
Proof.
  intros Hn H. unfold blen. destruct (Z.eqb_spec z 0) as [->|Hz]; [lia|].
  assert (H0 : 0 < Z.abs z) by lia. pose proof (proj1 (Z.log2_lt_pow2 _ n H0) H). lia.
Qed.

Lemma blen_base B : 2 <= B -> 1 <= blen B - 1 /\ 2 ^ (blen B - 1) <= B /\ B < 2 ^ blen B.
Proof.
  intros HB. unfold blen. destruct (Z.eqb_spec B 0); [lia|]. rewrite (Z.abs_eq B) by lia.
  assert (H0 : 0 < B) by lia. pose proof (Z.log2_spec _ H0) as [L1 L2].
  assert (1 <= Z.log2 B) by (apply (proj1 (Z.log2_le_pow2 B 1 H0)); cbn; lia).
  replace (Z.log2 B + 1 - 1) with (Z.log2 B) by lia.
  replace (Z.log2 B + 1) with (Z.succ (Z.log2 B)) by lia. lia.
Qed.

Lemma pow_floorlog B k : 2 <= B -> 0 <= k -> 2 ^ (k * (blen B - 1)) <= B ^ k.
Proof.
  intros HB Hk. destruct (blen_base B HB) as (K1 & K2 & _).
  rewrite Z.mul_comm, Z.pow_mul_r by lia. apply Z.pow_le_mono_l. split; [apply Z.pow_nonneg; lia | exact K2].
Qed.

Lemma pow_ceillog B k : 2 <= B -> 0 <= k -> B ^ k <= 2 ^ (k * blen B).
Proof.
  intros HB Hk. destruct (blen_base B HB) as (K1 & _ & K3).
  rewrite Z.mul_comm, Z.pow_mul_r by lia. apply Z.pow_le_mono_l. lia.
Qed.

Lemma sat_mul_le M a b : sat_mul M a b <= a * b.
Proof. unfold sat_mul. lia. Qed.

(* ---------------------------------------------------------------- (1) the repaired assertion of round_fract *)

Section Assert.
Variable M B : Z.
Hypothesis B_ge_2 : 2 <= B.

(** sizes that satisfy the first disjunct: at least [n] spare bits below B^k *)
Lemma sizes_sound f k n : 0 <= n -> blen f + n <= sat_mul M k (blen B - 1) -> 2 ^ n * Z.abs f < B ^ k.
Proof.
  intros Hn H. pose proof (sat_mul_le M k (blen B - 1)) as S. pose proof (blen_nonneg f) as F0.
  destruct (blen_base B B_ge_2) as (K1 & _ & _).
  assert (Hk : 0 <= k).
  { destruct (Z.lt_ge_cases k 0) as [N|N]; [|lia].
    assert (k * (blen B - 1) < 0) by (apply Z.mul_neg_pos; lia). lia. }
  pose proof (abs_lt_pow_blen f) as A. pose proof (pow_floorlog B k B_ge_2 Hk) as P.
  assert (Q : 2 ^ (blen f + n) <= 2 ^ (k * (blen B - 1))) by (apply Z.pow_le_mono_r; lia).
  rewrite Z.pow_add_r in Q by lia.
  assert (P2 : 0 < 2 ^ n) by (apply Z.pow_pos_nonneg; lia).
  assert (2 ^ n * Z.abs f < 2 ^ n * 2 ^ blen f) by (apply Z.mul_lt_mono_pos_l; assumption).
  lia.
Qed.

Theorem fract_cheap_sound f k : fract_cheap M B f k = true -> Z.abs f < B ^ k.
Proof.
  unfold fract_cheap. intros H. apply Z.leb_le in H.
  pose proof (sizes_sound f k 0 ltac:(lia) ltac:(lia)) as S. rewrite Z.pow_0_r in S. lia.
Qed.

(** the repaired assertion is the old condition, for every input *)
Theorem round_fract_pre4_eq f k : round_fract_pre4 M B f k = (Z.abs f <? B ^ k).
Proof.
  unfold round_fract_pre4. destruct (fract_cheap M B f k) eqn:C; [|reflexivity].
  cbn [orb]. symmetry. apply Z.ltb_lt. apply fract_cheap_sound. exact C.
Qed.

Theorem round_fract_debug4_eq m i f k : round_fract_debug4 M B m i f k = round_fract_debug B m i f k.
Proof. unfold round_fract_debug4, round_fract_debug. rewrite round_fract_pre4_eq. reflexivity. Qed.

(** ... so the repaired primitive meets the specification inside the precondition and panics outside, as before *)
Theorem round_fract_debug4_spec m i f k : 0 <= k ->
  (Z.abs f < B ^ k -> exists r, round_fract_debug4 M B m i f k = Ok r /\ i + adj r = spec_round m (i * B ^ k + f) (B ^ k)) /\
  (B ^ k <= Z.abs f -> round_fract_debug4 M B m i f k = Panic Undocumented).
Proof. intros Hk. rewrite round_fract_debug4_eq. apply round_fract_debug_spec; assumption. Qed.

(** cost: when the power is formed (sizes do not decide; bit_len(fract) is a usize), the digit count is below the
    bit length of the fraction and the power is shorter than twice the fraction *)
Theorem power_formed_small f k : 0 <= k -> blen f <= M -> fract_cheap M B f k = false ->
  k < blen f /\ B ^ k < 2 ^ (2 * blen f).
Proof.
  intros Hk HM C. unfold fract_cheap, sat_mul in C. apply Z.leb_gt in C.
  destruct (blen_base B B_ge_2) as (K1 & _ & _).
  assert (C' : k * (blen B - 1) < blen f) by lia.
  assert (Hkk : k * 1 <= k * (blen B - 1)) by (apply Z.mul_le_mono_nonneg_l; lia).
  split; [lia|].
  pose proof (pow_ceillog B k B_ge_2 Hk) as P.
  assert (E : k * blen B = k * (blen B - 1) + k * 1) by ring.
  assert (Q : 2 ^ (k * blen B) < 2 ^ (2 * blen f)) by (apply Z.pow_lt_mono_r; lia).
  lia.
Qed.

Theorem assert_new_cost f k : 0 <= k -> blen f <= M -> assert_power_bits_new M B f k <= 2 * blen f.
Proof.
  intros Hk HM. unfold assert_power_bits_new. pose proof (blen_nonneg f).
  destruct (fract_cheap M B f k) eqn:C; [lia|].
  destruct (power_formed_small f k Hk HM C) as [_ P].
  apply blen_le_of_lt; [lia|]. rewrite Z.abs_eq; [exact P | apply Z.pow_nonneg; lia].
Qed.

(** before the repair the power had more than k bits, whatever the fraction *)
Theorem assert_old_cost f k : 0 <= k -> k < assert_power_bits_old B f k.
Proof.
  intros Hk. unfold assert_power_bits_old, blen.
  assert (P : 0 < B ^ k) by (apply Z.pow_pos_nonneg; lia).
  destruct (Z.eqb_spec (B ^ k) 0); [lia|]. rewrite Z.abs_eq by lia.
  assert (k <= Z.log2 (B ^ k)); [|lia].
  apply (proj1 (Z.log2_le_pow2 _ k P)). apply Z.pow_le_mono_l. lia.
Qed.

(* ---------------------------------------------------------------- (3) far below one half: no power *)

Theorem round_fract_tiny_eq m i f k : 2 * Z.abs f < B ^ k -> round_fract B m i f k = round_fract_tiny m i f.
Proof.
  intros H. unfold round_fract, round_fract_tiny. destruct (f =? 0); [reflexivity|].
  rewrite (proj2 (Z.compare_lt_iff _ _) H). reflexivity.
Qed.

Theorem round_fract_tiny_sizes m i f k : blen f + 1 <= sat_mul M k (blen B - 1) ->
  round_fract B m i f k = round_fract_tiny m i f /\ Z.abs f < B ^ k.
Proof.
  intros H. pose proof (sizes_sound f k 1 ltac:(lia) H) as S. change (2 ^ 1) with 2 in S.
  split; [apply round_fract_tiny_eq; exact S | lia].
Qed.

(** the oracle's procedure = the primitive with its assertion, for every input *)
Theorem round_fract_any4_eq m i f k : round_fract_any4 M B m i f k = round_fract_debug B m i f k.
Proof.
  unfold round_fract_any4. destruct (Z.leb_spec (blen f + 1) (sat_mul M k (blen B - 1))) as [H|H].
  - destruct (round_fract_tiny_sizes m i f k H) as [E L]. unfold round_fract_debug.
    rewrite (proj2 (Z.ltb_lt _ _) L), E. reflexivity.
  - apply round_fract_debug4_eq.
Qed.

Theorem round_fract_sz_eq m i f k : round_fract_sz M B m i f k = round_fract B m i f k.
Proof.
  unfold round_fract_sz. destruct (Z.leb_spec (blen f + 1) (sat_mul M k (blen B - 1))) as [H|H]; [|reflexivity].
  symmetry. apply (round_fract_tiny_sizes m i f k H).
Qed.

(** FBig::to_int with the repaired assertion is FBig::to_int with the plain one, for every implementation of the
    primitive and every input ... *)
Theorem to_int_full4_eq dub rf m p s e : to_int_full4 M B dub rf m p s e = to_int_full B dub rf m p s e.
Proof.
  unfold to_int_full4, to_int_full, to_int_rf4, to_int_rf. f_equal.
  destruct (0 <=? e); [reflexivity|]. destruct (split_internal B dub false p s e) as [[hi lo] k].
  unfold round_fract_chk4, round_fract_chk_rf. rewrite round_fract_pre4_eq. reflexivity.
Qed.

(** ... hence the specification at EVERY exponent (no bound on the digit count of the fraction: the sizes decide far
    below one half, the power is formed only next to it) *)
Theorem to_int_any_exponent dub : (forall s, dlen B s <= dub s) ->
  forall m p s e, is_inf s e = false -> (e < 0 -> s mod B <> 0) ->
  to_int_full4 M B dub (round_fract_sz M B) m p s e = Ok (to_int_spec B m s e).
Proof.
  intros Hd m p s e Hf Hn. rewrite to_int_full4_eq.
  pose proof (RoundOpsDeepProof.entry_points_spec B B_ge_2 dub Hd (round_fract_sz M B) (- e + 1)
                (fun m i f k _ => round_fract_sz_eq m i f k) p s e Hf ltac:(lia) Hn) as E.
  exact (proj1 (proj2 (proj2 (proj2 (proj2 E)))) m).
Qed.

End Assert.

(** the assertion regenerated from float/src/round.rs is the repaired model, and round_fract with it is round_fract with
    the plain condition |fract| < B^precision *)
Theorem round_fract_pre_gen_is_model M B : 2 <= B -> forall m i f k,
  round_fract_pre_gen M B f k = round_fract_pre4 M B f k /\
  round_fract_debug B m i f k = if round_fract_pre_gen M B f k then Ok (round_fract B m i f k) else Panic Undocumented.
Proof.
  intros HB m i f k. assert (E : round_fract_pre_gen M B f k = round_fract_pre4 M B f k) by reflexivity.
  split; [exact E|]. rewrite E, (round_fract_pre4_eq M B HB). reflexivity.
Qed.

Theorem round_ratio_pre_gen_is_model n d : round_ratio_pre_gen n d = round_ratio_pre4 n d.
Proof. reflexivity. Qed.

(** to_int of 1 * 10^isize::MIN in a build with debug assertions: the repaired assertion forms no power, the old one a
    power of more than 2^63 bits *)
Theorem assert_cost_refuted :
  assert_power_bits_new (2 ^ 64 - 1) 10 1 (2 ^ 63) = 0 /\ 2 ^ 63 < assert_power_bits_old 10 1 (2 ^ 63) /\
  round_fract_any4 (2 ^ 64 - 1) 10 MHalfEven 0 1 (2 ^ 63) = Ok NoOp.
Proof.
  split; [vm_compute; reflexivity|]. split; [apply assert_old_cost; lia | vm_compute; reflexivity].
Qed.

Example assert_example :
  fract_cheap (2 ^ 64 - 1) 10 999 3 = false /\ round_fract_pre4 (2 ^ 64 - 1) 10 999 3 = true /\
  round_fract_pre4 (2 ^ 64 - 1) 10 1000 3 = false /\ fract_cheap (2 ^ 64 - 1) 10 999 4 = true /\
  assert_power_bits_new (2 ^ 64 - 1) 10 999 3 = 10 /\ blen 999 = 10 /\
  round_fract_debug4 (2 ^ 64 - 1) 3 MUp 0 (-27) 3 = Panic Undocumented /\
  round_fract_debug4 (2 ^ 64 - 1) 3 MUp 0 (-26) 3 = Ok NoOp.
Proof. repeat split; vm_compute; reflexivity. Qed.

(* ---------------------------------------------------------------- (2) round_ratio after F05 *)

Theorem round_ratio_pub4_spec m I num den :
  (den <> 0 -> Z.abs num < Z.abs den ->
     exists r, round_ratio_pub4 m I num den = Ok r /\
       I + adj r = spec_round m (Z.sgn den * (I * den + num)) (Z.abs den)) /\
  (den = 0 \/ Z.abs den <= Z.abs num -> round_ratio_pub4 m I num den = Panic Undocumented).
Proof.
  unfold round_ratio_pub4, round_ratio_pre4. split.
  - intros Hd Hn. destruct (Z.eqb_spec den 0); [contradiction|]. cbn [negb andb].
    destruct (Z.ltb_spec (Z.abs num) (Z.abs den)); [|lia]. eexists. split; [reflexivity|].
    apply round_ratio_spec; assumption.
  - intros [->|H]; [reflexivity|]. destruct (Z.ltb_spec (Z.abs num) (Z.abs den)); [lia|].
    rewrite Bool.andb_false_r. reflexivity.
Qed.

(** every answer is the specification's adjustment, for all six modes: assertion = documented precondition *)
Theorem round_ratio_pub4_sound m I num den r : round_ratio_pub4 m I num den = Ok r ->
  den <> 0 /\ Z.abs num < Z.abs den /\ r = round_ratio m I num den /\
  I + adj r = spec_round m (Z.sgn den * (I * den + num)) (Z.abs den).
Proof.
  unfold round_ratio_pub4, round_ratio_pre4. destruct (Z.eqb_spec den 0) as [|Hd]; [discriminate|]. cbn [negb andb].
  destruct (Z.ltb_spec (Z.abs num) (Z.abs den)) as [Hn|]; [|discriminate].
  intros E. assert (E' : r = round_ratio m I num den) by congruence. subst r.
  repeat split; try assumption. apply round_ratio_spec; assumption.
Qed.

(** the repair changes the behaviour at |num| = |den| only *)
Theorem round_ratio_pub4_vs_old m I num den :
  (Z.abs num <> Z.abs den -> round_ratio_pub4 m I num den = round_ratio_pub m I num den) /\
  (Z.abs num = Z.abs den -> round_ratio_pub4 m I num den = Panic Undocumented).
Proof.
  unfold round_ratio_pub4, round_ratio_pub, round_ratio_pre4, round_ratio_pre. split; intros H.
  - destruct (Z.ltb_spec (Z.abs num) (Z.abs den)), (Z.leb_spec (Z.abs num) (Z.abs den)); try lia; reflexivity.
  - destruct (Z.ltb_spec (Z.abs num) (Z.abs den)); [lia|]. rewrite Bool.andb_false_r. reflexivity.
Qed.

(** what the workspace passes: the remainder of a truncating division by den (float/src/div.rs repr_div,
    rational to_float with no extra digit) ... *)
Theorem rem_passes a den : den <> 0 -> round_ratio_pre4 (Z.rem a den) den = true.
Proof.
  intros Hd. unfold round_ratio_pre4. destruct (Z.eqb_spec den 0); [contradiction|]. cbn [negb andb].
  apply Z.ltb_lt. apply Z.rem_bound_abs. exact Hd.
Qed.

(** ... or lo * den + r against den * scale, with lo a remainder modulo scale and r a remainder modulo den of the
    same sign (float/src/convert.rs convert_base, rational/src/third_party/dashu_float.rs to_float) *)
Theorem scaled_rem_passes lo r D S : 0 < D -> 0 < S -> Z.abs lo < S -> Z.abs r < D -> 0 <= lo * r ->
  round_ratio_pre4 (lo * D + r) (D * S) = true.
Proof.
  intros HD HS Hlo Hr Hs. unfold round_ratio_pre4.
  assert (DS : 0 < D * S) by (apply Z.mul_pos_pos; assumption).
  destruct (Z.eqb_spec (D * S) 0); [lia|]. cbn [negb andb]. apply Z.ltb_lt.
  rewrite (Z.abs_eq (D * S)) by lia.
  assert (T : Z.abs (lo * D + r) <= Z.abs lo * D + Z.abs r).
  { pose proof (Z.abs_triangle (lo * D) r) as T. rewrite Z.abs_mul, (Z.abs_eq D) in T by lia. exact T. }
  assert (U : Z.abs lo * D <= (S - 1) * D) by (apply Z.mul_le_mono_nonneg_r; lia).
  assert (V : (S - 1) * D = D * S - D) by ring. lia.
Qed.

Example round_ratio4_example :
  round_ratio_pub4 MDown 0 1 1 = Panic Undocumented /\ round_ratio_pub4 MHalfEven 2 (-3) 3 = Panic Undocumented /\
  round_ratio_pub4 MDown 0 1 2 = Ok NoOp /\ round_ratio_pub4 MUp 0 1 (-2) = Ok NoOp /\
  round_ratio_pub4 MUp 0 1 0 = Panic Undocumented /\ round_ratio_pre4 (Z.rem (-7) 3) 3 = true /\
  round_ratio_pre4 (4 * 7 + 6) (7 * 10) = true.
Proof. repeat split; vm_compute; reflexivity. Qed.

(* ---------------------------------------------------------------- (4) Round::Reverse *)

Lemma zero_nonneg N d : 0 < d -> 0 <= N -> spec_round MZero N d = spec_round MDown N d.
Proof. intros Hd HN. cbn [spec_round]. apply Z.quot_div_nonneg; lia. Qed.

Lemma zero_nonpos N d : 0 < d -> N <= 0 -> spec_round MZero N d = spec_round MUp N d.
Proof.
  intros Hd HN. cbn [spec_round]. rewrite <- (Z.opp_involutive N) at 1. rewrite Z.quot_opp_l by lia.
  f_equal. apply Z.quot_div_nonneg; lia.
Qed.

(** a directed mode and its Reverse return the two integers that enclose the exact value: one of them is the floor,
    the other the ceiling *)
Theorem reverse_pair m N d : 0 < d -> is_directed m = true ->
  (spec_round m N d = spec_round MDown N d /\ spec_round (reverse_mode_gen m) N d = spec_round MUp N d) \/
  (spec_round m N d = spec_round MUp N d /\ spec_round (reverse_mode_gen m) N d = spec_round MDown N d).
Proof.
  intros Hd Hm. destruct m; try discriminate Hm; cbn [reverse_mode_gen].
  - destruct (Z.le_ge_cases 0 N) as [H|H].
    + left. split; [apply zero_nonneg | apply away_nonneg]; assumption.
    + right. split; [apply zero_nonpos | apply away_nonpos]; assumption.
  - destruct (Z.le_ge_cases 0 N) as [H|H].
    + right. split; [apply away_nonneg | apply zero_nonneg]; assumption.
    + left. split; [apply away_nonpos | apply zero_nonpos]; assumption.
  - right. split; reflexivity.
  - left. split; reflexivity.
Qed.

(** floor and ceiling coincide iff the value is an integer, and differ by one otherwise *)
Theorem up_minus_down N d : 0 < d ->
  spec_round MUp N d - spec_round MDown N d = if N mod d =? 0 then 0 else 1.
Proof.
  intros Hd. cbn [spec_round]. destruct (Z.eqb_spec (N mod d) 0) as [E|E].
  - rewrite (Z.div_opp_l_z N d) by lia. lia.
  - rewrite (Z.div_opp_l_nz N d) by lia. lia.
Qed.

Theorem reverse_nearest m : is_half_mode m = true -> reverse_mode_gen m = m.
Proof. destruct m; try discriminate; reflexivity. Qed.

Example reverse_example :
  spec_round MZero (-7) 2 = -3 /\ spec_round (reverse_mode_gen MZero) (-7) 2 = -4 /\
  spec_round MUp 7 2 = 4 /\ spec_round (reverse_mode_gen MUp) 7 2 = 3 /\ reverse_mode_gen MHalfEven = MHalfEven.
Proof. repeat split; vm_compute; reflexivity. Qed.
