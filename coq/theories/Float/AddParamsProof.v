(** The constants and conditions of float/src/add.rs and float/src/root.rs, regenerated from the
    source on every run (DashuGen.FloatAddParams), are the ones the hand-written as-is models
    (AddModel.v) use - so the addition and sqrt theorems are about what the code says now. *)
From Dashu Require Import Base.Prelude Float.RoundSpec Float.Contract Float.Model Float.AddModel.
(* FloatAddParams last: its definitions are used while tools/translate.py recognises the fragments; the far-apart test
   falls back to the copy tools/translate_c03_r3.py regenerates into FloatLongParams (it also reads the saturating form) *)
From DashuGen Require Import FloatLongParams FloatAddParams.
Open Scope Z_scope.

Theorem add_source_constants :
  (forall rp d, far_low_prec_ls_gen rp d = far_low_prec rp d) /\
  (forall rp d, far_low_prec_sl_gen rp d = far_low_prec rp d) /\
  (forall est ediff rp big, far_cond_ls_gen est ediff rp big = ((est + 1 <? ediff) && (est + 1 + rp <? big + ediff))) /\
  (forall est ediff rp big, far_cond_sl_gen est ediff rp big = ((est + 1 <? ediff) && (est + 1 + rp <? big + ediff))) /\
  (forall p b, rnd_precision_ls_gen p b = p + b2z b) /\
  (forall p b, rnd_precision_sl_gen p b = p + b2z b).
Proof. repeat split; intros; reflexivity. Qed.

Theorem sqrt_source_constants : forall B p s e, sqrt_shift_gen p (dlen B s) e = sqrt_shift B p s e.
Proof. intros; reflexivity. Qed.
