(** C11: certified checker for exp / exp_m1 / ln / ln_1p / powi / powf results.  Definitions only
    (soundness: ElemEnclProof.v).

    Everything is decided with CoqInterval's interval arithmetic over [SpecificFloat StdZRadix2]
    (radix-2 floats with [Z] mantissa and exponent: pure [Z] code, extractable to GMP).
    A dashu float is (s, e) = s * B^e.  The checker never trusts a heuristic: precisions, Newton
    start points and the candidate exponent E are hints, every conclusion is re-established by
    sign tests on outward-rounded intervals. *)
From Coq Require Import ZArith List Bool.
From Dashu Require Import Base.Prelude Float.RoundSpec Float.Contract.
From Interval Require Import Xreal Basic Sig Interval Float Float_full Specific_ops Specific_stdz Specific_sig.
Import ListNotations.
Open Scope Z_scope.

Module F := SpecificFloat StdZRadix2.
Module I := FloatIntervalFull F.

Inductive verdict := VAccept | VReject | VUndecided.

(** exponents beyond this are not expanded as integers B^|e| *)
Definition big_exp : Z := 1000.

(** enclosure of s * B^e *)
Definition ival (pr : F.precision) (B s e : Z) : I.type :=
  if Z.abs e <=? big_exp then
    if 0 <=? e then I.fromZ pr (s * B ^ e)
    else I.div pr (I.fromZ pr s) (I.fromZ pr (B ^ (- e)))
  else I.mul pr (I.fromZ pr s) (I.power_int pr (I.fromZ pr B) e).

Definition ione (pr : F.precision) : I.type := I.fromZ pr 1.

(** point interval *)
Definition pt (m : F.type) : I.type := I.bnd m m.

(** floor of a radix-2 float (heuristic use only) *)
Definition floorF (f : F.type) : Z :=
  match f with
  | Specific_ops.Float m e => if 0 <=? e then m * 2 ^ e else m / 2 ^ (- e)
  | _ => 0
  end.

(** heuristic enclosure-like guess of ln |x| for x = m * 2^e: ln (m * 2^-d) + (e + d) ln 2 with
    m * 2^-d in [1/2, 1) (I.ln of a huge or tiny number is slow; nothing is concluded from it) *)
Definition ln_guess (pr : F.precision) (X : I.type) : I.type :=
  match I.midpoint (I.abs X) with
  | Specific_ops.Float m e =>
      let d := Z.log2 (Z.abs m) + 1 in
      I.add pr (I.ln pr (pt (Specific_ops.Float m (- d))))
               (I.mul pr (I.fromZ pr (e + d)) (I.ln pr (I.fromZ pr 2)))
  | _ => I.nai
  end.

(** candidate for floor(log_B |t|) (heuristic) *)
Definition guessE (B : Z) (T : I.type) : Z :=
  let pr := F.PtoP 128 in
  floorF (I.midpoint (I.div pr (ln_guess pr T) (I.ln pr (I.fromZ pr B)))).

Definition is_gt (c : Xcomparison) : bool := match c with Xgt => true | _ => false end.
(** for I.sign_large: the interval is inside [0, +oo) (Xeq: it is the point 0) *)
Definition is_ge (c : Xcomparison) : bool := match c with Xgt | Xeq => true | _ => false end.

(** B^E <= |t|  and  |r - t| < B^(E-p+1) *)
Definition accept_at (pr : F.precision) (B p : Z) (T Rv : I.type) (E : Z) : bool :=
  is_ge (I.sign_large (I.sub pr (I.abs T) (ival pr B 1 E))) &&
  is_gt (I.sign_strict (I.sub pr (ival pr B 1 (E - p + 1)) (I.abs (I.sub pr Rv T)))).

(** |t| < B^(E+1)  and  B^(E-p+1) <= |r - t| *)
Definition reject_at (pr : F.precision) (B p : Z) (T Rv : I.type) (E : Z) : bool :=
  is_gt (I.sign_strict (I.sub pr (ival pr B 1 (E + 1)) (I.abs T))) &&
  is_ge (I.sign_large (I.sub pr (I.abs (I.sub pr Rv T)) (ival pr B 1 (E - p + 1)))).

Definition decide_ulp (pr : F.precision) (B p : Z) (T Rv : I.type) : verdict :=
  let E0 := guessE B T in
  if accept_at pr B p T Rv E0 || accept_at pr B p T Rv (E0 - 1) || accept_at pr B p T Rv (E0 + 1) then VAccept
  else if reject_at pr B p T Rv E0 || reject_at pr B p T Rv (E0 + 1) || reject_at pr B p T Rv (E0 - 1) then VReject
  else VUndecided.

(** r <> t certified: r - t has a strict sign *)
Definition differ (pr : F.precision) (T Rv : I.type) : bool :=
  match I.sign_strict (I.sub pr Rv T) with Xlt | Xgt => true | _ => false end.

(** the true value is only known through an enclosure *)
Definition decide_encl (pr : F.precision) (B p : Z) (T Rv : I.type) (fexact : bool) : verdict :=
  if fexact then (if differ pr T Rv then VReject else VUndecided)
  else decide_ulp pr B p T Rv.

(** exact float equality a * B^ea = b * B^eb *)
Definition feq (B a ea b eb : Z) : bool :=
  let m := Z.min ea eb in a * B ^ (ea - m) =? b * B ^ (eb - m).

(** exact comparison a * B^ea <= b * B^eb *)
Definition fle (B a ea b eb : Z) : bool :=
  let m := Z.min ea eb in a * B ^ (ea - m) <=? b * B ^ (eb - m).

(** exact comparison |a * B^ea - b * B^eb| < B^u *)
Definition fdiff_lt (B a ea b eb u : Z) : bool :=
  let m := Z.min (Z.min ea eb) u in
  Z.abs (a * B ^ (ea - m) - b * B ^ (eb - m)) <? B ^ (u - m).

(** the true value is the float (ts, te) exactly: decided in integer arithmetic.  The exponent E of
    the true value is guessed from its digit count and then checked (B^E <= |t| < B^(E+1)). *)
Definition decide_exact (B p ts te rs re : Z) (fexact : bool) : verdict :=
  if feq B rs re ts te then VAccept
  else if fexact then VReject
  else if ts =? 0 then VReject
  else
    let E := dlen B ts + te - 1 in
    if fle B 1 E (Z.abs ts) te && negb (fle B 1 (E + 1) (Z.abs ts) te) then
      (if fdiff_lt B rs re ts te (E - p + 1) then VAccept else VReject)
    else VUndecided.

(** ------------------------------------------------------------------------------------------
    enclosures of the true values                                                              *)

(** exp x: I.exp at precision prt, sharpened by 1 + x <= exp x and exp x <= 1/(1-x) (x < 1)
    evaluated at the (possibly much larger) arithmetic precision pra *)
Definition T_exp (prt pra : F.precision) (B s e : Z) : I.type :=
  let X := ival pra B s e in
  let T1 := I.exp prt (ival prt B s e) in
  let T2 := I.upper_extent (I.add pra (ione pra) X) in
  let U := I.sub pra (ione pra) X in
  let T3 := if is_gt (I.sign_strict U) then I.lower_extent (I.inv pra U) else I.whole in
  I.meet T1 (I.meet T2 T3).

(** exp x - 1: x <= exp x - 1 <= x/(1-x) (x < 1).
    A difference of floats whose exponents are K apart aligns K bits: beyond |x| > K (K >= 1) the
    subtraction exp x - 1 is replaced by  exp x (1 - 2^-K) <= exp x - 1 <= exp x  (x >= K, as
    exp K >= 2^K)  and  -1 <= exp x - 1 <= -1 + 2^-K  (x <= -K). *)
Definition T_expm1_main (prt : F.precision) (K : Z) (X : I.type) : I.type :=
  let EX := I.exp prt X in
  let Kf := I.fromZ prt K in
  if is_gt (I.sign_large (I.sub prt X Kf)) then
    I.meet (I.lower_extent EX)
           (I.upper_extent (I.mul prt EX (I.sub prt (ione prt) (ival prt 2 1 (- K)))))
  else if is_gt (I.sign_large (I.sub prt (I.neg Kf) X)) then
    I.meet (I.upper_extent (I.fromZ prt (-1)))
           (I.lower_extent (I.add prt (I.fromZ prt (-1)) (ival prt 2 1 (- K))))
  else I.sub prt EX (ione prt).

Definition T_expm1 (prt pra : F.precision) (K B s e : Z) : I.type :=
  let X := ival pra B s e in
  let T1 := if 1 <=? K then T_expm1_main prt K (ival prt B s e) else I.whole in
  let T2 := I.upper_extent X in
  let U := I.sub pra (ione pra) X in
  let T3 := if is_gt (I.sign_strict U) then I.lower_extent (I.div pra X U) else I.whole in
  (* x >= -2:  exp x = (exp (x/2))^2 >= (1 + x/2)^2, i.e. exp x - 1 >= x + x^2/4: a bound that stays
     strictly away from x (a directed rounding of x + x^2/2 + ... lands exactly one ulp from x) *)
  let T4 := if is_gt (I.sign_large (I.add pra X (I.fromZ pra 2)))
            then I.upper_extent (I.add pra X (I.div pra (I.mul pra X X) (I.fromZ pra 4))) else I.whole in
  I.meet (I.meet T1 T4) (I.meet T2 T3).

(** verified logarithm: Newton iteration on exp (heuristic), then a bracket [a, b] re-established
    by two certified exp enclosures:  exp a <= x <= exp b  ->  a <= ln x <= b *)
Definition newton_step (pr : F.precision) (X Y : I.type) : I.type :=
  let Ym := pt (I.midpoint Y) in
  let EY := I.exp pr Ym in
  let Xm := pt (I.midpoint X) in
  (* y + 2 (x - e^y) / (x + e^y): third order near ln x, and never moves by more than 2 (a plain
     Newton step from a poor start can jump to astronomically large y) *)
  I.add pr Ym (I.div pr (I.mul pr (I.fromZ pr 2) (I.sub pr Xm EY)) (I.add pr Xm EY)).

Definition unit_ball : I.type := I.bnd (F.fromZ (-1)) (F.fromZ 1).

Definition vln (pr : F.precision) (slack : Z) (X Y0 : I.type) (steps : list positive) : I.type :=
  let Y := fold_left (fun y q => newton_step (F.PtoP q) X y) steps Y0 in
  let M := pt (I.midpoint Y) in
  let eps := I.mul pr unit_ball (ival pr 2 1 (- slack)) in
  let Yw := I.add pr M (I.mul pr (I.add pr (ione pr) (I.abs M)) eps) in
  let a := I.lower Yw in
  let b := I.upper Yw in
  if F.real a && F.real b &&
     is_gt (I.sign_large (I.sub pr X (I.exp pr (pt a)))) &&
     is_gt (I.sign_large (I.sub pr (I.exp pr (pt b)) X))
  then I.meet (I.upper_extent (pt a)) (I.lower_extent (pt b))
  else I.nai.

(** ln x for x given as an interval X (exact value x0 inside); sharpened by
    (x-1)/x <= ln x <= x - 1 *)
(** upper bound of ln (1 + d) that stays strictly away from d.  For d >= -1/2: with t = ln (1 + d) >= -2,
    d = exp t - 1 >= t + t^2/4 and |t| >= |d| / (1 + |d|), hence t <= d - d^2 / (4 (1 + |d|)^2).
    (A directed rounding of d - d^2/2 + ... lands exactly one ulp from d, and d itself is the bound
    given by ln (1 + d) <= d.) *)
Definition ln1p_upper (pra : F.precision) (D : I.type) : I.type :=
  if is_ge (I.sign_large (I.add pra (I.mul pra (I.fromZ pra 2) D) (ione pra))) then
    let A1 := I.add pra (ione pra) (I.abs D) in
    I.lower_extent (I.sub pra D (I.div pra (I.mul pra D D) (I.mul pra (I.fromZ pra 4) (I.mul pra A1 A1))))
  else I.whole.

(** heuristic guard (either branch is sound): 1/4 < X < 4; a difference x - 1 for a huge or tiny x
    aligns as many bits as the exponents are apart *)
Definition near_one (X : I.type) : bool :=
  match F.cmp (I.upper X) (F.fromZ 4), F.cmp (I.lower X) (Specific_ops.Float 1 (-2)) with
  | Xlt, Xgt => true
  | _, _ => false
  end.

(** ln x for x given as an interval (Xt at precision prt, Xa at precision pra, both contain x);
    sharpened next to 1 by (x-1)/x <= ln x <= x - 1 and by ln1p_upper (x - 1) *)
Definition T_ln_of (prt pra : F.precision) (slack : Z) (Xt Xa Y0 : I.type) (steps : list positive) : I.type :=
  let T1 := vln prt slack Xt Y0 steps in
  let T23 :=
    if near_one Xa then
      let Dm := I.sub pra Xa (ione pra) in
      let T2 := I.lower_extent Dm in
      let T3 := if is_gt (I.sign_strict Xa) then I.upper_extent (I.div pra Dm Xa) else I.whole in
      I.meet (ln1p_upper pra Dm) (I.meet T2 T3)
    else I.whole in
  I.meet T1 T23.

Definition T_ln (prt pra : F.precision) (slack B s e : Z) (Y0 : I.type) (steps : list positive) : I.type :=
  T_ln_of prt pra slack (ival prt B s e) (ival pra B s e) Y0 steps.

(** ln (1 + x):  x/(1+x) <= ln(1+x) <= x  for x > -1 *)
Definition T_ln1p (prt pra : F.precision) (slack B s e : Z) (Y0 : I.type) (steps : list positive) : I.type :=
  let X := ival pra B s e in
  let X1 := I.add pra (ione pra) X in
  let T1 := vln prt slack X1 Y0 steps in
  let T2 := I.lower_extent X in
  let T3 := if is_gt (I.sign_strict X1) then I.upper_extent (I.div pra X X1) else I.whole in
  let T4 := ln1p_upper pra X in
  I.meet (I.meet T1 T4) (I.meet T2 T3).

Definition T_powi (pra : F.precision) (B s e n : Z) : I.type :=
  I.power_int pra (ival pra B s e) n.

(** x^y = exp (y ln x), x > 0 *)
Definition T_powf (prt pra : F.precision) (slack B s e ys ye : Z) (Y0 : I.type) (steps : list positive) : I.type :=
  I.exp prt (I.mul prt (ival prt B ys ye) (T_ln prt pra slack B s e Y0 steps)).

(** ------------------------------------------------------------------------------------------
    the checkers.  (s, e) argument, (rs, re) result, fexact = the API flagged the result Exact.
    hint: 0 = start Newton from the result itself (ln, ln_1p), otherwise from I.ln at 60 bits. *)
Definition start_of (pr : F.precision) (X : I.type) : I.type := ln_guess (F.PtoP 60) X.

Definition check_exp (prt pra : positive) (B p s e rs re : Z) (fexact : bool) : verdict :=
  let prt' := F.PtoP prt in let pra' := F.PtoP pra in
  if s =? 0 then decide_exact B p 1 0 rs re fexact
  else if fexact && feq B rs re 1 0 then VReject          (* exp x = 1 only for x = 0 *)
  else decide_encl pra' B p (T_exp prt' pra' B s e) (ival pra' B rs re) fexact.

(** exp_m1 of x <= -K with 2^K > B^p:  -1 < t <= -1 + 2^-K < -1 + B^-p, so every r in
    [-1, -1 + B^-p] is strictly within B^-p = ulp_p(t) of t (closed intervals cannot express -1 < t) *)
Definition expm1_neg_rule (K B p s e rs re : Z) : bool :=
  (1 <=? K) && (0 <=? p) && (B ^ p <? 2 ^ K) && fle B s e (- K) 0 &&
  fle B (-1) 0 rs re && fle B rs re (1 - B ^ p) (- p).

Definition check_expm1 (prt pra : positive) (B p s e rs re : Z) (fexact : bool) : verdict :=
  let prt' := F.PtoP prt in let pra' := F.PtoP pra in
  if s =? 0 then decide_exact B p 0 0 rs re fexact
  else if fexact && feq B rs re s e then VReject          (* exp x - 1 = x only for x = 0 *)
  else if negb fexact && expm1_neg_rule (Zpos prt) B p s e rs re then VAccept
  else decide_encl pra' B p (T_expm1 prt' pra' (Zpos prt) B s e) (ival pra' B rs re) fexact.

Definition check_ln (prt pra : positive) (slack : Z) (from_result : bool) (steps : list positive)
    (B p s e rs re : Z) (fexact : bool) : verdict :=
  let prt' := F.PtoP prt in let pra' := F.PtoP pra in
  if s <=? 0 then VUndecided
  else if feq B s e 1 0 then decide_exact B p 0 0 rs re fexact
  else if fexact && (rs =? 0) then VReject                (* ln x = 0 only for x = 1 *)
  else
    let Y0 := if from_result then ival prt' B rs re else start_of prt' (ival prt' B s e) in
    decide_encl pra' B p (T_ln prt' pra' slack B s e Y0 steps) (ival pra' B rs re) fexact.

Definition check_ln1p (prt pra : positive) (slack : Z) (from_result : bool) (steps : list positive)
    (B p s e rs re : Z) (fexact : bool) : verdict :=
  let prt' := F.PtoP prt in let pra' := F.PtoP pra in
  if s =? 0 then decide_exact B p 0 0 rs re fexact
  else if fexact && feq B rs re s e then VReject          (* ln (1 + x) = x only for x = 0 *)
  else
    let Y0 := if from_result then ival prt' B rs re
              else start_of prt' (I.add prt' (ione prt') (ival prt' B s e)) in
    decide_encl pra' B p (T_ln1p prt' pra' slack B s e Y0 steps) (ival pra' B rs re) fexact.

(** x^n.  [exact_ok]: the caller judged |n| * size(s) small enough to expand s^|n| as an integer
    (a resource decision; both branches are sound). *)
Definition check_powi (pra : positive) (exact_ok : bool) (B p s e n rs re : Z) (fexact : bool) : verdict :=
  let pra' := F.PtoP pra in
  if n =? 0 then decide_exact B p 1 0 rs re fexact
  else if s =? 0 then (if 0 <? n then decide_exact B p 0 0 rs re fexact else VUndecided)
  else if exact_ok && (0 <? n) then decide_exact B p (s ^ n) (e * n) rs re fexact
  else if Z.abs s =? 1 then decide_exact B p (s ^ Z.abs n) (e * n) rs re fexact   (* (+-B^e)^n is a float *)
  else if exact_ok && feq B (rs * s ^ (- n)) (re + e * (- n)) 1 0 then VAccept
  else if exact_ok && fexact then VReject
  else decide_encl pra' B p (T_powi pra' B s e n) (ival pra' B rs re) fexact.

(** x^y, x >= 0.  An integer y of moderate size goes through check_powi. *)
Definition check_powf (prt pra : positive) (slack : Z) (steps : list positive) (exact_ok : bool)
    (B p s e ys ye rs re : Z) (fexact : bool) : verdict :=
  let prt' := F.PtoP prt in let pra' := F.PtoP pra in
  if ys =? 0 then decide_exact B p 1 0 rs re fexact
  else if (0 <=? ye) && (ye <=? 64) then check_powi pra exact_ok B p s e (ys * B ^ ye) rs re fexact
  else if s <? 0 then VUndecided
  else if s =? 0 then (if 0 <? ys then decide_exact B p 0 0 rs re fexact else VUndecided)
  else if feq B s e 1 0 then decide_exact B p 1 0 rs re fexact
  else
    decide_encl pra' B p
      (T_powf prt' pra' slack B s e ys ye (start_of prt' (ival prt' B s e)) steps)
      (ival pra' B rs re) fexact.

(** ------------------------------------------------------------------------------------------
    as-is accuracy of the directed rounding modes (open finding C11 directed_faithful): every
    intermediate operation rounds in the same direction, so the error of the final result can exceed
    one ulp.  What the implementation still guarantees, and what these functions decide, is
    B^E <= |r| and |r - t| < 2 B^(E-p+1): less than two units in the last place of the RESULT. *)
Definition loose_ulp (pr : F.precision) (B p : Z) (T : I.type) (rs re : Z) : verdict :=
  let E := dlen B rs + re - 1 in
  if fle B 1 E (Z.abs rs) re &&
     is_gt (I.sign_strict (I.sub pr (ival pr B 2 (E - p + 1)) (I.abs (I.sub pr (ival pr B rs re) T))))
  then VAccept else VUndecided.

Definition loose_exp (prt pra : positive) (B p s e rs re : Z) : verdict :=
  loose_ulp (F.PtoP pra) B p (T_exp (F.PtoP prt) (F.PtoP pra) B s e) rs re.

Definition loose_expm1 (prt pra : positive) (B p s e rs re : Z) : verdict :=
  loose_ulp (F.PtoP pra) B p (T_expm1 (F.PtoP prt) (F.PtoP pra) (Zpos prt) B s e) rs re.

Definition loose_ln (prt pra : positive) (slack : Z) (steps : list positive) (B p s e rs re : Z) : verdict :=
  let prt' := F.PtoP prt in let pra' := F.PtoP pra in
  if s <=? 0 then VUndecided else
  loose_ulp pra' B p (T_ln prt' pra' slack B s e (start_of prt' (ival prt' B s e)) steps) rs re.

Definition loose_ln1p (prt pra : positive) (slack : Z) (steps : list positive) (B p s e rs re : Z) : verdict :=
  let prt' := F.PtoP prt in let pra' := F.PtoP pra in
  loose_ulp pra' B p
    (T_ln1p prt' pra' slack B s e (start_of prt' (I.add prt' (ione prt') (ival prt' B s e))) steps)
    rs re.

Definition loose_powi (pra : positive) (B p s e n rs re : Z) : verdict :=
  let pra' := F.PtoP pra in
  if s =? 0 then VUndecided else loose_ulp pra' B p (T_powi pra' B s e n) rs re.

Definition loose_powf (prt pra : positive) (slack : Z) (steps : list positive) (B p s e ys ye rs re : Z) : verdict :=
  let prt' := F.PtoP prt in let pra' := F.PtoP pra in
  if s <=? 0 then VUndecided
  else if (0 <=? ye) && (ye <=? 64) then loose_powi pra B p s e (ys * B ^ ye) rs re
  else loose_ulp pra' B p
         (T_powf prt' pra' slack B s e ys ye (start_of prt' (ival prt' B s e)) steps) rs re.
