(** C11 (termination of the series loops): fuel bounds as a function of the working precision,
    for loops whose operations ROUND.

    Cross/SeriesLoops.v (C16) proves termination of the three series loops over exact rationals
    with every operation exact and a threshold bounded below by a constant.  Here
      - every operation rounds: [rmul], [rdivz], [radd] are arbitrary functions that satisfy the
        relative-error contract of a float operation (|rmul a b| <= |a||b|(1+eps), ...: what
        repr_round / repr_div provide in every rounding mode with eps = B^(1-P)),
      - the threshold is the one of FBig::sub_ulp: B^(exponent + digits_lb - precision - 1) >= tau*|sum|
        with tau = B^(-2P-2) for every digit estimate >= 0 (lemma [sub_ulp_threshold], proved on the
        as-is definition ElemAsis.sub_ulp_exp for EVERY f32 estimate layer),
      - the sums are shown to stay away from zero, so the fuel is an explicit function
        [series_fuel B P] of base and precision alone (about (2P+2) log2 B + 6 iterations).
    The generic theorem [gloop_terminates] covers any loop of the shape
        loop { (inc, state) = step(state); if test(inc, sum) { return sum }; sum = radd(sum, inc) }
    whose increments decay geometrically; [exp_loop_terminates] and [atanh_loop_terminates]
    instantiate it with the step functions of exp_internal and of iacoth / ln_internal.
    What is NOT proved (named in series_fuel_partial): that the Z-level loops of ElemAsis.v are
    instances, i.e. the rounding contract of FBig addition for operands of p + 1 digits. *)
From Coq Require Import QArith Qabs Qround ZArith Lia Lqa.
From Dashu Require Import Cross.SeriesLoops.
Open Scope Q_scope.

Lemma Qabs_ge_sub a b : Qabs a - Qabs b <= Qabs (a + b).
Proof.
  pose proof (Qabs_triangle (a + b) (- b)) as H. rewrite Qabs_opp in H.
  setoid_replace (a + b + - b) with a in H by ring. lra.
Qed.

Lemma Qabs_zero r : Qabs r == 0 -> r == 0.
Proof.
  intros H. pose proof (Qle_Qabs r). pose proof (Qle_Qabs (- r)) as H1. rewrite Qabs_opp in H1. lra.
Qed.

Lemma qpow_1me eps j : 0 <= eps -> eps <= 1 -> 1 - inject_Z (Z.of_nat j) * eps <= qpow (1 - eps) j.
Proof.
  intros H0 H1. induction j.
  - cbn [qpow Z.of_nat]. change (inject_Z 0) with 0. lra.
  - rewrite Nat2Z.inj_succ. unfold Z.succ. rewrite inject_Z_plus. cbn [qpow].
    change (inject_Z 1) with 1.
    assert (0 <= inject_Z (Z.of_nat j)) by (change 0 with (inject_Z 0); rewrite <- Zle_Qle; lia).
    set (J := inject_Z (Z.of_nat j)) in *. nra.
Qed.

Section Generic.
Variable A : Type.
Variable step : A -> Q * A.
Variable radd : Q -> Q -> Q.
Variable thr : Q -> Q.
Variable test : Q -> Q -> bool.

Fixpoint gloop (fuel : nat) (sum : Q) (a : A) : option Q :=
  match fuel with
  | O => None
  | S f => let '(inc, a') := step a in
           if test inc sum then Some sum else gloop f (radd sum inc) a'
  end.

Fixpoint nth_state (j : nat) (a : A) : A :=
  match j with O => a | S j' => snd (step (nth_state j' a)) end.
Definition nth_inc (j : nat) (a : A) : Q := fst (step (nth_state j a)).

Variables eps tau c q sigma sigma' : Q.
Hypothesis eps_range : 0 <= eps /\ eps <= 1.
Hypothesis q_range : 0 <= q /\ q < 1.
Hypothesis c_nonneg : 0 <= c.
Hypothesis radd_ok : forall a b, Qabs (radd a b - (a + b)) <= eps * Qabs (a + b).
Hypothesis thr_ok : forall s, tau * Qabs s <= thr s.
Hypothesis test_ok : forall i s, Qabs i < thr s -> test i s = true.
Variable a0 : A.
Variable s0 : Q.
Hypothesis decay : forall j, Qabs (nth_inc j a0) <= c * qpow q j.
Hypothesis s0_lb : sigma <= Qabs s0.
Variable N : nat.
Hypothesis N_eps : inject_Z (Z.of_nat N) * eps <= 1 # 4.
Hypothesis margin : sigma' + c / (1 - q) <= (3 # 4) * sigma.
Hypothesis sigma'_pos : 0 < sigma'.
Hypothesis tau_pos : 0 < tau.
Hypothesis stop : c * qpow q N < tau * sigma'.

Fixpoint geo (j : nat) : Q := match j with O => 0 | S j' => geo j' + c * qpow q j' end.

Lemma geo_closed j : geo j * (1 - q) == c * (1 - qpow q j).
Proof. induction j; cbn [geo qpow]; [ring|]. rewrite Qmult_plus_distr_l, IHj. ring. Qed.

Lemma geo_nonneg j : 0 <= geo j.
Proof. induction j; cbn [geo]; [lra|]. pose proof (qpow_nonneg q j (proj1 q_range)). nra. Qed.

Lemma geo_le j : geo j <= c / (1 - q).
Proof.
  pose proof (geo_closed j) as E. pose proof (qpow_nonneg q j (proj1 q_range)) as P.
  destruct q_range as [q0 q1].
  apply Qle_shift_div_l; [lra|]. rewrite E. nra.
Qed.

Lemma radd_lb a b : (1 - eps) * (Qabs a - Qabs b) <= Qabs (radd a b).
Proof.
  pose proof (radd_ok a b) as H. pose proof (Qabs_ge_sub a b) as T.
  pose proof (Qabs_triangle (radd a b - (a + b)) (- radd a b)) as H2. rewrite Qabs_opp in H2.
  setoid_replace (radd a b - (a + b) + - radd a b) with (- (a + b)) in H2 by ring. rewrite Qabs_opp in H2.
  destruct eps_range. pose proof (Qabs_nonneg (a + b)).
  assert ((1 - eps) * Qabs (a + b) <= Qabs (radd a b)) by lra. nra.
Qed.

Lemma gloop_from : forall k j s fuel, (j + k = N)%nat ->
  qpow (1 - eps) j * sigma - geo j <= Qabs s -> (S k <= fuel)%nat ->
  gloop fuel s (nth_state j a0) <> None.
Proof.
  destruct eps_range as [e0 e1]. destruct q_range as [q0 q1].
  induction k as [|k IH]; intros j s fuel Hj Hs Hf; (destruct fuel as [|f]; [lia|]); cbn [gloop].
  - assert (j = N) by lia. subst j.
    pose proof (decay N) as D. unfold nth_inc in D.
    destruct (step (nth_state N a0)) as [inc a'] eqn:E. cbn [fst] in D.
    rewrite test_ok; [discriminate|].
    pose proof (qpow_1me eps N e0 e1) as P1. pose proof (geo_le N) as G. pose proof (thr_ok s) as T.
    assert (sigma' <= Qabs s).
    { assert (0 <= sigma) by (pose proof (Qabs_nonneg s0); destruct (Qlt_le_dec sigma 0); [|assumption];
        exfalso; pose proof (geo_nonneg 0); assert (0 <= c / (1 - q)) by (apply Qle_shift_div_l; lra); lra).
      nra. }
    nra.
  - pose proof (decay j) as D. unfold nth_inc in D.
    destruct (step (nth_state j a0)) as [inc a'] eqn:E. cbn [fst] in D.
    destruct (test inc s); [discriminate|].
    assert (Ea : a' = nth_state (S j) a0) by (cbn [nth_state]; rewrite E; reflexivity).
    rewrite Ea. apply IH; [lia | | lia].
    cbn [qpow geo]. pose proof (radd_lb s inc) as L. pose proof (geo_nonneg j) as G0.
    pose proof (qpow_nonneg q j q0) as Pq.
    set (Y := qpow (1 - eps) j * sigma) in *. set (G := geo j) in *. set (T := c * qpow q j) in *.
    assert (0 <= T) by (unfold T; nra).
    assert ((1 - eps) * (Y - G - T) <= Qabs (radd s inc)) by nra.
    assert ((1 - eps) * Y - (G + T) <= (1 - eps) * (Y - G - T)) by nra.
    unfold Y in *. lra.
Qed.

(** any loop with geometrically decaying increments, rounded additions and a threshold relative
    to the current sum stops within N + 1 iterations *)
Theorem gloop_terminates fuel : (S N <= fuel)%nat -> gloop fuel s0 a0 <> None.
Proof.
  intros Hf. apply (gloop_from N 0 s0 fuel); [lia | | exact Hf].
  cbn [qpow geo]. lra.
Qed.

End Generic.

(* ------------------------------------------------------------------ the three loops, rounded *)
Section Rounded.
Variable eps : Q.
Hypothesis eps_range : 0 <= eps /\ eps <= 1 # 16.
Variable rmul : Q -> Q -> Q.
Variable rdivz : Q -> Z -> Q.
Variable radd : Q -> Q -> Q.
Hypothesis rmul_ok : forall a b, Qabs (rmul a b) <= Qabs a * Qabs b * (1 + eps).
Hypothesis rdivz_ok : forall a d, (1 <= d)%Z -> Qabs (rdivz a d) * inject_Z d <= Qabs a * (1 + eps).
Hypothesis radd_ok : forall a b, Qabs (radd a b - (a + b)) <= eps * Qabs (a + b).
Variable tau : Q.
Hypothesis tau_pos : 0 < tau.
Variable thr : Q -> Q.
Hypothesis thr_ok : forall s, tau * Qabs s <= thr s.

Lemma rdivz_le a d : (1 <= d)%Z -> Qabs (rdivz a d) <= Qabs a * (1 + eps).
Proof.
  intros Hd. pose proof (rdivz_ok a d Hd) as H. pose proof (inject_Z_ge_1 d Hd).
  pose proof (Qabs_nonneg (rdivz a d)). nra.
Qed.

(** ---- exp_internal: factorial *= k; pow *= r; increase = pow / factorial *)
Definition exp_step (r : Q) (st : Q * Z * Z) : Q * (Q * Z * Z) :=
  let '(pow, fact, k) := st in
  let fact' := (fact * k)%Z in
  let pow' := rmul pow r in
  (rdivz pow' fact', (pow', fact', (k + 1)%Z)).

Definition exp_test (inc s : Q) : bool := Qle_bool (Qabs inc) (thr s).

Definition exp_loop_r (fuel : nat) (no_scaling : bool) (r : Q) : option Q :=
  gloop _ (exp_step r) radd exp_test fuel (if no_scaling then r else radd 1 r) (r, 1%Z, 2%Z).

Section Exp.
Variable r : Q.
Hypothesis r_small : Qabs r <= 1 # 2.
Let q := Qabs r * (1 + eps).

Lemma exp_state_inv j :
  let '(pow, fact, k) := nth_state _ (exp_step r) j (r, 1%Z, 2%Z) in
  k = (Z.of_nat j + 2)%Z /\ (1 <= fact)%Z /\
  Qabs pow <= Qabs r * qpow (q / 2) j * inject_Z fact.
Proof.
  induction j.
  - cbn [nth_state qpow Z.of_nat]. split; [reflexivity|]. split; [lia|]. change (inject_Z 1) with 1. lra.
  - cbn [nth_state]. destruct (nth_state _ (exp_step r) j (r, 1%Z, 2%Z)) as [[pow fact] k].
    destruct IHj as (Hk & Hf & Hp). cbn [exp_step snd].
    split; [lia|]. split; [nia|].
    pose proof (rmul_ok pow r) as M. rewrite inject_Z_mult.
    assert (Hk2 : 2 <= inject_Z k).
    { change 2 with (inject_Z 2). rewrite <- Zle_Qle. lia. }
    assert (Hf1 : 1 <= inject_Z fact) by (apply inject_Z_ge_1; exact Hf).
    pose proof (Qabs_nonneg r) as R0. pose proof (Qabs_nonneg pow) as P0.
    assert (Q0 : 0 <= q / 2) by (unfold q; destruct eps_range; apply Qle_shift_div_l; nra).
    pose proof (qpow_nonneg (q / 2) j Q0) as QP. cbn [qpow].
    set (QJ := qpow (q / 2) j) in *. destruct eps_range as [e0 e1].
    assert (Qabs pow * Qabs r * (1 + eps) <= Qabs r * QJ * inject_Z fact * q).
    { assert (E1 : Qabs pow * Qabs r * (1 + eps) == Qabs pow * (Qabs r * (1 + eps))) by ring.
      assert (E2 : Qabs r * QJ * inject_Z fact * q == Qabs r * QJ * inject_Z fact * (Qabs r * (1 + eps))) by (unfold q; ring).
      rewrite E1, E2. apply Qmult_le_compat_r; [exact Hp | nra]. }
    assert (Qabs r * QJ * inject_Z fact * q == Qabs r * (q / 2 * QJ) * (inject_Z fact * 2)) by field.
    set (T := Qabs r * (q / 2 * QJ)) in *.
    assert (HT : 0 <= T) by (unfold T; nra).
    assert (HF : inject_Z fact * 2 <= inject_Z fact * inject_Z k) by nra.
    assert (T * (inject_Z fact * 2) <= T * (inject_Z fact * inject_Z k)).
    { rewrite !(Qmult_comm T). apply Qmult_le_compat_r; assumption. }
    lra.
Qed.

Lemma exp_decay j : Qabs (nth_inc _ (exp_step r) j (r, 1%Z, 2%Z)) <= (Qabs r * (q / 2) * (1 + eps)) * qpow (q / 2) j.
Proof.
  unfold nth_inc. pose proof (exp_state_inv j) as I.
  destruct (nth_state _ (exp_step r) j (r, 1%Z, 2%Z)) as [[pow fact] k]. destruct I as (Hk & Hf & Hp).
  cbn [exp_step fst].
  assert (Hfk : (1 <= fact * k)%Z) by nia.
  pose proof (rdivz_ok (rmul pow r) (fact * k) Hfk) as D. pose proof (rmul_ok pow r) as M.
  rewrite inject_Z_mult in D.
  assert (Hk2 : 2 <= inject_Z k).
  { change 2 with (inject_Z 2). rewrite <- Zle_Qle. lia. }
  assert (Hf1 : 1 <= inject_Z fact) by (apply inject_Z_ge_1; exact Hf).
  pose proof (Qabs_nonneg r) as R0. pose proof (Qabs_nonneg pow) as P0.
  destruct eps_range as [e0 e1].
  assert (Q0 : 0 <= q / 2) by (unfold q; apply Qle_shift_div_l; nra).
  pose proof (qpow_nonneg (q / 2) j Q0) as QP. set (QJ := qpow (q / 2) j) in *.
  set (I := Qabs (rdivz (rmul pow r) (fact * k))) in *.
  assert (I0 : 0 <= I) by apply Qabs_nonneg.
  (* I * fact * k <= |pow||r|(1+eps)^2 <= |r| QJ fact q (1+eps) *)
  assert (H1 : I * (inject_Z fact * inject_Z k) <= Qabs r * QJ * inject_Z fact * q * (1 + eps)).
  { unfold q. set (W2 := Qabs r * (1 + eps) * (1 + eps)). assert (0 <= W2) by (unfold W2; nra).
    assert (A1 : Qabs (rmul pow r) * (1 + eps) <= Qabs pow * Qabs r * (1 + eps) * (1 + eps)) by (apply Qmult_le_compat_r; [exact M | lra]).
    assert (A2 : Qabs pow * W2 <= Qabs r * QJ * inject_Z fact * W2) by (apply Qmult_le_compat_r; assumption).
    unfold W2 in A2. lra. }
  assert (HF : inject_Z fact * 2 <= inject_Z fact * inject_Z k) by nra.
  assert (H2 : I * (inject_Z fact * 2) <= I * (inject_Z fact * inject_Z k)).
  { rewrite !(Qmult_comm I). apply Qmult_le_compat_r; assumption. }
  assert (H3 : Qabs r * QJ * inject_Z fact * q * (1 + eps) == (Qabs r * (q / 2) * (1 + eps) * QJ) * (inject_Z fact * 2)) by field.
  assert (0 < inject_Z fact * 2) by nra.
  apply (Qmult_le_r _ _ (inject_Z fact * 2)); [assumption|]. lra.
Qed.

Variable N : nat.
Hypothesis N_eps : inject_Z (Z.of_nat N) * eps <= 1 # 4.

(** exp_m1 of a small argument (no_scaling): the series starts at r *)
Theorem exp_loop_terminates_no_scaling fuel : ~ r == 0 ->
  qpow (1 # 2) N * (3 # 2) < tau -> (S N <= fuel)%nat -> exp_loop_r fuel true r <> None.
Proof.
  intros Hr Hstop Hf. unfold exp_loop_r. destruct eps_range as [e0 e1].
  pose proof (Qabs_nonneg r) as R0.
  assert (Rp : 0 < Qabs r).
  { destruct (Qlt_le_dec 0 (Qabs r)); [assumption|]. exfalso. apply Hr. apply Qabs_zero. lra. }
  assert (Hq : q <= 17 # 32) by (unfold q; nra). assert (Hq0 : 0 <= q) by (unfold q; nra).
  assert (Hh0 : 0 <= q / 2) by (apply Qle_shift_div_l; lra).
  assert (Hh1 : q / 2 <= 17 # 64) by (apply Qle_shift_div_r; lra).
  assert (Eh : q / 2 == q * (1 # 2)) by field.
  set (c := Qabs r * (q / 2) * (1 + eps)).
  assert (Hc0 : 0 <= c) by (unfold c; assert (0 <= Qabs r * (q / 2)) by nra; nra).
  assert (Hc1 : c <= Qabs r * (3 # 8)).
  { unfold c. rewrite Eh. assert (q * (1 # 2) * (1 + eps) <= 3 # 8) by nra.
    setoid_replace (Qabs r * (q * (1 # 2)) * (1 + eps)) with (Qabs r * (q * (1 # 2) * (1 + eps))) by ring.
    rewrite (Qmult_comm (Qabs r)), (Qmult_comm (Qabs r)). apply Qmult_le_compat_r; lra. }
  assert (E4 : Qabs r / 4 == Qabs r * (1 # 4)) by field.
  assert (Hmargin : Qabs r / 4 + c / (1 - q / 2) <= (3 # 4) * Qabs r).
  { assert (c / (1 - q / 2) <= Qabs r * (1 # 2)); [|lra].
    apply Qle_shift_div_r; [lra|].
    assert (Hc2 : c <= Qabs r * ((17 # 64) * (17 # 16))).
    { unfold c. assert (q / 2 * (1 + eps) <= (17 # 64) * (17 # 16)) by nra.
      assert (0 <= q / 2 * (1 + eps)) by nra.
      setoid_replace (Qabs r * (q / 2) * (1 + eps)) with (Qabs r * (q / 2 * (1 + eps))) by ring. nra. }
    assert (Qabs r * (1 # 2) * (47 # 64) <= Qabs r * (1 # 2) * (1 - q / 2)) by nra.
    lra. }
  assert (Hstop' : c * qpow (q / 2) N < tau * (Qabs r / 4)).
  { assert (Hh : q / 2 <= 1 # 2) by lra.
    pose proof (qpow_le_mono (q / 2) (1 # 2) N Hh0 Hh) as Pm. pose proof (qpow_nonneg (q / 2) N Hh0) as P0.
    rewrite E4. set (PN := qpow (q / 2) N) in *. set (HN := qpow (1 # 2) N) in *.
    assert (c * PN <= Qabs r * (3 # 8) * HN) by nra. nra. }
  apply gloop_terminates with (thr := thr) (N := N) (eps := eps) (tau := tau) (c := c) (q := q / 2)
           (sigma := Qabs r) (sigma' := Qabs r / 4); try assumption; try lra.
  all: try (split; lra).
  all: try exact exp_decay.
  intros i s H. unfold exp_test. apply (proj2 (Qle_bool_iff _ _)). lra.
Qed.

(** exp / exp_m1 after the argument reduction: the series starts at 1 + r *)
Theorem exp_loop_terminates_scaled fuel :
  qpow (1 # 2) N * (3 # 2) < tau -> (S N <= fuel)%nat -> exp_loop_r fuel false r <> None.
Proof.
  intros Hstop Hf. unfold exp_loop_r. destruct eps_range as [e0 e1].
  pose proof (Qabs_nonneg r) as R0.
  assert (Hq : q <= 17 # 32) by (unfold q; nra). assert (Hq0 : 0 <= q) by (unfold q; nra).
  assert (Hh0 : 0 <= q / 2) by (apply Qle_shift_div_l; lra).
  assert (Hh1 : q / 2 <= 17 # 64) by (apply Qle_shift_div_r; lra).
  assert (Eh : q / 2 == q * (1 # 2)) by field.
  assert (Hs0 : 15 # 32 <= Qabs (radd 1 r)).
  { pose proof (radd_ok 1 r) as H. pose proof (Qabs_ge_sub 1 r) as T. change (Qabs 1) with 1 in T.
    pose proof (Qabs_triangle (radd 1 r - (1 + r)) (- radd 1 r)) as H2. rewrite Qabs_opp in H2.
    setoid_replace (radd 1 r - (1 + r) + - radd 1 r) with (- (1 + r)) in H2 by ring. rewrite Qabs_opp in H2.
    pose proof (Qabs_nonneg (1 + r)). nra. }
  set (c := Qabs r * (q / 2) * (1 + eps)).
  assert (Hc0 : 0 <= c) by (unfold c; assert (0 <= Qabs r * (q / 2)) by nra; nra).
  assert (Hc1 : c <= 3 # 16).
  { unfold c. rewrite Eh. assert (q * (1 # 2) * (1 + eps) <= 3 # 8) by nra.
    assert (0 <= q * (1 # 2) * (1 + eps)) by nra.
    setoid_replace (Qabs r * (q * (1 # 2)) * (1 + eps)) with (Qabs r * (q * (1 # 2) * (1 + eps))) by ring. nra. }
  assert (Hmargin : (1 # 8) + c / (1 - q / 2) <= (3 # 4) * (15 # 32)).
  { assert (c / (1 - q / 2) <= 13 # 64); [|lra].
    apply Qle_shift_div_r; [lra|].
    (* c <= |r| * q/2 * (1+eps) with |r| <= 1/2, q <= 17/32 : c <= 0.1411; (13/64)(1 - 17/64) = 0.1491 *)
    assert (c <= (1 # 2) * ((17 # 64) * (17 # 16))).
    { unfold c. assert (q / 2 * (1 + eps) <= (17 # 64) * (17 # 16)) by nra.
      assert (0 <= q / 2 * (1 + eps)) by nra.
      setoid_replace (Qabs r * (q / 2) * (1 + eps)) with (Qabs r * (q / 2 * (1 + eps))) by ring. nra. }
    nra. }
  assert (Hstop' : c * qpow (q / 2) N < tau * (1 # 8)).
  { assert (Hh : q / 2 <= 1 # 2) by lra.
    pose proof (qpow_le_mono (q / 2) (1 # 2) N Hh0 Hh) as Pm. pose proof (qpow_nonneg (q / 2) N Hh0) as P0.
    set (PN := qpow (q / 2) N) in *. set (HN := qpow (1 # 2) N) in *.
    assert (c * PN <= (3 # 16) * HN) by nra. nra. }
  apply gloop_terminates with (thr := thr) (N := N) (eps := eps) (tau := tau) (c := c) (q := q / 2)
           (sigma := 15 # 32) (sigma' := 1 # 8); try assumption; try lra.
  all: try (split; lra).
  all: try exact exp_decay.
  intros i s H. unfold exp_test. apply (proj2 (Qle_bool_iff _ _)). lra.
Qed.
End Exp.

(** ---- iacoth / ln_internal: pow *= z2; increase = pow / k; k += 2 *)
Definition atanh_step (z2 : Q) (st : Q * Z) : Q * (Q * Z) :=
  let '(pow, k) := st in
  let pow' := rmul pow z2 in
  (rdivz pow' k, (pow', (k + 2)%Z)).

(** ln_internal tests |increase| <= sub_ulp, iacoth tests increase < sub_ulp (signed) *)
Definition ln_test (inc s : Q) : bool := Qle_bool (Qabs inc) (thr s).
Definition iacoth_test (inc s : Q) : bool := Qltb inc (thr s).

Definition atanh_loop_r (test : Q -> Q -> bool) (fuel : nat) (z z2 : Q) : option Q :=
  gloop _ (atanh_step z2) radd test fuel z (z, 3%Z).

Section Atanh.
Variables z z2 : Q.
Hypothesis z2_small : Qabs z2 <= 1 # 4.     (* z2 = round(z^2), |z| <= 1/3 (ln) or 1/6 (iacoth) *)
Let q := Qabs z2 * (1 + eps).

Lemma atanh_state_inv j :
  let '(pow, k) := nth_state _ (atanh_step z2) j (z, 3%Z) in
  (1 <= k)%Z /\ Qabs pow <= Qabs z * qpow q j.
Proof.
  induction j.
  - cbn [nth_state qpow]. split; [lia | lra].
  - cbn [nth_state]. destruct (nth_state _ (atanh_step z2) j (z, 3%Z)) as [pow k].
    destruct IHj as (Hk & Hp). cbn [atanh_step snd]. split; [lia|].
    pose proof (rmul_ok pow z2) as M. cbn [qpow]. pose proof (Qabs_nonneg z) as Z0. pose proof (Qabs_nonneg z2).
    destruct eps_range. assert (0 <= q) by (unfold q; nra).
    pose proof (qpow_nonneg q j H2). unfold q in *. nra.
Qed.

Lemma atanh_decay j : Qabs (nth_inc _ (atanh_step z2) j (z, 3%Z)) <= (Qabs z * q * (1 + eps)) * qpow q j.
Proof.
  unfold nth_inc. pose proof (atanh_state_inv j) as I.
  destruct (nth_state _ (atanh_step z2) j (z, 3%Z)) as [pow k]. destruct I as (Hk & Hp).
  cbn [atanh_step fst]. pose proof (rdivz_le (rmul pow z2) k Hk) as D. pose proof (rmul_ok pow z2) as M.
  pose proof (Qabs_nonneg z). pose proof (Qabs_nonneg z2). destruct eps_range.
  assert (0 <= q) by (unfold q; nra). pose proof (qpow_nonneg q j H3) as QP.
  set (QJ := qpow q j) in *.
  set (W2 := Qabs z2 * (1 + eps) * (1 + eps)). assert (0 <= W2) by (unfold W2; nra).
  assert (A1 : Qabs (rmul pow z2) * (1 + eps) <= Qabs pow * Qabs z2 * (1 + eps) * (1 + eps)) by (apply Qmult_le_compat_r; [exact M | lra]).
  assert (A2 : Qabs pow * W2 <= Qabs z * QJ * W2) by (apply Qmult_le_compat_r; assumption).
  unfold W2 in A2. unfold q. lra.
Qed.

Variable N : nat.
Hypothesis N_eps : inject_Z (Z.of_nat N) * eps <= 1 # 4.

Theorem atanh_loop_terminates test fuel :
  (forall i s, Qabs i < thr s -> test i s = true) -> ~ z == 0 ->
  qpow (1 # 2) N * (3 # 2) < tau -> (S N <= fuel)%nat -> atanh_loop_r test fuel z z2 <> None.
Proof.
  intros Htest Hz Hstop Hf. unfold atanh_loop_r. destruct eps_range as [e0 e1].
  pose proof (Qabs_nonneg z) as Z0. pose proof (Qabs_nonneg z2) as Z20.
  assert (Zp : 0 < Qabs z).
  { destruct (Qlt_le_dec 0 (Qabs z)); [assumption|]. exfalso. apply Hz. apply Qabs_zero. lra. }
  assert (Hq : q <= 17 # 64) by (unfold q; nra). assert (Hq0 : 0 <= q) by (unfold q; nra).
  set (c := Qabs z * q * (1 + eps)).
  assert (Hqe : q * (1 + eps) <= 3 # 8) by nra. assert (Hqe0 : 0 <= q * (1 + eps)) by nra.
  assert (Ec : c == Qabs z * (q * (1 + eps))) by (unfold c; ring).
  assert (Hc0 : 0 <= c) by (rewrite Ec; nra).
  assert (Hc1 : c <= Qabs z * (3 # 8)) by (rewrite Ec; nra).
  assert (E4 : Qabs z / 4 == Qabs z * (1 # 4)) by field.
  assert (Hmargin : Qabs z / 4 + c / (1 - q) <= (3 # 4) * Qabs z).
  { assert (c / (1 - q) <= Qabs z * (1 # 2)); [|lra]. apply Qle_shift_div_r; [lra|].
    (* c <= |z| q (1+eps) <= |z| (17/64)(17/16) ; (1/2)(1 - 17/64) = 47/128 *)
    assert (Hqe2 : q * (1 + eps) <= (17 # 64) * (17 # 16)) by nra.
    assert (c <= Qabs z * ((17 # 64) * (17 # 16))).
    { rewrite Ec. rewrite !(Qmult_comm (Qabs z)). apply Qmult_le_compat_r; lra. }
    assert (Qabs z * (1 # 2) * (47 # 64) <= Qabs z * (1 # 2) * (1 - q)) by nra.
    lra. }
  assert (Hstop' : c * qpow q N < tau * (Qabs z / 4)).
  { assert (Hh : q <= 1 # 2) by lra.
    pose proof (qpow_le_mono q (1 # 2) N Hq0 Hh) as Pm. pose proof (qpow_nonneg q N Hq0) as P0.
    rewrite E4. set (PN := qpow q N) in *. set (HN := qpow (1 # 2) N) in *.
    assert (c * PN <= Qabs z * (3 # 8) * HN) by nra. nra. }
  apply gloop_terminates with (thr := thr) (N := N) (eps := eps) (tau := tau) (c := c) (q := q)
    (sigma := Qabs z) (sigma' := Qabs z / 4); try assumption; try lra.
  all: try (split; lra).
  all: try exact atanh_decay.
Qed.

Corollary ln_loop_terminates fuel : ~ z == 0 ->
  qpow (1 # 2) N * (3 # 2) < tau -> (S N <= fuel)%nat -> atanh_loop_r ln_test fuel z z2 <> None.
Proof.
  apply atanh_loop_terminates. intros i s H. unfold ln_test. apply (proj2 (Qle_bool_iff _ _)). lra.
Qed.

Corollary iacoth_loop_terminates fuel : ~ z == 0 ->
  qpow (1 # 2) N * (3 # 2) < tau -> (S N <= fuel)%nat -> atanh_loop_r iacoth_test fuel z z2 <> None.
Proof.
  apply atanh_loop_terminates. intros i s H. unfold iacoth_test, Qltb.
  pose proof (Qle_Qabs i). destruct (Qle_bool (thr s) i) eqn:E; [|reflexivity].
  apply Qle_bool_iff in E. lra.
Qed.
End Atanh.

End Rounded.

(* ------------------------------------------------------------------ fuel as a function of precision *)
(** tau = B^-(2P+2): number of iterations N with (3/2) (1/2)^N < tau *)
Definition series_steps (B P : Z) : nat := steps_half (3 # 2) (1 / inject_Z (B ^ (2 * P + 2))).
Definition series_fuel (B P : Z) : nat := S (series_steps B P).

Lemma series_steps_spec B P : (2 <= B)%Z -> (0 <= P)%Z ->
  qpow (1 # 2) (series_steps B P) * (3 # 2) < 1 / inject_Z (B ^ (2 * P + 2)).
Proof.
  intros HB HP. unfold series_steps.
  assert (0 < 1 / inject_Z (B ^ (2 * P + 2))).
  { apply Qlt_shift_div_l; [|lra]. change 0 with (inject_Z 0). rewrite <- Zlt_Qlt. apply Z.pow_pos_nonneg; lia. }
  pose proof (steps_half_spec (3 # 2) _ H). lra.
Qed.

(** the fuel is small: e.g. 100 decimal digits need 674 iterations at most, 53 bits 111 *)
Example series_fuel_values :
  series_fuel 10 100 = 674%nat /\ series_fuel 2 53 = 111%nat /\ series_fuel 36 20 = 220%nat.
Proof. vm_compute. auto. Qed.

(* ------------------------------------------------------------------ packaged statements *)
(** the three loops with rounding operations of relative error eps <= 1/16 (every float operation
    at a working precision of P >= 3 digits, any mode: eps = B^(1-P)), thresholds at least
    tau |sum| with tau = B^-(2P+2) (FBig::sub_ulp, every digit estimate), N eps <= 1/4: the fuel
    series_fuel B P suffices.  [series_fuel_partial]: the part that is missing for the Z-level
    loops of ElemAsis.v is the instance proof (rounding contract of FBig addition for operands of
    p + 1 digits, magnitude of the reduced arguments). *)
Theorem series_fuel_partial (B P : Z) eps rmul rdivz radd thr :
  (2 <= B)%Z -> (0 <= P)%Z -> 0 <= eps /\ eps <= 1 # 16 ->
  (forall a b, Qabs (rmul a b) <= Qabs a * Qabs b * (1 + eps)) ->
  (forall a d, (1 <= d)%Z -> Qabs (rdivz a d) * inject_Z d <= Qabs a * (1 + eps)) ->
  (forall a b, Qabs (radd a b - (a + b)) <= eps * Qabs (a + b)) ->
  (forall s, 1 / inject_Z (B ^ (2 * P + 2)) * Qabs s <= thr s) ->
  inject_Z (Z.of_nat (series_steps B P)) * eps <= 1 # 4 ->
  forall fuel, (series_fuel B P <= fuel)%nat ->
  (forall r, Qabs r <= 1 # 2 -> exp_loop_r rmul rdivz radd thr fuel false r <> None) /\
  (forall r, Qabs r <= 1 # 2 -> ~ r == 0 -> exp_loop_r rmul rdivz radd thr fuel true r <> None) /\
  (forall z z2, Qabs z2 <= 1 # 4 -> ~ z == 0 ->
     atanh_loop_r rmul rdivz radd (ln_test thr) fuel z z2 <> None /\
     atanh_loop_r rmul rdivz radd (iacoth_test thr) fuel z z2 <> None).
Proof.
  intros HB HP He Hm Hd Ha Ht HN fuel Hf.
  pose proof (series_steps_spec B P HB HP) as Hs.
  assert (Htau : 0 < 1 / inject_Z (B ^ (2 * P + 2))).
  { apply Qlt_shift_div_l; [|lra]. change 0 with (inject_Z 0). rewrite <- Zlt_Qlt. apply Z.pow_pos_nonneg; lia. }
  split; [|split].
  - intros r Hr. eapply exp_loop_terminates_scaled; eauto.
  - intros r Hr Hr0. eapply exp_loop_terminates_no_scaling; eauto.
  - intros z z2 Hz2 Hz. split.
    + eapply ln_loop_terminates; eauto.
    + eapply iacoth_loop_terminates; eauto.
Qed.

(** non-vacuity: exact operations and the threshold tau |s| + tau satisfy every hypothesis *)
Example series_fuel_partial_nonvacuous :
  exp_loop_r Qmult (fun a d => a / inject_Z d) Qplus (fun s => (1 # 10 ^ 6) * Qabs s + (1 # 10 ^ 6))
    (series_fuel 10 2) false (1 # 3) <> None.
Proof. vm_compute. discriminate. Qed.
