(** C08 (round 3): what is proved about the as-is model of the ln/exp route of Context::convert_base
    (Float/LargeExpAsis.v) and about its work precision as regenerated from the source (DashuGen.ConvBaseGen).

    A. structure (Z level): which inputs take the route; the answer is [round_norm] (= the specification rounding,
       C08_round_norm) of  significand * sig(exp_rem) * NB^(q + exponent(exp_rem));  every other route is the model
       the round-1 theorems are about; the Euclidean step is exact (0 <= m - q c < c in scaled integers) and its
       remainder is one [convert_int] rounding.
    B. accuracy (reals): the bound of LargeExpRoute.convert_large_route_error for an ARBITRARY work precision wp, and
       for the work precision the code uses since the repair F07 (2p + digits of exponent * ElemF32.bit_len B) a domain
       condition and a bound that no longer depend on the exponent:
         16 k log2up(NB) <= NB^(2p-1)  ->  |R - V| <= (NB^(1-p) (1 + eps) + eps) |V|,  eps <= 18 k log2up(NB) NB^(1-2p)
       (k = units in the last place of the work precision by which ln / ln_base / exp may err). *)
From Coq Require Import ZArith Reals Lra Lia Psatz Bool.
From Flocq Require Import Core.Core.
From Dashu Require Import Base.Prelude Float.RoundSpec Float.Contract Float.Model Float.ModelProof Float.AddModel Float.ElemF32
  Float.ElemAsis Int.IoSpec Float.TextIoSpec Float.TextIoModel Float.LargeExpBound Float.LargeExpRoute Float.LargeExpAsis
  Conv.ConvSpec Conv.ConvModel Float.IeeeImportModel.
From DashuGen Require Import RoundTables ConvBaseGen.
Open Scope Z_scope.

(* ------------------------------------------------------------------------------------------ *)
(** * the regenerated fragments *)

Theorem gen_threshold_small_exp : threshold_small_exp_gen = threshold_small_exp.
Proof. reflexivity. Qed.

(** since the repair F11: + the digits of 2^20 (guard digits for the constant factors of the error) *)
Theorem gen_large_work_precision p e B NB :
  large_work_precision_gen p e B NB = 2 * p + dlen NB (e * ElemF32.bit_len B) + dlen NB 1048576.
Proof. reflexivity. Qed.

Theorem gen_from_float_prec man : from_float_prec_gen man = ElemF32.bit_len man.
Proof.
  unfold from_float_prec_gen, ElemF32.bit_len. rewrite Z.abs_involutive.
  destruct (Z.eqb_spec man 0) as [->|H]; [reflexivity|].
  destruct (Z.eqb_spec (Z.abs man) 0); [lia | reflexivity].
Qed.

(** TryFrom<f32/f64> for FBig as modelled (IeeeImportModel.from_ieee_asis) carries the regenerated precision *)
Theorem from_ieee_asis_prec_gen P bits :
  from_ieee_asis P bits =
  match decode_asis P bits with
  | DFin man exp => let '(s', e') := normalize 2 man exp in Some (s', e', from_float_prec_gen man)
  | _ => None
  end.
Proof.
  unfold from_ieee_asis. destruct (decode_asis P bits); try reflexivity.
  rewrite gen_from_float_prec. reflexivity.
Qed.

Theorem gen_with_base_prec {F : Type} (O : f32ops F) W B NB p :
  with_base_prec_gen O W B NB p =
  f_to_usize O (f_div O (fst (ubig_log2_bounds O W (B ^ p))) (snd (uint_log2_bounds O NB))).
Proof. reflexivity. Qed.

Lemma log2_up_le_bit_len B : 2 <= B -> Z.log2_up B <= ElemF32.bit_len B.
Proof.
  intros H. unfold ElemF32.bit_len. destruct (Z.eqb_spec B 0); [lia|]. rewrite Z.abs_eq by lia.
  pose proof (Z.le_log2_up_succ_log2 B). lia.
Qed.

(** the digits the repair added cover the integer part of exponent * ln B:
    NB^(wp - 1) > NB^(2p - 1) * |exponent| * ElemF32.bit_len B *)
Theorem gen_large_work_precision_guard p e B NB : 2 <= NB -> 2 <= B -> 1 <= p -> e <> 0 ->
  let wp := large_work_precision_gen p e B NB in
  let g := dlen NB 1048576 in
  1 <= g /\ 1048576 < NB ^ g /\ 2 * p + g < wp /\ NB ^ (2 * p - 1 + g) * (Z.abs e * ElemF32.bit_len B) < NB ^ (wp - 1).
Proof.
  intros HN HB Hp He wp g. unfold wp. rewrite gen_large_work_precision. fold g.
  assert (BL : 1 <= ElemF32.bit_len B) by (pose proof (log2_up_le_bit_len B HB); pose proof (Z.log2_up_pos B ltac:(lia)); lia).
  assert (X0 : e * ElemF32.bit_len B <> 0) by nia.
  destruct (dlen_spec NB HN _ X0) as [[_ U] D1]. set (d := dlen NB (e * ElemF32.bit_len B)) in *.
  destruct (dlen_spec NB HN 1048576 ltac:(lia)) as [[_ UG] G1]. fold g in UG, G1. rewrite Z.abs_eq in UG by lia.
  split; [exact G1|]. split; [exact UG|]. split; [lia|].
  replace (2 * p + d + g - 1) with ((2 * p - 1 + g) + d) by lia. rewrite (Z.pow_add_r NB (2 * p - 1 + g) d) by lia.
  assert (P : 0 < NB ^ (2 * p - 1 + g)) by (apply Z.pow_pos_nonneg; lia).
  rewrite Z.abs_mul, (Z.abs_eq (ElemF32.bit_len B)) in U by lia.
  apply Z.mul_lt_mono_pos_l; [exact P | exact U].
Qed.

(** the digits the repair F07 added cover the integer part of exponent * ln B:
    NB^(wp - 1) > NB^(2p - 1) * |exponent| * ElemF32.bit_len B *)
Theorem gen_large_work_precision_covers p e B NB : 2 <= NB -> 2 <= B -> 1 <= p -> e <> 0 ->
  let wp := large_work_precision_gen p e B NB in
  2 * p < wp /\ NB ^ (2 * p - 1) * (Z.abs e * ElemF32.bit_len B) < NB ^ (wp - 1).
Proof.
  intros HN HB Hp He wp.
  destruct (gen_large_work_precision_guard p e B NB HN HB Hp He) as (G1 & _ & W1 & W2). fold wp in W1, W2.
  split; [lia|].
  assert (BL : 1 <= ElemF32.bit_len B) by (pose proof (log2_up_le_bit_len B HB); pose proof (Z.log2_up_pos B ltac:(lia)); lia).
  assert (X1 : 0 < Z.abs e * ElemF32.bit_len B) by nia.
  assert (PP : NB ^ (2 * p - 1) <= NB ^ (2 * p - 1 + dlen NB 1048576)) by (apply Z.pow_le_mono_r; lia).
  assert (NB ^ (2 * p - 1) * (Z.abs e * ElemF32.bit_len B) <= NB ^ (2 * p - 1 + dlen NB 1048576) * (Z.abs e * ElemF32.bit_len B))
    by (apply Z.mul_le_mono_nonneg_r; lia).
  lia.
Qed.

Theorem gen_large_work_precision_full p e B NB : 2 <= NB -> 2 <= B -> 1 <= p -> e <> 0 ->
  let wp := large_work_precision_gen p e B NB in
  wp = 2 * p + dlen NB (e * ElemF32.bit_len B) + dlen NB 1048576 /\ 2 * p < wp /\
  NB ^ (2 * p - 1) * (Z.abs e * ElemF32.bit_len B) < NB ^ (wp - 1).
Proof.
  intros H1 H2 H3 H4 wp. split; [exact (gen_large_work_precision p e B NB)|].
  exact (gen_large_work_precision_covers p e B NB H1 H2 H3 H4).
Qed.

(* ------------------------------------------------------------------------------------------ *)
(** * A. structure *)

Ltac not_large H :=
  repeat match type of H with context [match ?x with _ => _ end] => destruct x end; discriminate.

Section Structure.
Context {F : Type} (O : f32ops F).
Variable W : Z.

(** which inputs take the ln/exp route *)
Theorem convert_base_large_iff B NB p m s e :
  convert_base_asis B NB p m s e = CLarge ->
  NB <> B /\ p <> 0 /\ threshold_small_exp_gen < Z.abs e.
Proof.
  unfold convert_base_asis, round_norm, div_long. intros H.
  destruct (Z.eqb_spec NB B) as [E|NE]; [exfalso; revert H; clear; intros H; not_large H|].
  split; [exact NE|].
  destruct (1 <? (if B <? NB then ilog_exact NB B else 0)); [exfalso; revert H; clear; intros H; not_large H|].
  destruct (1 <? (if B <? NB then 0 else ilog_exact B NB)); [exfalso; revert H; clear; intros H; not_large H|].
  destruct (Z.eqb_spec p 0) as [P0|P0]; [discriminate|]. split; [exact P0|].
  rewrite gen_threshold_small_exp.
  destruct (Z.leb_spec (Z.abs e) threshold_small_exp) as [L|G]; [|exact G].
  exfalso. revert H; clear; intros H. not_large H.
Qed.

(** on every other route the full model is the model of the round-1 theorems *)
Theorem convert_base_full_asis_modelled fuel B NB p m s e :
  convert_base_asis B NB p m s e <> CLarge ->
  convert_base_full_asis O W fuel B NB p m s e = convert_base_asis B NB p m s e.
Proof. unfold convert_base_full_asis. destruct (convert_base_asis B NB p m s e); congruence. Qed.

(** the answer of the route: one specification rounding ([round_norm], C08_round_norm) of the product handed over *)
Theorem convert_large_asis_round fuel B NB p m s e t :
  convert_base_asis B NB p m s e = CLarge ->
  large_trace_asis O W fuel B NB p m e = Ok t ->
  convert_base_full_asis O W fuel B NB p m s e =
  round_norm NB p m (s * approx_sig (lt_exp t)) (lt_q t + approx_exp (lt_exp t)).
Proof.
  intros HL HT. unfold convert_base_full_asis, convert_large_asis. rewrite HL, HT. reflexivity.
Qed.

(** the trace: the quotient fits isize, the remainder and the quotient come from one Euclidean division of
    exponent * ln B by ln NB, exp is taken at the precision of the remainder *)
Theorem large_trace_shape fuel B NB p m e t :
  large_trace_asis O W fuel B NB p m e = Ok t ->
  let wp := large_work_precision_gen p e B NB in
  (exists a, ln_internal NB O W fuel wp m (fst (normalize NB B 0)) (snd (normalize NB B 0)) false = Ok a /\
             lt_lnB t = FB (approx_sig a) (approx_exp a) wp) /\
  lt_newexp t = prim_mul NB m e (lt_lnB t) /\
  ln_base NB O W fuel wp m = Ok (lt_lnNB t) /\
  fb_div_rem_euclid NB m (lt_newexp t) (lt_lnNB t) = Ok (lt_q t, lt_rem t) /\
  - isize_max - 1 <= lt_q t <= isize_max /\
  exp_internal NB O W fuel (fprec (lt_rem t)) m (fsig (lt_rem t)) (fexp (lt_rem t)) false = Ok (lt_exp t).
Proof.
  intros H wp. unfold large_trace_asis in H. fold wp in H.
  destruct (normalize NB B 0) as [bs be]. cbn [fst snd].
  destruct (ln_internal NB O W fuel wp m bs be false) as [a| | |]; cbn [rbind] in H; try discriminate.
  destruct (ln_base NB O W fuel wp m) as [c| | |]; cbn [rbind] in H; try discriminate.
  destruct (fb_div_rem_euclid NB m _ c) as [[q r]| | |] eqn:HE; cbn [rbind] in H; try discriminate.
  destruct ((q <? - isize_max - 1) || (isize_max <? q)) eqn:HQ; [discriminate|].
  destruct (exp_internal NB O W fuel (fprec r) m (fsig r) (fexp r) false) as [ex| | |] eqn:HX; cbn [rbind] in H; try discriminate.
  injection H as <-. cbn [lt_lnB lt_newexp lt_lnNB lt_q lt_rem lt_exp].
  apply orb_false_iff in HQ. destruct HQ as [Q1 Q2]. apply Z.ltb_ge in Q1. apply Z.ltb_ge in Q2.
  repeat split; try reflexivity; try assumption; try lia.
  exists a. split; reflexivity.
Qed.

(** the Euclidean step is exact: with both operands scaled to the smaller exponent ex, X = q * Y + r0 and
    0 <= r0 < Y; the remainder returned is the one rounding [convert_int] of r0, shifted back by ex *)
Theorem fb_div_rem_euclid_exact NB m x y q r : 2 <= NB -> 0 < fsig y ->
  fb_div_rem_euclid NB m x y = Ok (q, r) ->
  let ex := Z.min (fexp x) (fexp y) in
  let X := fsig x * NB ^ (fexp x - ex) in
  let Y := fsig y * NB ^ (fexp y - ex) in
  0 < Y /\ 0 <= X - q * Y < Y /\
  r = (let rf := convert_int NB (ctx_max (fprec x) (fprec y)) m (X - q * Y) in
       if fsig rf =? 0 then rf else FB (fsig rf) (fexp rf + ex) (fprec rf)).
Proof.
  intros HNB Hy H ex X Y. unfold fb_div_rem_euclid in H. destruct (Z.eqb_spec (fsig y) 0); [lia|].
  destruct (Z.leb_spec 0 (fexp x - fexp y)) as [L|G].
  - assert (Eex : ex = fexp y) by (unfold ex; lia).
    assert (EY : Y = fsig y) by (unfold Y; rewrite Eex, Z.sub_diag, Z.pow_0_r; ring).
    assert (EX : X = fsig x * NB ^ (fexp x - fexp y)) by (unfold X; rewrite Eex; reflexivity).
    rewrite <- EX in H. rewrite (Z.abs_eq (fsig y)) in H by lia.
    pose proof (Z.mod_pos_bound X (fsig y) Hy) as MB. pose proof (Z.div_mod X (fsig y) ltac:(lia)) as DM.
    assert (EQ : (X - X mod fsig y) / fsig y = X / fsig y).
    { replace (X - X mod fsig y) with (X / fsig y * fsig y) by lia. apply Z.div_mul. lia. }
    rewrite EQ in H. injection H as <- <-. rewrite EY.
    replace (X - X / fsig y * fsig y) with (X mod fsig y) by lia.
    split; [lia|]. split; [lia|]. reflexivity.
  - assert (Eex : ex = fexp x) by (unfold ex; lia).
    assert (EX : X = fsig x) by (unfold X; rewrite Eex, Z.sub_diag, Z.pow_0_r; ring).
    assert (EY : Y = fsig y * NB ^ (- (fexp x - fexp y))).
    { unfold Y. rewrite Eex. f_equal. f_equal. lia. }
    rewrite <- EY in H.
    assert (Y0 : 0 < Y).
    { rewrite EY. pose proof (Z.pow_pos_nonneg NB (- (fexp x - fexp y)) ltac:(lia) ltac:(lia)). nia. }
    rewrite (Z.abs_eq Y) in H by lia.
    pose proof (Z.mod_pos_bound (fsig x) Y Y0) as MB. pose proof (Z.div_mod (fsig x) Y ltac:(lia)) as DM.
    assert (EQ : (fsig x - fsig x mod Y) / Y = fsig x / Y).
    { replace (fsig x - fsig x mod Y) with (fsig x / Y * Y) by lia. apply Z.div_mul. lia. }
    rewrite EQ in H. injection H as <- <-. rewrite EX.
    replace (fsig x - fsig x / Y * Y) with (fsig x mod Y) by lia.
    split; [lia|]. split; [lia|]. reflexivity.
Qed.

End Structure.

(* ------------------------------------------------------------------------------------------ *)
(** * B. accuracy *)
Open Scope R_scope.

(** the bound of LargeExpRoute.convert_large_route_error for an arbitrary work precision wp (D = NB^(wp-1)) *)
Section IntegersWp.
Variables rB rNB : radix.
Variables p wp k e q s : Z.
Variables a c m r E Rf : R.

Let LB := ln (IZR rB).
Let LN := ln (IZR rNB).
Let D := IZR (rNB ^ (wp - 1)).
Let u := / D.
Let kap := IZR k * u.
Let tn := IZR (k * (3 * Z.log2_up rNB + 5 * Z.abs e * Z.log2_up rB)).
Let en := IZR k * D + 2 * tn * D + 2 * IZR k * tn.

Hypothesis k_pos : (1 <= k)%Z.
Hypothesis wp_pos : (1 <= wp)%Z.
Hypothesis accurate_T : 2 * tn <= D.
Hypothesis accurate_k : 4 * IZR k <= D.
Hypothesis ln_B_contract : Rabs (a - LB) <= kap * LB.
Hypothesis ln_NB_contract : Rabs (c - LN) <= kap * LN.
Hypothesis mul_contract : Rabs (m - IZR e * a) <= u * Rabs (IZR e * a).
Hypothesis euclid : 0 <= m - IZR q * c < c.
Hypothesis rem_contract : Rabs (r - (m - IZR q * c)) <= u * (m - IZR q * c).
Hypothesis exp_contract : Rabs (E - exp r) <= kap * exp r.
Hypothesis final_rounding :
  Rabs (Rf - IZR s * E * bpow rNB q) <= bpow rNB (1 - p) * Rabs (IZR s * E * bpow rNB q).

Theorem convert_large_route_error_wp :
  Rabs (Rf - IZR s * bpow rB e) <=
  (bpow rNB (1 - p) * (1 + en / (D * D)) + en / (D * D)) * Rabs (IZR s * bpow rB e).
Proof.
  pose proof (radix_gt_1 rB) as GB. pose proof (radix_gt_1 rNB) as GN.
  destruct (ln_le_log2_up rB ltac:(lia)) as [LBp LBu]. destruct (ln_le_log2_up rNB ltac:(lia)) as [LNp LNu].
  fold LB in LBp, LBu. fold LN in LNp, LNu.
  assert (PD : 0 < D) by (unfold D; apply IZR_lt; apply Z.pow_pos_nonneg; lia).
  assert (Pu : 0 < u) by (unfold u; apply Rinv_0_lt_compat; exact PD).
  assert (Pk : 1 <= IZR k) by (apply IZR_le; exact k_pos).
  assert (uD : u * D = 1) by (unfold u; apply Rinv_l; lra).
  assert (Hkap : kap <= 1 / 4) by (unfold kap; nra).
  assert (Hukap : u <= kap) by (unfold kap; nra).
  assert (Kp : 0 <= kap) by (unfold kap; nra).
  rewrite !bpow_exp in *. fold LB. fold LN in final_rounding.
  assert (Ptn : 0 <= tn).
  { unfold tn. apply IZR_le. pose proof (Z.log2_up_nonneg rNB). pose proof (Z.log2_up_nonneg rB). nia. }
  assert (HT : Tcl LB LN kap (IZR e) <= tn * u).
  { unfold Tcl, kap, tn. rewrite mult_IZR, plus_IZR, !mult_IZR, abs_IZR.
    pose proof (Rabs_pos (IZR e)) as Pe.
    assert (3 * LN + 5 * Rabs (IZR e) * LB <= 3 * IZR (Z.log2_up rNB) + 5 * Rabs (IZR e) * IZR (Z.log2_up rB)) by nra.
    replace (IZR k * u * (3 * LN + 5 * Rabs (IZR e) * LB)) with ((IZR k * u) * (3 * LN + 5 * Rabs (IZR e) * LB)) by ring.
    replace (IZR k * (3 * IZR (Z.log2_up rNB) + 5 * Rabs (IZR e) * IZR (Z.log2_up rB)) * u)
      with ((IZR k * u) * (3 * IZR (Z.log2_up rNB) + 5 * Rabs (IZR e) * IZR (Z.log2_up rB))) by ring.
    apply Rmult_le_compat_l; [nra | assumption]. }
  assert (HT2 : Tcl LB LN kap (IZR e) <= 1 / 2) by nra.
  pose proof (route_final_error LB LN LBp LNp u kap (Rlt_le _ _ Pu) Hukap Hkap (IZR e) (IZR q) a c m r E
                ln_B_contract ln_NB_contract mul_contract euclid rem_contract exp_contract
                (exp (IZR (1 - p) * LN)) Rf (IZR s) (Rlt_le _ _ (exp_pos _)) final_rounding HT2) as H.
  eapply Rle_trans; [exact H|]. apply Rmult_le_compat_r; [apply Rabs_pos|].
  assert (TP : 0 <= Tcl LB LN kap (IZR e)).
  { unfold Tcl. pose proof (Rabs_pos (IZR e)). assert (0 <= Rabs (IZR e) * LB) by (apply Rmult_le_pos; lra).
    apply Rmult_le_pos; lra. }
  assert (He : eps LB LN kap (IZR e) <= en / (D * D)).
  { unfold eps. set (T := Tcl LB LN kap (IZR e)) in *.
    replace (en / (D * D)) with (kap + 2 * (tn * u) + 2 * kap * (tn * u)).
    - nra.
    - unfold en, kap, u. field. lra. }
  assert (0 <= eps LB LN kap (IZR e)).
  { unfold eps. nra. }
  pose proof (exp_pos (IZR (1 - p) * LN)).
  fold LN. apply Rplus_le_compat; [apply Rmult_le_compat_l; lra | lra].
Qed.

End IntegersWp.

(** the integer side of the next theorem *)
Lemma fixed_domain_Z (k P Dz X e L2N L2B tnz : Z) :
  (1 <= k -> 0 < P -> 1 <= Z.abs e -> 1 <= L2N -> 0 <= L2B -> Z.abs e * L2B <= X -> 1 <= X ->
   16 * k * L2N <= P -> P * X < Dz -> tnz = k * (3 * L2N + 5 * Z.abs e * L2B) ->
   2 * tnz <= Dz /\ 4 * k <= Dz /\ 0 < Dz /\
   (k * Dz + 2 * tnz * Dz + 2 * k * tnz) * P <= 18 * k * L2N * (Dz * Dz))%Z.
Proof.
  intros Hk PP Ae LN1 LB0 A1 A2 Hdom W2 Etn.
  assert (A3 : (k * L2N <= k * L2N * X)%Z) by nia.
  assert (A4 : (k * (Z.abs e * L2B) <= k * L2N * X)%Z) by nia.
  assert (T0 : (2 * tnz <= 16 * (k * L2N * X))%Z) by (rewrite Etn; nia).
  assert (T0' : (16 * (k * L2N * X) <= P * X)%Z) by nia.
  assert (T1 : (2 * tnz <= Dz)%Z) by lia.
  assert (T3 : (P <= Dz)%Z) by nia.
  assert (T2 : (16 * k <= Dz)%Z) by nia.
  assert (Tn0 : (0 <= tnz)%Z) by (rewrite Etn; nia).
  assert (PDz : (0 < Dz)%Z) by lia.
  split; [exact T1|]. split; [lia|]. split; [exact PDz|].
  assert (B2 : (2 * tnz * P <= 16 * (k * L2N) * Dz)%Z).
  { assert (2 * tnz * P <= 16 * (k * L2N * X) * P)%Z by nia.
    assert (16 * (k * L2N * X) * P = 16 * (k * L2N) * (P * X))%Z by ring.
    assert (16 * (k * L2N) * (P * X) <= 16 * (k * L2N) * Dz)%Z by nia. lia. }
  assert (B1 : (k * Dz * P <= k * L2N * (Dz * Dz))%Z).
  { assert (k * Dz * P <= k * Dz * Dz)%Z by nia. nia. }
  assert (B2' : (2 * tnz * Dz * P <= 16 * (k * L2N) * (Dz * Dz))%Z) by nia.
  assert (B3 : (2 * k * tnz * P <= k * L2N * (Dz * Dz))%Z).
  { assert (k * (2 * tnz * P) <= k * (16 * (k * L2N) * Dz))%Z by nia.
    assert (k * (16 * (k * L2N) * Dz) <= k * L2N * (Dz * Dz))%Z by nia. lia. }
  lia.
Qed.

(** ... and for the work precision of the code (regenerated): domain and bound free of the exponent *)
Theorem convert_large_route_error_fixed (rB rNB : radix) (p k e q s : Z) (a c m r E Rf : R) :
  let wp := large_work_precision_gen p e rB rNB in
  let LB := ln (IZR rB) in let LN := ln (IZR rNB) in
  let D := IZR (rNB ^ (wp - 1)) in let u := / D in let kap := IZR k * u in
  let tn := IZR (lr_tn k rB rNB e) in
  let en := IZR k * D + 2 * tn * D + 2 * IZR k * tn in
  (1 <= k)%Z -> (1 <= p)%Z -> e <> 0%Z -> (16 * k * Z.log2_up rNB <= rNB ^ (2 * p - 1))%Z ->
  Rabs (a - LB) <= kap * LB -> Rabs (c - LN) <= kap * LN ->
  Rabs (m - IZR e * a) <= u * Rabs (IZR e * a) ->
  0 <= m - IZR q * c < c -> Rabs (r - (m - IZR q * c)) <= u * (m - IZR q * c) ->
  Rabs (E - exp r) <= kap * exp r ->
  Rabs (Rf - IZR s * E * bpow rNB q) <= bpow rNB (1 - p) * Rabs (IZR s * E * bpow rNB q) ->
  Rabs (Rf - IZR s * bpow rB e) <=
    (bpow rNB (1 - p) * (1 + en / (D * D)) + en / (D * D)) * Rabs (IZR s * bpow rB e) /\
  en / (D * D) <= IZR (18 * k * Z.log2_up rNB) * bpow rNB (1 - 2 * p).
Proof.
  intros wp LB LN D u kap tn en Hk Hp He Hdom C1 C2 C3 C4 C5 C6 C7.
  pose proof (radix_gt_1 rB) as GB. pose proof (radix_gt_1 rNB) as GN.
  destruct (gen_large_work_precision_covers p e rB rNB ltac:(lia) ltac:(lia) Hp He) as [W1 W2]. fold wp in W1, W2.
  pose proof (log2_up_le_bit_len rB ltac:(lia)) as BL.
  pose proof (Z.log2_up_pos rNB ltac:(lia)) as LNpos. pose proof (Z.log2_up_nonneg rB) as LB0.
  set (P := (rNB ^ (2 * p - 1))%Z) in *. set (Dz := (rNB ^ (wp - 1))%Z) in *.
  set (X := (Z.abs e * ElemF32.bit_len rB)%Z) in *. set (L2N := Z.log2_up rNB) in *. set (L2B := Z.log2_up rB) in *.
  set (tnz := lr_tn k rB rNB e). assert (Etn : tnz = (k * (3 * L2N + 5 * Z.abs e * L2B))%Z) by reflexivity.
  pose proof (Z.log2_up_pos rB ltac:(lia)) as LBpos. fold L2B in LBpos.
  assert (PP : (0 < P)%Z) by (apply Z.pow_pos_nonneg; lia).
  assert (Ae : (1 <= Z.abs e)%Z) by lia.
  assert (A1 : (Z.abs e * L2B <= X)%Z) by (unfold X; clear - BL Ae LBpos; nia).
  assert (A2 : (1 <= X)%Z) by (clear - A1 Ae LBpos; nia).
  destruct (fixed_domain_Z k P Dz X e L2N L2B tnz Hk PP Ae ltac:(lia) ltac:(lia) A1 A2 Hdom W2 Etn) as [T1 [T2 [PDz HZ]]].
  split.
  - apply (convert_large_route_error_wp rB rNB p wp k e q s a c m r E Rf Hk ltac:(lia)); try assumption.
    + fold tnz. fold Dz. change 2 with (IZR 2). rewrite <- mult_IZR. apply IZR_le. exact T1.
    + fold Dz. change 4 with (IZR 4). rewrite <- mult_IZR. apply IZR_le. lia.
  - (* en * P <= 18 k L2N * D^2 *)
    apply IZR_le in HZ. rewrite !mult_IZR, !plus_IZR, !mult_IZR in HZ.
    assert (PD : 0 < D) by (unfold D; apply IZR_lt; exact PDz).
    assert (PPr : 0 < IZR P) by (apply IZR_lt; exact PP).
    assert (Eb : bpow rNB (1 - 2 * p) = / IZR P).
    { replace (1 - 2 * p)%Z with (- (2 * p - 1))%Z by lia. rewrite bpow_opp, <- IZR_Zpower by lia. reflexivity. }
    rewrite Eb. apply (Rmult_le_reg_r (D * D * IZR P)); [repeat apply Rmult_lt_0_compat; assumption|].
    replace (en / (D * D) * (D * D * IZR P)) with (en * IZR P) by (field; lra).
    replace (IZR (18 * k * L2N) * / IZR P * (D * D * IZR P)) with (IZR (18 * k * L2N) * (D * D)) by (field; lra).
    rewrite !mult_IZR. unfold en, tn. fold tnz. unfold D. fold Dz. lra.
Qed.

(** since the repair F11 (guard digits: NB^g > 2^20) NO condition on the target precision is left: for every p >= 1,
    every exponent, every base below 2^64 and k <= 1024 the bound holds, with eps <= 18 k log2up(NB) NB^(1-2p) / 2^20 *)
Theorem convert_large_route_error_guarded (rB rNB : radix) (p k e q s : Z) (a c m r E Rf : R) :
  let wp := large_work_precision_gen p e rB rNB in
  let LB := ln (IZR rB) in let LN := ln (IZR rNB) in
  let D := IZR (rNB ^ (wp - 1)) in let u := / D in let kap := IZR k * u in
  let tn := IZR (lr_tn k rB rNB e) in
  let en := IZR k * D + 2 * tn * D + 2 * IZR k * tn in
  (1 <= k <= 1024)%Z -> (1 <= p)%Z -> e <> 0%Z -> (rNB < 2 ^ 64)%Z ->
  Rabs (a - LB) <= kap * LB -> Rabs (c - LN) <= kap * LN ->
  Rabs (m - IZR e * a) <= u * Rabs (IZR e * a) ->
  0 <= m - IZR q * c < c -> Rabs (r - (m - IZR q * c)) <= u * (m - IZR q * c) ->
  Rabs (E - exp r) <= kap * exp r ->
  Rabs (Rf - IZR s * E * bpow rNB q) <= bpow rNB (1 - p) * Rabs (IZR s * E * bpow rNB q) ->
  Rabs (Rf - IZR s * bpow rB e) <=
    (bpow rNB (1 - p) * (1 + en / (D * D)) + en / (D * D)) * Rabs (IZR s * bpow rB e) /\
  en / (D * D) <= IZR (18 * k * Z.log2_up rNB) * bpow rNB (1 - 2 * p) / 1048576.
Proof.
  intros wp LB LN D u kap tn en Hk Hp He HW C1 C2 C3 C4 C5 C6 C7.
  pose proof (radix_gt_1 rB) as GB. pose proof (radix_gt_1 rNB) as GN.
  destruct (gen_large_work_precision_guard p e rB rNB ltac:(lia) ltac:(lia) Hp He) as (G1 & UG & W1 & W2). fold wp in W1, W2.
  set (g := dlen rNB 1048576) in *.
  pose proof (log2_up_le_bit_len rB ltac:(lia)) as BL.
  pose proof (Z.log2_up_pos rNB ltac:(lia)) as LNpos. pose proof (Z.log2_up_nonneg rB) as LB0.
  assert (L64 : (Z.log2_up rNB <= 64)%Z).
  { apply Z.log2_up_le_pow2; [lia|]. lia. }
  set (P0 := (rNB ^ (2 * p - 1))%Z) in *.
  set (P := (rNB ^ (2 * p - 1 + g))%Z) in *. set (Dz := (rNB ^ (wp - 1))%Z) in *.
  set (X := (Z.abs e * ElemF32.bit_len rB)%Z) in *. set (L2N := Z.log2_up rNB) in *. set (L2B := Z.log2_up rB) in *.
  set (tnz := lr_tn k rB rNB e). assert (Etn : tnz = (k * (3 * L2N + 5 * Z.abs e * L2B))%Z) by reflexivity.
  pose proof (Z.log2_up_pos rB ltac:(lia)) as LBpos. fold L2B in LBpos.
  assert (PP0 : (0 < P0)%Z) by (apply Z.pow_pos_nonneg; lia).
  assert (EP : (P = P0 * rNB ^ g)%Z) by (unfold P, P0; rewrite Z.pow_add_r by lia; reflexivity).
  assert (PP : (0 < P)%Z) by (apply Z.pow_pos_nonneg; lia).
  assert (PG : (P0 * 1048576 <= P)%Z) by (rewrite EP; apply Z.mul_le_mono_nonneg_l; lia).
  assert (Ae : (1 <= Z.abs e)%Z) by lia.
  assert (A1 : (Z.abs e * L2B <= X)%Z) by (unfold X; clear - BL Ae LBpos; nia).
  assert (A2 : (1 <= X)%Z) by (clear - A1 Ae LBpos; nia).
  assert (Hdom : (16 * k * L2N <= P)%Z).
  { assert ((16 * k * L2N <= 16 * 1024 * 64)%Z) by (clear - Hk L64 LNpos; nia). clear - H PG PP0. nia. }
  destruct (fixed_domain_Z k P Dz X e L2N L2B tnz ltac:(lia) PP Ae ltac:(lia) ltac:(lia) A1 A2 Hdom W2 Etn) as [T1 [T2 [PDz HZ]]].
  split.
  - apply (convert_large_route_error_wp rB rNB p wp k e q s a c m r E Rf ltac:(lia) ltac:(lia)); try assumption.
    + fold tnz. fold Dz. change 2 with (IZR 2). rewrite <- mult_IZR. apply IZR_le. exact T1.
    + fold Dz. change 4 with (IZR 4). rewrite <- mult_IZR. apply IZR_le. lia.
  - (* en * P <= 18 k L2N * D^2 and P0 * 2^20 <= P *)
    apply IZR_le in HZ. rewrite !mult_IZR, !plus_IZR, !mult_IZR in HZ.
    apply IZR_le in PG. rewrite mult_IZR in PG.
    assert (PD : 0 < D) by (unfold D; apply IZR_lt; exact PDz).
    assert (PPr : 0 < IZR P) by (apply IZR_lt; exact PP).
    assert (PPr0 : 0 < IZR P0) by (apply IZR_lt; exact PP0).
    assert (Eb : bpow rNB (1 - 2 * p) = / IZR P0).
    { replace (1 - 2 * p)%Z with (- (2 * p - 1))%Z by lia. rewrite bpow_opp, <- IZR_Zpower by lia. reflexivity. }
    rewrite Eb.
    assert (K0 : 0 <= IZR (18 * k * L2N)) by (apply IZR_le; lia).
    assert (EN0 : 0 <= en).
    { unfold en, tn. fold tnz. assert (0 <= IZR tnz) by (apply IZR_le; rewrite Etn; nia). assert (0 <= IZR k) by (apply IZR_le; lia). nra. }
    (* en / D^2 <= 18 k L2N / P <= 18 k L2N / (P0 * 2^20) *)
    apply (Rle_trans _ (IZR (18 * k * L2N) / IZR P)).
    + apply (Rmult_le_reg_r (D * D * IZR P)); [repeat apply Rmult_lt_0_compat; assumption|].
      replace (en / (D * D) * (D * D * IZR P)) with (en * IZR P) by (field; lra).
      replace (IZR (18 * k * L2N) / IZR P * (D * D * IZR P)) with (IZR (18 * k * L2N) * (D * D)) by (field; lra).
      rewrite !mult_IZR. unfold en, tn. fold tnz. unfold D. fold Dz. lra.
    + unfold Rdiv. rewrite Rmult_assoc. apply Rmult_le_compat_l; [exact K0|].
      rewrite <- Rinv_mult. apply Rinv_le_contravar; [lra | lra].
Qed.

(** non-vacuity: an exact computation meets the contracts (4^1 to base 2 at precision 4, k = 4) *)
Example convert_large_route_error_fixed_ex (s : Z) :
  let rB := Build_radix 4 eq_refl in
  Rabs (IZR s * 1 * bpow radix2 2 - IZR s * bpow rB 1) <= 1 * Rabs (IZR s * bpow rB 1).
Proof.
  intros rB.
  assert (L4 : ln 4 = 2 * ln 2) by (replace 4 with (2 * 2) by ring; rewrite ln_mult by lra; ring).
  pose proof (ln_le_log2_up 2 ltac:(lia)) as [L2 _].
  replace (IZR s * 1 * bpow radix2 2) with (IZR s * bpow rB 1).
  - rewrite Rminus_eq_0, Rabs_R0. rewrite Rmult_1_l. apply Rabs_pos.
  - cbn [bpow Z.pow_pos Pos.iter radix_val rB]. change (IZR (radix_val radix2)) with 2. cbn. lra.
Qed.

(** the executable test decides the bound of [convert_large_route_error_wp] *)
Theorem large_route_check_wp_sound (rNB : radix) k B p wp e N Dv rs re : (0 < Dv)%Z -> (1 <= p)%Z -> (1 <= wp)%Z ->
  large_route_check_wp k B rNB p wp e N Dv rs re = Some true ->
  let D := IZR (lr_Dw rNB wp) in let en := IZR (lr_enw k B rNB wp e) in
  Rabs (IZR rs * bpow rNB re - IZR N / IZR Dv) <=
  (bpow rNB (1 - p) * (1 + en / (D * D)) + en / (D * D)) * Rabs (IZR N / IZR Dv).
Proof.
  intros HDv Hp Hwp H D en. unfold large_route_check_wp in H.
  destruct (negb _); [discriminate|].
  pose proof (radix_gt_1 rNB) as GN.
  assert (PD : 0 < D) by (unfold D, lr_Dw; apply IZR_lt; apply Z.pow_pos_nonneg; lia).
  assert (PP : (0 < rNB ^ (p - 1))%Z) by (apply Z.pow_pos_nonneg; lia).
  assert (PP' : 0 < IZR (rNB ^ (p - 1))) by (apply IZR_lt; exact PP).
  assert (Pdv : 0 < IZR Dv) by (apply IZR_lt; exact HDv).
  assert (Eb : bpow rNB (1 - p) = / IZR (rNB ^ (p - 1))).
  { replace (1 - p)%Z with (- (p - 1))%Z by lia. rewrite bpow_opp, <- IZR_Zpower by lia. reflexivity. }
  rewrite Eb, rho_form by (try apply Rmult_lt_0_compat; assumption).
  set (x := IZR rs * bpow rNB re). set (v := IZR N / IZR Dv).
  destruct (Z.leb_spec 0 re) as [Hre|Hre]; injection H as H; apply Z.leb_le in H; apply IZR_le in H;
    rewrite !mult_IZR, !plus_IZR, !mult_IZR, !abs_IZR in H; fold D in H; fold en in H.
  - apply (scaled_le _ _ (IZR Dv) _ _ Pdv); [repeat apply Rmult_lt_0_compat; assumption|].
    assert (E1 : Rabs (x - v) * IZR Dv = Rabs (IZR (rs * rNB ^ re * Dv - N))).
    { rewrite <- (Rabs_pos_eq (IZR Dv)) at 1 by lra. rewrite <- Rabs_mult. f_equal.
      rewrite minus_IZR, !mult_IZR. unfold x, v. rewrite (IZR_Zpower rNB re Hre). field. lra. }
    assert (E2 : Rabs v * IZR Dv = Rabs (IZR N)).
    { rewrite <- (Rabs_pos_eq (IZR Dv)) at 1 by lra. rewrite <- Rabs_mult. f_equal. unfold v. field. lra. }
    rewrite E1, E2. lra.
  - assert (Pn : 0 < IZR (rNB ^ (- re))) by (apply IZR_lt; apply Z.pow_pos_nonneg; lia).
    apply (scaled_le _ _ (IZR Dv * IZR (rNB ^ (- re)))); [apply Rmult_lt_0_compat; assumption | repeat apply Rmult_lt_0_compat; assumption|].
    assert (Ex : bpow rNB re = / IZR (rNB ^ (- re))).
    { rewrite <- (Z.opp_involutive re) at 1. rewrite bpow_opp, <- IZR_Zpower by lia. reflexivity. }
    assert (E1 : Rabs (x - v) * (IZR Dv * IZR (rNB ^ (- re))) = Rabs (IZR (rs * Dv - N * rNB ^ (- re)))).
    { rewrite <- (Rabs_pos_eq (IZR Dv * IZR (rNB ^ (- re)))) at 1 by (left; apply Rmult_lt_0_compat; assumption).
      rewrite <- Rabs_mult. f_equal. rewrite minus_IZR, !mult_IZR. unfold x, v. rewrite Ex. field. split; lra. }
    assert (E2 : Rabs v * (IZR Dv * IZR (rNB ^ (- re))) = Rabs (IZR N) * IZR (rNB ^ (- re))).
    { rewrite <- (Rabs_pos_eq (IZR Dv)) at 1 by lra. rewrite <- Rmult_assoc, <- Rabs_mult. f_equal. f_equal. unfold v. field. lra. }
    rewrite E1, E2. lra.
Qed.

(** after the repair F07 the witness of the old behaviour is inside the accurate domain: 9e-39 to 3 bits worked at
    6 digits (no accuracy guaranteed, answer off by a factor 30), now at 6 + 8 digits *)
Example large_work_precision_ex :
  large_work_precision_gen 3 (-39) 10 2 = 35%Z /\
  large_route_check 4 10 2 3 (-39) 9 (10 ^ 39) 3 (-123) = None /\
  large_route_check_wp 4 10 2 3 14 (-39) 9 (10 ^ 39) 3 (-123) = Some false /\
  large_route_check_wp 4 10 2 3 14 (-39) 9 (10 ^ 39) 3 (-128) = Some true.
Proof. vm_compute. repeat split. Qed.
