(** C03: the as-is model of float addition / subtraction (AddModel.v, transcribed from
    float/src/add.rs) returns, for ALL operands that fit the precision, the specification rounding
    [spec_round] of the exact sum at a digit position that keeps p or p+1 significant digits.

    Structure:
      1. spec_round depends only on (integer part, sign of the fraction, fraction vs 1/2): scaling
         invariance and the "stand-in" lemma used by the far-apart branch (both from T_round);
      2. magnitude windows of sig * B^lp + low;
      3. [rounded_sum]: what a correct result is, and its consequences (the documented contract);
      4. Context::repr_round_sum with an exact low part (rrs_exact) and with the +-1 stand-in of the
         far-apart branch (rrs_far);
      5. the four alignment branches of repr_add_large_small / repr_add_small_large;
      6. Context::add / Context::sub and the four operator bodies. *)
From Dashu Require Import Base.Prelude Float.RoundSpec Float.RoundTablesProof Float.RoundSpecProof
  Float.Contract Float.Model Float.ModelProof Float.AddModel.
From DashuGen Require Import RoundTables.
From Coq Require Import ZifyBool.
Open Scope Z_scope.

(* ------------------------------------------------------------------------------------------- *)
(** * 1. spec_round sees only (integer part, sign of fraction, fraction vs one half) *)

Lemma spec_round_frac_dep m I n1 d1 n2 d2 :
  0 < d1 -> 0 < d2 -> n1 <> 0 -> n2 <> 0 -> Z.abs n1 < d1 -> Z.abs n2 < d2 ->
  sign_of n1 = sign_of n2 -> (2 * Z.abs n1 ?= d1) = (2 * Z.abs n2 ?= d2) ->
  spec_round m (I * d1 + n1) d1 = spec_round m (I * d2 + n2) d2.
Proof.
  intros Hd1 Hd2 Hn1 Hn2 Ha1 Ha2 Hs Hc.
  rewrite <- (T_round m I n1 d1 Hd1 Hn1 Ha1), <- (T_round m I n2 d2 Hd2 Hn2 Ha2).
  rewrite Hs, Hc. reflexivity.
Qed.

Lemma spec_round_scale m N d c : 0 < d -> 0 < c -> spec_round m (N * c) (d * c) = spec_round m N d.
Proof.
  intros Hd Hc.
  pose proof (Z.div_mod N d ltac:(lia)) as E. pose proof (Z.mod_pos_bound N d Hd) as Hm.
  assert (Hdc : 0 < d * c) by nia.
  destruct (Z.eq_dec (N mod d) 0) as [Hz|Hnz].
  - pose proof (spec_round_exact m N d Hd Hz) as H1.
    assert (Hz2 : (N * c) mod (d * c) = 0) by (rewrite Z.mul_mod_distr_r by lia; rewrite Hz; lia).
    pose proof (spec_round_exact m (N * c) (d * c) Hdc Hz2) as H2.
    apply (Z.mul_cancel_r _ _ (d * c)); [lia|]. rewrite H2.
    replace (spec_round m N d * (d * c)) with (spec_round m N d * d * c) by ring. rewrite H1. reflexivity.
  - set (I := N / d) in *. set (n := N mod d) in *.
    assert (E2 : N * c = I * (d * c) + n * c) by (rewrite E at 1; ring). rewrite E2.
    transitivity (spec_round m (I * d + n) d); [| f_equal; lia].
    assert (Hn : 0 < n) by lia. assert (Hnc : 0 < n * c) by nia.
    apply spec_round_frac_dep.
    + exact Hdc.
    + exact Hd.
    + lia.
    + lia.
    + rewrite Z.abs_eq by lia. nia.
    + rewrite Z.abs_eq by lia. lia.
    + rewrite !sign_of_pos by lia. reflexivity.
    + rewrite !Z.abs_eq by lia. replace (2 * (n * c)) with (2 * n * c) by ring.
      symmetry. apply Zmult_compare_compat_r. lia.
Qed.

(** the far-apart branch replaces a tiny addend t2 by a tiny stand-in t1 of the same sign: as long
    as both are below half a unit of the finest digit of h (in units 1/c), the rounding agrees *)
Lemma spec_round_standin m h c M1 t1 M2 t2 :
  0 < c -> 0 < M1 -> 0 < M2 -> 0 < t1 * t2 -> 2 * Z.abs t1 < M1 -> 2 * Z.abs t2 < M2 ->
  spec_round m (h * M1 + t1) (c * M1) = spec_round m (h * M2 + t2) (c * M2).
Proof.
  intros Hc HM1 HM2 Hs Ht1 Ht2.
  pose proof (Z.div_mod h c ltac:(lia)) as E. pose proof (Z.mod_pos_bound h c Hc) as Hm.
  set (I := h / c) in *. set (rho := h mod c) in *.
  assert (E1 : h * M1 + t1 = I * (c * M1) + (rho * M1 + t1)) by (rewrite E at 1; ring).
  assert (E2 : h * M2 + t2 = I * (c * M2) + (rho * M2 + t2)) by (rewrite E at 1; ring).
  rewrite E1, E2. clear E1 E2.
  assert (Hcm1 : 0 < c * M1) by nia. assert (Hcm2 : 0 < c * M2) by nia.
  destruct (Z.eq_dec rho 0) as [Hr|Hr].
  - rewrite Hr, !Z.mul_0_l, !Z.add_0_l.
    apply spec_round_frac_dep; try lia; try nia.
    + unfold sign_of. destruct (Z.ltb_spec t1 0), (Z.ltb_spec t2 0); try reflexivity; nia.
    + assert (L1 : 2 * Z.abs t1 < c * M1) by nia. assert (L2 : 2 * Z.abs t2 < c * M2) by nia.
      rewrite (proj2 (Z.compare_lt_iff _ _) L1), (proj2 (Z.compare_lt_iff _ _) L2). reflexivity.
  - assert (Hrp : 1 <= rho <= c - 1) by lia.
    assert (P1 : 0 < rho * M1 + t1) by nia. assert (P2 : 0 < rho * M2 + t2) by nia.
    assert (U1 : rho * M1 + t1 < c * M1) by nia. assert (U2 : rho * M2 + t2 < c * M2) by nia.
    apply spec_round_frac_dep; try lia.
    + rewrite !sign_of_pos by lia. reflexivity.
    + rewrite !Z.abs_eq by lia.
      destruct (Z.lt_trichotomy (2 * rho) c) as [C|[C|C]].
      * assert (L1 : 2 * (rho * M1 + t1) < c * M1) by nia.
        assert (L2 : 2 * (rho * M2 + t2) < c * M2) by nia.
        rewrite (proj2 (Z.compare_lt_iff _ _) L1), (proj2 (Z.compare_lt_iff _ _) L2). reflexivity.
      * destruct (Z.lt_trichotomy t1 0) as [T|[T|T]]; [| nia |].
        -- assert (T2 : t2 < 0) by nia.
           assert (L1 : 2 * (rho * M1 + t1) < c * M1) by nia.
           assert (L2 : 2 * (rho * M2 + t2) < c * M2) by nia.
           rewrite (proj2 (Z.compare_lt_iff _ _) L1), (proj2 (Z.compare_lt_iff _ _) L2). reflexivity.
        -- assert (T2 : 0 < t2) by nia.
           assert (L1 : c * M1 < 2 * (rho * M1 + t1)) by nia.
           assert (L2 : c * M2 < 2 * (rho * M2 + t2)) by nia.
           rewrite (proj2 (Z.compare_gt_iff _ _) L1), (proj2 (Z.compare_gt_iff _ _) L2). reflexivity.
      * assert (L1 : c * M1 < 2 * (rho * M1 + t1)) by nia.
        assert (L2 : c * M2 < 2 * (rho * M2 + t2)) by nia.
        rewrite (proj2 (Z.compare_gt_iff _ _) L1), (proj2 (Z.compare_gt_iff _ _) L2). reflexivity.
Qed.

(* ------------------------------------------------------------------------------------------- *)
(** * 2. magnitude windows *)

Section Windows.
Variable B : Z.
Hypothesis B_ge_2 : 2 <= B.

Local Notation Bpos := (Bpow_pos B B_ge_2).

Lemma pow_split a b : 0 <= a -> 0 <= b -> B ^ (a + b) = B ^ a * B ^ b.
Proof. intros. apply Z.pow_add_r; assumption. Qed.

Lemma pow_le_mono a b : 0 <= a <= b -> B ^ a <= B ^ b.
Proof. intros. apply Z.pow_le_mono_r; lia. Qed.

Lemma pow_ge_two k : 1 <= k -> 2 <= B ^ k.
Proof.
  intros. replace k with (1 + (k - 1)) by lia. rewrite pow_split, Z.pow_1_r by lia.
  pose proof (Bpos (k - 1) ltac:(lia)). nia.
Qed.

(** same sign (or zero low part): the digit count of sig decides *)
Lemma window_same sig low lp : sig <> 0 -> 0 <= lp -> Z.abs low < B ^ lp -> 0 <= sig * low ->
  B ^ (dlen B sig - 1 + lp) <= Z.abs (sig * B ^ lp + low) < B ^ (dlen B sig + lp).
Proof.
  intros Hs Hlp Hlow Hsame. destruct (dlen_spec B B_ge_2 sig Hs) as [[L U] G].
  set (d := dlen B sig) in *. rewrite !pow_split by lia. pose proof (Bpos lp Hlp) as HP.
  set (P := B ^ lp) in *.
  assert (E : Z.abs (sig * P + low) = Z.abs sig * P + Z.abs low) by nia.
  rewrite E. split; nia.
Qed.

(** opposite signs allowed: one digit may be lost, provided sig has two digits or low is below B^(lp-1) *)
Lemma window_opp sig low lp : sig <> 0 -> 0 <= lp -> Z.abs low < B ^ lp ->
  (2 <= dlen B sig \/ (1 <= lp /\ Z.abs low <= B ^ (lp - 1))) ->
  B ^ (dlen B sig - 2 + lp) <= Z.abs (sig * B ^ lp + low) < B ^ (dlen B sig + lp).
Proof.
  intros Hs Hlp Hlow Hc. destruct (dlen_spec B B_ge_2 sig Hs) as [[L U] G].
  set (d := dlen B sig) in *. pose proof (Bpos lp Hlp) as HP.
  assert (Hup : Z.abs (sig * B ^ lp + low) < B ^ (d + lp)).
  { rewrite pow_split by lia. set (P := B ^ lp) in *.
    assert (Z.abs (sig * P + low) <= Z.abs sig * P + Z.abs low) by nia. nia. }
  split; [|exact Hup].
  assert (Hlo : Z.abs sig * B ^ lp - Z.abs low <= Z.abs (sig * B ^ lp + low)).
  { set (P := B ^ lp) in *. nia. }
  destruct Hc as [Hd|[Hl1 Hl2]].
  - replace (d - 2 + lp) with ((d - 2) + lp) by lia. rewrite pow_split by lia.
    replace (d - 1) with (1 + (d - 2)) in L by lia. rewrite pow_split, Z.pow_1_r in L by lia.
    pose proof (Bpos (d - 2) ltac:(lia)). set (P := B ^ lp) in *. set (Q := B ^ (d - 2)) in *. nia.
  - destruct (Z.le_gt_cases 2 d) as [Hd|Hd].
    + replace (d - 2 + lp) with ((d - 2) + lp) by lia. rewrite pow_split by lia.
      replace (d - 1) with (1 + (d - 2)) in L by lia. rewrite pow_split, Z.pow_1_r in L by lia.
      pose proof (Bpos (d - 2) ltac:(lia)). set (P := B ^ lp) in *. set (Q := B ^ (d - 2)) in *. nia.
    + assert (d = 1) by lia. replace (d - 2 + lp) with (lp - 1) by lia.
      replace lp with (1 + (lp - 1)) in Hlo at 1 by lia. rewrite pow_split, Z.pow_1_r in Hlo by lia.
      pose proof (Bpos (lp - 1) ltac:(lia)). set (Q := B ^ (lp - 1)) in *.
      assert (2 * Q <= B * Q) by nia. assert (1 <= Z.abs sig) by lia.
      assert (B * Q <= Z.abs sig * (B * Q)) by nia. lia.
Qed.

End Windows.

(* ------------------------------------------------------------------------------------------- *)
(** * 3. what a correct sum is *)

Section AddProofs.
Variable B : Z.
Hypothesis B_ge_2 : 2 <= B.

Local Notation Bpos := (Bpow_pos B B_ge_2).

(** [a] is the rounding, in mode [m] at some digit position k >= 0 that keeps p or p+1 significant
    digits of the exact value, of the integer S counted in units of B^e0 *)
Definition rounded_sum (p : Z) (m : mode) (S e0 : Z) (a : approx) : Prop :=
  match a with
  | AExact r e => (0 <= e - e0 /\ r * B ^ (e - e0) = S) \/ (r = 0 /\ S = 0)
  | AInexact r e f =>
      let k := e - e0 in
      0 <= k /\
      S mod B ^ k <> 0 /\ r = spec_round m S (B ^ k) /\
      (f = AddOne -> S < r * B ^ k) /\ (f = SubOne -> r * B ^ k < S) /\
      B ^ (p - 1 + k) <= Z.abs S < B ^ (p + 1 + k)
  end.

(** the tail of repr_round_sum: exact if the low part vanished, else one call of round_fract *)
Definition rrs_tail (m : mode) (sig e low lp : Z) : approx :=
  if low =? 0 then AExact sig e
  else let a := round_fract B m sig low lp in AInexact (sig + adj a) e a.

Definition realign (rp sig e low lp : Z) : Z * Z * Z * Z :=
  let d := dlen B sig in
  match d ?= rp with
  | Eq => (sig, e, low, lp)
  | Gt =>
      let shift := d - rp in
      let '(hi, lo) := split_digits B sig shift in
      (hi, e + shift, low + shl_digits B lo lp, lp + shift)
  | Lt =>
      if low =? 0 then (sig, e, low, lp)
      else
        let shift := Z.min lp (rp - d) in
        let '(pad, low') := split_digits B low (lp - shift) in
        (shl_digits B sig shift + pad, e - shift, low', lp - shift)
  end.

Lemma rrs_unfold p m sig e low lp is_sub :
  repr_round_sum B p m sig e low lp is_sub =
  if p =? 0 then AExact sig e
  else let '(s, e', l, k) := realign (p + b2z is_sub) sig e low lp in rrs_tail m s e' l k.
Proof. reflexivity. Qed.

Lemma quot_rem_small a b : Z.abs a < b -> Z.quot a b = 0 /\ Z.rem a b = a.
Proof.
  intros H. assert (Hq : Z.quot a b = 0) by (apply Z.quot_small_iff; lia).
  split; [exact Hq|]. pose proof (Z.quot_rem' a b) as E. rewrite Hq in E. lia.
Qed.

Lemma split_digits_spec v k : 0 <= k ->
  let '(hi, lo) := split_digits B v k in
  v = hi * B ^ k + lo /\ Z.abs lo < B ^ k /\ 0 <= v * lo /\ 0 <= v * hi.
Proof.
  intros Hk. cbn [split_digits]. pose proof (Bpos k Hk) as HP. set (P := B ^ k) in *.
  pose proof (Z.quot_rem' v P) as E.
  pose proof (Z.rem_bound_abs v P ltac:(lia)) as Hb. rewrite (Z.abs_eq P) in Hb by lia.
  pose proof (Z.rem_sign_mul v P ltac:(lia)) as Hs.
  split; [lia|]. split; [exact Hb|]. split; [rewrite Z.mul_comm; exact Hs|].
  destruct (Z.le_gt_cases 0 v).
  - pose proof (Z.quot_pos v P ltac:(lia) ltac:(lia)). nia.
  - assert (Z.quot v P <= 0).
    { rewrite <- (Z.opp_involutive v). rewrite Z.quot_opp_l by lia.
      pose proof (Z.quot_pos (- v) P ltac:(lia) ltac:(lia)). lia. }
    nia.
Qed.

(** the tail computed on a (possibly stand-in) low part [ls] at [ks] digits, judged against the
    true decomposition S = sig * B^k + lowT *)
Lemma tail_far p m sig e ls ks S e0 k lowT :
  0 <= ks -> Z.abs ls < B ^ ks -> ls <> 0 ->
  0 <= k -> Z.abs lowT < B ^ k -> lowT <> 0 ->
  S = sig * B ^ k + lowT -> e - e0 = k ->
  spec_round m (sig * B ^ ks + ls) (B ^ ks) = spec_round m S (B ^ k) ->
  B ^ (p - 1 + k) <= Z.abs S < B ^ (p + 1 + k) ->
  rounded_sum p m S e0 (rrs_tail m sig e ls ks).
Proof.
  intros Hks Hls Hlsn Hk HlT HlTn ES Ee Hsr Hwin.
  unfold rrs_tail. destruct (Z.eqb_spec ls 0) as [|_]; [contradiction|].
  cbv zeta. unfold rounded_sum. cbv zeta. rewrite Ee. split; [exact Hk|].
  pose proof (Bpos k Hk) as HP.
  pose proof (round_fract_spec B B_ge_2 m sig ls ks Hks Hls) as RF. rewrite Hsr in RF.
  split; [|split; [|split; [|split]]].
  - rewrite ES. apply frac_mod_nonzero; assumption.
  - exact RF.
  - intros Hf. rewrite Hf. cbn [adj]. rewrite ES. nia.
  - intros Hf. rewrite Hf. cbn [adj]. rewrite ES. nia.
  - exact Hwin.
Qed.

Lemma tail_rounded p m sig e low k S e0 :
  0 <= k -> Z.abs low < B ^ k -> S = sig * B ^ k + low -> e - e0 = k ->
  (low <> 0 -> B ^ (p - 1 + k) <= Z.abs S < B ^ (p + 1 + k)) ->
  rounded_sum p m S e0 (rrs_tail m sig e low k).
Proof.
  intros Hk Hl ES Ee Hwin. destruct (Z.eq_dec low 0) as [Hz|Hnz].
  - unfold rrs_tail. rewrite Hz, Z.eqb_refl. unfold rounded_sum. rewrite Ee.
    left. split; [exact Hk|]. rewrite ES, Hz. ring.
  - apply (tail_far p m sig e low k S e0 k low); try assumption; [|auto].
    rewrite ES. reflexivity.
Qed.

(* ------------------------------------------------------------------------------------------- *)
(** * 4. Context::repr_round_sum *)

(** the magnitude window of W = sig * B^lp + low when rounding happens at digit k = lp + digits(sig) - rp *)
Lemma window_of_digits p sig low lp is_sub k :
  1 <= p -> sig <> 0 -> 0 <= lp -> Z.abs low < B ^ lp ->
  (is_sub = false -> 0 <= sig * low) -> (is_sub = true -> Z.abs low < B ^ p) ->
  (is_sub = true -> low <> 0 -> 2 <= dlen B sig \/ p < lp) ->
  k = lp + dlen B sig - (p + b2z is_sub) ->
  B ^ (p - 1 + k) <= Z.abs (sig * B ^ lp + low) < B ^ (p + 1 + k).
Proof.
  intros Hp Hs Hlp Hlow Hsame Hopp Hdig ->.
  destruct (dlen_spec B B_ge_2 sig Hs) as [_ Hd1].
  assert (Hmono : forall a b, a <= b -> 0 <= b -> B ^ a <= B ^ b).
  { intros a b Hab Hb. destruct (Z.le_gt_cases 0 a).
    - apply pow_le_mono; [exact B_ge_2 | lia].
    - rewrite (Z.pow_neg_r B a) by lia. pose proof (Bpos b Hb). lia. }
  destruct is_sub; cbn [b2z].
  - destruct (Z.eq_dec low 0) as [Hz|Hnz].
    + pose proof (window_same B B_ge_2 sig low lp Hs Hlp Hlow ltac:(rewrite Hz; lia)) as [L U].
      split; [eapply Z.le_trans; [|exact L] | eapply Z.lt_le_trans; [exact U|]]; apply Hmono; lia.
    + assert (Hc : 2 <= dlen B sig \/ (1 <= lp /\ Z.abs low <= B ^ (lp - 1))).
      { destruct (Hdig eq_refl Hnz) as [H2|Hpl]; [left; exact H2 | right].
        split; [lia|]. specialize (Hopp eq_refl). pose proof (Hmono p (lp - 1) ltac:(lia)). lia. }
      pose proof (window_opp B B_ge_2 sig low lp Hs Hlp Hlow Hc) as [L U].
      split; [eapply Z.le_trans; [|exact L] | eapply Z.lt_le_trans; [exact U|]]; apply Hmono; lia.
  - pose proof (window_same B B_ge_2 sig low lp Hs Hlp Hlow (Hsame eq_refl)) as [L U].
    split; [eapply Z.le_trans; [|exact L] | eapply Z.lt_le_trans; [exact U|]]; apply Hmono; lia.
Qed.

(** two facts about a low part [a] below a unit [P] and a digit block [lo] of fewer than Q units *)
Lemma abs_add_mul_lt a lo P Q : Z.abs a < P -> Z.abs lo < Q -> Z.abs (a + lo * P) < P * Q.
Proof.
  intros Ha Hl. assert (Z.abs (a + lo * P) <= Z.abs a + Z.abs lo * P).
  { eapply Z.le_trans; [apply Z.abs_triangle|]. rewrite Z.abs_mul, (Z.abs_eq P) by lia. lia. }
  assert (Z.abs lo * P <= (Q - 1) * P) by (apply Z.mul_le_mono_nonneg_r; lia). lia.
Qed.
Lemma add_mul_nz a lo P : a <> 0 -> Z.abs a < P -> a + lo * P <> 0.
Proof.
  intros Ha Hl E. destruct (Z.eq_dec lo 0) as [->|Hn]; [lia|].
  assert (P <= Z.abs (lo * P)) by (rewrite Z.abs_mul, (Z.abs_eq P) by lia; nia). lia.
Qed.

(** exact low part: (sig + low / B^lp) * B^e is the exact value *)
Theorem rrs_exact p m sig e low lp is_sub :
  1 <= p -> 0 <= lp -> Z.abs low < B ^ lp -> (low <> 0 -> sig <> 0) ->
  (is_sub = false -> 0 <= sig * low) -> (is_sub = true -> Z.abs low < B ^ p) ->
  rounded_sum p m (sig * B ^ lp + low) (e - lp) (repr_round_sum B p m sig e low lp is_sub).
Proof.
  intros Hp Hlp Hlow Hsig Hsame Hopp. rewrite rrs_unfold.
  destruct (Z.eqb_spec p 0) as [|_]; [lia|].
  set (rp := p + b2z is_sub). assert (Hrp : p <= rp <= p + 1) by (unfold rp, b2z; destruct is_sub; lia).
  assert (Hrp1 : is_sub = true -> rp = p + 1) by (intros ->; reflexivity).
  pose proof (Bpos lp Hlp) as HPlp.
  unfold realign. set (d := dlen B sig).
  destruct (Z.compare_spec d rp) as [Heq|Hlt|Hgt].
  - (* exactly rp digits *)
    apply tail_rounded; try assumption; try reflexivity; try lia.
    intros Hnz. apply (window_of_digits p sig low lp is_sub); try assumption; auto.
    + intros Hsub _. left. fold d. rewrite Heq, (Hrp1 Hsub). lia.
    + fold d. fold rp. lia.
  - (* fewer digits: pad from the low part *)
    destruct (Z.eqb_spec low 0) as [Hz|Hnz].
    + apply tail_rounded; try assumption; try reflexivity; try lia.
    + assert (Hs : sig <> 0) by auto.
      assert (Hd1 : 1 <= d) by (destruct (dlen_spec B B_ge_2 sig Hs); assumption).
      set (shift := Z.min lp (rp - d)).
      assert (Hsh : 0 <= shift <= lp) by (unfold shift; lia).
      pose proof (split_digits_spec low (lp - shift) ltac:(lia)) as SP.
      destruct (split_digits B low (lp - shift)) as [pad low'] eqn:Esp.
      destruct SP as (E1 & Hl' & _ & _).
      unfold shl_digits.
      apply tail_rounded; try assumption; try lia.
      * rewrite E1. replace lp with (shift + (lp - shift)) at 1 by lia.
        rewrite pow_split by (try exact B_ge_2; lia). ring.
      * intros Hnz'. (* the low part was not consumed entirely: shift = rp - d < lp *)
        assert (Hshift : shift = rp - d).
        { unfold shift. destruct (Z.le_gt_cases lp (rp - d)) as [Hle|Hgt]; [|lia].
          exfalso. assert (shift = lp) by (unfold shift; lia).
          replace (lp - shift) with 0 in Hl' by lia. rewrite Z.pow_0_r in Hl'. lia. }
        assert (Hlp2 : rp - d < lp).
        { destruct (Z.le_gt_cases lp (rp - d)) as [Hle|Hgt]; [|lia].
          exfalso. assert (shift = lp) by (unfold shift; lia).
          replace (lp - shift) with 0 in Hl' by lia. rewrite Z.pow_0_r in Hl'. lia. }
        replace ((sig * B ^ shift + pad) * B ^ (lp - shift) + low') with (sig * B ^ lp + low).
        2:{ rewrite E1. replace lp with (shift + (lp - shift)) at 1 by lia.
            rewrite pow_split by (try exact B_ge_2; lia). ring. }
        apply (window_of_digits p sig low lp is_sub); try assumption; auto.
        -- intros Hsub _. fold d. rewrite (Hrp1 Hsub) in *. lia.
        -- fold d. fold rp. lia.
  - (* more digits: split the significand *)
    assert (Hs : sig <> 0).
    { intros ->. unfold d in Hgt. rewrite dlen_zero in Hgt. lia. }
    set (shift := d - rp). assert (Hsh : 1 <= shift) by (unfold shift; lia).
    pose proof (split_digits_spec sig shift ltac:(lia)) as SP.
    destruct (split_digits B sig shift) as [hi lo] eqn:Esp.
    destruct SP as (E1 & Hlo & Hslo & _).
    unfold shl_digits.
    pose proof (Bpos shift ltac:(lia)) as HPs.
    assert (Hl' : Z.abs (low + lo * B ^ lp) < B ^ (lp + shift)).
    { rewrite pow_split by (try exact B_ge_2; lia). apply abs_add_mul_lt; assumption. }
    assert (EW : sig * B ^ lp + low = hi * B ^ (lp + shift) + (low + lo * B ^ lp)).
    { rewrite E1. rewrite (Z.add_comm lp shift), pow_split by (try exact B_ge_2; lia). ring. }
    apply tail_rounded; try assumption; try lia.
    intros _. apply (window_of_digits p sig low lp is_sub); try assumption; auto.
    + intros Hsub _. left. fold d. rewrite (Hrp1 Hsub) in *. lia.
    + fold d. fold rp. unfold shift. lia.
Qed.

(** the far-apart branch: the small operand T (units B^(e-g)) is replaced by sigma = +-1 at
    [far_low_prec] digits; the result is still the rounding of the exact value sig * B^g + T *)
Theorem rrs_far p m sig e sigma T g is_sub :
  1 <= p -> sig <> 0 -> (sigma = 1 \/ sigma = -1) -> 0 < sigma * T ->
  let rp := p + b2z is_sub in
  let d := dlen B sig in
  let flp := far_low_prec rp d in
  flp <= g ->
  (rp <= d -> 2 * Z.abs T < B ^ g) ->
  (d < rp -> 2 * Z.abs T < B ^ (g + d - rp)) ->
  (is_sub = false -> 0 < sig * T) -> (is_sub = true -> Z.abs T < B ^ p) ->
  rounded_sum p m (sig * B ^ g + T) (e - g) (repr_round_sum B p m sig e sigma flp is_sub).
Proof.
  intros Hp Hs Hsg HsT rp d flp Hg HT1 HT2 Hsame HTp. rewrite rrs_unfold.
  destruct (Z.eqb_spec p 0) as [|_]; [lia|].
  fold rp. assert (Hrp : p <= rp <= p + 1) by (unfold rp, b2z; destruct is_sub; lia).
  assert (Hrp1 : is_sub = true -> rp = p + 1) by (intros ->; reflexivity).
  destruct (dlen_spec B B_ge_2 sig Hs) as [_ Hd1]. fold d in Hd1.
  assert (Hflp : flp = if d >=? rp then 2 else rp - d + 2) by reflexivity.
  assert (HB2 : 4 <= B ^ 2) by (rewrite Z.pow_2_r; nia).
  assert (Hsgn : sigma <> 0) by lia. assert (Hsga : Z.abs sigma = 1) by lia.
  assert (HTn : T <> 0) by nia.
  assert (Hg0 : 2 <= g) by (destruct (Z.geb_spec d rp); lia).
  assert (Hg1 : d < rp -> rp - d + 2 <= g) by (destruct (Z.geb_spec d rp); lia).
  pose proof (Bpos g ltac:(lia)) as HPg.
  assert (HTg : Z.abs T < B ^ g).
  { destruct (Z.le_gt_cases rp d) as [C|C]; [specialize (HT1 C); lia|].
    specialize (HT2 C). specialize (Hg1 C). pose proof (pow_le_mono B B_ge_2 (g + d - rp) g ltac:(lia)). lia. }
  (* the window, from the digit count of sig *)
  assert (Hwin : forall k, k = g + d - rp -> B ^ (p - 1 + k) <= Z.abs (sig * B ^ g + T) < B ^ (p + 1 + k)).
  { intros k Hk.
    apply (window_of_digits p sig T g is_sub); try assumption; try lia. }
  unfold realign. fold d.
  destruct (Z.compare_spec d rp) as [Heq|Hlt|Hgt].
  - (* d = rp: round sig with the stand-in *)
    assert (Ef : flp = 2) by (rewrite Hflp; destruct (Z.geb_spec d rp); lia). rewrite Ef.
    apply (tail_far p m sig e sigma 2 (sig * B ^ g + T) (e - g) g T); try assumption; try lia.
    + pose proof (spec_round_standin m sig 1 (B ^ 2) sigma (B ^ g) T) as SS.
      rewrite !Z.mul_1_l in SS. apply SS; try lia; try (apply HT1; lia).
    + apply Hwin. lia.
  - (* d < rp: pad zeros *)
    assert (Ef : flp = rp - d + 2) by (rewrite Hflp; destruct (Z.geb_spec d rp); lia). rewrite Ef.
    destruct (Z.eqb_spec sigma 0) as [|_]; [contradiction|].
    replace (Z.min (rp - d + 2) (rp - d)) with (rp - d) by lia.
    replace (rp - d + 2 - (rp - d)) with 2 by lia.
    cbn [split_digits]. destruct (quot_rem_small sigma (B ^ 2) ltac:(lia)) as [Eq Er].
    rewrite Eq, Er. unfold shl_digits. rewrite Z.add_0_r.
    set (sh := rp - d). assert (Hsh : 1 <= sh) by (unfold sh; lia).
    assert (Hk : 2 <= g - sh) by (unfold sh; lia).
    pose proof (Bpos sh ltac:(lia)) as HPsh. pose proof (Bpos (g - sh) ltac:(lia)) as HPk.
    assert (HT2' : 2 * Z.abs T < B ^ (g - sh)).
    { replace (g - sh) with (g + d - rp) by (unfold sh; lia). apply HT2. lia. }
    apply (tail_far p m (sig * B ^ sh) (e - sh) sigma 2 (sig * B ^ g + T) (e - g) (g - sh) T); try assumption; try lia.
    + replace g with (sh + (g - sh)) at 1 by lia. rewrite pow_split by (try exact B_ge_2; lia). ring.
    + pose proof (spec_round_standin m (sig * B ^ sh) 1 (B ^ 2) sigma (B ^ (g - sh)) T) as SS.
      rewrite !Z.mul_1_l in SS.
      replace (sig * B ^ g + T) with (sig * B ^ sh * B ^ (g - sh) + T).
      2:{ replace g with (sh + (g - sh)) at 2 by lia. rewrite pow_split by (try exact B_ge_2; lia). ring. }
      apply SS; lia.
    + apply Hwin. unfold sh. lia.
  - (* d > rp: split the significand, the stand-in sits below its low part *)
    assert (Ef : flp = 2) by (rewrite Hflp; destruct (Z.geb_spec d rp); lia). rewrite Ef.
    set (sh := d - rp). assert (Hsh : 1 <= sh) by (unfold sh; lia).
    pose proof (split_digits_spec sig sh ltac:(lia)) as SP.
    destruct (split_digits B sig sh) as [hi lo] eqn:Esp.
    destruct SP as (E1 & Hlo & _ & _).
    unfold shl_digits.
    pose proof (Bpos sh ltac:(lia)) as HPsh.
    assert (HT1' : 2 * Z.abs T < B ^ g) by (apply HT1; lia).
    assert (Hls : Z.abs (sigma + lo * B ^ 2) < B ^ (2 + sh)).
    { rewrite pow_split by (try exact B_ge_2; lia). apply abs_add_mul_lt; [lia | assumption]. }
    assert (Hlsn : sigma + lo * B ^ 2 <> 0).
    { apply add_mul_nz; lia. }
    assert (HlT : Z.abs (lo * B ^ g + T) < B ^ (g + sh)).
    { rewrite pow_split by (try exact B_ge_2; lia). rewrite (Z.add_comm (lo * B ^ g) T). apply abs_add_mul_lt; assumption. }
    assert (HlTn : lo * B ^ g + T <> 0).
    { rewrite (Z.add_comm (lo * B ^ g) T). apply add_mul_nz; assumption. }
    apply (tail_far p m hi (e + sh) (sigma + lo * B ^ 2) (2 + sh) (sig * B ^ g + T) (e - g) (g + sh) (lo * B ^ g + T));
      try assumption; try lia.
    + rewrite E1. rewrite pow_split by (try exact B_ge_2; lia). ring.
    + pose proof (spec_round_standin m sig (B ^ sh) (B ^ 2) sigma (B ^ g) T) as SS.
      replace (hi * B ^ (2 + sh) + (sigma + lo * B ^ 2)) with (sig * B ^ 2 + sigma).
      2:{ rewrite E1. rewrite (Z.add_comm 2 sh), pow_split by (try exact B_ge_2; lia). ring. }
      rewrite (Z.add_comm 2 sh), (Z.add_comm g sh), !pow_split by (try exact B_ge_2; lia).
      apply SS; lia.
    + apply Hwin. unfold sh. lia.
Qed.

(* ------------------------------------------------------------------------------------------- *)
(** * 5. the alignment branches *)

(** both repr_add_large_small and repr_add_small_large are this function of the operand with the
    larger exponent L (at exponent eL), the other operand R (sign included, ediff digits lower)
    and an upper estimate [rdu] of the digits of R *)
Definition add_core (p : Z) (m : mode) (L R eL ediff : Z) (is_sub : bool) (rdu : Z) : approx :=
  let rp := p + b2z is_sub in
  let ld := dlen B L in
  let lim := negb (p =? 0) in
  if lim && (rdu + 1 <? ediff) && (rdu + 1 + rp <? ld + ediff) then
    repr_round_sum B p m L eL (Z.sgn R) (far_low_prec rp ld) is_sub
  else if lim && (ld >=? p) then
    let '(hi, lo) := split_digits B R ediff in
    repr_round_sum B p m (L + hi) eL lo ediff is_sub
  else if lim && (ediff + ld >? p) then
    let lshift := p - ld in
    let rshift := ediff - lshift in
    let '(hi, lo) := split_digits B R rshift in
    repr_round_sum B p m (L * B ^ lshift + hi) (eL - lshift) lo rshift is_sub
  else
    repr_round_sum B p m (L * B ^ ediff + R) (eL - ediff) 0 0 is_sub.

Lemma hi_small p R k hi lo : 1 <= p -> 1 <= k -> R <> 0 -> R = hi * B ^ k + lo -> 0 <= R * lo -> 0 <= R * hi ->
  Z.abs R < B ^ p -> Z.abs hi < B ^ (p - 1) /\ Z.abs lo <= Z.abs R.
Proof.
  intros Hp Hk HRn E Hlo Hhi HR.
  replace k with (1 + (k - 1)) in E by lia. rewrite pow_split, Z.pow_1_r in E by (try exact B_ge_2; lia).
  replace p with (1 + (p - 1)) in HR by lia. rewrite pow_split, Z.pow_1_r in HR by (try exact B_ge_2; lia).
  pose proof (Bpos (k - 1) ltac:(lia)) as HQ. pose proof (Bpos (p - 1) ltac:(lia)) as HP.
  set (Q := B ^ (k - 1)) in *. set (P := B ^ (p - 1)) in *.
  assert (EA : Z.abs R = Z.abs hi * (B * Q) + Z.abs lo).
  { destruct (Z.lt_trichotomy R 0) as [Hn|[Hz|Hpos]]; [|contradiction|].
    - assert (lo <= 0) by nia. assert (hi <= 0) by nia.
      rewrite (Z.abs_neq R), (Z.abs_neq hi), (Z.abs_neq lo) by lia. rewrite E at 1. ring.
    - assert (0 <= lo) by nia. assert (0 <= hi) by nia.
      rewrite (Z.abs_eq R), (Z.abs_eq hi), (Z.abs_eq lo) by lia. rewrite E at 1. ring. }
  split; [|nia].
  assert (Z.abs hi * B <= Z.abs hi * (B * Q)) by nia. nia.
Qed.

Theorem add_core_correct p m L R eL ediff is_sub rdu :
  1 <= p -> L <> 0 -> R <> 0 -> 1 <= ediff -> dlen B L <= p -> dlen B R <= p -> dlen B R <= rdu ->
  (is_sub = false -> 0 < L * R) -> (is_sub = true -> L * R < 0) ->
  rounded_sum p m (L * B ^ ediff + R) (eL - ediff) (add_core p m L R eL ediff is_sub rdu).
Proof.
  intros Hp HL HR He HdL HdR Hrdu Hsame Hopp. unfold add_core.
  destruct (Z.eqb_spec p 0) as [|_]; [lia|]. cbn [negb andb].
  set (rp := p + b2z is_sub). assert (Hrp : p <= rp <= p + 1) by (unfold rp, b2z; destruct is_sub; lia).
  destruct (dlen_spec B B_ge_2 L HL) as [[LL LU] Ld1]. destruct (dlen_spec B B_ge_2 R HR) as [[RL RU] Rd1].
  set (ld := dlen B L) in *. set (rd := dlen B R) in *.
  assert (HRp : Z.abs R < B ^ p) by (pose proof (pow_le_mono B B_ge_2 rd p ltac:(lia)); lia).
  assert (Hrest : rounded_sum p m (L * B ^ ediff + R) (eL - ediff)
    (if ld >=? p
     then let '(hi, lo) := split_digits B R ediff in repr_round_sum B p m (L + hi) eL lo ediff is_sub
     else if ediff + ld >? p
       then let '(hi, lo) := split_digits B R (ediff - (p - ld)) in
            repr_round_sum B p m (L * B ^ (p - ld) + hi) (eL - (p - ld)) lo (ediff - (p - ld)) is_sub
       else repr_round_sum B p m (L * B ^ ediff + R) (eL - ediff) 0 0 is_sub)).
  { pose proof (Bpos (p - 1) ltac:(lia)) as HPp.
    destruct (Z.geb_spec ld p) as [G|G].
    - (* L already has p digits: align R *)
      assert (ld = p) by lia.
      pose proof (split_digits_spec R ediff ltac:(lia)) as SP.
      destruct (split_digits B R ediff) as [hi lo]. destruct SP as (E1 & Hlo & Hslo & Hshi).
      destruct (hi_small p R ediff hi lo Hp He HR E1 Hslo Hshi HRp) as [Hhi Hlo2].
      replace (L * B ^ ediff + R) with ((L + hi) * B ^ ediff + lo) by (rewrite E1; ring).
      assert (HLp : B ^ (p - 1) <= Z.abs L) by (replace (p - 1) with (ld - 1) by lia; exact LL).
      apply rrs_exact; try assumption; try lia.
      + intros Hs. specialize (Hsame Hs).
        destruct (Z.lt_trichotomy R 0) as [Hn|[Hz|Hpos]]; [|contradiction|].
        * assert (L < 0) by nia. assert (lo <= 0) by nia. assert (hi <= 0) by nia. nia.
        * assert (0 < L) by nia. assert (0 <= lo) by nia. assert (0 <= hi) by nia. nia.
    - destruct (Z.gtb_spec (ediff + ld) p) as [G2|G2].
      + (* shift L up to p digits, split R *)
        set (lshift := p - ld). set (rshift := ediff - lshift).
        assert (Hls : 1 <= lshift) by (unfold lshift; lia). assert (Hrs : 1 <= rshift) by (unfold rshift, lshift; lia).
        pose proof (split_digits_spec R rshift ltac:(lia)) as SP.
        destruct (split_digits B R rshift) as [hi lo]. destruct SP as (E1 & Hlo & Hslo & Hshi).
        destruct (hi_small p R rshift hi lo Hp Hrs HR E1 Hslo Hshi HRp) as [Hhi Hlo2].
        pose proof (Bpos lshift ltac:(lia)) as HPl.
        replace (L * B ^ ediff + R) with ((L * B ^ lshift + hi) * B ^ rshift + lo).
        2:{ rewrite E1. replace ediff with (lshift + rshift) by (unfold rshift; lia).
            rewrite pow_split by (try exact B_ge_2; lia). ring. }
        replace (eL - ediff) with (eL - lshift - rshift) by (unfold rshift; lia).
        assert (HLp : B ^ (p - 1) <= Z.abs (L * B ^ lshift)).
        { replace (p - 1) with ((ld - 1) + lshift) by (unfold lshift; lia).
          rewrite pow_split by (try exact B_ge_2; lia). rewrite Z.abs_mul, (Z.abs_eq (B ^ lshift)) by lia. nia. }
        apply rrs_exact; try assumption; try lia.
        * intros Hs. specialize (Hsame Hs).
          destruct (Z.lt_trichotomy R 0) as [Hn|[Hz|Hpos]]; [|contradiction|].
          -- assert (L < 0) by nia. assert (lo <= 0) by nia. assert (hi <= 0) by nia. nia.
          -- assert (0 < L) by nia. assert (0 <= lo) by nia. assert (0 <= hi) by nia. nia.
      + (* everything fits: exact sum *)
        replace (L * B ^ ediff + R) with ((L * B ^ ediff + R) * B ^ 0 + 0) at 1 by (rewrite Z.pow_0_r; ring).
        replace (eL - ediff) with (eL - ediff - 0) at 1 by lia.
        apply rrs_exact; try lia; try (rewrite Z.pow_0_r; lia). }
  destruct (Z.ltb_spec (rdu + 1) ediff) as [F1|F1]; [destruct (Z.ltb_spec (rdu + 1 + rp) (ld + ediff)) as [F2|F2]|]; cbn [andb]; try exact Hrest.
  (* far apart *)
  assert (HRu : 2 * Z.abs R <= B ^ (rdu + 1)).
  { pose proof (pow_le_mono B B_ge_2 rd rdu ltac:(lia)). rewrite pow_split, Z.pow_1_r by (try exact B_ge_2; lia).
    pose proof (Bpos rdu ltac:(lia)). nia. }
  apply (rrs_far p m L eL (Z.sgn R) R ediff is_sub); try assumption; try lia.
  - fold rp. fold ld. unfold far_low_prec. destruct (Z.geb_spec ld rp); lia.
  - fold rp. fold ld. intros _.
    pose proof (Z.pow_lt_mono_r B (rdu + 1) ediff ltac:(lia) ltac:(lia) ltac:(lia)). lia.
  - fold rp. fold ld. intros Hlt.
    pose proof (Z.pow_lt_mono_r B (rdu + 1) (ediff + ld - rp) ltac:(lia) ltac:(lia) ltac:(lia)). lia.
Qed.

(* ------------------------------------------------------------------------------------------- *)
(** * 6. repr_add_large_small / repr_add_small_large are [add_core] *)

Lemma dlen_opp v : dlen B (- v) = dlen B v.
Proof. unfold dlen. rewrite Z.abs_opp. reflexivity. Qed.

Lemma dlen_sgnz sg v : dlen B (sgnz sg * v) = dlen B v.
Proof.
  destruct sg; cbn [sgnz]; [rewrite Z.mul_1_l; reflexivity|].
  replace (-1 * v) with (- v) by ring. apply dlen_opp.
Qed.

Lemma sgn_sgnz sg v : Z.sgn (sgnz sg * v) = sgnz sg * Z.sgn v.
Proof.
  destruct sg; cbn [sgnz]; [rewrite !Z.mul_1_l; reflexivity|].
  replace (-1 * v) with (- v) by ring. rewrite Z.sgn_opp. ring.
Qed.

Lemma split_sgnz sg v k :
  split_digits B (sgnz sg * v) k = let '(hi, lo) := split_digits B v k in (sgnz sg * hi, sgnz sg * lo).
Proof.
  unfold split_digits. destruct sg; cbn [sgnz]; [rewrite !Z.mul_1_l; reflexivity|].
  replace (-1 * v) with (- v) by ring.
  destruct (Z.eq_dec (B ^ k) 0) as [Hz|Hnz].
  - rewrite Hz, !Z.quot_0_r_ext, !Z.rem_0_r_ext by reflexivity. apply f_equal2; ring.
  - rewrite Z.quot_opp_l, Z.rem_opp_l by exact Hnz. apply f_equal2; ring.
Qed.

Lemma is_sub_spec s1 s2 sg : s1 <> 0 -> s2 <> 0 ->
  let is_sub := negb (sign_eqb (sign_of s1) (sign_mul sg (sign_of s2))) in
  (is_sub = false -> 0 < s1 * (sgnz sg * s2)) /\ (is_sub = true -> s1 * (sgnz sg * s2) < 0).
Proof.
  intros H1 H2. unfold sign_of.
  destruct (Z.ltb_spec s1 0), (Z.ltb_spec s2 0), sg; cbn [negb sign_eqb sign_mul sgnz]; split; intros Hx; try discriminate Hx; nia.
Qed.

Variable digits_ub : Z -> Z.

Lemma large_small_core p m s1 e1 s2 e2 sg :
  repr_add_large_small B digits_ub p m s1 e1 s2 e2 sg =
  add_core p m s1 (sgnz sg * s2) e1 (e1 - e2)
    (negb (sign_eqb (sign_of s1) (sign_mul sg (sign_of s2)))) (digits_ub s2).
Proof.
  unfold repr_add_large_small, add_core. cbv zeta.
  repeat match goal with |- (if ?c then _ else _) = (if ?c then _ else _) => destruct c end.
  - rewrite sgn_sgnz. reflexivity.
  - rewrite split_sgnz. destruct (split_digits B s2 (e1 - e2)). reflexivity.
  - rewrite split_sgnz. destruct (split_digits B s2 _). reflexivity.
  - unfold shl_digits. replace (e1 - (e1 - e2)) with e2 by lia. reflexivity.
Qed.

Lemma small_large_core p m s1 e1 s2 e2 sg :
  repr_add_small_large B digits_ub p m s1 e1 s2 e2 sg =
  add_core p m (sgnz sg * s2) s1 e2 (e2 - e1)
    (negb (sign_eqb (sign_of s1) (sign_mul sg (sign_of s2)))) (digits_ub s1).
Proof.
  unfold repr_add_small_large, add_core. cbv zeta. rewrite !dlen_sgnz.
  repeat match goal with |- (if ?c then _ else _) = (if ?c then _ else _) => destruct c end.
  - reflexivity.
  - destruct (split_digits B s1 (e2 - e1)). rewrite Z.add_comm. reflexivity.
  - destruct (split_digits B s1 _). unfold shl_digits. rewrite Z.mul_assoc. reflexivity.
  - unfold shl_digits. replace (e2 - (e2 - e1)) with e1 by lia. rewrite Z.mul_assoc. reflexivity.
Qed.

Hypothesis digits_ub_ok : forall s, dlen B s <= digits_ub s.

Theorem repr_add_large_small_correct p m s1 e1 s2 e2 sg :
  1 <= p -> s1 <> 0 -> s2 <> 0 -> e2 < e1 -> dlen B s1 <= p -> dlen B s2 <= p ->
  rounded_sum p m (s1 * B ^ (e1 - e2) + sgnz sg * s2) e2
    (repr_add_large_small B digits_ub p m s1 e1 s2 e2 sg).
Proof.
  intros Hp H1 H2 He Hd1 Hd2. rewrite large_small_core.
  destruct (is_sub_spec s1 s2 sg H1 H2) as [Ha Hb].
  replace e2 with (e1 - (e1 - e2)) at 2 by lia.
  apply add_core_correct; try assumption; try lia.
  - rewrite dlen_sgnz. exact Hd2.
  - rewrite dlen_sgnz. apply digits_ub_ok.
Qed.

Theorem repr_add_small_large_correct p m s1 e1 s2 e2 sg :
  1 <= p -> s1 <> 0 -> s2 <> 0 -> e1 < e2 -> dlen B s1 <= p -> dlen B s2 <= p ->
  rounded_sum p m (sgnz sg * s2 * B ^ (e2 - e1) + s1) e1
    (repr_add_small_large B digits_ub p m s1 e1 s2 e2 sg).
Proof.
  intros Hp H1 H2 He Hd1 Hd2. rewrite small_large_core.
  destruct (is_sub_spec s1 s2 sg H1 H2) as [Ha Hb].
  replace e1 with (e2 - (e2 - e1)) at 2 by lia.
  apply add_core_correct; try assumption; try lia.
  - rewrite dlen_sgnz. exact Hd2.
  - apply digits_ub_ok.
Qed.

(* ------------------------------------------------------------------------------------------- *)
(** * 7. equal exponents, Context::add / Context::sub, the FBig operator bodies *)

Lemma rem_mod_nonzero a b : 0 < b -> Z.rem a b <> 0 -> a mod b <> 0.
Proof.
  intros Hb Hr Hm. apply Hr. apply Z.rem_divide; [lia|]. apply Z.mod_divide; [lia | exact Hm].
Qed.

(** repr_round of a normalised significand (or one that fits) *)
Lemma repr_round_rounded p m s e : 1 <= p -> (s mod B <> 0 \/ dlen B s <= p) ->
  rounded_sum p m s e (repr_round B p m s e).
Proof.
  intros Hp Hn. destruct (Z.le_gt_cases (dlen B s) p) as [Hfit|Hlong].
  - rewrite (repr_round_exact B p m s e Hfit). cbn [rounded_sum]. left. rewrite Z.sub_diag, Z.pow_0_r. lia.
  - destruct Hn as [Hn|Hn]; [|lia].
    destruct (repr_round_spec B B_ge_2 p m s e Hp Hlong) as (a & E & Ea). rewrite E.
    set (k := dlen B s - p) in *. assert (Hk : 1 <= k) by (unfold k; lia).
    pose proof (Bpos k ltac:(lia)) as HP.
    assert (Hs : s <> 0) by (intros ->; rewrite dlen_zero in Hlong; lia).
    destruct (dlen_spec B B_ge_2 s Hs) as [[L U] _].
    pose proof (normalized_low_nonzero B B_ge_2 s k Hn Hk) as Hrem.
    pose proof (Z.quot_rem' s (B ^ k)) as Eqr.
    pose proof (Z.rem_bound_abs s (B ^ k) ltac:(lia)) as Hb. rewrite (Z.abs_eq (B ^ k)) in Hb by lia.
    pose proof (round_fract_spec B B_ge_2 m (Z.quot s (B ^ k)) (Z.rem s (B ^ k)) k ltac:(lia) Hb) as RF.
    rewrite <- Ea in RF. replace (Z.quot s (B ^ k) * B ^ k + Z.rem s (B ^ k)) with s in RF by lia.
    cbn [rounded_sum]. cbv zeta. replace (e + k - e) with k by lia.
    split; [lia|]. split; [apply rem_mod_nonzero; assumption|]. split; [reflexivity|].
    split; [|split].
    + intros Hf. rewrite <- RF, Hf. cbn [adj]. nia.
    + intros Hf. rewrite <- RF, Hf. cbn [adj]. nia.
    + replace (dlen B s - 1) with (p - 1 + k) in L by (unfold k; lia).
      replace (dlen B s) with (p + k) in U by (unfold k; lia).
      split; [exact L|]. eapply Z.lt_le_trans; [exact U|]. apply pow_le_mono; [exact B_ge_2 | lia].
Qed.

(** a result for (s', e + j) is a result for (s' * B^j, e) *)
Lemma rounded_sum_scale p m s' e' s e j a : 1 <= p ->
  0 <= j -> s = s' * B ^ j -> e' = e + j -> rounded_sum p m s' e' a -> rounded_sum p m s e a.
Proof.
  intros Hp Hj Es Ee H. pose proof (Bpos j Hj) as HPj. destruct a as [r ea|r ea f]; cbn [rounded_sum] in *.
  - destruct H as [[Hk Hv]|[Hr Hz]]; [left | right].
    + split; [lia|]. replace (ea - e) with ((ea - e') + j) by lia.
      rewrite pow_split by (try exact B_ge_2; lia). rewrite Es, <- Hv. ring.
    + split; [exact Hr|]. rewrite Es, Hz. ring.
  - cbv zeta in *. destruct H as (Hk & Hm & Hr & Hf1 & Hf2 & HwL & HwU).
    set (k' := ea - e') in *. replace (ea - e) with (k' + j) by (unfold k'; lia).
    pose proof (Bpos k' Hk) as HPk. rewrite !pow_split by (try exact B_ge_2; lia).
    split; [lia|]. split; [|split; [|split; [|split]]].
    + rewrite Es. rewrite Z.mul_mod_distr_r by lia. nia.
    + rewrite Es. rewrite spec_round_scale by lia. exact Hr.
    + intros Hf. specialize (Hf1 Hf). rewrite Es. nia.
    + intros Hf. specialize (Hf2 Hf). rewrite Es. nia.
    + replace (p - 1 + (k' + j)) with ((p - 1 + k') + j) by lia.
      replace (p + 1 + (k' + j)) with ((p + 1 + k') + j) by lia.
      rewrite !pow_split in HwL, HwU by (try exact B_ge_2; lia).
      rewrite Es, Z.abs_mul, (Z.abs_eq (B ^ j)) by lia.
      rewrite !Z.mul_assoc. split.
      * apply Z.mul_le_mono_nonneg_r; lia.
      * rewrite (pow_split B p 1) in HwU by lia. apply Z.mul_lt_mono_pos_r; lia.
Qed.

Lemma equal_exp_rounded p m S e : 1 <= p ->
  rounded_sum p m S e (let '(s, e') := normalize B S e in repr_round B p m s e').
Proof.
  intros Hp. pose proof (normalize_spec B B_ge_2 S e) as N.
  destruct (normalize B S e) as [s' e']. destruct N as [N0 N1].
  destruct (Z.eq_dec S 0) as [Hz|Hnz].
  - destruct (N0 Hz) as [-> ->]. rewrite repr_round_exact by (rewrite dlen_zero; lia).
    cbn [rounded_sum]. right. split; [reflexivity | exact Hz].
  - destruct (N1 Hnz) as (Hs' & Hmod & j & Hj & Ee & Es).
    apply (rounded_sum_scale p m s' e' S e j); try assumption.
    apply repr_round_rounded; [exact Hp | left; exact Hmod].
Qed.

(** the exact sum of (s1, e1) and sg * (s2, e2) as an integer in units of B^(min e1 e2) *)
Definition exact_sum (s1 e1 s2 e2 : Z) (sg : sign) : Z :=
  let e0 := Z.min e1 e2 in s1 * B ^ (e1 - e0) + sgnz sg * s2 * B ^ (e2 - e0).

Theorem add_dispatch_correct p m s1 e1 s2 e2 sg :
  1 <= p -> s1 <> 0 -> s2 <> 0 -> dlen B s1 <= p -> dlen B s2 <= p ->
  rounded_sum p m (exact_sum s1 e1 s2 e2 sg) (Z.min e1 e2) (add_dispatch B digits_ub p m s1 e1 s2 e2 sg).
Proof.
  intros Hp H1 H2 Hd1 Hd2. unfold add_dispatch, exact_sum. cbv zeta.
  destruct (Z.compare_spec e1 e2) as [Heq|Hlt|Hgt].
  - subst e2. rewrite Z.min_id, Z.sub_diag, Z.pow_0_r, !Z.mul_1_r.
    apply equal_exp_rounded. exact Hp.
  - replace (Z.min e1 e2) with e1 by lia. rewrite Z.sub_diag, Z.pow_0_r, Z.mul_1_r.
    rewrite Z.add_comm. apply repr_add_small_large_correct; assumption.
  - replace (Z.min e1 e2) with e2 by lia. rewrite Z.sub_diag, Z.pow_0_r, Z.mul_1_r.
    apply repr_add_large_small_correct; assumption.
Qed.

(** Context::add and Context::sub for operands that fit the precision *)
Theorem ctx_add_correct p m s1 e1 s2 e2 :
  1 <= p -> dlen B s1 <= p -> dlen B s2 <= p ->
  rounded_sum p m (exact_sum s1 e1 s2 e2 Positive) (Z.min e1 e2) (ctx_add B digits_ub p m s1 e1 s2 e2).
Proof.
  intros Hp Hd1 Hd2. unfold ctx_add.
  destruct (Z.eqb_spec s1 0) as [Hz1|Hn1]; [|destruct (Z.eqb_spec s2 0) as [Hz2|Hn2]].
  - rewrite (repr_round_exact B p m s2 e2 Hd2). unfold exact_sum. cbn [sgnz rounded_sum]. subst s1.
    left. split; [lia|]. ring.
  - rewrite (repr_round_exact B p m s1 e1 Hd1). unfold exact_sum. cbn [sgnz rounded_sum]. subst s2.
    left. split; [lia|]. ring.
  - apply add_dispatch_correct; assumption.
Qed.

Theorem ctx_sub_correct p m s1 e1 s2 e2 :
  1 <= p -> dlen B s1 <= p -> dlen B s2 <= p ->
  rounded_sum p m (exact_sum s1 e1 s2 e2 Negative) (Z.min e1 e2) (ctx_sub B digits_ub p m s1 e1 s2 e2).
Proof.
  intros Hp Hd1 Hd2. unfold ctx_sub.
  destruct (Z.eqb_spec s1 0) as [Hz1|Hn1]; [|destruct (Z.eqb_spec s2 0) as [Hz2|Hn2]].
  - rewrite (repr_round_exact B p m s2 e2 Hd2). unfold exact_sum. cbn [approx_neg sgnz rounded_sum]. subst s1.
    left. split; [lia|]. ring.
  - rewrite (repr_round_exact B p m s1 e1 Hd1). unfold exact_sum. cbn [sgnz rounded_sum]. subst s2.
    left. split; [lia|]. ring.
  - apply add_dispatch_correct; assumption.
Qed.

(** the four hand-written bodies of FBig + FBig / FBig - FBig (owned/borrowed forms) at the
    precision p = max(p1, p2); operands of an FBig fit their own precision, hence p *)
Lemma exact_sum_sign s1 e1 s2 e2 sg :
  exact_sum s1 e1 (sgnz sg * s2) e2 Positive = exact_sum s1 e1 s2 e2 sg.
Proof. unfold exact_sum. cbn [sgnz]. ring. Qed.

Definition form_ok (p : Z) (m : mode) (s1 e1 s2 e2 : Z) (sg : sign) (res : Z * Z) : Prop :=
  exists a, res = approx_val a /\ rounded_sum p m (exact_sum s1 e1 s2 e2 sg) (Z.min e1 e2) a.

Lemma zero_left_ok p m e1 s2 e2 sg : form_ok p m 0 e1 s2 e2 sg (sgnz sg * s2, e2).
Proof.
  exists (AExact (sgnz sg * s2) e2). split; [reflexivity|]. unfold exact_sum. cbn [rounded_sum].
  left. split; [lia|]. ring.
Qed.

Lemma zero_right_ok p m s1 e1 s2 e2 sg : sgnz sg * s2 = 0 -> form_ok p m s1 e1 s2 e2 sg (s1, e1).
Proof.
  intros Hz. exists (AExact s1 e1). split; [reflexivity|]. unfold exact_sum. cbn [rounded_sum].
  left. split; [lia|]. rewrite Hz. ring.
Qed.

Theorem fbig_add_forms_correct p1 p2 m s1 e1 s2 e2 sg :
  let p := ctx_max p1 p2 in
  1 <= p -> dlen B s1 <= p -> dlen B s2 <= p ->
  form_ok p m s1 e1 s2 e2 sg (add_val_val B digits_ub p1 p2 m s1 e1 s2 e2 sg) /\
  form_ok p m s1 e1 s2 e2 sg (add_val_ref B digits_ub p1 p2 m s1 e1 s2 e2 sg) /\
  form_ok p m s1 e1 s2 e2 sg (add_ref_val B digits_ub p1 p2 m s1 e1 s2 e2 sg) /\
  form_ok p m s1 e1 s2 e2 sg (add_ref_ref B digits_ub p1 p2 m s1 e1 s2 e2 sg).
Proof.
  intros p Hp Hd1 Hd2.
  assert (Hd2' : dlen B (sgnz sg * s2) <= p) by (rewrite dlen_sgnz; exact Hd2).
  assert (Hs2 : s2 = 0 -> sgnz sg * s2 = 0) by (intros ->; ring).
  assert (Hs2' : sgnz sg * s2 = 0 -> s2 = 0) by (destruct sg; cbn [sgnz]; lia).
  unfold add_val_val, add_val_ref, add_ref_val, add_ref_ref. fold p. cbv zeta.
  repeat split.
  - destruct (Z.eqb_spec s1 0) as [->|Hn1]; [apply zero_left_ok|].
    destruct (Z.eqb_spec (sgnz sg * s2) 0) as [Hz|Hn2]; [apply zero_right_ok; exact Hz|].
    eexists. split; [reflexivity|]. rewrite <- exact_sum_sign.
    apply add_dispatch_correct; assumption.
  - destruct (Z.eqb_spec s1 0) as [->|Hn1]; [apply zero_left_ok|].
    destruct (Z.eqb_spec s2 0) as [Hz|Hn2]; [apply zero_right_ok; auto|].
    eexists. split; [reflexivity|]. apply add_dispatch_correct; assumption.
  - destruct (Z.eqb_spec s1 0) as [->|Hn1]; [apply zero_left_ok|].
    destruct (Z.eqb_spec (sgnz sg * s2) 0) as [Hz|Hn2]; [apply zero_right_ok; exact Hz|].
    eexists. split; [reflexivity|]. rewrite <- exact_sum_sign. unfold exact_sum. cbn [sgnz].
    destruct (Z.compare_spec e1 e2) as [Heq|Hlt|Hgt].
    + subst e2. rewrite Z.min_id, Z.sub_diag, Z.pow_0_r, !Z.mul_1_r, Z.mul_1_l.
      apply equal_exp_rounded. exact Hp.
    + replace (Z.min e1 e2) with e1 by lia. rewrite Z.sub_diag, Z.pow_0_r, Z.mul_1_r, Z.mul_1_l.
      rewrite Z.add_comm.
      pose proof (repr_add_large_small_correct p m (sgnz sg * s2) e2 s1 e1 Positive Hp Hn2 Hn1 Hlt Hd2' Hd1) as H.
      cbn [sgnz] in H. rewrite Z.mul_1_l in H. exact H.
    + replace (Z.min e1 e2) with e2 by lia. rewrite Z.sub_diag, Z.pow_0_r, Z.mul_1_r, Z.mul_1_l.
      pose proof (repr_add_small_large_correct p m (sgnz sg * s2) e2 s1 e1 Positive Hp Hn2 Hn1 Hgt Hd2' Hd1) as H.
      cbn [sgnz] in H. rewrite Z.mul_1_l in H. exact H.
  - destruct (Z.eqb_spec s1 0) as [->|Hn1]; [apply zero_left_ok|].
    destruct (Z.eqb_spec s2 0) as [Hz|Hn2]; [apply zero_right_ok; auto|].
    eexists. split; [reflexivity|]. apply add_dispatch_correct; assumption.
Qed.

(** unlimited precision (p = 0): the sum is exact *)
Theorem ctx_add_sub_unlimited m s1 e1 s2 e2 sg :
  let res := match sg with Positive => ctx_add B digits_ub 0 m s1 e1 s2 e2
                         | Negative => ctx_sub B digits_ub 0 m s1 e1 s2 e2 end in
  exists r e, res = AExact r e /\
    ((0 <= e - Z.min e1 e2 /\ r * B ^ (e - Z.min e1 e2) = exact_sum s1 e1 s2 e2 sg) \/
     (r = 0 /\ exact_sum s1 e1 s2 e2 sg = 0)).
Proof.
  cbv zeta. unfold exact_sum.
  assert (Hd : forall sg', exists r e, add_dispatch B digits_ub 0 m s1 e1 s2 e2 sg' = AExact r e /\
    ((0 <= e - Z.min e1 e2 /\ r * B ^ (e - Z.min e1 e2) = s1 * B ^ (e1 - Z.min e1 e2) + sgnz sg' * s2 * B ^ (e2 - Z.min e1 e2)) \/
     (r = 0 /\ s1 * B ^ (e1 - Z.min e1 e2) + sgnz sg' * s2 * B ^ (e2 - Z.min e1 e2) = 0))).
  { intros sg'. unfold add_dispatch.
    destruct (Z.compare_spec e1 e2) as [Heq|Hlt|Hgt].
    - subst e2. rewrite Z.min_id, Z.sub_diag, Z.pow_0_r, !Z.mul_1_r.
      pose proof (normalize_spec B B_ge_2 (s1 + sgnz sg' * s2) e1) as N.
      destruct (normalize B (s1 + sgnz sg' * s2) e1) as [s' e']. destruct N as [N0 N1].
      rewrite repr_round_unlimited. exists s', e'. split; [reflexivity|].
      destruct (Z.eq_dec (s1 + sgnz sg' * s2) 0) as [Hz|Hnz].
      + right. destruct (N0 Hz) as [-> _]. split; [reflexivity | exact Hz].
      + left. destruct (N1 Hnz) as (_ & _ & j & Hj & Ee & Es). replace (e' - e1) with j by lia.
        split; [lia | lia].
    - unfold repr_add_small_large. cbn [Z.eqb negb andb]. rewrite rrs_unfold. cbn [Z.eqb].
      eexists _, _. split; [reflexivity|]. left.
      replace (Z.min e1 e2) with e1 by lia. rewrite !Z.sub_diag, Z.pow_0_r. unfold shl_digits.
      split; [lia | ring].
    - unfold repr_add_large_small. cbn [Z.eqb negb andb]. rewrite rrs_unfold. cbn [Z.eqb].
      eexists _, _. split; [reflexivity|]. left.
      replace (Z.min e1 e2) with e2 by lia. rewrite !Z.sub_diag, Z.pow_0_r. unfold shl_digits.
      split; [lia | ring]. }
  destruct sg; [unfold ctx_add | unfold ctx_sub].
  - destruct (Z.eqb_spec s1 0) as [->|Hn1]; [|destruct (Z.eqb_spec s2 0) as [->|Hn2]].
    + rewrite repr_round_unlimited. exists s2, e2. split; [reflexivity|]. left. cbn [sgnz]. split; [lia | ring].
    + rewrite repr_round_unlimited. exists s1, e1. split; [reflexivity|]. left. cbn [sgnz]. split; [lia | ring].
    + apply Hd.
  - destruct (Z.eqb_spec s1 0) as [->|Hn1]; [|destruct (Z.eqb_spec s2 0) as [->|Hn2]].
    + rewrite repr_round_unlimited. cbn [approx_neg]. exists (- s2), e2. split; [reflexivity|]. left. cbn [sgnz]. split; [lia | ring].
    + rewrite repr_round_unlimited. exists s1, e1. split; [reflexivity|]. left. cbn [sgnz]. split; [lia | ring].
    + apply Hd.
Qed.

(* ------------------------------------------------------------------------------------------- *)
(** * 8. [rounded_sum] is the documented contract *)

(** S = t * B^j with |t| < B^p: S is representable with p digits *)
Definition representable (p S : Z) : Prop := exists t j, 0 <= j /\ S = t * B ^ j /\ Z.abs t < B ^ p.

Theorem rounded_sum_contract p m S e0 a : 1 <= p -> rounded_sum p m S e0 a ->
  match a with
  | AExact r e => r = 0 /\ S = 0 \/ 0 <= e - e0 /\ r * B ^ (e - e0) = S
  | AInexact r e f =>
      let U := B ^ (e - e0) in                          (* one unit of the last kept digit *)
      0 <= e - e0 /\
      r * U <> S /\                                     (* flagged Inexact only when inexact *)
      Z.abs (r * U - S) < U /\                          (* error below one unit ... *)
      U * B ^ (p - 1) <= Z.abs S /\                     (* ... and that unit is at most one ulp at precision p *)
      (is_half_mode m = true -> 2 * Z.abs (r * U - S) <= U) /\
      side_ok m S U r /\                                (* directed modes land on the prescribed side *)
      (f = AddOne -> S < r * U) /\ (f = SubOne -> r * U < S) /\
      Z.abs r <= B ^ (p + 1) /\                         (* at most p+1 digits (or the power itself) *)
      ~ representable p S                               (* a representable sum is never flagged Inexact *)
  end.
Proof.
  intros Hp H. destruct a as [r e|r e f]; cbn [rounded_sum] in H.
  - tauto.
  - cbv zeta in *. destruct H as (Hk & Hm & Hr & Hf1 & Hf2 & HwL & HwU).
    set (k := e - e0) in *. pose proof (Bpos k Hk) as HU. set (U := B ^ k) in *.
    pose proof (spec_round_error m S U HU) as [E1 E2]. cbv zeta in E1, E2. rewrite <- Hr in E1, E2.
    pose proof (spec_round_side m S U HU) as Hside. rewrite <- Hr in Hside.
    rewrite pow_split in HwL by (try exact B_ge_2; lia).
    replace (p + 1 + k) with ((p + 1) + k) in HwU by lia. rewrite pow_split in HwU by (try exact B_ge_2; lia).
    fold U in HwL, HwU. pose proof (Bpos (p - 1) ltac:(lia)) as HP1. pose proof (Bpos (p + 1) ltac:(lia)) as HP2.
    split; [exact Hk|]. split.
    { intros Heq. apply Hm. rewrite <- Heq. apply Z.mod_mul. lia. }
    split; [exact E1|]. split; [lia|]. split; [exact E2|]. split; [exact Hside|].
    split; [exact Hf1|]. split; [exact Hf2|]. split.
    { destruct (Z.le_gt_cases (Z.abs r) (B ^ (p + 1))) as [Hle|Hgt]; [exact Hle|]. exfalso.
      assert ((B ^ (p + 1) + 1) * U <= Z.abs r * U) by nia.
      assert (Z.abs (r * U) = Z.abs r * U) by (rewrite Z.abs_mul, (Z.abs_eq U); lia). lia. }
    intros (t & j & Hj & Et & Ht).
    destruct (Z.le_gt_cases k j) as [Hkj|Hjk].
    + apply Hm. rewrite Et. replace j with ((j - k) + k) by lia. rewrite pow_split by (try exact B_ge_2; lia).
      fold U. rewrite Z.mul_assoc. apply Z.mod_mul. lia.
    + (* |S| < B^(p+j) <= B^(p+k-1) <= |S| *)
      assert (HS : Z.abs S = Z.abs t * B ^ j).
      { rewrite Et, Z.abs_mul, (Z.abs_eq (B ^ j)); [reflexivity|]. pose proof (Bpos j Hj). lia. }
      pose proof (Bpos j Hj) as HPj.
      assert (Z.abs S < B ^ p * B ^ j) by (rewrite HS; nia).
      assert (B ^ p * B ^ j <= B ^ (p - 1) * U).
      { unfold U. rewrite <- !pow_split by (try exact B_ge_2; lia). apply pow_le_mono; [exact B_ge_2 | lia]. }
      lia.
Qed.
End AddProofs.
