(** C11 round 5, piece (i) of C11_exp_nearest_1ulp_partial: the additions of the series loops.

    The FBig additions of the as-is model (ElemAsis.fb_add_vv / fb_add_vr: AddModel.add_val_val /
    add_val_ref, i.e. AddModel.add_dispatch) meet the rounding contract of C03 for operands of ANY
    length whenever the two addends have the same sign (an effective addition): outside the class
    [add_short_class] (empty for same-sign operands: AddLongProof.add_short_class_same_sign) the
    model of the code before the repair b8f1245 equals the model of the repaired code
    (FixAddProof.add_dispatch_fix_eq_old), and that one is correct for all operands
    (FixAddProof.add_dispatch_fix_correct = C03_add_repaired_any_length without the zero shortcuts).

      rounded_sum_rel        the contract [rounded_sum] gives one rounding with relative error
                             u = 1 / (2 B^(P-1)) in the nearest modes
      fb_add_vv_rel / fb_add_vr_rel   value = (x + y) * theta, |theta - 1| <= u, for same-sign operands
      exp_series_loop_trace  EVERY run of ElemAsis.exp_series_loop that starts in a state of ExpTrace
                             (ElemSeriesErr.v) and returns, returns a state of ExpTrace whose next
                             increase is at most the threshold B^(sub_ulp_exp sum) - no hypothesis
                             about the addition is left
      exp_series_asis_error  hence the error bound of ElemSeriesErr.exp_series_error for the value
                             the as-is loop returns. *)
From Coq Require Import ZArith Reals Lra Lia Bool Psatz.
From Flocq Require Import Core.
From Dashu Require Import Base.Prelude Float.RoundSpec Float.RoundSpecProof Float.Contract Float.Model
  Float.ModelProof Float.AddModel Float.AddModelProof Float.LongModel Float.AddLongProof Float.FixModel
  Float.FixAddProof Float.DivMulModel Float.ElemEncl Float.ElemEntryProof Float.ElemEnclProof
  Float.ElemF32 Float.ElemAsis Float.ElemPowiProof Float.ElemSeriesErr Float.ElemSeriesInst.
From DashuGen Require Import RoundTables ElemParams.
Open Scope Z_scope.

Section AddInst.
Variable B : Z.
Hypothesis HB : 2 <= B.
Local Notation bp := (bpw B).

(** the contract of C03's additions as one rounding with relative error u *)
Lemma rounded_sum_rel p m S e0 a : 1 <= p -> is_half_mode m = true -> S <> 0 ->
  rounded_sum B p m S e0 a ->
  exists th : R, aval B a = (fval B S e0 * th)%R /\ (Rabs (th - 1) <= uP B p)%R.
Proof.
  intros Hp Hm HS H. destruct a as [r e | r e f]; cbn [rounded_sum] in H.
  - destruct H as [[Hk E] | [_ E]]; [|contradiction].
    exists 1%R. split.
    + unfold aval. cbn [approx_sig approx_exp]. rewrite <- E, (fval_shift B HB) by assumption.
      replace (e0 + (e - e0)) with e by lia. ring.
    + replace (1 - 1)%R with 0%R by ring. rewrite Rabs_R0. left. apply (uP_pos B HB). exact Hp.
  - cbv zeta in H. destruct H as (Hk & _ & Er & _ & _ & HL & _).
    set (k := e - e0) in *.
    assert (Hpk : 0 < B ^ k) by (apply Z.pow_pos_nonneg; lia).
    assert (Hpp : 0 < B ^ (p - 1)) by (apply Z.pow_pos_nonneg; lia).
    destruct (spec_round_error m S (B ^ k) Hpk) as [_ Hh]. specialize (Hh Hm). cbv zeta in Hh. rewrite <- Er in Hh.
    assert (Hd : B ^ (p - 1 + k) = B ^ (p - 1) * B ^ k) by (apply Z.pow_add_r; lia).
    assert (Hz : 2 * B ^ (p - 1) * Z.abs (r * B ^ k - S) <= Z.abs S).
    { rewrite Hd in HL. clear - Hh HL Hpp Hpk.
      assert (B ^ (p - 1) * (2 * Z.abs (r * B ^ k - S)) <= B ^ (p - 1) * B ^ k) by (apply Z.mul_le_mono_nonneg_l; lia). lia. }
    exists (IZR (r * B ^ k) / IZR S)%R.
    assert (Hsr : IZR S <> 0%R) by (apply not_0_IZR; assumption).
    split.
    + unfold aval. cbn [approx_sig approx_exp]. replace e with (e0 + k) by (unfold k; lia).
      rewrite <- (fval_shift B HB) by assumption. rewrite !(fval_bpw B). field. assumption.
    + replace (IZR (r * B ^ k) / IZR S - 1)%R with (IZR (r * B ^ k - S) / IZR S)%R by (rewrite minus_IZR; field; assumption).
      unfold Rdiv. rewrite Rabs_mult, Rabs_inv, <- !abs_IZR.
      pose proof (U_ge2 B HB p Hp) as HU.
      unfold uP. apply (Rmult_le_reg_r (IZR (2 * B ^ (p - 1)))); [lra|]. rewrite Rinv_l by lra.
      apply IZR_le in Hz. rewrite !mult_IZR in Hz. rewrite mult_IZR.
      assert (Hsp : (0 < IZR (Z.abs S))%R) by (apply IZR_lt; lia).
      apply (Rmult_le_reg_r (IZR (Z.abs S))); [assumption|].
      replace (IZR (Z.abs (r * B ^ k - S)) * / IZR (Z.abs S) * (2 * IZR (B ^ (p - 1))) * IZR (Z.abs S))%R
        with (2 * IZR (B ^ (p - 1)) * IZR (Z.abs (r * B ^ k - S)))%R by (field; lra).
      lra.
Qed.

(** value of the exact sum *)
Lemma exact_sum_val s1 e1 s2 e2 sg :
  fval B (exact_sum B s1 e1 s2 e2 sg) (Z.min e1 e2) = (fval B s1 e1 + IZR (sgnz sg) * fval B s2 e2)%R.
Proof.
  unfold exact_sum. cbv zeta. set (e0 := Z.min e1 e2).
  assert (H1 : 0 <= e1 - e0) by (unfold e0; lia). assert (H2 : 0 <= e2 - e0) by (unfold e0; lia).
  rewrite !(fval_bpw B), plus_IZR, !mult_IZR, (IZR_Bpow B _ H1), (IZR_Bpow B _ H2).
  replace e1 with ((e1 - e0) + e0) at 2 by lia. replace e2 with ((e2 - e0) + e0) at 2 by lia.
  rewrite !(bpw_add B HB). ring.
Qed.

(** AddModel.add_dispatch (the code before the repair of the over-long cancellation, which is the code
    of today for these operands) on an effective addition: operands of any length *)
Theorem add_dispatch_same_sign_rel p m s1 e1 s2 e2 sg : 1 <= p -> is_half_mode m = true ->
  0 < s1 * (sgnz sg * s2) ->
  exists th : R, aval B (add_dispatch B (dlen B) p m s1 e1 s2 e2 sg)
                 = ((fval B s1 e1 + IZR (sgnz sg) * fval B s2 e2) * th)%R /\ (Rabs (th - 1) <= uP B p)%R.
Proof.
  intros Hp Hm Hs.
  assert (H1 : s1 <> 0) by (intros ->; lia).
  assert (H2 : s2 <> 0) by (intros ->; destruct sg; cbn [sgnz] in Hs; lia).
  assert (Hdu : forall s, dlen B s <= dlen B s) by (intros; lia).
  destruct (add_dispatch_fix_correct B HB (dlen B) Hdu p m s1 e1 s2 e2 sg Hp H1 H2) as (a & Ea & Ga).
  rewrite (add_dispatch_fix_eq_old B HB (dlen B) Hdu p m s1 e1 s2 e2 sg Hp H1 H2
             (add_short_class_same_sign B HB p s1 e1 s2 e2 sg Hp Hs)) in Ea.
  injection Ea as <-.
  assert (HS : exact_sum B s1 e1 s2 e2 sg <> 0).
  { unfold exact_sum. cbv zeta. set (e0 := Z.min e1 e2).
    assert (0 < B ^ (e1 - e0)) by (apply Z.pow_pos_nonneg; unfold e0; lia).
    assert (0 < B ^ (e2 - e0)) by (apply Z.pow_pos_nonneg; unfold e0; lia).
    set (t := sgnz sg * s2) in *. clearbody t. clear - Hs H H0.
    destruct (Z.lt_trichotomy s1 0) as [L|[L|L]]; [|subst; lia|].
    - assert (t < 0) by nia. assert (s1 * B ^ (e1 - e0) < 0) by (apply Z.mul_neg_pos; lia).
      assert (t * B ^ (e2 - e0) < 0) by (apply Z.mul_neg_pos; lia). lia.
    - assert (0 < t) by nia. assert (0 < s1 * B ^ (e1 - e0)) by (apply Z.mul_pos_pos; lia).
      assert (0 < t * B ^ (e2 - e0)) by (apply Z.mul_pos_pos; lia). lia. }
  destruct (rounded_sum_rel p m _ _ _ Hp Hm HS Ga) as (th & E & Hth).
  exists th. rewrite E, exact_sum_val. split; [reflexivity | exact Hth].
Qed.

(** FBig + FBig by value (sum += increase) *)
Theorem fb_add_vv_rel m x y : is_half_mode m = true -> 1 <= ctx_max (fprec x) (fprec y) ->
  0 < fsig x * fsig y ->
  exists th : R, fbv B (fb_add_vv B m x y Positive) = ((fbv B x + fbv B y) * th)%R /\
                 (Rabs (th - 1) <= uP B (ctx_max (fprec x) (fprec y)))%R.
Proof.
  intros Hm HP Hs. unfold fb_add_vv. rewrite (fbv_fb_of B HB). unfold add_val_val_x, add_val_val. cbv zeta.
  cbn [sgnz]. rewrite Z.mul_1_l.
  destruct (Z.eqb_spec (fsig x) 0) as [E|_]; [rewrite E in Hs; lia|].
  destruct (Z.eqb_spec (fsig y) 0) as [E|_]; [rewrite E in Hs; lia|].
  destruct (add_dispatch_same_sign_rel (ctx_max (fprec x) (fprec y)) m (fsig x) (fexp x) (fsig y) (fexp y) Positive HP Hm)
    as (th & E & Hth); [cbn [sgnz]; lia|].
  exists th. unfold approx_val. cbn [fst snd]. fold (aval B (add_dispatch B (dlen B) (ctx_max (fprec x) (fprec y)) m (fsig x) (fexp x) (fsig y) (fexp y) Positive)).
  rewrite E. cbn [sgnz]. unfold fbv. split; [ring | exact Hth].
Qed.

(** FBig + &FBig (FBig::ONE + &r); a zero right operand returns the left one unchanged *)
Theorem fb_add_vr_rel m x y : is_half_mode m = true -> 1 <= ctx_max (fprec x) (fprec y) ->
  0 < fsig x -> 0 <= fsig y ->
  exists th : R, fbv B (fb_add_vr B m x y Positive) = ((fbv B x + fbv B y) * th)%R /\
                 (Rabs (th - 1) <= uP B (ctx_max (fprec x) (fprec y)))%R.
Proof.
  intros Hm HP Hx Hy. unfold fb_add_vr. rewrite (fbv_fb_of B HB). unfold add_val_ref_x, add_val_ref. cbv zeta.
  destruct (Z.eqb_spec (fsig x) 0) as [E|_]; [lia|].
  destruct (Z.eqb_spec (fsig y) 0) as [E|NE].
  - exists 1%R. cbn [fst snd]. unfold fbv. rewrite E, fval_0. split; [ring|].
    replace (1 - 1)%R with 0%R by ring. rewrite Rabs_R0. left. apply (uP_pos B HB). exact HP.
  - destruct (add_dispatch_same_sign_rel (ctx_max (fprec x) (fprec y)) m (fsig x) (fexp x) (fsig y) (fexp y) Positive HP Hm)
      as (th & E & Hth); [cbn [sgnz]; nia|].
    exists th. unfold approx_val. cbn [fst snd]. fold (aval B (add_dispatch B (dlen B) (ctx_max (fprec x) (fprec y)) m (fsig x) (fexp x) (fsig y) (fexp y) Positive)).
    rewrite E. cbn [sgnz]. unfold fbv. split; [ring | exact Hth].
Qed.

(* ------------------------------------------------------------------ comparisons of values *)
Lemma fval_cmp_spec s1 e1 s2 e2 :
  match fval_cmp B s1 e1 s2 e2 with
  | Lt => (fval B s1 e1 < fval B s2 e2)%R
  | Eq => fval B s1 e1 = fval B s2 e2
  | Gt => (fval B s1 e1 > fval B s2 e2)%R
  end.
Proof.
  unfold fval_cmp. destruct (Z.leb_spec e1 e2) as [H|H].
  - assert (Hk : 0 <= e2 - e1) by lia.
    assert (E : fval B s2 e2 = fval B (s2 * B ^ (e2 - e1)) e1).
    { rewrite (fval_shift B HB) by assumption. f_equal. lia. }
    rewrite E, !(fval_bpw B). pose proof (bpw_pos B HB e1) as Hp.
    destruct (Z.compare_spec s1 (s2 * B ^ (e2 - e1))) as [C|C|C].
    + rewrite C. reflexivity.
    + apply IZR_lt in C. nra.
    + apply IZR_lt in C. nra.
  - assert (Hk : 0 <= e1 - e2) by lia.
    assert (E : fval B s1 e1 = fval B (s1 * B ^ (e1 - e2)) e2).
    { rewrite (fval_shift B HB) by assumption. f_equal. lia. }
    rewrite E, !(fval_bpw B). pose proof (bpw_pos B HB e2) as Hp.
    destruct (Z.compare_spec (s1 * B ^ (e1 - e2)) s2) as [C|C|C].
    + rewrite C. reflexivity.
    + apply IZR_lt in C. nra.
    + apply IZR_lt in C. nra.
Qed.

Lemma fval_abs s e : fval B (Z.abs s) e = Rabs (fval B s e).
Proof.
  rewrite !(fval_bpw B), Rabs_mult, abs_IZR. f_equal. symmetry. apply Rabs_pos_eq. left. apply (bpw_pos B HB).
Qed.

Lemma fval_abs_le_spec s1 e1 s2 e2 :
  fval_abs_le B s1 e1 s2 e2 = true <-> (Rabs (fval B s1 e1) <= Rabs (fval B s2 e2))%R.
Proof.
  unfold fval_abs_le. pose proof (fval_cmp_spec (Z.abs s1) e1 (Z.abs s2) e2) as H.
  rewrite !fval_abs in H. destruct (fval_cmp B (Z.abs s1) e1 (Z.abs s2) e2); split; intros G; try reflexivity; try discriminate; lra.
Qed.

Lemma fval_lt_spec s1 e1 s2 e2 : fval_lt B s1 e1 s2 e2 = true <-> (fval B s1 e1 < fval B s2 e2)%R.
Proof.
  unfold fval_lt. pose proof (fval_cmp_spec s1 e1 s2 e2) as H.
  destruct (fval_cmp B s1 e1 s2 e2); split; intros G; try reflexivity; try discriminate; lra.
Qed.

(* ------------------------------------------------------------------ the Maclaurin loop of the as-is model *)
Section ExpLoop.
Context {F : Type} (O : f32ops F).
Variable W : Z.
Variable m : mode.
Hypothesis Hm : is_half_mode m = true.
Variable P : Z.
Hypothesis HP : 1 <= P.
Variable r : fbig.
Hypothesis Hr : P <= fprec r.
Hypothesis Hr0 : 0 <= fsig r.

Local Notation u := (uP B P).
Local Notation rho := (fbv B r).

Lemma rho_nonneg : (0 <= rho)%R.
Proof. unfold fbv. rewrite (fval_bpw B). apply Rmult_le_pos; [apply IZR_le; exact Hr0 | left; apply (bpw_pos B HB)]. Qed.

Lemma fb_sign_pos x : (0 < fbv B x)%R -> 0 < fsig x.
Proof.
  unfold fbv. rewrite (fval_bpw B). intros H. pose proof (bpw_pos B HB (fexp x)) as Hp.
  destruct (Z_lt_le_dec 0 (fsig x)) as [L|L]; [exact L|]. apply IZR_le in L. nra.
Qed.

Lemma ctx_max_ge a b : P <= a -> P <= ctx_max a b.
Proof. intros H. unfold ctx_max. destruct (Z.gtb_spec a b); lia. Qed.
Lemma ctx_max_ge_r a b : P <= b -> P <= ctx_max a b.
Proof. intros H. unfold ctx_max. destruct (Z.gtb_spec a b); lia. Qed.

Lemma fprec_fb_of v p : fprec (fb_of B v p) = p.
Proof. unfold fb_of. destruct (normalize B (fst v) (snd v)). reflexivity. Qed.

Lemma u_ok : (0 <= u)%R /\ (u <= 1)%R.
Proof.
  pose proof (uP_pos B HB P HP) as H0. split; [lra|].
  unfold uP. pose proof (U_ge2 B HB P HP) as HU. rewrite <- Rinv_1. apply Rinv_le_contravar; lra.
Qed.

(** EVERY returning run of the loop from a state of the trace ends in a state of the trace whose next
    increase is below the threshold *)
Theorem exp_series_loop_trace : forall fuel sum pow (k : nat) res,
  P <= fprec pow -> P <= fprec sum ->
  ExpTrace u rho k (fbv B pow) (fbv B sum) ->
  exp_series_loop B O W fuel m r sum pow (Z.of_nat (fact k)) (Z.of_nat (S k)) = Ok res ->
  exists (K : nat) pw th1 th2, (k <= K)%nat /\ (K < k + fuel)%nat /\ ExpTrace u rho K pw (fbv B res) /\
    (Rabs (th1 - 1) <= u)%R /\ (Rabs (th2 - 1) <= u)%R /\
    (Rabs (next_increase rho pw K th1 th2) <= bp (sub_ulp_exp B O W res))%R /\
    P <= fprec res /\ (0 < fbv B res)%R.
Proof.
  induction fuel as [|fuel IH]; intros sum pow k res Hpw Hsm T E; [discriminate|].
  cbn [exp_series_loop] in E.
  replace (Z.of_nat (fact k) * Z.of_nat (S k)) with (Z.of_nat (fact (S k))) in E
    by (rewrite fact_simpl, Nat2Z.inj_mul; ring).
  destruct (exp_series_step_trace B HB m P r sum pow k Hm HP Hr Hpw T) as (inc & Ei & th1 & th2 & H1 & H2 & Epw & Einc & Hnext).
  cbv zeta in Ei. rewrite Ei in E. cbn [rbind] in E.
  pose proof u_ok as [u0 u1].
  destruct (exp_trace_RA u u0 u1 rho k _ _ rho_nonneg T) as (Hk & Hp & Hs).
  assert (Hsum_pos : (0 < fbv B sum)%R).
  { destruct Hs as (t & Es & Lt & _). rewrite Es.
    assert (0 < Tn rho k)%R.
    { destruct k as [|k']; [lia|]. unfold Tn. rewrite tech2 with (m := 0%nat) by lia. cbn [sum_f_R0].
      unfold eterm at 1. cbn [fact INR]. rewrite pow_O, Rinv_1.
      match goal with |- (0 < _ + ?s)%R => assert (0 <= s)%R by (apply cond_pos_sum; intros i; apply eterm_nonneg, rho_nonneg) end.
      lra. }
    assert (0 < t)%R.
    { eapply Rlt_le_trans; [|exact Lt]. apply pow_lt.
      assert (u < 1)%R; [|lra]. unfold uP. pose proof (U_ge2 B HB P HP). rewrite <- Rinv_1. apply Rinv_lt_contravar; lra. }
    nra. }
  destruct (fval_abs_le B (fsig inc) (fexp inc) 1 (sub_ulp_exp B O W sum)) eqn:C.
  - injection E as <-. exists k, (fbv B pow), th1, th2.
    split; [lia|]. split; [lia|]. split; [exact T|]. split; [exact H1|]. split; [exact H2|]. split; [|split; [exact Hsm | exact Hsum_pos]].
    apply fval_abs_le_spec in C. rewrite (fval_1 B), (Rabs_pos_eq (bp _)) in C by (left; apply (bpw_pos B HB)).
    rewrite <- Einc. exact C.
  - (* the loop goes on: the increase is not zero and positive, the sum is positive *)
    assert (Hinc_nz : fbv B inc <> 0%R).
    { intros Z0. assert (fval_abs_le B (fsig inc) (fexp inc) 1 (sub_ulp_exp B O W sum) = true).
      { apply fval_abs_le_spec. unfold fbv in Z0. rewrite Z0, Rabs_R0. apply Rabs_pos. }
      congruence. }
    assert (Hinc_pos : (0 < fbv B inc)%R).
    { pose proof (next_increase_RA u u0 u1 rho k _ th1 th2 rho_nonneg Hp H1 H2 Hk) as (t & Et & Lt & _).
      rewrite Einc, Et in *.
      assert (0 <= eterm rho (S k))%R by (apply eterm_nonneg, rho_nonneg).
      assert (0 <= t)%R by (eapply Rle_trans; [apply (pow_1mu_nonneg u u1)|exact Lt]).
      assert (0 <= eterm rho (S k) * t)%R by (apply Rmult_le_pos; assumption). lra. }
    pose proof (fb_sign_pos _ Hsum_pos) as Hss. pose proof (fb_sign_pos _ Hinc_pos) as His.
    set (pow' := fb_mul B m pow r) in *.
    assert (Hpp : P <= fprec pow') by (unfold pow', fb_mul; rewrite fprec_fb_of; apply ctx_max_ge; exact Hpw).
    set (sum' := fb_add_vv B m sum inc Positive) in *.
    assert (HPs : P <= ctx_max (fprec sum) (fprec inc)) by (apply ctx_max_ge; exact Hsm).
    destruct (fb_add_vv_rel m sum inc Hm ltac:(lia) ltac:(nia)) as (th3 & E3 & H3).
    assert (H3' : (Rabs (th3 - 1) <= u)%R).
    { eapply Rle_trans; [exact H3|]. apply (uP_antitone B HB). lia. }
    fold sum' in E3. specialize (Hnext sum' th3 H3' E3).
    assert (Hsp : P <= fprec sum') by (unfold sum', fb_add_vv; rewrite fprec_fb_of; exact HPs).
    replace (Z.of_nat (S k) + 1) with (Z.of_nat (S (S k))) in E by lia.
    destruct (IH sum' pow' (S k) res Hpp Hsp Hnext E) as (K & pw & t1 & t2 & HK1 & HK2 & TK & G).
    exists K, pw, t1, t2. split; [lia|]. split; [lia|]. split; [exact TK | exact G].
Qed.

(** the loop as exp_internal starts it (scaled branch): sum = ONE + &r, pow = r, factorial = 1, k = 2 *)
Theorem exp_series_asis_error fuel res : (rho <= / 2)%R ->
  exp_series_loop B O W fuel m r (fb_add_vr B m ONE r Positive) r 1 2 = Ok res ->
  P <= fprec res /\ (0 < fbv B res)%R /\
  exists K : nat, (1 <= K)%nat /\ (K <= fuel)%nat /\
    ((INR (S K) * u < 1)%R ->
     (Rabs (fbv B res - exp rho) * (1 - INR (S K) * u) <= exp rho * (INR (S K) * u) + 2 * bp (sub_ulp_exp B O W res))%R).
Proof.
  intros Hhalf E. pose proof u_ok as [u0 u1].
  assert (H1 : fbv B ONE = 1%R) by (unfold fbv, ONE; cbn [fsig fexp]; apply fval_1_0).
  assert (HP0 : P <= ctx_max (fprec ONE) (fprec r)) by (apply ctx_max_ge_r; exact Hr).
  destruct (fb_add_vr_rel m ONE r Hm ltac:(lia) ltac:(cbn; lia) Hr0) as (th & E0 & Hth).
  assert (Hth' : (Rabs (th - 1) <= u)%R) by (eapply Rle_trans; [exact Hth | apply (uP_antitone B HB); lia]).
  rewrite H1 in E0.
  assert (T : ExpTrace u rho 1 (fbv B r) (fbv B (fb_add_vr B m ONE r Positive))) by (rewrite E0; apply ET_init; exact Hth').
  destruct (exp_series_loop_trace fuel (fb_add_vr B m ONE r Positive) r 1 res Hr
              ltac:(unfold fb_add_vr; rewrite fprec_fb_of; exact HP0) T E)
    as (K & pw & th1 & th2 & HK1 & HK2 & TK & G1 & G2 & G3 & GP & Gpos).
  split; [exact GP|]. split; [exact Gpos|]. exists K. split; [exact HK1|]. split; [lia|]. intros Hcu.
  apply (exp_series_error u u0 u1 rho K pw (fbv B res) th1 th2 _ (conj rho_nonneg Hhalf) TK G1 G2 G3 Hcu).
Qed.

End ExpLoop.
End AddInst.

Example add_inst_example :
  (exists th : R, fbv 10 (fb_add_vv 10 MHalfEven (FB 12345 (-4) 3) (FB 678 0 3) Positive)
                  = ((fbv 10 (FB 12345 (-4) 3) + fbv 10 (FB 678 0 3)) * th)%R /\ (Rabs (th - 1) <= uP 10 3)%R) /\
  exp_series_loop 10 no_f32 64 20 MHalfEven (FB 5 (-2) 6) (fb_add_vr 10 MHalfEven ONE (FB 5 (-2) 6) Positive) (FB 5 (-2) 6) 1 2
    = Ok (FB 105127 (-5) 6).
Proof.
  split; [|vm_compute; reflexivity].
  apply (fb_add_vv_rel 10 ltac:(lia) MHalfEven (FB 12345 (-4) 3) (FB 678 0 3)); [reflexivity | vm_compute; discriminate | reflexivity].
Qed.
