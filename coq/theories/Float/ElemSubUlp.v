(** C11: the stop criterion of the series loops.  FBig::sub_ulp (as-is: ElemAsis.sub_ulp_exp) is
    B^(exponent + digits_lb - precision - 1); for EVERY f32 estimate layer (digits_lb is an `as usize`
    value, hence >= 0) and every value whose significand has at most precision + 1 digits (what
    repr_round and repr_div return) it is at least  |value| * B^-(2 precision + 2)  and positive:
    the hypothesis [thr_ok] of ElemSeriesFuel.v with tau = B^-(2P+2). *)
From Coq Require Import ZArith Reals Lra Lia.
From Dashu Require Import Base.Prelude Float.RoundSpec Float.Contract Float.Model Float.ElemEntryProof
  Float.ElemEnclProof Float.ElemF32 Float.ElemAsis Float.ElemPowiProof.
Open Scope Z_scope.

Section SubUlp.
Variable B : Z.
Hypothesis HB : 2 <= B.
Context {F : Type} (O : f32ops F).
Variable W : Z.
Hypothesis usize_nonneg : forall x, 0 <= f_to_usize O x.

Lemma digits_lb_nonneg s : 0 <= digits_lb O W B s.
Proof. unfold digits_lb. destruct (s =? 0); [lia | apply usize_nonneg]. Qed.

Theorem sub_ulp_exp_lower x : fexp x - fprec x - 1 <= sub_ulp_exp B O W x.
Proof. unfold sub_ulp_exp. pose proof (digits_lb_nonneg (fsig x)). lia. Qed.

Theorem sub_ulp_threshold x : 0 <= fprec x -> Z.abs (fsig x) <= B ^ (fprec x + 1) ->
  (Rabs (fval B (fsig x) (fexp x)) * bpw B (- (2 * fprec x + 2)) <= bpw B (sub_ulp_exp B O W x))%R /\
  (0 < bpw B (sub_ulp_exp B O W x))%R.
Proof.
  intros HP Hs. split; [|apply (bpw_pos B HB)].
  eapply Rle_trans; [|apply (bpw_le B HB), sub_ulp_exp_lower].
  rewrite (fval_bpw B), Rabs_mult, <- abs_IZR.
  rewrite (Rabs_pos_eq (bpw B (fexp x))) by (left; apply (bpw_pos B HB)).
  apply IZR_le in Hs. rewrite (IZR_Bpow B (fprec x + 1)) in Hs by lia.
  remember (fprec x + 1) as P1 eqn:EP1. remember (- (2 * fprec x + 2)) as M2 eqn:EM2.
  replace (fexp x - fprec x - 1) with (P1 + fexp x + M2) by lia.
  rewrite !(bpw_add B HB).
  pose proof (bpw_pos B HB (fexp x)). pose proof (bpw_pos B HB M2).
  apply Rmult_le_compat_r; [lra|]. apply Rmult_le_compat_r; [lra | exact Hs].
Qed.

End SubUlp.
