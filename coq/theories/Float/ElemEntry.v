(** C11: as-is model of the ENTRY LOGIC of exp / exp_m1 / ln / ln_1p / powi / powf
    (float/src/exp.rs Context::{exp_internal, powi, powf}, float/src/log.rs Context::ln_internal):
    the checks and shortcuts that run before the series code, in the order of the source.
    These decide the panics (infinite operand, unlimited precision, domain) and every result that is
    flagged Exact.  Definitions only (theorems: ElemEntryProof.v).

    A float is (s, e) = s * B^e, already normalised by Repr::new (Model.normalize).  [p] is the
    context precision, 0 = unlimited.  IBig arithmetic is Z arithmetic (C01/C02). *)
From Dashu Require Import Base.Prelude Float.RoundSpec Float.Contract Float.Model.
Open Scope Z_scope.

(** what the entry logic decides *)
Inductive epanic := EPUnlimited | EPNegBase | EPLogDomain.

Inductive entry :=
| EPanic (r : epanic)          (* documented panic *)
| EExact (s e : Z)             (* returned flagged Exact with exactly this value *)
| ERound (a : approx)          (* the operand itself, rounded to the context precision (repr_round_ref) *)
| ECompute.                    (* the series / powering code runs; the result is flagged Inexact *)

Definition is_one (s e : Z) : bool := (s =? 1) && (e =? 0).

(** exp.rs exp_internal: assert_limited_precision; x.is_zero() => Exact(ONE | ZERO) *)
Definition exp_entry (p s : Z) (minus_one : bool) : entry :=
  if p =? 0 then EPanic EPUnlimited
  else if s =? 0 then (if minus_one then EExact 0 0 else EExact 1 0)
  else ECompute.

(** log.rs ln_internal: assert_limited_precision; ln 1 / ln_1p 0 => Exact(ZERO); then the domain
    check added by the repair of finding C11-F01 (x <= 0, resp. 1 + x <= 0 => panic) *)
Definition ln_entry (B p s e : Z) (one_plus : bool) : entry :=
  if p =? 0 then EPanic EPUnlimited
  else if (one_plus && (s =? 0)) || (negb one_plus && is_one s e) then EExact 0 0
  else if one_plus then
    (* 1 + s * B^e <= 0 *)
    (if (if 0 <=? e then s * B ^ e + 1 <=? 0 else s + B ^ (- e) <=? 0) then EPanic EPLogDomain else ECompute)
  else if s <=? 0 then EPanic EPLogDomain
  else ECompute.

(** the same function before the repair: no domain check (the series loop then never stops for
    x < 0, and ln 0 shifts by the logarithm of zero) *)
Definition ln_entry_before_fix (p s e : Z) (one_plus : bool) : entry :=
  if p =? 0 then EPanic EPUnlimited
  else if (one_plus && (s =? 0)) || (negb one_plus && is_one s e) then EExact 0 0
  else ECompute.

(** exp.rs powi: negative exponent => assert_limited_precision, inverse of the positive power;
    0 => Exact(ONE); 1 => repr_round_ref(base); otherwise binary powering - with unlimited
    precision (p = 0) every product is exact, so the result is s^n * B^(e n) flagged Exact *)
Definition powi_entry (B p : Z) (m : mode) (s e n : Z) : entry :=
  if n <? 0 then (if p =? 0 then EPanic EPUnlimited else ECompute)
  else if n =? 0 then EExact 1 0
  else if n =? 1 then ERound (repr_round B p m s e)
  else if p =? 0 then (let '(s', e') := normalize B (s ^ n) (e * n) in EExact s' e')
  else ECompute.

(** exp.rs powf: assert_limited_precision; y = 0 => Exact(ONE); y = 1 => repr_round_ref(base);
    base = 0 => Exact(ZERO); base < 0 => panic *)
Definition powf_entry (B p : Z) (m : mode) (s e ys ye : Z) : entry :=
  if p =? 0 then EPanic EPUnlimited
  else if ys =? 0 then EExact 1 0
  else if is_one ys ye then ERound (repr_round B p m s e)
  else if s =? 0 then EExact 0 0
  else if s <? 0 then EPanic EPNegBase
  else ECompute.
