(** C08 proofs, part 3: the parser.
    - uniqueness of the normal form (Repr::new);
    - every text the documented grammar accepts (parse_spec, the left-to-right reading of the grammar)
      is parsed by the as-is model of Repr::from_str_native to exactly the written value with the
      number of written digits as precision;
    - printing without options, then parsing, gives the number back (specification level). *)
From Dashu Require Import Base.Prelude Float.RoundSpec Float.Contract Float.Model Float.ModelProof
  Int.IoSpec Int.IoDigits Float.TextIoSpec Float.TextIoModel Float.TextIoProof.
Open Scope Z_scope.

(* ---------------------------------------------------------------- normal form *)
Section Normal.
Variable B : Z.
Hypothesis B_ge_2 : 2 <= B.
Local Notation pw := (Bpow_pos B B_ge_2).

Lemma normal_unique a i b j : a mod B <> 0 -> b mod B <> 0 -> 0 <= i -> 0 <= j ->
  a * B ^ i = b * B ^ j -> a = b /\ i = j.
Proof.
  intros Ha Hb Hi Hj E.
  assert (W : forall a i b j, a mod B <> 0 -> 0 <= i -> i < j -> a * B ^ i = b * B ^ j -> False).
  { intros a0 i0 b0 j0 Ha0 Hi0 Hij E0.
    replace j0 with (i0 + (j0 - i0)) in E0 by lia. rewrite Z.pow_add_r in E0 by lia.
    pose proof (pw i0 Hi0).
    assert (X : a0 = b0 * B ^ (j0 - i0)) by nia.
    replace (j0 - i0) with (1 + (j0 - i0 - 1)) in X by lia. rewrite Z.pow_add_r, Z.pow_1_r in X by lia.
    apply Ha0. rewrite X. replace (b0 * (B * B ^ (j0 - i0 - 1))) with (b0 * B ^ (j0 - i0 - 1) * B) by ring.
    apply Z.mod_mul. lia. }
  destruct (Z.lt_trichotomy i j) as [L|[Eq|L]].
  - exfalso. exact (W a i b j Ha Hi L E).
  - subst j. pose proof (pw i Hi). split; [nia | reflexivity].
  - exfalso. symmetry in E. exact (W b j a i Hb Hj L E).
Qed.

(** [normalize] is characterised by its specification *)
Lemma normalize_char s e s' e' : s <> 0 -> s' mod B <> 0 -> (exists k, 0 <= k /\ e' = e + k /\ s = s' * B ^ k) ->
  normalize B s e = (s', e').
Proof.
  intros Hs Hm (k & Hk & He & Hv).
  pose proof (normalize_spec B B_ge_2 s e) as N. destruct (normalize B s e) as [a ea]. destruct N as [_ N].
  destruct (N Hs) as (_ & Ma & j & Hj & Hea & Hva).
  destruct (normal_unique a j s' k Ma Hm Hj Hk ltac:(lia)) as [-> ->]. f_equal. lia.
Qed.

Lemma normalize_zero e : normalize B 0 e = (0, 0).
Proof. reflexivity. Qed.

(** trailing zero digits move into the exponent *)
Lemma normalize_mul_pow x k e : 0 <= k -> normalize B (x * B ^ k) e = normalize B x (e + k).
Proof.
  intros Hk. destruct (Z.eq_dec x 0) as [->|Hx]; [rewrite Z.mul_0_l; reflexivity|].
  pose proof (pw k Hk).
  pose proof (normalize_spec B B_ge_2 x (e + k)) as N. destruct (normalize B x (e + k)) as [a ea]. destruct N as [_ N].
  destruct (N Hx) as (_ & Ma & j & Hj & Hea & Hva).
  apply normalize_char; [nia | exact Ma|]. exists (j + k). split; [lia|]. split; [lia|].
  rewrite Hva, Z.pow_add_r by lia. ring.
Qed.

(** the exponent is carried along *)
Lemma normalize_shift x e : x <> 0 -> normalize B x e = (fst (normalize B x 0), e + snd (normalize B x 0)).
Proof.
  intros Hx.
  pose proof (normalize_spec B B_ge_2 x 0) as N. destruct (normalize B x 0) as [a ea]. destruct N as [_ N].
  destruct (N Hx) as (_ & Ma & j & Hj & Hea & Hva). cbn [fst snd].
  apply normalize_char; [exact Hx | exact Ma|]. exists j. repeat split; lia.
Qed.

(** a normalised float is its own normal form *)
Lemma normalize_normal s e : s mod B <> 0 -> normalize B s e = (s, e).
Proof.
  intros Hm. assert (s <> 0) by (intros ->; rewrite Z.mod_0_l in Hm; lia).
  apply normalize_char; auto. exists 0. rewrite Z.pow_0_r. repeat split; lia.
Qed.

End Normal.

(* ---------------------------------------------------------------- strings *)

Lemma rsplit_none f s : forallb (fun c => negb (f c)) s = true -> rsplit f s = None.
Proof.
  induction s as [|c t IH]; cbn [forallb rsplit]; [reflexivity|]. intros H. apply andb_true_iff in H. destruct H as [H1 H2].
  rewrite (IH H2). destruct (f c); [discriminate | reflexivity].
Qed.

Lemma rsplit_last f a m b : f m = true -> forallb (fun c => negb (f c)) b = true ->
  rsplit f (a ++ m :: b) = Some (a, m, b).
Proof.
  intros Hm Hb. induction a as [|c a IH]; cbn [app rsplit].
  - rewrite (rsplit_none f b Hb), Hm. reflexivity.
  - rewrite IH. reflexivity.
Qed.

Lemma lsplit_none f s : forallb (fun c => negb (f c)) s = true -> lsplit f s = None.
Proof.
  induction s as [|c t IH]; cbn [forallb lsplit]; [reflexivity|]. intros H. apply andb_true_iff in H. destruct H as [H1 H2].
  rewrite (IH H2). destruct (f c); [discriminate | reflexivity].
Qed.

Lemma lsplit_first f a c b : forallb (fun c => negb (f c)) a = true -> f c = true ->
  lsplit f (a ++ c :: b) = Some (a, b).
Proof.
  intros Ha Hc. induction a as [|x a IH]; cbn [app lsplit].
  - rewrite Hc. reflexivity.
  - cbn [forallb] in Ha. apply andb_true_iff in Ha. destruct Ha as [H1 H2]. rewrite (IH H2).
    destruct (f x); [discriminate | reflexivity].
Qed.

(** characters of a digit run *)
Definition runb (r c : Z) : bool :=
  (c =? 95) || match digit_from_ascii r c with Some _ => true | None => false end.

Lemma count_us_cons c t : count_us (c :: t) = (if c =? 95 then 1 else 0) + count_us t.
Proof. unfold count_us. cbn [filter]. destruct (c =? 95); [rewrite len_cons; lia | lia]. Qed.

Lemma span_run_spec r : forall s ds n rest, span_run r s = (ds, n, rest) ->
  exists run, s = run ++ rest /\ forallb (runb r) run = true /\ body_digits r run = Some ds /\ len run = n /\
              count_us run = n - len ds /\ (match rest with [] => True | c :: _ => runb r c = false end).
Proof.
  induction s as [|c t IH]; intros ds n rest H; cbn [span_run] in H.
  - inversion H; subst. exists []. repeat split; reflexivity.
  - destruct (Z.eqb_spec c 95) as [Ec|Ec].
    + destruct (span_run r t) as [[ds' n'] rest'] eqn:S. inversion H; subst. clear H.
      destruct (IH _ _ _ eq_refl) as (run & E & F & Bd & L & C & R). exists (95 :: run).
      split; [cbn [app]; f_equal; exact E|]. split; [cbn [forallb]; rewrite F; reflexivity|].
      split; [cbn [body_digits Z.eqb Pos.eqb]; exact Bd|]. split; [rewrite len_cons; lia|].
      split; [rewrite count_us_cons; cbn [Z.eqb Pos.eqb]; lia | exact R].
    + destruct (digit_from_ascii r c) as [d|] eqn:D.
      * destruct (span_run r t) as [[ds' n'] rest'] eqn:S. inversion H; subst. clear H.
        destruct (IH _ _ _ eq_refl) as (run & E & F & Bd & L & C & R). exists (c :: run).
        split; [cbn [app]; f_equal; exact E|].
        split; [cbn [forallb]; unfold runb at 1; rewrite D, F, orb_true_r; reflexivity|].
        split; [cbn [body_digits]; destruct (Z.eqb_spec c 95); [contradiction|]; rewrite D, Bd; reflexivity|].
        split; [rewrite len_cons; lia|].
        split; [rewrite count_us_cons, len_cons; destruct (Z.eqb_spec c 95); [contradiction | lia] | exact R].
      * inversion H; subst. exists []. repeat split; try reflexivity.
        unfold runb. rewrite D. destruct (Z.eqb_spec c 95); [contradiction | reflexivity].
Qed.

Lemma marker_ge_64 B hex c : is_marker B hex c = true -> 64 <= c.
Proof.
  unfold is_marker. intros H. apply orb_true_iff in H. destruct H as [H|H]; [apply Z.eqb_eq in H; lia|].
  assert (P : forall a b, (c =? a) || (c =? b) = true -> 64 <= a -> 64 <= b -> 64 <= c).
  { intros a b X. apply orb_true_iff in X. destruct X as [X|X]; apply Z.eqb_eq in X; lia. }
  destruct (B =? 10); [apply (P _ _ H); lia|]. destruct (B =? 2); [destruct hex; apply (P _ _ H); lia|].
  destruct (B =? 8); [apply (P _ _ H); lia|]. destruct (B =? 16); [apply (P _ _ H); lia | discriminate].
Qed.

Lemma is_marker_flag B h1 h2 c : B <> 2 -> is_marker B h1 c = is_marker B h2 c.
Proof. intros H. unfold is_marker. destruct (Z.eqb_spec B 2); [contradiction | reflexivity]. Qed.

(** no character of a digit run is a scale marker of its base *)
Lemma run_not_marker B hex c : (hex = true -> B = 2) -> runb (if hex then 16 else B) c = true -> is_marker B hex c = false.
Proof.
  intros Hhex H. unfold runb in H. apply orb_true_iff in H. destruct H as [H|H].
  - apply Z.eqb_eq in H. subst c. unfold is_marker.
    destruct (B =? 10), (B =? 2), hex, (B =? 8), (B =? 16); reflexivity.
  - destruct (digit_from_ascii (if hex then 16 else B) c) as [d|] eqn:D; [clear H | discriminate].
    unfold is_marker.
    destruct (Z.eqb_spec c 64) as [->|N64]; [exfalso; cbn in D; discriminate|]. cbn [orb].
    assert (K : forall r k v, digit_of_char k = Some v -> r <= v -> digit_from_ascii r k = Some d -> False).
    { intros r k v E L X. unfold digit_from_ascii in X. rewrite E in X. destruct (Z.ltb_spec v r); [lia | discriminate]. }
    destruct (Z.eqb_spec B 10) as [EB|].
    { destruct hex; [specialize (Hhex eq_refl); lia|]. subst B.
      destruct (Z.eqb_spec c 101) as [->|]; [exfalso; apply (K 10 101 14 eq_refl ltac:(lia) D)|].
      destruct (Z.eqb_spec c 69) as [->|]; [exfalso; apply (K 10 69 14 eq_refl ltac:(lia) D) | reflexivity]. }
    destruct (Z.eqb_spec B 2) as [EB|].
    { subst B. destruct hex.
      - destruct (Z.eqb_spec c 112) as [->|]; [exfalso; apply (K 16 112 25 eq_refl ltac:(lia) D)|].
        destruct (Z.eqb_spec c 80) as [->|]; [exfalso; apply (K 16 80 25 eq_refl ltac:(lia) D) | reflexivity].
      - destruct (Z.eqb_spec c 98) as [->|]; [exfalso; apply (K 2 98 11 eq_refl ltac:(lia) D)|].
        destruct (Z.eqb_spec c 66) as [->|]; [exfalso; apply (K 2 66 11 eq_refl ltac:(lia) D) | reflexivity]. }
    destruct hex; [specialize (Hhex eq_refl); lia|].
    destruct (Z.eqb_spec B 8) as [EB|].
    { subst B. destruct (Z.eqb_spec c 111) as [->|]; [exfalso; apply (K 8 111 24 eq_refl ltac:(lia) D)|].
      destruct (Z.eqb_spec c 79) as [->|]; [exfalso; apply (K 8 79 24 eq_refl ltac:(lia) D) | reflexivity]. }
    destruct (Z.eqb_spec B 16) as [EB|]; [|reflexivity].
    subst B. destruct (Z.eqb_spec c 104) as [->|]; [exfalso; apply (K 16 104 17 eq_refl ltac:(lia) D)|].
    destruct (Z.eqb_spec c 72) as [->|]; [exfalso; apply (K 16 72 17 eq_refl ltac:(lia) D) | reflexivity].
Qed.

Lemma dec_digits_chars : forall s ds, dec_digits s = Some ds -> forallb (fun c => c <? 64) s = true.
Proof.
  induction s as [|c t IH]; intros ds H; [reflexivity|]. cbn [dec_digits] in H. cbn [forallb].
  destruct ((48 <=? c) && (c <=? 57)) eqn:R; [|discriminate]. destruct (dec_digits t) eqn:D; [|discriminate].
  rewrite (IH _ eq_refl). apply andb_true_iff in R. destruct R as [_ R]. apply Z.leb_le in R.
  destruct (Z.ltb_spec c 64); [reflexivity | lia].
Qed.

Lemma scale_no_marker B hex s v : parse_scale s = Some v -> forallb (fun c => negb (is_marker B hex c)) s = true.
Proof.
  intros H. assert (L : forallb (fun c => c <? 64) s = true).
  { unfold parse_scale in H.
    destruct s as [|c t]; [reflexivity|].
    destruct (Z.eqb_spec c 45) as [->|]; [|destruct (Z.eqb_spec c 43) as [->|]].
    - destruct (dec_digits t) eqn:D; [|discriminate]. cbn [forallb]. rewrite (dec_digits_chars _ _ D). reflexivity.
    - destruct (dec_digits t) eqn:D; [|discriminate]. cbn [forallb]. rewrite (dec_digits_chars _ _ D). reflexivity.
    - assert (X : match dec_digits (c :: t) with Some (d :: ds) => let v := 1 * digits_value 10 (d :: ds) in if in_isize v then Some v else None | _ => None end = Some v).
      { destruct c as [|p|p]; try exact H. repeat (destruct p as [p|p|]; try exact H; try lia). }
      destruct (dec_digits (c :: t)) eqn:D; [|discriminate]. exact (dec_digits_chars _ _ D). }
  clear H. induction s as [|c t IH]; [reflexivity|]. cbn [forallb] in *. apply andb_true_iff in L. destruct L as [L1 L2].
  rewrite (IH L2), andb_true_r. apply Z.ltb_lt in L1.
  destruct (is_marker B hex c) eqn:M; [apply marker_ge_64 in M; lia | reflexivity].
Qed.

Lemma isize_from_str_scale s v : parse_scale s = Some v -> isize_from_str s = Ok v.
Proof.
  unfold parse_scale, isize_from_str. destruct s as [|c t]; [cbn; discriminate|].
  set (X := match c :: t with 45 :: t0 => (-1, t0) | 43 :: t0 => (1, t0) | _ => (1, c :: t) end).
  destruct X as [sg b]. destruct (dec_digits b) as [[|d ds]|]; try discriminate.
  destruct (in_isize (sg * digits_value 10 (d :: ds))); [intros H; inversion H; reflexivity | discriminate].
Qed.

(* ---------------------------------------------------------------- the parser accepts the grammar *)

Lemma runb_not_sign r c : runb r c = true -> c <> 43 /\ c <> 45 /\ c <> 46.
Proof. unfold runb, digit_from_ascii. intros H. repeat split; intros ->; cbn in H; discriminate. Qed.

Lemma strip_sign_unsigned c t : c <> 43 -> strip_sign false (c :: t) = (Positive, c :: t).
Proof.
  intros H. unfold strip_sign. destruct c as [|p|p]; try reflexivity.
  repeat (destruct p as [p|p|]; try reflexivity); lia.
Qed.

Lemma parse_unsigned_run r run ds : radix_valid r = true -> forallb (runb r) run = true ->
  body_digits r run = Some ds -> ds <> [] -> parse_unsigned r run = Ok (digits_value r ds).
Proof.
  intros Hr Hf Hb Hn. destruct run as [|c t]; [cbn in Hb; inversion Hb; subst; contradiction|].
  cbn [forallb] in Hf. apply andb_true_iff in Hf. destruct Hf as [Hc _].
  destruct (runb_not_sign r c Hc) as (N43 & _ & _).
  unfold parse_unsigned. destruct (Z.eqb_spec c 43); [contradiction|].
  unfold from_str_radix_spec, from_str_radix_gen. rewrite Hr, (strip_sign_unsigned c t N43).
  unfold body_spec. rewrite Hb. destruct ds as [|d0 ds0]; [contradiction|]. unfold rmap, rbind, signed, sgnz. f_equal. apply Z.mul_1_l.
Qed.

Lemma has_hex_prefix_cons2 c x t : has_hex_prefix (c :: x :: t) = (c =? 48) && ((x =? 120) || (x =? 88)).
Proof.
  unfold has_hex_prefix, starts_with. cbn [strip_prefix].
  rewrite (Z.eqb_sym 48 c), (Z.eqb_sym 120 x), (Z.eqb_sym 88 x).
  destruct (c =? 48), (x =? 120), (x =? 88); reflexivity.
Qed.

Lemma has_hex_prefix_short s : (length s < 2)%nat -> has_hex_prefix s = false.
Proof.
  destruct s as [|c [|x t]]; cbn [length]; intros H; try lia; unfold has_hex_prefix, starts_with; cbn [strip_prefix].
  - reflexivity.
  - destruct (48 =? c); reflexivity.
Qed.

Lemma strip_hex_prefix_cases B s1 hex s2 : strip_hex_prefix B s1 = (hex, s2) ->
  (hex = true /\ B = 2 /\ (exists x, s1 = 48 :: x :: s2) /\ has_hex_prefix s1 = true) \/
  (hex = false /\ s2 = s1 /\ (B = 2 -> has_hex_prefix s1 = false)).
Proof.
  unfold strip_hex_prefix. destruct (Z.eqb_spec B 2) as [EB|NB].
  - destruct s1 as [|c [|x t]].
    + intros H; inversion H; subst. right. repeat split; auto.
    + intros H; inversion H; subst. right. repeat split; auto. intros _. apply has_hex_prefix_short. cbn; lia.
    + pose proof (has_hex_prefix_cons2 c x t) as P.
      destruct ((c =? 48) && ((x =? 120) || (x =? 88))) eqn:E; intros H; inversion H; subst.
      * left. apply andb_true_iff in E. destruct E as [E1 _]. apply Z.eqb_eq in E1. subst c.
        repeat split; auto. exists x; reflexivity.
      * right. repeat split; auto.
  - intros H; inversion H; subst. right. repeat split; auto. intros; contradiction.
Qed.

Lemma starts_with_app p a b : starts_with p a = true -> starts_with p (a ++ b) = true.
Proof.
  unfold starts_with. revert a. induction p as [|x p IH]; intros a; [destruct a; reflexivity|].
  destruct a as [|y a]; cbn [strip_prefix app]; [discriminate|]. destruct (x =? y); [apply IH | discriminate].
Qed.

Lemma has_hex_prefix_app a b : has_hex_prefix (a ++ b) = false -> has_hex_prefix a = false.
Proof.
  unfold has_hex_prefix. intros H. apply orb_false_iff in H. destruct H as [H1 H2]. apply orb_false_iff. split.
  - destruct (starts_with [48; 120] a) eqn:E; [rewrite (starts_with_app _ _ b E) in H1; discriminate | reflexivity].
  - destruct (starts_with [48; 88] a) eqn:E; [rewrite (starts_with_app _ _ b E) in H2; discriminate | reflexivity].
Qed.

Lemma forallb_app' {A} (f : A -> bool) a b : forallb f a = true -> forallb f b = true -> forallb f (a ++ b) = true.
Proof. intros. rewrite forallb_app. now rewrite H, H0. Qed.

Lemma forallb_impl' {A} (f g : A -> bool) l : (forall x, f x = true -> g x = true) -> forallb f l = true -> forallb g l = true.
Proof.
  intros H. induction l as [|x l IH]; [reflexivity|]. cbn [forallb]. intros X. apply andb_true_iff in X. destruct X as [X1 X2].
  rewrite (H x X1), (IH X2). reflexivity.
Qed.

(** the last step of the parser: normalise with exponent 0 and add the exponent afterwards *)
Lemma final_step B x E (nd : Z) : 2 <= B ->
  (let '(s', k) := normalize B x 0 in
   if s' =? 0 then Ok (0, 0, nd) else if in_isize (E + k) then Ok (s', E + k, nd) else Err E_InvalidDigit) =
  (let '(s', e') := normalize B x E in if in_isize e' then @Ok (Z * Z * Z) (s', e', nd) else Err E_InvalidDigit).
Proof.
  intros HB. destruct (Z.eq_dec x 0) as [->|Hx]; [reflexivity|].
  rewrite (normalize_shift B HB x E Hx).
  pose proof (normalize_spec B HB x 0) as N. destruct (normalize B x 0) as [a k]. destruct N as [_ N].
  destruct (N Hx) as (Ha & _). cbn [fst snd]. destruct (Z.eqb_spec a 0); [contradiction | reflexivity].
Qed.

Lemma pow16 n : 0 <= n -> 16 ^ n = 2 ^ (4 * n).
Proof. intros. rewrite Z.pow_mul_r by lia. reflexivity. Qed.

Lemma not_marker_x B hex c : c = 120 \/ c = 88 \/ c = 48 \/ c = 46 -> is_marker B hex c = false.
Proof.
  intros [-> | [-> | [-> | ->]]]; unfold is_marker; destruct (B =? 10), (B =? 2), hex, (B =? 8), (B =? 16); reflexivity.
Qed.

Ltac use_frac Fr :=
  match type of Fr with _ = ?R =>
    match goal with |- context [rbind (if negb (len ?run =? 0) then ?T else Ok (0, 0)) _] =>
      replace (if negb (len run =? 0) then T else Ok (0, 0)) with R by (symmetry; exact Fr)
    end end.

(** the body of the number (everything before the scale marker), as the implementation reads it *)
Lemma parse_body_complete (B : Z) (hex hp pm : bool) (scv : Z) (pre run1 ids dot run2 fds : list Z) :
  radix_valid B = true ->
  let r := if hex then 16 else B in
  let per := if hex then 4 else 1 in
  ((hex = true /\ B = 2 /\ hp = true /\ exists x, (x = 120 \/ x = 88) /\ pre = [48; x]) \/
   (hex = false /\ pre = [] /\ (B = 2 -> hp = false))) ->
  (B = 2 -> has_hex_prefix (pre ++ run1) = hex) ->
  (pm = true -> hex = true) ->
  forallb (runb r) run1 = true -> body_digits r run1 = Some ids -> count_us run1 = len run1 - len ids ->
  forallb (runb r) run2 = true -> body_digits r run2 = Some fds -> count_us run2 = len run2 - len fds ->
  ((dot = [] /\ run2 = []) \/ dot = 46 :: run2) ->
  (run1 = [] \/ ids <> []) -> (run2 = [] \/ fds <> []) -> (ids <> [] \/ fds <> []) ->
  exists signif expo,
    parse_body_asis B (pre ++ run1 ++ dot) scv pm hp = Ok (signif, expo, per * (len ids + len fds)) /\
    forall sg, normalize B (sg * signif) expo = normalize B (sg * digits_value r (ids ++ fds)) (scv - per * len fds).
Proof.
  intros HB r per Hpre Hhp2 Hpm F1 Bd1 C1 F2 Bd2 C2 Hdot O1 O2 O3.
  assert (HB2 : 2 <= B) by (unfold radix_valid in HB; apply andb_true_iff in HB; destruct HB as [X _]; apply Z.leb_le in X; exact X).
  assert (Hr : radix_valid r = true) by (unfold r; destruct hex; [reflexivity | exact HB]).
  assert (N1 : run1 = [] -> ids = []) by (intros ->; cbn in Bd1; congruence).
  assert (N2 : run2 = [] -> fds = []) by (intros ->; cbn in Bd2; congruence).
  assert (Lids : 0 <= len ids) by apply len_nonneg. assert (Lfds : 0 <= len fds) by apply len_nonneg.
  assert (Lnz : forall (l : list Z), l <> [] -> 0 < len l) by (intros [|a l] X; [contradiction | rewrite len_cons; pose proof (len_nonneg l); lia]).
  assert (Lz : forall (l : list Z), len l = 0 -> l = []) by (intros [|a l] X; [reflexivity | rewrite len_cons in X; pose proof (len_nonneg l); lia]).
  assert (Pm : pm = false \/ hex = true) by (destruct pm; [right; apply Hpm; reflexivity | left; reflexivity]).
  assert (No46 : forall run, forallb (runb r) run = true -> forallb (fun c => negb (c =? 46)) run = true).
  { intros run. apply forallb_impl'. intros c Hc. destruct (runb_not_sign r c Hc) as (_ & _ & X).
    destruct (Z.eqb_spec c 46); [contradiction | reflexivity]. }
  (* the value identity shared by all cases *)
  assert (Val : forall sg, let fd := per * len fds in
            (digits_value r fds = 0 -> normalize B (sg * digits_value r ids) scv = normalize B (sg * digits_value r (ids ++ fds)) (scv - fd)) /\
            normalize B (sg * (digits_value r ids * B ^ fd + digits_value r fds)) (scv - fd) = normalize B (sg * digits_value r (ids ++ fds)) (scv - fd)).
  { intros sg fd. rewrite value_app.
    assert (Epow : r ^ len fds = B ^ fd).
    { unfold r, fd, per. destruct hex; [|f_equal; lia].
      destruct Hpre as [(_ & -> & _)|(X & _)]; [apply pow16; exact Lfds | discriminate]. }
    rewrite Epow. split; [|reflexivity]. intros ->. rewrite Z.add_0_r.
    replace (sg * (digits_value r ids * B ^ fd)) with (sg * digits_value r ids * B ^ fd) by ring.
    rewrite (normalize_mul_pow B HB2) by (unfold fd, per; destruct hex; lia). f_equal. lia. }
  destruct Hdot as [[-> ->] | ->].
  - (* no radix point *)
    rewrite app_nil_r. assert (fds = []) by (apply N2; reflexivity). subst fds.
    assert (Hids : ids <> []) by (destruct O3; [assumption | contradiction]).
    unfold parse_body_asis. rewrite lsplit_none.
    2:{ apply forallb_app'; [|apply No46; exact F1].
        destruct Hpre as [(_ & _ & _ & x & Hx & ->)|(_ & -> & _)]; [|reflexivity].
        cbn [forallb]. destruct Hx as [->| ->]; reflexivity. }
    rewrite app_nil_r. cbn [len length Z.of_nat] in *. rewrite Z.add_0_r, Z.mul_0_r, Z.sub_0_r.
    destruct Hpre as [(Eh & EB & Ehp & x & Hx & Epre)|(Eh & Epre & Ehp)].
    + subst hex B pre. rewrite (Hhp2 eq_refl). cbn [Z.eqb Pos.eqb andb]. cbn [app skipn].
      rewrite (parse_unsigned_run 16 run1 ids eq_refl F1 Bd1 Hids). cbn [rbind].
      eexists _, _. split; [f_equal; f_equal; unfold per; lia | intros sg; reflexivity].
    + subst hex pre. cbn [app] in *.
      assert (X : (B =? 2) && has_hex_prefix run1 = false).
      { destruct (Z.eqb_spec B 2); [rewrite (Hhp2 e); reflexivity | reflexivity]. }
      rewrite X. destruct Pm as [->|]; [|discriminate]. rewrite andb_false_r. cbn [andb].
      rewrite (parse_unsigned_run B run1 ids HB F1 Bd1 Hids). cbn [rbind].
      eexists _, _. split; [f_equal; f_equal; unfold per; lia | intros sg; reflexivity].
  - (* radix point *)
    unfold parse_body_asis.
    replace (pre ++ run1 ++ 46 :: run2) with ((pre ++ run1) ++ 46 :: run2) by (rewrite <- app_assoc; reflexivity).
    rewrite (lsplit_first (fun c => c =? 46) (pre ++ run1) 46 run2).
    2:{ apply forallb_app'; [|apply No46; exact F1].
        destruct Hpre as [(_ & _ & _ & x & Hx & ->)|(_ & -> & _)]; [|reflexivity].
        cbn [forallb]. destruct Hx as [->| ->]; reflexivity. }
    2: reflexivity.
    assert (Hlen : (len ((pre ++ run1) ++ 46 :: run2) =? 1) = false).
    { rewrite !len_app, len_cons. pose proof (len_nonneg pre). pose proof (len_nonneg run1). pose proof (len_nonneg run2).
      destruct (Z.eqb_spec (len pre + len run1 + (len run2 + 1)) 1) as [E|]; [|reflexivity]. exfalso.
      assert (run1 = []) by (apply Lz; lia). assert (run2 = []) by (apply Lz; lia).
      specialize (N1 H2). specialize (N2 H3). destruct O3; contradiction. }
    rewrite Hlen.
    (* the fractional part is read with radix r in every case *)
    assert (Frac : forall base, base = r -> ((B =? 2) && (base =? 16)) = hex ->
      (if negb (len run2 =? 0) then
         let d := len run2 - count_us run2 in let d := if (B =? 2) && (base =? 16) then 4 * d else d in
         rbind (parse_unsigned base run2) (fun v => Ok (v, d))
       else Ok (0, 0)) = Ok (digits_value r fds, per * len fds)).
    { intros base -> Eb. destruct (Z.eqb_spec (len run2) 0) as [E0|E0]; cbn [negb].
      - rewrite (N2 (Lz _ E0)). cbn [len length Z.of_nat]. rewrite Z.mul_0_r. reflexivity.
      - assert (fds <> []) by (destruct O2 as [->|]; [cbn in E0; lia | assumption]).
        rewrite (parse_unsigned_run r run2 fds Hr F2 Bd2 H). cbn [rbind]. cbv zeta. rewrite Eb.
        f_equal. f_equal. unfold per. destruct hex; lia. }
    assert (Fin : forall int, int = digits_value r ids ->
      exists signif expo,
      (let nd := per * len ids + per * len fds in
       if nd =? 0 then Err E_NoDigits
       else if digits_value r fds =? 0 then Ok (int, scv, nd)
       else Ok (int * B ^ (per * len fds) + digits_value r fds, scv - per * len fds, nd)) = Ok (signif, expo, per * (len ids + len fds)) /\
      forall sg, normalize B (sg * signif) expo = normalize B (sg * digits_value r (ids ++ fds)) (scv - per * len fds)).
    { intros int ->. cbv zeta.
      assert (0 < per) by (unfold per; destruct hex; lia).
      assert (0 < len ids + len fds) by (destruct O3 as [X|X]; apply Lnz in X; lia).
      destruct (Z.eqb_spec (per * len ids + per * len fds) 0); [nia|].
      replace (per * len ids + per * len fds) with (per * (len ids + len fds)) by ring.
      destruct (Z.eqb_spec (digits_value r fds) 0) as [E0|E0]; eexists _, _; (split; [reflexivity|]); intros sg.
      - apply (proj1 (Val sg)). exact E0.
      - apply (proj2 (Val sg)). }
    destruct Hpre as [(Eh & EB & Ehp & x & Hx & Epre)|(Eh & Epre & Ehp)].
    + subst hex B pre hp. cbn [app].
      assert (L2 : (len (48 :: x :: run1) =? 0) = false).
      { rewrite !len_cons. pose proof (len_nonneg run1). destruct (Z.eqb_spec (len run1 + 1 + 1) 0); [lia | reflexivity]. }
      rewrite L2. rewrite (Z.eqb_refl 2). cbn [negb andb skipn].
      pose proof (Frac 16 eq_refl eq_refl) as Fr.
      destruct (Z.eqb_spec (len run1) 0) as [E0|E0].
      * rewrite (N1 (Lz _ E0)) in *. cbn [rbind]. use_frac Fr. cbn [rbind].
        rewrite (Lz _ E0). cbn [len length Z.of_nat count_us filter]. 
        destruct (Fin 0 eq_refl) as (sf & ex & E & V). cbn [len length Z.of_nat] in E. rewrite Z.mul_0_r in E.
        cbn [Z.mul Z.sub Z.add]. eexists _, _. split; [exact E | exact V].
      * assert (Hids : ids <> []) by (destruct O1 as [->|]; [cbn in E0; lia | assumption]).
        rewrite (parse_unsigned_run 16 run1 ids eq_refl F1 Bd1 Hids). cbn [rbind].
        use_frac Fr. cbn [rbind]. rewrite C1.
        replace (4 * (len run1 - (len run1 - len ids))) with (per * len ids) by (unfold per; lia).
        apply (Fin _ eq_refl).
    + subst hex pre. cbn [app].
      assert (Ef : forall base, base = B -> ((B =? 2) && (base =? 16)) = false).
      { intros base ->. destruct (Z.eqb_spec B 2); [subst; reflexivity | reflexivity]. }
      assert (X : (B =? 2) && hp = false) by (destruct (Z.eqb_spec B 2); [rewrite (Ehp e); reflexivity | reflexivity]).
      destruct Pm as [->|]; [|discriminate].
      pose proof (Frac B eq_refl (Ef B eq_refl)) as Fr.
      destruct (Z.eqb_spec (len run1) 0) as [E0|E0]; cbn [negb].
      * rewrite (N1 (Lz _ E0)) in *. cbn [rbind]. use_frac Fr. cbn [rbind].
        destruct (Fin 0 eq_refl) as (sf & ex & E & V). cbn [len length Z.of_nat] in E. rewrite Z.mul_0_r in E.
        cbn [Z.add]. eexists _, _. split; [exact E | exact V].
      * assert (Hids : ids <> []) by (destruct O1 as [->|]; [cbn in E0; lia | assumption]).
        rewrite X, andb_false_r. cbn [andb].
        rewrite (parse_unsigned_run B run1 ids HB F1 Bd1 Hids). cbn [rbind].
        use_frac Fr. cbn [rbind]. rewrite C1.
        replace (len run1 - (len run1 - len ids)) with (per * len ids) by (unfold per; lia).
        apply (Fin _ eq_refl).
Qed.

(** ** Every text of the documented grammar is parsed to exactly the written value, with the number of
    written digits as precision.  [parse_spec] is the grammar read from left to right. *)
Theorem parse_asis_complete B s v : radix_valid B = true -> parse_spec B s = Some v -> parse_asis B s = Ok v.
Proof.
  intros HB H.
  assert (HB2 : 2 <= B) by (unfold radix_valid in HB; apply andb_true_iff in HB; destruct HB as [X _]; apply Z.leb_le in X; exact X).
  unfold parse_spec in H. unfold parse_asis.
  destruct (strip_float_sign s) as [sg s1].
  destruct (strip_hex_prefix B s1) as [hex s2] eqn:HP.
  set (r := if hex then 16 else B) in *. set (per := if hex then 4 else 1) in *.
  destruct (span_run r s2) as [[ids ni] s3] eqn:S1.
  destruct (span_run_spec r s2 ids ni s3 S1) as (run1 & E1 & F1 & Bd1 & L1 & C1 & R1).
  assert (Dot : exists dot run2 fds nf s4,
     (match s3 with c :: t => if c =? 46 then span_run r t else ([], 0, s3) | [] => ([], 0, s3) end) = (fds, nf, s4) /\
     s3 = dot ++ s4 /\ forallb (runb r) run2 = true /\ body_digits r run2 = Some fds /\ len run2 = nf /\
     count_us run2 = nf - len fds /\ ((dot = [] /\ run2 = []) \/ dot = 46 :: run2)).
  { destruct s3 as [|c t].
    - exists [], [], [], 0, []. repeat split; auto.
    - destruct (Z.eqb_spec c 46) as [->|N].
      + destruct (span_run r t) as [[fds nf] s4] eqn:S2.
        destruct (span_run_spec r t fds nf s4 S2) as (run2 & E2 & F2 & Bd2 & L2 & C2 & R2).
        exists (46 :: run2), run2, fds, nf, s4. repeat split; auto. cbn [app]. f_equal. exact E2.
      + exists [], [], [], 0, (c :: t). repeat split; auto. }
  destruct Dot as (dot & run2 & fds & nf & s4 & EDot & E3 & F2 & Bd2 & L2 & C2 & Hdot).
  rewrite EDot in H. cbv zeta in H.
  destruct (match s4 with [] => Some 0 | c :: t => if is_marker B hex c then parse_scale t else None end) as [sc|] eqn:ESc; [|discriminate].
  destruct (((ni =? 0) || negb (len ids =? 0)) && ((nf =? 0) || negb (len fds =? 0)) && negb (len ids + len fds =? 0)) eqn:RO; [|discriminate].
  apply andb_true_iff in RO. destruct RO as [RO RO3]. apply andb_true_iff in RO. destruct RO as [RO1 RO2].
  assert (Lz : forall (l : list Z), len l = 0 -> l = []) by (intros [|a l] X; [reflexivity | rewrite len_cons in X; pose proof (len_nonneg l); lia]).
  assert (NZ : forall (l : list Z), negb (len l =? 0) = true -> l <> []).
  { intros l X -> . cbn in X. discriminate. }
  assert (O1 : run1 = [] \/ ids <> []).
  { apply orb_true_iff in RO1. destruct RO1 as [X|X]; [left; apply Lz; apply Z.eqb_eq in X; lia | right; apply NZ; exact X]. }
  assert (O2 : run2 = [] \/ fds <> []).
  { apply orb_true_iff in RO2. destruct RO2 as [X|X]; [left; apply Lz; apply Z.eqb_eq in X; lia | right; apply NZ; exact X]. }
  assert (O3 : ids <> [] \/ fds <> []).
  { destruct ids as [|a ids]; [|left; discriminate]. destruct fds as [|b fds]; [cbn in RO3; discriminate | right; discriminate]. }
  (* the prefix *)
  assert (Pre : exists pre, s1 = pre ++ s2 /\
     ((hex = true /\ B = 2 /\ has_hex_prefix s1 = true /\ exists x, (x = 120 \/ x = 88) /\ pre = [48; x]) \/
      (hex = false /\ pre = [] /\ (B = 2 -> has_hex_prefix s1 = false)))).
  { destruct (strip_hex_prefix_cases B s1 hex s2 HP) as [(Eh & EB & (x & Es1) & Ehp)|(Eh & Es2 & Ehp)].
    - exists [48; x]. split; [exact Es1|]. left. repeat split; auto. exists x. split; [|reflexivity].
      rewrite Es1, has_hex_prefix_cons2 in Ehp. cbn [Z.eqb Pos.eqb andb] in Ehp. apply orb_true_iff in Ehp.
      destruct Ehp as [X|X]; apply Z.eqb_eq in X; auto.
    - exists []. split; [symmetry; exact Es2|]. right. repeat split; auto. }
  destruct Pre as (pre & Es1 & Hpre).
  set (hp := has_hex_prefix s1) in *.
  assert (Hhex2 : hex = true -> B = 2) by (intros X; destruct Hpre as [(_ & EB & _)|(Eh & _)]; [exact EB | congruence]).
  assert (MF : forall c, marker_set B hp c = is_marker B hex c).
  { intros c. unfold marker_set. destruct Hpre as [(Eh & EB & Ehp & _)|(Eh & _ & Ehp)].
    - rewrite Ehp, Eh. reflexivity.
    - rewrite Eh. destruct (Z.eq_dec B 2) as [EB|NB]; [rewrite (Ehp EB); reflexivity | apply is_marker_flag; exact NB]. }
  set (body := pre ++ run1 ++ dot).
  assert (Ebody : s1 = body ++ s4) by (unfold body; rewrite Es1, E1, E3, <- !app_assoc; reflexivity).
  assert (NoM : forallb (fun c => negb (marker_set B hp c)) body = true).
  { assert (RunNM : forall run, forallb (runb r) run = true -> forallb (fun c => negb (marker_set B hp c)) run = true).
    { intros run. apply forallb_impl'. intros c Hc. rewrite MF, (run_not_marker B hex c Hhex2 Hc). reflexivity. }
    unfold body. apply forallb_app'; [|apply forallb_app'; [apply RunNM; exact F1|]].
    - destruct Hpre as [(_ & _ & _ & x & Hx & ->)|(_ & -> & _)]; [|reflexivity].
      cbn [forallb]. rewrite !MF, (not_marker_x B hex 48), (not_marker_x B hex x) by tauto. reflexivity.
    - destruct Hdot as [[-> _]| ->]; [reflexivity|]. cbn [forallb]. rewrite MF, (not_marker_x B hex 46) by tauto.
      cbn [negb andb]. apply RunNM; exact F2. }
  assert (Hhp2 : B = 2 -> has_hex_prefix (pre ++ run1) = hex).
  { intros EB. destruct Hpre as [(Eh & _ & _ & x & Hx & ->)|(Eh & -> & Ehp)].
    - rewrite Eh. cbn [app]. rewrite has_hex_prefix_cons2. destruct Hx as [-> | ->]; reflexivity.
    - rewrite Eh. cbn [app]. apply (has_hex_prefix_app run1 s3). rewrite <- E1.
      specialize (Ehp EB). unfold hp in Ehp. rewrite Es1 in Ehp. exact Ehp. }
  assert (Hpre' : (hex = true /\ B = 2 /\ hp = true /\ exists x, (x = 120 \/ x = 88) /\ pre = [48; x]) \/
                  (hex = false /\ pre = [] /\ (B = 2 -> hp = false))) by exact Hpre.
  (* the scale *)
  assert (Scale : exists pm,
    (match rsplit (marker_set B hp) s1 with
     | Some (before, mk, after) => rbind (isize_from_str after) (fun v => Ok (v, (B =? 2) && ((mk =? 112) || (mk =? 80)), before))
     | None => Ok (0, false, s1)
     end) = Ok (sc, pm, body) /\ (pm = true -> hex = true)).
  { destruct s4 as [|mk sct].
    - inversion ESc; subst sc. exists false. rewrite Ebody, app_nil_r, (rsplit_none _ _ NoM). split; [reflexivity | discriminate].
    - destruct (is_marker B hex mk) eqn:M; [|discriminate].
      exists ((B =? 2) && ((mk =? 112) || (mk =? 80))).
      rewrite Ebody, (rsplit_last (marker_set B hp) body mk sct).
      + rewrite (isize_from_str_scale sct sc ESc). cbn [rbind]. split; [reflexivity|].
        intros X. apply andb_true_iff in X. destruct X as [X1 X2]. apply Z.eqb_eq in X1. subst B.
        destruct hex; [reflexivity|]. exfalso. unfold is_marker in M. cbn [Z.eqb Pos.eqb] in M.
        apply orb_true_iff in X2. destruct X2 as [X2|X2]; apply Z.eqb_eq in X2; subst mk; cbn in M; discriminate.
      + rewrite MF. exact M.
      + apply (forallb_impl' (fun c => negb (is_marker B hex c))); [intros c X; rewrite MF; exact X|].
        apply (scale_no_marker B hex sct sc ESc). }
  destruct Scale as (pm & -> & Hpm). cbn [rbind].
  subst ni nf.
  destruct (parse_body_complete B hex hp pm sc pre run1 ids dot run2 fds HB Hpre' Hhp2 Hpm F1 Bd1 C1 F2 Bd2 C2 Hdot O1 O2 O3)
    as (signif & expo & EB & V).
  fold body in EB. rewrite EB. cbn [rbind].
  rewrite (final_step B (sg * signif) expo _ HB2), V.
  fold r per in H |- *.
  destruct (normalize B (sg * digits_value r (ids ++ fds)) (sc - per * len fds)) as [a b].
  destruct (in_isize b); [inversion H; reflexivity | discriminate].
Qed.

(* ---------------------------------------------------------------- print, then parse *)
Section RoundTrip.
Variable B : Z.
Hypothesis HB : 2 <= B <= 36.
Let HB2 : 2 <= B := proj1 HB.

Lemma digit_char_inv d : 0 <= d < B ->
  digit_from_ascii B (digit_char false d) = Some d /\ digit_char false d <> 95 /\ digit_char false d <> 46 /\
  digit_char false d <> 45 /\ digit_char false d <> 43 /\ (B = 2 -> digit_char false d <> 120 /\ digit_char false d <> 88).
Proof.
  intros Hd. unfold digit_char, digit_from_ascii, digit_of_char. destruct (Z.ltb_spec d 10).
  - destruct (Z.leb_spec 48 (48 + d)); [|lia]. destruct (Z.leb_spec (48 + d) 57); [|lia]. cbn [andb].
    replace (48 + d - 48) with d by lia. destruct (Z.ltb_spec d B); [|lia]. repeat split; lia.
  - destruct (Z.leb_spec 48 (87 + d)); [|lia]. destruct (Z.leb_spec (87 + d) 57); [lia|]. cbn [andb].
    destruct (Z.leb_spec 97 (87 + d)); [|lia]. destruct (Z.leb_spec (87 + d) 122); [|lia]. cbn [andb].
    replace (87 + d - 87) with d by lia. destruct (Z.ltb_spec d B); [|lia]. repeat split; lia.
Qed.

Lemma span_run_digits ds rest : in_range B ds -> (match rest with [] => True | c :: _ => runb B c = false end) ->
  span_run B (map (digit_char false) ds ++ rest) = (ds, len ds, rest).
Proof.
  induction ds as [|a ds IH]; cbn [map app]; intros Hin Hr.
  - destruct rest as [|c t]; [reflexivity|]. cbn [span_run]. unfold runb in Hr. apply orb_false_iff in Hr.
    destruct Hr as [H1 H2]. rewrite H1. destruct (digit_from_ascii B c); [discriminate | reflexivity].
  - inversion Hin as [|? ? Ha Hds]; subst. cbn [span_run]. destruct (digit_char_inv a Ha) as (D & N95 & _).
    destruct (Z.eqb_spec (digit_char false a) 95); [contradiction|]. rewrite D, (IH Hds Hr), len_cons. reflexivity.
Qed.

Lemma strip_float_sign_other c t : c <> 45 -> c <> 43 -> strip_float_sign (c :: t) = (1, c :: t).
Proof.
  intros H1 H2. unfold strip_float_sign. destruct c as [|p|p]; try reflexivity.
  repeat (destruct p as [p|p|]; try reflexivity); lia.
Qed.

(** number of digits the printed text shows *)
Definition printed_digits (s e : Z) : Z :=
  if 0 <=? e then len (digits_spec B (Z.abs s * B ^ e))
  else len (digits_spec B (Z.abs s / B ^ (- e))) + (- e).

(** Display without options, read back by the grammar: the same float; the precision is the number
    of printed digits.  Floats are normalised (Repr::new): zero is (0, 0), otherwise no trailing zero digit. *)
Theorem display_parse_roundtrip_spec m s e : (s mod B <> 0 \/ (s = 0 /\ e = 0)) -> in_isize e = true ->
  parse_spec B ((if s <? 0 then [45] else []) ++ display_body_spec B m s e None) = Some (s, e, printed_digits s e).
Proof.
  intros Hn Hie.
  pose proof (fun k H => Bpow_pos B HB2 k H) as pw.
  assert (Hz : s = 0 -> e = 0) by (intros X; destruct Hn as [Y|[_ Y]]; [rewrite X, Z.mod_0_l in Y by lia; contradiction | exact Y]).
  (* the body as digit lists *)
  set (ex := - e).
  assert (Body : exists ids fds, display_body_spec B m s e None =
                   map (digit_char false) ids ++ (if 0 <=? e then [] else 46 :: map (digit_char false) fds) /\
                 in_range B ids /\ in_range B fds /\ ids <> [] /\ (0 <=? e = true -> fds = []) /\ (0 <=? e = false -> len fds = ex) /\
                 digits_value B (ids ++ fds) = (if 0 <=? e then Z.abs s * B ^ e else Z.abs s) /\
                 len ids + len fds = printed_digits s e).
  { unfold display_body_spec, printed_digits. destruct (Z.leb_spec 0 e) as [He|He].
    - exists (digits_spec B (Z.abs s * B ^ e)), []. pose proof (pw e He).
      assert (0 <= Z.abs s * B ^ e) by nia.
      rewrite !app_nil_r. repeat split; auto.
      + apply digits_spec_range; lia.
      + constructor.
      + apply digits_spec_nonempty; lia.
      + discriminate.
      + apply digits_spec_value; lia.
      + cbn [len length Z.of_nat]. lia.
    - unfold fixed_text. destruct (Z.eqb_spec (- e) 0); [lia|]. fold ex.
      pose proof (pw ex ltac:(unfold ex; lia)) as Hp.
      exists (digits_spec B (Z.abs s / B ^ ex)), (digits_pad (Z.to_nat ex) B (Z.abs s mod B ^ ex)).
      assert (0 <= Z.abs s / B ^ ex) by (apply Z.div_pos; lia).
      pose proof (Z.mod_pos_bound (Z.abs s) (B ^ ex) Hp) as Hm.
      repeat split; auto.
      + apply digits_spec_range; lia.
      + apply digits_pad_range; lia.
      + apply digits_spec_nonempty; lia.
      + discriminate.
      + intros _. rewrite digits_pad_len. unfold ex. lia.
      + rewrite value_app, digits_spec_value, digits_pad_value, digits_pad_len by lia.
        rewrite Z2Nat.id by (unfold ex; lia). rewrite Z.mod_mod by lia.
        pose proof (Z.div_mod (Z.abs s) (B ^ ex) ltac:(lia)). lia.
      + rewrite digits_pad_len. rewrite Z2Nat.id by (unfold ex; lia). reflexivity. }
  destruct Body as (ids & fds & EBody & Rids & Rfds & Nids & Fnil & Flen & Val & Nd).
  rewrite EBody.
  destruct ids as [|i0 ids']; [contradiction|].
  inversion Rids as [|? ? Hi0 Rids']; subst.
  destruct (digit_char_inv i0 Hi0) as (D0 & N95 & N46 & N45 & N43 & NX).
  set (body := map (digit_char false) (i0 :: ids') ++ (if 0 <=? e then [] else 46 :: map (digit_char false) fds)).
  (* sign *)
  assert (Sg : strip_float_sign ((if s <? 0 then [45] else []) ++ body) = ((if s <? 0 then -1 else 1), body)).
  { destruct (s <? 0); cbn [app]; [reflexivity|]. unfold body. cbn [map app]. apply strip_float_sign_other; assumption. }
  unfold parse_spec. rewrite Sg.
  (* no hexadecimal prefix *)
  assert (Hx : strip_hex_prefix B body = (false, body)).
  { unfold strip_hex_prefix. destruct (Z.eqb_spec B 2) as [EB|]; [|reflexivity].
    unfold body. cbn [map app]. destruct ids' as [|i1 ids''].
    - cbn [map app]. destruct (0 <=? e); [reflexivity|]. cbn [Z.eqb Pos.eqb orb]. rewrite andb_false_r. reflexivity.
    - cbn [map app]. pose proof (Forall_inv Rids') as Hi1. cbv beta in Hi1.
      destruct (digit_char_inv i1 Hi1) as (_ & _ & _ & _ & _ & NX1). destruct (NX1 EB) as [X1 X2].
      destruct (Z.eqb_spec (digit_char false i1) 120); [contradiction|].
      destruct (Z.eqb_spec (digit_char false i1) 88); [contradiction|]. rewrite andb_false_r. reflexivity. }
  rewrite Hx. cbv iota zeta.
  assert (R46 : runb B 46 = false) by reflexivity.
  destruct (Z.leb_spec 0 e) as [He|He].
  - (* integer text *)
    rewrite (Fnil eq_refl) in *. unfold body. rewrite app_nil_r.
    rewrite <- (app_nil_r (map (digit_char false) (i0 :: ids'))), (span_run_digits (i0 :: ids') [] Rids I).
    cbn [len length Z.of_nat Z.add]. cbv iota.
    replace ((Z.of_nat (S (length ids')) =? 0)) with false by (symmetry; apply Z.eqb_neq; lia).
    cbn [orb negb andb Z.eqb]. rewrite app_nil_r in Val. rewrite app_nil_r. 
    replace (Z.of_nat (S (length ids')) + 0 =? 0) with false by (symmetry; apply Z.eqb_neq; lia). cbn [negb].
    rewrite Val. rewrite Z.mul_0_r, Z.sub_0_r.
    assert (Es : (if s <? 0 then -1 else 1) * (Z.abs s * B ^ e) = s * B ^ e) by (destruct (Z.ltb_spec s 0); nia).
    rewrite Es, (normalize_mul_pow B HB2 s e 0 He), Z.add_0_l.
    assert (En : normalize B s e = (s, e)).
    { destruct Hn as [Hm|[-> ->]]; [apply normalize_normal; assumption | reflexivity]. }
    rewrite En, Hie. f_equal. f_equal. cbn [len length Z.of_nat] in Nd. lia.
  - (* integer part, point, fraction *)
    specialize (Flen eq_refl). unfold body.
    rewrite (span_run_digits (i0 :: ids') (46 :: map (digit_char false) fds) Rids R46).
    cbn [Z.eqb Pos.eqb]. rewrite <- (app_nil_r (map (digit_char false) fds)), (span_run_digits fds [] Rfds I).
    assert (Lf : 0 < len fds) by (unfold ex in Flen; lia).
    replace (len (i0 :: ids') =? 0) with false by (symmetry; apply Z.eqb_neq; rewrite len_cons; pose proof (len_nonneg ids'); lia).
    replace (len fds =? 0) with false by (symmetry; apply Z.eqb_neq; lia).
    replace (len (i0 :: ids') + len fds =? 0) with false by (symmetry; apply Z.eqb_neq; rewrite len_cons; pose proof (len_nonneg ids'); lia).
    cbn [orb negb andb]. rewrite Val, Z.mul_1_l, Z.mul_1_l, Flen.
    assert (Es : (if s <? 0 then -1 else 1) * Z.abs s = s) by (destruct (Z.ltb_spec s 0); lia).
    rewrite Es. replace (0 - ex) with e by (unfold ex; lia).
    assert (En : normalize B s e = (s, e)).
    { destruct Hn as [Hm|[-> ->]]; [apply normalize_normal; assumption | reflexivity]. }
    rewrite En, Hie. f_equal. f_equal. lia.
Qed.

(** ** print -> parse on the as-is models: what Display prints for a normalised float, the parser
    reads back as the same float *)
Theorem display_parse_roundtrip_asis m s e : (s mod B <> 0 \/ (s = 0 /\ e = 0)) -> in_isize e = true ->
  parse_asis B ((if s <? 0 then [45] else []) ++ fmt_round_body_asis B m s e None) = Ok (s, e, printed_digits s e).
Proof.
  intros Hn Hie.
  assert (Hz : s = 0 -> e = 0) by (intros X; destruct Hn as [Y|[_ Y]]; [rewrite X, Z.mod_0_l in Y by lia; contradiction | exact Y]).
  rewrite (fmt_round_body_asis_spec B HB2 m s e None Hz) by discriminate.
  apply parse_asis_complete.
  - unfold radix_valid. apply andb_true_iff. split; apply Z.leb_le; lia.
  - apply display_parse_roundtrip_spec; assumption.
Qed.

End RoundTrip.
