(** C05, float part, producers, third part (deepening round 4).
    (a) The function the correspondence run replays for Context::add/sub/mul/div/inv/sqrt/sqr/cubic (fprod_asis) now
        runs deep-C03's models of the REPAIRED add.rs / mul.rs / div.rs with every Repr::new of the code inside
        (Float/FixModel.v `_fix_n`; sqrt: Float/LongModel.v ctx_sqrt_n) - the private ctx_div_n of round 3 is gone.  On
        normalised operands the final Repr::new is the identity: what the run compares IS the pair of C03's model
        (citing C03's normality theorems of Float/FixMulDivProof.v and Float/NormalProof.v).
    (b) The elementary-function producers - Context::powi, exp, exp_m1, ln, ln_1p, powf - as C11 models them as-is
        (Float/ElemAsis.v: series loops, argument reduction, the final powering; they end in C03's rounding) return a
        NORMALISED Repr for every base, precision, mode, operand, fuel and f32 estimate layer; == / cmp follow the value
        on everything they return ([produced3]). *)
From Dashu Require Import Base.Prelude Float.RoundSpec Float.Contract Float.Model Float.ModelProof.
From Dashu Require Import Float.AddModel Float.DivMulModel Float.LongModel Float.NormalProof Float.FixModel Float.FixMulDivProof.
From Dashu Require Float.ElemF32 Float.ElemAsis Float.ElemAsisEntry.
From Dashu Require Import Float.FloatOrdProducers2Model.
From DashuGen Require Import RoundTables.
From Dashu Require Float.FloatOrdModel Float.FloatOrdProofs Float.FloatOrdTotal Float.FloatOrdProducers Float.FloatOrdProducers2.
Open Scope Z_scope.

(* ---------------------------------------------------------------- (a) fprod = C03's `_n` models *)

Section Fprod.
Variable B : Z.
Hypothesis HB : 2 <= B.

Lemma fin_new_normal a : approx_normal B a ->
  fin_new B a = (approx_sig a, approx_exp a, match a with AExact _ _ => None | AInexact _ _ r => Some r end).
Proof.
  intros N. unfold fin_new. unfold approx_normal in N. rewrite (normalize_id B HB _ _ N). reflexivity.
Qed.

(** on stored (normalised) operands the replayed producer is C03's model of the repaired code itself, pair and flag *)
Theorem fprod_asis_is_c03_model du dl o p m s1 e1 s2 e2 :
  is_normal B s1 e1 = true -> is_normal B s2 e2 = true ->
  let raw := match o with
             | FoAdd => ctx_add_fix_n B du p m s1 e1 s2 e2 | FoSub => ctx_sub_fix_n B du p m s1 e1 s2 e2
             | FoMul => Ok (ctx_mul_fix_n B p m s1 e1 s2 e2) | FoSqr => Ok (ctx_sqr_fix_n B p m s1 e1)
             | FoCubic => Ok (ctx_cubic_fix_n B p m s1 e1)
             | FoDiv => repr_div_fix_n B p m s1 e1 s2 e2 | FoInv => ctx_inv_fix_n B p m s1 e1 | FoSqrt => ctx_sqrt_n B p m s1 e1
             end in
  fprod_asis B du dl o p m s1 e1 s2 e2 =
    match raw with
    | Ok a => Ok (approx_sig a, approx_exp a, match a with AExact _ _ => None | AInexact _ _ r => Some r end)
    | Panic c => Panic c | Err c => Err c | OutOfFuel => OutOfFuel
    end.
Proof.
  intros N1 N2. cbv zeta.
  destruct (ctx_mul_fix_n_eq B HB p m s1 e1 s2 e2) as (_ & _ & _ & Mu & Sq & Cu).
  destruct (ctx_add_sub_fix_n_eq B HB du p m s1 e1 s2 e2 N1 N2) as (_ & _ & Ad & Sb).
  pose proof (proj1 (repr_div_fix_n_normal B HB p m s1 e1 s2 e2)) as Dv.
  pose proof (proj2 (repr_div_fix_n_normal B HB p m s2 e2 s1 e1)) as Iv.
  pose proof (proj1 (sqrt_rem_n_normal B HB p m s1 e1 s2 e2)) as Sr.
  assert (R : forall x, result_normal B x -> rfin B x =
     match x with
     | Ok a => Ok (approx_sig a, approx_exp a, match a with AExact _ _ => None | AInexact _ _ r => Some r end)
     | Panic c => Panic c | Err c => Err c | OutOfFuel => OutOfFuel
     end).
  { intros [a| | |] Nx; cbn [rfin result_normal] in *; try reflexivity. rewrite fin_new_normal; [reflexivity | exact Nx]. }
  destruct o; cbn [fprod_asis]; try (apply R; assumption); rewrite fin_new_normal; try reflexivity; assumption.
Qed.

End Fprod.

(** non-vacuity: 0 - 1.5 at one digit in the mode Up is -1 (rounded towards +infinity AFTER the negation: the repaired
    Context::sub), flag NoOp; the replayed producer and C03's model agree *)
Example fprod_is_c03_example :
  fprod_asis 10 (dlen 10) (dlen 10) FoSub 1 MUp 0 0 15 (-1) = Ok (-1, 0, Some NoOp) /\
  ctx_sub_fix_n 10 (dlen 10) 1 MUp 0 0 15 (-1) = Ok (AInexact (-1) 0 NoOp) /\ is_normal 10 15 (-1) = true /\ is_normal 10 0 0 = true.
Proof. repeat split. Qed.

(* ---------------------------------------------------------------- (b) powi, exp, ln, powf *)

Import ElemF32 ElemAsis.

Section Elem.
Variable B : Z.
Hypothesis HB : 2 <= B.

Notation an := (approx_normal B).
Definition fbn (x : fbig) : Prop := is_normal B (fsig x) (fexp x) = true.

Lemma nrm_normal a : an (nrm B a).
Proof.
  unfold approx_normal. destruct a as [s e|s e r]; cbn [nrm]; pose proof (normalize_normal B HB s e) as N;
    destruct (normalize B s e) as [s' e']; exact N.
Qed.

Lemma fb_of_normal v p : fbn (fb_of B v p).
Proof.
  unfold fb_of, fbn. pose proof (normalize_normal B HB (fst v) (snd v)) as N. destruct (normalize B (fst v) (snd v)) as [s e]. exact N.
Qed.

Lemma one_normal : is_normal B 1 0 = true.
Proof. unfold is_normal. cbn [Z.eqb]. rewrite Z.mod_1_l by lia. reflexivity. Qed.
Lemma zero_normal : is_normal B 0 0 = true.
Proof. reflexivity. Qed.

Lemma never_exact_normal a : an a -> an (never_exact a).
Proof. destruct a; exact (fun H => H). Qed.

Lemma with_precision_normal src p m s e : is_normal B s e = true -> an (with_precision B src p m s e).
Proof. intros N. unfold with_precision. destruct ((src =? 0) || (src >? p)); [apply nrm_normal | exact N]. Qed.

Lemma and_then_normal a f : (forall s e, is_normal B s e = true -> an (f s e)) -> an a -> an (approx_and_then a f).
Proof.
  intros Hf Na. unfold approx_normal in Na. destruct a as [s e|s e r]; cbn [approx_and_then approx_sig approx_exp] in *.
  - apply Hf. exact Na.
  - specialize (Hf s e Na). destruct (f s e); exact Hf.
Qed.

Lemma and_then_normal' a f : (forall s e, an (f s e)) -> an (approx_and_then a f).
Proof.
  intros Hf. destruct a as [s e|s e r]; cbn [approx_and_then]; [apply Hf|]. specialize (Hf s e). destruct (f s e); exact Hf.
Qed.

Lemma and_then_r_normal a f b : (forall s e x, f s e = Ok x -> an x) -> approx_and_then_r a f = Ok b -> an b.
Proof.
  intros Hf. destruct a as [s e|s e r]; cbn [approx_and_then_r]; [apply Hf|].
  intros E. apply ElemAsisEntry.rbind_ok in E. destruct E as (x & Ex & E). inversion E. specialize (Hf s e x Ex). destruct x; exact Hf.
Qed.

Lemma shl_val_normal s e n : is_normal B s e = true -> let '(s', e') := shl_val s e n in is_normal B s' e' = true.
Proof. unfold shl_val. destruct (s =? 0) eqn:Z; [exact (fun H => H)|]. unfold is_normal. rewrite Z. exact (fun H => H). Qed.

Lemma fb_shr_normal x n : fbn x -> fbn (fb_shr x n).
Proof. unfold fb_shr, fbn. destruct (fsig x =? 0) eqn:Z; [exact (fun H => H)|]. unfold is_normal. cbn [fsig fexp]. rewrite Z. exact (fun H => H). Qed.

Lemma fb_from_int_normal n : fbn (fb_from_int B n).
Proof.
  unfold fb_from_int, fbn, prim_repr. pose proof (normalize_normal B HB n 0) as N. destruct (normalize B n 0) as [s e]. exact N.
Qed.

(* ---- powi *)
Lemma powi_loop_normal wp m s e n k res : an res -> an (powi_loop B wp m s e n k res).
Proof.
  revert res. induction k as [|k IH]; intros res N; cbn [powi_loop].
  - destruct (Z.testbit n (Z.of_nat 0)); [apply and_then_normal'; intros; apply nrm_normal | exact N].
  - apply IH. apply and_then_normal'. intros. apply nrm_normal.
Qed.

Lemma powi_pos_normal p m s e n : an (powi_pos B p m s e n).
Proof.
  unfold powi_pos. destruct (n =? 0); [exact one_normal|]. destruct (n =? 1); [apply nrm_normal|].
  apply and_then_normal; [intros; apply with_precision_normal; assumption|]. apply powi_loop_normal. apply nrm_normal.
Qed.

Theorem powi_asis_normal p m s e n a : powi_asis B p m s e n = Ok a -> an a.
Proof.
  unfold powi_asis. destruct (n <? 0).
  - destruct (p =? 0); [discriminate|]. intros E. apply ElemAsisEntry.rbind_ok in E. destruct E as (inv & _ & E). inversion E.
    apply and_then_normal'. intros. apply nrm_normal.
  - intros E. inversion E. apply powi_pos_normal.
Qed.

(* ---- the series loops return their running sum *)
Section F32.
Context {F : Type} (O : f32ops F).
Variable W : Z.

Lemma fb_add_vv_normal m x y sg : fbn (fb_add_vv B m x y sg). Proof. apply fb_of_normal. Qed.
Lemma fb_add_vr_normal m x y sg : fbn (fb_add_vr B m x y sg). Proof. apply fb_of_normal. Qed.
Lemma fb_mul_normal m x y : fbn (fb_mul B m x y). Proof. apply fb_of_normal. Qed.

Lemma exp_series_loop_normal fuel m r : forall sum pow factorial k x, fbn sum ->
  exp_series_loop B O W fuel m r sum pow factorial k = Ok x -> fbn x.
Proof.
  induction fuel as [|f IH]; intros sum pow factorial k x N E; cbn [exp_series_loop] in E; [discriminate|].
  apply ElemAsisEntry.rbind_ok in E. destruct E as (inc & _ & E).
  destruct (fval_abs_le B (fsig inc) (fexp inc) 1 (sub_ulp_exp B O W sum)); [inversion E; subst; exact N|].
  eapply IH; [|exact E]. apply fb_add_vv_normal.
Qed.

Lemma ln_series_loop_normal fuel wp m z2 : forall sum pow k x, fbn sum ->
  ln_series_loop B O W fuel wp m z2 sum pow k = Ok x -> fbn x.
Proof.
  induction fuel as [|f IH]; intros sum pow k x N E; cbn [ln_series_loop] in E; [discriminate|].
  apply ElemAsisEntry.rbind_ok in E. destruct E as (inc & _ & E).
  destruct (fval_abs_le B (fsig inc) (fexp inc) 1 (sub_ulp_exp B O W sum)); [inversion E; subst; exact N|].
  eapply IH; [|exact E]. apply fb_add_vv_normal.
Qed.

Lemma convert_int_normal p m n : fbn (convert_int B p m n).
Proof. unfold convert_int. destruct (normalize B n 0) as [s e]. apply fb_of_normal. Qed.

Lemma fb_div_rem_euclid_normal m x y q r : fb_div_rem_euclid B m x y = Ok (q, r) -> fbn r.
Proof.
  unfold fb_div_rem_euclid. destruct (fsig y =? 0); [discriminate|].
  match goal with |- (let '(num, den) := ?c in _) = _ -> _ => destruct c as [num den] end.
  intros E. inversion E as [[Eq Er]]. clear Eq Er E.
  match goal with |- fbn (if fsig ?c =? 0 then _ else _) => pose proof (convert_int_normal (ctx_max (fprec x) (fprec y)) m (num mod Z.abs den)) as N; set (rf := c) in * end.
  destruct (fsig rf =? 0) eqn:Z0; [exact N|]. unfold fbn, is_normal in *. cbn [fsig fexp]. rewrite Z0 in *. exact N.
Qed.

(* ---- ln, ln_1p *)
Theorem ln_internal_normal fuel p m s e op a : ln_internal B O W fuel p m s e op = Ok a -> an a.
Proof.
  unfold ln_internal. destruct (p =? 0); [discriminate|].
  destruct ((op && (s =? 0)) || (negb op && (s =? 1) && (e =? 0))); [intros E; inversion E; exact zero_normal|].
  destruct (if op then negb (fval_lt B (-1) 0 s e) else s <=? 0); [discriminate|].
  intros E. apply ElemAsisEntry.rbind_ok in E. destruct E as ([s2 xs] & _ & E).
  apply ElemAsisEntry.rbind_ok in E. destruct E as (z & _ & E).
  apply ElemAsisEntry.rbind_ok in E. destruct E as (sum & _ & E).
  apply ElemAsisEntry.rbind_ok in E. destruct E as (result & R & E). inversion E.
  apply never_exact_normal. apply with_precision_normal.
  assert (fbn result) as N; [|exact N].
  match type of R with (if ?c then _ else _) = _ => destruct c end.
  - inversion R. apply fb_mul_normal.
  - apply ElemAsisEntry.rbind_ok in R. destruct R as (l2 & _ & R). inversion R. apply fb_add_vv_normal.
Qed.

(* ---- exp, exp_m1 *)
Theorem exp_internal_normal fuel p m s e mo a : exp_internal B O W fuel p m s e mo = Ok a -> an a.
Proof.
  unfold exp_internal. destruct (p =? 0); [discriminate|].
  destruct (s =? 0); [intros E; inversion E; destruct mo; [exact zero_normal | exact one_normal]|].
  set (ns := mo && _). intros E. apply ElemAsisEntry.rbind_ok in E. destruct E as ([[s2 n] r] & R & E).
  assert (fbn r) as Nr.
  { destruct ns.
    - inversion R. apply fb_of_normal.
    - apply ElemAsisEntry.rbind_ok in R. destruct R as (logb & _ & R).
      apply ElemAsisEntry.rbind_ok in R. destruct R as ([q r0] & QR & R).
      destruct ((q <? - isize_max - 1) || (isize_max <? q)); [discriminate|]. inversion R. subst.
      eapply fb_div_rem_euclid_normal. exact QR. }
  apply ElemAsisEntry.rbind_ok in E. destruct E as (sum & SL & E).
  assert (fbn sum) as Ns.
  { eapply exp_series_loop_normal; [|exact SL]. destruct ns; [apply fb_shr_normal; exact Nr | apply fb_add_vr_normal]. }
  destruct ns.
  - inversion E. apply never_exact_normal. apply with_precision_normal. exact Ns.
  - destruct mo.
    + apply ElemAsisEntry.rbind_ok in E. destruct E as (pw & _ & E). inversion E. apply never_exact_normal.
      apply and_then_normal; [intros; apply with_precision_normal; assumption|].
      unfold approx_normal. destruct pw as [s' e'|s' e' r']; cbn [approx_map]; destruct (shl_val s' e' s2) as [s'' e''];
        cbn [fb_val approx_sig approx_exp]; apply fb_add_vv_normal.
    + apply ElemAsisEntry.rbind_ok in E. destruct E as (pw & PW & E). inversion E. apply never_exact_normal.
      pose proof (powi_asis_normal _ _ _ _ _ _ PW) as Np. unfold approx_normal in *.
      destruct pw as [s' e'|s' e' r']; cbn [approx_map approx_sig approx_exp] in *;
        pose proof (shl_val_normal s' e' s2 Np) as K; destruct (shl_val s' e' s2) as [s'' e'']; exact K.
Qed.

(* ---- powf *)
Theorem powf_asis_normal fuel p m s e ys ye a : powf_asis B O W fuel p m s e ys ye = Ok a -> an a.
Proof.
  unfold powf_asis. destruct (p =? 0); [discriminate|].
  destruct (ys =? 0); [intros E; inversion E; exact one_normal|].
  destruct ((ys =? 1) && (ye =? 0)); [intros E; inversion E; apply nrm_normal|].
  destruct (s =? 0); [intros E; inversion E; exact zero_normal|]. destruct (s <? 0); [discriminate|].
  intros E. apply ElemAsisEntry.rbind_ok in E. destruct E as (l & _ & E).
  apply ElemAsisEntry.rbind_ok in E. destruct E as (t & _ & E).
  apply ElemAsisEntry.rbind_ok in E. destruct E as (r & R & E). inversion E.
  apply and_then_normal; [intros; apply with_precision_normal; assumption|].
  eapply and_then_r_normal; [|exact R]. intros s' e' x X. eapply exp_internal_normal. exact X.
Qed.

End F32.
End Elem.

Theorem elem_results_normal B : 2 <= B -> forall (F : Type) (O : ElemF32.f32ops F) W fuel p m s e n ys ye flag,
  (forall a, ElemAsis.powi_asis B p m s e n = Ok a -> approx_normal B a) /\
  (forall a, ElemAsis.exp_internal B O W fuel p m s e flag = Ok a -> approx_normal B a) /\
  (forall a, ElemAsis.ln_internal B O W fuel p m s e flag = Ok a -> approx_normal B a) /\
  (forall a, ElemAsis.powf_asis B O W fuel p m s e ys ye = Ok a -> approx_normal B a).
Proof.
  intros HB F O W fuel p m s e n ys ye flag. repeat split; intros a E.
  - eapply powi_asis_normal; eassumption.
  - eapply exp_internal_normal; eassumption.
  - eapply ln_internal_normal; eassumption.
  - eapply powf_asis_normal; eassumption.
Qed.

(* ---------------------------------------------------------------- ==, cmp on everything the library computes *)

Import FloatOrdModel FloatOrdProofs FloatOrdTotal FloatOrdProducers FloatOrdProducers2.

Lemma is_normal_nz B s e : is_normal B s e = true -> nz B (s, e).
Proof.
  unfold is_normal, nz, normalized, fr. cbn [fst snd FloatOrdModel.fsig FloatOrdModel.fexp].
  destruct (Z.eqb_spec s 0) as [->|NZ]; intros H.
  - left. apply Z.eqb_eq in H. split; [reflexivity | exact H].
  - right. split; [exact NZ|]. destruct (Z.eqb_spec (s mod B) 0); [discriminate | assumption].
Qed.

Definition approx_fr (a : approx) : frepr := FR (approx_sig a) (approx_exp a).

(** every float the modelled library computes: rounds 2 and 3, and the elementary functions *)
Inductive produced3 (B : Z) : frepr -> Prop :=
| P2 x : produced2 B x -> produced3 B x
(* Context::add / sub / mul / div / inv / sqrt / sqr / cubic of the CURRENT tree (C03's models of the repaired code) *)
| PFix du dl o p m x y s e f : fprod_asis B du dl o p m (fsig x) (fexp x) (fsig y) (fexp y) = Ok (s, e, f) -> produced3 B (FR s e)
| PPowi p m x n a : ElemAsis.powi_asis B p m (fsig x) (fexp x) n = Ok a -> produced3 B (approx_fr a)
| PExp F (O : ElemF32.f32ops F) W fuel p m x mo a :
    ElemAsis.exp_internal B O W fuel p m (fsig x) (fexp x) mo = Ok a -> produced3 B (approx_fr a)
| PLn F (O : ElemF32.f32ops F) W fuel p m x op a :
    ElemAsis.ln_internal B O W fuel p m (fsig x) (fexp x) op = Ok a -> produced3 B (approx_fr a)
| PPowf F (O : ElemF32.f32ops F) W fuel p m x y a :
    ElemAsis.powf_asis B O W fuel p m (fsig x) (fexp x) (fsig y) (fexp y) = Ok a -> produced3 B (approx_fr a).

Theorem produced3_normalized B x : 2 <= B -> produced3 B x -> fwf x /\ normalized_ext B x.
Proof.
  intros HB P.
  assert (Q : forall a, approx_normal B a -> fwf (approx_fr a) /\ normalized_ext B (approx_fr a)).
  { intros a N. destruct (nz_fin B (approx_sig a, approx_exp a) (is_normal_nz B _ _ N)) as (A & C & _). split; assumption. }
  destruct P as [x P|du dl o p m x y s e f E|p m x n a E|F O W fuel p m x mo a E|F O W fuel p m x op a E|F O W fuel p m x y a E].
  - apply produced2_normalized; assumption.
  - destruct (fprod_asis_normalized B du dl o p m _ _ _ _ s e f HB E) as (_ & A & C). split; assumption.
  - apply Q. eapply powi_asis_normal; eassumption.
  - apply Q. eapply exp_internal_normal; eassumption.
  - apply Q. eapply ln_internal_normal; eassumption.
  - apply Q. eapply powf_asis_normal; eassumption.
Qed.

Theorem fbig_eq_sound_on_producers3 B digits_ub x y : 2 <= B ->
  (forall s, s <> 0 -> Z.abs s < B ^ (digits_ub s + 1)) ->
  produced3 B x -> produced3 B y ->
  fbig_eq x y = feq_spec B x y /\
  repr_cmp_same_base B digits_ub false x y = fcmp_spec B x y /\
  repr_cmp_same_base B digits_ub true x y = fabs_cmp_spec B x y /\
  (repr_cmp_same_base B digits_ub false x y = Eq <-> fbig_eq x y = true).
Proof.
  intros HB HD Px Py. destruct (produced3_normalized B x HB Px) as [Wx Nx]. destruct (produced3_normalized B y HB Py) as [Wy Ny].
  split; [apply fbig_eq_correct; assumption|].
  split; [apply repr_cmp_same_base_correct; assumption|].
  split; [apply repr_cmp_same_base_abs_correct; assumption | apply fbig_cmp_eq_iff_eq; assumption].
Qed.

(** non-vacuity: 2^10 as powi(2, 10) at 8 bits equals the stored 1 * 2^10 *)
Example produced3_example :
  ElemAsis.powi_asis 2 8 MHalfEven 1 1 10 = Ok (AExact 1 10) /\ produced3 2 (FR 1 10).
Proof.
  assert (E : ElemAsis.powi_asis 2 8 MHalfEven 1 1 10 = Ok (AExact 1 10)) by (vm_compute; reflexivity).
  split; [exact E|]. exact (PPowi 2 8 MHalfEven (FR 1 1) 10 (AExact 1 10) E).
Qed.
