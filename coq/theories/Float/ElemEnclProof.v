(** C11: soundness of the certified checkers of ElemEncl.v.
    Whatever working precisions, Newton schedules and exponent guesses the (untrusted) driver
    passes, a verdict VAccept proves that the answer is within one ulp of the true real value (and
    equal to it if it was flagged Exact), a verdict VReject proves the opposite.  Built on
    CoqInterval's correctness theorems (I.exp_correct, I.power_int_correct, I.add/sub/mul/div_correct,
    sign tests), the standard library's exp/ln facts and Flocq's bpow. *)
From Coq Require Import ZArith Reals Lra Lia Bool List.
From Flocq Require Import Core.
From Interval Require Import Xreal Basic Sig Interval Float Float_full Specific_ops Specific_stdz Specific_sig.
From Dashu Require Import Base.Prelude Float.RoundSpec Float.Contract Float.ElemEncl Float.ElemEntryProof.
Open Scope Z_scope.

Definition bpw (B e : Z) : R := powerRZ (IZR B) e.
Definition encl (T : I.type) (t : R) : Prop := contains (I.convert T) (Xreal t).

(** interval operations on enclosures of reals *)
Lemma encl_fromZ pr v : encl (I.fromZ pr v) (IZR v).
Proof. apply I.fromZ_correct. Qed.
Lemma encl_add pr X Y x y : encl X x -> encl Y y -> encl (I.add pr X Y) (x + y).
Proof. intros H1 H2. exact (I.add_correct pr X Y (Xreal x) (Xreal y) H1 H2). Qed.
Lemma encl_sub pr X Y x y : encl X x -> encl Y y -> encl (I.sub pr X Y) (x - y).
Proof. intros H1 H2. exact (I.sub_correct pr X Y (Xreal x) (Xreal y) H1 H2). Qed.
Lemma encl_mul pr X Y x y : encl X x -> encl Y y -> encl (I.mul pr X Y) (x * y).
Proof. intros H1 H2. exact (I.mul_correct pr X Y (Xreal x) (Xreal y) H1 H2). Qed.
Lemma encl_div pr X Y x y : y <> 0%R -> encl X x -> encl Y y -> encl (I.div pr X Y) (x / y).
Proof.
  intros Hy H1 H2. generalize (I.div_correct pr X Y (Xreal x) (Xreal y) H1 H2).
  unfold encl. simpl. unfold Xdiv'. destruct (is_zero_spec y); [contradiction|]. auto.
Qed.
Lemma encl_inv pr Y y : y <> 0%R -> encl Y y -> encl (I.inv pr Y) (/ y).
Proof.
  intros Hy H2. generalize (I.inv_correct pr Y (Xreal y) H2).
  unfold encl. simpl. unfold Xinv'. destruct (is_zero_spec y); [contradiction|]. auto.
Qed.
Lemma encl_abs X x : encl X x -> encl (I.abs X) (Rabs x).
Proof. intros H. exact (I.abs_correct X (Xreal x) H). Qed.
Lemma encl_neg X x : encl X x -> encl (I.neg X) (- x).
Proof. intros H. exact (I.neg_correct X (Xreal x) H). Qed.
Lemma encl_exp pr X x : encl X x -> encl (I.exp pr X) (exp x).
Proof. intros H. exact (I.exp_correct pr X (Xreal x) H). Qed.
Lemma encl_meet X Y x : encl X x -> encl Y x -> encl (I.meet X Y) x.
Proof. apply I.meet_correct. Qed.
Lemma encl_whole x : encl I.whole x.
Proof. apply I.whole_correct. Qed.
Lemma encl_nai x : encl I.nai x.
Proof. unfold encl. rewrite I.nai_correct. exact I. Qed.
Lemma encl_upper_extent X x y : encl X y -> (y <= x)%R -> encl (I.upper_extent X) x.
Proof. apply I.upper_extent_correct. Qed.
Lemma encl_lower_extent X x y : encl X y -> (x <= y)%R -> encl (I.lower_extent X) x.
Proof. apply I.lower_extent_correct. Qed.

Lemma sign_strict_gt T t : encl T t -> is_gt (I.sign_strict T) = true -> (0 < t)%R.
Proof.
  intros He H. generalize (I.sign_strict_correct T).
  destruct (I.sign_strict T); try discriminate. intros Hc. destruct (Hc _ He) as [_ H1]. exact H1.
Qed.
Lemma sign_large_ge T t : encl T t -> is_ge (I.sign_large T) = true -> (0 <= t)%R.
Proof.
  intros He H. generalize (I.sign_large_correct T).
  destruct (I.sign_large T); try discriminate; intros Hc.
  - specialize (Hc _ He). inversion Hc. lra.
  - destruct (Hc _ He) as [_ H1]. exact H1.
Qed.
Lemma is_gt_ge c : is_gt c = true -> is_ge c = true.
Proof. destruct c; auto. Qed.
Lemma differ_neq pr T Rv t r : encl T t -> encl Rv r -> differ pr T Rv = true -> r <> t.
Proof.
  intros Ht Hr. unfold differ. assert (He := encl_sub pr _ _ _ _ Hr Ht).
  generalize (I.sign_strict_correct (I.sub pr Rv T)).
  destruct (I.sign_strict (I.sub pr Rv T)); try discriminate; intros Hc _;
  destruct (Hc _ He) as [_ H1]; simpl in H1; lra.
Qed.

Section Base.
Variable B : Z.
Hypothesis HB : 2 <= B.

Definition rdx : radix := Build_radix B (proj2 (Z.leb_le 2 B) HB).
Lemma bpw_bpow e : bpw B e = bpow rdx e.
Proof. unfold bpw. now rewrite bpow_powerRZ. Qed.
Lemma bpw_pos e : (0 < bpw B e)%R.
Proof. rewrite bpw_bpow. apply bpow_gt_0. Qed.
Lemma IZRB_neq0 : IZR B <> 0%R.
Proof. apply not_0_IZR. lia. Qed.
Lemma bpw_add a b : bpw B (a + b) = (bpw B a * bpw B b)%R.
Proof. unfold bpw. apply powerRZ_add, IZRB_neq0. Qed.
Lemma bpw_nonneg_Z e : 0 <= e -> bpw B e = IZR (B ^ e).
Proof.
  intros He. unfold bpw. rewrite <- (Z2Nat.id e He) at 1 2.
  rewrite <- pow_powerRZ, pow_IZR. reflexivity.
Qed.
Lemma fval_bpw s e : fval B s e = (IZR s * bpw B e)%R.
Proof. reflexivity. Qed.
Lemma fval_1 e : fval B 1 e = bpw B e.
Proof. unfold fval, bpw. lra. Qed.

(** a * B^(ea - m) as a real: the float scaled by B^-m *)
Lemma scaled a ea m : m <= ea -> IZR (a * B ^ (ea - m)) = (fval B a ea * bpw B (- m))%R.
Proof.
  intros H. rewrite mult_IZR, <- bpw_nonneg_Z by lia.
  unfold fval. fold (bpw B ea). replace (ea - m) with (ea + - m) by lia. rewrite bpw_add. ring.
Qed.

Lemma feq_correct a ea b eb : feq B a ea b eb = true <-> fval B a ea = fval B b eb.
Proof.
  unfold feq. set (m := Z.min ea eb). rewrite Z.eqb_eq.
  assert (Hp := bpw_pos (- m)).
  split; intros H.
  - apply (f_equal IZR) in H. rewrite !scaled in H by lia. nra.
  - apply eq_IZR. rewrite !scaled by lia. now rewrite H.
Qed.

Lemma fle_correct a ea b eb : fle B a ea b eb = true <-> (fval B a ea <= fval B b eb)%R.
Proof.
  unfold fle. set (m := Z.min ea eb). rewrite Z.leb_le.
  assert (Hp := bpw_pos (- m)).
  split; intros H.
  - apply IZR_le in H. rewrite !scaled in H by lia. nra.
  - apply le_IZR. rewrite !scaled by lia. nra.
Qed.

Lemma fdiff_lt_correct a ea b eb u :
  fdiff_lt B a ea b eb u = true <-> (Rabs (fval B a ea - fval B b eb) < bpw B u)%R.
Proof.
  unfold fdiff_lt. set (m := Z.min (Z.min ea eb) u). rewrite Z.ltb_lt.
  assert (Hp := bpw_pos (- m)).
  assert (E1 : IZR (Z.abs (a * B ^ (ea - m) - b * B ^ (eb - m))) = (Rabs (fval B a ea - fval B b eb) * bpw B (- m))%R).
  { rewrite abs_IZR, minus_IZR, !scaled by lia.
    rewrite <- Rmult_minus_distr_r, Rabs_mult, (Rabs_pos_eq (bpw B (- m))) by lra. reflexivity. }
  assert (E2 : IZR (B ^ (u - m)) = (bpw B u * bpw B (- m))%R).
  { rewrite <- bpw_nonneg_Z by lia. replace (u - m) with (u + - m) by lia. apply bpw_add. }
  split; intros H.
  - apply IZR_lt in H. rewrite E1, E2 in H. nra.
  - apply lt_IZR. rewrite E1, E2. nra.
Qed.



Lemma Xpower_int_real b e : b <> 0%R -> Xpower_int (Xreal b) e = Xreal (powerRZ b e).
Proof.
  intros Hb. unfold Xpower_int, Xbind, Xpower_int'. destruct e; try reflexivity.
  destruct (is_zero_spec b); [contradiction|reflexivity].
Qed.

Lemma ival_correct pr s e : encl (ival pr B s e) (fval B s e).
Proof.
  unfold ival. assert (HB0 := IZRB_neq0).
  destruct (Z.abs e <=? big_exp).
  - destruct (Z.leb_spec 0 e).
    + replace (fval B s e) with (IZR (s * B ^ e)). apply encl_fromZ.
      rewrite mult_IZR, <- bpw_nonneg_Z by lia. reflexivity.
    + replace (fval B s e) with (IZR s / IZR (B ^ (- e)))%R.
      * apply encl_div; try apply encl_fromZ. apply not_0_IZR. apply Z.pow_nonzero; lia.
      * rewrite <- bpw_nonneg_Z by lia. unfold fval, bpw, Rdiv.
        rewrite powerRZ_neg, powerRZ_inv by assumption. rewrite Rinv_inv. reflexivity.
  - apply encl_mul. apply encl_fromZ.
    unfold encl. rewrite <- (Xpower_int_real _ e HB0).
    apply (I.power_int_correct pr e (I.fromZ pr B) (Xreal (IZR B))). apply I.fromZ_correct.
Qed.

Lemma ival_one pr E : encl (ival pr B 1 E) (bpw B E).
Proof. rewrite <- fval_1. apply ival_correct. Qed.

(** the two relations decided by the checkers *)
Definition ok1ulp (p : Z) (t r : R) : Prop :=
  r = t \/ exists E, (bpw B E <= Rabs t)%R /\ (Rabs (r - t) < bpw B (E - p + 1))%R.
Definition bad1ulp (p : Z) (t r : R) : Prop :=
  (t = 0%R /\ r <> t) \/ exists E, (Rabs t < bpw B (E + 1))%R /\ (bpw B (E - p + 1) <= Rabs (r - t))%R.

Lemma ok_bad_exclusive p t r : ok1ulp p t r -> bad1ulp p t r -> False.
Proof.
  intros [->|[E1 [H1 H2]]] [[H3 H4]|[E2 [H3 H4]]].
  - now apply H4.
  - replace (t - t)%R with 0%R in H4 by ring. rewrite Rabs_R0 in H4. generalize (bpw_pos (E2 - p + 1)). lra.
  - subst t. rewrite Rabs_R0 in H1. generalize (bpw_pos E1). lra.
  - assert (E1 < E2 + 1). { apply (lt_bpow rdx). rewrite <- !bpw_bpow. lra. }
    assert (bpw B (E1 - p + 1) <= bpw B (E2 - p + 1))%R.
    { rewrite !bpw_bpow. apply bpow_le. lia. }
    lra.
Qed.

Lemma accept_at_sound pr p T Rv E t r :
  encl T t -> encl Rv r -> accept_at pr B p T Rv E = true ->
  (bpw B E <= Rabs t)%R /\ (Rabs (r - t) < bpw B (E - p + 1))%R.
Proof.
  intros Ht Hr. unfold accept_at. rewrite andb_true_iff. intros [H1 H2]. split.
  - apply sign_large_ge with (t := (Rabs t - bpw B E)%R) in H1.
    lra. apply encl_sub. now apply encl_abs. apply ival_one.
  - apply sign_strict_gt with (t := (bpw B (E - p + 1) - Rabs (r - t))%R) in H2.
    lra. apply encl_sub. apply ival_one. apply encl_abs. now apply encl_sub.
Qed.

Lemma reject_at_sound pr p T Rv E t r :
  encl T t -> encl Rv r -> reject_at pr B p T Rv E = true ->
  (Rabs t < bpw B (E + 1))%R /\ (bpw B (E - p + 1) <= Rabs (r - t))%R.
Proof.
  intros Ht Hr. unfold reject_at. rewrite andb_true_iff. intros [H1 H2]. split.
  - apply sign_strict_gt with (t := (bpw B (E + 1) - Rabs t)%R) in H1.
    lra. apply encl_sub. apply ival_one. now apply encl_abs.
  - apply sign_large_ge with (t := (Rabs (r - t) - bpw B (E - p + 1))%R) in H2.
    lra. apply encl_sub. apply encl_abs. now apply encl_sub. apply ival_one.
Qed.

Lemma decide_ulp_accept pr p T Rv t r :
  encl T t -> encl Rv r -> decide_ulp pr B p T Rv = VAccept -> ok1ulp p t r.
Proof.
  intros Ht Hr. unfold decide_ulp. set (E0 := guessE B T).
  destruct (accept_at pr B p T Rv E0) eqn:A0; [intros _; right; exists E0; eapply accept_at_sound; eauto|].
  destruct (accept_at pr B p T Rv (E0 - 1)) eqn:A1; [intros _; right; exists (E0 - 1); eapply accept_at_sound; eauto|].
  destruct (accept_at pr B p T Rv (E0 + 1)) eqn:A2; [intros _; right; exists (E0 + 1); eapply accept_at_sound; eauto|].
  cbn [orb]. destruct (_ || _ || _); discriminate.
Qed.

Lemma decide_ulp_reject pr p T Rv t r :
  encl T t -> encl Rv r -> decide_ulp pr B p T Rv = VReject -> bad1ulp p t r.
Proof.
  intros Ht Hr. unfold decide_ulp. set (E0 := guessE B T).
  destruct (_ || _ || _); [discriminate|].
  destruct (reject_at pr B p T Rv E0) eqn:A0; [intros _; right; exists E0; eapply reject_at_sound; eauto|].
  destruct (reject_at pr B p T Rv (E0 + 1)) eqn:A1; [intros _; right; exists (E0 + 1); eapply reject_at_sound; eauto|].
  destruct (reject_at pr B p T Rv (E0 - 1)) eqn:A2; [intros _; right; exists (E0 - 1); eapply reject_at_sound; eauto|].
  discriminate.
Qed.

(** verdicts, with the Exact flag: what an accepted / rejected answer satisfies *)
Definition Accepted (p : Z) (t r : R) (fexact : bool) : Prop := ok1ulp p t r /\ (fexact = true -> r = t).
Definition Rejected (p : Z) (t r : R) (fexact : bool) : Prop := bad1ulp p t r \/ (fexact = true /\ r <> t).

Lemma accepted_rejected_exclusive p t r f : Accepted p t r f -> Rejected p t r f -> False.
Proof.
  intros [H1 H2] [H3|[H3 H4]]. eapply ok_bad_exclusive; eauto. now apply H4, H2.
Qed.

Lemma decide_encl_accept pr p T t rs re fexact :
  encl T t -> decide_encl pr B p T (ival pr B rs re) fexact = VAccept -> Accepted p t (fval B rs re) fexact.
Proof.
  intros Ht. unfold decide_encl. destruct fexact.
  - destruct (differ _ _ _); discriminate.
  - intros H. split; [|discriminate]. eapply decide_ulp_accept; eauto. apply ival_correct.
Qed.

Lemma decide_encl_reject pr p T t rs re fexact :
  encl T t -> decide_encl pr B p T (ival pr B rs re) fexact = VReject -> Rejected p t (fval B rs re) fexact.
Proof.
  intros Ht. unfold decide_encl. destruct fexact.
  - destruct (differ _ _ _) eqn:D; [|discriminate]. intros _. right. split; [reflexivity|].
    eapply differ_neq; eauto. apply ival_correct.
  - intros H. left. eapply decide_ulp_reject; eauto. apply ival_correct.
Qed.

Lemma decide_exact_accept p ts te rs re fexact :
  decide_exact B p ts te rs re fexact = VAccept -> Accepted p (fval B ts te) (fval B rs re) fexact.
Proof.
  unfold decide_exact. destruct (feq B rs re ts te) eqn:Q.
  - intros _. apply feq_correct in Q. split; [now left|auto].
  - destruct fexact; [discriminate|]. destruct (ts =? 0); [discriminate|].
    set (E := dlen B ts + te - 1).
    destruct (fle B 1 E (Z.abs ts) te && negb (fle B 1 (E + 1) (Z.abs ts) te)) eqn:G; [|discriminate].
    destruct (fdiff_lt B rs re ts te (E - p + 1)) eqn:D; [|discriminate]. intros _.
    apply andb_true_iff in G. destruct G as [G1 _]. apply fle_correct in G1.
    apply fdiff_lt_correct in D. split; [|discriminate]. right. exists E. split; [|exact D].
    rewrite fval_1 in G1. unfold fval in *. rewrite abs_IZR in G1.
    rewrite Rabs_mult, (Rabs_pos_eq (powerRZ _ _)). exact G1. left. apply bpw_pos.
Qed.

Lemma decide_exact_reject p ts te rs re fexact :
  decide_exact B p ts te rs re fexact = VReject -> Rejected p (fval B ts te) (fval B rs re) fexact.
Proof.
  unfold decide_exact. destruct (feq B rs re ts te) eqn:Q; [discriminate|].
  assert (Hne : fval B rs re <> fval B ts te).
  { intros H. apply feq_correct in H. congruence. }
  destruct fexact. { intros _. right. auto. }
  destruct (Z.eqb_spec ts 0) as [->|Hts].
  { intros _. left. left. split; [apply fval_0|exact Hne]. }
  set (E := dlen B ts + te - 1).
  destruct (fle B 1 E (Z.abs ts) te && negb (fle B 1 (E + 1) (Z.abs ts) te)) eqn:G; [|discriminate].
  destruct (fdiff_lt B rs re ts te (E - p + 1)) eqn:D; [discriminate|]. intros _.
  apply andb_true_iff in G. destruct G as [_ G2]. apply negb_true_iff in G2.
  left. right. exists E. split.
  - destruct (Rlt_le_dec (Rabs (fval B ts te)) (bpw B (E + 1))) as [H|H]; [exact H|exfalso].
    assert (fle B 1 (E + 1) (Z.abs ts) te = true); [|congruence].
    apply fle_correct. rewrite fval_1. unfold fval in *. rewrite abs_IZR.
    rewrite Rabs_mult, (Rabs_pos_eq (powerRZ _ _)) in H. exact H. left. apply bpw_pos.
  - destruct (Rle_lt_dec (bpw B (E - p + 1)) (Rabs (fval B rs re - fval B ts te))) as [H|H]; [exact H|exfalso].
    apply fdiff_lt_correct in H. congruence.
Qed.

End Base.

Open Scope R_scope.

(** real analysis used by the enclosures *)
Lemma exp1_ge_2 : 2 <= exp 1.
Proof. generalize (exp_ineq1_le 1). lra. Qed.

Lemma exp_ge_pow2 K : (0 <= K)%Z -> powerRZ 2 K <= exp (IZR K).
Proof.
  intros HK. pattern K. apply natlike_ind; [| |exact HK].
  - simpl. rewrite exp_0. lra.
  - intros k Hk IH. unfold Z.succ. rewrite plus_IZR, exp_plus, powerRZ_add by lra.
    simpl (powerRZ 2 1). generalize exp1_ge_2 (exp_pos (IZR k)).
    assert (0 < powerRZ 2 k) by (apply powerRZ_lt; lra). nra.
Qed.

Lemma exp_le_mono a b : a <= b -> exp a <= exp b.
Proof. intros [H| ->]. left. now apply exp_increasing. lra. Qed.

Lemma exp_le_inv' a b : exp a <= exp b -> a <= b.
Proof. intros H. destruct (Rle_lt_dec a b); [assumption|]. apply exp_increasing in r. lra. Qed.

Lemma exp_upper x : x < 1 -> exp x <= / (1 - x).
Proof.
  intros Hx. generalize (exp_ineq1_le (- x)) (exp_pos (- x)). intros H1 H2.
  assert (E : exp x = / exp (- x)) by (rewrite <- exp_Ropp; f_equal; lra). rewrite E.
  apply Rinv_le_contravar; lra.
Qed.

Lemma expm1_quad x : -2 <= x -> x + x * x / 4 <= exp x - 1.
Proof.
  intros Hx. assert (E : exp x = exp (x / 2) * exp (x / 2)).
  { rewrite <- exp_plus. f_equal. field. }
  rewrite E. generalize (exp_ineq1_le (x / 2)). intros H. nra.
Qed.

Lemma expm1_upper x : x < 1 -> exp x - 1 <= x / (1 - x).
Proof.
  intros Hx. generalize (exp_upper x Hx). intros H.
  replace (x / (1 - x)) with (/ (1 - x) - 1) by (field; lra). lra.
Qed.

Lemma ln_upper x : 0 < x -> ln x <= x - 1.
Proof. intros Hx. generalize (exp_ineq1_le (ln x)). rewrite exp_ln by assumption. lra. Qed.

Lemma ln_lower x : 0 < x -> (x - 1) / x <= ln x.
Proof.
  intros Hx. assert (H : 0 < / x) by now apply Rinv_0_lt_compat.
  generalize (ln_upper (/ x) H). rewrite ln_Rinv by assumption.
  intros H1. replace ((x - 1) / x) with (1 - / x) by (field; lra). lra.
Qed.

Lemma ln_bracket a b x : exp a <= x -> x <= exp b -> a <= ln x <= b.
Proof.
  intros Ha Hb. assert (Hx : 0 < x) by (generalize (exp_pos a); lra).
  split; apply exp_le_inv'; rewrite exp_ln by assumption; assumption.
Qed.

Lemma ln1p_upper_real d : -1 / 2 <= d ->
  ln (1 + d) <= d - d * d / (4 * ((1 + Rabs d) * (1 + Rabs d))).
Proof.
  intros Hd. set (t := ln (1 + d)). assert (H1 : 0 < 1 + d) by lra.
  assert (Ht : exp t = 1 + d) by (apply exp_ln; exact H1).
  assert (Ht2 : -2 <= t).
  { apply exp_le_inv'. rewrite Ht. apply Rle_trans with (/ 2). 2: lra.
    assert (E : exp (-2) = / exp 2) by (rewrite <- exp_Ropp; f_equal; lra). rewrite E.
    apply Rinv_le_contravar. lra. generalize (exp_ineq1_le 2). lra. }
  assert (Hq := expm1_quad t Ht2). rewrite Ht in Hq.
  assert (Hup := ln_upper (1 + d) H1). fold t in Hup.
  assert (Hlo := ln_lower (1 + d) H1). fold t in Hlo.
  replace ((1 + d - 1) / (1 + d)) with (d / (1 + d)) in Hlo by (field; lra).
  (* t^2 >= d^2 / (1 + |d|)^2 *)
  assert (Ha : 0 <= Rabs d) by apply Rabs_pos.
  assert (Hsq : d * d / ((1 + Rabs d) * (1 + Rabs d)) <= t * t).
  { unfold Rabs in *. destruct (Rcase_abs d) as [Hn|Hp].
    - (* d < 0: t <= d < 0 *)
      assert (t <= d) by lra.
      assert (d * d <= t * t) by nra.
      apply Rle_trans with (d * d); [|assumption].
      apply Rle_trans with (d * d / 1); [|lra].
      unfold Rdiv. apply Rmult_le_compat_l. nra. apply Rinv_le_contravar; nra.
    - (* d >= 0: t >= d / (1 + d) >= 0 *)
      assert (H0 : 0 <= d / (1 + d)). { apply Rmult_le_pos. lra. left. apply Rinv_0_lt_compat. lra. }
      replace (d * d / ((1 + d) * (1 + d))) with ((d / (1 + d)) * (d / (1 + d))) by (field; lra).
      nra. }
  replace (d * d / (4 * ((1 + Rabs d) * (1 + Rabs d)))) with (d * d / ((1 + Rabs d) * (1 + Rabs d)) / 4).
  lra. field. lra.
Qed.

Lemma ione_correct pr : encl (ione pr) 1.
Proof. apply (encl_fromZ pr 1). Qed.

Lemma pt_correct a : F.real a = true -> encl (pt a) (F.toR a).
Proof.
  intros Hr. unfold encl, pt. rewrite I.bnd_correct.
  - assert (H : F.toX a = Xreal (F.toR a)).
    { unfold F.toR. generalize (F.real_correct a). rewrite Hr. destruct (F.toX a); [discriminate|reflexivity]. }
    simpl. rewrite H. lra.
  - apply I.F'.valid_lb_real; assumption.
  - apply I.F'.valid_ub_real; assumption.
Qed.

Lemma pow2_neg K : powerRZ 2 (- K) = / powerRZ 2 K.
Proof. rewrite powerRZ_neg, powerRZ_inv by lra. reflexivity. Qed.

Lemma two_le_two : (2 <= 2)%Z. Proof. lia. Qed.

Lemma ival2_correct pr K : encl (ival pr 2 1 (- K)) (powerRZ 2 (- K)).
Proof. generalize (ival_one 2 two_le_two pr (- K)). unfold bpw. auto. Qed.

Lemma T_expm1_main_correct prt K X x : (1 <= K)%Z -> encl X x -> encl (T_expm1_main prt K X) (exp x - 1).
Proof.
  intros HK HX. unfold T_expm1_main.
  assert (HE := encl_exp prt X x HX).
  assert (Hp2 : 0 < powerRZ 2 K) by (apply powerRZ_lt; lra).
  assert (HeK := exp_ge_pow2 K ltac:(lia)).
  destruct (is_gt (I.sign_large (I.sub prt X (I.fromZ prt K)))) eqn:G1.
  - assert (H : 0 <= x - IZR K).
    { eapply sign_large_ge; [|apply is_gt_ge; exact G1]. apply encl_sub. exact HX. apply encl_fromZ. }
    assert (H2 : exp (IZR K) <= exp x) by (apply exp_le_mono; lra).
    apply encl_meet.
    + eapply encl_lower_extent. exact HE. lra.
    + eapply encl_upper_extent.
      * apply encl_mul. exact HE. apply encl_sub. apply ione_correct. apply ival2_correct.
      * rewrite pow2_neg. assert (exp x * / powerRZ 2 K >= 1).
        { apply Rle_ge. apply Rmult_le_reg_r with (powerRZ 2 K). exact Hp2.
          rewrite Rmult_assoc, Rinv_l by lra. lra. }
        lra.
  - destruct (is_gt (I.sign_large (I.sub prt (I.neg (I.fromZ prt K)) X))) eqn:G2.
    + assert (H : 0 <= - IZR K - x).
      { eapply sign_large_ge; [|apply is_gt_ge; exact G2]. apply encl_sub. apply encl_neg, encl_fromZ. exact HX. }
      assert (H2 : exp x <= / powerRZ 2 K).
      { apply Rle_trans with (exp (- IZR K)). apply exp_le_mono. lra.
        rewrite exp_Ropp. apply Rinv_le_contravar; lra. }
      generalize (exp_pos x). intros Hpos.
      apply encl_meet.
      * eapply encl_upper_extent. apply (encl_fromZ prt (-1)). lra.
      * eapply encl_lower_extent. apply encl_add. apply (encl_fromZ prt (-1)). apply ival2_correct.
        rewrite pow2_neg. lra.
    + apply encl_sub. exact HE. apply ione_correct.
Qed.

Lemma ln1p_upper_correct pra D d : -1 < d -> encl D d -> encl (ln1p_upper pra D) (ln (1 + d)).
Proof.
  intros Hd HD. unfold ln1p_upper.
  destruct (is_ge _) eqn:G; [|apply encl_whole].
  assert (H : 0 <= 2 * d + 1).
  { eapply sign_large_ge; [|exact G]. apply encl_add. apply encl_mul. apply (encl_fromZ pra 2). exact HD. apply ione_correct. }
  assert (Ha : 0 <= Rabs d) by apply Rabs_pos.
  eapply encl_lower_extent.
  - apply encl_sub. exact HD. apply encl_div.
    2: { apply encl_mul; exact HD. }
    2: { apply encl_mul. apply (encl_fromZ pra 4). apply encl_mul; (apply encl_add; [apply ione_correct|apply encl_abs; exact HD]). }
    nra.
  - apply ln1p_upper_real. lra.
Qed.

Lemma vln_correct pr slack X Y0 steps x : encl X x -> encl (vln pr slack X Y0 steps) (ln x).
Proof.
  intros HX. unfold vln.
  match goal with |- context [I.lower ?W] => set (Yw := W) end.
  destruct (F.real (I.lower Yw) && F.real (I.upper Yw) &&
            is_gt (I.sign_large (I.sub pr X (I.exp pr (pt (I.lower Yw))))) &&
            is_gt (I.sign_large (I.sub pr (I.exp pr (pt (I.upper Yw))) X))) eqn:G; [|apply encl_nai].
  rewrite !andb_true_iff in G. destruct G as [[[Ra Rb] G1] G2].
  assert (H1 : 0 <= x - exp (F.toR (I.lower Yw))).
  { eapply sign_large_ge; [|apply is_gt_ge; exact G1]. apply encl_sub. exact HX. apply encl_exp, pt_correct, Ra. }
  assert (H2 : 0 <= exp (F.toR (I.upper Yw)) - x).
  { eapply sign_large_ge; [|apply is_gt_ge; exact G2]. apply encl_sub. apply encl_exp, pt_correct, Rb. exact HX. }
  destruct (ln_bracket (F.toR (I.lower Yw)) (F.toR (I.upper Yw)) x) as [L1 L2]; try lra.
  apply encl_meet.
  - eapply encl_upper_extent. apply pt_correct, Ra. exact L1.
  - eapply encl_lower_extent. apply pt_correct, Rb. exact L2.
Qed.

Lemma T_ln_of_correct prt pra slack Xt Xa Y0 steps x :
  0 < x -> encl Xt x -> encl Xa x -> encl (T_ln_of prt pra slack Xt Xa Y0 steps) (ln x).
Proof.
  intros Hx Ht Ha. unfold T_ln_of. apply encl_meet. now apply vln_correct.
  destruct (near_one Xa); [|apply encl_whole].
  assert (HD : encl (I.sub pra Xa (ione pra)) (x - 1)) by (apply encl_sub; [exact Ha|apply ione_correct]).
  apply encl_meet.
  - replace x with (1 + (x - 1)) at 1 by ring. apply ln1p_upper_correct. lra. exact HD.
  - apply encl_meet.
    + eapply encl_lower_extent. exact HD. now apply ln_upper.
    + destruct (is_gt _); [|apply encl_whole].
      eapply encl_upper_extent. apply encl_div. 2: exact HD. 2: exact Ha. lra. now apply ln_lower.
Qed.

Section Encl2.
Variable B : Z.
Hypothesis HB : (2 <= B)%Z.

Lemma T_exp_correct prt pra s e : encl (T_exp prt pra B s e) (exp (fval B s e)).
Proof.
  unfold T_exp. set (x := fval B s e).
  assert (HX : forall pr, encl (ival pr B s e) x) by (intros; apply ival_correct; assumption).
  apply encl_meet; [apply encl_exp, HX|]. apply encl_meet.
  - eapply encl_upper_extent. apply encl_add. apply ione_correct. apply HX. apply exp_ineq1_le.
  - destruct (is_gt _) eqn:G; [|apply encl_whole].
    assert (0 < 1 - x). { eapply sign_strict_gt; [|exact G]. apply encl_sub. apply ione_correct. apply HX. }
    eapply encl_lower_extent. apply encl_inv. 2: { apply encl_sub. apply ione_correct. apply HX. } lra.
    apply exp_upper. lra.
Qed.

Lemma T_expm1_correct prt pra K s e : encl (T_expm1 prt pra K B s e) (exp (fval B s e) - 1).
Proof.
  unfold T_expm1. set (x := fval B s e).
  assert (HX : forall pr, encl (ival pr B s e) x) by (intros; apply ival_correct; assumption).
  apply encl_meet; [apply encl_meet|apply encl_meet].
  - destruct (Z.leb_spec 1 K); [|apply encl_whole]. apply T_expm1_main_correct. assumption. apply HX.
  - destruct (is_gt _) eqn:G; [|apply encl_whole].
    assert (0 <= x + 2).
    { eapply sign_large_ge; [|apply is_gt_ge; exact G]. apply encl_add. apply HX. apply (encl_fromZ pra 2). }
    eapply encl_upper_extent. apply encl_add. apply HX. apply encl_div. 2: { apply encl_mul; apply HX. }
    2: apply (encl_fromZ pra 4). lra. apply expm1_quad. lra.
  - eapply encl_upper_extent. apply HX. generalize (exp_ineq1_le x). lra.
  - destruct (is_gt _) eqn:G; [|apply encl_whole].
    assert (0 < 1 - x). { eapply sign_strict_gt; [|exact G]. apply encl_sub. apply ione_correct. apply HX. }
    eapply encl_lower_extent. apply encl_div. 2: apply HX. 2: { apply encl_sub. apply ione_correct. apply HX. } lra.
    apply expm1_upper. lra.
Qed.

Lemma T_ln_correct prt pra slack s e Y0 steps :
  0 < fval B s e -> encl (T_ln prt pra slack B s e Y0 steps) (ln (fval B s e)).
Proof. intros Hx. unfold T_ln. apply T_ln_of_correct; try assumption; apply ival_correct; assumption. Qed.

Lemma T_ln1p_correct prt pra slack s e Y0 steps :
  -1 < fval B s e -> encl (T_ln1p prt pra slack B s e Y0 steps) (ln (1 + fval B s e)).
Proof.
  intros Hx. unfold T_ln1p. set (x := fval B s e) in *.
  assert (HX : forall pr, encl (ival pr B s e) x) by (intros; apply ival_correct; assumption).
  assert (HX1 : encl (I.add pra (ione pra) (ival pra B s e)) (1 + x)) by (apply encl_add; [apply ione_correct|apply HX]).
  apply encl_meet; [apply encl_meet|apply encl_meet].
  - apply vln_correct. exact HX1.
  - apply ln1p_upper_correct. exact Hx. apply HX.
  - eapply encl_lower_extent. apply HX. generalize (ln_upper (1 + x)). lra.
  - destruct (is_gt _); [|apply encl_whole].
    eapply encl_upper_extent. apply encl_div. 2: apply HX. 2: exact HX1. lra.
    generalize (ln_lower (1 + x)). intros H. replace ((1 + x - 1) / (1 + x)) with (x / (1 + x)) in H by (field; lra). apply H. lra.
Qed.

Lemma fval_neq0 s e : s <> 0%Z -> fval B s e <> 0.
Proof.
  intros Hs. unfold fval. apply Rmult_integral_contrapositive_currified.
  now apply not_0_IZR. generalize (bpw_pos B HB e). unfold bpw. lra.
Qed.

Lemma fval_pos s e : (0 < s)%Z -> 0 < fval B s e.
Proof. intros Hs. unfold fval. apply Rmult_lt_0_compat. now apply IZR_lt. apply (bpw_pos B HB e). Qed.

Lemma T_powi_correct pra s e n : s <> 0%Z -> encl (T_powi pra B s e n) (powerRZ (fval B s e) n).
Proof.
  intros Hs. unfold T_powi, encl. rewrite <- Xpower_int_real by now apply fval_neq0.
  apply (I.power_int_correct pra n _ (Xreal (fval B s e))). apply ival_correct. assumption.
Qed.

Lemma T_powf_correct prt pra slack s e ys ye Y0 steps :
  (0 < s)%Z -> encl (T_powf prt pra slack B s e ys ye Y0 steps) (Rpower (fval B s e) (fval B ys ye)).
Proof.
  intros Hs. unfold T_powf, Rpower. apply encl_exp. apply encl_mul. apply ival_correct; assumption.
  apply T_ln_correct. now apply fval_pos.
Qed.

End Encl2.

Section Checkers.
Variable B : Z.
Hypothesis HB : (2 <= B)%Z.

(** what a verdict certifies about the answer r for the true value t *)
Definition Sound (p : Z) (t r : R) (fexact : bool) (v : verdict) : Prop :=
  match v with
  | VAccept => Accepted B p t r fexact
  | VReject => Rejected B p t r fexact
  | VUndecided => True
  end.

Lemma decide_encl_sound pr p T t rs re fexact :
  encl T t -> Sound p t (fval B rs re) fexact (decide_encl pr B p T (ival pr B rs re) fexact).
Proof.
  intros Ht. unfold Sound. destruct (decide_encl _ _ _ _ _ _) eqn:D; auto.
  eapply decide_encl_accept; eauto. eapply decide_encl_reject; eauto.
Qed.

Lemma decide_exact_sound p ts te rs re fexact t :
  t = fval B ts te -> Sound p t (fval B rs re) fexact (decide_exact B p ts te rs re fexact).
Proof.
  intros ->. unfold Sound. destruct (decide_exact _ _ _ _ _ _ _) eqn:D; auto.
  eapply decide_exact_accept; eauto. eapply decide_exact_reject; eauto.
Qed.

Lemma reject_exact p t r : r <> t -> Rejected B p t r true.
Proof. intros H. right. auto. Qed.

Lemma fval_0' e : fval B 0 e = 0.
Proof. apply fval_0. Qed.

Theorem check_exp_sound prt pra p s e rs re fexact :
  Sound p (exp (fval B s e)) (fval B rs re) fexact (check_exp prt pra B p s e rs re fexact).
Proof.
  unfold check_exp. destruct (Z.eqb_spec s 0) as [->|Hs].
  - apply decide_exact_sound. rewrite fval_0, exp_0. symmetry. apply fval_1_0.
  - destruct (fexact && feq B rs re 1 0) eqn:Q.
    + apply andb_true_iff in Q. destruct Q as [-> Q]. apply (feq_correct B HB) in Q.
      apply reject_exact. rewrite Q, fval_1_0. intros H. rewrite <- exp_0 in H. apply exp_inv in H.
      symmetry in H. now apply (fval_neq0 B HB s e).
    + apply decide_encl_sound. now apply T_exp_correct.
Qed.

Lemma pow_B_real p : (0 <= p)%Z -> IZR (B ^ p) = bpw B p.
Proof. intros. symmetry. now apply bpw_nonneg_Z. Qed.

Lemma bpw_neg p : bpw B (- p) = / bpw B p.
Proof. unfold bpw. rewrite powerRZ_neg, powerRZ_inv by (apply IZRB_neq0; assumption). reflexivity. Qed.

Lemma expm1_neg_rule_sound K p s e rs re :
  expm1_neg_rule K B p s e rs re = true -> ok1ulp B p (exp (fval B s e) - 1) (fval B rs re).
Proof.
  unfold expm1_neg_rule. rewrite !andb_true_iff.
  intros [[[[[HK Hp] Hlt] Hx] Hr1] Hr2].
  apply Z.leb_le in HK, Hp. apply Z.ltb_lt in Hlt.
  apply (fle_correct B HB) in Hx, Hr1, Hr2.
  set (x := fval B s e) in *. set (r := fval B rs re) in *.
  assert (Hx' : x <= - IZR K). { revert Hx. unfold fval. simpl powerRZ. rewrite opp_IZR. lra. }
  assert (Hr1' : -1 <= r). { revert Hr1. unfold fval. simpl powerRZ. lra. }
  assert (Hbp : 0 < bpw B p) by now apply bpw_pos.
  assert (Hr2' : r <= / bpw B p - 1).
  { revert Hr2. unfold fval. fold (bpw B (- p)). rewrite minus_IZR, pow_B_real, bpw_neg by assumption.
    intros H. replace (/ bpw B p - 1) with ((1 - bpw B p) * / bpw B p) by (field; lra). exact H. }
  assert (H2K : bpw B p < powerRZ 2 K).
  { rewrite <- pow_B_real by assumption. replace (powerRZ 2 K) with (IZR (2 ^ K)). now apply IZR_lt.
    rewrite <- (Z2Nat.id K) by lia. rewrite <- pow_IZR, pow_powerRZ. reflexivity. }
  assert (He : exp x <= / powerRZ 2 K).
  { apply Rle_trans with (exp (- IZR K)). now apply exp_le_mono.
    rewrite exp_Ropp. apply Rinv_le_contravar. lra. apply exp_ge_pow2. lia. }
  assert (Hinv : / powerRZ 2 K < / bpw B p) by (apply Rinv_lt_contravar; nra).
  assert (Hhalf : / powerRZ 2 K <= / 2).
  { apply Rinv_le_contravar. lra. replace 2 with (powerRZ 2 1) at 1 by (simpl; lra).
    rewrite <- !bpow_powerRZ with (r := radix2). apply bpow_le. lia. }
  generalize (exp_pos x). intros Hpos.
  right. exists (-1)%Z. split.
  - change (-1)%Z with (- (1))%Z. rewrite bpw_neg. rewrite Rabs_left1 by lra.
    apply Rle_trans with (/ 2). 2: lra. apply Rinv_le_contravar. lra.
    unfold bpw. simpl. apply IZR_le in HB. lra.
  - replace (-1 - p + 1)%Z with (- p)%Z by lia. rewrite bpw_neg.
    apply Rabs_def1; lra.
Qed.

Theorem check_expm1_sound prt pra p s e rs re fexact :
  Sound p (exp (fval B s e) - 1) (fval B rs re) fexact (check_expm1 prt pra B p s e rs re fexact).
Proof.
  unfold check_expm1. destruct (Z.eqb_spec s 0) as [->|Hs].
  - apply decide_exact_sound. rewrite !fval_0, exp_0. lra.
  - destruct (fexact && feq B rs re s e) eqn:Q.
    + apply andb_true_iff in Q. destruct Q as [-> Q]. apply (feq_correct B HB) in Q.
      apply reject_exact. rewrite Q. generalize (exp_ineq1 (fval B s e) (fval_neq0 B HB s e Hs)). lra.
    + destruct (negb fexact && expm1_neg_rule (Z.pos prt) B p s e rs re) eqn:N.
      * apply andb_true_iff in N. destruct N as [N1 N2]. apply negb_true_iff in N1. subst fexact.
        split. now apply expm1_neg_rule_sound with (K := Z.pos prt). discriminate.
      * apply decide_encl_sound. now apply T_expm1_correct.
Qed.

Theorem check_ln_sound prt pra slack fr steps p s e rs re fexact :
  Sound p (ln (fval B s e)) (fval B rs re) fexact (check_ln prt pra slack fr steps B p s e rs re fexact).
Proof.
  unfold check_ln. destruct (Z.leb_spec s 0) as [Hs|Hs]; [exact I|].
  assert (Hx := fval_pos B HB s e Hs).
  destruct (feq B s e 1 0) eqn:Q1.
  - apply (feq_correct B HB) in Q1. apply decide_exact_sound. rewrite Q1, fval_1_0, ln_1. symmetry. apply fval_0.
  - destruct (fexact && (rs =? 0)%Z) eqn:Q.
    + apply andb_true_iff in Q. destruct Q as [-> Q]. apply Z.eqb_eq in Q. subst rs.
      apply reject_exact. rewrite fval_0. intros H.
      assert (E : fval B s e = 1). { rewrite <- (exp_ln (fval B s e)) by assumption. rewrite <- H. apply exp_0. }
      rewrite <- fval_1_0 with (B := B) in E. apply (feq_correct B HB) in E. congruence.
    + apply decide_encl_sound. now apply T_ln_correct.
Qed.

Theorem check_ln1p_sound prt pra slack fr steps p s e rs re fexact :
  -1 < fval B s e ->
  Sound p (ln (1 + fval B s e)) (fval B rs re) fexact (check_ln1p prt pra slack fr steps B p s e rs re fexact).
Proof.
  intros Hx. unfold check_ln1p. destruct (Z.eqb_spec s 0) as [->|Hs].
  - apply decide_exact_sound. rewrite !fval_0, Rplus_0_r, ln_1. reflexivity.
  - destruct (fexact && feq B rs re s e) eqn:Q.
    + apply andb_true_iff in Q. destruct Q as [-> Q]. apply (feq_correct B HB) in Q.
      apply reject_exact. rewrite Q. intros H.
      generalize (exp_ineq1 (fval B s e) (fval_neq0 B HB s e Hs)). rewrite H at 2. rewrite exp_ln; lra.
    + apply decide_encl_sound. now apply T_ln1p_correct.
Qed.

(** powers of floats *)
Lemma IZR_pow_nonneg a n : (0 <= n)%Z -> IZR (a ^ n) = powerRZ (IZR a) n.
Proof. intros Hn. rewrite <- (Z2Nat.id n Hn). rewrite <- pow_IZR, pow_powerRZ. reflexivity. Qed.

Lemma bpw_mul e n : bpw B (e * n) = powerRZ (bpw B e) n.
Proof.
  unfold bpw. assert (HB0 : 0 < IZR B) by (apply IZR_lt; lia).
  assert (Hp : 0 < powerRZ (IZR B) e) by now apply powerRZ_lt.
  rewrite !powerRZ_Rpower by assumption. rewrite Rpower_mult, mult_IZR. reflexivity.
Qed.

Lemma fval_pow s e n : (0 <= n)%Z -> fval B (s ^ n) (e * n) = powerRZ (fval B s e) n.
Proof.
  intros Hn. unfold fval. fold (bpw B (e * n)) (bpw B e).
  rewrite powerRZ_mult_distr by now left. rewrite IZR_pow_nonneg, bpw_mul by assumption. reflexivity.
Qed.

Lemma fval_pow_unit s e n : Z.abs s = 1%Z -> fval B (s ^ Z.abs n) (e * n) = powerRZ (fval B s e) n.
Proof.
  intros Hs. assert (Hx : fval B s e <> 0) by (apply (fval_neq0 B HB); lia).
  destruct (Z.le_gt_cases 0 n) as [Hn|Hn].
  - rewrite Z.abs_eq by assumption. now apply fval_pow.
  - rewrite Z.abs_neq by lia.
    assert (E : powerRZ (fval B s e) n = / powerRZ (fval B s e) (- n)).
    { rewrite <- (Z.opp_involutive n) at 1. rewrite powerRZ_neg, powerRZ_inv by assumption. reflexivity. }
    rewrite E, <- fval_pow by lia.
    assert (Hu : (IZR (s ^ (- n)) * IZR (s ^ (- n)) = 1)%R).
    { rewrite <- mult_IZR, <- Z.pow_mul_l. replace (s * s)%Z with 1%Z by nia. now rewrite Z.pow_1_l by lia. }
    unfold fval. fold (bpw B (e * n)) (bpw B (e * - n)).
    replace (e * n)%Z with (- (e * - n))%Z by lia. rewrite bpw_neg.
    assert (Hp := bpw_pos B HB (e * - n)).
    assert (Hs0 : IZR (s ^ (- n)) <> 0) by (intros H0; rewrite H0 in Hu; lra).
    apply Rmult_eq_reg_r with (IZR (s ^ (- n)) * bpw B (e * - n))%R.
    2: { apply Rmult_integral_contrapositive_currified; lra. }
    rewrite Rinv_l. 2: { apply Rmult_integral_contrapositive_currified; lra. }
    field_simplify; [|lra]. nra.
Qed.

Theorem check_powi_sound pra ok p s e n rs re fexact :
  (s <> 0 \/ 0 <= n)%Z ->
  Sound p (powerRZ (fval B s e) n) (fval B rs re) fexact (check_powi pra ok B p s e n rs re fexact).
Proof.
  intros Hdom. unfold check_powi. destruct (Z.eqb_spec n 0) as [->|Hn].
  - apply decide_exact_sound. simpl. symmetry. apply fval_1_0.
  - destruct (Z.eqb_spec s 0) as [->|Hs].
    + destruct (Z.ltb_spec 0 n) as [Hp|Hp]; [|exact I].
      apply decide_exact_sound. rewrite !fval_0. destruct n; try lia. simpl. apply pow_i. lia.
    + assert (Hx := fval_neq0 B HB s e Hs).
      destruct (ok && (0 <? n)%Z) eqn:Q1.
      { apply andb_true_iff in Q1. destruct Q1 as [_ Q1]. apply Z.ltb_lt in Q1.
        apply decide_exact_sound. symmetry. apply fval_pow. lia. }
      destruct (Z.eqb_spec (Z.abs s) 1) as [Hs1|Hs1].
      { apply decide_exact_sound. symmetry. apply fval_pow_unit. exact Hs1. }
      destruct (ok && feq B (rs * s ^ (- n)) (re + e * - n) 1 0) eqn:Q2.
      { apply andb_true_iff in Q2. destruct Q2 as [Hok Q2]. rewrite Hok in Q1. simpl in Q1.
        apply Z.ltb_ge in Q1. apply (feq_correct B HB) in Q2. rewrite fval_1_0 in Q2.
        assert (E : fval B rs re * powerRZ (fval B s e) (- n) = 1).
        { rewrite <- Q2, <- fval_pow by lia. unfold fval. rewrite mult_IZR.
          fold (bpw B (re + e * - n)) (bpw B re) (bpw B (e * - n)). rewrite (bpw_add B HB). ring. }
        assert (Er : fval B rs re = powerRZ (fval B s e) n).
        { rewrite powerRZ_neg, powerRZ_inv in E by assumption.
          assert (powerRZ (fval B s e) n <> 0) by now apply powerRZ_NOR.
          apply Rmult_eq_reg_r with (/ powerRZ (fval B s e) n). rewrite E. field. assumption.
          now apply Rinv_neq_0_compat. }
        split. now left. auto. }
      destruct (ok && fexact) eqn:Q3.
      { apply andb_true_iff in Q3. destruct Q3 as [Hok ->]. rewrite Hok in Q1, Q2. simpl in Q1, Q2.
        apply Z.ltb_ge in Q1. apply reject_exact. intros Er.
        assert (feq B (rs * s ^ (- n)) (re + e * - n) 1 0 = true); [|congruence].
        apply (feq_correct B HB). rewrite fval_1_0.
        transitivity (fval B rs re * powerRZ (fval B s e) (- n)).
        { rewrite <- fval_pow by lia. unfold fval. rewrite mult_IZR.
          fold (bpw B (re + e * - n)) (bpw B re) (bpw B (e * - n)). rewrite (bpw_add B HB). ring. }
        rewrite Er, powerRZ_neg, powerRZ_inv by assumption. field. now apply powerRZ_NOR. }
      apply decide_encl_sound. now apply T_powi_correct.
Qed.

Theorem check_powf_sound prt pra slack steps ok p s e ys ye rs re fexact :
  (0 < s)%Z ->
  Sound p (Rpower (fval B s e) (fval B ys ye)) (fval B rs re) fexact
        (check_powf prt pra slack steps ok B p s e ys ye rs re fexact).
Proof.
  intros Hs. assert (Hx := fval_pos B HB s e Hs). unfold check_powf.
  destruct (Z.eqb_spec ys 0) as [->|Hy].
  - apply decide_exact_sound. rewrite fval_0, Rpower_O by assumption. symmetry. apply fval_1_0.
  - destruct ((0 <=? ye)%Z && (ye <=? 64)%Z) eqn:Q.
    + apply andb_true_iff in Q. destruct Q as [Q _]. apply Z.leb_le in Q.
      replace (fval B ys ye) with (IZR (ys * B ^ ye)).
      * rewrite <- powerRZ_Rpower by assumption. apply check_powi_sound. left. lia.
      * rewrite mult_IZR, pow_B_real by assumption. reflexivity.
    + destruct (Z.ltb_spec s 0); [lia|]. destruct (Z.eqb_spec s 0); [lia|].
      destruct (feq B s e 1 0) eqn:Q1.
      * apply (feq_correct B HB) in Q1. apply decide_exact_sound. rewrite Q1, fval_1_0.
        unfold Rpower. rewrite ln_1, Rmult_0_r, exp_0. reflexivity.
      * apply decide_encl_sound. now apply T_powf_correct.
Qed.

End Checkers.
