(** C08 (round 4): Context::convert_base as it is after the repairs 344196e and F10
    ([ConvBaseModel4.convert_base_asis4]) against ONE specification of a base change
    ([convert_base_spec]: the p-digit float of the target base that the mode names for the exact value
    s * B^e, in normal form, flagged Exact iff nothing was lost):

      every route that needs no logarithm - same base, target a power of the source, source a power of
      the target, 0 <= e <= 38 (exact power), -38 <= e < 0 (padded exact division, rounded once),
      and since F10 |e| > 38 between bases with a common root - returns exactly the specification;
      the ln/exp route is left only for |e| > 38 between bases WITHOUT a common root.

    Also: utils.rs common_root (Euclid on the exponents) is sound and complete and ends within its fuel;
    the repaired model agrees with the round-1 model wherever the code did not change. *)
From Dashu Require Import Base.Prelude Float.RoundSpec Float.RoundSpecProof Float.Contract Float.Model Float.ModelProof
  Float.AddModelProof Float.ParseProof Float.NormalProof Int.IoSpec Float.TextIoSpec Float.TextIoModel Float.BaseConvProof
  Conv.ConvSpec Conv.ConvModel Conv.ConvRatToFbig Conv.ConvDivRoute Float.ConvBaseModel4 Float.ConvValueSpecProof.
From DashuGen Require Import RoundTables.
Open Scope Z_scope.

(* ------------------------------------------------------------------------------------------ *)
(** * utils.rs common_root *)

Lemma pow_ge_2 g k : 2 <= g -> 1 <= k -> 2 <= g ^ k.
Proof.
  intros Hg Hk. replace k with (1 + (k - 1)) by lia. rewrite Z.pow_add_r, Z.pow_1_r by lia.
  pose proof (Z.pow_pos_nonneg g (k - 1) ltac:(lia) ltac:(lia)). nia.
Qed.

(** soundness: a returned root is a common root *)
Lemma common_root_loop_sound fuel : forall u v g, 2 <= u -> 2 <= v -> common_root_loop fuel u v = Ok (Some g) ->
  2 <= g /\ exists i j, 1 <= i /\ 1 <= j /\ u = g ^ i /\ v = g ^ j.
Proof.
  induction fuel as [|f IH]; intros u v g Hu Hv E; [discriminate|]. cbn [common_root_loop] in E.
  destruct (Z.eqb_spec u v) as [->|Hne].
  - injection E as <-. split; [exact Hv|]. exists 1, 1. rewrite Z.pow_1_r. repeat split; lia.
  - assert (Step : forall a b, 2 <= b -> b < a -> (if negb (a mod b =? 0) then Ok None else common_root_loop f (a / b) b) = Ok (Some g) ->
                   2 <= g /\ exists i j, 1 <= i /\ 1 <= j /\ a = g ^ i /\ b = g ^ j).
    { intros a b Hb Hab E'. destruct (Z.eqb_spec (a mod b) 0) as [Hm|Hm]; cbn [negb] in E'; [|discriminate].
      pose proof (Z.div_mod a b ltac:(lia)) as Dm. rewrite Hm, Z.add_0_r in Dm.
      assert (2 <= a / b) by nia.
      destruct (IH (a / b) b g ltac:(lia) Hb E') as (Hg & i & j & Hi & Hj & Ei & Ej).
      split; [exact Hg|]. exists (j + i), j. repeat split; try lia.
      rewrite Z.pow_add_r by lia. rewrite <- Ei, <- Ej. exact Dm. }
    destruct (Z.ltb_spec u v) as [L|L].
    + destruct (Step v u Hu L E) as (Hg & i & j & Hi & Hj & Ei & Ej). split; [exact Hg|]. exists j, i. auto.
    + apply (Step u v Hv ltac:(lia) E).
Qed.

(** the loop ends: the product of the operands at least halves in every step *)
Lemma common_root_loop_fuel fuel : forall u v, 2 <= u -> 2 <= v -> u * v < 2 ^ Z.of_nat fuel ->
  common_root_loop fuel u v <> OutOfFuel.
Proof.
  induction fuel as [|f IH]; intros u v Hu Hv Hb.
  - cbn in Hb. nia.
  - cbn [common_root_loop]. destruct (Z.eqb_spec u v); [discriminate|].
    rewrite Nat2Z.inj_succ, Z.pow_succ_r in Hb by lia.
    assert (Step : forall a b, 2 <= b -> b < a -> a * b < 2 * 2 ^ Z.of_nat f ->
                   (if negb (a mod b =? 0) then Ok None else common_root_loop f (a / b) b) <> OutOfFuel).
    { intros a b Hb' Hab Hp. destruct (Z.eqb_spec (a mod b) 0) as [Hm|Hm]; cbn [negb]; [|discriminate].
      pose proof (Z.div_mod a b ltac:(lia)) as Dm. rewrite Hm, Z.add_0_r in Dm.
      assert (2 <= a / b) by nia. apply IH; [lia | lia|].
      assert (a / b * b = a) by lia. nia. }
    destruct (Z.ltb_spec u v); apply Step; lia.
Qed.

(** completeness: powers of a common integer are recognised *)
Lemma common_root_loop_complete fuel : forall r i j, 2 <= r -> 1 <= i -> 1 <= j -> i + j <= Z.of_nat fuel ->
  exists g, common_root_loop fuel (r ^ i) (r ^ j) = Ok (Some g).
Proof.
  induction fuel as [|f IH]; intros r i j Hr Hi Hj Hf; [lia|]. cbn [common_root_loop].
  rewrite Nat2Z.inj_succ in Hf.
  destruct (Z.eqb_spec (r ^ i) (r ^ j)) as [E|E]; [eexists; reflexivity|].
  assert (Hij : i <> j) by (intros ->; apply E; reflexivity).
  assert (Step : forall a b, 1 <= b -> b < a -> a + b <= Z.succ (Z.of_nat f) ->
                 exists g, (if negb (r ^ a mod r ^ b =? 0) then Ok None else common_root_loop f (r ^ a / r ^ b) (r ^ b)) = Ok (Some g)).
  { intros a b Hb Hab Hs.
    assert (Ea : r ^ a = r ^ (a - b) * r ^ b) by (rewrite <- Z.pow_add_r by lia; f_equal; lia).
    assert (Pb : 0 < r ^ b) by (apply Z.pow_pos_nonneg; lia).
    rewrite Ea, Z.mod_mul, Z.div_mul by lia. cbn [Z.eqb negb]. apply IH; lia. }
  destruct (Z.ltb_spec (r ^ i) (r ^ j)) as [L|L].
  - apply Step; try lia. apply (Z.pow_lt_mono_r_iff r); lia.
  - apply Step; try lia. assert (r ^ j < r ^ i) by lia. apply (Z.pow_lt_mono_r_iff r); lia.
Qed.

(** ilog_exact recognises every power that fits a 64-bit word *)
Lemma ilog_exact_fuel_complete fuel : forall b i k, 2 <= b -> 1 <= k <= i -> i - k < Z.of_nat fuel ->
  ilog_exact_fuel fuel (b ^ i) b (b ^ k) k = i.
Proof.
  induction fuel as [|f IH]; intros b i k Hb Hk Hf; [lia|]. cbn [ilog_exact_fuel].
  rewrite Nat2Z.inj_succ in Hf.
  destruct (Z.ltb_spec (b ^ k) (b ^ i)) as [L|L].
  - assert (k < i) by (apply (Z.pow_lt_mono_r_iff b); lia).
    replace (b ^ k * b) with (b ^ (k + 1)) by (rewrite Z.pow_add_r, Z.pow_1_r by lia; reflexivity).
    apply IH; lia.
  - assert (i <= k) by (apply (Z.pow_le_mono_r_iff b); lia).
    assert (k = i) by lia. subst k. rewrite Z.eqb_refl. reflexivity.
Qed.

Lemma ilog_exact_complete b i : 2 <= b -> 1 <= i -> b ^ i < 2 ^ 64 -> ilog_exact (b ^ i) b = i.
Proof.
  intros Hb Hi Hlt. unfold ilog_exact.
  assert (b <= b ^ i).
  { replace i with (1 + (i - 1)) by lia. rewrite Z.pow_add_r, Z.pow_1_r by lia.
    pose proof (Z.pow_pos_nonneg b (i - 1) ltac:(lia) ltac:(lia)). nia. }
  destruct (Z.ltb_spec (b ^ i) b); [lia|].
  assert (i <= 64).
  { destruct (Z.le_gt_cases i 64) as [|G]; [assumption|exfalso].
    assert (2 ^ 64 <= b ^ 64) by (apply Z.pow_le_mono_l; lia).
    assert (b ^ 64 <= b ^ i) by (apply Z.pow_le_mono_r; lia). lia. }
  rewrite <- (Z.pow_1_r b) at 3. apply ilog_exact_fuel_complete; [lia | lia | cbn; lia].
Qed.

Lemma common_root_loop_shape fuel : forall u v, (exists o, common_root_loop fuel u v = Ok o) \/ common_root_loop fuel u v = OutOfFuel.
Proof.
  induction fuel as [|f IH]; intros u v; [right; reflexivity|]. cbn [common_root_loop].
  destruct (u =? v); [left; eexists; reflexivity|].
  destruct (u <? v).
  - destruct (negb (v mod u =? 0)); [left; eexists; reflexivity | apply IH].
  - destruct (negb (u mod v =? 0)); [left; eexists; reflexivity | apply IH].
Qed.

Lemma common_root_shape x y : (exists o, common_root x y = Ok o) \/ common_root x y = OutOfFuel.
Proof.
  unfold common_root. destruct ((x <? 2) || (y <? 2)); [left; eexists; reflexivity|].
  destruct (common_root_loop_shape common_root_fuel x y) as [[o E]|E]; rewrite E; cbn [rbind]; [left; eexists; reflexivity | right; reflexivity].
Qed.

(** common_root never runs out of fuel on Word operands, and what it returns is a common root with the
    two exponents *)
Theorem common_root_total x y : x < 2 ^ 64 -> y < 2 ^ 64 -> common_root x y <> OutOfFuel.
Proof.
  intros Hx Hy. unfold common_root. destruct (Z.ltb_spec x 2); [discriminate|]. destruct (Z.ltb_spec y 2); [discriminate|].
  cbn [orb]. pose proof (common_root_loop_fuel common_root_fuel x y ltac:(lia) ltac:(lia)) as F.
  assert (Hb : x * y < 2 ^ Z.of_nat common_root_fuel).
  { change (2 ^ Z.of_nat common_root_fuel) with (2 ^ 64 * 2 ^ 64). nia. }
  specialize (F Hb). destruct (common_root_loop common_root_fuel x y); try discriminate. contradiction.
Qed.

Theorem common_root_sound x y r a b : x < 2 ^ 64 -> y < 2 ^ 64 -> common_root x y = Ok (Some (r, a, b)) ->
  2 <= r /\ 1 <= a /\ 1 <= b /\ x = r ^ a /\ y = r ^ b.
Proof.
  intros Hx Hy. unfold common_root. destruct (Z.ltb_spec x 2); [discriminate|]. destruct (Z.ltb_spec y 2); [discriminate|].
  cbn [orb]. destruct (common_root_loop common_root_fuel x y) as [[g|]| | |] eqn:EL; cbn [rbind]; try discriminate.
  intros E. injection E as <- <- <-.
  destruct (common_root_loop_sound _ x y g ltac:(lia) ltac:(lia) EL) as (Hg & i & j & Hi & Hj & Ei & Ej).
  subst x y.
  rewrite (ilog_exact_complete g i Hg Hi ltac:(lia)), (ilog_exact_complete g j Hg Hj ltac:(lia)). repeat split; lia.
Qed.

Theorem common_root_complete r i j : 2 <= r -> 1 <= i -> 1 <= j -> r ^ i < 2 ^ 64 -> r ^ j < 2 ^ 64 ->
  exists g a b, common_root (r ^ i) (r ^ j) = Ok (Some (g, a, b)).
Proof.
  intros Hr Hi Hj Hx Hy. unfold common_root.
  pose proof (pow_ge_2 r i Hr Hi). pose proof (pow_ge_2 r j Hr Hj).
  destruct (Z.ltb_spec (r ^ i) 2); [lia|]. destruct (Z.ltb_spec (r ^ j) 2); [lia|]. cbn [orb].
  assert (K64 : forall k, 1 <= k -> r ^ k < 2 ^ 64 -> k <= 64).
  { intros k Hk Hlt. destruct (Z.le_gt_cases k 64) as [|G]; [assumption|exfalso].
    assert (2 ^ 64 <= r ^ 64) by (apply Z.pow_le_mono_l; lia).
    assert (r ^ 64 <= r ^ k) by (apply Z.pow_le_mono_r; lia). lia. }
  destruct (common_root_loop_complete common_root_fuel r i j Hr Hi Hj) as [g Eg].
  { change (Z.of_nat common_root_fuel) with 128. pose proof (K64 i Hi Hx). pose proof (K64 j Hj Hy). lia. }
  rewrite Eg. cbn [rbind]. eexists _, _, _. reflexivity.
Qed.

(* ------------------------------------------------------------------------------------------ *)
(** * values as fractions *)

Lemma value_frac_root g a s e : 2 <= g -> 1 <= a -> value_frac (g ^ a) s e = value_frac g s (a * e).
Proof.
  intros Hg Ha. unfold value_frac. destruct (Z.leb_spec 0 e); destruct (Z.leb_spec 0 (a * e)); try nia.
  - rewrite <- Z.pow_mul_r by lia. reflexivity.
  - rewrite <- Z.pow_mul_r by lia. do 2 f_equal. ring.
Qed.

(** moving digits between significand and exponent does not change the value *)
Lemma value_frac_shift g s x r : 2 <= g -> 0 <= r ->
  fst (value_frac g (s * g ^ r) x) * snd (value_frac g s (x + r)) = fst (value_frac g s (x + r)) * snd (value_frac g (s * g ^ r) x).
Proof.
  intros Hg Hr. unfold value_frac. destruct (Z.leb_spec 0 x); destruct (Z.leb_spec 0 (x + r)); cbn [fst snd]; try lia.
  - rewrite (Z.pow_add_r g x r) by lia. ring.
  - replace r with (x + r + - x) at 1 by lia. rewrite (Z.pow_add_r g (x + r) (- x)) by lia. ring.
  - replace (- x) with (r + - (x + r)) by lia. rewrite Z.pow_add_r by lia. ring.
Qed.

Section Routes.
Variable NB : Z.
Hypothesis NB_ge_2 : 2 <= NB.
Local Notation pw := (Bpow_pos NB NB_ge_2).

Lemma normalize_idem s e : normalize NB (fst (normalize NB s e)) (snd (normalize NB s e)) = normalize NB s e.
Proof.
  pose proof (normalize_spec NB NB_ge_2 s e) as N. destruct (normalize NB s e) as [s' e']. cbn [fst snd].
  destruct N as [N0 N1]. destruct (Z.eq_dec s 0) as [Hs|Hs].
  - destruct (N0 Hs) as [-> ->]. reflexivity.
  - destruct (N1 Hs) as (Hs' & Hm & _). apply (normalize_id NB NB_ge_2). unfold LongModel.is_normal.
    destruct (Z.eqb_spec s' 0); [contradiction|]. destruct (Z.eqb_spec (s' mod NB) 0); [contradiction | reflexivity].
Qed.

(** shifting the value by a power of the base shifts the exponent of the specification *)
Lemma rat_spec_shift_num p m N D z : N <> 0 -> 0 < D -> 0 <= z ->
  rat_to_fbig_spec NB p m (N * NB ^ z) D = (let '(M, u, c) := rat_to_fbig_spec NB p m N D in (M, u + z, c)).
Proof.
  intros HN HD Hz. pose proof (pw z Hz) as Pz. unfold rat_to_fbig_spec.
  destruct (Z.eqb_spec N 0); [contradiction|]. destruct (Z.eqb_spec (N * NB ^ z) 0); [nia|].
  assert (Ee : rat_exp NB (N * NB ^ z) D = rat_exp NB N D + z).
  { destruct (rat_exp_bounds NB NB_ge_2 N D HN HD) as (j & Hj & Hej & L & U). cbv zeta in *.
    set (e := rat_exp NB N D) in *.
    apply (rat_exp_unique NB NB_ge_2 _ D (e + z) j); [nia | exact HD | exact Hj | lia|].
    rewrite Z.abs_mul, (Z.abs_eq (NB ^ z)) by lia.
    replace (e + z + j) with (e + j + z) by lia. replace (e + z + 1 + j) with (e + 1 + j + z) by lia.
    rewrite (Z.pow_add_r NB (e + j) z), (Z.pow_add_r NB (e + 1 + j) z) by lia.
    set (X := NB ^ (e + j)) in *. set (Y := NB ^ j) in *. set (Z1 := NB ^ (e + 1 + j)) in *. set (a := Z.abs N) in *.
    clearbody X Y Z1 a. clear - L U Pz. split.
    - replace (D * (X * NB ^ z)) with (D * X * NB ^ z) by ring. replace (a * NB ^ z * Y) with (a * Y * NB ^ z) by ring.
      apply Z.mul_le_mono_nonneg_r; lia.
    - replace (D * (Z1 * NB ^ z)) with (D * Z1 * NB ^ z) by ring. replace (a * NB ^ z * Y) with (a * Y * NB ^ z) by ring.
      apply Z.mul_lt_mono_pos_r; lia. }
  rewrite Ee. cbv beta iota. set (u := rat_exp NB N D - p + 1). replace (rat_exp NB N D + z - p + 1) with (u + z) by (unfold u; lia).
  set (ex := Z.max u 0). set (sh := Z.max (- u) 0).
  assert (Eu : u = ex - sh) by (unfold ex, sh; lia).
  assert (Hex : 0 <= ex) by (unfold ex; lia). assert (Hsh : 0 <= sh) by (unfold sh; lia).
  pose proof (pw ex Hex) as Pex. pose proof (pw sh Hsh) as Psh. pose proof (pw (ex + z) ltac:(lia)) as Pexz.
  assert (ER : round_rat_at NB m (N * NB ^ z) D (u + z) = round_rat_at NB m N D u).
  { destruct (round_at_scaled NB NB_ge_2 m (N * NB ^ z) D sh (ex + z) 0 HD Hsh ltac:(lia)) as [R1 _].
    replace (ex + z - sh) with (u + z) in R1 by lia.
    destruct (round_at_scaled NB NB_ge_2 m N D sh ex 0 HD Hsh Hex) as [R2 _]. replace (ex - sh) with u in R2 by lia.
    rewrite R1, R2. apply (spec_round_ratio); [nia | nia|].
    rewrite (Z.pow_add_r NB ex z) by lia. ring. }
  rewrite ER. set (M := round_rat_at NB m N D u).
  destruct (round_at_scaled NB NB_ge_2 m (N * NB ^ z) D sh (ex + z) M HD Hsh ltac:(lia)) as [_ C1].
  replace (ex + z - sh) with (u + z) in C1 by lia.
  destruct (round_at_scaled NB NB_ge_2 m N D sh ex M HD Hsh Hex) as [_ C2]. replace (ex - sh) with u in C2 by lia.
  rewrite C1, C2. f_equal.
  apply (cmp_ratio _ _ _ _ 1 (NB ^ z)); [lia | lia | |].
  - rewrite (Z.pow_add_r NB ex z) by lia. ring.
  - ring.
Qed.

Lemma rat_spec_shift_den p m N D w : N <> 0 -> 0 < D -> 0 <= w ->
  rat_to_fbig_spec NB p m N (D * NB ^ w) = (let '(M, u, c) := rat_to_fbig_spec NB p m N D in (M, u - w, c)).
Proof.
  intros HN HD Hw. pose proof (pw w Hw) as Pw. unfold rat_to_fbig_spec.
  destruct (Z.eqb_spec N 0); [contradiction|].
  assert (HDw : 0 < D * NB ^ w) by nia.
  assert (Ee : rat_exp NB N (D * NB ^ w) = rat_exp NB N D - w).
  { destruct (rat_exp_bounds NB NB_ge_2 N D HN HD) as (j & Hj & Hej & L & U). cbv zeta in *.
    set (e := rat_exp NB N D) in *.
    apply (rat_exp_unique NB NB_ge_2 N _ (e - w) (j + w)); [exact HN | exact HDw | lia | lia|].
    replace (e - w + (j + w)) with (e + j) by lia. replace (e - w + 1 + (j + w)) with (e + 1 + j) by lia.
    rewrite (Z.pow_add_r NB j w) by lia.
    set (X := NB ^ (e + j)) in *. set (Y := NB ^ j) in *. set (Z1 := NB ^ (e + 1 + j)) in *. set (a := Z.abs N) in *.
    clearbody X Y Z1 a. clear - L U Pw. split.
    - replace (D * NB ^ w * X) with (D * X * NB ^ w) by ring. replace (a * (Y * NB ^ w)) with (a * Y * NB ^ w) by ring.
      apply Z.mul_le_mono_nonneg_r; lia.
    - replace (D * NB ^ w * Z1) with (D * Z1 * NB ^ w) by ring. replace (a * (Y * NB ^ w)) with (a * Y * NB ^ w) by ring.
      apply Z.mul_lt_mono_pos_r; lia. }
  rewrite Ee. cbv beta iota. set (u := rat_exp NB N D - p + 1). replace (rat_exp NB N D - w - p + 1) with (u - w) by (unfold u; lia).
  set (ex := Z.max u 0). set (sh := Z.max (- u) 0).
  assert (Eu : u = ex - sh) by (unfold ex, sh; lia).
  assert (Hex : 0 <= ex) by (unfold ex; lia). assert (Hsh : 0 <= sh) by (unfold sh; lia).
  pose proof (pw ex Hex) as Pex. pose proof (pw sh Hsh) as Psh. pose proof (pw (sh + w) ltac:(lia)) as Pshw.
  assert (ER : round_rat_at NB m N (D * NB ^ w) (u - w) = round_rat_at NB m N D u).
  { destruct (round_at_scaled NB NB_ge_2 m N (D * NB ^ w) (sh + w) ex 0 HDw ltac:(lia) Hex) as [R1 _].
    replace (ex - (sh + w)) with (u - w) in R1 by lia.
    destruct (round_at_scaled NB NB_ge_2 m N D sh ex 0 HD Hsh Hex) as [R2 _]. replace (ex - sh) with u in R2 by lia.
    rewrite R1, R2. apply (spec_round_ratio); [nia | nia|].
    rewrite (Z.pow_add_r NB sh w) by lia. ring. }
  rewrite ER. set (M := round_rat_at NB m N D u).
  destruct (round_at_scaled NB NB_ge_2 m N (D * NB ^ w) (sh + w) ex M HDw ltac:(lia) Hex) as [_ C1].
  replace (ex - (sh + w)) with (u - w) in C1 by lia.
  destruct (round_at_scaled NB NB_ge_2 m N D sh ex M HD Hsh Hex) as [_ C2]. replace (ex - sh) with u in C2 by lia.
  rewrite C1, C2. f_equal.
  apply (cmp_ratio _ _ _ _ 1 (NB ^ w)); [lia | lia | ring|].
  rewrite (Z.pow_add_r NB sh w) by lia. ring.
Qed.

(** ** the division route (small negative exponent) returns the specification of n * NB^ne / (d * NB^de) *)
Theorem div_round_once_value_spec p m n ne d de : 1 <= p -> n <> 0 -> 0 < d -> 0 <= ne -> 0 <= de ->
  conv_of_approx NB (div_round_once NB p m n ne d de) =
  (let '(s', e', f) := convert_value_spec NB p m (n * NB ^ ne) (d * NB ^ de) in CDone s' e' f).
Proof.
  intros Hp Hn Hd Hne Hde.
  destruct (div_round_once_correct NB NB_ge_2 p m n d ne de Hp Hd Hn) as (_ & _ & _ & E). cbv zeta in E. rewrite E. clear E.
  pose proof (pw ne Hne) as Pne.
  unfold convert_value_spec.
  rewrite (rat_spec_shift_den p m (n * NB ^ ne) d de ltac:(nia) Hd Hde).
  rewrite (rat_spec_shift_num p m n d ne Hn Hd Hne).
  unfold rat_to_fbig_spec. destruct (Z.eqb_spec n 0); [contradiction|].
  set (u := rat_exp NB n d - p + 1). set (M := round_rat_at NB m n d u).
  assert (Es : Z.sgn (n * NB ^ ne) = Z.sgn n) by (rewrite Z.sgn_mul, (Z.sgn_pos (NB ^ ne) Pne); ring).
  rewrite Es. replace (u + ne - de) with (u + ne - de) by reflexivity.
  destruct (flag_of_error (Z.sgn n) (cmp_kx NB 1 (XRat n d) M u)) as [a|].
  - unfold conv_of_approx. cbn [approx_norm]. destruct (normalize NB M (u + ne - de)) as [h x]. reflexivity.
  - unfold conv_of_approx. pose proof (normalize_idem M (u + ne - de)) as Id.
    destruct (normalize NB M (u + ne - de)) as [h x]. cbn [fst snd] in Id. rewrite Id. cbn [approx_norm]. reflexivity.
Qed.

(** ** every route of convert_base that needs no logarithm returns the specification *)
Theorem convert_base4_spec B p m s e : 2 <= B < 2 ^ 64 -> NB < 2 ^ 64 -> 1 <= p -> s <> 0 ->
  match convert_base_asis4 B NB p m s e with
  | CDone s' e' f => (s', e', f) = convert_base_spec B NB p m s e
  | CPanic _ => exists r a b, common_root B NB = Ok (Some (r, a, b)) /\ in_isize (e * a / b) = false
  | CLarge => NB <> B /\ threshold_small_exp < Z.abs e /\ common_root B NB = Ok None
  end.
Proof.
  intros [HB HBw] HNBw Hp Hs. unfold convert_base_asis4, convert_base_spec.
  set (PP := exists r a b, common_root B NB = Ok (Some (r, a, b)) /\ in_isize (e * a / b) = false).
  set (PL := NB <> B /\ threshold_small_exp < Z.abs e /\ common_root B NB = Ok None).
  assert (Hvp : 0 < snd (value_frac B s e)) by (apply (value_frac_pos B ltac:(lia))).
  destruct (value_frac B s e) as [N D] eqn:EV. cbn [snd] in Hvp.
  (* a route that rounds the float S * NB^E of the same value *)
  assert (Route : forall S E, S <> 0 -> fst (value_frac NB S E) * D = N * snd (value_frac NB S E) ->
            match round_norm NB p m S E with
            | CDone s' e' f => (s', e', f) = convert_value_spec NB p m N D | _ => False end).
  { intros S E HS Hv. rewrite (round_norm_value_spec NB NB_ge_2 p m S E N D Hp HS Hvp Hv).
    destruct (convert_value_spec NB p m N D) as [[a b] c]. reflexivity. }
  assert (Fin : forall c, match c with CDone s' e' f => (s', e', f) = convert_value_spec NB p m N D | _ => False end ->
            match c with CDone s' e' f => (s', e', f) = convert_value_spec NB p m N D
                       | CPanic _ => PP
                       | CLarge => PL end).
  { intros c. destruct c; [auto | contradiction | contradiction]. }
  assert (EN : N = fst (value_frac B s e)) by (rewrite EV; reflexivity).
  assert (ED : D = snd (value_frac B s e)) by (rewrite EV; reflexivity).
  destruct (Z.eqb_spec NB B) as [->|Hne].
  - (* same base *) apply Fin, Route; [exact Hs|]. rewrite EN, ED. ring.
  - set (up := if B <? NB then ilog_exact NB B else 0). set (down := if B <? NB then 0 else ilog_exact B NB).
    destruct (Z.ltb_spec 1 up) as [Hup|Hup].
    + (* NB = B^n *)
      assert (Hn : 1 <= ilog_exact NB B /\ up = ilog_exact NB B) by (unfold up in *; destruct (B <? NB); lia).
      destruct Hn as [Hn Eup]. pose proof (ilog_exact_spec NB B HB Hn) as EB. rewrite <- Eup in EB.
      apply Fin, Route.
      * pose proof (Z.pow_pos_nonneg B (e mod up) ltac:(lia) ltac:(apply Z.mod_pos_bound; lia)). nia.
      * rewrite EN, ED.
        assert (EV1 : value_frac NB (s * B ^ (e mod up)) (e / up) = value_frac B (s * B ^ (e mod up)) (up * (e / up))).
        { rewrite EB at 1. apply value_frac_root; lia. }
        rewrite EV1.
        pose proof (Z.div_mod e up ltac:(lia)) as Dm. pose proof (Z.mod_pos_bound e up ltac:(lia)) as Mb.
        replace (value_frac B s e) with (value_frac B s (up * (e / up) + e mod up)) by (rewrite <- Dm; reflexivity).
        apply (value_frac_shift B s (up * (e / up)) (e mod up) HB); lia.
    + destruct (Z.ltb_spec 1 down) as [Hdn|Hdn].
      * (* B = NB^n *)
        assert (Hn : 1 <= ilog_exact B NB /\ down = ilog_exact B NB) by (unfold down in *; destruct (B <? NB); lia).
        destruct Hn as [Hn Edn]. pose proof (ilog_exact_spec B NB NB_ge_2 Hn) as EB. rewrite <- Edn in EB.
        apply Fin, Route; [exact Hs|].
        rewrite EN, ED. rewrite EB. rewrite (value_frac_root NB down s e) by lia.
        replace (e * down) with (down * e) by ring. ring.
      * destruct (Z.eqb_spec p 0); [lia|].
        destruct (Z.leb_spec (Z.abs e) threshold_small_exp) as [Hsm|Hlg].
        -- destruct (Z.leb_spec 0 e) as [He|He].
           ++ (* exact power *)
              apply Fin, Route.
              ** pose proof (Z.pow_pos_nonneg B e ltac:(lia) He). nia.
              ** rewrite EN, ED. unfold value_frac. change (0 <=? 0) with true. destruct (Z.leb_spec 0 e); [|lia]. cbn [fst snd]. rewrite Z.pow_0_r. ring.
           ++ (* division, rounded once *)
              pose proof (normalize_spec NB NB_ge_2 s 0) as N1. destruct (normalize NB s 0) as [sn ne].
              pose proof (normalize_spec NB NB_ge_2 (B ^ (- e)) 0) as N2. destruct (normalize NB (B ^ (- e)) 0) as [sd de].
              pose proof (Z.pow_pos_nonneg B (- e) ltac:(lia) ltac:(lia)) as PB.
              destruct N1 as [_ N1]. destruct (N1 Hs) as (Hsn & _ & k1 & Hk1 & -> & Es).
              destruct N2 as [_ N2]. destruct (N2 ltac:(lia)) as (Hd0 & _ & k2 & Hk2 & -> & Ed).
              assert (Hd : 0 < sd) by (pose proof (pw k2 Hk2); nia).
              rewrite (div_round_once_value_spec p m sn (0 + k1) sd (0 + k2) Hp Hsn Hd ltac:(lia) ltac:(lia)).
              replace (0 + k1) with k1 by lia. replace (0 + k2) with k2 by lia. rewrite <- Es, <- Ed.
              unfold value_frac in EV. destruct (Z.leb_spec 0 e); [lia|]. injection EV as <- <-.
              destruct (convert_value_spec NB p m s (B ^ (- e))) as [[a b] c]. reflexivity.
        -- (* |e| > 38 *)
           pose proof (common_root_total B NB HBw HNBw) as Tot.
           destruct (common_root_shape B NB) as [[o Eo]|Eo]; [|contradiction].
           rewrite Eo. destruct o as [[[r a] b]|]; rename Eo into ECR.
           ++ destruct (common_root_sound B NB r a b HBw HNBw ECR) as (Hr & Ha & Hb & EB & ENB).
              unfold convert_root. destruct (in_isize (e * a / b)) eqn:EI.
              ** apply Fin, Route.
                 --- pose proof (Z.pow_pos_nonneg r ((e * a) mod b) ltac:(lia) ltac:(apply Z.mod_pos_bound; lia)). nia.
                 --- rewrite EN, ED.
                     assert (EV1 : value_frac NB (s * r ^ ((e * a) mod b)) (e * a / b) = value_frac r (s * r ^ ((e * a) mod b)) (b * (e * a / b))).
                     { rewrite ENB at 1. apply value_frac_root; lia. }
                     rewrite EV1. rewrite EB. rewrite (value_frac_root r a s e) by lia.
                     pose proof (Z.div_mod (e * a) b ltac:(lia)) as Dm. pose proof (Z.mod_pos_bound (e * a) b ltac:(lia)) as Mb.
                     replace (a * e) with (b * (e * a / b) + (e * a) mod b) by (rewrite <- Dm; ring).
                     apply (value_frac_shift r s (b * (e * a / b)) ((e * a) mod b) Hr); lia.
              ** exists r, a, b. split; [exact ECR | exact EI].
           ++ repeat split; [exact Hne | lia | exact ECR].
Qed.

(** ** since F10 the ln/exp route is never taken between bases with a common root *)
Theorem convert_base4_large_no_common_root B p m s e r i j : 2 <= r -> 1 <= i -> 1 <= j -> B = r ^ i -> NB = r ^ j ->
  B < 2 ^ 64 -> NB < 2 ^ 64 -> convert_base_asis4 B NB p m s e <> CLarge.
Proof.
  intros Hr Hi Hj EB ENB HBw HNBw. unfold convert_base_asis4.
  destruct (NB =? B); [unfold round_norm; destruct (normalize NB s e); destruct (approx_norm NB _) as [[? ?] ?]; discriminate|].
  assert (RN : forall S E, round_norm NB p m S E <> CLarge).
  { intros S E. unfold round_norm. destruct (normalize NB S E). destruct (approx_norm NB _) as [[? ?] ?]. discriminate. }
  destruct (1 <? _); [apply RN|]. destruct (1 <? _); [apply RN|]. destruct (p =? 0); [discriminate|].
  destruct (Z.abs e <=? threshold_small_exp).
  - destruct (0 <=? e); [apply RN|]. destruct (normalize NB s 0). destruct (normalize NB (B ^ (- e)) 0).
    unfold conv_of_approx. destruct (approx_norm NB _) as [[? ?] ?]. discriminate.
  - subst B NB. destruct (common_root_complete r i j Hr Hi Hj HBw HNBw) as (g & a & b & E). rewrite E.
    unfold convert_root. destruct (in_isize _); [apply RN | discriminate].
Qed.

(** ** the repaired model and the round-1 model agree wherever the code did not change: everywhere except the
    short-dividend division (repair 344196e) and |e| > 38 between bases with a common root (repair F10) *)
Theorem convert4_agrees B p m s e :
  (Z.abs e <= threshold_small_exp -> 0 <= e \/ p + dlen NB (fst (normalize NB (B ^ (- e)) 0)) < dlen NB (fst (normalize NB s 0))) ->
  (threshold_small_exp < Z.abs e -> common_root B NB = Ok None) ->
  convert_base_asis4 B NB p m s e = convert_base_asis B NB p m s e.
Proof.
  intros Hsmall Hlarge. unfold convert_base_asis4, convert_base_asis.
  destruct (NB =? B); [reflexivity|]. destruct (1 <? _); [reflexivity|]. destruct (1 <? _); [reflexivity|].
  destruct (p =? 0); [reflexivity|].
  destruct (Z.leb_spec (Z.abs e) threshold_small_exp) as [H|H].
  - destruct (Z.leb_spec 0 e) as [He|He]; [reflexivity|].
    destruct (Hsmall H) as [|Hlong]; [lia|].
    destruct (normalize NB s 0) as [n ne]. destruct (normalize NB (B ^ (- e)) 0) as [d de]. cbn [fst] in Hlong.
    destruct (Z.leb_spec (dlen NB n) (p + dlen NB d)); [lia|].
    unfold div_round_once, div_long. destruct (Z.ltb_spec (dlen NB n) (p + dlen NB d)); [lia|].
    rewrite Z.pow_0_r, Z.mul_1_r, Z.sub_0_r.
    destruct (split_digits NB (Z.quot n d) (dlen NB (Z.quot n d) - p)) as [hi lo].
    destruct (lo * d + Z.rem n d =? 0).
    + unfold conv_of_approx. pose proof (normalize_idem hi (ne - de + (dlen NB (Z.quot n d) - p))) as Id.
      destruct (normalize NB hi _) as [h x]. cbn [fst snd] in Id. rewrite Id. reflexivity.
    + unfold conv_of_approx. cbn [approx_norm]. destruct (normalize NB _ _) as [h x]. reflexivity.
  - rewrite (Hlarge H). reflexivity.
Qed.

End Routes.

(* ------------------------------------------------------------------------------------------ *)
(** * what is left to the ln/exp route: decimal <-> binary (to_binary, to_f32, to_f64 of decimal floats)

    The route is one rounding of an approximant (C08_convert4_large_asis_round); it can differ from the correctly
    rounded answer only when the exact value lies next to a jump of the rounding function
    (C08_large_route_correct_away_from_boundaries).  For 10 -> 2 with |exponent| > 38 the value can BE such a jump
    (a p-bit float, or a midpoint = a (p+1)-bit float) only at large precisions: a binary float t * 2^k equal to
    s * 10^e, e >= 39, has 5^e | t, hence more than 90 bits; and s / 10^j = t * 2^k with j >= 39 needs 5^j | s, a
    source significand of at least 28 decimal digits.  So at 24 / 53 bits (to_f32 / to_f64) and up to 89 bits no
    decimal float on the ln/exp route is representable or a tie. *)
From Coq Require Import Znumtheory Zpow_facts.

Lemma five_pow_coprime_two_pow e k : 0 <= e -> 0 <= k -> Z.gcd (5 ^ e) (2 ^ k) = 1.
Proof.
  intros He Hk. apply Zgcd_1_rel_prime. apply rel_prime_Zpower; [exact He | exact Hk|].
  apply Zgcd_1_rel_prime. reflexivity.
Qed.

Theorem decimal_binary_exact_divisible s e t k j : 0 <= e -> 0 <= k -> 0 <= j ->
  s * 10 ^ e * 2 ^ j = t * 2 ^ k -> (5 ^ e | t).
Proof.
  intros He Hk Hj E.
  assert (E10 : 10 ^ e = 5 ^ e * 2 ^ e) by (rewrite <- Z.pow_mul_l; reflexivity).
  assert (D : (5 ^ e | 2 ^ k * t)).
  { exists (s * 2 ^ e * 2 ^ j). rewrite (Z.mul_comm (2 ^ k) t), <- E, E10. ring. }
  apply (Z.gauss (5 ^ e) (2 ^ k) t D). apply five_pow_coprime_two_pow; assumption.
Qed.

Theorem decimal_binary_exact_needs_91_bits s e t k j : 39 <= e -> 0 <= k -> 0 <= j -> t <> 0 ->
  s * 10 ^ e * 2 ^ j = t * 2 ^ k -> 2 ^ 90 < Z.abs t.
Proof.
  intros He Hk Hj Ht E. destruct (decimal_binary_exact_divisible s e t k j ltac:(lia) Hk Hj E) as [c Ec].
  assert (P39 : 2 ^ 90 < 5 ^ 39) by (vm_compute; reflexivity).
  assert (Pe : 5 ^ 39 <= 5 ^ e) by (apply Z.pow_le_mono_r; lia).
  assert (Hc : c <> 0) by (intros ->; lia).
  rewrite Ec, Z.abs_mul, (Z.abs_eq (5 ^ e)) by lia. nia.
Qed.

Theorem decimal_binary_exact_neg_needs_28_digits s j t k i : 39 <= j -> 0 <= k -> 0 <= i -> s <> 0 ->
  s * 2 ^ i = t * 2 ^ k * 10 ^ j -> 10 ^ 27 < Z.abs s.
Proof.
  intros Hj Hk Hi Hs E.
  assert (E10 : 10 ^ j = 5 ^ j * 2 ^ j) by (rewrite <- Z.pow_mul_l; reflexivity).
  assert (D : (5 ^ j | 2 ^ i * s)).
  { exists (t * 2 ^ k * 2 ^ j). rewrite (Z.mul_comm (2 ^ i) s), E, E10. ring. }
  apply (Z.gauss (5 ^ j) (2 ^ i) s) in D; [|apply five_pow_coprime_two_pow; lia].
  destruct D as [c Ec].
  assert (P39 : 10 ^ 27 < 5 ^ 39) by (vm_compute; reflexivity).
  assert (Pe : 5 ^ 39 <= 5 ^ j) by (apply Z.pow_le_mono_r; lia).
  assert (Hc : c <> 0) by (intros ->; lia).
  rewrite Ec, Z.abs_mul, (Z.abs_eq (5 ^ j)) by lia. nia.
Qed.

Example decimal_binary_exact_example :
  98 * 10 ^ 100 * 2 ^ 0 = (49 * 5 ^ 100) * 2 ^ 101 /\ 2 ^ 90 < Z.abs (49 * 5 ^ 100) /\ (5 ^ 100 | 49 * 5 ^ 100).
Proof. split; [vm_compute; reflexivity|]. split; [vm_compute; reflexivity|]. exists 49. reflexivity. Qed.

(** non-vacuity / witnesses: F10 (3 * 4^39 in base 8 at one digit: exact; the old route gave 2 * 8^26 in the
    mode Down), the division route at the witness of 344196e, a base pair without common root *)
Example convert4_examples :
  convert_base_asis4 4 8 1 MDown 3 39 = CDone 3 26 FExact /\
  convert_base_asis 4 8 1 MDown 3 39 = CLarge /\
  convert_base_spec 4 8 1 MDown 3 39 = (3, 26, FExact) /\
  convert_base_asis4 9 27 1 MUp 2 (-40) = CDone 6 (-27) FExact /\
  convert_base_asis4 8 4 1 MUp 5 (-39) = CDone 3 (-58) (FInexact AddOne) /\
  convert_base_spec 8 4 1 MUp 5 (-39) = (3, -58, FInexact AddOne) /\
  common_root 4 8 = Ok (Some (2, 2, 3)) /\ common_root 16 64 = Ok (Some (4, 2, 3)) /\ common_root 10 2 = Ok None /\
  common_root 12 6 = Ok None /\ common_root 27 9 = Ok (Some (3, 3, 2)).
Proof. vm_compute. repeat split; reflexivity. Qed.

Example convert4_div_route_example :
  convert_base_asis4 10 2 53 MHalfEven 4899 (-7) = CDone 4518529960855155 (-63) (FInexact AddOne) /\
  convert_base_spec 10 2 53 MHalfEven 4899 (-7) = (4518529960855155, -63, FInexact AddOne) /\
  convert_base_asis 10 2 53 MHalfEven 4899 (-7) = CDone 9037059921710309 (-64) (FInexact NoOp) /\
  convert_base_asis4 10 2 3 MZero 1 100 = CLarge /\
  convert_base_asis4 2 10 4 MHalfAway 1048575 0 = CDone 1049 3 (FInexact AddOne) /\
  convert_base_spec 2 10 6 MHalfAway 1048575 0 = (104858, 1, FInexact AddOne).
Proof. vm_compute. repeat split; reflexivity. Qed.
