(** C05, float part: == and cmp / abs_cmp of FBig as the code computes them (float/src/cmp.rs,
    repr.rs normalize, utils.rs shl_digits / digit_len), and the order of the values they must follow.
    Significands are Z (the IBig layer is C01/C09's and the first half of C05).  Definitions only. *)
From Dashu Require Import Base.Prelude.
Open Scope Z_scope.

(** Repr<B>: significand * B^exponent; significand 0 with exponent > 0 / < 0 is +inf / -inf *)
Record frepr := FR { fsig : Z; fexp : Z }.

Definition f_is_inf (r : frepr) : bool := (fsig r =? 0) && negb (fexp r =? 0).
Definition f_is_zero (r : frepr) : bool := (fsig r =? 0) && (fexp r =? 0).

(** impl Mul<Ordering> for Sign *)
Definition sign_mul_ord (s : sign) (c : comparison) : comparison :=
  match s with Positive => c | Negative => CompOpp c end.

(* ---------------------------------------------------------------- digits *)

(** number of base-B digits of |m| (digit_len): loop with fuel *)
Fixpoint ndigits_fuel (fuel : nat) (B m : Z) : Z :=
  match fuel with
  | O => 0
  | S f => if m =? 0 then 0 else 1 + ndigits_fuel f B (m / B)
  end.
Definition ndigits (B m : Z) : Z := ndigits_fuel (Z.to_nat (Z.log2 (Z.abs m) + 1)) B (Z.abs m).

(** s1 * b1^e1 = s2 * b2^e2, decided in Z (used to check a value that went through a base conversion) *)
Definition xval_eq (b1 s1 e1 b2 s2 e2 : Z) : bool :=
  s1 * b1 ^ (Z.max e1 0) * b2 ^ (Z.max (- e2) 0) =? s2 * b2 ^ (Z.max e2 0) * b1 ^ (Z.max (- e1) 0).

(* ---------------------------------------------------------------- shl_digits (utils.rs) *)

Definition is_pow2 (B : Z) : bool := B =? 2 ^ Z.log2 B.

Definition shl_digits (B x e : Z) : Z :=
  if e =? 0 then x
  else if B =? 2 then Z.shiftl x e
  else if B =? 10 then Z.shiftl (x * 5 ^ e) e
  else if is_pow2 B then Z.shiftl x (e * Z.log2 B)
  else x * B ^ e.

(* ---------------------------------------------------------------- normalize (repr.rs) *)

(** the generic branch: UBig::remove(B) = divide while divisible; fuel = an upper bound of the count *)
Fixpoint strip_fuel (fuel : nat) (B s e : Z) : result (Z * Z) :=
  match fuel with
  | O => OutOfFuel
  | S f => if s mod B =? 0 then strip_fuel f B (s / B) (e + 1) else Ok (s, e)
  end.

Fixpoint tzp (p : positive) : Z := match p with xO q => 1 + tzp q | _ => 0 end.
(** trailing zeros of a non-zero number *)
Definition tz (s : Z) : Z := match s with Z0 => 0 | Zpos p | Zneg p => tzp p end.

Definition normalize (B : Z) (r : frepr) : result frepr :=
  let s := fsig r in
  let e := fexp r in
  if s =? 0 then Ok (FR 0 0)
  else if B =? 2 then
    let shift := tz s in Ok (FR (signed (sign_of s) (Z.shiftr (Z.abs s) shift)) (e + shift))
  else if is_pow2 B then
    let bits := Z.log2 B in
    let shift := tz s / bits in Ok (FR (signed (sign_of s) (Z.shiftr (Z.abs s) (shift * bits))) (e + shift))
  else
    match strip_fuel (Z.to_nat (Z.log2 (Z.abs s) + 1)) B (Z.abs s) e with
    | Ok (m, e') => Ok (FR (signed (sign_of s) m) e')
    | Panic p => Panic p | Err x => Err x | OutOfFuel => OutOfFuel
    end.

(** the documented invariant of Repr *)
Definition normalized (B : Z) (r : frepr) : Prop :=
  (fsig r = 0 /\ fexp r = 0) \/ (fsig r <> 0 /\ fsig r mod B <> 0).
(** ... and with the two infinities *)
Definition normalized_ext (B : Z) (r : frepr) : Prop := f_is_inf r = true \/ normalized B r.

Definition normalizedb (B : Z) (r : frepr) : bool :=
  if fsig r =? 0 then true (* zero or an infinity *) else negb (fsig r mod B =? 0).

(* ---------------------------------------------------------------- ==, as the code *)

(** impl PartialEq<FBig<R2,B>> for FBig<R1,B> *)
Definition fbig_eq (a b : frepr) : bool :=
  match f_is_inf a, f_is_inf b with
  | true, true => negb (xorb (fexp a >=? 0) (fexp b >=? 0))
  | false, false => (fsig a =? fsig b) && (fexp a =? fexp b)
  | _, _ => false
  end.

(* ---------------------------------------------------------------- cmp, as the code *)

Section Cmp.
Variable B : Z.
(** Repr::digits_ub: an f32-based over-estimate of the digit count; the theorems quantify over it *)
Variable digits_ub : Z -> Z.

(** cases 1-3 of repr_cmp_same_base::<B, ABS>: infinities, signs, zeros; [k sign] is the rest *)
Definition cmp_head (abs : bool) (lhs rhs : frepr) (k : sign -> comparison) : comparison :=
  (* case 1: compare with inf *)
  match f_is_inf lhs, f_is_inf rhs with
  | true, true => if abs then Eq else fexp lhs ?= fexp rhs
  | false, true => if abs || (fexp rhs >=? 0) then Lt else Gt
  | true, false => if abs || (fexp lhs >=? 0) then Gt else Lt
  | false, false =>
    (* case 2: compare sign *)
    let step2 : sign + comparison :=
      if abs then inl Positive
      else match sign_of (fsig lhs), sign_of (fsig rhs) with
           | Positive, Positive => inl Positive
           | Positive, Negative => inr Gt
           | Negative, Positive => inr Lt
           | Negative, Negative => inl Negative
           end in
    match step2 with
    | inr c => c
    | inl sign =>
      (* case 3: compare with 0 *)
      match f_is_zero lhs, f_is_zero rhs with
      | true, true => Eq
      | true, false => Lt
      | false, true => Gt
      | false, false => k sign
      end
    end
  end.

(** the last two cases: the digit-estimate shortcut, then the exact comparison by shifting *)
Definition cmp_tail (abs : bool) (sign : sign) (lhs rhs : frepr) : comparison :=
  let lhs_exp := fexp lhs in
  let rhs_exp := fexp rhs in
  (* compare exponent and digits *)
  let lhs_digits := digits_ub (fsig lhs) in
  let rhs_digits := digits_ub (fsig rhs) in
  if lhs_exp >? rhs_exp + rhs_digits then sign_mul_ord sign Gt
  else if rhs_exp >? lhs_exp + lhs_digits then sign_mul_ord sign Lt
  else
    (* compare exact values by shifting *)
    let ls := if abs then Z.abs (fsig lhs) else fsig lhs in
    let rs := if abs then Z.abs (fsig rhs) else fsig rhs in
    match lhs_exp ?= rhs_exp with
    | Eq => ls ?= rs
    | Gt => (if abs then Z.abs (shl_digits B (fsig lhs) (lhs_exp - rhs_exp))
             else shl_digits B (fsig lhs) (lhs_exp - rhs_exp)) ?= rs
    | Lt => ls ?= (if abs then Z.abs (shl_digits B (fsig rhs) (rhs_exp - lhs_exp))
                   else shl_digits B (fsig rhs) (rhs_exp - lhs_exp))
    end.

(** repr_cmp_same_base::<B, ABS>(lhs, rhs) as it is now (after the repair of finding F02) *)
Definition repr_cmp_same_base (abs : bool) (lhs rhs : frepr) : comparison :=
  cmp_head abs lhs rhs (fun sign => cmp_tail abs sign lhs rhs).

(** ... and as it was on the pinned tree: an extra shortcut ("case 4") that took the precision of the
    context for a bound of the digits of the significand *)
Definition precision_shortcut (sign : sign) (lhs rhs : frepr) (precision : option (Z * Z)) : option comparison :=
  match precision with
  | Some (lhs_prec, rhs_prec) =>
      if negb (lhs_prec =? 0) && negb (rhs_prec =? 0) then
        if fexp lhs >? fexp rhs + rhs_prec then Some (sign_mul_ord sign Gt)
        else if fexp rhs >? fexp lhs + lhs_prec then Some (sign_mul_ord sign Lt)
        else None
      else None
  | None => None
  end.

Definition repr_cmp_same_base_pinned (abs : bool) (lhs rhs : frepr) (precision : option (Z * Z)) : comparison :=
  cmp_head abs lhs rhs (fun sign =>
    match precision_shortcut sign lhs rhs precision with
    | Some c => c
    | None => cmp_tail abs sign lhs rhs
    end).

(* ---------------------------------------------------------------- the order of the values *)

(** order of two finite values s1*B^e1, s2*B^e2: bring both to the smaller exponent *)
Definition fin_cmp (a b : frepr) : comparison :=
  let m := Z.min (fexp a) (fexp b) in
  (fsig a * B ^ (fexp a - m)) ?= (fsig b * B ^ (fexp b - m)).

(** -inf < every finite value < +inf *)
Definition frank (r : frepr) : Z := if f_is_inf r then (if fexp r >? 0 then 1 else -1) else 0.

Definition fcmp_spec (a b : frepr) : comparison :=
  match frank a ?= frank b with
  | Eq => if f_is_inf a then Eq else fin_cmp a b
  | c => c
  end.

Definition fabs (r : frepr) : frepr := FR (Z.abs (fsig r)) (if f_is_inf r then Z.abs (fexp r) else fexp r).
Definition fabs_cmp_spec (a b : frepr) : comparison := fcmp_spec (fabs a) (fabs b).
Definition feq_spec (a b : frepr) : bool := match fcmp_spec a b with Eq => true | _ => false end.

(** class of DESIGN finding 15 (repaired): a limited-precision operand whose significand has at least
    precision + 2 digits (made by the unrounded routes of Context::convert_base) *)
Definition excess_digits (r : frepr) (prec : Z) : bool :=
  negb (f_is_inf r) && negb (prec =? 0) && (prec + 2 <=? ndigits B (fsig r)).

End Cmp.
