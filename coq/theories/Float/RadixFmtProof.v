(** C08 (round 4): Binary / Octal / LowerHex / UpperHex of FBig and Repr (fmt_round_scientific with the marker and
    the hexadecimal switch of impl_fmt_with_base!) print the specified text, for every float, mode, precision,
    width, fill, alignment, sign and zero flag:

      - the rounding step without the hexadecimal switch is the one of LowerExp (so the digits are those of
        spec_round under the mode of the FBig);
      - positional forms ({:b} base 2, {:o} base 8, {:x}/{:X} base 16): body = sci_body_spec with the marker;
      - hexadecimal form ({:x}/{:X} of a binary float): the significand is spec_round-ed to 4p+4 bits (hex_round),
        body = hex_body_spec;
      - whole text = pad_spec_prefix (sign, "0x", zeros / fill). *)
From Coq Require Import ZArith List Lia Bool.
From Dashu Require Import Base.Prelude Float.RoundSpec Float.RoundSpecProof Float.Contract Float.Model Float.ModelProof
  Int.IoSpec Int.IoDigits Float.TextIoSpec Float.TextIoModel Float.BaseConvProof Float.TextIoProof Float.SciProof Float.FmtPadProof
  Float.RadixFmtModel.
From DashuGen Require Import RoundTables.
Import ListNotations.
Open Scope Z_scope.

(** the generic padding step with a prefix between sign and zeros *)
Lemma pad_layout_prefix (f : fmtflags) (neg : bool) (prefix body : list Z) (W0 : Z) :
  W0 = len prefix + len body ->
  let has_sign := if neg || f_plus f then 1 else 0 in
  let width := W0 + has_sign in
  let pads := match f_width f with
              | None => (0, 0)
              | Some minw =>
                if minw <=? width then (0, 0)
                else if f_zero f then (minw - width, 0)
                else match f_align f with
                     | Some ALeft => (0, minw - width)
                     | Some ARight | None => (minw - width, 0)
                     | Some ACenter => let d := minw - width in (d / 2, d - d / 2)
                     end
              end in
  (if f_zero f then [] else rep (fst pads) (f_fill f)) ++
  (if neg then [45] else if f_plus f then [43] else []) ++ prefix ++
  (if f_zero f then zeros (fst pads) else []) ++ body ++ rep (snd pads) (f_fill f)
  = pad_spec_prefix f neg prefix body.
Proof.
  intros HW has_sign width pads. unfold pad_spec_prefix.
  set (sg := if neg then [45] else if f_plus f then [43] else []).
  assert (Hs : len sg = has_sign).
  { unfold sg, has_sign. destruct neg; cbn [orb]; [reflexivity|]. destruct (f_plus f); reflexivity. }
  assert (Ew : len sg + len prefix + len body = width) by (unfold width; lia).
  rewrite Ew. unfold pads. clear pads.
  destruct (f_width f) as [minw|].
  2:{ cbn [fst snd]. rewrite rep_0, zeros_0, app_nil_r. destruct (f_zero f); reflexivity. }
  destruct (Z.leb_spec minw width).
  { cbn [fst snd]. rewrite rep_0, zeros_0, app_nil_r. destruct (f_zero f); reflexivity. }
  destruct (f_zero f).
  { cbn [fst snd]. rewrite rep_0, app_nil_r. reflexivity. }
  destruct (f_align f) as [[| |]|]; cbn [fst snd]; rewrite <- ?app_assoc; reflexivity.
Qed.

Section Radix.
Variable B : Z.
Hypothesis B_ge_2 : 2 <= B.
Local Notation pw := (Bpow_pos B B_ge_2).

(** ** the rounding step: without the hexadecimal switch it is the one of LowerExp / UpperExp *)
Theorem radix_rounded_sci m s e prec : radix_rounded B false m s e prec = sci_rounded B m s e prec.
Proof.
  unfold radix_rounded, sci_rounded. destruct prec as [p0|]; [|reflexivity]. cbv zeta.
  destruct (p0 + 1 - dlen B s <? 0); [|reflexivity].
  destruct (split_digits B s (- (p0 + 1 - dlen B s))) as [hi lo]. rewrite Z.pow_1_r.
  destruct (p0 + 1 <? dlen B (hi + adj (round_fract B m hi lo (- (p0 + 1 - dlen B s))))); reflexivity.
Qed.

(** ** positional forms: the body is the specified text with the marker of the format *)
Theorem radix_body_positional m upper mk s e prec : (s = 0 -> e = 0) -> (forall p, prec = Some p -> 0 <= p) ->
  radix_body_asis B m upper false mk s e prec = sci_body_spec_mk mk B m upper s e prec.
Proof.
  intros Hz Hp. unfold radix_body_asis, sci_body_spec_mk. rewrite radix_rounded_sci.
  assert (Hd1 : forall a, 0 < a -> exists c t, dtext upper B a = c :: t /\ len t = dlen B a - 1).
  { intros a Ha. pose proof (dtext_len B B_ge_2 upper a Ha) as L. destruct (dtext upper B a) as [|c t] eqn:E.
    - cbn in L. destruct (dlen_spec B B_ge_2 a ltac:(lia)) as [_ G]. lia.
    - exists c, t. split; [reflexivity|]. rewrite len_cons in L. lia. }
  destruct prec as [p|].
  - specialize (Hp p eq_refl). destruct (Z.eqb_spec s 0) as [->|Hs].
    + specialize (Hz eq_refl). subst e.
      unfold sci_rounded. rewrite dlen_zero by exact B_ge_2. destruct (Z.ltb_spec (p + 1 - 0) 0); [lia|].
      unfold radix_layout. cbn [Z.ltb Z.compare andb Z.abs]. replace (dtext upper B 0) with [48] by (unfold dtext, digit_text; cbn; destruct upper; reflexivity).
      cbn [firstn skipn len length Z.of_nat Z.eqb app Z.add Z.sub Z.opp].
      rewrite Z.sub_0_r. destruct (Z.ltb_spec 0 p).
      * rewrite zeros_len by lia. destruct (Z.eqb_spec p 0); [lia|]. reflexivity.
      * assert (p = 0) by lia. subst p. reflexivity.
    + destruct (sci_rounded_spec B B_ge_2 m s e p Hp Hs) as [R Bd]. rewrite R. clear R.
      destruct (sci_round B m s e p) as [a x] eqn:ER.
      destruct (Z.leb_spec (dlen B s) (p + 1)) as [Hd|Hd].
      * unfold sci_round in ER. destruct (Z.leb_spec (dlen B s) (p + 1)); [|lia]. inversion ER; subst a x. clear ER.
        destruct (dlen_spec B B_ge_2 s Hs) as [_ G]. set (d := dlen B s) in *.
        unfold radix_layout.
        assert (Es : (s <? 0) && (s =? 0) = false) by (destruct (Z.eqb_spec s 0); [contradiction | apply andb_false_r]).
        rewrite Es. destruct (Hd1 (Z.abs s) ltac:(lia)) as (c & t & ED & Lt).
        rewrite (dtext_mul_pow_u B B_ge_2) by lia. rewrite ED.
        replace (dlen B (Z.abs s)) with d in Lt by (unfold d, dlen; rewrite Z.abs_involutive; reflexivity).
        cbn [firstn skipn app tl]. rewrite !len_cons, len_app, zeros_len, Lt by lia.
        pose proof (pw (p + 1 - d) ltac:(lia)).
        destruct (Z.eqb_spec (Z.abs s * B ^ (p + 1 - d)) 0); [nia|].
        replace (e - (p + 1 - d) + (d - 1 + (p + 1 - d) + 1) - 1) with (e + (d - 1 + 1 - 1)) by lia.
        f_equal. destruct (Z.eqb_spec (d - 1) 0) as [E0|E0].
        -- assert (t = []) by (destruct t; [reflexivity | rewrite len_cons in Lt; pose proof (len_nonneg t); lia]). subst t.
           replace (p - (d - 1)) with p by lia. replace (p + 1 - d) with p by lia. replace (d - 1 + p) with p by lia.
           cbn [app]. destruct (Z.ltb_spec 0 p), (Z.eqb_spec p 0); try lia; reflexivity.
        -- destruct (Z.eqb_spec (d - 1 + (p + 1 - d)) 0); [lia|]. destruct (Z.ltb_spec 0 p); [|lia].
           cbn [app]. replace (p - (d - 1)) with (p + 1 - d) by lia. rewrite <- !app_assoc. reflexivity.
      * specialize (Bd Hd). cbv iota beta in Bd.
        unfold radix_layout.
        assert (Ea : Z.abs (if s <? 0 then - a else a) = a) by (destruct (s <? 0); lia).
        assert (En : ((if s <? 0 then - a else a) =? 0) = false) by (apply Z.eqb_neq; pose proof (pw p Hp); destruct (s <? 0); lia).
        rewrite En, andb_false_r, Ea.
        assert (Hdl : dlen B a = p + 1).
        { apply (dlen_unique B B_ge_2); [lia|]. replace (p + 1 - 1) with p by lia. pose proof (pw p Hp). lia. }
        pose proof (pw p Hp). destruct (Hd1 a ltac:(lia)) as (c & t & ED & Lt). rewrite Hdl in Lt. rewrite ED.
        cbn [firstn skipn tl]. rewrite !len_cons, Lt. replace (p + 1 - 1) with p by lia.
        destruct (Z.eqb_spec a 0); [lia|]. replace (x + (p + 1 - 1)) with (x + (p + 1) - 1) by lia. f_equal.
        destruct (Z.eqb_spec p 0) as [->|]; cbn [Z.ltb Z.compare].
        -- reflexivity.
        -- destruct (Z.ltb_spec 0 p); [|lia]. rewrite Z.sub_diag, zeros_0. reflexivity.
  - unfold sci_rounded, radix_layout.
    assert (Es : (s <? 0) && (s =? 0) = false) by (destruct (Z.ltb_spec s 0); [destruct (Z.eqb_spec s 0); [lia | reflexivity] | reflexivity]).
    rewrite Es. cbn [Z.ltb Z.compare]. rewrite tl_skipn. cbn [app].
    destruct (Z.eqb_spec (Z.abs s) 0) as [E0|E0]; [|f_equal; f_equal; f_equal; f_equal; lia].
    assert (s = 0) by lia. subst s. rewrite (Hz eq_refl). cbn [Z.abs].
    assert (L1 : len (dtext upper B 0) = 1) by reflexivity. rewrite L1. reflexivity.
Qed.

(** with the marker of LowerExp / UpperExp the positional specification is the one of round 1 *)
Lemma sci_body_spec_mk_sci m upper s e prec : sci_body_spec_mk (sci_marker B upper) B m upper s e prec = sci_body_spec B m upper s e prec.
Proof. reflexivity. Qed.

End Radix.

(* ------------------------------------------------------------------------------------------ *)
(** * the hexadecimal form of a binary float *)

Lemma two_ge_2 : 2 <= 2. Proof. lia. Qed.
Lemma sixteen_ge_2 : 2 <= 16. Proof. lia. Qed.

(** the significand handed to the digit layout: the float itself while it has at most 4p+4 bits, otherwise
    the specification rounding to 4p+4 bits with the sign of the float, a carry undone by four bits *)
Theorem hex_rounded_spec m s e p0 : 0 <= p0 -> s <> 0 ->
  radix_rounded 2 true m s e (Some p0) =
    (let '(a, x) := hex_round m s e p0 in
     if dlen 2 s <=? 4 * p0 + 4 then (s, e) else ((if s <? 0 then - a else a), x)) /\
  (4 * p0 + 4 < dlen 2 s -> let '(a, x) := hex_round m s e p0 in 2 ^ (4 * p0) <= a < 2 ^ (4 * p0 + 4)).
Proof.
  intros Hp Hs. unfold radix_rounded, hex_round. cbv zeta.
  replace (p0 * 4 + 4) with (4 * p0 + 4) by lia. set (P := 4 * p0 + 4).
  assert (HP : 4 <= P) by (unfold P; lia).
  destruct (Z.ltb_spec (P - dlen 2 s) 0) as [Hd|Hd]; destruct (Z.leb_spec (dlen 2 s) P) as [Hd'|Hd']; try lia.
  2:{ split; [reflexivity | lia]. }
  cbn [split_digits]. set (k := - (P - dlen 2 s)). replace (dlen 2 s - P) with k by (unfold k; lia).
  assert (Hk0 : 1 <= k) by (unfold k; lia).
  pose proof (Bpow_pos 2 two_ge_2 k ltac:(lia)) as Hk.
  assert (Hrem : Z.abs (Z.rem s (2 ^ k)) < 2 ^ k).
  { pose proof (Z.rem_bound_abs s (2 ^ k) ltac:(lia)) as Hb. rewrite (Z.abs_eq (2 ^ k)) in Hb by lia. exact Hb. }
  rewrite (round_fract_spec 2 two_ge_2 m _ _ k ltac:(lia) Hrem).
  replace (Z.quot s (2 ^ k) * 2 ^ k + Z.rem s (2 ^ k)) with s by (pose proof (Z.quot_rem' s (2 ^ k)); lia).
  set (r := spec_round m s (2 ^ k)).
  pose proof (repr_round_digits 2 two_ge_2 P m s e ltac:(lia) ltac:(lia)) as D. cbv zeta in D.
  rewrite (repr_round_inexact 2 two_ge_2 P m s e ltac:(lia) ltac:(lia)) in D. cbn [approx_sig] in D.
  replace (dlen 2 s - P) with k in D by (unfold k; lia). fold r in D.
  pose proof (Bpow_pos 2 two_ge_2 (P - 1) ltac:(lia)) as Hpp. pose proof (Bpow_pos 2 two_ge_2 P ltac:(lia)) as Hpp1.
  pose proof (Bpow_pos 2 two_ge_2 (P - 4) ltac:(lia)) as Hp4.
  assert (Sr : (s < 0 -> r < 0) /\ (0 < s -> 0 < r)).
  { pose proof (spec_round_error m s (2 ^ k) Hk) as [E _]. cbv zeta in E. fold r in E. split; intros; nia. }
  assert (Epow : 2 ^ P = 2 * 2 ^ (P - 1)) by (rewrite <- (Z.pow_1_r 2) at 2; rewrite <- Z.pow_add_r by lia; f_equal; lia).
  assert (E4 : 2 ^ P = 2 ^ (P - 4) * 2 ^ 4) by (rewrite <- Z.pow_add_r by lia; f_equal; lia).
  assert (E40 : 2 ^ (4 * p0) = 2 ^ (P - 4)) by (f_equal; unfold P; lia).
  assert (Ele : 2 ^ (P - 4) <= 2 ^ (P - 1)) by (apply Z.pow_le_mono_r; lia).
  replace (e - (P - dlen 2 s)) with (e + k) by (unfold k; lia).
  destruct (Z.eqb_spec (Z.abs r) (2 ^ P)) as [Ec|Ec].
  - assert (Hdl : dlen 2 r = P + 1).
    { apply (dlen_unique 2 two_ge_2); [lia|]. rewrite Ec. replace (P + 1 - 1) with P by lia.
      rewrite (Z.pow_add_r 2 P 1), Z.pow_1_r by lia. lia. }
    rewrite Hdl. destruct (Z.ltb_spec P (P + 1)); [|lia]. split.
    + f_equal. destruct (Z.ltb_spec s 0).
      * assert (Er : r = - (2 ^ (P - 4) * 2 ^ 4)) by lia. rewrite Er. rewrite Z.quot_opp_l, Z.quot_mul by lia. reflexivity.
      * assert (Er : r = 2 ^ (P - 4) * 2 ^ 4) by lia. rewrite Er. rewrite Z.quot_mul by lia. reflexivity.
    + intros _. rewrite E40, E4. lia.
  - assert (Hdl : dlen 2 r = P).
    { apply (dlen_unique 2 two_ge_2); [lia|]. lia. }
    rewrite Hdl, Z.ltb_irrefl. split.
    + f_equal. destruct (Z.ltb_spec s 0); lia.
    + intros _. rewrite E40. lia.
Qed.

Lemma hex_rounded_nonzero m s e prec : s <> 0 -> (forall p, prec = Some p -> 0 <= p) ->
  fst (radix_rounded 2 true m s e prec) <> 0.
Proof.
  intros Hs Hp. destruct prec as [p|]; [|cbn; exact Hs].
  specialize (Hp p eq_refl). destruct (hex_rounded_spec m s e p Hp Hs) as [E G]. rewrite E.
  destruct (hex_round m s e p) as [a x].
  destruct (Z.leb_spec (dlen 2 s) (4 * p + 4)); [cbn; exact Hs|].
  specialize (G ltac:(lia)). cbn [fst].
  assert (0 < 2 ^ (4 * p)) by (apply Z.pow_pos_nonneg; lia).
  destruct (s <? 0); lia.
Qed.

(** the two ways of writing the digit layout agree *)
Lemma hex_layout_eq (D : list Z) (prec : option Z) (X : list Z) : (forall p, prec = Some p -> 0 <= p) ->
  let p := match prec with Some p => p | None => 0 end in
  firstn 1 D ++ (if len (skipn 1 D) =? 0 then [] else 46 :: skipn 1 D) ++
  (if 0 <? p then (if len (skipn 1 D) =? 0 then [46] else []) ++ zeros (p - len (skipn 1 D)) else []) ++ X
  = (let frac := tl D ++ match prec with Some p => zeros (p - len (tl D)) | None => [] end in
     firstn 1 D ++ (if len frac =? 0 then [] else 46 :: frac) ++ X).
Proof.
  intros Hp p. cbv zeta. rewrite (tl_skipn D). set (fr := tl D). f_equal.
  assert (Z0 : forall n, n <= 0 -> zeros n = []) by (intros n Hn; unfold zeros; replace (Z.to_nat n) with 0%nat by lia; reflexivity).
  destruct prec as [q|].
  - specialize (Hp q eq_refl). subst p. rewrite len_app', len_zeros.
    destruct (Z.eqb_spec (len fr) 0) as [E0|E0].
    + assert (fr = []) by (destruct fr; [reflexivity | rewrite len_cons' in E0; pose proof (len_ge0 fr); lia]).
      rewrite H. cbn [app]. change (len (@nil Z)) with 0. rewrite Z.sub_0_r.
      destruct (Z.ltb_spec 0 q).
      * destruct (Z.eqb_spec (0 + Z.max 0 q) 0); [lia|]. reflexivity.
      * assert (q = 0) by lia. subst q. reflexivity.
    + pose proof (len_ge0 fr). destruct (Z.eqb_spec (len fr + Z.max 0 (q - len fr)) 0); [lia|].
      destruct (Z.ltb_spec 0 q).
      * cbn [app]. rewrite <- app_assoc. reflexivity.
      * rewrite (Z0 (q - len fr)) by lia. rewrite app_nil_r. reflexivity.
  - subst p. cbn [Z.ltb Z.compare]. rewrite app_nil_r. cbn [app]. reflexivity.
Qed.

(** ** the hexadecimal body is the specified text *)
Theorem radix_body_hex m upper s e prec : (s = 0 -> e = 0) -> (forall p, prec = Some p -> 0 <= p) ->
  radix_body_asis 2 m upper true 112 s e prec = hex_body_spec m upper s e prec.
Proof.
  intros Hz Hp. unfold radix_body_asis, hex_body_spec.
  (* the pair handed to the layout has the magnitude and the exponent of the specification *)
  assert (EP : exists a x, (match prec with None => (Z.abs s, e) | Some p => hex_round m s e p end) = (a, x) /\
                           Z.abs (fst (radix_rounded 2 true m s e prec)) = a /\ snd (radix_rounded 2 true m s e prec) = x /\
                           ((s <? 0) && (fst (radix_rounded 2 true m s e prec) =? 0) = false)).
  { destruct (Z.eq_dec s 0) as [->|Hs].
    - specialize (Hz eq_refl). subst e. destruct prec as [p|].
      + specialize (Hp p eq_refl). unfold radix_rounded, hex_round. cbv zeta. rewrite (dlen_zero 2).
        destruct (Z.ltb_spec (p * 4 + 4 - 0) 0); [lia|]. destruct (Z.leb_spec 0 (4 * p + 4)); [|lia].
        exists 0, 0. cbn [fst snd Z.abs Z.ltb Z.compare andb]. auto.
      + exists 0, 0. cbn [radix_rounded fst snd Z.abs Z.ltb Z.compare andb]. auto.
    - pose proof (hex_rounded_nonzero m s e prec Hs Hp) as NZ.
      assert (Eb : (s <? 0) && (fst (radix_rounded 2 true m s e prec) =? 0) = false).
      { destruct (Z.eqb_spec (fst (radix_rounded 2 true m s e prec)) 0); [contradiction | apply andb_false_r]. }
      destruct prec as [p|].
      + specialize (Hp p eq_refl). destruct (hex_rounded_spec m s e p Hp Hs) as [E G].
        destruct (hex_round m s e p) as [a x] eqn:HR. exists a, x. split; [reflexivity|].
        rewrite E in *. destruct (Z.leb_spec (dlen 2 s) (4 * p + 4)) as [Hd|Hd].
        * unfold hex_round in HR. destruct (Z.leb_spec (dlen 2 s) (4 * p + 4)); [|lia]. inversion HR. subst a x.
          cbn [fst snd] in *. split; [reflexivity | split; [reflexivity | exact Eb]].
        * specialize (G Hd). assert (0 < 2 ^ (4 * p)) by (apply Z.pow_pos_nonneg; lia). cbn [fst snd] in *.
          split; [destruct (s <? 0); lia | split; [reflexivity | exact Eb]].
      + exists (Z.abs s), e. cbn [radix_rounded fst snd] in *. split; [reflexivity | split; [reflexivity | split; [reflexivity | exact Eb]]]. }
  destruct EP as (a & x & E1 & E2 & E3 & E4). rewrite E1.
  destruct (radix_rounded 2 true m s e prec) as [signif exp]. cbn [fst snd] in *. subst a x.
  unfold radix_layout. rewrite E4.
  rewrite <- (hex_layout_eq (dtext upper 16 (Z.abs signif)) prec _ Hp). cbv zeta.
  replace ((len (dtext upper 16 (Z.abs signif)) - 1) * 4) with (4 * (len (dtext upper 16 (Z.abs signif)) - 1)) by ring.
  reflexivity.
Qed.

(** ** the width computed by fmt_round_scientific is the length of what is printed (both kinds of form) *)
Section Width.
Variable B : Z.
Hypothesis B_ge_2 : 2 <= B.
Variable hex : bool.
Hypothesis hex_base : hex = true -> B = 2.

Lemma radix_rounded_nonzero m s e prec : s <> 0 -> (forall p, prec = Some p -> 0 <= p) ->
  fst (radix_rounded B hex m s e prec) <> 0.
Proof.
  intros Hs Hp. destruct hex eqn:EH.
  - rewrite (hex_base eq_refl). apply hex_rounded_nonzero; assumption.
  - rewrite (radix_rounded_sci B m s e prec). apply (sci_rounded_nonzero B B_ge_2); assumption.
Qed.

Lemma radix_body_width m upper mk s e prec : (forall p, prec = Some p -> 0 <= p) ->
  let '(signif, exp) := radix_rounded B hex m s e prec in
  let tb := if hex then 16 else B in
  let str := if (s <? 0) && (signif =? 0) then [] else dtext upper tb (Z.abs signif) in
  let n := len str in
  let p := match prec with Some p => p | None => 0 end in
  let has_point := if (1 <? n) || (0 <? p) then 1 else 0 in
  let trailing := if n - 1 <? p then p - (n - 1) else 0 in
  n + len (itoa (if hex then exp + (n - 1) * 4 else exp + (n - 1))) + 1 + has_point + trailing
  = len (radix_body_asis B m upper hex mk s e prec).
Proof.
  intros Hp. unfold radix_body_asis, radix_layout.
  pose proof (radix_rounded_nonzero m s e prec) as NZ.
  destruct (radix_rounded B hex m s e prec) as [signif exp]. cbn [fst] in NZ. cbv zeta.
  set (tb := if hex then 16 else B).
  assert (Htb : 2 <= tb) by (unfold tb; destruct hex; lia).
  set (str := if (s <? 0) && (signif =? 0) then [] else dtext upper tb (Z.abs signif)).
  assert (N1 : 1 <= len str).
  { unfold str. assert (P : 1 <= len (dtext upper tb (Z.abs signif))).
    { unfold dtext, digit_text. rewrite len_map. pose proof (digits_spec_nonempty tb Htb (Z.abs signif)) as NE.
      destruct (digits_spec tb (Z.abs signif)); [contradiction | rewrite len_cons'; pose proof (len_ge0 l); lia]. }
    destruct (Z.ltb_spec s 0); cbn [andb]; [|exact P].
    destruct (Z.eqb_spec signif 0) as [E0|E0]; [exfalso; apply (NZ ltac:(lia) Hp); exact E0 | exact P]. }
  set (n := len str) in *.
  assert (Li : len (firstn 1 str) = 1) by (change 1%nat with (Z.to_nat 1); lens; fold n; lia).
  assert (Lf : len (skipn 1 str) = n - 1) by (change 1%nat with (Z.to_nat 1); lens; fold n; lia).
  set (p := match prec with Some p => p | None => 0 end).
  assert (P0 : 0 <= p) by (unfold p; destruct prec as [q|]; [exact (Hp q eq_refl) | lia]).
  rewrite !len_app', ?Li, ?Lf, ?len_cons'. change (len (@nil Z)) with 0.
  set (E := len (itoa (if hex then exp + (n - 1) * 4 else exp + (n - 1)))).
  destruct (Z.eqb_spec (n - 1) 0) as [E1|E1].
  - change (len (@nil Z)) with 0.
    destruct (Z.ltb_spec 0 p).
    + lens. change (len (@nil Z)) with 0.
      destruct (Z.ltb_spec 1 n); destruct (Z.ltb_spec (n - 1) p); cbn [orb]; lia.
    + change (len (@nil Z)) with 0.
      destruct (Z.ltb_spec 1 n); destruct (Z.ltb_spec (n - 1) p); cbn [orb]; lia.
  - rewrite len_cons', Lf.
    destruct (Z.ltb_spec 0 p).
    + lens. change (len (@nil Z)) with 0.
      destruct (Z.ltb_spec 1 n); destruct (Z.ltb_spec (n - 1) p); cbn [orb]; lia.
    + change (len (@nil Z)) with 0.
      destruct (Z.ltb_spec 1 n); destruct (Z.ltb_spec (n - 1) p); cbn [orb]; lia.
Qed.

Theorem radix_asis_full m upper mk f s e prec : (forall p, prec = Some p -> 0 <= p) ->
  radix_asis B m upper hex mk f s e prec =
  pad_spec_prefix f (s <? 0) (if hex then [48; 120] else []) (radix_body_asis B m upper hex mk s e prec).
Proof.
  intros Hp. unfold radix_asis.
  rewrite <- (pad_layout_prefix f (s <? 0) (if hex then [48; 120] else []) (radix_body_asis B m upper hex mk s e prec) _ eq_refl). cbv zeta.
  set (body := radix_body_asis B m upper hex mk s e prec).
  set (hs := if (s <? 0) || f_plus f then 1 else 0).
  match goal with |- _ = ?R => match R with context [rep (fst ?P) _] => set (pads := P) end end.
  assert (E : radix_pads B m upper hex f s e prec = pads).
  { unfold radix_pads, pads. pose proof (radix_body_width m upper mk s e prec Hp) as HW.
    destruct (radix_rounded B hex m s e prec) as [signif exp]. cbv zeta in HW. fold body in HW.
    destruct (f_width f) as [minw|]; [|reflexivity]. cbv zeta. fold hs.
    assert (Lp : len (if hex then [48; 120] else []) = (if hex then 2 else 0)) by (destruct hex; reflexivity).
    match goal with |- context [minw <=? ?w] => replace w with (len (if hex then [48; 120] else []) + len body + hs) by (rewrite Lp; lia) end.
    reflexivity. }
  rewrite E. destruct pads as [l r]. reflexivity.
Qed.

End Width.

(** ** the whole text of the six radix-specific formats = the specification *)
Theorem radix_full_text_positional B m upper mk f s e prec : 2 <= B -> (s = 0 -> e = 0) -> (forall p, prec = Some p -> 0 <= p) ->
  radix_asis B m upper false mk f s e prec = radix_spec B m upper false mk f s e prec.
Proof.
  intros HB Hz Hp. unfold radix_spec, radix_body_spec.
  rewrite <- (radix_body_positional B HB m upper mk s e prec Hz Hp).
  apply (radix_asis_full B HB false ltac:(discriminate) m upper mk f s e prec Hp).
Qed.

Theorem radix_full_text_hex m upper f s e prec : (s = 0 -> e = 0) -> (forall p, prec = Some p -> 0 <= p) ->
  radix_asis 2 m upper true 112 f s e prec = radix_spec 2 m upper true 112 f s e prec.
Proof.
  intros Hz Hp. unfold radix_spec, radix_body_spec.
  rewrite <- (radix_body_hex m upper s e prec Hz Hp).
  apply (radix_asis_full 2 two_ge_2 true ltac:(reflexivity) m upper 112 f s e prec Hp).
Qed.

(** every format that exists (impl_fmt_with_base!) *)
Theorem radix_format_text_asis_spec B t upper hex mk m f s e prec : radix_format B t = Some (upper, hex, mk) ->
  (s = 0 -> e = 0) -> (forall p, prec = Some p -> 0 <= p) ->
  radix_asis B m upper hex mk f s e prec = radix_spec B m upper hex mk f s e prec.
Proof.
  intros EF Hz Hp.
  assert (HB : 2 <= B /\ (hex = true -> B = 2 /\ mk = 112)).
  { unfold radix_format in EF. destruct t.
    - destruct (Z.eqb_spec B 2); [|discriminate]. inversion EF. split; [lia | discriminate].
    - destruct (Z.eqb_spec B 8); [|discriminate]. inversion EF. split; [lia | discriminate].
    - destruct (Z.eqb_spec B 2); [inversion EF; split; [lia | auto]|].
      destruct (Z.eqb_spec B 16); [|discriminate]. inversion EF. split; [lia | discriminate].
    - destruct (Z.eqb_spec B 2); [inversion EF; split; [lia | auto]|].
      destruct (Z.eqb_spec B 16); [|discriminate]. inversion EF. split; [lia | discriminate]. }
  destruct HB as [HB Hh]. destruct hex.
  - destruct (Hh eq_refl) as [-> ->]. apply radix_full_text_hex; assumption.
  - apply radix_full_text_positional; assumption.
Qed.

(** non-vacuity and the forms in action: {:.2x} of 0xabcd under HalfEven (seed C08_C), the carry of 0x1ff under
    HalfAway, {:.1b}, {:.1o}, widths and flags *)
Example radix_examples :
  radix_body_asis 2 MHalfEven false true 112 0xabcd 0 (Some 2) = [97; 46; 98; 100; 112; 49; 50] /\          (* a.bdp12 *)
  radix_body_spec 2 MHalfEven false true 112 0xabcd 0 (Some 2) = [97; 46; 98; 100; 112; 49; 50] /\
  radix_body_asis 2 MZero false true 112 0xabcd 0 (Some 2) = [97; 46; 98; 99; 112; 49; 50] /\               (* a.bcp12 *)
  radix_body_asis 2 MHalfAway false true 112 0x1ff 0 (Some 1) = [49; 46; 48; 112; 57] /\                     (* 1.0p9 *)
  radix_body_spec 2 MHalfAway false true 112 0x1ff 0 (Some 1) = [49; 46; 48; 112; 57] /\
  radix_body_asis 2 MUp false false 98 21 0 (Some 1) = [49; 46; 49; 98; 52] /\                               (* 1.1b4 *)
  radix_body_spec 2 MUp false false 98 21 0 (Some 1) = [49; 46; 49; 98; 52] /\
  radix_asis 2 MZero true true 112 (mkflags true false true None (Some 12) [32]) 0x1f (-3) (Some 2)
    = [43; 48; 120; 48; 48; 48; 49; 46; 70; 48; 112; 49] /\                                                  (* +0x0001.F0p1 *)
  radix_spec 2 MZero true true 112 (mkflags true false true None (Some 12) [32]) 0x1f (-3) (Some 2)
    = [43; 48; 120; 48; 48; 48; 49; 46; 70; 48; 112; 49] /\
  radix_asis 8 MAway false false 111 (mkflags false false false (Some ACenter) (Some 10) [42]) (-511) 2 (Some 1)
    = [42; 42; 45; 49; 46; 48; 111; 53; 42; 42] /\                                                           (* **-1.0o5** *)
  radix_format 2 TLowerHex = Some (false, true, 112) /\ radix_format 16 TUpperHex = Some (true, false, 104) /\
  radix_format 10 TLowerHex = None.
Proof. vm_compute. repeat split; reflexivity. Qed.
