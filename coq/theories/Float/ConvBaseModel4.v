(** C08 (round 4): Context::convert_base AS IT IS after the repairs 344196e (small negative exponent:
    the dividend is padded so that the quotient has at least `precision` digits, divided exactly and
    rounded ONCE - repr_div, whose quotient can have precision + 1 digits, is no longer used) and
    F10 (|exponent| > THRESHOLD_SMALL_EXP between bases with a common root that are not powers of one
    another, 4 -> 8, 9 -> 27, ...: exact path through the common root instead of the ln/exp route).
    [TextIoModel.convert_base_asis] is the model of the code BEFORE these two repairs (kept: other
    properties cite it); the two models agree wherever the code did not change
    (ConvBaseProof4.convert4_agrees).  Definitions only. *)
From Dashu Require Import Base.Prelude Float.RoundSpec Float.Contract Float.Model Int.IoSpec Float.TextIoSpec
  Float.TextIoModel Conv.ConvSpec Conv.ConvModel.
From DashuGen Require Import RoundTables.
Open Scope Z_scope.

(** float/src/utils.rs common_root: Euclid's algorithm on the exponents,
      while u != v { if u < v { swap } if u % v != 0 { return None } u /= v }
    [Ok None] = the function returns None, [OutOfFuel] = the loop did not end within the fuel
    (ConvBaseProof4.common_root_fuel: 128 steps suffice for operands below 2^64) *)
Fixpoint common_root_loop (fuel : nat) (u v : Z) : result (option Z) :=
  match fuel with
  | O => OutOfFuel
  | S f =>
    if u =? v then Ok (Some u)
    else
      let '(u1, v1) := if u <? v then (v, u) else (u, v) in
      if negb (u1 mod v1 =? 0) then Ok None else common_root_loop f (u1 / v1) v1
  end.

Definition common_root_fuel : nat := 128.

Definition common_root (x y : Z) : result (option (Z * Z * Z)) :=
  if (x <? 2) || (y <? 2) then Ok None
  else rbind (common_root_loop common_root_fuel x y)
         (fun o => Ok (match o with
                       | Some u => Some (u, ilog_exact x u, ilog_exact y u)
                       | None => None
                       end)).

(** Rounded<Repr>: Exact(Repr::new(..)) / Inexact(Repr::new(..), adjust) as a [conv] *)
Definition conv_of_approx (NB : Z) (a : approx) : TextIoModel.conv :=
  let '(s, e, f) := approx_norm NB (match a with
                                    | AExact q x => let '(q', x') := normalize NB q x in AExact q' x'
                                    | _ => a end) in CDone s e f.

(** the exact path through the common root: B = root^a, NB = root^b,
    total = exponent * a (in i128), (q, t) = (total.div_euclid(b), total.rem_euclid(b)),
    exponent: isize = q (else panic), repr_round(Repr::new(significand * root^t, q)) *)
Definition convert_root (NB p : Z) (m : mode) (s e root a b : Z) : TextIoModel.conv :=
  let total := e * a in
  let q := total / b in
  let t := total mod b in
  if in_isize q then round_norm NB p m (s * root ^ t) q else CPanic Undocumented.

Definition convert_base_asis4 (B NB p : Z) (m : mode) (s e : Z) : TextIoModel.conv :=
  if NB =? B then round_norm NB p m s e
  else
    let up := if B <? NB then ilog_exact NB B else 0 in
    let down := if B <? NB then 0 else ilog_exact B NB in
    if 1 <? up then
      let exp := e / up in
      let rem := e mod up in
      round_norm NB p m (s * B ^ rem) exp
    else if 1 <? down then round_norm NB p m s (e * down)
    else if p =? 0 then CPanic UnlimitedPrecision
    else if Z.abs e <=? threshold_small_exp then
      if 0 <=? e then round_norm NB p m (s * B ^ e) 0
      else
        let '(n, ne) := normalize NB s 0 in
        let '(d, de) := normalize NB (B ^ (- e)) 0 in
        conv_of_approx NB (div_round_once NB p m n ne d de)
    else
      match common_root B NB with
      | Ok (Some (root, a, b)) => convert_root NB p m s e root a b
      | _ => CLarge
      end.

(** WHAT THE PROPERTY DEMANDS of a base change, as one function of the exact value N / D (D > 0):
    the p-digit float of base NB that the mode names (C06's [rat_to_fbig_spec]: exponent
    u = floor(log_NB |N/D|) - p + 1, significand = spec_round at that exponent), in normal form,
    flagged Exact iff nothing was lost.  The value of the float (s, e) in base B is
    s * B^e = N / D with (N, D) = (s * B^e, 1) or (s, B^-e). *)
Definition value_frac (B s e : Z) : Z * Z := if 0 <=? e then (s * B ^ e, 1) else (s, B ^ (- e)).

Definition convert_value_spec (NB p : Z) (m : mode) (N D : Z) : Z * Z * flag :=
  let '(M, u, c) := rat_to_fbig_spec NB p m N D in
  let '(h, x) := normalize NB M u in
  (h, x, match flag_of_error (Z.sgn N) c with None => FExact | Some r => FInexact r end).

Definition convert_base_spec (B NB p : Z) (m : mode) (s e : Z) : Z * Z * flag :=
  let '(N, D) := value_frac B s e in convert_value_spec NB p m N D.
