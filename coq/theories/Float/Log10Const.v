(** C05: core::f32::consts::LOG10_2 (= 10100891 * 2^-25, the f32 nearest to log10 2) is not below log10 2.
    Proved with CoqInterval's certified exponential on plain Z arithmetic (SpecificFloat StdZRadix2: no primitive
    integers or floats, so only the axioms of the classical reals are used):
      2 <= exp (693147181 / 10^9)  and  exp (2302585092 / 10^9) <= 10,  hence  ln 2 <= 0.693147181, 2.302585092 <= ln 10,
      and 33554432 * 0.693147181 <= 10100891 * 2.302585092. *)
From Coq Require Import ZArith Reals Lra.
From Interval Require Import Xreal Basic Sig Interval Float Float_full Specific_ops Specific_stdz Specific_sig.
Open Scope R_scope.

Module LF := SpecificFloat StdZRadix2.
Module LI := FloatIntervalFull LF.

Definition lencl (T : LI.type) (t : R) : Prop := contains (LI.convert T) (Xreal t).
Definition lpr : LF.precision := LF.PtoP 80.
Definition lrat (n d : Z) : LI.type := LI.div lpr (LI.fromZ lpr n) (LI.fromZ lpr d).

Lemma lrat_ok n d : IZR d <> 0 -> lencl (lrat n d) (IZR n / IZR d).
Proof.
  intros Hd. generalize (LI.div_correct lpr (LI.fromZ lpr n) (LI.fromZ lpr d) (Xreal (IZR n)) (Xreal (IZR d))
    (LI.fromZ_correct lpr n) (LI.fromZ_correct lpr d)).
  unfold lencl, lrat. simpl. unfold Xdiv'. destruct (is_zero_spec (IZR d)); [contradiction|]. auto.
Qed.

Definition is_nonneg (c : Xcomparison) : bool := match c with Xgt | Xeq => true | _ => false end.
Lemma sign_nonneg T t : lencl T t -> is_nonneg (LI.sign_large T) = true -> 0 <= t.
Proof.
  intros He H. generalize (LI.sign_large_correct T).
  destruct (LI.sign_large T); try discriminate; intros Hc.
  - specialize (Hc _ He). inversion Hc. lra.
  - destruct (Hc _ He) as [_ H1]. exact H1.
Qed.

Lemma ln2_le : ln 2 <= 693147181 / 1000000000.
Proof.
  set (a := 693147181 / 1000000000).
  assert (A : lencl (lrat 693147181 1000000000) a) by (apply lrat_ok; lra).
  pose proof (LI.exp_correct lpr _ (Xreal a) A) as E.
  pose proof (LI.sub_correct lpr _ _ (Xreal (exp a)) (Xreal 2) E (LI.fromZ_correct lpr 2)) as D.
  assert (0 <= exp a - 2) as H by (eapply sign_nonneg; [exact D | vm_compute; reflexivity]).
  rewrite <- (ln_exp a). destruct (Rle_lt_or_eq_dec 2 (exp a) ltac:(lra)) as [L|Q].
  - left. apply ln_increasing; lra.
  - rewrite Q. right. reflexivity.
Qed.

Lemma ln10_ge : 2302585092 / 1000000000 <= ln 10.
Proof.
  set (b := 2302585092 / 1000000000).
  assert (A : lencl (lrat 2302585092 1000000000) b) by (apply lrat_ok; lra).
  pose proof (LI.exp_correct lpr _ (Xreal b) A) as E.
  pose proof (LI.sub_correct lpr _ _ (Xreal 10) (Xreal (exp b)) (LI.fromZ_correct lpr 10) E) as D.
  assert (0 <= 10 - exp b) as H by (eapply sign_nonneg; [exact D | vm_compute; reflexivity]).
  rewrite <- (ln_exp b). destruct (Rle_lt_or_eq_dec (exp b) 10 ltac:(lra)) as [L|Q].
  - left. apply ln_increasing; [apply exp_pos | exact L].
  - rewrite Q. right. reflexivity.
Qed.

Theorem log10_2_f32_const : 1 <= 10100891 / 33554432 * (ln 10 / ln 2).
Proof.
  pose proof ln2_le as A. pose proof ln10_ge as Bn.
  assert (0 < ln 2) as P by (rewrite <- ln_1; apply ln_increasing; lra).
  assert (33554432 * ln 2 <= 10100891 * ln 10) as H by lra.
  unfold Rdiv. rewrite <- Rmult_assoc.
  apply (Rmult_le_reg_r (ln 2)); [exact P|]. rewrite Rmult_assoc, Rinv_l, Rmult_1_r by lra. lra.
Qed.
