(** C10: the context precision that round_ops.rs / with_precision attach to their results keeps the
    result a legal float (digits <= precision, or precision 0 = unlimited), for every legal input. *)
From Dashu Require Import Base.Prelude Float.RoundSpec Float.RoundTablesProof Float.RoundSpecProof
  Float.Contract Float.Model Float.ModelProof Float.RoundOpsModel Float.RoundOpsProof.
Open Scope Z_scope.

Section Legal.
Variable B : Z.
Hypothesis B_ge_2 : 2 <= B.
Variable digits_ub : Z -> Z.
Hypothesis dub_sound : forall s, dlen B s <= digits_ub s.
Let Bpos := Bpow_pos B B_ge_2.

Definition legal (f : fl) : Prop := fprec f = 0 \/ (0 < fprec f /\ dlen B (fsig f) <= fprec f).

Lemma dlen_le_of_lt a k : 0 <= k -> Z.abs a < B ^ k -> dlen B a <= k.
Proof.
  intros Hk H. destruct (Z.eq_dec a 0) as [->|Ha]; [rewrite (dlen_zero B); lia|].
  destruct (dlen_spec B B_ge_2 a Ha) as [[L _] G].
  destruct (Z.le_gt_cases (dlen B a) k) as [|C]; [assumption|].
  assert (B ^ k <= B ^ (dlen B a - 1)) by (apply Z.pow_le_mono_r; lia). lia.
Qed.

(** a value of magnitude <= B^k has, once normalised, at most k digits (B^k itself becomes 1) *)
Lemma normalize_sig_bound v e k : 1 <= k -> Z.abs v <= B ^ k -> dlen B (fst (normalize B v e)) <= k.
Proof.
  intros Hk Hv. pose proof (normalize_spec B B_ge_2 v e) as H.
  destruct (normalize B v e) as [s' e']. cbn [fst]. destruct H as [H0 H1].
  destruct (Z.eq_dec v 0) as [->|Hne].
  - destruct (H0 eq_refl) as [-> _]. rewrite (dlen_zero B). lia.
  - destruct (H1 Hne) as (Hs' & Hm & j & Hj & _ & Ev).
    apply dlen_le_of_lt; [lia|]. pose proof (Bpos j Hj) as Hpj.
    assert (Hle : Z.abs s' <= Z.abs v).
    { rewrite Ev, Z.abs_mul, (Z.abs_eq (B ^ j)) by lia. pose proof (Z.abs_nonneg s'). nia. }
    destruct (Z.eq_dec (Z.abs s') (B ^ k)) as [E|E]; [|lia].
    exfalso. apply Hm. apply Z.mod_divide; [lia|]. apply Z.divide_abs_r. rewrite E.
    exists (B ^ (k - 1)). replace k with ((k - 1) + 1) at 1 by lia.
    rewrite Z.pow_add_r, Z.pow_1_r by lia. reflexivity.
Qed.

Lemma quot_abs_bound s k j : 0 <= k -> 0 <= j -> Z.abs s < B ^ (j + k) -> Z.abs (Z.quot s (B ^ k)) < B ^ j.
Proof.
  intros Hk Hj H. pose proof (Bpos k Hk) as Hp.
  rewrite <- Z.quot_abs by lia. rewrite (Z.abs_eq (B ^ k)) by lia.
  rewrite Z.quot_div_nonneg by lia. apply Z.div_lt_upper_bound; [lia|].
  rewrite Z.pow_add_r in H by lia. lia.
Qed.

Lemma int_result_legal p s e r : e < 0 -> 0 <= p -> (p = 0 \/ dlen B s <= p) ->
  Z.abs (r - Z.quot s (B ^ (- e))) <= 1 -> legal (mk (normalize B r 0) (sat_sub p (- e))).
Proof.
  intros He Hp Hleg Hr. unfold legal, fprec, fsig, mk, sat_sub. cbn [fst snd].
  destruct (Z.le_gt_cases (p - - e) 0) as [C|C]; [left; lia|]. right. split; [lia|].
  rewrite Z.max_r by lia. apply normalize_sig_bound; [lia|].
  assert (Hs : Z.abs s < B ^ ((p - - e) + (- e))).
  { destruct Hleg as [->|Hd]; [lia|]. replace (p - - e + - e) with p by lia.
    pose proof (abs_lt_pow_dlen B B_ge_2 s).
    assert (B ^ dlen B s <= B ^ p) by (apply Z.pow_le_mono_r; lia). lia. }
  pose proof (quot_abs_bound s (- e) (p - - e) ltac:(lia) ltac:(lia) Hs). lia.
Qed.

Lemma self_legal p s e : 0 <= p -> (p = 0 \/ dlen B s <= p) -> legal (s, e, p).
Proof. intros Hp [->|H]; [left; reflexivity|]. unfold legal, fprec, fsig. cbn [fst snd]. lia. Qed.

Theorem trunc_legal p s e : 0 <= p -> (p = 0 \/ dlen B s <= p) -> legal (trunc_asis B digits_ub p s e).
Proof.
  intros Hp Hl. unfold trunc_asis. destruct (Z.leb_spec 0 e) as [He|He]; [apply self_legal; assumption|].
  destruct (smaller_than_one digits_ub s e); [left; reflexivity|].
  apply (int_result_legal p s e); try assumption. rewrite Z.sub_diag. cbn. lia.
Qed.

Lemma round_to_legal m p s e f : e < 0 -> 0 <= p -> (p = 0 \/ dlen B s <= p) ->
  round_to B digits_ub false m p s e = Ok f -> legal f.
Proof.
  intros He Hp Hl. unfold round_to.
  pose proof (split_internal_ok B B_ge_2 digits_ub dub_sound p s e He) as H.
  destruct (split_internal B digits_ub false p s e) as [[hi lo] k].
  destruct H as (-> & Hhi & Hlo & Hsum). unfold round_fract_chk.
  destruct (Z.abs lo <? B ^ (- e)); cbn [rbind]; [|discriminate].
  intros E. injection E as <-. apply (int_result_legal p s e); try assumption.
  rewrite <- Hhi. destruct (round_fract B m hi lo (- e)); cbn [adj]; lia.
Qed.

Theorem floor_legal p s e f : 0 <= p -> (p = 0 \/ dlen B s <= p) ->
  floor_asis B digits_ub false p s e = Ok f -> legal f.
Proof.
  intros Hp Hl. unfold floor_asis. destruct (Z.leb_spec 0 e) as [He|He].
  - intros E. injection E as <-. apply self_legal; assumption.
  - destruct (smaller_than_one digits_ub s e); [|apply round_to_legal; assumption].
    intros E. injection E as <-. destruct (0 <=? s); left; reflexivity.
Qed.

Theorem ceil_legal p s e f : 0 <= p -> (p = 0 \/ dlen B s <= p) ->
  ceil_asis B digits_ub false p s e = Ok f -> legal f.
Proof.
  intros Hp Hl. unfold ceil_asis. destruct ((s =? 0) || (0 <=? e)) eqn:T.
  - intros E. injection E as <-. apply self_legal; assumption.
  - apply Bool.orb_false_elim in T. destruct T as [_ T]. apply Z.leb_gt in T.
    destruct (smaller_than_one digits_ub s e); [|apply round_to_legal; assumption].
    intros E. injection E as <-. destruct (0 <=? s); left; reflexivity.
Qed.

Theorem round_legal p s e f : 0 <= p -> (p = 0 \/ dlen B s <= p) ->
  round_asis B digits_ub false p s e = Ok f -> legal f.
Proof.
  intros Hp Hl. unfold round_asis. destruct (Z.leb_spec 0 e) as [He|He].
  - intros E. injection E as <-. apply self_legal; assumption.
  - destruct (e + digits_ub s <? -2); [|apply round_to_legal; assumption].
    intros E. injection E as <-. left; reflexivity.
Qed.

Theorem fract_legal p s e : legal (fract_asis B digits_ub false p s e).
Proof.
  unfold fract_asis. destruct (Z.leb_spec 0 e) as [He|He]; [left; reflexivity|].
  pose proof (split_internal_ok B B_ge_2 digits_ub dub_sound p s e He) as H.
  destruct (split_internal B digits_ub false p s e) as [[hi lo] k].
  destruct H as (-> & Hhi & Hlo & Hsum). right. unfold fprec, fsig, mk. cbn [fst snd].
  split; [lia|]. apply normalize_sig_bound; lia.
Qed.

Theorem split_legal p s e : 0 <= p -> (p = 0 \/ dlen B s <= p) ->
  legal (fst (split_asis B digits_ub p s e)) /\ legal (snd (split_asis B digits_ub p s e)).
Proof.
  intros Hp Hl. split; [rewrite split_asis_trunc; apply trunc_legal; assumption|].
  unfold split_asis. destruct (Z.leb_spec 0 e) as [He|He]; [left; reflexivity|].
  destruct (smaller_than_one digits_ub s e); [apply self_legal; assumption|].
  cbn [split_digits snd]. right. unfold fprec, fsig, mk. cbn [fst snd].
  split; [lia|]. apply normalize_sig_bound; [lia|].
  pose proof (Bpos (- e) ltac:(lia)). pose proof (Z.rem_bound_abs s (B ^ (- e)) ltac:(lia)). lia.
Qed.

(** with_precision: the result fits its new precision *)
Theorem with_precision_legal m s e np : 0 <= np ->
  np = 0 \/ dlen B (approx_sig (norm_approx B (with_precision_spec B m s e np))) <= np.
Proof.
  intros Hnp. destruct (Z.eq_dec np 0) as [N0|N0]; [left; assumption|]. right.
  destruct (Z.le_gt_cases (dlen B s) np) as [D|D].
  - unfold with_precision_spec. destruct (Z.eqb_spec np 0); [lia|]. cbn [orb].
    destruct (Z.leb_spec (dlen B s) np); [|lia]. cbn [norm_approx approx_sig]. exact D.
  - destruct (with_precision_spec_props B B_ge_2 m s e np ltac:(lia) D) as (r & f & E & Hr & _).
    rewrite E. cbn [norm_approx].
    pose proof (normalize_sig_bound r (e + (dlen B s - np)) np ltac:(lia) ltac:(lia)) as Hb.
    destruct (normalize B r (e + (dlen B s - np))) as [s' e']. cbn [approx_sig fst] in *. exact Hb.
Qed.

End Legal.
