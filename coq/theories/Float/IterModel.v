(** C03 round 4, definitions only: `impl Product<T> for FBig` (float/src/iter.rs): iter.fold(FBig::ONE, FBig::mul).
    FBig::ONE carries the unlimited precision 0, so the first factor sets the precision (Context::max); every
    step is the operator FBig * FBig: the exact product of the accumulated value and the next factor, rounded once
    to the larger of the two precisions.  An FBig is (precision, (significand, exponent)). *)
From Coq Require Import List.
From Dashu Require Import Base.Prelude Float.RoundSpec Float.Contract Float.Model Float.AddModel Float.DivMulModel.
Import ListNotations.
Open Scope Z_scope.

Section Iter.
Variable B : Z.

Definition fb := (Z * (Z * Z))%type.

Definition fbig_mul_step (m : mode) (acc x : fb) : fb :=
  let '(pa, (sa, ea)) := acc in
  let '(px, (sx, ex)) := x in
  (ctx_max pa px, fbig_mul B pa px m sa ea sx ex).

Definition fbig_one : fb := (0, (1, 0)).

Definition fbig_product (m : mode) (xs : list fb) : fb := fold_left (fbig_mul_step m) xs fbig_one.

End Iter.
