(** C08 (round 3): the precision FBig::with_base chooses, in closed form over the as-is model of the code
    (Float/WithBasePrec.v: the two f32 bounds as dyadic numbers, the f32 division rounded to nearest even, `as usize`).

    lb = m1 * 2^e1 <= log2 (B^p)  and  log2 NB <= ub = m2 * 2^e2  (the contract of log2_bounds, C12), brought to the
    common scale 2^T (T = max (0, -e1, -e2)):  L = m1 * 2^(e1+T),  U = m2 * 2^(e2+T)  are integers and lb / ub = L / U.

    The precision p' the code chooses is
      - at least every integer n < 2^24 with n * ub <= lb               (never below floor (lb / ub)),
      - floor (lb / ub), or that + 1 exactly when the f32 division rounded a non-integer quotient up to an integer,
      - so NB^p' <= B^p whenever the division did not round up to an integer, and NB^(p'-1) <= B^p always:
    the rule `NewB^p' <= B^p` of the documentation can only be missed in the rounded-up case (decided on every case
    of the run), and p' is the maximal precision pmax of the rule exactly when pmax * ub <= lb (bounds tight enough),
    one less when only (pmax - 1) * ub <= lb. *)
From Coq Require Import ZArith Bool Lia Psatz.
From Dashu Require Import Float.WithBasePrec Float.WithBasePrecProof.
Open Scope Z_scope.

Section Closed.
Variables B NB p : Z.
Hypothesis B_ge_2 : 2 <= B.
Hypothesis NB_ge_2 : 2 <= NB.
Hypothesis p_nonneg : 0 <= p.
Variables m1 e1 m2 e2 : Z.
Hypothesis m1_pos : 0 < m1.
Hypothesis m2_pos : 0 < m2.

Local Notation wb_scale := (WithBasePrec.wb_scale e1 e2) (only parsing).
Local Notation wb_L := (WithBasePrec.wb_L m1 e1 e2) (only parsing).
Local Notation wb_U := (WithBasePrec.wb_U e1 m2 e2) (only parsing).

Lemma wb_scale_ok : 0 <= wb_scale /\ 0 <= e1 + wb_scale /\ 0 <= e2 + wb_scale.
Proof. unfold WithBasePrec.wb_scale. lia. Qed.

Lemma wb_L_pos : 0 < wb_L.
Proof. unfold WithBasePrec.wb_L. pose proof wb_scale_ok. pose proof (Z.pow_pos_nonneg 2 (e1 + wb_scale) ltac:(lia) ltac:(lia)). nia. Qed.
Lemma wb_U_pos : 0 < wb_U.
Proof. unfold WithBasePrec.wb_U. pose proof wb_scale_ok. pose proof (Z.pow_pos_nonneg 2 (e2 + wb_scale) ltac:(lia) ltac:(lia)). nia. Qed.

(** n * ub <= lb at the common scale is the comparison the division lemma speaks about *)
Lemma le2_of_scaled n : n * wb_U <= wb_L -> le2 (n * m2) m1 (e1 - e2).
Proof.
  unfold WithBasePrec.wb_U, WithBasePrec.wb_L, le2. pose proof wb_scale_ok as [T0 [T1 T2]]. set (T := wb_scale) in *. intros H.
  destruct (Z.leb_spec 0 (e1 - e2)) as [L|G].
  - replace (e1 + T) with ((e1 - e2) + (e2 + T)) in H by lia. rewrite (Z.pow_add_r 2 (e1 - e2) (e2 + T)) in H by lia.
    assert (P : 0 < 2 ^ (e2 + T)) by (apply Z.pow_pos_nonneg; lia).
    clear - H P. nia.
  - replace (e2 + T) with ((- (e1 - e2)) + (e1 + T)) in H by lia. rewrite (Z.pow_add_r 2 (- (e1 - e2)) (e1 + T)) in H by lia.
    assert (P : 0 < 2 ^ (e1 + T)) by (apply Z.pow_pos_nonneg; lia).
    clear - H P. nia.
Qed.

Lemma ge2_of_scaled n : wb_L <= n * wb_U -> ge2 (n * m2) m1 (e1 - e2).
Proof.
  unfold WithBasePrec.wb_U, WithBasePrec.wb_L, ge2. pose proof wb_scale_ok as [T0 [T1 T2]]. set (T := wb_scale) in *. intros H.
  destruct (Z.leb_spec 0 (e1 - e2)) as [L|G].
  - replace (e1 + T) with ((e1 - e2) + (e2 + T)) in H by lia. rewrite (Z.pow_add_r 2 (e1 - e2) (e2 + T)) in H by lia.
    assert (P : 0 < 2 ^ (e2 + T)) by (apply Z.pow_pos_nonneg; lia).
    clear - H P. nia.
  - replace (e2 + T) with ((- (e1 - e2)) + (e1 + T)) in H by lia. rewrite (Z.pow_add_r 2 (- (e1 - e2)) (e1 + T)) in H by lia.
    assert (P : 0 < 2 ^ (e1 + T)) by (apply Z.pow_pos_nonneg; lia).
    clear - H P. nia.
Qed.

(** soundness of the two bounds: 2^lb <= B^p and NB <= 2^ub, both raised to the power 2^T *)
Hypothesis lb_sound : 2 ^ wb_L <= (B ^ p) ^ (2 ^ wb_scale).
Hypothesis ub_sound : NB ^ (2 ^ wb_scale) <= 2 ^ wb_U.

Theorem with_base_prec_closed qm qe :
  f32_div_rne m1 e1 m2 e2 = (qm, qe) -> qe <= 0 -> wb_L / wb_U + 1 < 2 ^ 24 ->
  let p' := dy_floor qm qe in
  let x := wb_L / wb_U in
  (p' = x \/ (p' = x + 1 /\ qm = p' * 2 ^ (- qe) /\ wb_L mod wb_U <> 0)) /\
  (p' = x -> NB ^ p' <= B ^ p) /\
  (1 <= p' -> NB ^ (p' - 1) <= B ^ p) /\
  (forall n, 0 <= n < 2 ^ 24 -> n * wb_U <= wb_L -> n <= p').
Proof.
  intros Hdiv Hqe Hrange p' x.
  pose proof wb_scale_ok as [T0 [T1 T2]]. pose proof wb_L_pos as LP. pose proof wb_U_pos as UP.
  assert (PT : 0 < 2 ^ wb_scale) by (apply Z.pow_pos_nonneg; lia).
  assert (Pq : 0 < 2 ^ (- qe)) by (apply Z.pow_pos_nonneg; lia).
  (* the division keeps integers *)
  assert (K : forall n, 0 <= n < 2 ^ 24 ->
            (n * (wb_U * 2 ^ wb_scale) <= wb_L * 2 ^ wb_scale -> n * 2 ^ (- qe) <= qm) /\
            (wb_L * 2 ^ wb_scale <= n * (wb_U * 2 ^ wb_scale) -> qm <= n * 2 ^ (- qe))).
  { intros n Hn. pose proof (f32_div_rne_keeps_integers m1 e1 m2 e2 n m1_pos m2_pos ltac:(lia)) as KI.
    rewrite Hdiv in KI. destruct (KI Hqe) as [K1 K2]. split; intros H; rewrite Z.mul_assoc in H.
    - apply K1, le2_of_scaled. apply <- (Z.mul_le_mono_pos_r (n * wb_U) wb_L _ PT). exact H.
    - apply K2, ge2_of_scaled. apply <- (Z.mul_le_mono_pos_r wb_L (n * wb_U) _ PT). exact H. }
  assert (Ex : (wb_L * 2 ^ wb_scale) / (wb_U * 2 ^ wb_scale) = x).
  { unfold x. apply Z.div_mul_cancel_r; lia. }
  assert (Em : (wb_L * 2 ^ wb_scale) mod (wb_U * 2 ^ wb_scale) <> 0 <-> wb_L mod wb_U <> 0).
  { rewrite Z.mul_mod_distr_r by lia. clear - PT. nia. }
  assert (Qm0 : 0 <= qm).
  { destruct (K 0 ltac:(lia)) as [K1 _].
    assert (H0 : 0 * (wb_U * 2 ^ wb_scale) <= wb_L * 2 ^ wb_scale) by (rewrite Z.mul_0_l; apply Z.mul_nonneg_nonneg; lia).
    specialize (K1 H0). lia. }
  assert (Ep : p' = qm / 2 ^ (- qe)).
  { unfold p', dy_floor. destruct (Z.leb_spec 0 qe).
    - replace qe with 0 by lia. cbn. rewrite Z.div_1_r. lia.
    - reflexivity. }
  pose proof (code_prec_cases wb_L (2 ^ wb_scale) wb_U (2 ^ wb_scale) ltac:(lia) PT UP PT qm (2 ^ (- qe)) Pq K
                ltac:(rewrite Ex; exact Hrange)) as C.
  pose proof (code_prec_rule B NB p B_ge_2 NB_ge_2 p_nonneg wb_L (2 ^ wb_scale) wb_U (2 ^ wb_scale) ltac:(lia) PT UP PT
                lb_sound ub_sound qm (2 ^ (- qe)) Pq K ltac:(rewrite Ex; exact Hrange)) as R.
  cbv zeta in C, R. rewrite Ex in C, R. rewrite <- Ep in C, R.
  split.
  - destruct C as [C|[C1 [C2 C3]]]; [left; exact C | right]. split; [exact C1|]. split; [exact C2 | apply Em; exact C3].
  - destruct R as [R1 R2]. split; [exact R1|]. split; [exact R2|].
    intros n Hn H. destruct (K n Hn) as [K1 _].
    assert (H1 : n * (wb_U * 2 ^ wb_scale) <= wb_L * 2 ^ wb_scale).
    { rewrite Z.mul_assoc. apply Z.mul_le_mono_nonneg_r; [lia | exact H]. }
    specialize (K1 H1). rewrite Ep. apply Z.div_le_lower_bound; lia.
Qed.

End Closed.

(** non-vacuity: lb = 12 = log2 (4^6) and ub = 1 = log2 2 (exact bounds of powers of two): the code chooses 12 *)
Example with_base_prec_closed_ex :
  f32_div_rne 12 0 1 0 = (12582912, -20) /\ dy_floor 12582912 (-20) = 12 /\ 2 ^ 12 <= 4 ^ 6.
Proof.
  assert (D : f32_div_rne 12 0 1 0 = (12582912, -20)) by (vm_compute; reflexivity).
  assert (S1 : 2 ^ wb_L 12 0 0 <= (4 ^ 6) ^ (2 ^ wb_scale 0 0)) by (vm_compute; discriminate).
  assert (S2 : 2 ^ (2 ^ wb_scale 0 0) <= 2 ^ wb_U 0 1 0) by (vm_compute; discriminate).
  pose proof (with_base_prec_closed 4 2 6 ltac:(lia) ltac:(lia) ltac:(lia) 12 0 1 0 ltac:(lia) ltac:(lia) S1 S2
                12582912 (-20) D ltac:(lia) ltac:(vm_compute; reflexivity)) as [_ [H _]].
  split; [exact D|]. split; [vm_compute; reflexivity|].
  apply H. vm_compute. reflexivity.
Qed.
