(** C11: the open finding "directed_faithful" (findings/C11.json F05).
    In the directed modes the implementation rounds every intermediate operation in the same
    direction; the accumulated one-sided error makes the last rounding step to the wrong neighbour.
    This file (1) proves what the as-is accuracy checks ElemEncl.loose_* certify, (2) refutes the
    one-ulp claim for answers the implementation really returns (witnesses replayed on every run
    through corpus/C11.txt), using the soundness of the checkers, and (3) gives non-vacuity examples
    of accepted answers. *)
From Coq Require Import ZArith Reals Lra Lia Bool List.
From Interval Require Import Xreal Basic Sig Interval Float Float_full Specific_ops Specific_stdz Specific_sig.
From Dashu Require Import Base.Prelude Float.RoundSpec Float.Contract Float.ElemEncl Float.ElemEntryProof Float.ElemEnclProof.
Import ListNotations.
Open Scope Z_scope.

Section Loose.
Variable B : Z.
Hypothesis HB : 2 <= B.

(** less than two units in the last place of the RESULT r (at precision p) *)
Definition Loose (p : Z) (t r : R) : Prop :=
  exists E, (bpw B E <= Rabs r)%R /\ (Rabs (r - t) < 2 * bpw B (E - p + 1))%R.

Lemma loose_ulp_sound pr p T rs re t :
  encl T t -> loose_ulp pr B p T rs re = VAccept -> Loose p t (fval B rs re).
Proof.
  intros Ht. unfold loose_ulp. set (E := dlen B rs + re - 1).
  destruct (fle B 1 E (Z.abs rs) re && _) eqn:G; [|discriminate]. intros _.
  apply andb_true_iff in G. destruct G as [G1 G2].
  apply (fle_correct B HB) in G1. exists E. split.
  - rewrite (fval_1 B) in G1. unfold fval in *. rewrite abs_IZR in G1.
    rewrite Rabs_mult, (Rabs_pos_eq (powerRZ _ _)). exact G1. left. apply (bpw_pos B HB).
  - apply sign_strict_gt with (t := (fval B 2 (E - p + 1) - Rabs (fval B rs re - t))%R) in G2.
    unfold fval at 1 in G2. fold (bpw B (E - p + 1)) in G2. lra.
    apply encl_sub. apply ival_correct; assumption. apply encl_abs, encl_sub; [apply ival_correct; assumption|exact Ht].
Qed.

Theorem loose_exp_sound prt pra p s e rs re :
  loose_exp prt pra B p s e rs re = VAccept -> Loose p (exp (fval B s e)) (fval B rs re).
Proof. apply loose_ulp_sound. now apply T_exp_correct. Qed.

Theorem loose_expm1_sound prt pra p s e rs re :
  loose_expm1 prt pra B p s e rs re = VAccept -> Loose p (exp (fval B s e) - 1) (fval B rs re).
Proof. apply loose_ulp_sound. now apply T_expm1_correct. Qed.

Theorem loose_ln_sound prt pra slack steps p s e rs re :
  loose_ln prt pra slack steps B p s e rs re = VAccept -> Loose p (ln (fval B s e)) (fval B rs re).
Proof.
  unfold loose_ln. destruct (Z.leb_spec s 0); [discriminate|].
  apply loose_ulp_sound. apply T_ln_correct. assumption. now apply fval_pos.
Qed.

Theorem loose_ln1p_sound prt pra slack steps p s e rs re :
  (-1 < fval B s e)%R ->
  loose_ln1p prt pra slack steps B p s e rs re = VAccept -> Loose p (ln (1 + fval B s e)) (fval B rs re).
Proof. intros Hx. apply loose_ulp_sound. now apply T_ln1p_correct. Qed.

Theorem loose_powi_sound pra p s e n rs re :
  loose_powi pra B p s e n rs re = VAccept -> Loose p (powerRZ (fval B s e) n) (fval B rs re).
Proof.
  unfold loose_powi. destruct (Z.eqb_spec s 0); [discriminate|].
  apply loose_ulp_sound. now apply T_powi_correct.
Qed.

Theorem loose_powf_sound prt pra slack steps p s e ys ye rs re :
  loose_powf prt pra slack steps B p s e ys ye rs re = VAccept ->
  Loose p (Rpower (fval B s e) (fval B ys ye)) (fval B rs re).
Proof.
  unfold loose_powf. destruct (Z.leb_spec s 0) as [|Hs]; [discriminate|].
  assert (Hx := fval_pos B HB s e Hs).
  destruct ((0 <=? ye) && (ye <=? 64)) eqn:Q.
  - apply andb_true_iff in Q. destruct Q as [Q _]. apply Z.leb_le in Q. intros H.
    replace (fval B ys ye) with (IZR (ys * B ^ ye)).
    + rewrite <- powerRZ_Rpower by assumption. now apply loose_powi_sound in H.
    + rewrite mult_IZR, (pow_B_real B) by assumption. reflexivity.
  - apply loose_ulp_sound. now apply T_powf_correct.
Qed.

End Loose.

(** ---- refutations: answers returned by the implementation (corpus/C11.txt) that are NOT within one ulp *)
Lemma two_le_10 : 2 <= 10. Proof. lia. Qed.
Lemma two_le_3 : 2 <= 3. Proof. lia. Qed.
Lemma two_le_2 : 2 <= 2. Proof. lia. Qed.

(** exp(-87e-19), one decimal digit, mode Up: the implementation returns 2 (flag AddOne);
    the true value is 0.99999..., one ulp is 0.1 *)
Theorem directed_refuted_exp :
  Rejected 10 1 (exp (fval 10 (-87) (-19))) (fval 10 2 0) false /\
  Loose 10 1 (exp (fval 10 (-87) (-19))) (fval 10 2 0).
Proof.
  split.
  - assert (H : check_exp 40 220 10 1 (-87) (-19) 2 0 false = VReject) by (vm_compute; reflexivity).
    generalize (check_exp_sound 10 two_le_10 40 220 1 (-87) (-19) 2 0 false). rewrite H. auto.
  - apply (loose_exp_sound 10 two_le_10 40 220). vm_compute. reflexivity.
Qed.

(** exp(-2^-1291) at 300 bits, mode Up (FBig::exp): the implementation returns 1 + 2^-299,
    the true value is below 1 *)
Theorem directed_refuted_exp_300 :
  Rejected 2 300 (exp (fval 2 (-256) (-1299))) (fval 2 (2 ^ 299 + 1) (-299)) false.
Proof.
  assert (H : check_exp 40 1700 2 300 (-256) (-1299) (2 ^ 299 + 1) (-299) false = VReject) by (vm_compute; reflexivity).
  generalize (check_exp_sound 2 two_le_2 40 1700 300 (-256) (-1299) (2 ^ 299 + 1) (-299) false). rewrite H. auto.
Qed.

(** ln_1p(1057080249 * 3^-19), 20 ternary digits (the operand fits), mode Down: the implementation
    returns 2255402011 * 3^-20, which is 1.003 ulp below the true value *)
Theorem directed_refuted_ln1p :
  Rejected 3 20 (ln (1 + fval 3 1057080249 (-19))) (fval 3 2255402011 (-20)) false /\
  Loose 3 20 (ln (1 + fval 3 1057080249 (-19))) (fval 3 2255402011 (-20)).
Proof.
  assert (Hx : (-1 < fval 3 1057080249 (-19))%R).
  { generalize (fval_pos 3 two_le_3 1057080249 (-19) ltac:(lia)). lra. }
  split.
  - assert (H : check_ln1p 140 300 90 false [110; 140]%positive 3 20 1057080249 (-19) 2255402011 (-20) false = VReject)
      by (vm_compute; reflexivity).
    generalize (check_ln1p_sound 3 two_le_3 140 300 90 false [110; 140]%positive 20 1057080249 (-19) 2255402011 (-20) false Hx).
    rewrite H. auto.
  - apply (loose_ln1p_sound 3 two_le_3 140 300 90 [110; 140]%positive); [exact Hx|]. vm_compute. reflexivity.
Qed.

(** powf(2/3, 2), 2 ternary digits, mode Down: the implementation returns 1/3 for 4/9 = 0.11 (base 3),
    exactly one ulp off although the true value is representable *)
Theorem directed_refuted_powf :
  Rejected 3 2 (Rpower (fval 3 6 (-2)) (fval 3 2 0)) (fval 3 1 (-1)) false.
Proof.
  assert (H : check_powf 64 200 10 [] true 3 2 6 (-2) 2 0 1 (-1) false = VReject) by (vm_compute; reflexivity).
  generalize (check_powf_sound 3 two_le_3 64 200 10 [] true 2 6 (-2) 2 0 1 (-1) false ltac:(lia)). rewrite H. auto.
Qed.

(** ---- non-vacuity: answers of the implementation that the checkers accept (documented examples of exp.rs / log.rs) *)
Example accepted_examples :
  check_exp 60 200 10 2 (-1234) (-3) 29 (-2) false = VAccept /\
  check_expm1 60 200 10 2 (-1234) (-4) (-12) (-2) false = VAccept /\
  check_ln 120 250 70 false [110; 120]%positive 10 2 1234 (-3) 21 (-2) false = VAccept /\
  check_ln1p 120 250 70 false [110; 120]%positive 10 2 1234 (-4) 12 (-2) false = VAccept /\
  check_powi 200 true 10 2 (-1234) (-3) 10 82 (-1) false = VAccept /\
  check_powf 120 250 70 [110; 120]%positive false 10 2 123 (-2) (-456) (-2) 39 (-2) false = VAccept /\
  check_exp 60 200 10 5 0 0 1 0 true = VAccept /\
  check_exp 60 200 10 5 3 0 2 1 true = VReject.
Proof. vm_compute. repeat split. Qed.
