(** C08 proofs, part 5: the parser accepts nothing outside the documented grammar.
    If the as-is model of Repr::from_str_native (after the repairs F02, F04) returns a value, the text
    is one the grammar (parse_spec) accepts, with the same value and digit count. *)
From Dashu Require Import Base.Prelude Float.RoundSpec Float.Contract Float.Model Float.ModelProof
  Int.IoSpec Int.IoDigits Float.TextIoSpec Float.TextIoModel Float.TextIoProof Float.ParseProof.
Open Scope Z_scope.

Lemma rsplit_some f : forall s a m b, rsplit f s = Some (a, m, b) ->
  s = a ++ m :: b /\ f m = true /\ forallb (fun c => negb (f c)) b = true.
Proof.
  induction s as [|c t IH]; intros a m b H; cbn [rsplit] in H; [discriminate|].
  destruct (rsplit f t) as [[[a' m'] b']|] eqn:R.
  - inversion H; subst. destruct (IH _ _ _ eq_refl) as (E & M & Fb). subst t. repeat split; auto.
  - destruct (f c) eqn:Fc; [|discriminate]. inversion H; subst. repeat split; auto.
    clear -R. revert R. induction b as [|x b IH]; [reflexivity|]. cbn [rsplit forallb].
    destruct (rsplit f b) as [[[? ?] ?]|]; [discriminate|]. destruct (f x); [discriminate|]. intros _. cbn. apply IH. reflexivity.
Qed.

Lemma rsplit_none_inv f : forall s, rsplit f s = None -> forallb (fun c => negb (f c)) s = true.
Proof.
  induction s as [|x b IH]; [reflexivity|]. cbn [rsplit forallb].
  destruct (rsplit f b) as [[[? ?] ?]|]; [discriminate|]. destruct (f x); [discriminate|]. intros _. cbn. apply IH. reflexivity.
Qed.

Lemma lsplit_some f : forall s a b, lsplit f s = Some (a, b) ->
  exists c, s = a ++ c :: b /\ f c = true /\ forallb (fun c => negb (f c)) a = true.
Proof.
  induction s as [|x t IH]; intros a b H; cbn [lsplit] in H; [discriminate|].
  destruct (f x) eqn:Fx.
  - inversion H; subst. exists x. repeat split; auto.
  - destruct (lsplit f t) as [[a' b']|] eqn:L; [|discriminate]. inversion H; subst.
    destruct (IH _ _ eq_refl) as (c & E & Fc & Fa). exists c. subst t. cbn [app forallb]. rewrite Fx, Fa. repeat split; auto.
Qed.

Lemma lsplit_none_inv f : forall s, lsplit f s = None -> forallb (fun c => negb (f c)) s = true.
Proof.
  induction s as [|x t IH]; [reflexivity|]. cbn [lsplit forallb]. destruct (f x); [discriminate|].
  destruct (lsplit f t) as [[? ?]|]; [discriminate|]. intros _. cbn. apply IH. reflexivity.
Qed.

Lemma isize_from_str_inv s v : isize_from_str s = Ok v -> parse_scale s = Some v.
Proof.
  unfold parse_scale, isize_from_str. destruct s as [|c t]; [discriminate|].
  set (X := match c :: t with 45 :: t0 => (-1, t0) | 43 :: t0 => (1, t0) | _ => (1, c :: t) end).
  destruct X as [sg b]. destruct (dec_digits b) as [[|d ds]|]; try discriminate.
  destruct (in_isize (sg * digits_value 10 (d :: ds))); [intros H; inversion H; reflexivity | discriminate].
Qed.

Lemma body_digits_run r : forall s ds, body_digits r s = Some ds ->
  forallb (runb r) s = true /\ count_us s = len s - len ds.
Proof.
  induction s as [|c t IH]; intros ds H; cbn [body_digits] in H.
  - inversion H; subst. split; reflexivity.
  - rewrite count_us_cons, len_cons. cbn [forallb]. unfold runb at 1. destruct (Z.eqb_spec c 95) as [Ec|Ec].
    + destruct (IH _ H) as [F C]. rewrite F. split; [reflexivity | lia].
    + destruct (digit_from_ascii r c) as [d|]; [|discriminate]. destruct (body_digits r t) as [ds'|] eqn:Bd; [|discriminate].
      inversion H; subst. destruct (IH _ eq_refl) as [F C]. rewrite F, len_cons. split; [reflexivity | lia].
Qed.

Lemma strip_sign_false s : (match s with c :: _ => c <> 43 | [] => True end) -> strip_sign false s = (Positive, s).
Proof.
  destruct s as [|c t]; [reflexivity|]. intros H. apply strip_sign_unsigned. exact H.
Qed.

Lemma parse_unsigned_inv r run v : radix_valid r = true -> parse_unsigned r run = Ok v ->
  exists ds, forallb (runb r) run = true /\ body_digits r run = Some ds /\ ds <> [] /\ v = digits_value r ds /\
             count_us run = len run - len ds.
Proof.
  intros Hr H. unfold parse_unsigned in H.
  assert (H' : from_str_radix_spec false r run = Ok v /\ (match run with c :: _ => c <> 43 | [] => True end)).
  { destruct run as [|c t]; [split; [exact H | exact I]|]. destruct (Z.eqb_spec c 43); [discriminate | split; assumption]. }
  destruct H' as [H' N]. unfold from_str_radix_spec, from_str_radix_gen in H'. rewrite Hr, (strip_sign_false run N) in H'.
  unfold body_spec in H'. destruct (body_digits r run) as [[|d ds]|] eqn:Bd; try discriminate.
  unfold rmap, rbind, signed, sgnz in H'. inversion H'. destruct (body_digits_run r run _ Bd) as [F C].
  exists (d :: ds). split; [exact F|]. split; [reflexivity|]. split; [discriminate|]. split; [apply Z.mul_1_l | exact C].
Qed.

Lemma span_run_app r : forall run ds rest, forallb (runb r) run = true -> body_digits r run = Some ds ->
  (match rest with [] => True | c :: _ => runb r c = false end) ->
  span_run r (run ++ rest) = (ds, len run, rest).
Proof.
  induction run as [|c t IH]; intros ds rest F Bd R.
  - cbn in Bd. inversion Bd; subst. cbn [app]. destruct rest as [|c t]; [reflexivity|]. cbn [span_run].
    unfold runb in R. apply orb_false_iff in R. destruct R as [R1 R2]. rewrite R1.
    destruct (digit_from_ascii r c); [discriminate | reflexivity].
  - cbn [forallb] in F. apply andb_true_iff in F. destruct F as [Fc Ft]. cbn [app span_run]. cbn [body_digits] in Bd.
    rewrite len_cons. destruct (Z.eqb_spec c 95).
    + rewrite (IH _ _ Ft Bd R). reflexivity.
    + destruct (digit_from_ascii r c) as [d|]; [|discriminate]. destruct (body_digits r t) as [ds'|] eqn:Bd'; [|discriminate].
      inversion Bd; subst. rewrite (IH _ _ Ft eq_refl R). reflexivity.
Qed.

Lemma marker_not_run B hex c : (hex = true -> B = 2) -> is_marker B hex c = true -> runb (if hex then 16 else B) c = false.
Proof.
  intros Hh M. destruct (runb (if hex then 16 else B) c) eqn:R; [|reflexivity].
  rewrite (run_not_marker B hex c Hh R) in M. discriminate.
Qed.

Lemma runb_46 r : runb r 46 = false.
Proof. reflexivity. Qed.

Lemma len_zero_nil {A} (l : list A) : len l = 0 -> l = [].
Proof. destruct l; [reflexivity | rewrite len_cons; pose proof (len_nonneg l); lia]. Qed.

(** the grammar, evaluated on a text of the shape the implementation accepts *)
Lemma parse_spec_shape B s sg s1 (hex : bool) pre run1 ids dot run2 fds s4 sc :
  radix_valid B = true ->
  let r := if hex then 16 else B in
  let per := if hex then 4 else 1 in
  strip_float_sign s = (sg, s1) -> s1 = pre ++ run1 ++ dot ++ s4 ->
  ((hex = true /\ B = 2 /\ exists x, (x = 120 \/ x = 88) /\ pre = [48; x]) \/
   (hex = false /\ pre = [] /\ (B = 2 -> has_hex_prefix s1 = false))) ->
  forallb (runb r) run1 = true -> body_digits r run1 = Some ids ->
  forallb (runb r) run2 = true -> body_digits r run2 = Some fds ->
  ((dot = [] /\ run2 = []) \/ dot = 46 :: run2) ->
  ((s4 = [] /\ sc = 0) \/ exists mk sct, s4 = mk :: sct /\ is_marker B hex mk = true /\ parse_scale sct = Some sc) ->
  (run1 = [] \/ ids <> []) -> (run2 = [] \/ fds <> []) -> (ids <> [] \/ fds <> []) ->
  parse_spec B s =
  (let '(s', e') := normalize B (sg * digits_value r (ids ++ fds)) (sc - per * len fds) in
   if in_isize e' then Some (s', e', per * (len ids + len fds)) else None).
Proof.
  intros HB r per Hsg Es1 Hpre F1 Bd1 F2 Bd2 Hdot Hs4 O1 O2 O3.
  assert (Hh2 : hex = true -> B = 2) by (intros X; destruct Hpre as [(_ & EB & _)|(Eh & _)]; [exact EB | congruence]).
  unfold parse_spec. rewrite Hsg.
  assert (HP : strip_hex_prefix B s1 = (hex, run1 ++ dot ++ s4)).
  { unfold strip_hex_prefix. destruct Hpre as [(Eh & EB & x & Hx & Ep)|(Eh & Ep & Ehp)].
    - subst hex B pre. rewrite Es1. cbn [app Z.eqb Pos.eqb andb]. destruct Hx as [-> | ->]; reflexivity.
    - subst hex pre. cbn [app] in Es1. destruct (Z.eqb_spec B 2) as [EB|]; [|rewrite <- Es1; reflexivity].
      specialize (Ehp EB). rewrite <- Es1. destruct s1 as [|c [|x t]]; try reflexivity.
      rewrite has_hex_prefix_cons2 in Ehp. rewrite Ehp. reflexivity. }
  rewrite HP. fold r per.
  assert (R4 : match s4 with [] => True | c :: _ => runb r c = false /\ c <> 46 end).
  { destruct Hs4 as [[-> _]|(mk & sct & -> & M & _)]; [exact I|]. split; [apply (marker_not_run B hex mk Hh2 M)|].
    intros ->. rewrite (not_marker_x B hex 46) in M by tauto. discriminate. }
  assert (R3 : match dot ++ s4 with [] => True | c :: _ => runb r c = false end).
  { destruct Hdot as [[-> _]| ->]; cbn [app]; [destruct s4; [exact I | apply R4] | apply runb_46]. }
  rewrite (span_run_app r run1 ids (dot ++ s4) F1 Bd1 R3).
  assert (Fr : (match dot ++ s4 with c :: t => if c =? 46 then span_run r t else ([], 0, dot ++ s4) | [] => ([], 0, dot ++ s4) end)
               = (fds, len run2, s4)).
  { destruct Hdot as [[-> ->]| ->]; cbn [app].
    - cbn in Bd2. inversion Bd2; subst fds. cbn [len length Z.of_nat]. destruct s4 as [|c t]; [reflexivity|].
      destruct R4 as [_ N]. destruct (Z.eqb_spec c 46); [contradiction | reflexivity].
    - cbn [Z.eqb Pos.eqb]. apply span_run_app; auto. destruct s4; [exact I | apply R4]. }
  rewrite Fr. cbv zeta.
  assert (Sc : (match s4 with [] => Some 0 | c :: t => if is_marker B hex c then parse_scale t else None end) = Some sc).
  { destruct Hs4 as [[-> ->]|(mk & sct & -> & M & P)]; [reflexivity | rewrite M; exact P]. }
  rewrite Sc.
  assert (NZ : forall l : list Z, l <> [] -> negb (len l =? 0) = true).
  { intros [|a l] X; [contradiction|]. rewrite len_cons. pose proof (len_nonneg l). destruct (Z.eqb_spec (len l + 1) 0); [lia | reflexivity]. }
  assert (RO : ((len run1 =? 0) || negb (len ids =? 0)) && ((len run2 =? 0) || negb (len fds =? 0)) && negb (len ids + len fds =? 0) = true).
  { apply andb_true_iff. split; [apply andb_true_iff; split|].
    - destruct O1 as [-> | X]; [reflexivity | rewrite (NZ _ X); apply orb_true_r].
    - destruct O2 as [-> | X]; [reflexivity | rewrite (NZ _ X); apply orb_true_r].
    - pose proof (len_nonneg ids). pose proof (len_nonneg fds).
      destruct O3 as [X|X]; apply NZ in X; destruct (Z.eqb_spec (len ids + len fds) 0); try reflexivity;
        [assert (len ids = 0) by lia; rewrite H1 in X; discriminate | assert (len fds = 0) by lia; rewrite H1 in X; discriminate]. }
  rewrite RO. reflexivity.
Qed.

Lemma frac_inv B base frac_str fract fd : radix_valid base = true ->
  (if negb (len frac_str =? 0) then
     let d := len frac_str - count_us frac_str in let d := if (B =? 2) && (base =? 16) then 4 * d else d in
     rbind (parse_unsigned base frac_str) (fun v => Ok (v, d))
   else Ok (0, 0)) = Ok (fract, fd) ->
  exists fds, forallb (runb base) frac_str = true /\ body_digits base frac_str = Some fds /\
              count_us frac_str = len frac_str - len fds /\ (frac_str = [] \/ fds <> []).
Proof.
  intros Hb H. destruct (Z.eqb_spec (len frac_str) 0) as [E0|E0]; cbn [negb] in H.
  - rewrite (len_zero_nil _ E0). exists []. repeat split; auto.
  - destruct (parse_unsigned base frac_str) as [v| | |] eqn:P; try discriminate.
    destruct (parse_unsigned_inv base frac_str v Hb P) as (ds & F & Bd & N & _ & C). exists ds. repeat split; auto.
Qed.

Lemma int_inv r run v : radix_valid r = true -> parse_unsigned r run = Ok v ->
  exists ids, forallb (runb r) run = true /\ body_digits r run = Some ids /\ count_us run = len run - len ids /\ ids <> [].
Proof.
  intros Hr P. destruct (parse_unsigned_inv r run v Hr P) as (ds & F & Bd & N & _ & C). exists ds. repeat split; auto.
Qed.

(** what a successful run of the body parser says about the text *)
Lemma parse_body_inv B body sc (pm hp : bool) signif expo nd :
  radix_valid B = true ->
  (pm = true -> B = 2) ->
  (B = 2 -> hp = true -> exists x t, (x = 120 \/ x = 88) /\ body = 48 :: x :: t) ->
  (B = 2 -> hp = false -> has_hex_prefix body = false) ->
  parse_body_asis B body sc pm hp = Ok (signif, expo, nd) ->
  exists (hex : bool) pre run1 ids dot run2 fds,
    body = pre ++ run1 ++ dot /\
    ((hex = true /\ B = 2 /\ hp = true /\ exists x, (x = 120 \/ x = 88) /\ pre = [48; x]) \/
     (hex = false /\ pre = [] /\ (B = 2 -> hp = false))) /\
    (pm = true -> hex = true) /\
    forallb (runb (if hex then 16 else B)) run1 = true /\ body_digits (if hex then 16 else B) run1 = Some ids /\
    count_us run1 = len run1 - len ids /\
    forallb (runb (if hex then 16 else B)) run2 = true /\ body_digits (if hex then 16 else B) run2 = Some fds /\
    count_us run2 = len run2 - len fds /\
    ((dot = [] /\ run2 = []) \/ dot = 46 :: run2) /\
    (run1 = [] \/ ids <> []) /\ (run2 = [] \/ fds <> []) /\ (ids <> [] \/ fds <> []).
Proof.
  intros HB Hpm Hhp1 Hhp0 H. unfold parse_body_asis in H.
  assert (R16 : radix_valid 16 = true) by reflexivity.
  destruct (lsplit (fun c => c =? 46) body) as [[int_str frac_str]|] eqn:LS.
  - destruct (lsplit_some _ _ _ _ LS) as (c & Eb & Fc & _). apply Z.eqb_eq in Fc. subst c.
    destruct (len body =? 1); [discriminate|].
    (* integer part *)
    destruct (Z.eqb_spec (len int_str) 0) as [Ei|Ei]; cbn [negb] in H.
    + (* empty integer part *)
      rewrite (len_zero_nil _ Ei) in *. cbn [app] in Eb. destruct pm; [discriminate|]. cbn [rbind] in H.
      assert (Hhp : B = 2 -> hp = false).
      { intros EB. destruct hp; [|reflexivity]. destruct (Hhp1 EB eq_refl) as (x & t & _ & X). rewrite Eb in X. discriminate. }
      match type of H with rbind ?X _ = _ => destruct X as [[fract fd]| | |] eqn:FR; try discriminate end.
      destruct (frac_inv B B frac_str fract fd HB FR) as (fds & F2 & Bd2 & C2 & O2).
      cbn [rbind] in H. destruct (0 + fd =? 0) eqn:Nd; [discriminate|].
      exists false, [], [], [], (46 :: frac_str), frac_str, fds. cbn [app].
      split; [exact Eb|]. split; [right; repeat split; auto|]. split; [discriminate|].
      repeat split; auto.
      right. destruct O2 as [-> | X]; [|exact X]. exfalso. cbn in FR. inversion FR; subst. cbn in Nd. discriminate.
    + destruct ((B =? 2) && hp) eqn:C1.
      * (* hexadecimal form *)
        apply andb_true_iff in C1. destruct C1 as [EB Ehp]. apply Z.eqb_eq in EB.
        destruct (Hhp1 EB Ehp) as (x & t & Hx & Ebody).
        assert (Ex : x <> 46) by (destruct Hx as [-> | ->]; discriminate).
        destruct int_str as [|c0 [|c1 run1]]; [cbn in Ei; contradiction | | ].
        { rewrite Ebody in Eb. cbn [app] in Eb. inversion Eb. congruence. }
        rewrite Ebody in Eb. cbn [app] in Eb. inversion Eb; subst c0 c1. cbn [skipn] in H.
        assert (IntP : exists ids, forallb (runb 16) run1 = true /\ body_digits 16 run1 = Some ids /\
                                   count_us run1 = len run1 - len ids /\ (run1 = [] \/ ids <> []) /\
                                   exists int, (if len run1 =? 0 then Ok (0, 4 * (len run1 - count_us run1), 16)
                                                else rbind (parse_unsigned 16 run1) (fun v => Ok (v, 4 * (len run1 - count_us run1), 16))) = Ok (int, 4 * len ids, 16)).
        { destruct (Z.eqb_spec (len run1) 0) as [E0|E0].
          - rewrite (len_zero_nil _ E0). exists []. repeat split; auto. exists 0. reflexivity.
          - destruct (parse_unsigned 16 run1) as [v| | |] eqn:P; try (cbn [rbind] in H; discriminate).
            destruct (int_inv 16 run1 v R16 P) as (ids & F1 & Bd1 & C1' & N1). exists ids. repeat split; auto.
            exists v. cbn [rbind]. rewrite C1'. f_equal. f_equal. f_equal. lia. }
        destruct IntP as (ids & F1 & Bd1 & C1' & O1 & int & EI). rewrite EI in H. cbn [rbind] in H.
        match type of H with rbind ?X _ = _ => destruct X as [[fract fd]| | |] eqn:FR; try discriminate end.
        destruct (frac_inv B 16 frac_str fract fd R16 FR) as (fds & F2 & Bd2 & C2 & O2).
        cbn [rbind] in H. destruct (4 * len ids + fd =? 0) eqn:Nd; [discriminate|].
        exists true, [48; x], run1, ids, (46 :: frac_str), frac_str, fds. cbn [app].
        split; [rewrite Ebody; f_equal; f_equal; congruence|].
        split; [left; repeat split; auto; exists x; auto|]. split; [reflexivity|].
        repeat split; auto.
        destruct ids as [|i ids']; [|left; discriminate]. right. destruct O2 as [-> | X]; [|exact X]. exfalso.
        cbn in FR. inversion FR; subst. cbn in Nd. discriminate.
      * (* native radix *)
        assert (Hhp : B = 2 -> hp = false).
        { intros EB. apply andb_false_iff in C1. destruct C1 as [X|X]; [apply Z.eqb_neq in X; contradiction | exact X]. }
        assert (Pm : pm = false).
        { destruct pm; [|reflexivity]. specialize (Hpm eq_refl). rewrite (Hhp Hpm) in H.
          rewrite Hpm in H. cbn in H. discriminate. }
        subst pm. rewrite andb_false_r in H. cbn [andb] in H.
        destruct (parse_unsigned B int_str) as [v| | |] eqn:P; try (cbn [rbind] in H; discriminate).
        destruct (int_inv B int_str v HB P) as (ids & F1 & Bd1 & C1' & N1). cbn [rbind] in H.
        match type of H with rbind ?X _ = _ => destruct X as [[fract fd]| | |] eqn:FR; try discriminate end.
        destruct (frac_inv B B frac_str fract fd HB FR) as (fds & F2 & Bd2 & C2 & O2).
        exists false, [], int_str, ids, (46 :: frac_str), frac_str, fds. cbn [app].
        split; [exact Eb|]. split; [right; repeat split; auto|]. split; [discriminate|].
        repeat split; auto.
  - (* no radix point *)
    destruct ((B =? 2) && has_hex_prefix body) eqn:C1.
    + apply andb_true_iff in C1. destruct C1 as [EB Ehp2]. apply Z.eqb_eq in EB.
      assert (Ehp : hp = true) by (destruct hp; [reflexivity | rewrite (Hhp0 EB eq_refl) in Ehp2; discriminate]).
      destruct (Hhp1 EB Ehp) as (x & t & Hx & Ebody). rewrite Ebody in H. cbn [skipn] in H.
      destruct (parse_unsigned 16 t) as [v| | |] eqn:P; try (cbn [rbind] in H; discriminate).
      destruct (int_inv 16 t v R16 P) as (ids & F1 & Bd1 & C1' & N1).
      exists true, [48; x], t, ids, [], [], []. cbn [app]. rewrite app_nil_r.
      split; [exact Ebody|]. split; [left; repeat split; auto; exists x; auto|]. split; [reflexivity|].
      repeat split; auto.
    + assert (Hhp : B = 2 -> hp = false).
      { intros EB. destruct hp; [|reflexivity]. destruct (Hhp1 EB eq_refl) as (x & t & Hx & Ebody).
        rewrite Ebody, has_hex_prefix_cons2 in C1. rewrite EB in C1. destruct Hx as [-> | ->]; cbn in C1; discriminate. }
      assert (Pm : pm = false).
      { destruct pm; [|reflexivity]. specialize (Hpm eq_refl). rewrite Hpm in *. cbn [Z.eqb Pos.eqb andb] in *.
        rewrite C1 in H. cbn in H. discriminate. }
      subst pm. rewrite andb_false_r in H. cbn [andb] in H.
      destruct (parse_unsigned B body) as [v| | |] eqn:P; try (cbn [rbind] in H; discriminate).
      destruct (int_inv B body v HB P) as (ids & F1 & Bd1 & C1' & N1).
      exists false, [], body, ids, [], [], []. cbn [app]. rewrite app_nil_r.
      split; [reflexivity|]. split; [right; repeat split; auto|]. split; [discriminate|].
      repeat split; auto.
Qed.

(** ** The parser accepts nothing outside the documented grammar: whatever Repr::from_str_native returns,
    the grammar accepts the text with exactly that value and digit count. *)
Theorem parse_asis_sound B s v : radix_valid B = true -> parse_asis B s = Ok v -> parse_spec B s = Some v.
Proof.
  intros HB H.
  assert (HB2 : 2 <= B) by (unfold radix_valid in HB; apply andb_true_iff in HB; destruct HB as [X _]; apply Z.leb_le in X; exact X).
  unfold parse_asis in H. destruct (strip_float_sign s) as [sg s1] eqn:Hsg.
  set (hp := has_hex_prefix s1) in *.
  assert (HP1 : hp = true -> exists x t, (x = 120 \/ x = 88) /\ s1 = 48 :: x :: t).
  { unfold hp. intros X. destruct s1 as [|c [|x t]]; try (rewrite has_hex_prefix_short in X by (cbn; lia); discriminate).
    rewrite has_hex_prefix_cons2 in X. apply andb_true_iff in X. destruct X as [X1 X2]. apply Z.eqb_eq in X1. subst c.
    exists x, t. split; [|reflexivity]. apply orb_true_iff in X2. destruct X2 as [X2|X2]; apply Z.eqb_eq in X2; auto. }
  (* the scale *)
  assert (Sc : exists body s4 sc pm,
     s1 = body ++ s4 /\
     ((s4 = [] /\ sc = 0 /\ pm = false) \/
      exists mk sct, s4 = mk :: sct /\ is_marker B hp mk = true /\ parse_scale sct = Some sc /\
                     pm = (B =? 2) && ((mk =? 112) || (mk =? 80))) /\
     rbind (parse_body_asis B body sc pm hp)
       (fun '(signif, exponent, nd) =>
        let '(s', k) := normalize B (sg * signif) 0 in
        if s' =? 0 then Ok (0, 0, nd) else if in_isize (exponent + k) then Ok (s', exponent + k, nd) else Err E_InvalidDigit) = Ok v).
  { destruct (rsplit (marker_set B hp) s1) as [[[before mk] after]|] eqn:RS.
    - destruct (rsplit_some _ _ _ _ _ RS) as (E & M & Fa).
      destruct (isize_from_str after) as [sc| | |] eqn:IS; try discriminate. cbn [rbind] in H.
      exists before, (mk :: after), sc, ((B =? 2) && ((mk =? 112) || (mk =? 80))).
      split; [exact E|]. split; [|exact H]. right. exists mk, after. repeat split; auto. apply isize_from_str_inv; exact IS.
    - cbn [rbind] in H. exists s1, [], 0, false. rewrite app_nil_r. split; [reflexivity|]. split; [left; auto | exact H]. }
  clear H. destruct Sc as (body & s4 & sc & pm & Es1 & Hs4 & H).
  destruct (parse_body_asis B body sc pm hp) as [[[signif expo] nd]| | |] eqn:EB; try discriminate. cbn [rbind] in H.
  assert (Hpm : pm = true -> B = 2).
  { destruct Hs4 as [(_ & _ & ->)|(mk & sct & _ & _ & _ & ->)]; [discriminate|]. intros X. apply andb_true_iff in X. destruct X as [X _]. apply Z.eqb_eq in X; exact X. }
  assert (Hhp1 : B = 2 -> hp = true -> exists x t, (x = 120 \/ x = 88) /\ body = 48 :: x :: t).
  { intros _ Ehp. destruct (HP1 Ehp) as (x & t & Hx & E). rewrite E in Es1.
    destruct Hs4 as [(-> & _)|(mk & sct & -> & M & _)].
    - rewrite app_nil_r in Es1. exists x, t. split; [exact Hx | congruence].
    - destruct body as [|c0 [|c1 t']]; cbn [app] in Es1; inversion Es1; subst.
      + rewrite (not_marker_x B hp 48) in M by tauto. discriminate.
      + rewrite (not_marker_x B hp mk) in M by tauto. discriminate.
      + exists c1, t'. split; [exact Hx | reflexivity]. }
  assert (Hhp0 : B = 2 -> hp = false -> has_hex_prefix body = false).
  { intros _ Ehp. apply (has_hex_prefix_app body s4). rewrite <- Es1. exact Ehp. }
  destruct (parse_body_inv B body sc pm hp signif expo nd HB Hpm Hhp1 Hhp0 EB)
    as (hex & pre & run1 & ids & dot & run2 & fds & Ebody & Hpre & Hpmh & F1 & Bd1 & C1 & F2 & Bd2 & C2 & Hdot & O1 & O2 & O3).
  set (r := if hex then 16 else B) in *. set (per := if hex then 4 else 1) in *.
  (* markers are judged with the same flag *)
  assert (MF : forall c, is_marker B hp c = is_marker B hex c).
  { intros c. destruct Hpre as [(Eh & EB2 & Ehp & _)|(Eh & _ & Ehp)].
    - rewrite Ehp, Eh. reflexivity.
    - rewrite Eh. destruct (Z.eq_dec B 2) as [EB2|NB]; [rewrite (Ehp EB2); reflexivity | apply is_marker_flag; exact NB]. }
  assert (Hs4' : (s4 = [] /\ sc = 0) \/ exists mk sct, s4 = mk :: sct /\ is_marker B hex mk = true /\ parse_scale sct = Some sc).
  { destruct Hs4 as [(-> & -> & _)|(mk & sct & -> & M & P & _)]; [left; auto | right; exists mk, sct; rewrite <- MF; auto]. }
  assert (Hpre_spec : (hex = true /\ B = 2 /\ exists x, (x = 120 \/ x = 88) /\ pre = [48; x]) \/
                      (hex = false /\ pre = [] /\ (B = 2 -> has_hex_prefix s1 = false))).
  { destruct Hpre as [(Eh & EB2 & _ & X)|(Eh & Ep & Ehp)]; [left; auto | right; auto]. }
  assert (Es1' : s1 = pre ++ run1 ++ dot ++ s4) by (rewrite Es1, Ebody, <- !app_assoc; reflexivity).
  pose proof (parse_spec_shape B s sg s1 hex pre run1 ids dot run2 fds s4 sc HB Hsg Es1' Hpre_spec F1 Bd1 F2 Bd2 Hdot Hs4' O1 O2 O3) as PS.
  cbv zeta in PS. fold r per in PS.
  assert (Hhp2 : B = 2 -> has_hex_prefix (pre ++ run1) = hex).
  { intros EB2. destruct Hpre as [(Eh & _ & _ & x & Hx & ->)|(Eh & -> & Ehp)].
    - rewrite Eh. cbn [app]. rewrite has_hex_prefix_cons2. destruct Hx as [-> | ->]; reflexivity.
    - rewrite Eh. cbn [app] in *. apply (has_hex_prefix_app run1 (dot ++ s4)). rewrite <- Es1'. apply Ehp; exact EB2. }
  destruct (parse_body_complete B hex hp pm sc pre run1 ids dot run2 fds HB Hpre Hhp2 Hpmh F1 Bd1 C1 F2 Bd2 C2 Hdot O1 O2 O3)
    as (signif' & expo' & EB' & V).
  rewrite <- Ebody, EB in EB'. inversion EB'; subst signif' expo' nd. clear EB'.
  rewrite (final_step B (sg * signif) expo _ HB2), V in H. fold r per in H.
  rewrite PS. destruct (normalize B (sg * digits_value r (ids ++ fds)) (sc - per * len fds)) as [a b].
  destruct (in_isize b); [inversion H; reflexivity | discriminate].
Qed.

(** grammar and implementation accept the same texts with the same meaning *)
Corollary parse_asis_iff B s v : radix_valid B = true -> (parse_asis B s = Ok v <-> parse_spec B s = Some v).
Proof. intros HB. split; [apply parse_asis_sound | apply parse_asis_complete]; exact HB. Qed.
