(** C08 proofs, part 1: precision and base changes.
    with_precision (as-is) = specification; the specification meets the rounding contract; every
    modelled route of Context::convert_base returns the specification rounding of the exact value;
    the precision rule of with_base; ilog_exact. *)
From Dashu Require Import Base.Prelude Float.RoundSpec Float.RoundSpecProof Float.Contract Float.Model Float.ModelProof
  Int.IoSpec Float.TextIoSpec Float.TextIoModel.
From DashuGen Require Import RoundTables.
Open Scope Z_scope.

Section Conv.
Variable B : Z.
Hypothesis B_ge_2 : 2 <= B.

(* ---------------------------------------------------------------- flags *)

Lemma adj_flag_of_adj N d a : adj_flag N d (Z.quot N d + adj a) = a.
Proof.
  unfold adj_flag. destruct a; cbn [adj].
  - rewrite Z.add_0_r, Z.compare_refl. reflexivity.
  - destruct (Z.compare_spec (Z.quot N d + 1) (Z.quot N d)); try lia; reflexivity.
  - destruct (Z.compare_spec (Z.quot N d + -1) (Z.quot N d)); try lia; reflexivity.
Qed.

(** repr_round in the rounding case, with the flag expressed through the specification *)
Lemma repr_round_inexact p m s e : 1 <= p -> p < dlen B s ->
  let k := dlen B s - p in
  repr_round B p m s e = AInexact (spec_round m s (B ^ k)) (e + k) (adj_flag s (B ^ k) (spec_round m s (B ^ k))).
Proof.
  intros Hp Hd k. destruct (repr_round_spec B B_ge_2 p m s e Hp Hd) as (a & E & Ea). fold k in E, Ea.
  rewrite E. f_equal.
  pose proof (Bpow_pos B B_ge_2 k ltac:(unfold k; lia)) as Hk.
  assert (Hrem : Z.abs (Z.rem s (B ^ k)) < B ^ k).
  { pose proof (Z.rem_bound_abs s (B ^ k) ltac:(lia)) as Hb. rewrite (Z.abs_eq (B ^ k)) in Hb by lia. exact Hb. }
  pose proof (round_fract_spec B B_ge_2 m (Z.quot s (B ^ k)) (Z.rem s (B ^ k)) k ltac:(unfold k; lia) Hrem) as R.
  rewrite <- Ea in R.
  replace (Z.quot s (B ^ k) * B ^ k + Z.rem s (B ^ k)) with s in R by (pose proof (Z.quot_rem' s (B ^ k)); lia).
  rewrite <- R. symmetry. apply adj_flag_of_adj.
Qed.

(* ---------------------------------------------------------------- with_precision *)

(** FBig::with_precision = the specification, for every float that fits its own context
    (digits <= p0, or p0 = 0 = unlimited) *)
Theorem with_precision_asis_spec p0 p m s e : 0 <= p -> (p0 = 0 \/ dlen B s <= p0) ->
  with_precision_asis B p0 p m s e = with_precision_spec B p m s e.
Proof.
  intros Hp Hfit. unfold with_precision_asis, with_precision_spec.
  destruct (Z.eqb_spec p 0) as [->|Hp0].
  - cbn [orb]. rewrite repr_round_unlimited. cbn [approx_norm].
    destruct ((p0 =? 0) || (0 <? p0)); reflexivity.
  - cbn [orb]. destruct (Z.leb_spec (dlen B s) p) as [Hle|Hgt].
    + rewrite (repr_round_exact B p m s e Hle). cbn [approx_norm]. destruct ((p0 =? 0) || (p <? p0)); reflexivity.
    + assert (Hc : (p0 =? 0) || (p <? p0) = true).
      { destruct Hfit as [->|Hf]; [reflexivity|]. apply orb_true_iff. right. apply Z.ltb_lt. lia. }
      rewrite Hc. rewrite repr_round_inexact by lia. cbn [approx_norm]. reflexivity.
Qed.

(** what the specification guarantees when it rounds: less than one unit of the kept last digit,
    at most half a unit in the nearest modes, the side the mode prescribes, a truthful flag, and p
    digits (or the power B^p after a carry) *)
Theorem with_precision_spec_contract p m s e : 1 <= p -> p < dlen B s ->
  let k := dlen B s - p in
  let r := spec_round m s (B ^ k) in
  (exists s' e' j, with_precision_spec B p m s e = (s', e', FInexact (adj_flag s (B ^ k) r)) /\
                  0 <= j /\ e' = e + k + j /\ r = s' * B ^ j) /\
  Z.abs (r * B ^ k - s) < B ^ k /\
  (is_half_mode m = true -> 2 * Z.abs (r * B ^ k - s) <= B ^ k) /\
  side_ok m s (B ^ k) r /\
  B ^ (p - 1) <= Z.abs r <= B ^ p.
Proof.
  intros Hp Hd k r.
  pose proof (Bpow_pos B B_ge_2 k ltac:(unfold k; lia)) as Hk.
  split; [|split; [|split; [|split]]].
  - unfold with_precision_spec. destruct (Z.eqb_spec p 0); [lia|]. cbn [orb].
    destruct (Z.leb_spec (dlen B s) p); [lia|]. fold k. fold r.
    pose proof (normalize_spec B B_ge_2 r (e + k)) as N. destruct (normalize B r (e + k)) as [s' e'].
    destruct N as [N0 N1]. destruct (Z.eq_dec r 0) as [Hr|Hr].
    + destruct (N0 Hr) as [-> ->]. exfalso.
      pose proof (repr_round_digits B B_ge_2 p m s e Hp Hd) as D. cbv zeta in D.
      rewrite repr_round_inexact in D by lia. cbn [approx_sig] in D. fold k in D. fold r in D.
      rewrite Hr in D. cbn in D. pose proof (Bpow_pos B B_ge_2 (p - 1) ltac:(lia)). lia.
    + destruct (N1 Hr) as (_ & _ & j & Hj & He & Hv). exists s', e', j. repeat split; auto.
  - apply (spec_round_error m s (B ^ k) Hk).
  - apply (spec_round_error m s (B ^ k) Hk).
  - apply spec_round_side; exact Hk.
  - pose proof (repr_round_digits B B_ge_2 p m s e Hp Hd) as D. cbv zeta in D.
    rewrite repr_round_inexact in D by lia. cbn [approx_sig] in D. exact D.
Qed.

(** exact whenever representable: a normalised significand with more than p digits is not a
    multiple of B^(digits-p), so "Inexact" is truthful; with at most p digits the float is returned
    unchanged and flagged Exact *)
Theorem with_precision_spec_flag_truthful p m s e : 1 <= p -> s mod B <> 0 ->
  (dlen B s <= p -> with_precision_spec B p m s e = (s, e, FExact)) /\
  (p < dlen B s -> Z.rem s (B ^ (dlen B s - p)) <> 0).
Proof.
  intros Hp Hn. split.
  - intros Hd. unfold with_precision_spec. destruct (p =? 0); [reflexivity|]. cbn [orb].
    destruct (Z.leb_spec (dlen B s) p); [reflexivity | lia].
  - intros Hd. apply (normalized_low_nonzero B B_ge_2); [exact Hn | lia].
Qed.

End Conv.

(* ---------------------------------------------------------------- ilog_exact, precision rule *)

Lemma ilog_exact_fuel_spec fuel : forall n b pow k, 2 <= b -> 1 <= k -> pow = b ^ k ->
  let r := ilog_exact_fuel fuel n b pow k in (r = 0 \/ (k <= r /\ n = b ^ r)).
Proof.
  induction fuel as [|f IH]; intros n b pow k Hb Hk Hpow; cbn [ilog_exact_fuel]; [left; reflexivity|].
  destruct (Z.ltb_spec pow n).
  - specialize (IH n b (pow * b) (k + 1) Hb ltac:(lia)). cbv zeta in IH.
    destruct IH as [E|[L E]]; [| left; exact E | right; split; [lia | exact E]].
    rewrite Z.pow_add_r, Z.pow_1_r by lia. now rewrite Hpow.
  - destruct (Z.eqb_spec pow n); [right; split; [lia | congruence] | left; reflexivity].
Qed.

(** utils::ilog_exact: a result above 0 is the exact logarithm *)
Theorem ilog_exact_spec n b : 2 <= b -> 1 <= ilog_exact n b -> n = b ^ ilog_exact n b.
Proof.
  intros Hb Hr. unfold ilog_exact in *. destruct (n <? b); [lia|].
  pose proof (ilog_exact_fuel_spec 64 n b b 1 Hb ltac:(lia) ltac:(now rewrite Z.pow_1_r)) as H. cbv zeta in H.
  destruct H as [E|[_ E]]; [lia | exact E].
Qed.

(** the precision rule of with_base: p' is the largest integer with NB^p' <= B^p *)
Theorem base_prec_spec_rule B NB p : 2 <= B -> 2 <= NB -> 0 <= p ->
  let p' := base_prec_spec B NB p in 0 <= p' /\ NB ^ p' <= B ^ p < NB ^ (p' + 1).
Proof.
  intros HB HNB Hp p'. unfold p', base_prec_spec.
  pose proof (Bpow_pos B HB p Hp) as Ht.
  destruct (dlen_spec NB HNB (B ^ p) ltac:(lia)) as [[L U] G]. rewrite Z.abs_eq in L, U by lia.
  replace (dlen NB (B ^ p) - 1 + 1) with (dlen NB (B ^ p)) by lia. repeat split; try lia.
Qed.

(* ---------------------------------------------------------------- convert_base routes *)

Section Routes.
Variable NB : Z.
Hypothesis NB_ge_2 : 2 <= NB.

(** every exact route ends in "normalise, round, normalise" = with_precision_spec on the normalised
    exact value *)
Theorem round_norm_spec p m s e : 0 <= p ->
  round_norm NB p m s e =
  (let '(s1, e1) := normalize NB s e in let '(s2, e2, f) := with_precision_spec NB p m s1 e1 in CDone s2 e2 f).
Proof.
  intros Hp. unfold round_norm. destruct (normalize NB s e) as [s1 e1].
  pose proof (with_precision_asis_spec NB NB_ge_2 0 p m s1 e1 Hp (or_introl eq_refl)) as E.
  unfold with_precision_asis in E. cbn [Z.eqb orb] in E. rewrite E. reflexivity.
Qed.

(** same base *)
Theorem convert_same_base p m s e : 0 <= p ->
  convert_base_asis NB NB p m s e =
  (let '(s1, e1) := normalize NB s e in let '(s2, e2, f) := with_precision_spec NB p m s1 e1 in CDone s2 e2 f).
Proof. intros Hp. unfold convert_base_asis. rewrite Z.eqb_refl. apply round_norm_spec; exact Hp. Qed.

(** NB = B^n (n > 1): the exact value s * B^e is (s * B^(e mod n)) * NB^(e / n), then rounded *)
Theorem convert_power_up B p m s e : 2 <= B -> 0 <= p -> B < NB -> 1 < ilog_exact NB B ->
  let n := ilog_exact NB B in
  NB = B ^ n /\ e = n * (e / n) + e mod n /\ 0 <= e mod n < n /\
  convert_base_asis B NB p m s e = round_norm NB p m (s * B ^ (e mod n)) (e / n).
Proof.
  intros HB Hp Hlt Hn n. split; [apply ilog_exact_spec; [exact HB | fold n; lia]|].
  split; [apply Z.div_mod; fold n; lia|]. split; [apply Z.mod_pos_bound; fold n; lia|].
  unfold convert_base_asis. destruct (Z.eqb_spec NB B); [lia|].
  destruct (Z.ltb_spec B NB); [|lia]. fold n. destruct (Z.ltb_spec 1 n); [reflexivity | lia].
Qed.

(** B = NB^n (n > 1): s * B^e = s * NB^(e*n), then rounded *)
Theorem convert_power_down B p m s e : 2 <= B -> 0 <= p -> NB < B -> 1 < ilog_exact B NB ->
  let n := ilog_exact B NB in
  B = NB ^ n /\ convert_base_asis B NB p m s e = round_norm NB p m s (e * n).
Proof.
  intros HB Hp Hlt Hn n. split; [apply ilog_exact_spec; [exact NB_ge_2 | fold n; lia]|].
  unfold convert_base_asis. destruct (Z.eqb_spec NB B); [lia|].
  destruct (Z.ltb_spec B NB); [lia|]. fold n. cbn [Z.ltb Z.compare]. destruct (Z.ltb_spec 1 n); [reflexivity | lia].
Qed.

(** unrelated bases, 0 <= e <= 38: the exact integer s * B^e, then rounded *)
Theorem convert_small_pos B p m s e : NB <> B -> ilog_exact NB B <= 1 -> ilog_exact B NB <= 1 ->
  1 <= p -> 0 <= e <= threshold_small_exp ->
  convert_base_asis B NB p m s e = round_norm NB p m (s * B ^ e) 0.
Proof.
  intros Hne H1 H2 Hp He. unfold convert_base_asis. destruct (Z.eqb_spec NB B); [contradiction|].
  destruct (B <? NB).
  - destruct (Z.ltb_spec 1 (ilog_exact NB B)); [lia|]. cbn [Z.ltb Z.compare].
    destruct (Z.eqb_spec p 0); [lia|]. destruct (Z.leb_spec (Z.abs e) threshold_small_exp); [|lia].
    destruct (Z.leb_spec 0 e); [reflexivity | lia].
  - cbn [Z.ltb Z.compare]. destruct (Z.ltb_spec 1 (ilog_exact B NB)); [lia|].
    destruct (Z.eqb_spec p 0); [lia|]. destruct (Z.leb_spec (Z.abs e) threshold_small_exp); [|lia].
    destruct (Z.leb_spec 0 e); [reflexivity | lia].
Qed.

(** unlimited target precision between unrelated bases: the documented panic *)
Theorem convert_unlimited_panics B m s e : NB <> B -> ilog_exact NB B <= 1 -> ilog_exact B NB <= 1 ->
  convert_base_asis B NB 0 m s e = CPanic UnlimitedPrecision.
Proof.
  intros Hne H1 H2. unfold convert_base_asis. destruct (Z.eqb_spec NB B); [contradiction|].
  destruct (B <? NB).
  - destruct (Z.ltb_spec 1 (ilog_exact NB B)); [lia | reflexivity].
  - cbn [Z.ltb Z.compare]. destruct (Z.ltb_spec 1 (ilog_exact B NB)); [lia | reflexivity].
Qed.

(** the exact long division (dividend longer than precision + digits of the divisor): one rounding
    of the exact quotient s1 / s2 at the digit that leaves p digits *)
Theorem div_long_spec p m s1 e1 s2 e2 : 1 <= p -> 0 < s2 -> p < dlen NB (Z.quot s1 s2) ->
  let shift := dlen NB (Z.quot s1 s2) - p in
  let r := spec_round m s1 (s2 * NB ^ shift) in
  r <> 0 /\
  exists s' e' f j, div_long NB p m s1 e1 s2 e2 = CDone s' e' f /\
    0 <= j /\ e' = e1 - e2 + shift + j /\ r = s' * NB ^ j /\
    (f = FExact <-> s1 mod (s2 * NB ^ shift) = 0).
Proof.
  intros Hp Hs2 Hq shift r. unfold div_long. fold shift. cbn [split_digits].
  pose proof (Bpow_pos NB NB_ge_2 shift ltac:(unfold shift; lia)) as Hk.
  set (q := Z.quot s1 s2) in *. set (rr := Z.rem s1 s2).
  set (hi := Z.quot q (NB ^ shift)). set (lo := Z.rem q (NB ^ shift)).
  assert (Eq1 : s1 = q * s2 + rr) by (pose proof (Z.quot_rem' s1 s2); unfold q, rr; lia).
  assert (Eq2 : q = hi * NB ^ shift + lo) by (pose proof (Z.quot_rem' q (NB ^ shift)); unfold hi, lo; lia).
  assert (Brr : Z.abs rr < s2) by (pose proof (Z.rem_bound_abs s1 s2 ltac:(lia)); unfold rr; lia).
  assert (Blo : Z.abs lo < NB ^ shift).
  { pose proof (Z.rem_bound_abs q (NB ^ shift) ltac:(lia)) as Hb. rewrite (Z.abs_eq (NB ^ shift)) in Hb by lia. exact Hb. }
  (* q, lo and rr carry the sign of s1 *)
  assert (Sg : (0 <= s1 /\ 0 <= q /\ 0 <= rr /\ 0 <= lo) \/ (s1 < 0 /\ q <= 0 /\ rr <= 0 /\ lo <= 0)).
  { destruct (Z.le_gt_cases 0 s1) as [Hs|Hs]; [left | right].
    - assert (0 <= q) by (apply Z.quot_pos; lia).
      repeat split; auto; apply Z.rem_nonneg; lia.
    - assert (q <= 0).
      { unfold q. rewrite <- (Z.opp_involutive s1), Z.quot_opp_l by lia.
        pose proof (Z.quot_pos (- s1) s2 ltac:(lia) ltac:(lia)). lia. }
      repeat split; auto; apply Z.rem_nonpos; lia. }
  assert (Hq0 : q <> 0) by (intros X; rewrite X, dlen_zero in Hq; lia).
  destruct (dlen_spec NB NB_ge_2 q Hq0) as [[Lq _] _].
  replace (dlen NB q - 1) with ((p - 1) + shift) in Lq by (unfold shift; lia).
  rewrite Z.pow_add_r in Lq by (unfold shift; lia).
  pose proof (Bpow_pos NB NB_ge_2 (p - 1) ltac:(lia)) as Hp1.
  set (rem := lo * s2 + rr). set (den := s2 * NB ^ shift).
  assert (Hden : 0 < den) by (unfold den; nia).
  assert (Es : s1 = hi * den + rem) by (unfold den, rem; rewrite Eq1, Eq2 at 1; ring).
  assert (Brem : Z.abs rem < den) by (unfold rem, den; destruct Sg as [(?&?&?&?)|(?&?&?&?)]; nia).
  assert (Habs : den <= Z.abs s1) by (unfold den; destruct Sg as [(?&?&?&?)|(?&?&?&?)]; nia).
  assert (Hr : r <> 0).
  { intros X. pose proof (spec_round_error m s1 den Hden) as [E _]. cbv zeta in E. change (spec_round m s1 den) with r in E. rewrite X in E. lia. }
  split; [exact Hr|].
  destruct (Z.eqb_spec rem 0) as [E0|E0].
  - (* exact *)
    assert (Er : r = hi).
    { unfold r. fold den. pose proof (spec_round_exact m s1 den Hden) as X. rewrite Es, E0, Z.add_0_r in *.
      rewrite Z.mod_mul in X by lia. specialize (X eq_refl). nia. }
    pose proof (normalize_spec NB NB_ge_2 hi (e1 - e2 + shift)) as N.
    destruct (normalize NB hi (e1 - e2 + shift)) as [s' e']. destruct N as [_ N1].
    destruct (N1 ltac:(lia)) as (_ & _ & j & Hj & He & Hv). exists s', e', FExact, j.
    split; [reflexivity|]. split; [exact Hj|]. split; [exact He|]. split; [lia|].
    split; [|reflexivity]. intros _. rewrite Es, E0, Z.add_0_r. fold den. apply Z.mod_mul. lia.
  - pose proof (round_ratio_spec m hi rem den ltac:(lia) ltac:(rewrite (Z.abs_eq den); lia)) as R.
    rewrite (Z.sgn_pos den), Z.mul_1_l, (Z.abs_eq den), <- Es in R by lia.
    fold den. rewrite R. change (spec_round m s1 den) with r.
    pose proof (normalize_spec NB NB_ge_2 r (e1 - e2 + shift)) as N.
    destruct (normalize NB r (e1 - e2 + shift)) as [s' e']. destruct N as [_ N1].
    assert (Hne : s1 mod den <> 0).
    { rewrite Es, Z.add_comm, Z.mod_add by lia. intros X.
      destruct (Z.le_gt_cases 0 rem).
      - rewrite Z.mod_small in X by lia. lia.
      - pose proof (Z.mod_pos_bound rem den Hden).
        assert (rem mod den = rem + den) by (symmetry; apply (Z.mod_unique rem den (-1)); lia). lia. }
    destruct (N1 Hr) as (_ & _ & j & Hj & He & Hv). exists s', e', (FInexact (round_ratio m hi rem den)), j.
    split; [reflexivity|]. split; [exact Hj|]. split; [exact He|]. split; [exact Hv|].
    split; [discriminate | intros X; contradiction].
Qed.

(** unrelated bases, -38 <= e < 0: the significand is divided by the power B^-e, both written in base NB.
    With a short dividend (the precondition of repr_div) the quotient is repr_div's, i.e. (C03 theorems
    repr_div_spec, repr_div_magnitude) the specification rounding of n * NB^k / d with p or p+1 digits;
    with a long dividend it is the exact long division [div_long_spec]. *)
Theorem convert_small_neg B p m s e : NB <> B -> ilog_exact NB B <= 1 -> ilog_exact B NB <= 1 ->
  2 <= B -> 1 <= p -> - threshold_small_exp <= e < 0 ->
  let '(n, ne) := normalize NB s 0 in
  let '(d, de) := normalize NB (B ^ (- e)) 0 in
  0 < d /\
  (dlen NB n <= p + dlen NB d ->
     let k := repr_div_shift NB p n d in
     0 <= k /\
     exists a, repr_div NB p m n ne d de = Ok a /\ approx_exp a = ne - de - k /\
       approx_sig a = spec_round m (n * NB ^ k) d /\
       (match a with AExact q _ => q * d = n * NB ^ k | AInexact _ _ _ => (n * NB ^ k) mod d <> 0 end) /\
       (Z.rem n d <> 0 -> NB ^ (p - 1) * d <= Z.abs n * NB ^ k < NB ^ (p + 1) * d)) /\
  (p + dlen NB d < dlen NB n -> convert_base_asis B NB p m s e = div_long NB p m n ne d de).
Proof.
  intros Hne H1 H2 HB Hp He.
  pose proof (normalize_spec NB NB_ge_2 (B ^ (- e)) 0) as Nd.
  destruct (normalize NB s 0) as [n ne] eqn:En. destruct (normalize NB (B ^ (- e)) 0) as [d de] eqn:Ed.
  pose proof (Bpow_pos B HB (- e) ltac:(lia)) as Hpw. destruct Nd as [_ Nd].
  destruct (Nd ltac:(lia)) as (Hd0 & _ & j & Hj & _ & Hv).
  assert (Hd : 0 < d). { pose proof (Bpow_pos NB NB_ge_2 j Hj). nia. }
  split; [exact Hd|]. split.
  - intros Hshort k. destruct (repr_div_spec NB NB_ge_2 p m n ne d de Hp ltac:(lia)) as (Hk & a & Ea & Ex & Es & Et).
    fold k in Hk, Ex, Es, Et. split; [exact Hk|]. exists a.
    rewrite (Z.sgn_pos d), Z.mul_1_l, (Z.abs_eq d) in Es by lia.
    split; [exact Ea|]. split; [exact Ex|]. split; [exact Es|]. split; [exact Et|].
    intros Hr. destruct (repr_div_magnitude NB NB_ge_2 p n d Hp ltac:(lia) Hr) as [L U]. fold k in L, U.
    rewrite (Z.abs_eq d) in L, U by lia. split; [exact L | apply U; exact Hshort].
  - intros Hlong. unfold convert_base_asis. destruct (Z.eqb_spec NB B); [contradiction|].
    assert (X : forall x y, x <= 1 -> y <= 1 -> (1 <? (if B <? NB then x else 0)) = false /\ (1 <? (if B <? NB then 0 else y)) = false).
    { intros x y Hx Hy. destruct (B <? NB); split; apply Z.ltb_ge; lia. }
    destruct (X _ _ H1 H2) as [X1 X2]. rewrite X1, X2.
    destruct (Z.eqb_spec p 0); [lia|]. destruct (Z.leb_spec (Z.abs e) threshold_small_exp); [|unfold threshold_small_exp in *; lia].
    destruct (Z.leb_spec 0 e); [lia|]. rewrite En, Ed.
    destruct (Z.leb_spec (dlen NB n) (p + dlen NB d)); [lia | reflexivity].
Qed.

End Routes.

(* ---------------------------------------------------------------- refutations of the old code *)

(** F01: before the repair the exact routes returned the product unrounded.  DBig 1e30 to base 2 at
    9 bits (the precision with_base chooses for 3 decimal digits): 70 bits, flagged Exact *)
Theorem convert_base_before_fix_refuted :
  convert_exact_old 2 (1 * 10 ^ 30) 0 = CDone 931322574615478515625 30 FExact /\
  check_contract 2 9 MZero (float_rat 10 1 30) 931322574615478515625 30 FExact = false /\
  convert_base_asis 10 2 9 MZero 1 30 = CDone 403 91 (FInexact NoOp) /\
  check_contract 2 9 MZero (float_rat 10 1 30) 403 91 (FInexact NoOp) = true.
Proof. vm_compute. repeat split. Qed.

(** F05 (open): the observed answer of the ln/exp route for -98e100 to 332 bits (mode Zero) is one
    unit in the last place away from the exactly representable value and flagged inexact *)
Theorem convert_large_observed_refuted :
  let x := float_rat 10 (-98) 100 in
  let r := - 0xe006890c5e5aba3f48a41a6adc1267645e96cd1584772b07b52a0c3a5883fffffffffffffffffffffff in
  convert_base_asis 10 2 332 MZero (-98) 100 = CLarge /\
  check_contract 2 332 MZero x r 7 (FInexact NoOp) = false /\
  check_contract 2 332 MZero x (r - 1) 7 FExact = true.
Proof. vm_compute. repeat split. Qed.
