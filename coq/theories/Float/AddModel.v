(** As-is models of float addition / subtraction (float/src/add.rs) and of the square root
    (float/src/root.rs) over Z significands.  Definitions only (proofs: AddModelProof.v, SqrtModelProof.v).

    A float is (s, e) = s * B^e.  Results are returned as [approx] WITHOUT the trailing-zero stripping
    of the final [Repr::new] (value preserving, Model.normalize / ModelProof.normalize_spec); where the
    code normalises BEFORE it looks at the digit count (equal-exponent path, sqrt) the model does too.

    [digits_ub] is the fast over-estimate Repr::digits_ub (f32 log2 bounds): abstract here. *)
From Dashu Require Import Base.Prelude Float.RoundSpec Float.Contract Float.Model.
From DashuGen Require Import RoundTables.
Open Scope Z_scope.

Definition b2z (b : bool) : Z := if b then 1 else 0.

Definition approx_neg (a : approx) : approx :=   (* Approximation::map(|v| -v): the flag is kept *)
  match a with AExact s e => AExact (- s) e | AInexact s e r => AInexact (- s) e r end.
Definition approx_val (a : approx) : Z * Z := (approx_sig a, approx_exp a).   (* .value() *)

Section AddModel.
Variable B : Z.
Variable digits_ub : Z -> Z.

(** utils::shl_digits / shl_digits_in_place *)
Definition shl_digits (v k : Z) : Z := v * B ^ k.

(** Context::repr_round_sum: round  sig * B^e  with the low part  low / B^lp  (in units of B^e) *)
Definition repr_round_sum (p : Z) (m : mode) (sig e low lp : Z) (is_sub : bool) : approx :=
  if p =? 0 then AExact sig e
  else
    let rp := p + b2z is_sub in
    let d := dlen B sig in
    let '(sig, e, low, lp) :=
      match d ?= rp with
      | Eq => (sig, e, low, lp)
      | Gt =>
          let shift := d - rp in
          let '(hi, lo) := split_digits B sig shift in
          (hi, e + shift, low + shl_digits lo lp, lp + shift)
      | Lt =>
          if low =? 0 then (sig, e, low, lp)
          else
            let shift := Z.min lp (rp - d) in
            let '(pad, low') := split_digits B low (lp - shift) in
            (shl_digits sig shift + pad, e - shift, low', lp - shift)
      end in
    if low =? 0 then AExact sig e
    else let a := round_fract B m sig low lp in AInexact (sig + adj a) e a.

(** the low-part precision of the stand-in used by the far-apart branch *)
Definition far_low_prec (rp ld : Z) : Z := if ld >=? rp then 2 else rp - ld + 2.

(** Context::repr_add_large_small:  (s1, e1) + sg * (s2, e2),  e1 >= e2 *)
Definition repr_add_large_small (p : Z) (m : mode) (s1 e1 s2 e2 : Z) (sg : sign) : approx :=
  let is_sub := negb (sign_eqb (sign_of s1) (sign_mul sg (sign_of s2))) in
  let rp := p + b2z is_sub in
  let ediff := e1 - e2 in
  let ld := dlen B s1 in
  let rd := digits_ub s2 in
  let lim := negb (p =? 0) in
  if lim && (rd + 1 <? ediff) && (rd + 1 + rp <? ld + ediff) then
    (* rhs far below the last kept digit: only its sign matters *)
    repr_round_sum p m s1 e1 (sgnz sg * Z.sgn s2) (far_low_prec rp ld) is_sub
  else if lim && (ld >=? p) then
    let '(hi, lo) := split_digits B s2 ediff in
    repr_round_sum p m (s1 + sgnz sg * hi) e1 (sgnz sg * lo) ediff is_sub
  else if lim && (ediff + ld >? p) then
    let lshift := p - ld in
    let rshift := ediff - lshift in
    let '(hi, lo) := split_digits B s2 rshift in
    repr_round_sum p m (shl_digits s1 lshift + sgnz sg * hi) (e1 - lshift) (sgnz sg * lo) rshift is_sub
  else
    repr_round_sum p m (shl_digits s1 ediff + sgnz sg * s2) e2 0 0 is_sub.

(** Context::repr_add_small_large:  (s1, e1) + sg * (s2, e2),  e1 <= e2 *)
Definition repr_add_small_large (p : Z) (m : mode) (s1 e1 s2 e2 : Z) (sg : sign) : approx :=
  let is_sub := negb (sign_eqb (sign_of s1) (sign_mul sg (sign_of s2))) in
  let rp := p + b2z is_sub in
  let ediff := e2 - e1 in
  let rd := dlen B s2 in
  let ld := digits_ub s1 in
  let lim := negb (p =? 0) in
  if lim && (ld + 1 <? ediff) && (ld + 1 + rp <? rd + ediff) then
    repr_round_sum p m (sgnz sg * s2) e2 (Z.sgn s1) (far_low_prec rp rd) is_sub
  else if lim && (rd >=? p) then
    let '(hi, lo) := split_digits B s1 ediff in
    repr_round_sum p m (hi + sgnz sg * s2) e2 lo ediff is_sub
  else if lim && (ediff + rd >? p) then
    let lshift := p - rd in
    let rshift := ediff - lshift in
    let '(hi, lo) := split_digits B s1 rshift in
    repr_round_sum p m (sgnz sg * shl_digits s2 lshift + hi) (e2 - lshift) lo rshift is_sub
  else
    repr_round_sum p m (sgnz sg * shl_digits s2 ediff + s1) e1 0 0 is_sub.

(** the three-way dispatch shared by Context::add / Context::sub and the operators *)
Definition add_dispatch (p : Z) (m : mode) (s1 e1 s2 e2 : Z) (sg : sign) : approx :=
  match e1 ?= e2 with
  | Eq => let '(s, e) := normalize B (s1 + sgnz sg * s2) e1 in repr_round B p m s e
  | Gt => repr_add_large_small p m s1 e1 s2 e2 sg
  | Lt => repr_add_small_large p m s1 e1 s2 e2 sg
  end.

(** Context::add *)
Definition ctx_add (p : Z) (m : mode) (s1 e1 s2 e2 : Z) : approx :=
  if s1 =? 0 then repr_round B p m s2 e2
  else if s2 =? 0 then repr_round B p m s1 e1
  else add_dispatch p m s1 e1 s2 e2 Positive.

(** Context::sub *)
Definition ctx_sub (p : Z) (m : mode) (s1 e1 s2 e2 : Z) : approx :=
  if s1 =? 0 then approx_neg (repr_round B p m s2 e2)
  else if s2 =? 0 then repr_round B p m s1 e1
  else add_dispatch p m s1 e1 s2 e2 Negative.

(** Context::max *)
Definition ctx_max (p1 p2 : Z) : Z := if p1 >? p2 then p1 else p2.

(** the four hand-written operator bodies ( + and - of FBig in every ownership form); the zero
    shortcuts return the other operand unrounded, the result is [.value()] *)
Definition add_val_val (p1 p2 : Z) (m : mode) (s1 e1 s2 e2 : Z) (sg : sign) : Z * Z :=
  let p := ctx_max p1 p2 in
  let s2 := sgnz sg * s2 in                     (* rhs.repr.significand *= rhs_sign *)
  if s1 =? 0 then (s2, e2)
  else if s2 =? 0 then (s1, e1)
  else approx_val (add_dispatch p m s1 e1 s2 e2 Positive).

Definition add_val_ref (p1 p2 : Z) (m : mode) (s1 e1 s2 e2 : Z) (sg : sign) : Z * Z :=
  let p := ctx_max p1 p2 in
  if s1 =? 0 then (sgnz sg * s2, e2)
  else if s2 =? 0 then (s1, e1)
  else approx_val (add_dispatch p m s1 e1 s2 e2 sg).

Definition add_ref_val (p1 p2 : Z) (m : mode) (s1 e1 s2 e2 : Z) (sg : sign) : Z * Z :=
  let p := ctx_max p1 p2 in
  let s2 := sgnz sg * s2 in
  if s1 =? 0 then (s2, e2)
  else if s2 =? 0 then (s1, e1)
  else approx_val
    match e1 ?= e2 with
    | Eq => let '(s, e) := normalize B (s1 + s2) e1 in repr_round B p m s e
    | Gt => repr_add_small_large p m s2 e2 s1 e1 Positive      (* operands swapped: rhs is owned *)
    | Lt => repr_add_large_small p m s2 e2 s1 e1 Positive
    end.

Definition add_ref_ref (p1 p2 : Z) (m : mode) (s1 e1 s2 e2 : Z) (sg : sign) : Z * Z :=
  let p := ctx_max p1 p2 in
  if s1 =? 0 then (sgnz sg * s2, e2)
  else if s2 =? 0 then (s1, e1)
  else approx_val (add_dispatch p m s1 e1 s2 e2 sg).

(** Approximation::and_then *)
Definition approx_and_then (a : approx) (f : Z -> Z -> approx) : approx :=
  match a with
  | AExact s e => f s e
  | AInexact s e r => match f s e with AExact s' e' => AInexact s' e' r | b => b end
  end.

(** Context::sqrt *)
Definition ctx_sqrt (p : Z) (m : mode) (s e : Z) : result approx :=
  if p =? 0 then Panic UnlimitedPrecision
  else if s <? 0 then Panic RootNegative
  else
    let digits := dlen B s in
    let shift := p * 2 - ((digits + e) mod 2) - digits in
    let '(signif, low, low_digits) :=
      if shift >? 0 then (shl_digits s shift, 0, 0)
      else let '(hi, lo) := split_digits B s (- shift) in (hi, lo, - shift) in
    let root := Z.sqrt (Z.abs signif) in
    let rem := Z.abs signif - root * root in
    let exp := Z.quot (e - shift) 2 in
    let res :=
      if (rem =? 0) && (low =? 0) then AExact root exp      (* exact only if nothing was cut off below the radicand *)
      else
        let adjust := round_low_part m root Positive
                        (match rem ?= root with Eq => (low * 4 ?= B ^ low_digits) | c => c end) in
        AInexact (root + adj adjust) exp adjust in
    Ok (approx_and_then res (fun s' e' => let '(s'', e'') := normalize B s' e' in repr_round B p m s'' e'')).

(** the scaling exponent Context::sqrt uses *)
Definition sqrt_shift (p s e : Z) : Z := p * 2 - ((dlen B s + e) mod 2) - dlen B s.

End AddModel.

(** executable instances: the exact digit count is one admissible estimate (the theorems hold for
    every estimate that is not below the digit count, so the result does not depend on the choice) *)
Definition ctx_add_x (B : Z) := ctx_add B (dlen B).
Definition ctx_sub_x (B : Z) := ctx_sub B (dlen B).
Definition add_val_val_x (B : Z) := add_val_val B (dlen B).
Definition add_val_ref_x (B : Z) := add_val_ref B (dlen B).
Definition add_ref_val_x (B : Z) := add_ref_val B (dlen B).
Definition add_ref_ref_x (B : Z) := add_ref_ref B (dlen B).
(** the worst admissible estimate, to measure that the answer does not depend on it *)
Definition ctx_add_x1 (B : Z) := ctx_add B (fun s => dlen B s + 1).
Definition ctx_sub_x1 (B : Z) := ctx_sub B (fun s => dlen B s + 1).

(** which alignment branch / re-alignment case a pair of operands takes (exact estimate); only
    used for the coverage histogram of the correspondence run:
    0 zero shortcut, 1 equal exponents, 100*(1 large_small | 2 small_large) + 10*branch(1..4) + realign(0 Eq,1 Gt,2 Lt) *)
Definition add_path (B p s1 e1 s2 e2 : Z) (sg : sign) : Z :=
  if (s1 =? 0) || (s2 =? 0) then 0 else
  match e1 ?= e2 with
  | Eq => 1
  | c =>
    let '(l, el, r, er, base) := match c with Gt => (s1, e1, sgnz sg * s2, e2, 100) | _ => (sgnz sg * s2, e2, s1, e1, 200) end in
    let is_sub := negb (sign_eqb (sign_of l) (sign_of r)) in
    let rp := p + b2z is_sub in
    let ediff := el - er in
    let ld := dlen B l in let rd := dlen B r in
    let lim := negb (p =? 0) in
    let '(br, d) :=
      if lim && (rd + 1 <? ediff) && (rd + 1 + rp <? ld + ediff) then (10, ld)
      else if lim && (ld >=? p) then (20, dlen B (l + Z.quot r (B ^ ediff)))
      else if lim && (ediff + ld >? p) then (30, dlen B (l * B ^ (p - ld) + Z.quot r (B ^ (ediff - (p - ld)))))
      else (40, dlen B (l * B ^ ediff + r)) in
    base + br + (match d ?= rp with Eq => 0 | Gt => 1 | Lt => 2 end)
  end.
