(** C05: Repr::digits_ub as the code computes it, DEFINITION (proofs: DigitsUbProof.v).  The arms
    `match B { 2 => ub, 10 => ub * LOG10_2, _ => ub / base_lb }` and the final `log as usize + 1` are REGENERATED from
    float/src/repr.rs (DashuGen.DigitsEstGen, tools/translate_c05_r3.py); f32 is Flocq's binary32 (Cross/XLog2Model.v). *)
From Coq Require Import ZArith.
From Dashu Require Import Cross.XLog2Model.
From DashuGen Require Import DigitsEstGen.
Open Scope Z_scope.

(** on the estimates (lb, ub) of the significand and (blb, bub) of the base; usize is 64 bits *)
Definition digits_ub_est (B : Z) (lb ub blb bub : f32) : Z :=
  f_to_usize 64 (digits_ub_log_gen B lb ub blb bub) + digits_ub_plus_gen.
Definition digits_lb_est (B : Z) (lb ub blb bub : f32) : Z :=
  f_to_usize 64 (digits_lb_log_gen B lb ub blb bub) + digits_lb_plus_gen.
