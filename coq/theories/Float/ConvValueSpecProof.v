(** C08 (round 4): the specification of a base change as ONE function of the exact value
    ([ConvBaseModel4.convert_value_spec], built on C06's [rat_to_fbig_spec]) and its relation to the
    rounding of a float in normal form:

      - the specification depends on the value N/D only (not on the fraction that denotes it);
      - for a float S * NB^E of the target base, [round_norm] (= normalise, then Context::repr_round, C08_round_norm)
        IS the specification of its value.

    Consequently every route of convert_base that ends in repr_round of an exactly computed float of the
    target base returns the specification of the source value. *)
From Dashu Require Import Base.Prelude Float.RoundSpec Float.RoundSpecProof Float.Contract Float.Model Float.ModelProof
  Float.AddModelProof Float.ParseProof Float.NormalProof Int.IoSpec Float.TextIoSpec Float.TextIoModel Float.BaseConvProof
  Conv.ConvSpec Conv.ConvModel Conv.ConvRatToFbig Float.ConvBaseModel4.
From DashuGen Require Import RoundTables.
Open Scope Z_scope.

Section ValueSpec.
Variable B : Z.
Hypothesis B_ge_2 : 2 <= B.
Local Notation pw := (Bpow_pos B B_ge_2).

Lemma spec_round_ratio m N D N' D' : 0 < D -> 0 < D' -> N * D' = N' * D -> spec_round m N D = spec_round m N' D'.
Proof.
  intros HD HD' E. rewrite <- (spec_round_scale m N D D' HD HD'), <- (spec_round_scale m N' D' D HD' HD).
  rewrite E. f_equal. ring.
Qed.

Lemma cmp_ratio x y x' y' c c' : 0 < c -> 0 < c' -> x * c = x' * c' -> y * c = y' * c' -> (x ?= y) = (x' ?= y').
Proof.
  intros Hc Hc' Ex Ey. rewrite <- (cmp_scale_r x y c Hc), <- (cmp_scale_r x' y' c' Hc'). rewrite Ex, Ey. reflexivity.
Qed.

(** B^e <= |N| / D < B^(e+1) for e = rat_exp, scaled by a power of B that makes every exponent non-negative *)
Lemma rat_exp_bounds N D : N <> 0 -> 0 < D ->
  let e := rat_exp B N D in
  exists j, 0 <= j /\ 0 <= e + j /\ D * B ^ (e + j) <= Z.abs N * B ^ j < D * B ^ (e + 1 + j).
Proof.
  intros HN HD e.
  destruct (dlen_spec B B_ge_2 N HN) as [[A1 A2] A3].
  destruct (dlen_spec B B_ge_2 D ltac:(lia)) as [[D1 D2] D3].
  rewrite (Z.abs_eq D) in D1, D2 by lia.
  set (a := Z.abs N) in *. set (la := dlen B N) in *. set (ld := dlen B D) in *. set (e0 := la - ld).
  set (j := Z.abs e0 + 2).
  assert (Hj : 0 <= j) by (unfold j; lia).
  pose proof (pw j Hj) as Hpj.
  assert (B1 : D * B ^ (e0 - 1 + j) < a * B ^ j).
  { assert (E : B ^ ld * B ^ (e0 - 1 + j) = B ^ (la - 1) * B ^ j).
    { rewrite <- !Z.pow_add_r by (unfold j; lia). f_equal. unfold e0. lia. }
    pose proof (pw (e0 - 1 + j) ltac:(unfold j; lia)) as PX.
    assert (D * B ^ (e0 - 1 + j) < B ^ ld * B ^ (e0 - 1 + j)) by (apply Z.mul_lt_mono_pos_r; lia).
    assert (B ^ (la - 1) * B ^ j <= a * B ^ j) by (apply Z.mul_le_mono_nonneg_r; lia). lia. }
  assert (B2 : a * B ^ j < D * B ^ (e0 + 1 + j)).
  { assert (E : B ^ (ld - 1) * B ^ (e0 + 1 + j) = B ^ la * B ^ j).
    { rewrite <- !Z.pow_add_r by (unfold j; lia). f_equal. unfold e0. lia. }
    pose proof (pw (e0 + 1 + j) ltac:(unfold j; lia)) as PX.
    assert (a * B ^ j < B ^ la * B ^ j) by (apply Z.mul_lt_mono_pos_r; lia).
    assert (B ^ (ld - 1) * B ^ (e0 + 1 + j) <= D * B ^ (e0 + 1 + j)) by (apply Z.mul_le_mono_nonneg_r; lia). lia. }
  exists j. split; [exact Hj|]. unfold e. rewrite (rat_exp_geB B). fold a la ld e0.
  rewrite (geB_scaled B B_ge_2 a D e0 j) by (unfold j; lia).
  destruct (Z.leb_spec (D * B ^ (e0 + j)) (a * B ^ j)) as [G|G].
  - split; [unfold j; lia|]. split; [exact G | exact B2].
  - split; [unfold j; lia|]. split; [lia|]. replace (e0 - 1 + 1 + j) with (e0 + j) by lia. exact G.
Qed.

Lemma rat_exp_ratio N D N' D' : N <> 0 -> 0 < D -> 0 < D' -> N * D' = N' * D -> rat_exp B N D = rat_exp B N' D'.
Proof.
  intros HN HD HD' E.
  assert (HN' : N' <> 0) by (intros ->; nia).
  destruct (rat_exp_bounds N D HN HD) as (j & Hj & Hej & L & U). cbv zeta in *.
  set (e := rat_exp B N D) in *.
  assert (Ea : Z.abs N * D' = Z.abs N' * D).
  { assert (G : Z.abs (N * D') = Z.abs (N' * D)) by (rewrite E; reflexivity).
    rewrite !Z.abs_mul, (Z.abs_eq D'), (Z.abs_eq D) in G by lia. exact G. }
  symmetry. apply (rat_exp_unique B B_ge_2 N' D' e j HN' HD' Hj Hej).
  set (a := Z.abs N) in *. set (a' := Z.abs N') in *.
  set (X := B ^ (e + j)) in *. set (Y := B ^ j) in *. set (Z1 := B ^ (e + 1 + j)) in *.
  assert (HX : 0 < X) by (apply pw; lia). assert (HY : 0 < Y) by (apply pw; lia). assert (HZ : 0 < Z1) by (apply pw; lia).
  clearbody a a' X Y Z1. clear - HD HD' Ea L U HX HY HZ.
  split.
  - apply (Z.mul_le_mono_pos_l _ _ D HD).
    replace (D * (D' * X)) with (D' * (D * X)) by ring. replace (D * (a' * Y)) with (a' * D * Y) by ring. rewrite <- Ea.
    replace (a * D' * Y) with (D' * (a * Y)) by ring. apply Z.mul_le_mono_nonneg_l; lia.
  - apply (Z.mul_lt_mono_pos_l D _ _ HD).
    replace (D * (a' * Y)) with (a' * D * Y) by ring. rewrite <- Ea.
    replace (a * D' * Y) with (D' * (a * Y)) by ring. replace (D * (D' * Z1)) with (D' * (D * Z1)) by ring.
    apply Z.mul_lt_mono_pos_l; lia.
Qed.

(** the specification is a function of the value *)
Theorem rat_to_fbig_spec_ratio p m N D N' D' : 0 < D -> 0 < D' -> N * D' = N' * D ->
  rat_to_fbig_spec B p m N D = rat_to_fbig_spec B p m N' D'.
Proof.
  intros HD HD' E. unfold rat_to_fbig_spec.
  destruct (Z.eqb_spec N 0) as [HN|HN]; destruct (Z.eqb_spec N' 0) as [HN'|HN']; [reflexivity | exfalso; subst N; nia | exfalso; subst N'; nia |].
  rewrite <- (rat_exp_ratio N D N' D' HN HD HD' E).
  set (u := rat_exp B N D - p + 1).
  set (ex := Z.max u 0). set (sh := Z.max (- u) 0).
  assert (Eu : u = ex - sh) by (unfold ex, sh; lia).
  assert (Hex : 0 <= ex) by (unfold ex; lia). assert (Hsh : 0 <= sh) by (unfold sh; lia).
  rewrite Eu.
  destruct (round_at_scaled B B_ge_2 m N D sh ex (round_rat_at B m N D (ex - sh)) HD Hsh Hex) as [R1 C1].
  destruct (round_at_scaled B B_ge_2 m N' D' sh ex (round_rat_at B m N D (ex - sh)) HD' Hsh Hex) as [R2 C2].
  pose proof (pw ex Hex) as Pex. pose proof (pw sh Hsh) as Psh.
  assert (ER : round_rat_at B m N D (ex - sh) = round_rat_at B m N' D' (ex - sh)).
  { rewrite R1, R2. apply spec_round_ratio; [nia | nia|].
    replace (N * B ^ sh * (D' * B ^ ex)) with (N * D' * (B ^ sh * B ^ ex)) by ring. rewrite E. ring. }
  rewrite <- ER. rewrite C1, C2. f_equal.
  set (M := round_rat_at B m N D (ex - sh)).
  apply (cmp_ratio _ _ _ _ D' D HD' HD).
  - ring.
  - replace (N * B ^ sh * D') with (N * D' * B ^ sh) by ring. rewrite E. ring.
Qed.

Theorem convert_value_spec_ratio p m N D N' D' : 0 < D -> 0 < D' -> N * D' = N' * D ->
  convert_value_spec B p m N D = convert_value_spec B p m N' D'.
Proof.
  intros HD HD' E. unfold convert_value_spec. rewrite (rat_to_fbig_spec_ratio p m N D N' D' HD HD' E).
  assert (Es : Z.sgn N = Z.sgn N').
  { destruct (Z.lt_trichotomy N 0) as [L|[L|L]]; destruct (Z.lt_trichotomy N' 0) as [L'|[L'|L']]; try (exfalso; nia);
      rewrite ?(Z.sgn_neg N), ?(Z.sgn_neg N'), ?(Z.sgn_pos N), ?(Z.sgn_pos N') by lia; subst; reflexivity. }
  rewrite Es. reflexivity.
Qed.

(** the Rounding flag of repr_round (AddOne / SubOne / NoOp relative to the truncated quotient) is the flag
    "above / below / towards zero of the exact value" *)
Lemma adj_flag_flag_of_error s d r : 0 < d -> s <> 0 -> Z.abs (r * d - s) < d -> r * d <> s ->
  flag_of_error (Z.sgn s) (r * d ?= s) = Some (adj_flag s d r).
Proof.
  intros Hd Hs He Hne. unfold adj_flag, flag_of_error.
  pose proof (Z.quot_rem' s d) as Q.
  set (q := Z.quot s d) in *. set (t := Z.rem s d) in *.
  apply Z.abs_lt in He.
  assert (Lt_of : forall x y, x * d < y * d -> x < y) by (intros x y H; apply (Z.mul_lt_mono_pos_r d); assumption).
  assert (E1 : (q + 1) * d = d * q + d) by ring. assert (E2 : (q - 1) * d = d * q - d) by ring. assert (E3 : q * d = d * q) by ring.
  destruct (Z.lt_trichotomy s 0) as [L|[L|L]]; [|lia|].
  - (* negative: quot rounds up *)
    assert (Ht : - d < t <= 0).
    { pose proof (Z.rem_bound_pos_pos (- s) d Hd ltac:(lia)) as Hb. rewrite Z.rem_opp_l in Hb by lia. fold t in Hb. lia. }
    rewrite (Z.sgn_neg s L). cbn [Z.ltb Z.compare].
    destruct (Z.compare_spec (r * d) s) as [C|C|C]; [lia| |].
    + (* r d < s: below, SubOne *)
      assert (r < q) by (apply Lt_of; lia). destruct (Z.compare_spec r q); try lia. reflexivity.
    + (* r d > s: towards zero, NoOp: r = q *)
      assert (r < q + 1) by (apply Lt_of; lia). assert (q - 1 < r) by (apply Lt_of; lia).
      assert (r = q) by lia. subst r. rewrite Z.compare_refl. reflexivity.
  - assert (Ht : 0 <= t < d).
    { pose proof (Z.rem_bound_pos_pos s d Hd ltac:(lia)) as Hb. fold t in Hb. lia. }
    rewrite (Z.sgn_pos s L). cbn [Z.ltb Z.compare].
    destruct (Z.compare_spec (r * d) s) as [C|C|C]; [lia| |].
    + assert (r < q + 1) by (apply Lt_of; lia). assert (q - 1 < r) by (apply Lt_of; lia).
      assert (r = q) by lia. subst r. rewrite Z.compare_refl. reflexivity.
    + assert (q < r) by (apply Lt_of; lia). destruct (Z.compare_spec r q); try lia. reflexivity.
Qed.

(** value of a float of the target base as a fraction: [value_frac B s e] *)
Lemma value_frac_pos s e : 0 < snd (value_frac B s e).
Proof. unfold value_frac. destruct (Z.leb_spec 0 e); cbn [snd]; [lia | apply pw; lia]. Qed.

(** ** rounding a float in normal form = the specification of its value *)
Theorem with_precision_value_spec p m s e : 1 <= p -> s <> 0 -> s mod B <> 0 ->
  with_precision_spec B p m s e = convert_value_spec B p m (fst (value_frac B s e)) (snd (value_frac B s e)).
Proof.
  intros Hp Hs Hm.
  destruct (dlen_spec B B_ge_2 s Hs) as [[A1 A2] A3]. set (d := dlen B s) in *.
  set (N := fst (value_frac B s e)). set (D := snd (value_frac B s e)).
  assert (HD : 0 < D) by apply value_frac_pos.
  (* the value with every exponent made non-negative: N * B^x = s * B^(e+x) * D for x >= -e, x >= 0 *)
  assert (Hval : forall x, 0 <= x -> 0 <= e + x -> N * B ^ x = s * B ^ (e + x) * D).
  { intros x Hx Hex. unfold N, D, value_frac. destruct (Z.leb_spec 0 e); cbn [fst snd].
    - rewrite Z.pow_add_r by lia. ring.
    - replace x with (e + x + - e) at 1 by lia. rewrite (Z.pow_add_r B (e + x) (- e)) by lia. ring. }
  assert (HN : N <> 0).
  { unfold N, value_frac. destruct (Z.leb_spec 0 e); cbn [fst]; [|exact Hs]. pose proof (pw e ltac:(lia)). nia. }
  assert (HsN : Z.sgn N = Z.sgn s).
  { unfold N, value_frac. destruct (Z.leb_spec 0 e); cbn [fst]; [|reflexivity]. pose proof (pw e ltac:(lia)) as P.
    rewrite Z.sgn_mul, (Z.sgn_pos (B ^ e) P). ring. }
  (* exponent of the value *)
  assert (Hre : rat_exp B N D = d - 1 + e).
  { set (x := Z.abs e + Z.abs d + 1).
    apply (rat_exp_unique B B_ge_2 N D (d - 1 + e) x HN HD); [unfold x; lia | unfold x; lia|].
    assert (Ea : Z.abs N * B ^ x = Z.abs s * B ^ (e + x) * D).
    { rewrite <- (Z.abs_eq (B ^ x)) by (pose proof (pw x ltac:(unfold x; lia)); lia).
      rewrite <- Z.abs_mul, (Hval x) by (unfold x; lia).
      rewrite !Z.abs_mul. rewrite (Z.abs_eq (B ^ (e + x))) by (pose proof (pw (e + x) ltac:(unfold x; lia)); lia).
      rewrite (Z.abs_eq D) by lia. reflexivity. }
    rewrite Ea.
    replace (d - 1 + e + x) with ((d - 1) + (e + x)) by lia. replace (d - 1 + e + 1 + x) with (d + (e + x)) by lia.
    rewrite (Z.pow_add_r B (d - 1) (e + x)), (Z.pow_add_r B d (e + x)) by (unfold x; lia).
    pose proof (pw (e + x) ltac:(unfold x; lia)) as PX.
    set (P := B ^ (e + x)) in *. set (a := Z.abs s) in *. clearbody P a. clear - HD A1 A2 PX.
    split.
    - replace (D * (B ^ (d - 1) * P)) with (B ^ (d - 1) * (P * D)) by ring. replace (a * P * D) with (a * (P * D)) by ring.
      apply Z.mul_le_mono_nonneg_r; nia.
    - replace (D * (B ^ d * P)) with (B ^ d * (P * D)) by ring. replace (a * P * D) with (a * (P * D)) by ring.
      apply Z.mul_lt_mono_pos_r; nia. }
  unfold with_precision_spec, convert_value_spec, rat_to_fbig_spec. fold N D d.
  destruct (Z.eqb_spec N 0) as [|_]; [contradiction|]. rewrite Hre.
  destruct (Z.eqb_spec p 0) as [|_]; [lia|]. cbn [orb].
  set (u := d - 1 + e - p + 1).
  destruct (Z.leb_spec d p) as [Hd|Hd].
  - (* fits: exact *)
    set (ex := Z.max u 0). set (sh := Z.max (- u) 0).
    assert (Eu : u = ex - sh) by (unfold ex, sh; lia).
    assert (Hex : 0 <= ex) by (unfold ex; lia). assert (Hsh : 0 <= sh) by (unfold sh; lia).
    set (M := s * B ^ (e - u)).
    assert (Heu : 0 <= e - u) by (unfold u; lia).
    destruct (round_at_scaled B B_ge_2 m N D sh ex M HD Hsh Hex) as [R1 C1]. rewrite <- Eu in R1, C1.
    pose proof (pw ex Hex) as Pex. pose proof (pw sh Hsh) as Psh. pose proof (pw (e - u) Heu) as Peu.
    assert (Ev : N * B ^ sh = M * (D * B ^ ex)).
    { unfold M. rewrite (Hval sh Hsh ltac:(lia)).
      replace (e + sh) with ((e - u) + ex) by lia. rewrite Z.pow_add_r by lia. ring. }
    assert (EM : round_rat_at B m N D u = M).
    { rewrite R1. assert (0 < D * B ^ ex) by nia.
      apply (Z.mul_cancel_r _ _ (D * B ^ ex)); [lia|]. rewrite spec_round_exact; [lia | lia|].
      rewrite Ev. apply Z.mod_mul. lia. }
    rewrite EM, C1, <- Ev, Z.compare_refl. cbn [flag_of_error]. unfold M.
    rewrite (normalize_mul_pow B B_ge_2 s (e - u) u Heu). replace (u + (e - u)) with e by lia.
    rewrite (normalize_id B B_ge_2 s e); [reflexivity|].
    unfold LongModel.is_normal. destruct (Z.eqb_spec s 0); [contradiction|]. destruct (Z.eqb_spec (s mod B) 0); [contradiction | reflexivity].
  - (* rounded *)
    set (k := d - p). assert (Eu : u = e + k) by (unfold u, k; lia).
    assert (Hk : 1 <= k) by (unfold k; lia). pose proof (pw k ltac:(lia)) as Pk.
    set (r := spec_round m s (B ^ k)).
    set (ex := Z.max u 0). set (sh := Z.max (- u) 0).
    assert (Eu' : u = ex - sh) by (unfold ex, sh; lia).
    assert (Hex : 0 <= ex) by (unfold ex; lia). assert (Hsh : 0 <= sh) by (unfold sh; lia).
    destruct (round_at_scaled B B_ge_2 m N D sh ex r HD Hsh Hex) as [R1 C1]. rewrite <- Eu' in R1, C1.
    pose proof (pw ex Hex) as Pex. pose proof (pw sh Hsh) as Psh.
    (* N B^sh / (D B^ex) = s / B^k *)
    assert (Ev : N * B ^ sh * B ^ k = s * (D * B ^ ex)).
    { rewrite <- Z.mul_assoc, <- Z.pow_add_r by lia. rewrite (Hval (sh + k)) by lia.
      replace (e + (sh + k)) with ex by lia. ring. }
    assert (EM : round_rat_at B m N D u = r).
    { rewrite R1. unfold r. apply spec_round_ratio; [nia | lia | exact Ev]. }
    rewrite EM, C1. rewrite Eu.
    assert (Ec : (r * (D * B ^ ex) ?= N * B ^ sh) = (r * B ^ k ?= s)).
    { apply (cmp_ratio _ _ _ _ (B ^ k) (D * B ^ ex)); [lia | nia | ring | exact Ev]. }
    rewrite Ec, HsN.
    pose proof (spec_round_error m s (B ^ k) Pk) as [Err _]. cbv zeta in Err. fold r in Err.
    assert (Hne : r * B ^ k <> s).
    { intros Eq. pose proof (normalized_low_nonzero B B_ge_2 s k Hm Hk) as Hr. apply Hr.
      rewrite <- Eq. apply Z.rem_mul. lia. }
    rewrite (adj_flag_flag_of_error s (B ^ k) r Pk Hs Err Hne).
    destruct (normalize B r (e + k)) as [s' e']. reflexivity.
Qed.

(** ** [round_norm] of ANY representation S * NB^E of the value N / D is the specification of N / D *)
Theorem round_norm_value_spec p m S E N D : 1 <= p -> S <> 0 -> 0 < D ->
  fst (value_frac B S E) * D = N * snd (value_frac B S E) ->
  round_norm B p m S E = (let '(s', e', f) := convert_value_spec B p m N D in CDone s' e' f).
Proof.
  intros Hp HS HD Hv. rewrite (round_norm_spec B B_ge_2 p m S E ltac:(lia)).
  pose proof (normalize_spec B B_ge_2 S E) as NS. destruct (normalize B S E) as [s1 e1]. destruct NS as [_ NS].
  destruct (NS HS) as (Hs1 & Hm1 & k & Hk & He1 & ES).
  rewrite (with_precision_value_spec p m s1 e1 Hp Hs1 Hm1).
  rewrite (convert_value_spec_ratio p m _ _ N D (value_frac_pos s1 e1) HD); [reflexivity|].
  (* value (s1, e1) = value (S, E) *)
  pose proof (pw k Hk) as Pk.
  assert (Esame : fst (value_frac B s1 e1) * snd (value_frac B S E) = fst (value_frac B S E) * snd (value_frac B s1 e1)).
  { unfold value_frac. subst S e1. destruct (Z.leb_spec 0 (E + k)); destruct (Z.leb_spec 0 E); cbn [fst snd].
    - rewrite Z.pow_add_r by lia. ring.
    - replace k with (E + k + - E) at 2 by lia. rewrite (Z.pow_add_r B (E + k) (- E)) by lia. ring.
    - lia.
    - replace (- E) with (k + - (E + k)) by lia. rewrite Z.pow_add_r by lia. ring. }
  pose proof (value_frac_pos S E) as PD.
  apply (Z.mul_cancel_r _ _ (snd (value_frac B S E))); [lia|].
  replace (fst (value_frac B s1 e1) * D * snd (value_frac B S E)) with (fst (value_frac B s1 e1) * snd (value_frac B S E) * D) by ring.
  rewrite Esame.
  replace (fst (value_frac B S E) * snd (value_frac B s1 e1) * D) with (fst (value_frac B S E) * D * snd (value_frac B s1 e1)) by ring.
  rewrite Hv. ring.
Qed.

End ValueSpec.
