(** C10: specifications and as-is models of float/src/round_ops.rs (trunc, floor, ceil, round, fract,
    split_at_point(_internal)), Repr::smaller_than_one, FBig::to_int, Repr::to_int, with_precision,
    and of utils::split_digits (base-10 path).  Definitions only (proofs: RoundOpsProof.v).

    A float is (s, e, p): value s * B^e, context precision p (0 = unlimited).  IBig arithmetic is Z
    arithmetic (C01/C02/C09). *)
From Dashu Require Import Base.Prelude Float.RoundSpec Float.Contract Float.Model.
From DashuGen Require Import RoundTables.
Open Scope Z_scope.

(* ------------------------------------------------------------------ specification *)
Section Spec.
Variable B : Z.

(** the exact value s * B^e rounded to an integer under mode m *)
Definition int_spec (m : mode) (s e : Z) : Z :=
  if 0 <=? e then s * B ^ e else spec_round m s (B ^ (- e)).

Definition is_int (s e : Z) : bool := (0 <=? e) || (s mod B ^ (- e) =? 0).

(** the adjustment flag is relative to the truncated value (float/src/round.rs, table of [mode]) *)
Definition flag_of_adj (a : Z) : rounding := if a =? 0 then NoOp else if 0 <? a then AddOne else SubOne.

Inductive iapprox := IExact (v : Z) | IInexact (v : Z) (r : rounding).

Definition to_int_spec (m : mode) (s e : Z) : iapprox :=
  if is_int s e then IExact (int_spec MZero s e)
  else let r := int_spec m s e in IInexact r (flag_of_adj (r - int_spec MZero s e)).

(** fractional part, as a significand at exponent e (e < 0): s - trunc(x) * B^(-e) *)
Definition fract_sig_spec (s e : Z) : Z := if 0 <=? e then 0 else s - int_spec MZero s e * B ^ (- e).

(** with_precision: at most np digits (np = 0: unlimited); the kept digits are the rounding of the
    significand at the digit position that leaves np digits *)
Definition with_precision_spec (m : mode) (s e np : Z) : approx :=
  let d := dlen B s in
  if (np =? 0) || (d <=? np) then AExact s e
  else let k := d - np in
       let r := spec_round m s (B ^ k) in
       AInexact r (e + k) (flag_of_adj (r - Z.quot s (B ^ k))).
End Spec.

(* ------------------------------------------------------------------ as-is models *)
Section Asis.
Variable B : Z.
(** Repr::digits_ub: an f32-based estimate; the theorems only use that it never under-estimates *)
Variable digits_ub : Z -> Z.

Definition fl := (Z * Z * Z)%type.     (* significand, exponent, context precision *)
Definition mk (se : Z * Z) (p : Z) : fl := (fst se, snd se, p).
Definition FZERO : fl := (0, 0, 0).
Definition FONE : fl := (1, 0, 0).
Definition FNEG_ONE : fl := (-1, 0, 0).

Definition sat_sub (a b : Z) : Z := Z.max 0 (a - b).        (* usize::saturating_sub *)

(** Repr::smaller_than_one *)
Definition smaller_than_one (s e : Z) : bool := e + digits_ub s <? -1.

(** FBig::split_at_point_internal (requires e < 0).  [pinned = true] is the code of the pinned tree,
    which reported the context precision as the digit count of the fraction in the small case;
    [pinned = false] is the repaired code. *)
Definition split_internal (pinned : bool) (p s e : Z) : Z * Z * Z :=
  if smaller_than_one s e then (0, s, if pinned then p else - e)
  else let '(hi, lo) := split_digits B s (- e) in (hi, lo, - e).

(** Round::round_fract with its debug assertion |fract| < B^k (the harness builds with assertions) *)
Definition round_fract_chk (m : mode) (i f k : Z) : result rounding :=
  if Z.abs f <? B ^ k then Ok (round_fract B m i f k) else Panic Undocumented.

Definition trunc_asis (p s e : Z) : fl :=
  if 0 <=? e then (s, e, p)
  else if smaller_than_one s e then FZERO
  else let shift := - e in mk (normalize B (Z.quot s (B ^ shift)) 0) (sat_sub p shift).

Definition fract_asis (pinned : bool) (p s e : Z) : fl :=
  if 0 <=? e then FZERO
  else let '(_, lo, k) := split_internal pinned p s e in mk (normalize B lo e) k.

Definition split_asis (p s e : Z) : fl * fl :=
  if 0 <=? e then ((s, e, p), FZERO)
  else if smaller_than_one s e then (FZERO, (s, e, p))
  else let shift := - e in
       let '(hi, lo) := split_digits B s shift in
       (mk (normalize B hi 0) (sat_sub p shift), mk (normalize B lo e) shift).

Definition round_to (pinned : bool) (m : mode) (p s e : Z) : result fl :=
  let '(hi, lo, k) := split_internal pinned p s e in
  rbind (round_fract_chk m hi lo k) (fun a => Ok (mk (normalize B (hi + adj a) 0) (sat_sub p k))).

Definition ceil_asis (pinned : bool) (p s e : Z) : result fl :=
  if (s =? 0) || (0 <=? e) then Ok (s, e, p)
  else if smaller_than_one s e then Ok (if 0 <=? s then FONE else FZERO)
  else round_to pinned MUp p s e.

Definition floor_asis (pinned : bool) (p s e : Z) : result fl :=
  if 0 <=? e then Ok (s, e, p)
  else if smaller_than_one s e then Ok (if 0 <=? s then FZERO else FNEG_ONE)
  else round_to pinned MDown p s e.

Definition round_asis (pinned : bool) (p s e : Z) : result fl :=
  if 0 <=? e then Ok (s, e, p)
  else if e + digits_ub s <? -2 then Ok FZERO
  else round_to pinned MHalfAway p s e.

(** FBig::to_int (mode of the type) *)
Definition to_int_asis (pinned : bool) (m : mode) (p s e : Z) : result iapprox :=
  if 0 <=? e then Ok (IExact (s * B ^ e))
  else let '(hi, lo, k) := split_internal pinned p s e in
       rbind (round_fract_chk m hi lo k) (fun a => Ok (IInexact (hi + adj a) a)).

(** Repr::to_int (always truncates) *)
Definition repr_to_int_asis (s e : Z) : iapprox :=
  if 0 <=? e then IExact (s * B ^ e)
  else if smaller_than_one s e then IInexact 0 NoOp
  else IInexact (Z.quot s (B ^ (- e))) NoOp.

(** FBig::with_precision; Repr::new normalises the rounded value.  [pinned = true]: the pinned tree
    tested only `old precision > new precision`, which is false for an unlimited (0) old precision. *)
Definition norm_approx (a : approx) : approx :=
  match a with
  | AExact s e => AExact s e
  | AInexact s e r => let '(s', e') := normalize B s e in AInexact s' e' r
  end.
Definition with_precision_asis (pinned : bool) (m : mode) (p s e np : Z) : approx :=
  if (if pinned then p >? np else (p =? 0) || (p >? np)) then norm_approx (repr_round B np m s e)
  else AExact s e.

(** utils::split_digits, base 10: split the bits, divide the high part by 5^k, recombine *)
Definition split_bits (v n : Z) : Z * Z :=
  (Z.sgn v * (Z.abs v / 2 ^ n), Z.sgn v * (Z.abs v mod 2 ^ n)).
Definition split_digits_10 (v k : Z) : Z * Z :=
  if k =? 0 then (v, 0)
  else let '(q, rem1) := split_bits v k in
       let q' := Z.quot q (5 ^ k) in
       let rem2 := Z.rem q (5 ^ k) in
       (q', rem2 * 2 ^ k + rem1).
(** power-of-two bases: a pure bit split *)
Definition split_digits_pow2 (t v k : Z) : Z * Z := if k =? 0 then (v, 0) else split_bits v (k * t).
(** utils::shr_digits, base 10: shift the magnitude, then divide by 5^k *)
Definition shr_digits_10 (v k : Z) : Z :=
  if k =? 0 then v else Z.quot (Z.sgn v * (Z.abs v / 2 ^ k)) (5 ^ k).

End Asis.

(** the exact digit count is one admissible instance of digits_ub; so is the count plus one *)
Definition dub_exact (B : Z) (s : Z) : Z := dlen B s.
Definition dub_plus (B : Z) (s : Z) : Z := if s =? 0 then 0 else dlen B s + 1.
