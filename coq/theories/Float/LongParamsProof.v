(** C03 round 3: the hand-written models of LongModel.v / Model.v / AddModel.v agree with the fragments
    regenerated from float/src/{mul,root,div,add}.rs on every run (coq/gen/FloatLongParams.v): an edit of a
    threshold factor, of the exactness condition of the square root, of the remainder pick or of the zero
    shortcut of Context::sub breaks one of these equations. *)
From Dashu Require Import Base.Prelude Float.RoundSpec Float.Contract Float.Model Float.AddModel Float.DivMulModel Float.LongModel.
From DashuGen Require Import RoundTables FloatLongParams.
Open Scope Z_scope.

Theorem long_source_constants :
  (* mul.rs: the pre-shrinking of Context::mul / sqr / cubic and the classes of the double-rounding finding *)
  (forall B p k m s e,
     (k = mul_shrink_factor_gen \/ k = sqr_shrink_factor_gen -> k = 2) /\ cubic_shrink_factor_gen = 3 /\
     shrink B p 2 m s e =
       (if p =? 0 then (s, e)
        else if mul_shrink_cond_gen (dlen B s) (mul_shrink_factor_gen * p)
             then let a := repr_round B (mul_shrink_factor_gen * p) m s e in (approx_sig a, approx_exp a) else (s, e)) /\
     shrink B p 3 m s e =
       (if p =? 0 then (s, e)
        else if cubic_shrink_cond_gen (dlen B s) (cubic_shrink_factor_gen * p)
             then let a := repr_round B (cubic_shrink_factor_gen * p) m s e in (approx_sig a, approx_exp a) else (s, e))) /\
  (forall B p s1 s2,
     mul_long_class B p s1 s2 =
       negb (p =? 0) && (mul_shrink_cond_gen (dlen B s1) (mul_shrink_factor_gen * p) || mul_shrink_cond_gen (dlen B s2) (mul_shrink_factor_gen * p)) /\
     sqr_long_class B p s1 = negb (p =? 0) && sqr_shrink_cond_gen (dlen B s1) (sqr_shrink_factor_gen * p) /\
     cubic_long_class B p s1 = negb (p =? 0) && cubic_shrink_cond_gen (dlen B s1) (cubic_shrink_factor_gen * p)) /\
  (* root.rs: when the root is reported Exact, and the half test *)
  (forall B p m s e,
     ctx_sqrt B p m s e =
     if p =? 0 then Panic UnlimitedPrecision
     else if s <? 0 then Panic RootNegative
     else
       let digits := dlen B s in
       let shift := p * 2 - ((digits + e) mod 2) - digits in
       let '(signif, low, low_digits) :=
         if shift >? 0 then (shl_digits B s shift, 0, 0)
         else let '(hi, lo) := split_digits B s (- shift) in (hi, lo, - shift) in
       let root := Z.sqrt (Z.abs signif) in
       let rem := Z.abs signif - root * root in
       let exp := Z.quot (e - shift) 2 in
       let res :=
         if sqrt_exact_cond_gen (rem =? 0) (low =? 0) then AExact root exp
         else
           let adjust := round_low_part m root Positive
                           (sqrt_half_test_gen (rem ?= root) (low * sqrt_low_mult_gen ?= B ^ low_digits)) in
           AInexact (root + adj adjust) exp adjust in
       Ok (approx_and_then res (fun s' e' => let '(s'', e'') := normalize B s' e' in repr_round B p m s'' e''))) /\
  (* div.rs: the remainder pick and the exponent of Context::repr_rem *)
  (forall sl r1 r2, rem_pick sl r1 r2 = rem_pick_gen sl r1 r2) /\
  (forall B p m s1 e1 s2 e2,
     repr_rem B p m s1 e1 s2 e2 =
     if s2 =? 0 then Panic DivideBy0
     else let sig := repr_rem_sig B s1 e1 s2 e2 in
          if sig =? 0 then Ok (AExact 0 0)
          else let '(s, e) := normalize B sig (rem_exponent_gen e1 e2) in Ok (repr_round B p m s e)) /\
  (* add.rs: Context::sub negates before it rounds; repr_round_sum expands once *)
  (forall B digits_ub p m e1 s2 e2,
     ctx_sub_fixed B digits_ub p m 0 e1 s2 e2 =
     if sub_zero_negates_first_gen then repr_round B p m (- s2) e2 else approx_neg (repr_round B p m s2 e2)) /\
  (forall lp rp d, rrs_expand_shift_gen lp rp d = Z.min lp (rp - d)) /\ rrs_loops_gen = 0.
Proof.
  split. { intros B p k m s e. split; [intros [->| ->]; reflexivity|]. split; [reflexivity|]. split; reflexivity. }
  split. { intros B p s1 s2. repeat split; reflexivity. }
  split. { intros. reflexivity. }
  split. { intros. reflexivity. }
  split. { intros. reflexivity. }
  split. { intros. reflexivity. }
  split; reflexivity.
Qed.
