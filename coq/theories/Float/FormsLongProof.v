(** C03 round 3: the remaining FBig forms - FBig::sqr / cubic, SquareRoot::sqrt, Inverse::inv (for FBig and
    &FBig) are the Context methods at the float's own precision; float (+|-) primitive / big integer and the
    mirrored forms convert the integer with FBig::from (precision = its digit count, at least 1) and run the
    operator body of the ownership of the call: each returns the rounding of the exact sum at
    p = max(p, digits n) (form_ok, the contract of C03_add_operator_forms). *)
From Dashu Require Import Base.Prelude Float.RoundSpec Float.RoundTablesProof Float.RoundSpecProof
  Float.Contract Float.Model Float.ModelProof Float.AddModel Float.AddModelProof Float.SqrtModelProof
  Float.DivMulModel Float.DivMulProof Float.LongModel.
From DashuGen Require Import RoundTables.
Open Scope Z_scope.

Section FormsLong.
Variable B : Z.
Hypothesis B_ge_2 : 2 <= B.
Variable digits_ub : Z -> Z.
Hypothesis digits_ub_ok : forall s, dlen B s <= digits_ub s.

Theorem unary_forms p m s e :
  fbig_sqr B p m s e = approx_val (ctx_sqr B p m s e) /\ fbig_cubic B p m s e = approx_val (ctx_cubic B p m s e) /\
  fbig_sqrt B p m s e = map_val (ctx_sqrt B p m s e) /\ fbig_inv B p m s e = map_val (ctx_inv B p m s e) /\
  (1 <= p -> s <> 0 ->
     let k := repr_div_shift B p 1 s in
     exists a, ctx_inv B p m s e = Ok a /\ fbig_inv B p m s e = Ok (approx_val a) /\ approx_exp a = 0 - e - k /\
       rounded_quot B p m (Z.sgn s * (1 * B ^ k)) (Z.abs s) a) /\
  (1 <= p -> 0 <= s -> dlen B s <= p ->
     let shift := sqrt_shift B p s e in
     exists a, ctx_sqrt B p m s e = Ok a /\ fbig_sqrt B p m s e = Ok (approx_val a) /\
       rounded_sqrt B p m (s * B ^ shift) ((e - shift) / 2) a).
Proof.
  repeat split.
  - intros Hp Hs k. destruct (ctx_inv_rounded B B_ge_2 p m s e Hp Hs) as (_ & a & E & Ee & R).
    exists a. unfold fbig_inv. rewrite E. auto.
  - intros Hp Hs Hd shift. destruct (ctx_sqrt_correct B B_ge_2 p m s e Hp Hs Hd) as (_ & _ & a & E & R).
    exists a. unfold fbig_sqrt. rewrite E. auto.
Qed.

Theorem prim_add_forms p m s e n sg : 1 <= p -> dlen B s <= p ->
  let '(sn, en) := prim_repr B n in
  let pm := ctx_max p (prim_prec B n) in
  pm = Z.max p (prim_prec B n) /\ ctx_max (prim_prec B n) p = pm /\
  form_ok B pm m s e sn en sg (add_float_prim_vv B digits_ub p m s e n sg) /\
  form_ok B pm m s e sn en sg (add_float_prim_rv B digits_ub p m s e n sg) /\
  form_ok B pm m sn en s e sg (add_prim_float_vv B digits_ub p m n s e sg) /\
  form_ok B pm m sn en s e sg (add_prim_float_vr B digits_ub p m n s e sg).
Proof.
  intros Hp Hd. pose proof (prim_fits B B_ge_2 n) as F.
  unfold add_float_prim_vv, add_float_prim_rv, add_prim_float_vv, add_prim_float_vr.
  destruct (prim_repr B n) as [sn en]. destruct F as [Fd Fp]. cbv zeta.
  pose proof (ctx_max_spec p (prim_prec B n)) as M1. pose proof (ctx_max_spec (prim_prec B n) p) as M2.
  assert (Hpm : 1 <= ctx_max p (prim_prec B n)) by lia.
  assert (Hs : dlen B s <= ctx_max p (prim_prec B n)) by lia.
  assert (Hn : dlen B sn <= ctx_max p (prim_prec B n)) by lia.
  split; [exact M1|]. split; [lia|].
  pose proof (fbig_add_forms_correct B B_ge_2 digits_ub digits_ub_ok p (prim_prec B n) m s e sn en sg Hpm Hs Hn) as (A1 & _ & A3 & _).
  assert (E2 : ctx_max (prim_prec B n) p = ctx_max p (prim_prec B n)) by lia.
  pose proof (fbig_add_forms_correct B B_ge_2 digits_ub digits_ub_ok (prim_prec B n) p m sn en s e sg
                ltac:(rewrite E2; exact Hpm) ltac:(rewrite E2; exact Hn) ltac:(rewrite E2; exact Hs)) as (C1 & C2 & _ & _).
  rewrite E2 in C1, C2. auto.
Qed.

End FormsLong.

Example forms_long_nonvacuous :
  fbig_inv 10 2 MUp 7 0 = Ok (15, -2) /\ fbig_sqrt 10 3 MHalfAway 15 1 = Ok (122, -1) /\ fbig_sqr 10 2 MZero 99 0 = (98, 2) /\
  add_float_prim_vv_x 10 2 MHalfEven 15 (-1) 1234 Positive = (1236, 0) /\
  add_prim_float_vr_x 10 2 MHalfEven 1234 15 (-1) Negative = (12325, -1) /\
  add_float_prim_rv_x 10 3 MUp 999 0 5 Negative = (994, 0) /\ add_prim_float_vv_x 10 3 MUp 0 999 0 Negative = (-999, 0).
Proof. vm_compute. repeat split. Qed.
