(** C10 round 3: the two public primitives Round::round_fract / Round::round_ratio on ARBITRARY user input.

    (1) their bodies and the conditions of their assertions are REGENERATED from float/src/round.rs on every run
        (coq/gen/RoundPrimGen.v, tools/translate_c10_r3.py) and proved equal to the hand-written models
        (Model.round_fract / round_ratio, DivMulModel.round_fract_filtered), as are Repr::smaller_than_one and the
        "rounds to zero" test of FBig::round;
    (2) inside the documented precondition they are the specification; at the edge of it:
        precision 0 admits only a zero fraction, a zero low part is NoOp for every precision,
        round_ratio's assertion is WEAKER than its documentation (|num| = |den| passes): the nearest modes still
        answer correctly there, the directed modes do not (refuted by a witness; documented precondition |num/den| < 1);
        a release build of round_fract answers outside the precondition without complaint (witness). *)
From Dashu Require Import Base.Prelude Float.RoundSpec Float.RoundSpecProof Float.Contract Float.Model Float.ModelProof
  Float.RoundOpsModel Float.RoundOpsDeep Float.DivMulModel.
From DashuGen Require Import RoundTables RoundPrimGen.
Open Scope Z_scope.

Lemma shiftl_one a : Z.shiftl a 1 = 2 * a.
Proof. rewrite Z.shiftl_mul_pow2 by lia. change (2 ^ 1) with 2. lia. Qed.

(* ---------------------------------------------------------------- (1) generated = models *)

Theorem round_fract_gen_is_model B cg cl m i f k :
  round_fract_gen cg cl (round_low_part m) B i f k = round_fract_filtered B cg cl m i f k.
Proof.
  unfold round_fract_gen, round_fract_filtered, half_test. destruct (f =? 0); [reflexivity|].
  rewrite shiftl_one. reflexivity.
Qed.

(** the conditions of the two assertions (repaired in round 4: F04, F05) are tied in RoundAssertProof.v *)

Theorem round_ratio_gen_is_model m i n d : round_ratio_gen (round_low_part m) i n d = round_ratio m i n d.
Proof.
  unfold round_ratio_gen, round_ratio. destruct (n =? 0); [reflexivity|]. rewrite !shiftl_one. reflexivity.
Qed.

Theorem smaller_than_one_gen_is_model dub s e :
  smaller_than_one_gen dub s e = smaller_than_one dub s e /\
  round_to_zero_test_gen dub s e = (e + dub s <? -2).
Proof. split; reflexivity. Qed.

(* ---------------------------------------------------------------- (2) round_fract on any input *)

Section Prim.
Variable B : Z.
Hypothesis B_ge_2 : 2 <= B.

Theorem round_fract_debug_spec m i f k : 0 <= k ->
  (Z.abs f < B ^ k -> exists r, round_fract_debug B m i f k = Ok r /\ i + adj r = spec_round m (i * B ^ k + f) (B ^ k)) /\
  (B ^ k <= Z.abs f -> round_fract_debug B m i f k = Panic Undocumented).
Proof.
  intros Hk. unfold round_fract_debug. split; intros H.
  - destruct (Z.ltb_spec (Z.abs f) (B ^ k)); [|lia]. eexists. split; [reflexivity|].
    apply round_fract_spec; assumption.
  - destruct (Z.ltb_spec (Z.abs f) (B ^ k)); [lia | reflexivity].
Qed.

(** precision 0: B^0 = 1, the only admissible fraction is 0 *)
Theorem round_fract_precision_zero m i f :
  round_fract_debug B m i f 0 = if f =? 0 then Ok NoOp else Panic Undocumented.
Proof.
  unfold round_fract_debug, round_fract. rewrite Z.pow_0_r.
  destruct (Z.eqb_spec f 0) as [->|Hf]; [reflexivity|]. destruct (Z.ltb_spec (Z.abs f) 1); [lia | reflexivity].
Qed.

(** a zero low part: NoOp, whatever the digit count (even a meaningless negative one) *)
Theorem round_fract_zero_low m i k : round_fract B m i 0 k = NoOp.
Proof. reflexivity. Qed.

Theorem round_ratio_zero_low m i d : round_ratio m i 0 d = NoOp.
Proof. reflexivity. Qed.
End Prim.

(** outside the precondition a release build (no debug assertion) answers all the same: 5 + 30/10 is 8, "NoOp" says 5 *)
Theorem round_fract_release_outside_refuted :
  round_fract_release 10 MDown 5 30 1 = Ok NoOp /\ spec_round MDown (5 * 10 ^ 1 + 30) (10 ^ 1) = 8 /\
  round_fract_debug 10 MDown 5 30 1 = Panic Undocumented.
Proof. repeat split; vm_compute; reflexivity. Qed.

(* ---------------------------------------------------------------- round_ratio on any input *)

Theorem round_ratio_pub_spec m I num den :
  (den <> 0 -> Z.abs num < Z.abs den ->
     exists r, round_ratio_pub m I num den = Ok r /\
       I + adj r = spec_round m (Z.sgn den * (I * den + num)) (Z.abs den)) /\
  (den = 0 \/ Z.abs den < Z.abs num -> round_ratio_pub m I num den = Panic Undocumented).
Proof.
  unfold round_ratio_pub, round_ratio_pre. split.
  - intros Hd Hn. destruct (Z.eqb_spec den 0); [contradiction|]. cbn [negb andb].
    destruct (Z.leb_spec (Z.abs num) (Z.abs den)); [|lia]. eexists. split; [reflexivity|].
    apply round_ratio_spec; assumption.
  - intros [->|H]; [reflexivity|]. destruct (Z.leb_spec (Z.abs num) (Z.abs den)); [lia|].
    rewrite Bool.andb_false_r. reflexivity.
Qed.

(** |num| = |den| passes the assertion although the documentation assumes |num/den| < 1.  The value is the integer
    I + 1 or I - 1: the two nearest modes return it ... *)
Theorem round_ratio_boundary_half m I num den : is_half_mode m = true -> den <> 0 -> Z.abs num = Z.abs den ->
  exists r, round_ratio_pub m I num den = Ok r /\
    I + adj r = spec_round m (Z.sgn den * (I * den + num)) (Z.abs den).
Proof.
  intros Hm Hd Hn. unfold round_ratio_pub, round_ratio_pre.
  destruct (Z.eqb_spec den 0); [contradiction|]. cbn [negb andb].
  destruct (Z.leb_spec (Z.abs num) (Z.abs den)); [|lia]. eexists. split; [reflexivity|].
  assert (Hd' : 0 < Z.abs den) by lia.
  (* the exact value is an integer *)
  assert (Hx : exists x, (x = 1 \/ x = -1) /\ Z.sgn den * (I * den + num) = (I + x) * Z.abs den /\
                 ((0 < num <-> 0 < den) -> x = 1) /\ (~ (0 < num <-> 0 < den) -> x = -1)).
  { destruct (Z.lt_trichotomy den 0) as [D|[D|D]]; [|lia|];
      destruct (Z.lt_trichotomy num 0) as [N|[N|N]]; try lia.
    - exists 1. rewrite (Z.sgn_neg den), (Z.abs_neq den) by lia. rewrite (Z.abs_neq num), (Z.abs_neq den) in Hn by lia.
      repeat split; try lia; nia.
    - exists (-1). rewrite (Z.sgn_neg den), (Z.abs_neq den) by lia. rewrite (Z.abs_eq num), (Z.abs_neq den) in Hn by lia.
      repeat split; try lia; nia.
    - exists (-1). rewrite (Z.sgn_pos den), (Z.abs_eq den) by lia. rewrite (Z.abs_neq num), (Z.abs_eq den) in Hn by lia.
      repeat split; try lia; nia.
    - exists 1. rewrite (Z.sgn_pos den), (Z.abs_eq den) by lia. rewrite (Z.abs_eq num), (Z.abs_eq den) in Hn by lia.
      repeat split; try lia; nia. }
  destruct Hx as (x & Hx & HN & Hp & Hq). rewrite HN.
  assert (HS : spec_round m ((I + x) * Z.abs den) (Z.abs den) = I + x).
  { pose proof (spec_round_exact m ((I + x) * Z.abs den) (Z.abs den) Hd' (Z_mod_mult _ _)) as E.
    apply (Z.mul_reg_r _ _ (Z.abs den)); [lia | exact E]. }
  rewrite HS. f_equal.
  unfold round_ratio. destruct (Z.eqb_spec num 0) as [N0|N0]; [rewrite N0 in Hn; cbn in Hn; lia|].
  assert (HG : (if 0 <? den then 2 * Z.abs num ?= den else den ?= - (2 * Z.abs num)) = Gt).
  { destruct (Z.ltb_spec 0 den); apply Z.compare_gt_iff; lia. }
  rewrite HG.
  unfold sign_of. destruct (Z.ltb_spec num 0), (Z.ltb_spec den 0); cbn [sign_mul];
    destruct m; try discriminate Hm; cbn; lia.
Qed.

(** ... the directed modes do not: 0 + 1/1 under Down answers NoOp (value 0), the exact value is 1 *)
Theorem round_ratio_boundary_directed_refuted :
  round_ratio_pub MDown 0 1 1 = Ok NoOp /\ spec_round MDown (Z.sgn 1 * (0 * 1 + 1)) (Z.abs 1) = 1 /\
  round_ratio_pub MZero 3 (-2) 2 = Ok SubOne /\ round_ratio_pub MZero 3 2 2 = Ok NoOp /\
  spec_round MZero (Z.sgn 2 * (3 * 2 + 2)) (Z.abs 2) = 4.
Proof. repeat split; vm_compute; reflexivity. Qed.

Example round_prim_example :
  round_ratio_pub MHalfEven 2 (-3) 3 = Ok SubOne /\ round_ratio_pub MUp 0 5 4 = Panic Undocumented /\
  round_ratio_pub MUp 0 1 0 = Panic Undocumented /\ round_fract_debug 3 MAway 0 (-2) 1 = Ok SubOne /\
  round_fract_debug 3 MAway 0 (-3) 1 = Panic Undocumented.
Proof. repeat split; vm_compute; reflexivity. Qed.
