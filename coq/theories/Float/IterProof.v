(** C03 round 4: Product for FBig is a chain of correctly rounded multiplications.
    - the empty product is ONE with unlimited precision; a factor appended = one more operator step;
    - every step returns the specification rounding ([rounded_sum]) of the exact product of the accumulated
      value by the next factor at the running precision max(p_1 .. p_k) (or the exact product while that is 0);
    - the precision of the result is the largest precision of the factors. *)
From Coq Require Import List.
From Dashu Require Import Base.Prelude Float.RoundSpec Float.RoundTablesProof Float.RoundSpecProof
  Float.Contract Float.Model Float.ModelProof Float.AddModel Float.AddModelProof Float.DivMulModel Float.DivMulProof
  Float.IterModel.
Import ListNotations.
Open Scope Z_scope.

Section IterProof.
Variable B : Z.
Hypothesis B_ge_2 : 2 <= B.

Theorem fbig_product_nil m : fbig_product B m [] = fbig_one.
Proof. reflexivity. Qed.

Theorem fbig_product_snoc m xs x :
  fbig_product B m (xs ++ [x]) = fbig_mul_step B m (fbig_product B m xs) x.
Proof. unfold fbig_product. rewrite fold_left_app. reflexivity. Qed.

(** one step: the value is [approx_val] of a result that is the rounding of the exact product *)
Theorem fbig_mul_step_rounded m pa sa ea px sx ex : 1 <= Z.max pa px ->
  let r := fbig_mul_step B m (pa, (sa, ea)) (px, (sx, ex)) in
  fst r = Z.max pa px /\
  exists a, approx_val a = snd r /\ rounded_sum B (Z.max pa px) m (sa * sx) (ea + ex) a.
Proof.
  intros Hp. unfold fbig_mul_step, fbig_mul. cbv zeta. cbn [fst snd]. rewrite (ctx_max_spec pa px).
  split; [reflexivity|].
  exists (let '(s, e) := normalize B (sa * sx) (ea + ex) in repr_round B (Z.max pa px) m s e).
  split; [destruct (normalize B (sa * sx) (ea + ex)); reflexivity|].
  apply (equal_exp_rounded B B_ge_2). exact Hp.
Qed.

(** ... and while no factor has a limited precision the product is exact *)
Theorem fbig_mul_step_unlimited m sa ea sx ex :
  fbig_mul_step B m (0, (sa, ea)) (0, (sx, ex)) = (0, normalize B (sa * sx) (ea + ex)).
Proof.
  unfold fbig_mul_step, fbig_mul. cbn [ctx_max Z.gtb Z.compare].
  destruct (normalize B (sa * sx) (ea + ex)) as [s e]. rewrite repr_round_unlimited. reflexivity.
Qed.

(** the precision of a product is the largest precision of its factors *)
Lemma fold_mul_step_precision m xs : forall acc,
  fst (fold_left (fbig_mul_step B m) xs acc) = fold_left Z.max (map fst xs) (fst acc).
Proof.
  induction xs as [|[px [sx ex]] xs IH]; intros [pa [sa ea]]; [reflexivity|].
  cbn [fold_left map]. rewrite IH. unfold fbig_mul_step. cbn [fst]. rewrite ctx_max_spec. reflexivity.
Qed.

Theorem fbig_product_precision m xs :
  fst (fbig_product B m xs) = fold_left Z.max (map fst xs) 0.
Proof. unfold fbig_product. rewrite fold_mul_step_precision. reflexivity. Qed.

(** the product of one factor that fits its precision is that factor (as Repr::new stores it) *)
Theorem fbig_product_single m p s e : dlen B s <= p ->
  fbig_product B m [(p, (s, e))] = (Z.max 0 p, normalize B s e).
Proof.
  intros Hd. unfold fbig_product, fold_left, fbig_mul_step, fbig_one, fbig_mul. rewrite ctx_max_spec.
  rewrite Z.mul_1_l, Z.add_0_l.
  pose proof (normalize_spec B B_ge_2 s e) as N. destruct (normalize B s e) as [s' e']. destruct N as [N0 N1].
  destruct (Z.eq_dec s 0) as [Hz|Hnz].
  - destruct (N0 Hz) as [-> ->]. rewrite repr_round_exact by (rewrite dlen_zero; pose proof (dlen_nonneg B B_ge_2 s); lia).
    reflexivity.
  - destruct (N1 Hnz) as (Hs' & Hmod & j & Hj & Ee & Es).
    rewrite repr_round_exact; [reflexivity|].
    assert (dlen B s' <= dlen B s).
    { apply (dlen_mono B B_ge_2). rewrite Es, Z.abs_mul. pose proof (Bpow_pos B B_ge_2 j Hj).
      rewrite (Z.abs_eq (B ^ j)) by lia. nia. }
    lia.
Qed.

End IterProof.

Example fbig_product_example :
  fbig_product 10 MHalfEven [(2, (15, 0)); (3, (25, -1)); (2, (7, 0))] = (3, (262, 0)) /\
  fbig_product 10 MHalfEven [] = (0, (1, 0)) /\
  fbig_product 10 MHalfEven [(0, (123456, 0)); (0, (1001, 0))] = (0, (123579456, 0)).
Proof. vm_compute. repeat split. Qed.
