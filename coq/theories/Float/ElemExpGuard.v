(** C11 round 4 (finding F06, exp_pow_guard_sqrt): the guard digits of the scaled branch of
    Context::exp_internal against the number of powering steps.

    exp x = B^s * exp(r / B^n)^(B^n): the last powering multiplies the relative error of the series
    value by B^n, i.e. n = 2^(bit_len p / 2) digits of the working precision are consumed there.  The
    working precision is p + series_guard_digits + pow_guard_digits + magnitude_digits, so the
    necessary side condition is  n <= pow_guard_digits (+ slack).  Until the repair the source had
    pow_guard_digits = 2 * bit_len p * log2 B, which grows like log p while n grows like sqrt p:
    [pow_guard_before_fix_refuted] below gives the first precisions where it fails (base 2: 2048
    bits; base 10: 8192 digits - the implementation was wrong by 6 * 10^4 resp. 3 * 10^25 ulps
    there).  The theorems are over the formulas REGENERATED from exp.rs (DashuGen.ElemParams): an
    edit of the source that drops the n digits again breaks [exp_pow_guard_covers_powering]. *)
From Coq Require Import ZArith Lia Bool.
From Dashu Require Import Base.Prelude Float.RoundSpec Float.AddModel Float.ElemF32 Float.ElemParamsProof.
From DashuGen Require Import ElemParams.
Open Scope Z_scope.

Section Guard.
Context {F : Type} (O : f32ops F).
Hypothesis usize_nonneg : forall x, 0 <= f_to_usize O x.

(** the digits consumed by the powering are part of the guard digits, for EVERY precision and base *)
Theorem exp_pow_guard_covers_powering p B : exp_n_gen O p <= exp_pow_guard_digits_gen O p B.
Proof.
  unfold exp_pow_guard_digits_gen.
  pose proof (usize_nonneg (f_mul O (f_mul O (f_of_Z O (bit_len p)) (uint_log2_est O B)) (f_of_Z O 2))). lia.
Qed.

(** the side condition the error analysis of exp needs of the working precision of the scaled branch:
    beyond the target precision, the n digits of the powering, the series guard digits (>= 2) and the
    digits of the quotient s = floor(x / ln B) *)
Theorem exp_scaled_work_precision_condition p B md : 0 <= md ->
  let sgd := exp_series_guard_digits_gen O p B in
  let wp := exp_work_precision_scaled_gen O p sgd (exp_pow_guard_digits_gen O p B) md in
  p + exp_n_gen O p + sgd + md <= wp /\ p + exp_n_gen O p + 2 + md <= wp.
Proof.
  intros Hmd sgd wp. pose proof (exp_pow_guard_covers_powering p B) as H.
  pose proof (exp_series_guard_ok O usize_nonneg p B) as H2. fold sgd in H2.
  unfold wp, exp_work_precision_scaled_gen. lia.
Qed.
End Guard.

(** the formula of the source before the repair, and where it stops covering the powering steps.
    [f_to_usize (bl * log2 B * 2)] is at most 2 * bl * (log2 B rounded up) for every sound estimate
    layer; the refutation uses that upper bound (the real f32 value is smaller). *)
Definition pow_guard_before_fix_ub (p log2B_up : Z) : Z := 2 * bit_len p * log2B_up.

Theorem pow_guard_before_fix_refuted :
  (* base 2, 2048 bits: 64 powering digits, 11 + 2 + 24 guard digits *)
  pow_guard_before_fix_ub 2048 1 + (11 + 2) < 1 * 2 ^ (bit_len 2048 / 2) /\
  (* base 3, 2048 digits *)
  pow_guard_before_fix_ub 2048 2 + (7 + 2) < 1 * 2 ^ (bit_len 2048 / 2) /\
  (* base 10, 8192 digits: 128 powering digits, at most 112 + 5 guard digits *)
  pow_guard_before_fix_ub 8192 4 + (3 + 2) < 1 * 2 ^ (bit_len 8192 / 2) /\
  (* below these precisions the old formula happened to suffice: 2047 bits *)
  1 * 2 ^ (bit_len 2047 / 2) <= pow_guard_before_fix_ub 2047 1 + (10 + 2).
Proof. vm_compute. repeat split; congruence. Qed.
