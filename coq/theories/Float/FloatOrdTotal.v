(** C05, float part, continued: normalize for EVERY base (the branch for the powers of two 4, 8, 16, ...
    completes normalize_ok_partial) and the specification order fcmp_spec (finite values and the two
    infinities) is a total order: reflexive, antisymmetric, transitive. *)
From Dashu Require Import Base.Prelude Float.FloatOrdModel Float.FloatOrdProofs.
Open Scope Z_scope.

(* ---------------------------------------------------------------- normalize, power-of-two bases *)

(** q odd, t trailing zeros, [bits] bits per digit: dropping (t / bits) whole digits leaves a number that
    is not divisible by 2^bits, and nothing is lost *)
Lemma pow2_strip q t bits : Z.odd q = true -> 0 < bits -> 0 <= t ->
  let shift := t / bits in
  let m := Z.shiftr (q * 2 ^ t) (shift * bits) in
  m mod 2 ^ bits <> 0 /\ q * 2 ^ t = m * (2 ^ bits) ^ shift /\ 0 <= shift /\ m = q * 2 ^ (t mod bits).
Proof.
  intros Hq Hb Ht shift m.
  pose proof (Z.div_mod t bits ltac:(lia)) as Hdm. pose proof (Z.mod_pos_bound t bits Hb) as Hr.
  set (r := t mod bits) in *. fold shift in Hdm.
  assert (0 <= shift) as Hs by (apply Z.div_pos; lia).
  assert (0 <= shift * bits) by nia.
  assert (m = q * 2 ^ r) as Hm.
  { unfold m. rewrite Z.shiftr_div_pow2 by assumption.
    replace t with (r + shift * bits) at 1 by lia. rewrite Z.pow_add_r by lia.
    rewrite Z.mul_assoc. apply Z.div_mul. apply Z.pow_nonzero; lia. }
  repeat split; try assumption.
  - rewrite Hm. replace bits with (r + (bits - r)) by lia. rewrite Z.pow_add_r by lia.
    rewrite (Z.mul_comm q), Z.mul_mod_distr_l.
    + assert (0 < 2 ^ r) by (apply Z.pow_pos_nonneg; lia).
      assert (q mod 2 ^ (bits - r) <> 0); [|nia].
      intros E. apply Z.mod_divide in E; [|apply Z.pow_nonzero; lia]. destruct E as [k E].
      replace (bits - r) with (Z.succ (bits - r - 1)) in E by lia. rewrite Z.pow_succ_r in E by lia.
      rewrite E in Hq. replace (k * (2 * 2 ^ (bits - r - 1))) with (2 * (k * 2 ^ (bits - r - 1))) in Hq by ring.
      rewrite Z.odd_mul in Hq. discriminate.
    + apply Z.pow_nonzero; lia.
    + apply Z.pow_nonzero; lia.
  - rewrite Hm. rewrite <- Z.pow_mul_r by lia. replace t with (r + bits * shift) at 1 by lia.
    rewrite Z.pow_add_r by nia. ring.
Qed.

Lemma is_pow2_log B : 2 <= B -> is_pow2 B = true -> B = 2 ^ Z.log2 B /\ 0 < Z.log2 B.
Proof.
  intros HB HP. unfold is_pow2 in HP. apply Z.eqb_eq in HP. split; [exact HP|].
  apply Z.log2_pos. lia.
Qed.

(** normalize, branch [B.is_power_of_two()] (B = 4, 8, 16, ...) *)
Theorem normalize_ok_pow2 B r : 2 <= B -> B <> 2 -> is_pow2 B = true ->
  exists r', normalize B r = Ok r' /\ normalized B r' /\
    (fsig r = 0 -> r' = FR 0 0) /\
    (fsig r <> 0 -> fexp r <= fexp r' /\ fsig r = fsig r' * B ^ (fexp r' - fexp r)).
Proof.
  intros HB N2 HP. unfold normalize. destruct r as [s e]. cbn [fsig fexp].
  destruct (Z.eqb_spec s 0) as [Zs|Zs].
  { exists (FR 0 0). repeat split; try reflexivity; [left; split; reflexivity | contradiction | contradiction]. }
  destruct (Z.eqb_spec B 2) as [|_]; [contradiction|]. rewrite HP.
  destruct (is_pow2_log B HB HP) as [EB Lb]. set (bits := Z.log2 B) in *.
  assert (exists q, Z.abs s = q * 2 ^ tz s /\ Z.odd q = true /\ 0 <= tz s) as (q & E & O & N).
  { destruct s as [|p|p]; [contradiction | |]; cbn [tz Z.abs]; apply tzp_spec. }
  destruct (pow2_strip q (tz s) bits O Lb N) as (M & V & S & Hm). rewrite <- E in M, V, Hm.
  eexists. split; [reflexivity|]. cbn [fsig fexp].
  set (m := Z.shiftr (Z.abs s) (tz s / bits * bits)) in *.
  assert (0 < 2 ^ (tz s mod bits)).
  { apply Z.pow_pos_nonneg; [lia|]. apply Z.mod_pos_bound. lia. }
  assert (0 < 2 ^ tz s) by (apply Z.pow_pos_nonneg; lia).
  assert (0 < q) by nia.
  assert (0 < m) by nia.
  rewrite <- EB in M, V.
  repeat split.
  - right. cbn [fsig]. split; [unfold signed; destruct (sign_of s); cbn [sgnz]; lia | now apply mod_signed_nonzero].
  - intros; contradiction.
  - lia.
  - replace (e + tz s / bits - e) with (tz s / bits) by lia.
    rewrite <- (signed_sign_abs s) at 1. rewrite V. unfold signed. ring.
Qed.

(** normalize for every base: never fails (the fuel suffices), the result is normalised, same value *)
Theorem normalize_ok B r : 2 <= B ->
  exists r', normalize B r = Ok r' /\ normalized B r' /\
    (fsig r = 0 -> r' = FR 0 0) /\
    (fsig r <> 0 -> fexp r <= fexp r' /\ fsig r = fsig r' * B ^ (fexp r' - fexp r)).
Proof.
  intros HB. destruct (Z.eq_dec B 2) as [E2|N2].
  - apply normalize_ok_partial; [assumption | now left].
  - destruct (is_pow2 B) eqn:HP.
    + now apply normalize_ok_pow2.
    + apply normalize_ok_partial; [assumption | now right].
Qed.

(** a normalised representation is a fixed point (values are stored once normalised) *)
Example normalize_examples :
  normalize 16 (FR 4096 0) = Ok (FR 1 3) /\ normalize 16 (FR (-48) 1) = Ok (FR (-3) 2) /\
  normalize 8 (FR 32 0) = Ok (FR 4 1) /\ normalize 4 (FR 2 5) = Ok (FR 2 5).
Proof. vm_compute. repeat split. Qed.

(* ---------------------------------------------------------------- the order of the values is total *)

Section Total.
Variable B : Z.
Hypothesis B_ge_2 : 2 <= B.

Lemma fin_cmp_refl a : fin_cmp B a a = Eq.
Proof. unfold fin_cmp. apply Z.compare_refl. Qed.

Theorem fcmp_spec_refl a : fcmp_spec B a a = Eq.
Proof. unfold fcmp_spec. rewrite Z.compare_refl. destruct (f_is_inf a); [reflexivity | apply fin_cmp_refl]. Qed.

Lemma frank_cases r : (f_is_inf r = true /\ (frank r = 1 \/ frank r = -1)) \/ (f_is_inf r = false /\ frank r = 0).
Proof. unfold frank. destruct (f_is_inf r); [left | right]; split; try reflexivity. destruct (fexp r >? 0); auto. Qed.

Theorem fcmp_spec_antisym a b : fcmp_spec B b a = CompOpp (fcmp_spec B a b).
Proof.
  unfold fcmp_spec. rewrite (Z.compare_antisym (frank a) (frank b)).
  destruct (frank_cases a) as [[Ia [Ra|Ra]]|[Ia Ra]], (frank_cases b) as [[Ib [Rb|Rb]]|[Ib Rb]];
    rewrite Ra, Rb, ?Ia, ?Ib; cbn [Z.compare CompOpp Pos.compare Pos.compare_cont]; try reflexivity.
  apply fin_cmp_antisym.
Qed.

Theorem fcmp_spec_trans a b c x : fcmp_spec B a b = x -> fcmp_spec B b c = x -> fcmp_spec B a c = x.
Proof.
  unfold fcmp_spec.
  destruct (frank_cases a) as [[Ia [Ra|Ra]]|[Ia Ra]], (frank_cases b) as [[Ib [Rb|Rb]]|[Ib Rb]],
    (frank_cases c) as [[Ic [Rc|Rc]]|[Ic Rc]];
    rewrite Ra, Rb, Rc, ?Ia, ?Ib, ?Ic; cbn [Z.compare Pos.compare Pos.compare_cont]; try congruence.
  now apply fin_cmp_trans.
Qed.

(** Less / Greater are exchanged by swapping, Equal is symmetric: [==] (cmp = Eq) is an equivalence *)
Corollary feq_spec_sym a b : feq_spec B a b = feq_spec B b a.
Proof. unfold feq_spec. rewrite (fcmp_spec_antisym a b). destruct (fcmp_spec B a b); reflexivity. Qed.

Corollary feq_spec_trans a b c : feq_spec B a b = true -> feq_spec B b c = true -> feq_spec B a c = true.
Proof.
  unfold feq_spec. destruct (fcmp_spec B a b) eqn:E1; try discriminate.
  destruct (fcmp_spec B b c) eqn:E2; try discriminate. now rewrite (fcmp_spec_trans a b c Eq E1 E2).
Qed.

End Total.

(** the finite order is the order of the rationals sig * B^exp: both sides scaled by the same positive
    power of B (stated without division: for every common lower bound m of the exponents) *)
Theorem fin_cmp_is_value_order B l r m : 2 <= B -> m <= fexp l -> m <= fexp r ->
  fin_cmp B l r = (fsig l * B ^ (fexp l - m) ?= fsig r * B ^ (fexp r - m)).
Proof. intros. now apply fin_cmp_scale. Qed.
