(** C05, float part: the comparison code REGENERATED from float/src/cmp.rs (DashuGen.CmpGen, tools/translate_c05_r3.py:
    the whole bodies of FBig::eq and repr_cmp_same_base, the const ABS and the arguments of every forwarding impl)
    is the hand-written as-is model of FloatOrdModel.v for all inputs, hence the order / equality of the values.
    On top: FBig = Repr + Context.  Every impl hands &self.repr, &other.repr to the comparison and never reads the
    context, so ==, partial_cmp (between ANY two rounding modes R1, R2), cmp and abs_cmp between floats of any
    precisions and modes are the value comparisons.  FBig has no Hash impl (NumHash is C14's). *)
From Dashu Require Import Base.Prelude Float.RoundSpec.
From Dashu Require Import Float.FloatOrdModel Float.FloatOrdProofs Float.FloatOrdTotal.
From DashuGen Require Import CmpGen.
Open Scope Z_scope.

(** destruct the scrutinees of both sides, innermost first *)
Ltac split_scrutinees :=
  repeat (first
    [ reflexivity
    | match goal with
      | |- context [match ?c with _ => _ end] =>
          lazymatch c with
          | context [match _ with _ => _ end] => fail
          | _ => destruct c eqn:?
          end
      end ]).

Theorem fbig_eq_gen_is_model a b : fbig_eq_gen a b = fbig_eq a b.
Proof. unfold fbig_eq_gen, fbig_eq, frepr_eqb. split_scrutinees. Qed.

Theorem repr_cmp_gen_is_model B digits_ub abs lhs rhs :
  repr_cmp_same_base_gen B digits_ub abs lhs rhs = repr_cmp_same_base B digits_ub abs lhs rhs.
Proof.
  cbv beta iota zeta delta [repr_cmp_same_base_gen repr_cmp_same_base cmp_head cmp_tail].
  split_scrutinees.
Qed.

(* ---------------------------------------------------------------- FBig = Repr + Context *)

Record fbig_c := FC { fc_repr : frepr; fc_prec : Z; fc_mode : mode }.

Section Ctx.
Variable B : Z.
Variable digits_ub : Z -> Z.

(** impl PartialEq<FBig<R2,B>> for FBig<R1,B>, PartialOrd<FBig<R2,B>> for FBig<R1,B>, Ord, AbsOrd: the generated bodies
    with the generated flags; the context fields are not arguments of anything *)
Definition fc_eq (x y : fbig_c) : bool := fbig_eq_gen (fc_repr x) (fc_repr y).
Definition fc_partial_cmp (x y : fbig_c) : option comparison :=
  Some (repr_cmp_same_base_gen B digits_ub fbig_partial_cmp_abs_gen (fc_repr x) (fc_repr y)).
Definition fc_cmp (x y : fbig_c) : comparison := repr_cmp_same_base_gen B digits_ub fbig_cmp_abs_gen (fc_repr x) (fc_repr y).
Definition fc_abs_cmp (x y : fbig_c) : comparison := repr_cmp_same_base_gen B digits_ub fbig_abs_cmp_abs_gen (fc_repr x) (fc_repr y).
Definition frepr_cmp (x y : frepr) : comparison := repr_cmp_same_base_gen B digits_ub frepr_cmp_abs_gen x y.

Hypothesis B_ge_2 : 2 <= B.
Hypothesis digits_ub_ok : forall s, s <> 0 -> Z.abs s < B ^ (digits_ub s + 1).

Theorem fbig_ord_any_context x y : fwf (fc_repr x) -> fwf (fc_repr y) ->
  fc_partial_cmp x y = Some (fcmp_spec B (fc_repr x) (fc_repr y)) /\
  fc_cmp x y = fcmp_spec B (fc_repr x) (fc_repr y) /\
  fc_abs_cmp x y = fabs_cmp_spec B (fc_repr x) (fc_repr y) /\
  frepr_cmp (fc_repr x) (fc_repr y) = fcmp_spec B (fc_repr x) (fc_repr y).
Proof.
  intros Wx Wy. unfold fc_partial_cmp, fc_cmp, fc_abs_cmp, frepr_cmp.
  change fbig_partial_cmp_abs_gen with false. change fbig_cmp_abs_gen with false.
  change fbig_abs_cmp_abs_gen with true. change frepr_cmp_abs_gen with false.
  rewrite !repr_cmp_gen_is_model.
  rewrite (repr_cmp_same_base_correct B B_ge_2 digits_ub digits_ub_ok _ _ Wx Wy).
  rewrite (repr_cmp_same_base_abs_correct B B_ge_2 digits_ub digits_ub_ok _ _ Wx Wy).
  repeat split.
Qed.

Theorem fbig_eq_any_context x y : fwf (fc_repr x) -> fwf (fc_repr y) ->
  normalized_ext B (fc_repr x) -> normalized_ext B (fc_repr y) ->
  fc_eq x y = feq_spec B (fc_repr x) (fc_repr y) /\ (fc_cmp x y = Eq <-> fc_eq x y = true) /\
  (fc_partial_cmp x y = Some Eq <-> fc_eq x y = true).
Proof.
  intros Wx Wy Nx Ny. unfold fc_eq, fc_cmp, fc_partial_cmp. change fbig_cmp_abs_gen with false.
  change fbig_partial_cmp_abs_gen with false. rewrite fbig_eq_gen_is_model, !repr_cmp_gen_is_model.
  pose proof (fbig_cmp_eq_iff_eq B B_ge_2 digits_ub digits_ub_ok _ _ Wx Wy Nx Ny) as H.
  split; [apply fbig_eq_correct; assumption|]. split; [exact H|].
  split; [intros E; inversion E as [E']; apply H; exact E' | intros E; f_equal; apply H; exact E].
Qed.

End Ctx.

(** the answers do not depend on the precision or the rounding mode of either operand *)
Theorem fbig_cmp_ignores_context B digits_ub r1 r2 p1 m1 p2 m2 p1' m1' p2' m2' :
  fc_eq (FC r1 p1 m1) (FC r2 p2 m2) = fc_eq (FC r1 p1' m1') (FC r2 p2' m2') /\
  fc_partial_cmp B digits_ub (FC r1 p1 m1) (FC r2 p2 m2) = fc_partial_cmp B digits_ub (FC r1 p1' m1') (FC r2 p2' m2') /\
  fc_cmp B digits_ub (FC r1 p1 m1) (FC r2 p2 m2) = fc_cmp B digits_ub (FC r1 p1' m1') (FC r2 p2' m2') /\
  fc_abs_cmp B digits_ub (FC r1 p1 m1) (FC r2 p2 m2) = fc_abs_cmp B digits_ub (FC r1 p1' m1') (FC r2 p2' m2').
Proof. repeat split. Qed.

(** Hash: implemented for RBig only.  Neither Relaxed (whose == is by value on non-unique representations) nor FBig
    implements or derives it, so there is no structural hash that could disagree with == *)
Theorem no_structural_hash : relaxed_has_hash_gen = false /\ fbig_has_hash_gen = false.
Proof. split; reflexivity. Qed.

(** non-vacuity: 12 * 10^-1 at precision 2 / HalfAway against 1200 * 10^-3 at unlimited precision / Zero *)
Example fbig_ord_any_context_example :
  let x := FC (FR 12 (-1)) 2 MHalfAway in let y := FC (FR 1200 (-3)) 0 MZero in
  fc_partial_cmp 10 (ndigits 10) x y = Some Eq /\ fc_cmp 10 (ndigits 10) x (FC (FR 13 (-1)) 5 MUp) = Lt /\
  fc_eq x y = false /\ fc_eq x (FC (FR 12 (-1)) 7 MDown) = true.
Proof. vm_compute. repeat split. Qed.
