(** C08 (round 4): the fragments regenerated from the Rust sources on every run (coq/gen/ConvBaseGen4.v,
    tools/translate_c08_r4.py) ARE what the hand-written models use: an edit of the source that changes one of them
    breaks a proof obligation here.

      fmt_rounded_gen       float/src/fmt.rs    rounding prefix of Repr::fmt_round              = TextIoModel.fmt_rounded
      sci_rounded_gen       float/src/fmt.rs    rounding prefix of Repr::fmt_round_scientific   = RadixFmtModel.radix_rounded
                                                (and, without the hexadecimal switch, TextIoModel.sci_rounded)
      radix_format_gen      float/src/fmt.rs    impl_fmt_with_base! invocations                  = RadixFmtModel.radix_format
      marker_set_gen        float/src/parse.rs  scale-marker table of from_str_native            = TextIoSpec.is_marker
      common_root_body_gen  float/src/utils.rs  loop body of common_root                         = one step of common_root_loop
      convert_root_gen      float/src/convert.rs  exact common-root branch of convert_base       = ConvBaseModel4.convert_root *)
From Dashu Require Import Base.Prelude Float.RoundSpec Float.Contract Float.Model Int.IoSpec Float.TextIoSpec Float.TextIoModel
  Float.RadixFmtModel Float.RadixFmtProof Float.ConvBaseModel4.
From DashuGen Require Import RoundTables ConvBaseGen4.
Open Scope Z_scope.

Theorem fmt_rounded_gen_eq B m s e prec : fmt_rounded_gen B m s e prec = fmt_rounded B m s e prec.
Proof.
  unfold fmt_rounded_gen, fmt_rounded. destruct prec as [p|]; [|reflexivity]. cbv zeta.
  destruct (p + e <? 0); [|reflexivity].
  destruct (split_digits B s (- (p + e))) as [hi lo]. reflexivity.
Qed.

Theorem sci_rounded_gen_eq B hex m s e prec : sci_rounded_gen B hex m s e prec = radix_rounded B hex m s e prec.
Proof.
  unfold sci_rounded_gen, radix_rounded. destruct prec as [p0|]; [|reflexivity]. cbv zeta.
  set (p := if hex then p0 * 4 + 4 else p0 + 1).
  destruct (p - dlen B s <? 0); [|reflexivity].
  destruct (split_digits B s (- (p - dlen B s))) as [hi lo].
  destruct (p <? dlen B (hi + adj (round_fract B m hi lo (- (p - dlen B s))))); reflexivity.
Qed.

Theorem sci_rounded_gen_sci B m s e prec : sci_rounded_gen B false m s e prec = sci_rounded B m s e prec.
Proof. rewrite sci_rounded_gen_eq. apply radix_rounded_sci. Qed.

Theorem radix_format_gen_eq B t : radix_format_gen B t = radix_format B t.
Proof. destruct t; reflexivity. Qed.

Theorem marker_set_gen_eq B has_prefix c : marker_set_gen B has_prefix c = is_marker B has_prefix c.
Proof.
  unfold marker_set_gen, is_marker.
  destruct (B =? 10); [|destruct (B =? 2); [destruct has_prefix|destruct (B =? 8); [|destruct (B =? 16)]]];
    destruct (c =? 64); rewrite ?orb_true_r, ?orb_false_r, ?orb_true_l, ?orb_false_l; reflexivity.
Qed.

Theorem marker_set_gen_model B has_prefix c : marker_set_gen B has_prefix c = marker_set B has_prefix c.
Proof. apply marker_set_gen_eq. Qed.

(** one iteration of the loop of common_root *)
Theorem common_root_loop_gen fuel u v :
  common_root_loop (S fuel) u v =
  if u =? v then Ok (Some u)
  else match common_root_body_gen u v with
       | None => Ok None
       | Some (u', v') => common_root_loop fuel u' v'
       end.
Proof.
  cbn [common_root_loop]. destruct (u =? v); [reflexivity|]. unfold common_root_body_gen.
  destruct (u <? v); cbv zeta.
  - destruct (negb (v mod u =? 0)); reflexivity.
  - destruct (negb (u mod v =? 0)); reflexivity.
Qed.

Theorem convert_root_gen_eq NB p m s e root a b :
  convert_root NB p m s e root a b =
  (let '(signif, q) := convert_root_gen s e root a b in
   if in_isize q then round_norm NB p m signif q else CPanic Undocumented).
Proof. reflexivity. Qed.

(** the width fmt_round_scientific computes its padding from *)
Theorem sci_width_gen_eq B m upper hex f s e prec :
  radix_pads B m upper hex f s e prec =
  match f_width f with
  | None => (0, 0)
  | Some minw =>
    let '(signif, exp) := radix_rounded B hex m s e prec in
    let str := if (s <? 0) && (signif =? 0) then [] else dtext upper (if hex then 16 else B) (Z.abs signif) in
    let n := len str in
    let width := sci_width_gen n (len (itoa (if hex then exp + (n - 1) * 4 else exp + (n - 1)))) (s <? 0) (f_plus f) hex prec in
    if minw <=? width then (0, 0)
    else if f_zero f then (minw - width, 0)
    else match f_align f with
         | Some ALeft => (0, minw - width)
         | Some ARight | None => (minw - width, 0)
         | Some ACenter => let d := minw - width in (d / 2, d - d / 2)
         end
  end.
Proof.
  unfold radix_pads. destruct (f_width f) as [minw|]; [|reflexivity].
  destruct (radix_rounded B hex m s e prec) as [signif exp]. cbv zeta.
  set (n := len (if (s <? 0) && (signif =? 0) then [] else dtext upper (if hex then 16 else B) (Z.abs signif))).
  set (E := len (itoa (if hex then exp + (n - 1) * 4 else exp + (n - 1)))).
  set (p := match prec with Some p => p | None => 0 end).
  assert (W : n + E + 1 + (if (s <? 0) || f_plus f then 1 else 0) + (if (1 <? n) || (0 <? p) then 1 else 0) + (if hex then 2 else 0) +
              (if n - 1 <? p then p - (n - 1) else 0) = sci_width_gen n E (s <? 0) (f_plus f) hex prec).
  { unfold sci_width_gen. fold p. cbv zeta.
    destruct hex, ((s <? 0) || f_plus f), ((1 <? n) || (0 <? p)), (n - 1 <? p); lia. }
  rewrite W. reflexivity.
Qed.

(** non-vacuity *)
Example gen4_examples :
  fmt_rounded_gen 10 MHalfAway 12345 (-3) (Some 1) = (123, -1) /\
  sci_rounded_gen 2 true MHalfEven 0xabcd 0 (Some 2) = (0xabd, 4) /\
  sci_rounded_gen 2 true MHalfAway 0x1ff 0 (Some 1) = (16, 5) /\
  marker_set_gen 2 true 112 = true /\ marker_set_gen 2 false 112 = false /\ marker_set_gen 7 false 64 = true /\
  common_root_body_gen 4 8 = Some (2, 4) /\ common_root_body_gen 10 4 = None /\
  convert_root_gen 3 39 2 2 3 = (3, 26) /\ convert_root_gen 5 (-39) 2 3 2 = (10, -59).
Proof. vm_compute. repeat split; reflexivity. Qed.
