(** C03: the as-is model of Context::sqrt (AddModel.ctx_sqrt, transcribed from float/src/root.rs)
    returns, for every non-negative operand that fits the precision, the square root of the exactly
    scaled radicand rounded ONCE in the direction the mode names; the result has p digits. *)
From Dashu Require Import Base.Prelude Float.RoundSpec Float.RoundTablesProof Float.RoundSpecProof
  Float.Contract Float.Model Float.ModelProof Float.AddModel Float.AddModelProof.
From DashuGen Require Import RoundTables.
From Coq Require Import ZifyBool.
Open Scope Z_scope.

(** the integer nearest to sqrt N in the direction of mode m, for N >= 0 that is not a square *)
Definition sqrt_round (m : mode) (N : Z) : Z :=
  let t := Z.sqrt N in
  match m with
  | MDown | MZero => t
  | MUp | MAway => t + 1
  | MHalfEven | MHalfAway => if N - t * t <=? t then t else t + 1
  end.

(** [sqrt_round] is the documented contract for a square root: N lies strictly between the squares
    of the neighbours, directed modes pick the prescribed one, nearest modes are within one half *)
Theorem sqrt_round_contract m N : 0 <= N -> Z.sqrt N * Z.sqrt N <> N ->
  let t := Z.sqrt N in let R := sqrt_round m N in
  t * t < N < (t + 1) * (t + 1) /\ (R = t \/ R = t + 1) /\
  match m with
  | MDown | MZero => R * R < N
  | MUp | MAway => N < R * R
  | MHalfEven | MHalfAway => (2 * R - 1) * (2 * R - 1) < 4 * N < (2 * R + 1) * (2 * R + 1)
  end.
Proof.
  intros HN Hns t R. pose proof (Z.sqrt_spec N HN) as [L U]. fold t in L, U, Hns.
  replace (Z.succ t) with (t + 1) in U by lia.
  pose proof (Z.sqrt_nonneg N) as Ht. fold t in Ht.
  assert (Hlt : t * t < N < (t + 1) * (t + 1)) by lia.
  split; [exact Hlt|]. subst R. unfold sqrt_round. fold t.
  destruct m; try (split; [auto; lia | lia]).
  - destruct (Z.leb_spec (N - t * t) t); (split; [auto|nia]).
  - destruct (Z.leb_spec (N - t * t) t); (split; [auto|nia]).
Qed.

Lemma table_lt m t : 0 <= t ->
  adj (round_low_part m t Positive Lt) = match m with MUp | MAway => 1 | _ => 0 end.
Proof.
  intros Ht. pose proof (T_round m t 1 4 ltac:(lia) ltac:(lia) ltac:(lia)) as T.
  change (sign_of 1) with Positive in T. change (2 * Z.abs 1 ?= 4) with Lt in T.
  assert (D : (t * 4 + 1) / 4 = t /\ (t * 4 + 1) mod 4 = 1) by (apply div_pos_frac; lia).
  destruct D as [D1 D2].
  assert (Q : Z.quot (t * 4 + 1) 4 = t) by (rewrite Z.quot_div_nonneg by lia; exact D1).
  destruct m; cbn [spec_round] in T.
  - rewrite Q in T. lia.
  - rewrite D2, Q in T. cbn [Z.eqb] in T. rewrite Z.sgn_pos in T by lia. lia.
  - assert ((- (t * 4 + 1)) / 4 = - t - 1) by (symmetry; apply Z.div_unique with 3; lia). lia.
  - lia.
  - rewrite D1, D2 in T. cbn in T |- *. lia.
  - rewrite Z.sgn_pos, Z.abs_eq in T by lia.
    assert ((2 * (t * 4 + 1) + 4) / (2 * 4) = t) by (symmetry; apply Z.div_unique with 6; lia). lia.
Qed.

Lemma table_gt m t : 0 <= t ->
  adj (round_low_part m t Positive Gt) = match m with MDown | MZero => 0 | _ => 1 end.
Proof.
  intros Ht. pose proof (T_round m t 3 4 ltac:(lia) ltac:(lia) ltac:(lia)) as T.
  change (sign_of 3) with Positive in T. change (2 * Z.abs 3 ?= 4) with Gt in T.
  assert (D : (t * 4 + 3) / 4 = t /\ (t * 4 + 3) mod 4 = 3) by (apply div_pos_frac; lia).
  destruct D as [D1 D2].
  assert (Q : Z.quot (t * 4 + 3) 4 = t) by (rewrite Z.quot_div_nonneg by lia; exact D1).
  destruct m; cbn [spec_round] in T.
  - rewrite Q in T. lia.
  - rewrite D2, Q in T. cbn [Z.eqb] in T. rewrite Z.sgn_pos in T by lia. lia.
  - assert ((- (t * 4 + 3)) / 4 = - t - 1) by (symmetry; apply Z.div_unique with 1; lia). lia.
  - lia.
  - rewrite D1, D2 in T. cbn in T |- *. lia.
  - rewrite Z.sgn_pos, Z.abs_eq in T by lia.
    assert ((2 * (t * 4 + 3) + 4) / (2 * 4) = t + 1) by (symmetry; apply Z.div_unique with 2; lia). lia.
Qed.

Section SqrtProofs.
Variable B : Z.
Hypothesis B_ge_2 : 2 <= B.
Local Notation Bpos := (Bpow_pos B B_ge_2).

(** what a correct square root of N * B^(2k) is: [a] carries the significand R = sqrt_round m N
    (possibly with trailing zeros stripped) *)
Definition rounded_sqrt (p : Z) (m : mode) (N k : Z) (a : approx) : Prop :=
  match a with
  | AExact r e => (exists j, 0 <= j /\ e = k + j /\ (r * B ^ j) * (r * B ^ j) = N) \/ (r = 0 /\ N = 0)
  | AInexact r e f =>
      exists j, 0 <= j /\ e = k + j /\
        Z.sqrt N * Z.sqrt N <> N /\ r * B ^ j = sqrt_round m N /\
        f = (if sqrt_round m N =? Z.sqrt N then NoOp else AddOne) /\
        B ^ (p - 1) <= r * B ^ j <= B ^ p /\ dlen B r <= p
  end.

Lemma normalized_fits p R s' : 1 <= p -> 0 <= R <= B ^ p -> s' mod B <> 0 ->
  (exists j, 0 <= j /\ R = s' * B ^ j) -> dlen B s' <= p.
Proof.
  intros Hp HR Hm (j & Hj & E). pose proof (Bpos j Hj) as HPj. pose proof (Bpos p ltac:(lia)) as HPp.
  destruct (Z.eq_dec s' 0) as [->|Hs]; [rewrite dlen_zero; lia|].
  destruct (dlen_spec B B_ge_2 s' Hs) as [[L U] G]. set (d := dlen B s') in *.
  destruct (Z.le_gt_cases d p) as [|Hgt]; [assumption|exfalso].
  assert (B ^ p <= B ^ (d - 1)) by (apply pow_le_mono; [exact B_ge_2 | lia]).
  assert (Hs'p : 0 < s') by nia.
  rewrite Z.abs_eq in L, U by lia.
  (* s' >= B^p and s' * B^j <= B^p force j = 0 and s' = B^p, a multiple of B *)
  assert (s' = B ^ p) by nia.
  apply Hm. subst s'. replace (B ^ p) with (B ^ (p - 1) * B).
  2:{ replace p with ((p - 1) + 1) at 2 by lia. rewrite pow_split, Z.pow_1_r by lia. reflexivity. }
  apply Z.mod_mul. lia.
Qed.

Theorem ctx_sqrt_correct p m s e : 1 <= p -> 0 <= s -> dlen B s <= p ->
  let shift := sqrt_shift B p s e in
  let N := s * B ^ shift in
  0 <= shift /\ e - shift = 2 * ((e - shift) / 2) /\
  exists a, ctx_sqrt B p m s e = Ok a /\ rounded_sqrt p m N ((e - shift) / 2) a.
Proof.
  intros Hp Hs Hd shift N.
  pose proof (dlen_nonneg B B_ge_2 s) as Hd0.
  pose proof (Z.mod_pos_bound (dlen B s + e) 2 ltac:(lia)) as Hpar.
  assert (Hshift : shift = p * 2 - (dlen B s + e) mod 2 - dlen B s) by reflexivity.
  assert (Hsh0 : 0 <= shift) by lia.
  assert (Heven : e - shift = 2 * ((e - shift) / 2)).
  { pose proof (Z.div_mod (dlen B s + e) 2 ltac:(lia)) as E.
    assert ((e - shift) mod 2 = 0).
    { replace (e - shift) with ((dlen B s + e) mod 2 + (dlen B s + e) + (- p) * 2) by lia.
      rewrite Z.mod_add by lia. rewrite E at 2.
      replace ((dlen B s + e) mod 2 + (2 * ((dlen B s + e) / 2) + (dlen B s + e) mod 2))
        with (((dlen B s + e) mod 2 + (dlen B s + e) / 2) * 2) by ring.
      apply Z.mod_mul. lia. }
    pose proof (Z.div_mod (e - shift) 2 ltac:(lia)). lia. }
  split; [exact Hsh0|]. split; [exact Heven|].
  unfold ctx_sqrt. destruct (Z.eqb_spec p 0) as [|_]; [lia|].
  destruct (Z.ltb_spec s 0) as [|_]; [lia|].
  fold (sqrt_shift B p s e). fold shift.
  pose proof (Bpos shift Hsh0) as HPs.
  (* both arms of the scaling give signif = N, low = 0 *)
  assert (Hsig : (if shift >? 0 then (shl_digits B s shift, 0, 0)
                  else let '(hi, lo) := split_digits B s (- shift) in (hi, lo, - shift)) = (N, 0, - 0 + 0 * shift)
                 \/ shift = 0).
  { destruct (Z.gtb_spec shift 0); [left; reflexivity | right; lia]. }
  assert (Hsig2 : exists ld, (if shift >? 0 then (shl_digits B s shift, 0, 0)
                  else let '(hi, lo) := split_digits B s (- shift) in (hi, lo, - shift)) = (N, 0, ld) /\ 0 <= ld).
  { destruct (Z.gtb_spec shift 0) as [G|G].
    - exists 0. split; [reflexivity | lia].
    - assert (shift = 0) by lia. exists 0. unfold N. replace shift with 0 by lia.
      cbn [split_digits Z.opp]. rewrite Z.pow_0_r, Z.quot_1_r, Z.rem_1_r, Z.mul_1_r. split; [reflexivity | lia]. }
  clear Hsig. destruct Hsig2 as (ld & -> & Hld).
  assert (HN : 0 <= N) by (unfold N; nia).
  rewrite (Z.abs_eq N HN).
  set (t := Z.sqrt N). pose proof (Z.sqrt_spec N HN) as [SL SU]. fold t in SL, SU.
  replace (Z.succ t) with (t + 1) in SU by lia.
  pose proof (Z.sqrt_nonneg N) as Ht. fold t in Ht.
  set (k := (e - shift) / 2).
  assert (Hq : Z.quot (e - shift) 2 = k).
  { unfold k. rewrite Heven at 1. rewrite Z.mul_comm, Z.quot_mul by lia. reflexivity. }
  rewrite Hq.
  eexists. split; [reflexivity|].
  replace ((N - t * t =? 0) && (0 =? 0)) with (N - t * t =? 0) by (rewrite Z.eqb_refl, Bool.andb_true_r; reflexivity).
  destruct (Z.eqb_spec (N - t * t) 0) as [Hsq|Hns].
  - (* perfect square *)
    cbn [approx_and_then].
    pose proof (normalize_spec B B_ge_2 t k) as NS. destruct (normalize B t k) as [s' e'].
    destruct NS as [N0 N1].
    destruct (Z.eq_dec t 0) as [Ht0|Htn].
    + destruct (N0 Ht0) as [-> ->]. rewrite repr_round_exact by (rewrite dlen_zero; lia).
      cbn [rounded_sqrt]. right. split; [reflexivity | nia].
    + destruct (N1 Htn) as (Hs' & Hmod & j & Hj & Ee & Es).
      (* digits of t: N < B^(2p) so t < B^p *)
      assert (HtU : t < B ^ p).
      { destruct (Z.eq_dec s 0) as [Hs0|Hs0]; [unfold N in *; subst s; nia|].
        destruct (dlen_spec B B_ge_2 s Hs0) as [[L U] _]. rewrite Z.abs_eq in U by lia.
        assert (N < B ^ (dlen B s + shift)) by (rewrite pow_split by (try exact B_ge_2; lia); unfold N; nia).
        assert (B ^ (dlen B s + shift) <= B ^ (p + p)) by (apply pow_le_mono; [exact B_ge_2 | lia]).
        rewrite (pow_split B p p) in * by lia.
        pose proof (Bpos p ltac:(lia)).
        destruct (Z.lt_ge_cases t (B ^ p)) as [|Hge]; [assumption|exfalso].
        assert (B ^ p * B ^ p <= t * t) by nia. lia. }
      assert (Hfit : dlen B s' <= p).
      { apply (normalized_fits p t s'); try assumption; try lia. exists j. auto. }
      rewrite repr_round_exact by exact Hfit. cbn [rounded_sqrt]. left. exists j.
      split; [exact Hj|]. split; [exact Ee|]. rewrite <- Es. lia.
  - (* inexact: one rounding of the integer root *)
    assert (Hrem : 0 < N - t * t) by lia.
    set (c := match N - t * t ?= t with Eq => 0 * 4 ?= B ^ ld | c => c end).
    assert (Hc : c = if N - t * t <=? t then Lt else Gt).
    { unfold c. destruct (Z.compare_spec (N - t * t) t) as [E|E|E]; destruct (Z.leb_spec (N - t * t) t); try lia; try reflexivity.
      pose proof (Bpos ld Hld). apply Z.compare_lt_iff. lia. }
    fold c.
    assert (Hadj : t + adj (round_low_part m t Positive c) = sqrt_round m N /\
                   round_low_part m t Positive c = (if sqrt_round m N =? t then NoOp else AddOne)).
    { unfold sqrt_round. fold t. rewrite Hc.
      destruct (Z.leb_spec (N - t * t) t).
      - pose proof (table_lt m t Ht) as TL.
        destruct (round_low_part m t Positive Lt) eqn:ER; destruct m; cbn [adj] in *; try lia;
          split; try lia; try (destruct (Z.eqb_spec (t + 1) t); [lia | reflexivity]); try (rewrite Z.eqb_refl; reflexivity).
      - pose proof (table_gt m t Ht) as TG.
        destruct (round_low_part m t Positive Gt) eqn:ER; destruct m; cbn [adj] in *; try lia;
          split; try lia; try (destruct (Z.eqb_spec (t + 1) t); [lia | reflexivity]); try (rewrite Z.eqb_refl; reflexivity). }
    destruct Hadj as [HR Hflag]. set (R := sqrt_round m N) in *.
    assert (HRt : R = t \/ R = t + 1).
    { pose proof (sqrt_round_contract m N HN ltac:(fold t; lia)) as (_ & H & _). exact H. }
    (* p digits: B^(2p-2) <= N < B^(2p) *)
    assert (Hs0 : s <> 0) by (intros ->; unfold N in *; lia).
    destruct (dlen_spec B B_ge_2 s Hs0) as [[L U] G]. rewrite Z.abs_eq in L, U by lia.
    assert (HNL : B ^ (p - 1) * B ^ (p - 1) <= N).
    { rewrite <- pow_split by (try exact B_ge_2; lia).
      assert (B ^ (p - 1 + (p - 1)) <= B ^ (dlen B s - 1 + shift)) by (apply pow_le_mono; [exact B_ge_2 | lia]).
      rewrite (pow_split B (dlen B s - 1) shift) in * by lia. unfold N. nia. }
    assert (HNU : N < B ^ p * B ^ p).
    { rewrite <- pow_split by (try exact B_ge_2; lia).
      assert (B ^ (dlen B s + shift) <= B ^ (p + p)) by (apply pow_le_mono; [exact B_ge_2 | lia]).
      rewrite (pow_split B (dlen B s) shift) in * by lia. unfold N. nia. }
    pose proof (Bpos (p - 1) ltac:(lia)) as HP1. pose proof (Bpos p ltac:(lia)) as HPp.
    assert (HtL : B ^ (p - 1) <= t) by nia.
    assert (HtU : t < B ^ p) by nia.
    assert (HRw : B ^ (p - 1) <= R <= B ^ p) by lia.
    rewrite HR. cbn [approx_and_then].
    pose proof (normalize_spec B B_ge_2 R k) as NS. destruct (normalize B R k) as [s' e'].
    destruct NS as [_ N1]. destruct (N1 ltac:(lia)) as (Hs' & Hmod & j & Hj & Ee & Es).
    assert (Hfit : dlen B s' <= p).
    { apply (normalized_fits p R s'); try assumption; try lia. exists j. auto. }
    rewrite repr_round_exact by exact Hfit. cbn [rounded_sqrt]. exists j.
    split; [exact Hj|]. split; [exact Ee|]. split; [fold t; lia|]. split; [lia|].
    split; [exact Hflag|]. split; [rewrite <- Es; exact HRw | exact Hfit].
Qed.

Theorem ctx_sqrt_panics p m s e :
  (p = 0 -> ctx_sqrt B p m s e = Panic UnlimitedPrecision) /\
  (p <> 0 -> s < 0 -> ctx_sqrt B p m s e = Panic RootNegative).
Proof.
  unfold ctx_sqrt. split.
  - intros ->. reflexivity.
  - intros Hp Hs. destruct (Z.eqb_spec p 0); [contradiction|]. destruct (Z.ltb_spec s 0); [reflexivity | lia].
Qed.
End SqrtProofs.
