(** C10 round 4: the bodies of the public entry points, REGENERATED from float/src/round_ops.rs and float/src/convert.rs
    on every run (coq/gen/RoundOpsGen.v, tools/translate_c10_r4.py), are the hand-written entry-point models of
    RoundOpsDeep.v - for every input, infinities included, over ANY implementation [rf] of Round::round_fract behind
    its assertion.  An edit of a branch, a threshold, a shortcut, the order of the finiteness test or of the precision
    attached to a result breaks one of these obligations. *)
From Coq Require Import ZArith Lia Bool.
From Dashu Require Import Base.Prelude Float.RoundSpec Float.Contract Float.Model Float.RoundOpsModel Float.RoundOpsDeep.
From DashuGen Require Import RoundTables RoundOpsGen.
Open Scope Z_scope.

Section GenIsModel.
Variable B : Z.
Variable dub : Z -> Z.
Variable rf : mode -> Z -> Z -> Z -> rounding.
Notation rfchk := (round_fract_chk_rf B rf).

(** split_at_point_internal is only called with a negative exponent (debug assertion of the code): |e| = -e *)
Lemma split_internal_gen_is_model p s e : e < 0 -> split_internal_gen B dub p s e = split_internal B dub false p s e.
Proof.
  intros He. unfold split_internal_gen, split_internal_res_gen, split_internal. rewrite (Z.abs_neq e) by lia.
  destruct (smaller_than_one dub s e); [reflexivity|]. destruct (split_digits B s (- e)); reflexivity.
Qed.

Lemma sign_pos s : match sign_of s with Positive => true | Negative => false end = (0 <=? s).
Proof. unfold sign_of. destruct (Z.ltb_spec s 0), (Z.leb_spec 0 s); try lia; reflexivity. Qed.

Theorem trunc_gen_is_model p s e : trunc_gen B dub p s e = trunc_full B dub p s e.
Proof.
  unfold trunc_gen, trunc_full, trunc_asis, assert_finite. destruct (is_inf s e); [reflexivity|].
  destruct (0 <=? e); [reflexivity|]. destruct (smaller_than_one dub s e); reflexivity.
Qed.

Theorem split_at_point_gen_is_model p s e : split_at_point_gen B dub p s e = split_full B dub p s e.
Proof.
  unfold split_at_point_gen, split_full, split_asis, assert_finite. destruct (is_inf s e); [reflexivity|].
  destruct (0 <=? e); [reflexivity|]. destruct (smaller_than_one dub s e); [reflexivity|].
  destruct (split_digits B s (- e)); reflexivity.
Qed.

Theorem fract_gen_is_model p s e : fract_gen B dub p s e = fract_full B dub p s e.
Proof.
  unfold fract_gen, fract_full, fract_asis, assert_finite. destruct (is_inf s e); [reflexivity|].
  destruct (Z.leb_spec 0 e) as [|He]; [reflexivity|]. rewrite split_internal_gen_is_model by exact He.
  destruct (split_internal B dub false p s e) as [[hi lo] k]. reflexivity.
Qed.

Theorem ceil_gen_is_model p s e : ceil_gen B dub rfchk p s e = ceil_full B dub rf p s e.
Proof.
  unfold ceil_gen, ceil_full, ceil_rf, round_to_rf, assert_finite. destruct (is_inf s e) eqn:Inf; [reflexivity|].
  (* Repr::is_zero also looks at the exponent: for a finite Repr it is the zero test of the significand *)
  assert (Z0 : ((s =? 0) && (e =? 0)) || (0 <=? e) = (s =? 0) || (0 <=? e)).
  { unfold is_inf in Inf. destruct (s =? 0); cbn [andb orb] in *; [|reflexivity].
    destruct (e =? 0); cbn [negb orb] in *; [reflexivity | discriminate Inf]. }
  rewrite Z0. destruct (Z.eqb_spec s 0) as [|Hs]; [reflexivity|]. cbn [orb].
  destruct (Z.leb_spec 0 e) as [|He]; [reflexivity|].
  destruct (smaller_than_one dub s e).
  - f_equal. pose proof (sign_pos s) as SP. destruct (sign_of s), (0 <=? s); try discriminate SP; reflexivity.
  - rewrite split_internal_gen_is_model by exact He. destruct (split_internal B dub false p s e) as [[hi lo] k]. reflexivity.
Qed.

Theorem floor_gen_is_model p s e : floor_gen B dub rfchk p s e = floor_full B dub rf p s e.
Proof.
  unfold floor_gen, floor_full, floor_rf, round_to_rf, assert_finite. destruct (is_inf s e); [reflexivity|].
  destruct (Z.leb_spec 0 e) as [|He]; [reflexivity|].
  destruct (smaller_than_one dub s e).
  - f_equal. pose proof (sign_pos s) as SP. destruct (sign_of s), (0 <=? s); try discriminate SP; reflexivity.
  - rewrite split_internal_gen_is_model by exact He. destruct (split_internal B dub false p s e) as [[hi lo] k]. reflexivity.
Qed.

Theorem round_gen_is_model p s e : round_gen B dub rfchk p s e = round_full B dub rf p s e.
Proof.
  unfold round_gen, round_full, round_rf, round_to_rf, assert_finite. destruct (is_inf s e); [reflexivity|].
  destruct (Z.leb_spec 0 e) as [|He]; [reflexivity|].
  destruct (e + dub s <? -2); [reflexivity|].
  rewrite split_internal_gen_is_model by exact He. destruct (split_internal B dub false p s e) as [[hi lo] k]. reflexivity.
Qed.

Theorem to_int_gen_is_model m p s e : to_int_gen B dub rfchk m p s e = to_int_full B dub rf m p s e.
Proof.
  unfold to_int_gen, to_int_full, to_int_rf, assert_finite. destruct (is_inf s e); [reflexivity|].
  destruct (Z.leb_spec 0 e) as [|He]; [reflexivity|].
  rewrite split_internal_gen_is_model by exact He. destruct (split_internal B dub false p s e) as [[hi lo] k]. reflexivity.
Qed.

Theorem repr_to_int_gen_is_model s e : repr_to_int_gen B dub s e = repr_to_int_full B dub s e.
Proof.
  unfold repr_to_int_gen, repr_to_int_full, repr_to_int_asis, assert_finite. destruct (is_inf s e); [reflexivity|].
  destruct (0 <=? e); [reflexivity|]. destruct (smaller_than_one dub s e); reflexivity.
Qed.

End GenIsModel.

(* ---------------------------------------------------------------- digit removal: Context::repr_round(_ref), with_precision *)

Section GenRound.
Variable B : Z.
Variable rf : mode -> Z -> Z -> Z -> rounding.
Notation rfchk := (round_fract_chk_rf B rf).

(** Context::repr_round as regenerated (finiteness assertion inside, Repr::new on the rounded significand) is the model
    RoundOpsDeep.repr_round_rf behind assert_finite and norm_approx; repr_round_ref is the same function *)
Theorem repr_round_gen_is_model p m s e :
  repr_round_gen B rfchk p m s e = assert_finite s e (rmap (norm_approx B) (repr_round_rf B rf p m s e)) /\
  repr_round_ref_gen B rfchk p m s e = repr_round_gen B rfchk p m s e.
Proof.
  split; [|reflexivity].
  unfold repr_round_gen, repr_round_rf, assert_finite, rmap. destruct (is_inf s e); [reflexivity|].
  rewrite Bool.negb_involutive. destruct (p =? 0); [reflexivity|]. rewrite Z.gtb_ltb.
  destruct (p <? dlen B s); [|reflexivity].
  destruct (split_digits B s (dlen B s - p)) as [hi lo].
  destruct (round_fract_chk_rf B rf m hi lo (dlen B s - p)); cbn [rbind]; try reflexivity.
  unfold ainexact_se, norm_approx. destruct (normalize B (hi + adj a) (e + (dlen B s - p))). reflexivity.
Qed.

(** FBig::with_precision: the regenerated condition under which it rounds, then the regenerated repr_round *)
Theorem with_precision_gen_is_model m p s e np :
  (if with_precision_rounds_gen p np then repr_round_gen B rfchk np m s e else Ok (AExact s e)) =
  with_precision_full B rf m p s e np.
Proof.
  unfold with_precision_rounds_gen, with_precision_full. rewrite Bool.negb_involutive, <- Z.gtb_ltb.
  destruct ((p =? 0) || (p >? np)); [apply repr_round_gen_is_model | reflexivity].
Qed.
End GenRound.

(* ---------------------------------------------------------------- the precision attached to the results *)

(** documented at FBig::round: an integer keeps its precision, otherwise the digits after the radix point are subtracted
    (saturating); the shortcut constants 0, 1, -1 carry the precision 0 *)
Definition prec_int_ok (p e : Z) (f : fl) : Prop :=
  if 0 <=? e then snd f = p else (snd f = sat_sub p (- e) \/ snd f = 0).

Section Precisions.
Variable B : Z.
Variable dub : Z -> Z.
Variable rf : mode -> Z -> Z -> Z -> rounding.

Lemma split_internal_k p s e : snd (split_internal B dub false p s e) = - e.
Proof.
  unfold split_internal. destruct (smaller_than_one dub s e); [reflexivity|]. destruct (split_digits B s (- e)); reflexivity.
Qed.

Lemma prec_int_neg p e f : e < 0 -> (snd f = sat_sub p (- e) \/ snd f = 0) -> prec_int_ok p e f.
Proof. intros He H. unfold prec_int_ok. destruct (Z.leb_spec 0 e); [lia | exact H]. Qed.

Lemma prec_int_nonneg p e f : 0 <= e -> snd f = p -> prec_int_ok p e f.
Proof. intros He H. unfold prec_int_ok. destruct (Z.leb_spec 0 e); [exact H | lia]. Qed.

Lemma round_to_prec m p s e f : e < 0 -> round_to_rf B dub rf m p s e = Ok f -> prec_int_ok p e f.
Proof.
  intros He. unfold round_to_rf. pose proof (split_internal_k p s e) as K.
  destruct (split_internal B dub false p s e) as [[hi lo] k]. cbn [snd] in K. subst k.
  destruct (round_fract_chk_rf B rf m hi lo (- e)); cbn [rbind]; try discriminate.
  intros E. injection E as <-. apply prec_int_neg; [exact He | left; reflexivity].
Qed.

Theorem entry_precisions p s e :
  (forall f, trunc_full B dub p s e = Ok f -> prec_int_ok p e f) /\
  (forall f, floor_full B dub rf p s e = Ok f -> prec_int_ok p e f) /\
  (forall f, ceil_full B dub rf p s e = Ok f -> prec_int_ok p e f) /\
  (forall f, round_full B dub rf p s e = Ok f -> prec_int_ok p e f) /\
  (forall f, fract_full B dub p s e = Ok f -> snd f = if 0 <=? e then 0 else - e) /\
  (forall t f, split_full B dub p s e = Ok (t, f) ->
     prec_int_ok p e t /\ (if 0 <=? e then snd f = 0 else (snd f = - e \/ snd f = p))).
Proof.
  unfold trunc_full, floor_full, ceil_full, round_full, fract_full, split_full, assert_finite.
  destruct (is_inf s e) eqn:Inf; [repeat split; intros; discriminate|].
  assert (Z0 : s = 0 -> e = 0).
  { intros ->. unfold is_inf in Inf. destruct (Z.eqb_spec e 0); [assumption | discriminate Inf]. }
  split; [|split; [|split; [|split; [|split]]]].
  - intros f E. injection E as <-. unfold trunc_asis. destruct (Z.leb_spec 0 e) as [He|He].
    + apply prec_int_nonneg; [exact He | reflexivity].
    + apply prec_int_neg; [exact He|]. destruct (smaller_than_one dub s e); [right; reflexivity | left; reflexivity].
  - intros f. unfold floor_rf. destruct (Z.leb_spec 0 e) as [He|He].
    + intros E. injection E as <-. apply prec_int_nonneg; [exact He | reflexivity].
    + destruct (smaller_than_one dub s e).
      * intros E. injection E as <-. apply prec_int_neg; [exact He|]. right. destruct (0 <=? s); reflexivity.
      * apply round_to_prec. exact He.
  - intros f. unfold ceil_rf. destruct (Z.eqb_spec s 0) as [Hs|Hs]; cbn [orb].
    + intros E. injection E as <-. apply prec_int_nonneg; [rewrite (Z0 Hs); lia | reflexivity].
    + destruct (Z.leb_spec 0 e) as [He|He].
      * intros E. injection E as <-. apply prec_int_nonneg; [exact He | reflexivity].
      * destruct (smaller_than_one dub s e).
        -- intros E. injection E as <-. apply prec_int_neg; [exact He|]. right. destruct (0 <=? s); reflexivity.
        -- apply round_to_prec. exact He.
  - intros f. unfold round_rf. destruct (Z.leb_spec 0 e) as [He|He].
    + intros E. injection E as <-. apply prec_int_nonneg; [exact He | reflexivity].
    + destruct (e + dub s <? -2).
      * intros E. injection E as <-. apply prec_int_neg; [exact He|]. right. reflexivity.
      * apply round_to_prec. exact He.
  - intros f E. injection E as <-. unfold fract_asis. destruct (0 <=? e); [reflexivity|].
    pose proof (split_internal_k p s e) as K. destruct (split_internal B dub false p s e) as [[hi lo] k]. exact K.
  - intros t f E. injection E as E. unfold split_asis in E. destruct (Z.leb_spec 0 e) as [He|He].
    + injection E as <- <-. split; [apply prec_int_nonneg; [exact He | reflexivity] | reflexivity].
    + destruct (smaller_than_one dub s e).
      * injection E as <- <-. split; [apply prec_int_neg; [exact He | right; reflexivity] | right; reflexivity].
      * destruct (split_digits B s (- e)) as [hi lo]. injection E as <- <-.
        split; [apply prec_int_neg; [exact He | left; reflexivity] | left; reflexivity].
Qed.
End Precisions.

Example round_ops_gen_example :
  ceil_gen 10 (dlen 10) (round_fract_chk_rf 10 (round_fract 10)) 4 1234 (-3) = Ok (2, 0, 1) /\
  to_int_gen 10 (dlen 10) (round_fract_chk_rf 10 (round_fract 10)) MHalfEven 4 (-1500) (-3) = Ok (IInexact (-2) SubOne) /\
  trunc_gen 10 (dlen 10) 0 0 5 = Panic OperateWithInf /\ fract_gen 10 (dlen 10) 4 1234 (-3) = Ok (234, -3, 3).
Proof. repeat split; vm_compute; reflexivity. Qed.
