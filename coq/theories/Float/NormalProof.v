(** C03 round 3: normalisation invariants.  The [_n] models of LongModel.v contain every Repr::new the code
    performs.  For every Context operation: if the operands are stored Reprs (zero = (0, 0), otherwise the
    significand is not divisible by the base) then so is the result - including after a carry into a new
    digit (B^p is stripped to 1) - and the [_n] model is the pinned model followed by one normalisation, so
    the contract theorems speak about exactly the value that is stored. *)
From Dashu Require Import Base.Prelude Float.RoundSpec Float.RoundTablesProof Float.RoundSpecProof
  Float.Contract Float.Model Float.ModelProof Float.AddModel Float.AddModelProof Float.DivMulModel
  Float.DivMulProof Float.LongModel.
From DashuGen Require Import RoundTables.
From Coq Require Import ZifyBool.
Open Scope Z_scope.

Section Normal.
Variable B : Z.
Hypothesis B_ge_2 : 2 <= B.
Local Notation Bpos := (Bpow_pos B B_ge_2).

Definition approx_normal (a : approx) : Prop := is_normal B (approx_sig a) (approx_exp a) = true.
Definition result_normal (r : result approx) : Prop := match r with Ok a => approx_normal a | _ => True end.

Theorem normalize_normal s e : let '(s', e') := normalize B s e in is_normal B s' e' = true.
Proof.
  pose proof (normalize_spec B B_ge_2 s e) as N. destruct (normalize B s e) as [s' e']. destruct N as [N0 N1].
  unfold is_normal. destruct (Z.eq_dec s 0) as [Hz|Hnz].
  - destruct (N0 Hz) as [-> ->]. reflexivity.
  - destruct (N1 Hnz) as (Hs' & Hmod & _). destruct (Z.eqb_spec s' 0); [contradiction|].
    destruct (Z.eqb_spec (s' mod B) 0); [contradiction | reflexivity].
Qed.

(** a normal form is unique: stripping is the identity on a stored Repr *)
Lemma normal_unique s1 k1 s2 k2 : s1 mod B <> 0 -> s2 mod B <> 0 -> 0 <= k1 -> 0 <= k2 ->
  s1 * B ^ k1 = s2 * B ^ k2 -> k1 = k2 /\ s1 = s2.
Proof.
  assert (W : forall a ka b kb, a mod B <> 0 -> 0 <= ka <= kb -> a * B ^ ka = b * B ^ kb -> ka = kb /\ a = b).
  { intros a ka b kb Ha Hk E. pose proof (Bpos ka ltac:(lia)) as HP.
    replace kb with (ka + (kb - ka)) in E by lia. rewrite Z.pow_add_r in E by lia.
    assert (E2 : a = b * B ^ (kb - ka)) by nia.
    destruct (Z.eq_dec ka kb) as [->|Hne]; [split; [reflexivity|]; rewrite Z.sub_diag, Z.pow_0_r in E2; lia|].
    exfalso. apply Ha. rewrite E2. replace (kb - ka) with (1 + (kb - ka - 1)) by lia.
    rewrite Z.pow_add_r, Z.pow_1_r by lia. replace (b * (B * B ^ (kb - ka - 1))) with (b * B ^ (kb - ka - 1) * B) by ring.
    apply Z.mod_mul. lia. }
  intros H1 H2 Hk1 Hk2 E. destruct (Z.le_gt_cases k1 k2).
  - apply W; try assumption; lia.
  - destruct (W s2 k2 s1 k1 H2 ltac:(lia) (eq_sym E)). split; congruence.
Qed.

Lemma normalize_id s e : is_normal B s e = true -> normalize B s e = (s, e).
Proof.
  unfold is_normal. intros H. pose proof (normalize_spec B B_ge_2 s e) as N.
  destruct (normalize B s e) as [s' e']. destruct N as [N0 N1].
  destruct (Z.eqb_spec s 0) as [Hz|Hnz].
  - apply Z.eqb_eq in H. destruct (N0 Hz) as [-> ->]. congruence.
  - destruct (N1 Hnz) as (Hs' & Hmod & k & Hk & -> & Es).
    destruct (Z.eqb_spec (s mod B) 0) as [|Hm]; [discriminate|].
    destruct (normal_unique s 0 s' k Hm Hmod ltac:(lia) Hk ltac:(rewrite Z.pow_0_r; lia)) as [<- <-].
    f_equal. lia.
Qed.

Lemma norm_approx_normal a : approx_normal (norm_approx B a).
Proof.
  unfold approx_normal. destruct a as [s e|s e r]; cbn [norm_approx];
    pose proof (normalize_normal s e) as N; destruct (normalize B s e); exact N.
Qed.

Lemma norm_approx_id a : approx_normal a -> norm_approx B a = a.
Proof.
  unfold approx_normal. destruct a as [s e|s e r]; cbn [norm_approx approx_sig approx_exp]; intros H;
    rewrite (normalize_id s e H); reflexivity.
Qed.

(** one normalisation keeps the value: s = s' * B^j, e' = e + j *)
Lemma norm_approx_value a :
  exists j, 0 <= j /\ approx_exp (norm_approx B a) = approx_exp a + j /\
    approx_sig a = approx_sig (norm_approx B a) * B ^ j \/
    (approx_sig a = 0 /\ approx_sig (norm_approx B a) = 0).
Proof.
  destruct a as [s e|s e r]; cbn [norm_approx]; pose proof (normalize_spec B B_ge_2 s e) as N;
    destruct (normalize B s e) as [s' e']; destruct N as [N0 N1]; cbn [approx_sig approx_exp];
    (destruct (Z.eq_dec s 0) as [Hz|Hnz];
      [exists 0; right; destruct (N0 Hz); auto
      |destruct (N1 Hnz) as (_ & _ & k & Hk & Ee & Es); exists k; left; auto]).
Qed.

(** Context::repr_round *)
Theorem repr_round_n_eq p m s e : is_normal B s e = true ->
  repr_round_n B p m s e = norm_approx B (repr_round B p m s e) /\ approx_normal (repr_round_n B p m s e).
Proof.
  intros H. unfold repr_round_n.
  assert (E : match repr_round B p m s e with
              | AExact s' e' => AExact s' e'
              | AInexact s' e' r => let '(s'', e'') := normalize B s' e' in AInexact s'' e'' r
              end = norm_approx B (repr_round B p m s e)).
  { unfold repr_round. destruct (p =? 0); [cbn [norm_approx]; rewrite (normalize_id s e H); reflexivity|].
    destruct (dlen B s >? p).
    - destruct (split_digits B s (dlen B s - p)) as [hi lo]. reflexivity.
    - cbn [norm_approx]. rewrite (normalize_id s e H). reflexivity. }
  rewrite E. split; [reflexivity | apply norm_approx_normal].
Qed.

Lemma normalize_then_round_n p m S e :
  (let '(s, e') := normalize B S e in repr_round_n B p m s e') =
  norm_approx B (let '(s, e') := normalize B S e in repr_round B p m s e').
Proof.
  pose proof (normalize_normal S e) as N. destruct (normalize B S e) as [s e'].
  apply repr_round_n_eq. exact N.
Qed.

Section WithEstimates.
Variable digits_ub digits_lb : Z -> Z.

(** Context::add / Context::sub (as repaired) *)
Theorem ctx_add_n_eq p m s1 e1 s2 e2 : is_normal B s1 e1 = true -> is_normal B s2 e2 = true ->
  ctx_add_n B digits_ub p m s1 e1 s2 e2 = norm_approx B (ctx_add B digits_ub p m s1 e1 s2 e2) /\
  approx_normal (ctx_add_n B digits_ub p m s1 e1 s2 e2).
Proof.
  intros H1 H2.
  assert (E : ctx_add_n B digits_ub p m s1 e1 s2 e2 = norm_approx B (ctx_add B digits_ub p m s1 e1 s2 e2)).
  { unfold ctx_add_n, ctx_add. destruct (s1 =? 0); [apply repr_round_n_eq; exact H2|].
    destruct (s2 =? 0); [apply repr_round_n_eq; exact H1|].
    unfold add_dispatch_n, add_dispatch. destruct (e1 ?= e2); try reflexivity. apply normalize_then_round_n. }
  rewrite E. split; [reflexivity | apply norm_approx_normal].
Qed.

Lemma is_normal_opp s e : is_normal B s e = true -> is_normal B (- s) e = true.
Proof.
  unfold is_normal. destruct (Z.eqb_spec s 0) as [->|Hn]; [cbn; auto|].
  destruct (Z.eqb_spec (- s) 0); [lia|]. intros H.
  destruct (Z.eqb_spec (s mod B) 0) as [|Hm]; [discriminate|].
  destruct (Z.eqb_spec (- s mod B) 0) as [E|]; [|reflexivity]. exfalso. apply Hm.
  apply Z.mod_divide in E; [|lia]. apply Z.mod_divide; [lia|]. destruct E as [k E]. exists (- k). lia.
Qed.

Theorem ctx_sub_n_eq p m s1 e1 s2 e2 : is_normal B s1 e1 = true -> is_normal B s2 e2 = true ->
  ctx_sub_n B digits_ub p m s1 e1 s2 e2 = norm_approx B (ctx_sub_fixed B digits_ub p m s1 e1 s2 e2) /\
  approx_normal (ctx_sub_n B digits_ub p m s1 e1 s2 e2).
Proof.
  intros H1 H2.
  assert (E : ctx_sub_n B digits_ub p m s1 e1 s2 e2 = norm_approx B (ctx_sub_fixed B digits_ub p m s1 e1 s2 e2)).
  { unfold ctx_sub_n, ctx_sub_fixed. destruct (s1 =? 0); [apply repr_round_n_eq; apply is_normal_opp; exact H2|].
    destruct (s2 =? 0); [apply repr_round_n_eq; exact H1|].
    unfold add_dispatch_n, add_dispatch. destruct (e1 ?= e2); try reflexivity. apply normalize_then_round_n. }
  rewrite E. split; [reflexivity | apply norm_approx_normal].
Qed.

(** Context::mul / sqr / cubic: the result is normal for ALL operands; up to the pre-shrinking thresholds the
    [_n] model is the pinned model followed by one normalisation *)
Lemma round_after_normalize_normal p m S e :
  approx_normal (let '(s, e') := normalize B S e in repr_round_n B p m s e').
Proof. rewrite normalize_then_round_n. apply norm_approx_normal. Qed.

Theorem ctx_mul_n_normal p m s1 e1 s2 e2 :
  approx_normal (ctx_mul_n B p m s1 e1 s2 e2) /\
  approx_normal (ctx_sqr_n B p m s1 e1) /\ approx_normal (ctx_cubic_n B p m s1 e1).
Proof.
  unfold ctx_mul_n, ctx_sqr_n, ctx_cubic_n. repeat split.
  - destruct (shrink_n B p 2 m s1 e1) as [a ea]. destruct (shrink_n B p 2 m s2 e2) as [b eb]. apply round_after_normalize_normal.
  - destruct (shrink_n B p 2 m s1 e1) as [a ea]. apply round_after_normalize_normal.
  - destruct (shrink_n B p 3 m s1 e1) as [a ea]. apply round_after_normalize_normal.
Qed.

Theorem ctx_mul_n_eq p m s1 e1 s2 e2 : mul_long_class B p s1 s2 = false ->
  ctx_mul_n B p m s1 e1 s2 e2 = norm_approx B (ctx_mul B p m s1 e1 s2 e2).
Proof.
  unfold mul_long_class, ctx_mul_n, ctx_mul, shrink_n, shrink. intros Hc.
  destruct (p =? 0); [apply normalize_then_round_n|]. cbn [negb andb] in Hc.
  apply Bool.orb_false_iff in Hc. destruct Hc as [-> ->]. apply normalize_then_round_n.
Qed.

Theorem ctx_sqr_cubic_n_eq p m s e :
  (sqr_long_class B p s = false -> ctx_sqr_n B p m s e = norm_approx B (ctx_sqr B p m s e)) /\
  (cubic_long_class B p s = false -> ctx_cubic_n B p m s e = norm_approx B (ctx_cubic B p m s e)).
Proof.
  unfold sqr_long_class, cubic_long_class, ctx_sqr_n, ctx_sqr, ctx_cubic_n, ctx_cubic, shrink_n, shrink.
  split; intros Hc; (destruct (p =? 0); [apply normalize_then_round_n|]); cbn [negb andb] in Hc; rewrite Hc;
    apply normalize_then_round_n.
Qed.

(** Context::repr_div / div / inv: every exit is a Repr::new *)
Theorem div_n_normal p m s1 e1 s2 e2 :
  result_normal (repr_div_n B p m s1 e1 s2 e2) /\ result_normal (ctx_div_n B digits_ub digits_lb p m s1 e1 s2 e2) /\
  result_normal (ctx_inv_n B p m s2 e2).
Proof.
  assert (W : forall a b c d, result_normal (repr_div_n B p m a b c d)).
  { intros. unfold repr_div_n, map_approx, result_normal. destruct (repr_div B p m a b c d); auto. apply norm_approx_normal. }
  split; [apply W|]. split; [|apply W]. unfold ctx_div_n.
  destruct (negb (s1 =? 0) && (digits_ub s1 >? digits_lb s2 + p)); [|apply W].
  destruct (approx_val (repr_round_n B (dlen B s2 + p) m s1 e1)). apply W.
Qed.

Theorem ctx_div_n_eq p m s1 e1 s2 e2 : div_long_class B p s1 s2 = false ->
  ctx_div_n B digits_ub digits_lb p m s1 e1 s2 e2 = map_approx (norm_approx B) (ctx_div B digits_ub digits_lb p m s1 e1 s2 e2).
Proof.
  unfold div_long_class. intros Hc. rewrite Z.gtb_ltb in Hc. apply Z.ltb_ge in Hc.
  unfold ctx_div_n, ctx_div. destruct (negb (s1 =? 0) && (digits_ub s1 >? digits_lb s2 + p)); [|reflexivity].
  unfold repr_round_n. rewrite (repr_round_exact B) by lia. reflexivity.
Qed.

End WithEstimates.

(** Context::sqrt and Context::rem *)
Lemma sqrt_tail_normal p m res :
  approx_normal (match approx_and_then res (fun s' e' => let '(s'', e'') := normalize B s' e' in repr_round B p m s'' e'') with
                 | AExact s' e' => AExact s' e'
                 | AInexact s' e' r => let '(s'', e'') := normalize B s' e' in AInexact s'' e'' r
                 end).
Proof.
  match goal with |- approx_normal (match ?x with _ => _ end) => destruct x as [s' e'|s' e' r'] eqn:E end.
  - (* an Exact result is the trailing repr_round of a normalised value, handed back unchanged *)
    destruct res as [s0 e0|s0 e0 r0]; cbn [approx_and_then] in E.
    + pose proof (normalize_normal s0 e0) as N. destruct (normalize B s0 e0) as [s'' e''].
      unfold repr_round in E. destruct (p =? 0); [injection E as <- <-; exact N|].
      destruct (dlen B s'' >? p); [destruct (split_digits B s'' (dlen B s'' - p)); discriminate|].
      injection E as <- <-. exact N.
    + destruct (normalize B s0 e0) as [s'' e'']. destruct (repr_round B p m s'' e''); discriminate.
  - pose proof (normalize_normal s' e') as N. destruct (normalize B s' e'). exact N.
Qed.

Theorem sqrt_rem_n_normal p m s1 e1 s2 e2 :
  result_normal (ctx_sqrt_n B p m s1 e1) /\ result_normal (repr_rem_n B p m s1 e1 s2 e2).
Proof.
  split.
  - unfold ctx_sqrt_n, ctx_sqrt.
    destruct (p =? 0); [exact I|]. destruct (s1 <? 0); [exact I|]. cbv zeta.
    destruct (_ >? 0).
    + cbn [map_approx result_normal]. apply sqrt_tail_normal.
    + destruct (split_digits B s1 _) as [hi lo]. cbn [map_approx result_normal]. apply sqrt_tail_normal.
  - unfold repr_rem_n, result_normal. destruct (s2 =? 0); [exact I|].
    destruct (repr_rem_sig B s1 e1 s2 e2 =? 0); [reflexivity|].
    pose proof (round_after_normalize_normal p m (repr_rem_sig B s1 e1 s2 e2) (Z.min e1 e2)) as H.
    destruct (normalize B _ _) as [s e]. exact H.
Qed.

Theorem repr_rem_n_eq p m s1 e1 s2 e2 :
  repr_rem_n B p m s1 e1 s2 e2 = map_approx (norm_approx B) (repr_rem B p m s1 e1 s2 e2).
Proof.
  unfold repr_rem_n, repr_rem. destruct (s2 =? 0); [reflexivity|].
  destruct (repr_rem_sig B s1 e1 s2 e2 =? 0).
  - cbn [map_approx norm_approx]. rewrite (normalize_id 0 0) by reflexivity. reflexivity.
  - pose proof (normalize_then_round_n p m (repr_rem_sig B s1 e1 s2 e2) (Z.min e1 e2)) as H.
    destruct (normalize B _ _) as [s e]. cbn [map_approx]. f_equal. exact H.
Qed.

End Normal.

(** the carry case: 99.5 rounds to 100 = 1e2 (stored as (1, 2)); an exact sum with trailing zeros; zero is (0, 0) *)
Example normal_nonvacuous :
  ctx_add_n_x 10 2 MHalfEven 99 0 5 (-1) = AInexact 1 2 AddOne /\ ctx_add_x 10 2 MHalfEven 99 0 5 (-1) = AInexact 100 0 AddOne /\
  ctx_add_n_x 10 3 MHalfEven 95 0 5 0 = AExact 1 2 /\ ctx_sub_n_x 10 3 MHalfEven 95 0 95 0 = AExact 0 0 /\
  ctx_mul_n 10 2 MHalfEven 25 0 4 0 = AExact 1 2 /\ ctx_div_n_x 10 2 MUp 999 0 1 0 = Ok (AExact 999 0) /\
  is_normal 10 95 0 = true /\ is_normal 10 100 0 = false /\ is_normal 10 0 3 = false.
Proof. vm_compute. repeat split. Qed.
