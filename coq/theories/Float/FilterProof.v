(** Round::round_fract with its f32 pre-filter equals the exact comparison (Model.round_fract):
    (1) for every pair of coarse tests that only answer when the strict comparison holds;
    (2) the tests the code computes in f32 ARE such a pair, for every monotone rounding [fl] of the
        final sum / product, every pair of sound log2 bounds and every precision that converts to
        f32 exactly (< 2^24 digits).  The rounding errors of the last addition and multiplication
        cannot flip the decision because rounding to nearest is monotone - this settles the
        conjecture of DESIGN 5.1 #30 (no unsoundness at p * log2 B around 16 700 bits). *)
From Coq Require Import ZArith QArith Reals Qreals Lra Lia.
From Dashu Require Import Base.Prelude Float.RoundSpec Float.Contract Float.Model Float.AddModel Float.DivMulModel.
From DashuGen Require Import RoundTables.
Open Scope Z_scope.

(* ------------------------------------------------------------------ (1) abstract coarse tests *)
Section FilterSound.
Variable B : Z.
Variable coarse_gt coarse_lt : Z -> Z -> bool.
Hypothesis gt_sound : forall f k, 0 < f -> 0 <= k -> coarse_gt f k = true -> B ^ k < 2 * f.
Hypothesis lt_sound : forall f k, 0 < f -> 0 <= k -> coarse_lt f k = true -> 2 * f < B ^ k.

Lemma half_test_exact f k : 0 < f -> 0 <= k -> half_test B coarse_gt coarse_lt f k = (2 * f ?= B ^ k).
Proof.
  intros Hf Hk. unfold half_test.
  destruct (coarse_gt f k) eqn:G.
  - symmetry. apply Z.compare_gt_iff. apply gt_sound; assumption.
  - destruct (coarse_lt f k) eqn:L; [|reflexivity].
    symmetry. apply Z.compare_lt_iff. apply lt_sound; assumption.
Qed.

Theorem round_fract_filtered_eq m i fract k : 0 <= k ->
  round_fract_filtered B coarse_gt coarse_lt m i fract k = round_fract B m i fract k.
Proof.
  intros Hk. unfold round_fract_filtered, round_fract.
  destruct (Z.eqb_spec fract 0) as [|Hne]; [reflexivity|].
  rewrite half_test_exact by lia. reflexivity.
Qed.
End FilterSound.

(** the sharpest sound filter (decides every strict case) and the loosest (never decides) are both
    instances: the oracle runs both and they must agree with the implementation *)
Lemma round_fract_sharp_eq B m i fract k : 0 <= k -> round_fract_sharp B m i fract k = round_fract B m i fract k.
Proof.
  intros Hk. unfold round_fract_sharp. apply round_fract_filtered_eq; [| |exact Hk]; intros f k' _ _ H; lia.
Qed.

(* ------------------------------------------------------------------ (2) the f32 computation *)
Definition log2R (x : R) : R := (ln x / ln 2)%R.

Lemma ln2_pos : (0 < ln 2)%R.
Proof. pose proof ln_lt_2. lra. Qed.

Lemma log2R_lt_inv x y : (0 < x)%R -> (0 < y)%R -> (log2R x < log2R y)%R -> (x < y)%R.
Proof.
  intros Hx Hy H. apply ln_lt_inv; [assumption..|]. unfold log2R in H.
  pose proof ln2_pos as L.
  apply (Rmult_lt_reg_r (/ ln 2)); [apply Rinv_0_lt_compat; exact L | exact H].
Qed.

Lemma log2R_mult x y : (0 < x)%R -> (0 < y)%R -> log2R (x * y) = (log2R x + log2R y)%R.
Proof. intros. unfold log2R. rewrite ln_mult by assumption. field. pose proof ln2_pos; lra. Qed.

Lemma log2R_2 : log2R 2 = 1%R.
Proof. unfold log2R. field. pose proof ln2_pos; lra. Qed.

Lemma log2R_pow x n : (0 < x)%R -> log2R (x ^ n) = (INR n * log2R x)%R.
Proof. intros. unfold log2R. rewrite ln_pow by assumption. field. pose proof ln2_pos; lra. Qed.

Lemma log2R_Zpow b k : 0 < b -> 0 <= k -> log2R (IZR (b ^ k)) = (IZR k * log2R (IZR b))%R.
Proof.
  intros Hb Hk. rewrite <- (Z2Nat.id k Hk) at 1. rewrite <- pow_IZR.
  rewrite log2R_pow by (apply IZR_lt; exact Hb). rewrite INR_IZR_INZ, Z2Nat.id by exact Hk. reflexivity.
Qed.

Section F32Sound.
Variable B : Z.
Hypothesis B_ge_2 : 2 <= B.
Variable fl : Q -> Q.
Variable cvt : Z -> Q.
Variable lb ub : Z -> Q.
Variable b_lb b_ub : Q.
Variable c999 c1001 : Q.
(** IEEE rounding to nearest is monotone *)
Hypothesis fl_mono : forall x y, (x <= y)%Q -> (fl x <= fl y)%Q.
(** [precision as f32] is exact below 2^24 *)
Hypothesis cvt_exact : forall k, 0 <= k < 2 ^ 24 -> (cvt k == inject_Z k)%Q.
(** the log2 bounds are bounds (C12) *)
Hypothesis lb_ub_sound : forall f, 0 < f -> (Q2R (lb f) <= log2R (IZR f) <= Q2R (ub f))%R.
Hypothesis b_sound : (Q2R b_lb <= log2R (IZR B) <= Q2R b_ub)%R.
(** the literals 0.999 / 1.001 as f32 are below / above 1 *)
Hypothesis c999_le : (c999 <= 1)%Q.
Hypothesis c1001_ge : (1 <= c1001)%Q.

Lemma Q2R_cvt k : 0 <= k < 2 ^ 24 -> Q2R (cvt k) = IZR k.
Proof.
  intros Hk. rewrite (Qeq_eqR _ _ (cvt_exact k Hk)). unfold Q2R, inject_Z. cbn [Qnum Qden]. field.
Qed.

Lemma log2R_2f f : 0 < f -> log2R (IZR (2 * f)) = (1 + log2R (IZR f))%R.
Proof.
  intros Hf. rewrite mult_IZR, log2R_mult, log2R_2; [reflexivity | lra | apply IZR_lt; exact Hf].
Qed.

Theorem f32_gt_sound f k : 0 < f -> 0 <= k < 2 ^ 24 ->
  f32_gt fl cvt lb b_ub c999 f k = true -> B ^ k < 2 * f.
Proof.
  intros Hf Hk H. unfold f32_gt in H. apply Bool.negb_true_iff in H.
  assert (Hlt : (b_ub * cvt k < lb f + c999)%Q).
  { apply Qnot_le_lt. intros Hle. apply fl_mono in Hle. apply Qle_bool_iff in Hle. congruence. }
  apply Qlt_Rlt in Hlt. rewrite Q2R_mult, Q2R_plus, Q2R_cvt in Hlt by exact Hk.
  apply Qle_Rle in c999_le. replace (Q2R 1) with 1%R in c999_le by (unfold Q2R; cbn; field).
  destruct (lb_ub_sound f Hf) as [Hl _]. destruct b_sound as [_ Hb].
  assert (Hk0 : (0 <= IZR k)%R) by (apply IZR_le; lia).
  assert (Hprod : (IZR k * log2R (IZR B) <= Q2R b_ub * IZR k)%R) by nra.
  apply lt_IZR. apply log2R_lt_inv.
  - apply IZR_lt. apply Z.pow_pos_nonneg; lia.
  - apply IZR_lt. lia.
  - rewrite log2R_Zpow, log2R_2f by lia. lra.
Qed.

Theorem f32_lt_sound f k : 0 < f -> 0 <= k < 2 ^ 24 ->
  f32_lt fl cvt ub b_lb c1001 f k = true -> 2 * f < B ^ k.
Proof.
  intros Hf Hk H. unfold f32_lt in H. apply Bool.negb_true_iff in H.
  assert (Hlt : (ub f + c1001 < b_lb * cvt k)%Q).
  { apply Qnot_le_lt. intros Hle. apply fl_mono in Hle. apply Qle_bool_iff in Hle. congruence. }
  apply Qlt_Rlt in Hlt. rewrite Q2R_mult, Q2R_plus, Q2R_cvt in Hlt by exact Hk.
  apply Qle_Rle in c1001_ge. replace (Q2R 1) with 1%R in c1001_ge by (unfold Q2R; cbn; field).
  destruct (lb_ub_sound f Hf) as [_ Hu]. destruct b_sound as [Hb _].
  assert (Hk0 : (0 <= IZR k)%R) by (apply IZR_le; lia).
  assert (Hprod : (Q2R b_lb * IZR k <= IZR k * log2R (IZR B))%R) by nra.
  apply lt_IZR. apply log2R_lt_inv.
  - apply IZR_lt. lia.
  - apply IZR_lt. apply Z.pow_pos_nonneg; lia.
  - rewrite log2R_Zpow, log2R_2f by lia. lra.
Qed.

(** round_fract as written (coarse f32 tests, then the exact comparison) = the exact comparison *)
Theorem round_fract_f32_eq m i fract k : 0 <= k < 2 ^ 24 ->
  round_fract_f32 fl cvt lb ub b_lb b_ub c999 c1001 B m i fract k = round_fract B m i fract k.
Proof.
  intros Hk. unfold round_fract_f32, round_fract_filtered, round_fract.
  destruct (Z.eqb_spec fract 0) as [|Hne]; [reflexivity|].
  f_equal. unfold half_test.
  assert (Hf : 0 < Z.abs fract) by lia.
  destruct (f32_gt fl cvt lb b_ub c999 (Z.abs fract) k) eqn:G.
  - symmetry. apply Z.compare_gt_iff. apply f32_gt_sound; assumption.
  - destruct (f32_lt fl cvt ub b_lb c1001 (Z.abs fract) k) eqn:L; [|reflexivity].
    symmetry. apply Z.compare_lt_iff. apply f32_lt_sound; assumption.
Qed.
End F32Sound.

(** non-vacuity: the identity rounding with the exact integer logarithms of a power of two *)
Example f32_filter_nonvacuous :
  round_fract_f32 (fun x => x) inject_Z (fun f => inject_Z (Z.log2 f)) (fun f => inject_Z (Z.log2 f + 1)) 1 1
    (999 # 1000) (1001 # 1000) 2 MHalfEven 5 3 3 = round_fract 2 MHalfEven 5 3 3 /\
  f32_lt (fun x => x) inject_Z (fun f => inject_Z (Z.log2 f + 1)) 1 (1001 # 1000) 3 9 = true.
Proof. vm_compute. split; reflexivity. Qed.
