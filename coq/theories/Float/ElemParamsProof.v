(** C11: what the theorems and the as-is models need of the formulas REGENERATED from
    float/src/{exp,log,round}.rs (DashuGen.ElemParams): proved over the generated definitions, so an
    edit of the source that breaks one of them breaks a proof obligation of the run. *)
From Coq Require Import ZArith Lia Bool.
From Dashu Require Import Base.Prelude Float.RoundSpec Float.AddModel Float.ElemF32.
From DashuGen Require Import ElemParams.
Open Scope Z_scope.

Lemma bit_len_nonneg x : 0 <= bit_len x.
Proof. unfold bit_len. destruct (x =? 0); [lia|]. pose proof (Z.log2_nonneg (Z.abs x)). lia. Qed.
Lemma bit_len_pos x : x <> 0 -> 1 <= bit_len x.
Proof. intros H. unfold bit_len. destruct (Z.eqb_spec x 0); [contradiction|]. pose proof (Z.log2_nonneg (Z.abs x)). lia. Qed.

(** the nearest modes are their own reverse (the inverse of powi rounds the same way); the
    directed modes are swapped pairwise *)
Theorem reverse_mode_half m : is_half_mode m = true -> reverse_mode_gen m = m.
Proof. destruct m; cbn; congruence. Qed.
Theorem reverse_mode_involutive m : reverse_mode_gen (reverse_mode_gen m) = m.
Proof. destruct m; reflexivity. Qed.
Theorem reverse_mode_half_iff m : is_half_mode (reverse_mode_gen m) = is_half_mode m.
Proof. destruct m; reflexivity. Qed.

Section Params.
Context {F : Type} (O : f32ops F).
Hypothesis usize_nonneg : forall x, 0 <= f_to_usize O x.

(** powi: at least bit_len n + bit_len p guard digits (what ElemPowiProof.powi_guard_condition uses) *)
Theorem powi_guard_digits_ok n p : bit_len n + bit_len p <= powi_guard_digits_gen O n p.
Proof. unfold powi_guard_digits_gen. lia. Qed.
Theorem powi_neg_guard_bits_ok p : 2 * bit_len p <= powi_neg_guard_bits_gen O p.
Proof. unfold powi_neg_guard_bits_gen. lia. Qed.

(** every working precision exceeds the target precision (so the final with_precision rounds) *)
Theorem exp_series_guard_ok p B : 2 <= exp_series_guard_digits_gen O p B.
Proof. unfold exp_series_guard_digits_gen. pose proof (usize_nonneg (f_div O (uint_log2_est O p) (uint_log2_est O B))). lia. Qed.
Theorem exp_pow_guard_ok p B : 0 <= exp_pow_guard_digits_gen O p B.
Proof.
  unfold exp_pow_guard_digits_gen, exp_n_gen.
  pose proof (usize_nonneg (f_mul O (f_mul O (f_of_Z O (bit_len p)) (uint_log2_est O B)) (f_of_Z O 2))).
  pose proof (Z.pow_nonneg 2 (bit_len p / 2)). lia.
Qed.
Theorem exp_work_precisions_ok p sgd pgd md : 2 <= sgd -> 0 <= pgd -> 0 <= md ->
  p < exp_work_precision_neg_gen O p sgd /\ p < exp_work_precision_pos_gen O p sgd /\
  p < exp_work_precision_scaled_gen O p sgd pgd md.
Proof. unfold exp_work_precision_neg_gen, exp_work_precision_pos_gen, exp_work_precision_scaled_gen. lia. Qed.
Theorem exp_magnitude_digits_ok mg B : 1 <= exp_magnitude_digits_pos_gen O mg B.
Proof. unfold exp_magnitude_digits_pos_gen. pose proof (usize_nonneg (f_div O mg (uint_log2_est O B))). lia. Qed.
(** the scaling r >> n uses n = 2^(bit_len p / 2) >= 1 *)
Theorem exp_n_ok p : 1 <= exp_n_gen O p.
Proof.
  unfold exp_n_gen. pose proof (bit_len_nonneg p).
  assert (0 <= bit_len p / 2) by (apply Z.div_pos; lia).
  pose proof (Z.pow_pos_nonneg 2 (bit_len p / 2)). lia.
Qed.
Theorem exp_m1_pow_precision_ok p : 0 <= p -> p < exp_m1_pow_precision_gen O p.
Proof. intros Hp. unfold exp_m1_pow_precision_gen. assert (0 <= p / 8) by (apply Z.div_pos; lia). lia. Qed.
Theorem powf_guard_ok p : 10 <= powf_guard_digits_gen O p.
Proof. unfold powf_guard_digits_gen. pose proof (usize_nonneg (uint_log2_est O p)). lia. Qed.
Theorem iacoth_work_precision_ok p B :
  p + 2 <= iacoth_work_precision_gen O p (iacoth_guard_digits_gen O p B).
Proof. unfold iacoth_work_precision_gen, iacoth_guard_digits_gen. pose proof (usize_nonneg (f_div O (uint_log2_est O p) (uint_log2_est O B))). lia. Qed.
Theorem ln_guard_ok p B : 2 <= ln_guard_digits_gen O p B.
Proof. unfold ln_guard_digits_gen. pose proof (usize_nonneg (f_div O (uint_log2_est O p) (uint_log2_est O B))). lia. Qed.
(** ln: the working precision carries the whole argument (finding F04) plus the guard digits *)
Theorem ln_work_precision_ok p g xd op : 2 <= g ->
  let wp := ln_work_precision_max_gen O (ln_work_precision_gen O p g op) xd g op in
  p + 2 <= wp /\ xd + g + 1 <= wp.
Proof.
  intros Hg. unfold ln_work_precision_max_gen, ln_work_precision_gen. destruct op; cbn [b2z]; lia.
Qed.
End Params.

Theorem params_guard_digits {F : Type} (O : f32ops F) : (forall x, 0 <= f_to_usize O x) ->
  forall p B n, 0 <= p ->
  bit_len n + bit_len p <= powi_guard_digits_gen O n p /\
  2 * bit_len p <= powi_neg_guard_bits_gen O p /\
  2 <= exp_series_guard_digits_gen O p B /\ 0 <= exp_pow_guard_digits_gen O p B /\
  1 <= exp_n_gen O p /\ p < exp_m1_pow_precision_gen O p /\ 10 <= powf_guard_digits_gen O p /\
  p + 2 <= iacoth_work_precision_gen O p (iacoth_guard_digits_gen O p B) /\
  2 <= ln_guard_digits_gen O p B /\
  (forall g, p + g <= powi_work_precision_gen O p g /\ p + g <= powi_neg_precision_gen O p g /\
             p + g <= powf_work_precision_gen O p g).
Proof.
  intros H p B n Hp. repeat split.
  - apply powi_guard_digits_ok.
  - apply powi_neg_guard_bits_ok.
  - apply exp_series_guard_ok, H.
  - apply exp_pow_guard_ok, H.
  - apply exp_n_ok.
  - apply exp_m1_pow_precision_ok, Hp.
  - apply powf_guard_ok, H.
  - apply iacoth_work_precision_ok, H.
  - apply ln_guard_ok, H.
  - unfold powi_work_precision_gen. lia.
  - unfold powi_neg_precision_gen. lia.
  - unfold powf_work_precision_gen. lia.
Qed.

Theorem params_work_precisions {F : Type} (O : f32ops F) p sgd pgd md g xd op :
  2 <= sgd -> 0 <= pgd -> 0 <= md -> 2 <= g ->
  p < exp_work_precision_neg_gen O p sgd /\ p < exp_work_precision_pos_gen O p sgd /\
  p < exp_work_precision_scaled_gen O p sgd pgd md /\
  p + 2 <= ln_work_precision_max_gen O (ln_work_precision_gen O p g op) xd g op /\
  xd + g + 1 <= ln_work_precision_max_gen O (ln_work_precision_gen O p g op) xd g op.
Proof.
  intros H1 H2 H3 H4. destruct (exp_work_precisions_ok O p sgd pgd md H1 H2 H3) as (A & B & C).
  destruct (ln_work_precision_ok O p g xd op H4) as (D & E). auto.
Qed.
