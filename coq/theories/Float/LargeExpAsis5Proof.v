(** C08 (round 5): the repaired ln/exp route of Context::convert_base ([LargeExpAsis5]).

    * the regenerated formulas are the ones the theorems name; the first pass is the route of rounds 3/4;
    * convert_base_exact (the code of the small exponents, now also the fallback of the route) returns THE
      specification [convert_base_spec] for EVERY exponent;
    * whenever a pass returns a float, that float is either the specification of the value (exact fallback) or
      the common rounding - flag included - of BOTH ends A (1 -+ NB^-pad) of the error interval of the approximant A,
      each of which is the specification of that end ([round_norm_value_spec]); the same for the whole loop;
    * a monotone rounding that agrees at both ends of an interval is constant on it, strict side included
      (the step from "both ends round alike" to "the value is rounded correctly" under the accuracy bound of
      [LargeExpAsisProof.convert_large_route_error_guarded]). *)
From Dashu Require Import Base.Prelude Float.RoundSpec Float.RoundSpecProof Float.Contract Float.Model Float.ModelProof
  Float.AddModelProof Float.ParseProof Float.NormalProof Int.IoSpec Float.TextIoSpec Float.TextIoModel Float.BaseConvProof
  Conv.ConvSpec Conv.ConvModel Conv.ConvRatToFbig Conv.ConvDivRoute Float.ElemF32 Float.ElemAsis Float.LargeExpBound Float.LargeExpAsis
  Float.ConvBaseModel4 Float.ConvValueSpecProof Float.ConvBaseProof4 Float.LargeExpAsis5 Float.RoundSpecMono Float.ConvValueSpecMono.
From DashuGen Require Import RoundTables ConvBaseGen ConvBaseGen5.
Require Import Reals Lra.
Open Scope Z_scope.

(** * the regenerated fragments *)
Theorem gen5_work_precision p e B NB extra :
  large_work_precision_extra_gen p e B NB extra = large_work_precision_gen p e B NB + extra.
Proof. unfold large_work_precision_extra_gen, large_work_precision_gen. lia. Qed.

Theorem gen5_pad p extra : large_pad_gen p extra = 2 * p + extra - 1.
Proof. reflexivity. Qed.

Theorem gen5_next_extra NB extra : large_next_extra_gen NB extra = 2 * extra + dlen NB 1048576.
Proof. reflexivity. Qed.

Theorem gen5_exact_window NB p s e :
  large_exact_window NB p s e = (Z.abs e / 128 <=? Z.max (ElemF32.bit_len s) ((p + 1) * ElemF32.bit_len NB) + 1).
Proof. reflexivity. Qed.

(** the guard digits of pass n + 1 are twice those of pass n: extra_n + g = 2^n g *)
Theorem gen5_guard_doubles NB extra : large_next_extra_gen NB extra + dlen NB 1048576 = 2 * (extra + dlen NB 1048576).
Proof. unfold large_next_extra_gen. lia. Qed.

Section Passes.
Context {F : Type} (O : f32ops F).
Variable W : Z.

(** the first pass computes the approximant of the route before the repair *)
Theorem large_trace_first_pass fuel B NB p m e :
  large_trace_wp O W fuel NB B (large_work_precision_extra_gen p e B NB 0) m e = large_trace_asis O W fuel B NB p m e.
Proof. rewrite gen5_work_precision, Z.add_0_r. reflexivity. Qed.

End Passes.

(** * convert_base_exact = the specification, for every exponent *)
Section Exact.
Variable NB : Z.
Hypothesis NB_ge_2 : 2 <= NB.

Theorem convert_exact_asis_spec B p m s e : 2 <= B -> 1 <= p -> s <> 0 ->
  convert_exact_asis B NB p m s e = (let '(s', e', f) := convert_base_spec B NB p m s e in CDone s' e' f).
Proof.
  intros HB Hp Hs. unfold convert_exact_asis, convert_base_spec.
  assert (Hvp : 0 < snd (value_frac B s e)) by (apply (value_frac_pos B ltac:(lia))).
  destruct (value_frac B s e) as [N D] eqn:EV. cbn [snd] in Hvp.
  destruct (Z.leb_spec 0 e) as [He|He].
  - assert (HS : s * B ^ e <> 0) by (pose proof (Z.pow_pos_nonneg B e ltac:(lia) He); nia).
    apply (round_norm_value_spec NB NB_ge_2 p m (s * B ^ e) 0 N D Hp HS Hvp).
    unfold value_frac in *. change (0 <=? 0) with true. destruct (Z.leb_spec 0 e); [|lia]. injection EV as <- <-. cbn [fst snd]. rewrite Z.pow_0_r. ring.
  - pose proof (normalize_spec NB NB_ge_2 s 0) as N1. destruct (normalize NB s 0) as [sn ne].
    pose proof (normalize_spec NB NB_ge_2 (B ^ (- e)) 0) as N2. destruct (normalize NB (B ^ (- e)) 0) as [sd de].
    pose proof (Z.pow_pos_nonneg B (- e) ltac:(lia) ltac:(lia)) as PB.
    destruct N1 as [_ N1]. destruct (N1 Hs) as (Hsn & _ & k1 & Hk1 & -> & Es).
    destruct N2 as [_ N2]. destruct (N2 ltac:(lia)) as (Hd0 & _ & k2 & Hk2 & -> & Ed).
    assert (Hd : 0 < sd) by (pose proof (Bpow_pos NB NB_ge_2 k2 Hk2); nia).
    rewrite (div_round_once_value_spec NB NB_ge_2 p m sn (0 + k1) sd (0 + k2) Hp Hsn Hd ltac:(lia) ltac:(lia)).
    replace (0 + k1) with k1 by lia. replace (0 + k2) with k2 by lia. rewrite <- Es, <- Ed.
    unfold value_frac in EV. destruct (Z.leb_spec 0 e); [lia|]. injection EV as <- <-. reflexivity.
Qed.

(** the small-exponent branch of convert_base is this function *)
Theorem convert_base_small_is_exact B p m s e : NB <> B ->
  (if B <? NB then ilog_exact NB B else 0) <= 1 -> (if B <? NB then 0 else ilog_exact B NB) <= 1 -> p <> 0 ->
  Z.abs e <= threshold_small_exp ->
  convert_base_asis4 B NB p m s e = convert_exact_asis B NB p m s e.
Proof.
  intros Hne Hup Hdn Hp Hsm. unfold convert_base_asis4, convert_exact_asis.
  destruct (Z.eqb_spec NB B); [contradiction|].
  destruct (Z.ltb_spec 1 (if B <? NB then ilog_exact NB B else 0)); [lia|].
  destruct (Z.ltb_spec 1 (if B <? NB then 0 else ilog_exact B NB)); [lia|].
  destruct (Z.eqb_spec p 0); [contradiction|].
  destruct (Z.leb_spec (Z.abs e) threshold_small_exp); [reflexivity|lia].
Qed.

End Exact.

(** * what a pass / the loop returns *)
Lemma rounding_eqb_eq a b : rounding_eqb a b = true -> a = b.
Proof. destruct a, b; cbn; congruence. Qed.
Lemma flag_eqb_eq a b : flag_eqb a b = true -> a = b.
Proof. destruct a, b; cbn; try congruence. intros H. f_equal. apply rounding_eqb_eq, H. Qed.
Lemma conv_eqb_eq a b : conv_eqb a b = true -> a = b /\ exists s e f, a = CDone s e f.
Proof.
  destruct a as [s e f| |], b as [s' e' f'| |]; cbn; try congruence.
  intros H. apply andb_prop in H. destruct H as [H H3]. apply andb_prop in H. destruct H as [H1 H2].
  apply Z.eqb_eq in H1. apply Z.eqb_eq in H2. apply flag_eqb_eq in H3. subst. split; [reflexivity|]. eauto.
Qed.

Section Returns.
Context {F : Type} (O : f32ops F).
Variable W : Z.
Variable NB : Z.
Hypothesis NB_ge_2 : 2 <= NB.

(** the answer [c] is the common rounding of both ends of the error interval of an approximant of some pass *)
Definition stable_answer (fuel : nat) (B p : Z) (m : mode) (s e : Z) (c : TextIoModel.conv) : Prop :=
  exists extra t,
    large_trace_wp O W fuel NB B (large_work_precision_extra_gen p e B NB extra) m e = Ok t /\
    let '(ys, ye) := large_pre s t in
    let pad := large_pad_gen p extra in
    c = round_norm NB p m (ys * (NB ^ pad - 1)) (ye - pad) /\ c = round_norm NB p m (ys * (NB ^ pad + 1)) (ye - pad).

Theorem large_pass_returns fuel B p m s e extra s' e' f : 2 <= B -> 1 <= p -> s <> 0 ->
  large_pass O W fuel B NB p m s e extra = PReturn (CDone s' e' f) ->
  stable_answer fuel B p m s e (CDone s' e' f) \/
  (large_exact_window NB p s e = true /\ (s', e', f) = convert_base_spec B NB p m s e).
Proof.
  intros HB Hp Hs. unfold large_pass.
  destruct (large_trace_wp O W fuel NB B (large_work_precision_extra_gen p e B NB extra) m e) as [t|r|x|] eqn:ET; try discriminate.
  destruct (large_pre s t) as [ys ye] eqn:EP. unfold large_ends.
  destruct (conv_eqb _ _) eqn:EQ.
  - intros H. injection H as H. left. exists extra, t. split; [exact ET|]. rewrite EP. cbv zeta.
    apply conv_eqb_eq in EQ. destruct EQ as [EQ _]. split; [symmetry; exact H | rewrite <- EQ; symmetry; exact H].
  - destruct (large_exact_window NB p s e) eqn:EW; [|discriminate].
    intros H. injection H as H. right. split; [reflexivity|].
    rewrite (convert_exact_asis_spec NB NB_ge_2 B p m s e HB Hp Hs) in H.
    destruct (convert_base_spec B NB p m s e) as [[a b] c]. injection H as <- <- <-. reflexivity.
Qed.

Theorem convert_large_loop_returns passes fuel B p m s e s' e' f : 2 <= B -> 1 <= p -> s <> 0 -> forall extra,
  convert_large_loop O W passes fuel B NB p m s e extra = CDone s' e' f ->
  stable_answer fuel B p m s e (CDone s' e' f) \/
  (large_exact_window NB p s e = true /\ (s', e', f) = convert_base_spec B NB p m s e).
Proof.
  intros HB Hp Hs. induction passes as [|k IH]; intros extra; cbn [convert_large_loop]; [discriminate|].
  destruct (large_pass O W fuel B NB p m s e extra) as [c|] eqn:EPs.
  - intros ->. exact (large_pass_returns fuel B p m s e extra s' e' f HB Hp Hs EPs).
  - apply IH.
Qed.

(** a retry happens only outside the window: there the value is no float of p + 1 digits (see findings, F05) *)
Theorem large_pass_retry fuel B p m s e extra :
  large_pass O W fuel B NB p m s e extra = PRetry -> large_exact_window NB p s e = false.
Proof.
  unfold large_pass. destruct (large_trace_wp _ _ _ _ _ _ _ _) as [t|r|x|]; try discriminate.
  destruct (large_pre s t) as [ys ye]. destruct (large_ends NB p m ys ye _) as [lo hi].
  destruct (conv_eqb lo hi); [discriminate|]. destruct (large_exact_window NB p s e); [discriminate|reflexivity].
Qed.

(** each end of the interval is rounded as the specification demands of that end *)
Theorem large_end_is_spec p m ys ye pad (sg : Z) : 1 <= p -> ys <> 0 -> 1 <= pad -> (sg = 1 \/ sg = -1) ->
  round_norm NB p m (ys * (NB ^ pad + sg)) (ye - pad) =
  (let '(N, D) := value_frac NB (ys * (NB ^ pad + sg)) (ye - pad) in
   let '(s', e', f) := convert_value_spec NB p m N D in CDone s' e' f).
Proof.
  intros Hp Hy Hpad Hsg.
  assert (P2 : 2 <= NB ^ pad) by (apply pow_ge_2; lia).
  assert (HS : ys * (NB ^ pad + sg) <> 0) by nia.
  pose proof (value_frac_pos NB NB_ge_2 (ys * (NB ^ pad + sg)) (ye - pad)) as Hvp.
  destruct (value_frac NB (ys * (NB ^ pad + sg)) (ye - pad)) as [N D] eqn:EV. cbn [snd] in Hvp.
  apply (round_norm_value_spec NB NB_ge_2 p m _ _ N D Hp HS Hvp). rewrite EV. cbn [fst snd]. ring.
Qed.

(** ** the stability test is sound: if both ends of the interval round to the same float with the same Inexact flag, every
    value N / D between the two ends has exactly that float and flag as its specification *)
Theorem large_ends_agree_correct p m ys ye pad N D s' e' r : 1 <= p -> ys <> 0 -> 1 <= pad -> 0 < D ->
  round_norm NB p m (ys * (NB ^ pad - 1)) (ye - pad) = CDone s' e' (FInexact r) ->
  round_norm NB p m (ys * (NB ^ pad + 1)) (ye - pad) = CDone s' e' (FInexact r) ->
  (let '(Nl, Dl) := value_frac NB (ys * (NB ^ pad - 1)) (ye - pad) in
   let '(Nh, Dh) := value_frac NB (ys * (NB ^ pad + 1)) (ye - pad) in
   (Nl * D <= N * Dl /\ N * Dh <= Nh * D) \/ (Nh * D <= N * Dh /\ N * Dl <= Nl * D)) ->
  convert_value_spec NB p m N D = (s', e', FInexact r).
Proof.
  intros Hp Hy Hpad HD Hl Hh Btw.
  pose proof (large_end_is_spec p m ys ye pad (-1) Hp Hy Hpad ltac:(right; reflexivity)) as El.
  pose proof (large_end_is_spec p m ys ye pad 1 Hp Hy Hpad ltac:(left; reflexivity)) as Eh.
  change (NB ^ pad + -1) with (NB ^ pad - 1) in El.
  pose proof (value_frac_pos NB NB_ge_2 (ys * (NB ^ pad - 1)) (ye - pad)) as Pl.
  pose proof (value_frac_pos NB NB_ge_2 (ys * (NB ^ pad + 1)) (ye - pad)) as Ph.
  destruct (value_frac NB (ys * (NB ^ pad - 1)) (ye - pad)) as [Nl Dl].
  destruct (value_frac NB (ys * (NB ^ pad + 1)) (ye - pad)) as [Nh Dh]. cbn [snd] in Pl, Ph.
  rewrite Hl in El. rewrite Hh in Eh.
  destruct (convert_value_spec NB p m Nl Dl) as [[a1 b1] c1] eqn:S1. destruct (convert_value_spec NB p m Nh Dh) as [[a2 b2] c2] eqn:S2.
  injection El as <- <- <-. injection Eh as <- <- <-.
  destruct Btw as [[L U]|[L U]].
  - exact (convert_value_spec_between NB NB_ge_2 p m Nl Dl N D Nh Dh s' e' r Hp Pl HD Ph L U S1 S2).
  - exact (convert_value_spec_between NB NB_ge_2 p m Nh Dh N D Nl Dl s' e' r Hp Ph HD Pl L U S2 S1).
Qed.

End Returns.

(** * from "both ends round alike" to "the value is rounded correctly" *)
Open Scope R_scope.
(** a monotone rounding that agrees at both ends of an interval is constant on it; if both ends lie strictly on
    one side of their rounding (the Inexact flags agree), so does every point between them *)
Theorem monotone_stable_between (rnd : R -> R) lo hi v :
  (forall x y, x <= y -> rnd x <= rnd y) -> rnd lo = rnd hi -> lo <= v <= hi ->
  rnd v = rnd lo /\ (rnd lo < lo -> rnd v < v) /\ (hi < rnd hi -> v < rnd v).
Proof.
  intros Mono Eq [V1 V2]. pose proof (Mono _ _ V1). pose proof (Mono _ _ V2).
  assert (E : rnd v = rnd lo) by lra. split; [exact E|]. split; intros; lra.
Qed.

Lemma Rabs_le_both x y : Rabs x <= y -> - y <= x <= y.
Proof. unfold Rabs. destruct (Rcase_abs x); lra. Qed.

(** the ends the code rounds enclose every value within NB^-pad of the approximant (relative to the approximant) *)
Theorem ends_enclose (A V d : R) : 0 <= d -> Rabs (V - A) <= d * Rabs A ->
  Rmin (A * (1 - d)) (A * (1 + d)) <= V <= Rmax (A * (1 - d)) (A * (1 + d)).
Proof.
  intros Hd H. destruct (Rle_dec 0 A) as [P|P].
  - rewrite (Rabs_pos_eq A P) in H. apply Rabs_le_both in H.
    assert (A * (1 - d) <= A * (1 + d)) by nra. rewrite Rmin_left, Rmax_right by assumption. lra.
  - rewrite (Rabs_left A) in H by lra. apply Rabs_le_both in H.
    assert (A * (1 + d) <= A * (1 - d)) by nra. rewrite Rmin_right, Rmax_left by assumption. lra.
Qed.

(** non-vacuity *)
Example monotone_stable_between_ex : let rnd := fun x : R => 0 in rnd 1 = rnd 2 /\ 1 <= 3 / 2 <= 2.
Proof. cbn. split; [reflexivity|lra]. Qed.
