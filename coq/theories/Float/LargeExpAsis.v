(** C08 (round 3): the ln/exp route of Context::convert_base (float/src/convert.rs, the branch taken for
    bases that are not powers of one another, limited precision p, |exponent| > THRESHOLD_SMALL_EXP),
    transcribed AS IS at value level on top of the C11 as-is models of Context::ln / ln_base / exp and
    of FBig's `isize * FBig` and div_rem_euclid (Float/ElemAsis.v).  Every float of the route lives in
    the NEW base NB (ln_base::<NewB>() fixes the type); the work precision is the formula regenerated from the
    source on every run (DashuGen.ConvBaseGen.large_work_precision_gen: 2p + digits of exponent * bit_len(B) since
    the repair F07, 2p before):

      work_context = Context::new(large_work_precision)
      new_exp  = repr.exponent * work_context.ln(&Repr::new(B.into(), 0)).value()
      (exponent, rem) = new_exp.div_rem_euclid(work_context.ln_base::<NewB>())
      exponent : isize = exponent.try_into().unwrap()
      exp_rem  = rem.exp()
      self.repr_round(Repr::new(repr.significand * exp_rem.repr.significand, exponent + exp_rem.repr.exponent))

    Definitions only (proofs: LargeExpAsisProof.v). *)
From Dashu Require Import Base.Prelude Float.RoundSpec Float.Contract Float.Model Float.ElemF32 Float.ElemAsis
  Int.IoSpec Float.TextIoSpec Float.TextIoModel Float.LargeExpBound.
From DashuGen Require Import RoundTables ConvBaseGen.
Open Scope Z_scope.

Section Large.
Context {F : Type} (O : f32ops F).
Variable W : Z.

(** the five intermediate floats of the route (all in base NB): ln B, exponent * ln B, ln NB, the Euclidean
    quotient and remainder, exp(rem) *)
Record large_trace := LT { lt_lnB : fbig; lt_newexp : fbig; lt_lnNB : fbig; lt_q : Z; lt_rem : fbig; lt_exp : approx }.

Definition large_trace_asis (fuel : nat) (B NB p : Z) (m : mode) (e : Z) : result large_trace :=
  let wp := large_work_precision_gen p e B NB in
  let '(bs, be) := normalize NB B 0 in
  rbind (ln_internal NB O W fuel wp m bs be false) (fun a =>
  let lnB := FB (approx_sig a) (approx_exp a) wp in
  let new_exp := prim_mul NB m e lnB in
  rbind (ln_base NB O W fuel wp m) (fun lnNB =>
  rbind (fb_div_rem_euclid NB m new_exp lnNB) (fun qr =>
  let '(q, r) := qr in
  (* exponent.try_into().unwrap() *)
  if (q <? - isize_max - 1) || (isize_max <? q) then Panic Undocumented
  else
    rbind (exp_internal NB O W fuel (fprec r) m (fsig r) (fexp r) false) (fun ex =>
    Ok (LT lnB new_exp lnNB q r ex))))).

(** the value handed to the final rounding: significand * significand(exp_rem), exponent + exponent(exp_rem) *)
Definition large_pre (s : Z) (t : large_trace) : Z * Z :=
  (s * approx_sig (lt_exp t), lt_q t + approx_exp (lt_exp t)).

Definition convert_large_asis (fuel : nat) (B NB p : Z) (m : mode) (s e : Z) : conv :=
  match large_trace_asis fuel B NB p m e with
  | Ok t => let '(ys, ye) := large_pre s t in round_norm NB p m ys ye
  | Panic r => CPanic r
  | Err _ => CPanic Undocumented
  | OutOfFuel => CLarge
  end.

(** Context::convert_base, every route *)
Definition convert_base_full_asis (fuel : nat) (B NB p : Z) (m : mode) (s e : Z) : conv :=
  match convert_base_asis B NB p m s e with
  | CLarge => convert_large_asis fuel B NB p m s e
  | r => r
  end.

End Large.

(** the executable accuracy test of Float/LargeExpBound.v for an arbitrary work precision wp (D = NB^(wp-1));
    the oracle calls it with wp = large_work_precision_gen (sound: LargeExpAsisProof.large_route_check_wp_sound) *)
Definition lr_Dw (NB wp : Z) : Z := NB ^ (wp - 1).
Definition lr_enw (k B NB wp e : Z) : Z :=
  let D := lr_Dw NB wp in let tn := lr_tn k B NB e in k * D + 2 * tn * D + 2 * k * tn.
Definition large_route_check_wp (k B NB p wp e N Dv rs re : Z) : option bool :=
  let D := lr_Dw NB wp in
  if negb ((2 * lr_tn k B NB e <=? D) && (4 * k <=? D)) then None
  else
    let en := lr_enw k B NB wp e in
    let P1 := NB ^ (p - 1) in
    let '(l, r) := if 0 <=? re then (Z.abs (rs * NB ^ re * Dv - N), Z.abs N)
                   else (Z.abs (rs * Dv - N * NB ^ (- re)), Z.abs N * NB ^ (- re)) in
    Some (l * (D * D * P1) <=? (D * D + en + en * P1) * r).
