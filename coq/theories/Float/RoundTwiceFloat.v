(** C10 round 3: FBig::with_precision twice, at float level, for the four directed modes.

    x.with_precision(np1).value().with_precision(np2) with 1 <= np2 <= np1 returns exactly the float (significand and
    exponent, after the normalisation Repr::new performs) that x.with_precision(np2) returns - whether or not the first
    rounding carries into a new digit, and whatever trailing zeros the normalisation strips in between.  (The flags
    differ: each is relative to its own input.)  For the nearest modes this is false (RoundTwiceProof.v). *)
From Dashu Require Import Base.Prelude Float.RoundSpec Float.RoundSpecProof Float.Contract Float.Model Float.ModelProof
  Float.RoundOpsModel Float.RoundOpsProof Float.RoundOpsDeep Float.RoundTwiceProof Ratio.RatRoundProof.
From DashuGen Require Import RoundTables.
Open Scope Z_scope.

Section Twice.
Variable B : Z.
Hypothesis B_ge_2 : 2 <= B.

Local Notation Bpos := (Bpow_pos B B_ge_2).

(** s1 * B^e1 = s2 * B^e2, over any common lower exponent *)
Definition veq (s1 e1 s2 e2 : Z) : Prop := same_value B s1 e1 s2 e2.

Lemma veq_at c s1 e1 s2 e2 : c <= e1 -> c <= e2 ->
  (veq s1 e1 s2 e2 <-> s1 * B ^ (e1 - c) = s2 * B ^ (e2 - c)).
Proof.
  intros H1 H2. unfold veq, same_value. cbv zeta. set (m := Z.min e1 e2).
  assert (Hm : c <= m) by (unfold m; lia).
  replace (e1 - c) with ((e1 - m) + (m - c)) by lia. replace (e2 - c) with ((e2 - m) + (m - c)) by lia.
  rewrite !Z.pow_add_r by (unfold m; lia). pose proof (Bpos (m - c) ltac:(lia)) as Hp.
  rewrite !Z.mul_assoc. split; intros H.
  - rewrite H. reflexivity.
  - apply (Z.mul_reg_r _ _ (B ^ (m - c))); [lia | exact H].
Qed.

Lemma veq_refl s e : veq s e s e.
Proof. unfold veq, same_value. reflexivity. Qed.

Lemma veq_sym s1 e1 s2 e2 : veq s1 e1 s2 e2 -> veq s2 e2 s1 e1.
Proof. unfold veq, same_value. cbv zeta. rewrite (Z.min_comm e2 e1). intros H. symmetry. exact H. Qed.

Lemma veq_trans s1 e1 s2 e2 s3 e3 : veq s1 e1 s2 e2 -> veq s2 e2 s3 e3 -> veq s1 e1 s3 e3.
Proof.
  intros H12 H23. set (c := Z.min e1 (Z.min e2 e3)).
  apply (veq_at c) in H12; [|unfold c; lia|unfold c; lia].
  apply (veq_at c) in H23; [|unfold c; lia|unfold c; lia].
  apply (veq_at c); [unfold c; lia|unfold c; lia|]. congruence.
Qed.

(** scaling: (s * B^j, e) and (s, e + j) *)
Lemma veq_shift s e j : 0 <= j -> veq (s * B ^ j) e s (e + j).
Proof.
  intros Hj. apply (veq_at e); [lia|lia|]. rewrite Z.sub_diag, Z.pow_0_r. replace (e + j - e) with j by lia. lia.
Qed.

(** normal forms are unique *)
Lemma veq_normal s1 e1 s2 e2 : veq s1 e1 s2 e2 -> s1 mod B <> 0 -> s2 mod B <> 0 -> s1 = s2 /\ e1 = e2.
Proof.
  intros H N1 N2.
  assert (Hdiv : forall a ea b eb, ea < eb -> a * B ^ (ea - ea) = b * B ^ (eb - ea) -> a mod B = 0).
  { intros a ea b eb Hlt E. rewrite Z.sub_diag, Z.pow_0_r, Z.mul_1_r in E.
    replace (eb - ea) with (1 + (eb - ea - 1)) in E by lia. rewrite Z.pow_add_r, Z.pow_1_r in E by lia.
    subst a. rewrite (Z.mul_comm B), Z.mul_assoc. apply Z_mod_mult. }
  destruct (Z.lt_trichotomy e1 e2) as [L|[L|L]].
  - exfalso. apply N1. apply (Hdiv s1 e1 s2 e2 L). apply (veq_at e1) in H; [exact H|lia|lia].
  - split; [|exact L]. subst e2. apply (veq_at e1) in H; [|lia|lia]. rewrite Z.sub_diag, Z.pow_0_r in H. lia.
  - exfalso. apply N2. apply (Hdiv s2 e2 s1 e1 L). apply (veq_at e2) in H; [symmetry; exact H|lia|lia].
Qed.

Definition aveq (a b : approx) : Prop := veq (approx_sig a) (approx_exp a) (approx_sig b) (approx_exp b).

(** norm_approx keeps the value *)
Lemma norm_approx_veq a : aveq (norm_approx B a) a.
Proof.
  destruct a as [s e|s e r]; [apply veq_refl|]. unfold aveq. cbn [norm_approx].
  pose proof (normalize_spec B B_ge_2 s e) as N. destruct (normalize B s e) as [s' e']. cbn [approx_sig approx_exp].
  destruct N as [N0 N1]. destruct (Z.eq_dec s 0) as [->|Hs].
  - destruct (N0 eq_refl) as [-> ->]. unfold veq, same_value. cbv zeta. lia.
  - destruct (N1 Hs) as (_ & _ & k & Hk & -> & ->). apply veq_sym. apply veq_shift. exact Hk.
Qed.

(** digits of a scaled significand *)
Lemma dlen_scale s j : s <> 0 -> 0 <= j -> dlen B (s * B ^ j) = dlen B s + j.
Proof.
  intros Hs Hj. destruct (dlen_spec B B_ge_2 s Hs) as [[L U] D]. pose proof (Bpos j Hj) as Hp.
  apply (dlen_unique B B_ge_2); [lia|].
  rewrite Z.abs_mul, (Z.abs_eq (B ^ j)) by lia.
  replace (dlen B s + j - 1) with ((dlen B s - 1) + j) by lia. rewrite !Z.pow_add_r by lia.
  split; [apply Z.mul_le_mono_nonneg_r; lia | apply Z.mul_lt_mono_pos_r; lia].
Qed.

(** with_precision sees the value, not the representation: trailing zero digits of the significand do not matter *)
Lemma wp_spec_scale m s e j np : s <> 0 -> 0 <= j -> 0 <= np ->
  aveq (with_precision_spec B m (s * B ^ j) e np) (with_precision_spec B m s (e + j) np).
Proof.
  intros Hs Hj Hnp. unfold with_precision_spec, aveq. rewrite (dlen_scale s j Hs Hj).
  destruct (dlen_spec B B_ge_2 s Hs) as [_ D]. pose proof (Bpos j Hj) as Hpj.
  destruct (Z.eqb_spec np 0) as [N0|N0]; cbn [orb].
  { cbn [approx_sig approx_exp]. apply veq_shift. exact Hj. }
  destruct (Z.leb_spec (dlen B s + j) np) as [A|A].
  { destruct (Z.leb_spec (dlen B s) np); [|lia]. cbn [approx_sig approx_exp]. apply veq_shift. exact Hj. }
  destruct (Z.leb_spec (dlen B s) np) as [C|C]; cbn [approx_sig approx_exp].
  - (* only zeros are cut: exact *)
    set (k := dlen B s + j - np). assert (Hk : 0 < k <= j) by (unfold k; lia).
    pose proof (Bpos k ltac:(lia)) as Hpk.
    assert (E : spec_round m (s * B ^ j) (B ^ k) = s * B ^ (j - k)).
    { apply (Z.mul_reg_r _ _ (B ^ k)); [lia|].
      rewrite spec_round_exact; [| lia |].
      - rewrite <- Z.mul_assoc, <- Z.pow_add_r by lia. f_equal. f_equal. lia.
      - replace j with ((j - k) + k) by lia. rewrite Z.pow_add_r by lia. rewrite Z.mul_assoc. apply Z_mod_mult. }
    rewrite E. apply (veq_at e); [lia|lia|].
    replace (e + k - e) with k by lia. replace (e + j - e) with j by lia.
    rewrite <- Z.mul_assoc, <- Z.pow_add_r by lia. f_equal. f_equal. lia.
  - set (k := dlen B s - np). replace (dlen B s + j - np) with (k + j) by (unfold k; lia).
    pose proof (Bpos k ltac:(unfold k; lia)) as Hpk.
    rewrite Z.pow_add_r by (unfold k; lia).
    rewrite (spec_round_scale m s (B ^ k) (B ^ j) Hpk Hpj).
    replace (e + (k + j)) with (e + j + k) by lia. apply veq_refl.
Qed.

(** the un-normalised chain: cut to np1 digits, then to np2 <= np1 *)
Lemma wp_twice_raw m s e np1 np2 : is_directed m = true -> 1 <= np2 -> np2 <= np1 -> np1 < dlen B s ->
  let a1 := with_precision_spec B m s e np1 in
  aveq (with_precision_spec B m (approx_sig a1) (approx_exp a1) np2) (with_precision_spec B m s e np2).
Proof.
  intros Hm H2 H21 H1 a1.
  set (d := dlen B s) in *. set (k1 := d - np1).
  assert (Ha1 : a1 = AInexact (spec_round m s (B ^ k1)) (e + k1) (flag_of_adj (spec_round m s (B ^ k1) - Z.quot s (B ^ k1)))).
  { unfold a1, with_precision_spec. fold d. destruct (Z.eqb_spec np1 0); [lia|]. cbn [orb].
    destruct (Z.leb_spec d np1); [lia|]. reflexivity. }
  set (r1 := spec_round m s (B ^ k1)) in *. rewrite Ha1. cbn [approx_sig approx_exp].
  (* the single rounding *)
  assert (Hsingle : with_precision_spec B m s e np2 =
                    AInexact (spec_round m s (B ^ (d - np2))) (e + (d - np2)) (flag_of_adj (spec_round m s (B ^ (d - np2)) - Z.quot s (B ^ (d - np2))))).
  { unfold with_precision_spec. fold d. destruct (Z.eqb_spec np2 0); [lia|]. cbn [orb].
    destruct (Z.leb_spec d np2); [lia|]. reflexivity. }
  rewrite Hsingle. unfold aveq.
  (* digits of r1 *)
  pose proof (repr_round_digits B B_ge_2 np1 m s e ltac:(lia) H1) as Hd.
  destruct (repr_round_spec B B_ge_2 np1 m s e ltac:(lia) H1) as (a & Ea & _). rewrite Ea in Hd. cbn [approx_sig] in Hd.
  fold d in Hd. fold k1 in Hd. fold r1 in Hd. cbv zeta in Hd.
  assert (Hk1 : 0 <= k1) by (unfold k1; lia).
  assert (Hsplit : d - np2 = k1 + (np1 - np2)) by (unfold k1; lia).
  assert (Htw : spec_round m s (B ^ (d - np2)) = spec_round m r1 (B ^ (np1 - np2))).
  { rewrite Hsplit. unfold r1. symmetry. apply directed_digits_twice; try assumption; lia. }
  pose proof (Bpos (np1 - 1) ltac:(lia)) as P1.
  destruct (Z.eq_dec (Z.abs r1) (B ^ np1)) as [Hc|Hc].
  - (* carry: r1 = +-B^np1, np1 + 1 digits *)
    assert (Hr1 : r1 <> 0) by (pose proof (Bpos np1 ltac:(lia)); lia).
    assert (Hd1 : dlen B r1 = np1 + 1).
    { apply (dlen_unique B B_ge_2); [lia|]. replace (np1 + 1 - 1) with np1 by lia. rewrite Hc.
      rewrite Z.pow_add_r, Z.pow_1_r by lia. pose proof (Bpos np1 ltac:(lia)). nia. }
    assert (Hsg : r1 = Z.sgn r1 * B ^ np1) by (rewrite <- Hc, Z.mul_comm; symmetry; apply Z.abs_sgn).
    unfold with_precision_spec. rewrite Hd1. destruct (Z.eqb_spec np2 0); [lia|]. cbn [orb].
    destruct (Z.leb_spec (np1 + 1) np2); [lia|]. cbn [approx_sig approx_exp].
    set (k2 := np1 + 1 - np2). pose proof (Bpos k2 ltac:(unfold k2; lia)) as Pk2.
    pose proof (Bpos (np1 - np2) ltac:(lia)) as Pk.
    assert (E2 : spec_round m r1 (B ^ k2) = Z.sgn r1 * B ^ (np2 - 1)).
    { apply (Z.mul_reg_r _ _ (B ^ k2)); [lia|]. rewrite spec_round_exact; [| lia |].
      - rewrite <- Z.mul_assoc, <- Z.pow_add_r by (unfold k2; lia). replace (np2 - 1 + k2) with np1 by (unfold k2; lia). exact Hsg.
      - rewrite Hsg. replace np1 with ((np2 - 1) + k2) at 1 by (unfold k2; lia). rewrite Z.pow_add_r by (unfold k2; lia).
        rewrite Z.mul_assoc. apply Z_mod_mult. }
    assert (E : spec_round m r1 (B ^ (np1 - np2)) = Z.sgn r1 * B ^ np2).
    { apply (Z.mul_reg_r _ _ (B ^ (np1 - np2))); [lia|]. rewrite spec_round_exact; [| lia |].
      - rewrite <- Z.mul_assoc, <- Z.pow_add_r by lia. replace (np2 + (np1 - np2)) with np1 by lia. exact Hsg.
      - rewrite Hsg. replace np1 with (np2 + (np1 - np2)) at 1 by lia. rewrite Z.pow_add_r by lia.
        rewrite Z.mul_assoc. apply Z_mod_mult. }
    rewrite E2, Htw, E. apply (veq_at (e + (d - np2))); [unfold k2, k1; lia | lia |].
    replace (e + k1 + k2 - (e + (d - np2))) with 1 by (unfold k1, k2; lia). rewrite Z.sub_diag, Z.pow_0_r, Z.pow_1_r.
    replace np2 with ((np2 - 1) + 1) at 2 by lia. rewrite Z.pow_add_r, Z.pow_1_r by lia. ring.
  - (* no carry: exactly np1 digits *)
    assert (Hd1 : dlen B r1 = np1).
    { apply (dlen_unique B B_ge_2); [lia|]. lia. }
    unfold with_precision_spec. rewrite Hd1. destruct (Z.eqb_spec np2 0); [lia|]. cbn [orb].
    destruct (Z.leb_spec np1 np2) as [Q|Q]; cbn [approx_sig approx_exp].
    + assert (np1 = np2) by lia. subst np2. rewrite Htw, Z.sub_diag, Z.pow_0_r.
      assert (E : spec_round m r1 1 = r1).
      { pose proof (spec_round_exact m r1 1 ltac:(lia) (Z.mod_1_r r1)). lia. }
      rewrite E. replace (e + (d - np1)) with (e + k1) by (unfold k1; lia). apply veq_refl.
    + rewrite Htw. replace (e + (d - np2)) with (e + k1 + (np1 - np2)) by lia. apply veq_refl.
Qed.

(** the chain as FBig::with_precision runs it (Repr::new normalises after each rounding): same float as the single cut *)
Theorem with_precision_twice_directed m s e np1 np2 : is_directed m = true -> 1 <= np2 -> np2 <= np1 ->
  let a1 := norm_approx B (with_precision_spec B m s e np1) in
  let a2 := norm_approx B (with_precision_spec B m (approx_sig a1) (approx_exp a1) np2) in
  let a := norm_approx B (with_precision_spec B m s e np2) in
  aveq a2 a.
Proof.
  intros Hm H2 H21 a1 a2 a.
  (* values: a2 ~ wp(norm a1) ~ wp(raw a1) ~ single ~ a *)
  apply (veq_trans _ _ _ _ _ _ (norm_approx_veq _)).
  apply veq_sym. apply (veq_trans _ _ _ _ _ _ (norm_approx_veq _)). apply veq_sym.
  destruct (Z.le_gt_cases (dlen B s) np1) as [D|D].
  { (* the first cut does nothing *)
    assert (Ea1 : a1 = AExact s e).
    { unfold a1, with_precision_spec. destruct (Z.leb_spec (dlen B s) np1); [|lia]. rewrite Bool.orb_true_r. reflexivity. }
    rewrite Ea1. cbn [approx_sig approx_exp]. apply veq_refl. }
  set (raw := with_precision_spec B m s e np1) in *.
  assert (Hraw : exists r f, raw = AInexact r (e + (dlen B s - np1)) f).
  { unfold raw, with_precision_spec. destruct (Z.eqb_spec np1 0); [lia|]. cbn [orb].
    destruct (Z.leb_spec (dlen B s) np1); [lia|]. eauto. }
  destruct Hraw as (r & f & Er).
  pose proof (wp_twice_raw m s e np1 np2 Hm H2 H21 D) as Raw. cbv zeta in Raw. fold raw in Raw.
  apply (fun H => veq_trans _ _ _ _ _ _ H Raw). clear Raw.
  unfold a1. rewrite Er. cbn [norm_approx approx_sig approx_exp].
  pose proof (normalize_spec B B_ge_2 r (e + (dlen B s - np1))) as N.
  destruct (normalize B r (e + (dlen B s - np1))) as [r' e']. cbn [approx_sig approx_exp].
  destruct N as [N0 N1]. destruct (Z.eq_dec r 0) as [R0|R0].
  - (* cannot happen for a significand longer than np1 >= 1 digits, but the statement does not need that *)
    destruct (N0 R0) as [-> ->]. subst r.
    unfold with_precision_spec, aveq. rewrite (dlen_zero B). destruct (Z.eqb_spec np2 0); [lia|]. cbn [orb].
    destruct (Z.leb_spec 0 np2); [|lia]. cbn [approx_sig approx_exp]. unfold veq, same_value. cbv zeta. lia.
  - destruct (N1 R0) as (R' & _ & k & Hk & -> & ->). apply veq_sym. apply wp_spec_scale; [exact R' | exact Hk | lia].
Qed.

(** ... and therefore literally the same significand and exponent *)
Theorem with_precision_twice_directed_eq m s e np1 np2 : is_directed m = true -> 1 <= np2 -> np2 <= np1 -> s mod B <> 0 ->
  let a1 := norm_approx B (with_precision_spec B m s e np1) in
  let a2 := norm_approx B (with_precision_spec B m (approx_sig a1) (approx_exp a1) np2) in
  let a := norm_approx B (with_precision_spec B m s e np2) in
  approx_sig a2 = approx_sig a /\ approx_exp a2 = approx_exp a.
Proof.
  intros Hm H2 H21 Hs a1 a2 a.
  pose proof (with_precision_twice_directed m s e np1 np2 Hm H2 H21) as V. cbv zeta in V. fold a1 a2 a in V.
  (* both sides are normal: either produced by normalize, or the untouched normal input *)
  assert (Hnorm : forall x y n, y mod B <> 0 ->
            approx_sig (norm_approx B (with_precision_spec B m y x n)) mod B <> 0 \/
            approx_sig (norm_approx B (with_precision_spec B m y x n)) = 0 /\ approx_exp (norm_approx B (with_precision_spec B m y x n)) = 0).
  { intros x y n Hy. unfold with_precision_spec. destruct ((n =? 0) || (dlen B y <=? n)).
    - left. exact Hy.
    - cbn [norm_approx]. pose proof (normalize_spec B B_ge_2 (spec_round m y (B ^ (dlen B y - n))) (x + (dlen B y - n))) as N.
      destruct (normalize B _ _) as [s' e']. cbn [approx_sig approx_exp]. destruct N as [N0 N1].
      destruct (Z.eq_dec (spec_round m y (B ^ (dlen B y - n))) 0) as [Q|Q].
      + right. exact (N0 Q).
      + left. exact (proj1 (proj2 (N1 Q))). }
  assert (Hz : forall s1 e1 s2 e2, veq s1 e1 s2 e2 -> s1 = 0 -> s2 = 0).
  { intros s1 e1 s2 e2 H ->. unfold veq, same_value in H. cbv zeta in H. rewrite Z.mul_0_l in H.
    pose proof (Bpos (e2 - Z.min e1 e2) ltac:(lia)). nia. }
  destruct (Hnorm e s np2 Hs) as [Na|[Na0 Nae]]; fold a in Na || (fold a in Na0, Nae).
  - (* a is normal and non-zero; so is a2's input a1 unless zero *)
    assert (Ha1 : approx_sig a1 mod B <> 0 \/ approx_sig a1 = 0 /\ approx_exp a1 = 0) by (apply Hnorm; exact Hs).
    destruct Ha1 as [Na1|[Z1 Z1e]].
    + destruct (Hnorm (approx_exp a1) (approx_sig a1) np2 Na1) as [Na2|[Na20 _]]; fold a2 in Na2 || fold a2 in Na20.
      * apply (veq_normal _ _ _ _ V Na2 Na).
      * exfalso. apply Na. rewrite (Hz _ _ _ _ V Na20). apply Z.mod_0_l. lia.
    + (* a1 = 0: then a2 = with_precision of zero = zero, and so must a be *)
      exfalso. apply Na.
      assert (A20 : approx_sig a2 = 0).
      { unfold a2. rewrite Z1. unfold with_precision_spec. rewrite (dlen_zero B).
        destruct (Z.eqb_spec np2 0); [lia|]. cbn [orb]. destruct (Z.leb_spec 0 np2); [|lia]. reflexivity. }
      rewrite (Hz _ _ _ _ V A20). apply Z.mod_0_l. lia.
  - (* a = 0 *)
    assert (A20 : approx_sig a2 = 0) by (apply (Hz _ _ _ _ (veq_sym _ _ _ _ V)); exact Na0).
    split; [lia|]. rewrite Nae.
    (* a2 is zero and produced by norm_approx of a with_precision_spec: its exponent is 0 or it is an untouched input *)
    assert (Ha1 : approx_sig a1 mod B <> 0 \/ approx_sig a1 = 0 /\ approx_exp a1 = 0) by (apply Hnorm; exact Hs).
    destruct Ha1 as [Na1|[Z1 Z1e]].
    + destruct (Hnorm (approx_exp a1) (approx_sig a1) np2 Na1) as [Na2|[_ Na2e]]; fold a2 in Na2 || fold a2 in Na2e.
      * exfalso. apply Na2. rewrite A20. apply Z.mod_0_l. lia.
      * exact Na2e.
    + unfold a2. rewrite Z1, Z1e. unfold with_precision_spec. rewrite (dlen_zero B).
      destruct (Z.eqb_spec np2 0); [lia|]. cbn [orb]. destruct (Z.leb_spec 0 np2); [|lia]. reflexivity.
Qed.

End Twice.

Example twice_float_example :
  let a1 := norm_approx 10 (with_precision_spec 10 MUp 99949 (-3) 3) in
  a1 = AInexact 1 2 AddOne /\
  norm_approx 10 (with_precision_spec 10 MUp (approx_sig a1) (approx_exp a1) 2) = AExact 1 2 /\
  norm_approx 10 (with_precision_spec 10 MUp 99949 (-3) 2) = AInexact 1 2 AddOne.
Proof. repeat split; vm_compute; reflexivity. Qed.
