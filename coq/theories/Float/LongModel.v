(** C03 round 3, definitions only (proofs: AddLongProof.v, MulDivLongProof.v, SqrtLongProof.v, RemProof.v,
    NormalProof.v).

    - operands LONGER than the precision: the class in which Context::repr_round_sum keeps fewer than p
      digits (effective subtraction that cancels), Context::sub as repaired (0 - x = repr_round(-x)),
      the specification of a square root whose radicand has a fractional part;
    - Context::rem (float/src/div.rs repr_rem), the FBig forms of % / rem_euclid / div_euclid /
      div_rem_euclid, Inverse / sqr / cubic / sqrt of an FBig, + and - with a primitive operand;
    - the same operations WITH the trailing-zero stripping of every Repr::new the code performs
      ([..._n] models): what the implementation stores, digit for digit.
    A float is (s, e) = s * B^e; IBig arithmetic is Z arithmetic. *)
From Dashu Require Import Base.Prelude Float.RoundSpec Float.Contract Float.Model Float.AddModel Float.DivMulModel.
From DashuGen Require Import RoundTables.
Open Scope Z_scope.

Section LongModel.
Variable B : Z.

(* ------------------------------------------------------------------ addition, any operand length *)
(** the re-alignment step of Context::repr_round_sum (transcribed once more so that the class below is
    executable without a proof file; AddLongProof.realign_l_eq ties it to AddModelProof.realign) *)
Definition realign_l (rp sig e low lp : Z) : Z * Z * Z * Z :=
  let d := dlen B sig in
  match d ?= rp with
  | Eq => (sig, e, low, lp)
  | Gt =>
      let shift := d - rp in
      let '(hi, lo) := split_digits B sig shift in
      (hi, e + shift, low + shl_digits B lo lp, lp + shift)
  | Lt =>
      if low =? 0 then (sig, e, low, lp)
      else
        let shift := Z.min lp (rp - d) in
        let '(pad, low') := split_digits B low (lp - shift) in
        (shl_digits B sig shift + pad, e - shift, low', lp - shift)
  end.

(** after re-alignment a non-zero low part remains to be rounded off although the value has fewer
    than p digits above the rounding position: the rounding then keeps fewer than p digits *)
Definition rrs_short (p sig low lp : Z) (is_sub : bool) : bool :=
  let '(s, _, l, k) := realign_l (p + b2z is_sub) sig 0 low lp in
  negb (l =? 0) && (Z.abs (s * B ^ k + l) <? B ^ (p - 1 + k)).

(** ... for the aligned sum the three non-far branches of repr_add_large_small / small_large build
    (L: operand with the larger exponent, R: the other one with its sign, ediff >= 1 digits lower) *)
Definition add_core_short (p L R ediff : Z) (is_sub : bool) : bool :=
  let ld := dlen B L in
  if ld >=? p then
    let '(hi, lo) := split_digits B R ediff in rrs_short p (L + hi) lo ediff is_sub
  else if ediff + ld >? p then
    let lshift := p - ld in
    let rshift := ediff - lshift in
    let '(hi, lo) := split_digits B R rshift in rrs_short p (L * B ^ lshift + hi) lo rshift is_sub
  else rrs_short p (L * B ^ ediff + R) 0 0 is_sub.

(** finding add_overlong_cancellation: the operand pairs of Context::add (sg = Positive) / Context::sub
    (sg = Negative) for which the result may keep fewer than p digits *)
Definition add_short_class (p s1 e1 s2 e2 : Z) (sg : sign) : bool :=
  if (p =? 0) || (s1 =? 0) || (s2 =? 0) then false else
  let is_sub := negb (sign_eqb (sign_of s1) (sign_mul sg (sign_of s2))) in
  match e1 ?= e2 with
  | Eq => false
  | Gt => add_core_short p s1 (sgnz sg * s2) (e1 - e2) is_sub
  | Lt => add_core_short p (sgnz sg * s2) s1 (e2 - e1) is_sub
  end.

(** Context::sub as repaired (0 - x rounds -x; float/src/add.rs after commit 0962c0f) *)
Definition ctx_sub_fixed (digits_ub : Z -> Z) (p : Z) (m : mode) (s1 e1 s2 e2 : Z) : approx :=
  if s1 =? 0 then repr_round B p m (- s2) e2
  else if s2 =? 0 then repr_round B p m s1 e1
  else add_dispatch B digits_ub p m s1 e1 s2 e2 Negative.

(* ------------------------------------------------------------------ multiplication / division, over-long *)
(** the operand lengths from which Context::mul / sqr / cubic / div round an operand BEFORE the
    operation (two roundings: finding overlong_operand_double_rounding) *)
Definition mul_long_class (p s1 s2 : Z) : bool := negb (p =? 0) && ((dlen B s1 >? 2 * p) || (dlen B s2 >? 2 * p)).
Definition sqr_long_class (p s : Z) : bool := negb (p =? 0) && (dlen B s >? 2 * p).
Definition cubic_long_class (p s : Z) : bool := negb (p =? 0) && (dlen B s >? 3 * p).
Definition div_long_class (p s1 s2 : Z) : bool := dlen B s1 >? p + dlen B s2.

(* ------------------------------------------------------------------ square root, any operand length *)
(** sqrt (M / K) rounded to an integer in mode m, for 0 <= M, 0 < K (used when M is not t^2 * K) *)
Definition sqrt_round_frac (m : mode) (M K : Z) : Z :=
  let t := Z.sqrt (M / K) in
  match m with
  | MDown | MZero => t
  | MUp | MAway => t + 1
  | MHalfAway => if 4 * M <? (2 * t + 1) * (2 * t + 1) * K then t else t + 1
  | MHalfEven =>
      match 4 * M ?= (2 * t + 1) * (2 * t + 1) * K with
      | Lt => t | Gt => t + 1 | Eq => if Z.even t then t else t + 1
      end
  end.

(** the radicand Context::sqrt works on: M / K in units of B^(e - shift), shift = sqrt_shift *)
Definition sqrt_radicand (p s e : Z) : Z * Z :=
  let shift := sqrt_shift B p s e in
  if shift >? 0 then (s * B ^ shift, 1) else (s, B ^ (- shift)).

(* ------------------------------------------------------------------ remainders *)
(** Context::repr_rem: the remainder of least magnitude (quotient rounded to nearest, ties away),
    computed in three ways depending on the exponents, then rounded to the precision *)
Definition rem_pick (sl : Z) (r1 r2 : Z) : Z := if r1 <? r2 then sl * r1 else - sl * r2.

Definition repr_rem_sig (s1 e1 s2 e2 : Z) : Z :=
  let sl := if s1 <? 0 then -1 else 1 in
  let a := Z.abs s1 in
  let d := Z.abs s2 in
  match e1 ?= e2 with
  | Eq => let r1 := a mod d in let r2 := d - r1 in rem_pick sl r1 r2
  | Gt =>
      (* lhs aligned to rhs inside the ring of integers modulo |rhs| (ConstDivisor) *)
      let shift := e1 - e2 in
      let r := ((a mod d) * (B ^ shift mod d)) mod d in
      let r2 := (- r) mod d in
      rem_pick sl r r2
  | Lt =>
      let shift := e2 - e1 in
      let '(hi, lo) := split_digits B a shift in
      let r1 := hi mod d in
      let r2 := d - r1 in
      rem_pick sl (r1 * B ^ shift + lo) (r2 * B ^ shift - lo)
  end.

Definition repr_rem (p : Z) (m : mode) (s1 e1 s2 e2 : Z) : result approx :=
  if s2 =? 0 then Panic DivideBy0
  else
    let sig := repr_rem_sig s1 e1 s2 e2 in
    if sig =? 0 then Ok (AExact 0 0)
    else let '(s, e) := normalize B sig (Z.min e1 e2) in Ok (repr_round B p m s e).

(** the exact value the remainder must have, in units of B^(min e1 e2): A - n * D with n the
    quotient A / D rounded to nearest, ties away from zero *)
Definition rem_exact (s1 e1 s2 e2 : Z) : Z :=
  let e0 := Z.min e1 e2 in
  let A := s1 * B ^ (e1 - e0) in
  let D := s2 * B ^ (e2 - e0) in
  A - spec_round MHalfAway (Z.sgn D * A) (Z.abs D) * D.

(** FBig % FBig (macro impl_div_or_rem_for_fbig, all four forms): repr_rem at Context::max *)
Definition fbig_rem (p1 p2 : Z) (m : mode) (s1 e1 s2 e2 : Z) : result (Z * Z) :=
  map_val (repr_rem (ctx_max p1 p2) m s1 e1 s2 e2).

(** align_as_int *)
Definition align_as_int (s1 e1 s2 e2 : Z) : Z * Z :=
  let ediff := e1 - e2 in
  if ediff >=? 0 then (s1 * B ^ ediff, s2) else (s1, s2 * B ^ (- ediff)).

(** IBig::div_euclid / rem_euclid: 0 <= r < |den| *)
Definition euclid_q (num den : Z) : Z := Z.sgn den * (num / Z.abs den).
Definition euclid_r (num den : Z) : Z := num mod Z.abs den.

(** DivEuclid for FBig *)
Definition fbig_div_euclid (s1 e1 s2 e2 : Z) : result Z :=
  if s2 =? 0 then Panic DivideBy0
  else let '(num, den) := align_as_int s1 e1 s2 e2 in Ok (euclid_q num den).

(** RemEuclid for FBig: the integer remainder converted by Context::convert_int (one rounding to
    Context::max of the operand precisions), then moved to the common exponent *)
Definition fbig_rem_euclid (p1 p2 : Z) (m : mode) (s1 e1 s2 e2 : Z) : result (Z * Z) :=
  if s2 =? 0 then Panic DivideBy0
  else
    let '(num, den) := align_as_int s1 e1 s2 e2 in
    let r := euclid_r num den in
    let '(s, e) := normalize B r 0 in
    let '(rs, re) := approx_val (repr_round B (ctx_max p1 p2) m s e) in
    let '(rs, re) := normalize B rs re in
    Ok (if rs =? 0 then (rs, re) else (rs, re + Z.min e1 e2)).

Definition fbig_div_rem_euclid (p1 p2 : Z) (m : mode) (s1 e1 s2 e2 : Z) : result (Z * (Z * Z)) :=
  match fbig_div_euclid s1 e1 s2 e2, fbig_rem_euclid p1 p2 m s1 e1 s2 e2 with
  | Ok q, Ok r => Ok (q, r)
  | Panic c, _ => Panic c
  | _, Panic c => Panic c
  | _, _ => OutOfFuel
  end.

(* ------------------------------------------------------------------ unary FBig forms, + - with primitives *)
(** FBig::sqr / cubic / SquareRoot::sqrt / Inverse::inv (for FBig and &FBig): the Context method at the
    float's own precision, [.value()] *)
Definition fbig_sqr (p : Z) (m : mode) (s e : Z) : Z * Z := approx_val (ctx_sqr B p m s e).
Definition fbig_cubic (p : Z) (m : mode) (s e : Z) : Z * Z := approx_val (ctx_cubic B p m s e).
Definition fbig_sqrt (p : Z) (m : mode) (s e : Z) : result (Z * Z) := map_val (ctx_sqrt B p m s e).
Definition fbig_inv (p : Z) (m : mode) (s e : Z) : result (Z * Z) := map_val (ctx_inv B p m s e).

(** float (+|-) primitive and primitive (+|-) float: FBig::from(n) first (helper_macros.rs), then the
    operator body for the ownership of the call: val/val, ref/val, val/ref *)
Variable digits_ub : Z -> Z.
Definition add_float_prim_vv (p : Z) (m : mode) (s e n : Z) (sg : sign) : Z * Z :=
  let '(sn, en) := prim_repr B n in add_val_val B digits_ub p (prim_prec B n) m s e sn en sg.
Definition add_float_prim_rv (p : Z) (m : mode) (s e n : Z) (sg : sign) : Z * Z :=
  let '(sn, en) := prim_repr B n in add_ref_val B digits_ub p (prim_prec B n) m s e sn en sg.
Definition add_prim_float_vv (p : Z) (m : mode) (n s e : Z) (sg : sign) : Z * Z :=
  let '(sn, en) := prim_repr B n in add_val_val B digits_ub (prim_prec B n) p m sn en s e sg.
Definition add_prim_float_vr (p : Z) (m : mode) (n s e : Z) (sg : sign) : Z * Z :=
  let '(sn, en) := prim_repr B n in add_val_ref B digits_ub (prim_prec B n) p m sn en s e sg.

(* ------------------------------------------------------------------ with every Repr::new *)
(** a stored Repr: zero is (0, 0), otherwise the significand is not divisible by the base *)
Definition is_normal (s e : Z) : bool := if s =? 0 then e =? 0 else negb (s mod B =? 0).

Definition norm_approx (a : approx) : approx :=
  match a with
  | AExact s e => let '(s', e') := normalize B s e in AExact s' e'
  | AInexact s e r => let '(s', e') := normalize B s e in AInexact s' e' r
  end.

(** Context::repr_round / repr_round_ref: Exact(repr) hands the operand back as it is, the Inexact arm
    builds its value with Repr::new *)
Definition repr_round_n (p : Z) (m : mode) (s e : Z) : approx :=
  match repr_round B p m s e with
  | AExact s' e' => AExact s' e'
  | AInexact s' e' r => let '(s'', e'') := normalize B s' e' in AInexact s'' e'' r
  end.

(** Context::add / sub: repr_round_sum ends in Repr::new in both arms; the equal-exponent path and the
    zero shortcuts are repr_round of a Repr::new / of the operand *)
Definition add_dispatch_n (p : Z) (m : mode) (s1 e1 s2 e2 : Z) (sg : sign) : approx :=
  match e1 ?= e2 with
  | Eq => let '(s, e) := normalize B (s1 + sgnz sg * s2) e1 in repr_round_n p m s e
  | Gt => norm_approx (repr_add_large_small B digits_ub p m s1 e1 s2 e2 sg)
  | Lt => norm_approx (repr_add_small_large B digits_ub p m s1 e1 s2 e2 sg)
  end.
Definition ctx_add_n (p : Z) (m : mode) (s1 e1 s2 e2 : Z) : approx :=
  if s1 =? 0 then repr_round_n p m s2 e2
  else if s2 =? 0 then repr_round_n p m s1 e1
  else add_dispatch_n p m s1 e1 s2 e2 Positive.
Definition ctx_sub_n (p : Z) (m : mode) (s1 e1 s2 e2 : Z) : approx :=
  if s1 =? 0 then repr_round_n p m (- s2) e2
  else if s2 =? 0 then repr_round_n p m s1 e1
  else add_dispatch_n p m s1 e1 s2 e2 Negative.

(** Context::mul / sqr / cubic: the pre-shrunk operand is [.value()] of repr_round_ref, the product goes
    through Repr::new, then repr_round *)
Definition shrink_n (p k : Z) (m : mode) (s e : Z) : Z * Z :=
  if p =? 0 then (s, e)
  else if dlen B s >? k * p then approx_val (repr_round_n (k * p) m s e) else (s, e).
Definition ctx_mul_n (p : Z) (m : mode) (s1 e1 s2 e2 : Z) : approx :=
  let '(a, ea) := shrink_n p 2 m s1 e1 in
  let '(b, eb) := shrink_n p 2 m s2 e2 in
  let '(s, e) := normalize B (a * b) (ea + eb) in repr_round_n p m s e.
Definition ctx_sqr_n (p : Z) (m : mode) (s e : Z) : approx :=
  let '(a, ea) := shrink_n p 2 m s e in
  let '(s', e') := normalize B (a * a) (2 * ea) in repr_round_n p m s' e'.
Definition ctx_cubic_n (p : Z) (m : mode) (s e : Z) : approx :=
  let '(a, ea) := shrink_n p 3 m s e in
  let '(s', e') := normalize B (a * a * a) (3 * ea) in repr_round_n p m s' e'.

(** Context::repr_div / div / inv: every exit builds its value with Repr::new *)
Definition map_approx (f : approx -> approx) (r : result approx) : result approx :=
  match r with Ok a => Ok (f a) | Panic c => Panic c | Err c => Err c | OutOfFuel => OutOfFuel end.
Definition repr_div_n (p : Z) (m : mode) (s1 e1 s2 e2 : Z) : result approx :=
  map_approx norm_approx (repr_div B p m s1 e1 s2 e2).
Variable digits_lb : Z -> Z.
Definition ctx_div_n (p : Z) (m : mode) (s1 e1 s2 e2 : Z) : result approx :=
  let '(s1', e1') :=
    if negb (s1 =? 0) && (digits_ub s1 >? digits_lb s2 + p)
    then approx_val (repr_round_n (dlen B s2 + p) m s1 e1)
    else (s1, e1) in
  repr_div_n p m s1' e1' s2 e2.
Definition ctx_inv_n (p : Z) (m : mode) (s e : Z) : result approx := repr_div_n p m 1 0 s e.

(** Context::sqrt: Repr::new of the root, then repr_round (the model in AddModel.v already contains the
    first; the Inexact arm of the trailing repr_round is never taken for operands that fit) *)
Definition ctx_sqrt_n (p : Z) (m : mode) (s e : Z) : result approx :=
  map_approx (fun a => match a with
                       | AExact s' e' => AExact s' e'
                       | AInexact s' e' r => let '(s'', e'') := normalize B s' e' in AInexact s'' e'' r
                       end) (ctx_sqrt B p m s e).

(** Context::rem: Exact(Repr::zero()) or repr_round of a Repr::new *)
Definition repr_rem_n (p : Z) (m : mode) (s1 e1 s2 e2 : Z) : result approx :=
  if s2 =? 0 then Panic DivideBy0
  else
    let sig := repr_rem_sig s1 e1 s2 e2 in
    if sig =? 0 then Ok (AExact 0 0)
    else let '(s, e) := normalize B sig (Z.min e1 e2) in Ok (repr_round_n p m s e).

End LongModel.

(** executable instances for the oracle (exact digit count as the estimate; worst admissible estimates) *)
Definition ctx_sub_fixed_x (B : Z) := ctx_sub_fixed B (dlen B).
Definition ctx_sub_fixed_x1 (B : Z) := ctx_sub_fixed B (fun s => dlen B s + 1).
Definition ctx_add_n_x (B : Z) := ctx_add_n B (dlen B).
Definition ctx_sub_n_x (B : Z) := ctx_sub_n B (dlen B).
Definition ctx_div_n_x (B : Z) := ctx_div_n B (dlen B) (dlen B).
Definition add_float_prim_vv_x (B : Z) := add_float_prim_vv B (dlen B).
Definition add_float_prim_rv_x (B : Z) := add_float_prim_rv B (dlen B).
Definition add_prim_float_vv_x (B : Z) := add_prim_float_vv B (dlen B).
Definition add_prim_float_vr_x (B : Z) := add_prim_float_vr B (dlen B).
