(** The specification [spec_round] meets the documented rounding contract: error below one unit
    (at most half a unit for the nearest modes), the prescribed side for the directed modes, exact
    when the quotient is an integer, and the documented tie rules. *)
From Dashu Require Import Base.Prelude Float.RoundSpec Float.RoundTablesProof.
From DashuGen Require Import RoundTables.
Open Scope Z_scope.

Lemma div_bounds N d : 0 < d -> (N / d) * d <= N < (N / d) * d + d.
Proof. intros Hd. pose proof (Z.div_mod N d ltac:(lia)). pose proof (Z.mod_pos_bound N d Hd). nia. Qed.

Theorem spec_round_exact m N d : 0 < d -> N mod d = 0 -> spec_round m N d * d = N.
Proof.
  intros Hd Hm. pose proof (Z.div_mod N d ltac:(lia)) as E. rewrite Hm, Z.add_0_r in E.
  assert (HN : N = (N / d) * d) by lia. set (q := N / d) in *.
  assert (Hq : forall k, (k * d) / d = k) by (intros; apply Z.div_mul; lia).
  destruct m; cbn [spec_round].
  - rewrite HN. rewrite Z.quot_mul by lia. reflexivity.
  - rewrite Hm. cbn [Z.eqb]. fold q. lia.
  - rewrite HN at 1. replace (- (q * d)) with ((- q) * d) by ring. rewrite Hq. lia.
  - fold q. lia.
  - rewrite Hm. fold q. destruct (Z.compare_spec (2 * 0) d); try lia.
  - rewrite HN at 1 2.
    destruct (Z.lt_trichotomy q 0) as [H|[H|H]].
    + rewrite Z.sgn_neg by nia. rewrite Z.abs_neq by nia.
      replace ((2 * - (q * d) + d) / (2 * d)) with (- q); [lia|].
      apply Z.div_unique with d; lia.
    + rewrite H in *. rewrite Z.mul_0_l. cbn. lia.
    + rewrite Z.sgn_pos by nia. rewrite Z.abs_eq by nia.
      replace ((2 * (q * d) + d) / (2 * d)) with q; [lia|].
      apply Z.div_unique with d; lia.
Qed.

Theorem spec_round_error m N d : 0 < d ->
  let r := spec_round m N d in
  Z.abs (r * d - N) < d /\ (is_half_mode m = true -> 2 * Z.abs (r * d - N) <= d).
Proof.
  intros Hd r. subst r.
  pose proof (div_bounds N d Hd) as Hb. pose proof (div_bounds (- N) d Hd) as Hb'.
  pose proof (Z.div_mod N d ltac:(lia)) as E. pose proof (Z.mod_pos_bound N d Hd) as Hm.
  destruct m; cbn [spec_round is_half_mode].
  - split; [|discriminate]. rewrite quot_by_div by assumption. destruct (Z.ltb_spec N 0); lia.
  - split; [|discriminate]. destruct (Z.eqb_spec (N mod d) 0); [lia|].
    rewrite quot_by_div by assumption. destruct (Z.ltb_spec N 0).
    + rewrite Z.sgn_neg by lia.
      assert ((- N) mod d <> 0) by (rewrite Z.mod_opp_l_nz by lia; lia).
      pose proof (Z.div_mod (- N) d ltac:(lia)). pose proof (Z.mod_pos_bound (- N) d Hd). nia.
    + assert (N <> 0) by (intros ->; rewrite Z.mod_0_l in *; lia). rewrite Z.sgn_pos by lia. nia.
  - split; [|discriminate]. lia.
  - split; [|discriminate]. lia.
  - destruct (Z.compare_spec (2 * (N mod d)) d) as [C|C|C].
    + destruct (Z.even (N / d)); split; intros; nia.
    + split; intros; nia.
    + split; intros; nia.
  - set (a := Z.abs N). set (k := (2 * a + d) / (2 * d)).
    pose proof (div_bounds (2 * a + d) (2 * d) ltac:(lia)) as Hk. fold k in Hk. clearbody k.
    assert (Ha : 0 <= a) by apply Z.abs_nonneg.
    destruct (Z.lt_trichotomy N 0) as [H|[H|H]].
    + rewrite Z.sgn_neg by lia. assert (a = - N) by (unfold a; lia). clearbody a. subst a.
      replace (-1 * k * d - N) with (- N - k * d) by ring. split; intros; lia.
    + subst N. cbn [Z.sgn]. split; intros; lia.
    + rewrite Z.sgn_pos by lia. assert (a = N) by (unfold a; lia). clearbody a. subst a.
      replace (1 * k * d - N) with (k * d - N) by ring. split; intros; lia.
Qed.

Theorem spec_round_side m N d : 0 < d -> side_ok m N d (spec_round m N d).
Proof.
  intros Hd. pose proof (div_bounds N d Hd) as Hb. pose proof (div_bounds (- N) d Hd) as Hb'.
  assert (Hq : 0 <= N -> 0 <= N / d) by (intros; apply Z.div_pos; lia).
  assert (Hq' : N <= 0 -> 0 <= (- N) / d) by (intros; apply Z.div_pos; lia).
  destruct m; cbn [side_ok spec_round]; auto.
  - rewrite quot_by_div by assumption. destruct (Z.ltb_spec N 0).
    + specialize (Hq' ltac:(lia)). set (t := (- N) / d) in *. clearbody t.
      rewrite (Z.abs_neq N) by lia. rewrite Z.abs_neq by nia. lia.
    + specialize (Hq ltac:(lia)). set (t := N / d) in *. clearbody t.
      rewrite (Z.abs_eq N) by lia. rewrite Z.abs_eq by nia. lia.
  - destruct (Z.eqb_spec (N mod d) 0) as [E|E].
    + pose proof (Z.div_mod N d ltac:(lia)). replace (N / d * d) with N by lia. lia.
    + rewrite quot_by_div by assumption. destruct (Z.ltb_spec N 0).
      * rewrite Z.sgn_neg by lia. specialize (Hq' ltac:(lia)). set (t := (- N) / d) in *. clearbody t.
        rewrite (Z.abs_neq N) by lia. rewrite Z.abs_neq by nia. lia.
      * assert (N <> 0) by (intros ->; rewrite Z.mod_0_l in E; lia). rewrite Z.sgn_pos by lia.
        specialize (Hq ltac:(lia)). set (t := N / d) in *. clearbody t.
        rewrite (Z.abs_eq N) by lia. rewrite Z.abs_eq by nia. lia.
  - lia.
  - lia.
Qed.

(** tie rules *)
Theorem spec_round_tie_even N d : 0 < d -> 2 * (N mod d) = d -> Z.even (spec_round MHalfEven N d) = true.
Proof.
  intros Hd Ht. cbn [spec_round]. rewrite Ht, Z.compare_refl.
  destruct (Z.even (N / d)) eqn:E; [exact E|].
  rewrite Z.even_add, E. reflexivity.
Qed.

Theorem spec_round_tie_away N d : 0 < d -> 2 * (N mod d) = d ->
  Z.abs N < Z.abs (spec_round MHalfAway N d * d).
Proof.
  intros Hd Ht. cbn [spec_round].
  pose proof (Z.div_mod N d ltac:(lia)) as E.
  set (a := Z.abs N). set (k := (2 * a + d) / (2 * d)).
  pose proof (div_bounds (2 * a + d) (2 * d) ltac:(lia)) as Hk. fold k in Hk.
  (* 2N = (2q+1) d, so 2a is an odd multiple of d, hence 2a + d is a multiple of 2d *)
  assert (Hodd : exists j, 2 * a = (2 * j + 1) * d /\ 0 <= j).
  { destruct (Z.lt_trichotomy N 0) as [H|[H|H]].
    - exists (- (N / d) - 1). unfold a. rewrite Z.abs_neq by lia. split; nia.
    - subst N. rewrite Z.mod_0_l in Ht by lia. lia.
    - exists (N / d). unfold a. rewrite Z.abs_eq by lia.
      assert (0 <= N / d) by (apply Z.div_pos; lia). split; nia. }
  destruct Hodd as (j & Hj & Hj0).
  assert (Hkj : k = j + 1).
  { unfold k. symmetry. apply Z.div_unique with 0; lia. }
  clearbody k. subst k.
  destruct (Z.lt_trichotomy N 0) as [H|[H|H]].
  - rewrite Z.sgn_neg by lia. assert (Ea : a = - N) by (unfold a; lia). clearbody a. subst a.
    rewrite Z.abs_neq by nia. nia.
  - subst N. rewrite Z.mod_0_l in Ht by lia. lia.
  - rewrite Z.sgn_pos by lia. assert (Ea : a = N) by (unfold a; lia). clearbody a. subst a.
    rewrite Z.abs_eq by nia. nia.
Qed.

(** the flag computed from the result tells the truth about the sign of the error *)
Theorem spec_flag_truth N d r :
  (spec_flag N d r = NoOp <-> r * d = N) /\ (spec_flag N d r = AddOne <-> r * d > N) /\ (spec_flag N d r = SubOne <-> r * d < N).
Proof.
  unfold spec_flag. destruct (Z.compare_spec (r * d) N); repeat split; intros; try lia; try discriminate; reflexivity.
Qed.

(** uniqueness: the directed roundings are THE integers with the stated property *)
Theorem floor_unique N d r : 0 < d -> r * d <= N < r * d + d -> r = spec_round MDown N d.
Proof. intros Hd H. cbn [spec_round]. pose proof (div_bounds N d Hd). nia. Qed.
Theorem ceil_unique N d r : 0 < d -> N <= r * d < N + d -> r = spec_round MUp N d.
Proof. intros Hd H. cbn [spec_round]. pose proof (div_bounds (- N) d Hd). nia. Qed.

Example spec_round_examples :
  spec_round MHalfEven 5 2 = 2 /\ spec_round MHalfEven 7 2 = 4 /\ spec_round MHalfAway 5 2 = 3 /\
  spec_round MHalfAway (-5) 2 = -3 /\ spec_round MZero (-7) 2 = -3 /\ spec_round MAway (-7) 2 = -4 /\
  spec_round MUp (-7) 2 = -3 /\ spec_round MDown (-7) 2 = -4.
Proof. repeat split. Qed.
