(** C11 round 4: error of the Maclaurin loop of exp_internal (scaled branch, reduced argument
    rho = r / B^n >= 0), as statements about real numbers.

    The loop of exp.rs is
        pow_1 = rho,  sum_1 = fl(1 + rho);
        pow_(k+1) = fl(pow_k * rho),  inc_(k+1) = fl(pow_(k+1) / (k+1)!),
        stop and return sum_k if |inc_(k+1)| <= sub_ulp(sum_k), else sum_(k+1) = fl(sum_k + inc_(k+1))
    where every fl is one rounding with relative error at most u (u = B^(1-wp)/2 in the nearest modes:
    ElemSeriesInst.v proves this of the Z-level operations fb_mul / fb_div / fb_add of the as-is model).
    [ExpTrace rho k pow sum] describes the states such a loop can reach.

    exp_trace_RA :  pow_k = rho^k * theta, (1-u)^(k-1) <= theta <= (1+u)^(k-1);
                    sum_k = T_k(rho) * theta', (1-u)^(k+1) <= theta' <= (1+u)^(k+1)
                    (T_k = sum_(i<=k) rho^i / i!; all terms are >= 0: no cancellation).
    exp_tail     :  T_k(rho) <= exp rho <= T_k(rho) + 2 rho^(k+1)/(k+1)!   for 0 <= rho <= 1/2.
    exp_series_error : the value returned by the loop against exp rho:
                    |sum_K - exp rho| (1 - (K+1) u) <= exp rho * (K+1) u + 2 * thr
                    when the neglected increase is at most thr (the stop criterion). *)
From Coq Require Import ZArith Reals Lra Lia Psatz.
From Dashu Require Import Float.ElemPowiProof.
Open Scope R_scope.

(* ---------------------------------------------------------------- the exponential series *)
Definition eterm (x : R) (i : nat) : R := / INR (fact i) * x ^ i.
Definition Tn (x : R) (k : nat) : R := sum_f_R0 (eterm x) k.

Lemma exp_in_exp x : exp_in x (exp x).
Proof. unfold exp. destruct (exist_exp x) as [l Hl]. exact Hl. Qed.

Lemma eterm_nonneg x i : 0 <= x -> 0 <= eterm x i.
Proof.
  intros Hx. unfold eterm. apply Rmult_le_pos; [|apply pow_le; exact Hx].
  left. apply Rinv_0_lt_compat, lt_0_INR, lt_O_fact.
Qed.

Lemma eterm_half x i : 0 <= x <= / 2 -> eterm x (S i) <= / 2 * eterm x i.
Proof.
  intros [H0 H1]. unfold eterm. rewrite fact_simpl, mult_INR.
  assert (Hf : 0 < INR (fact i)) by (apply lt_0_INR, lt_O_fact).
  assert (Hs : 1 <= INR (S i)) by (rewrite S_INR; pose proof (pos_INR i); lra).
  rewrite Rinv_mult. cbn [pow].
  assert (Hp : 0 <= x ^ i) by (apply pow_le; exact H0).
  assert (Hi : 0 < / INR (fact i)) by (apply Rinv_0_lt_compat; exact Hf).
  assert (Hsi : / INR (S i) <= 1).
  { rewrite <- Rinv_1. apply Rinv_le_contravar; lra. }
  assert (Hsp : 0 < / INR (S i)) by (apply Rinv_0_lt_compat; lra).
  assert (Hx : / INR (S i) * x <= / 2) by nra.
  replace (/ INR (S i) * / INR (fact i) * (x * x ^ i)) with ((/ INR (S i) * x) * (/ INR (fact i) * x ^ i)) by ring.
  apply Rmult_le_compat_r; [|exact Hx]. apply Rmult_le_pos; lra.
Qed.

Lemma eterm_geo x K m : 0 <= x <= / 2 -> eterm x (S K + m) <= (/ 2) ^ m * eterm x (S K).
Proof.
  intros Hx. induction m as [|m IH].
  - rewrite Nat.add_0_r. cbn [pow]. lra.
  - replace (S K + S m)%nat with (S (S K + m)) by lia.
    eapply Rle_trans; [apply eterm_half; exact Hx|]. cbn [pow].
    assert (0 <= eterm x (S K)) by (apply eterm_nonneg; lra). nra.
Qed.

Lemma Tn_S x k : Tn x (S k) = Tn x k + eterm x (S k).
Proof. reflexivity. Qed.

Lemma Tn_mono x K m : 0 <= x -> Tn x K <= Tn x (K + m).
Proof.
  intros Hx. induction m as [|m IH]; [rewrite Nat.add_0_r; lra|].
  replace (K + S m)%nat with (S (K + m)) by lia. rewrite Tn_S.
  pose proof (eterm_nonneg x (S (K + m)) Hx). lra.
Qed.

Lemma Tn_partial_tail x K m : 0 <= x <= / 2 ->
  Tn x (K + m) <= Tn x K + eterm x (S K) * (2 - 2 * (/ 2) ^ m).
Proof.
  intros Hx. induction m as [|m IH].
  - rewrite Nat.add_0_r. cbn [pow]. lra.
  - replace (K + S m)%nat with (S (K + m)) by lia. rewrite Tn_S.
    replace (S (K + m)) with (S K + m)%nat by lia.
    pose proof (eterm_geo x K m Hx) as G. cbn [pow].
    assert (0 <= eterm x (S K)) by (apply eterm_nonneg; lra). nra.
Qed.

Lemma half_pow_pos m : 0 < (/ 2) ^ m.
Proof. apply pow_lt. lra. Qed.

(** partial sums from below, first neglected term times two from above *)
Theorem exp_tail x K : 0 <= x <= / 2 -> Tn x K <= exp x <= Tn x K + 2 * eterm x (S K).
Proof.
  intros Hx. pose proof (exp_in_exp x) as HE. unfold exp_in, infinite_sum in HE. split.
  - destruct (Rle_lt_dec (Tn x K) (exp x)) as [L|G]; [exact L|]. exfalso.
    destruct (HE (Tn x K - exp x) ltac:(lra)) as (N & HN).
    specialize (HN (K + N)%nat ltac:(lia)). unfold R_dist in HN. fold (eterm x) in HN. fold (Tn x (K + N)) in HN.
    pose proof (Tn_mono x K N (proj1 Hx)). apply Rabs_def2 in HN. lra.
  - destruct (Rle_lt_dec (exp x) (Tn x K + 2 * eterm x (S K))) as [L|G]; [exact L|]. exfalso.
    destruct (HE (exp x - (Tn x K + 2 * eterm x (S K))) ltac:(lra)) as (N & HN).
    specialize (HN (K + N)%nat ltac:(lia)). unfold R_dist in HN. fold (eterm x) in HN. fold (Tn x (K + N)) in HN.
    pose proof (Tn_partial_tail x K N Hx). pose proof (half_pow_pos N).
    assert (0 <= eterm x (S K)) by (apply eterm_nonneg; lra).
    apply Rabs_def2 in HN. nra.
Qed.

(* ---------------------------------------------------------------- the rounded loop *)
Section Trace.
Variable u : R.
Hypothesis u0 : 0 <= u.
Hypothesis u1 : u <= 1.

Lemma RA_add c t1 t2 v1 v2 : 0 <= t1 -> 0 <= t2 ->
  RA u c t1 v1 -> RA u c t2 v2 -> RA u c (t1 + t2) (v1 + v2).
Proof.
  intros H1 H2 (a & -> & La & Ua) (b & -> & Lb & Ub).
  destruct (Req_dec (t1 + t2) 0) as [Z0|NZ].
  - assert (t1 = 0) by lra. assert (t2 = 0) by lra. subst. exists 1. split; [ring|].
    split; [apply pow_1mu_le1; assumption | apply pow_1pu_ge1; assumption].
  - assert (Hp : 0 < t1 + t2) by lra.
    exists ((t1 * a + t2 * b) / (t1 + t2)). split; [field; exact NZ|]. split.
    + apply (Rmult_le_reg_r (t1 + t2)); [exact Hp|]. unfold Rdiv. rewrite Rmult_assoc, Rinv_l by exact NZ. nra.
    + apply (Rmult_le_reg_r (t1 + t2)); [exact Hp|]. unfold Rdiv. rewrite Rmult_assoc, Rinv_l by exact NZ. nra.
Qed.

(** the states of the loop: k, pow_k, sum_k *)
Inductive ExpTrace (rho : R) : nat -> R -> R -> Prop :=
| ET_init th : Rabs (th - 1) <= u -> ExpTrace rho 1 rho ((1 + rho) * th)
| ET_step k pw sm th1 th2 th3 : ExpTrace rho k pw sm ->
    Rabs (th1 - 1) <= u -> Rabs (th2 - 1) <= u -> Rabs (th3 - 1) <= u ->
    ExpTrace rho (S k) (pw * rho * th1) ((sm + pw * rho * th1 / INR (fact (S k)) * th2) * th3).

(** the increase the loop computes next from a state (compared with the threshold) *)
Definition next_increase (rho pw : R) (k : nat) (th1 th2 : R) : R := pw * rho * th1 / INR (fact (S k)) * th2.

Lemma next_increase_RA rho k pw th1 th2 : 0 <= rho -> RA u (k - 1) (rho ^ k) pw ->
  Rabs (th1 - 1) <= u -> Rabs (th2 - 1) <= u -> (1 <= k)%nat ->
  RA u (S k) (eterm rho (S k)) (next_increase rho pw k th1 th2).
Proof.
  intros Hr Hp H1 H2 Hk. unfold next_increase, eterm.
  replace (/ INR (fact (S k)) * rho ^ S k) with (rho ^ k * rho * / INR (fact (S k))) by (cbn [pow]; ring).
  unfold Rdiv. apply (RA_step u u0 u1); [|exact H2].
  apply (RA_mono u u0 u1 (S (k - 1 + 0) + 0)); [lia|].
  apply (RA_mul u u0 u1 (S (k - 1 + 0)) 0); [|apply RA_refl].
  apply (RA_step u u0 u1 (k - 1 + 0)); [|exact H1].
  apply (RA_mul u u0 u1 (k - 1) 0); [exact Hp | apply RA_refl].
Qed.

Theorem exp_trace_RA rho k pw sm : 0 <= rho -> ExpTrace rho k pw sm ->
  (1 <= k)%nat /\ RA u (k - 1) (rho ^ k) pw /\ RA u (S k) (Tn rho k) sm.
Proof.
  intros Hr T. induction T as [th Hth | k pw sm th1 th2 th3 T IH H1 H2 H3].
  - split; [lia|]. split.
    + cbn [Nat.sub pow]. rewrite Rmult_1_r. apply RA_refl.
    + apply (RA_mono u u0 u1 1); [lia|].
      replace (Tn rho 1) with (1 + rho) by (unfold Tn, eterm; cbn; field).
      apply (RA_step u u0 u1 0); [apply RA_refl | exact Hth].
  - destruct IH as (Hk & Hp & Hs). split; [lia|]. split.
    + apply (RA_mono u u0 u1 (S (k - 1 + 0))); [lia|]. cbn [pow].
      replace (rho * rho ^ k) with (rho ^ k * rho) by ring.
      apply (RA_step u u0 u1 (k - 1 + 0)); [|exact H1]. apply (RA_mul u u0 u1 (k - 1) 0); [exact Hp | apply RA_refl].
    + rewrite Tn_S. apply (RA_step u u0 u1); [|exact H3].
      apply RA_add.
      * unfold Tn. apply cond_pos_sum. intros i. apply eterm_nonneg. exact Hr.
      * apply eterm_nonneg. exact Hr.
      * exact Hs.
      * apply (next_increase_RA rho k pw th1 th2 Hr Hp H1 H2 Hk).
Qed.

(** the value the loop returns when it stops at step K because the next increase is at most thr *)
Theorem exp_series_error rho K pw sm th1 th2 thr : 0 <= rho <= / 2 -> ExpTrace rho K pw sm ->
  Rabs (th1 - 1) <= u -> Rabs (th2 - 1) <= u ->
  Rabs (next_increase rho pw K th1 th2) <= thr ->
  INR (S K) * u < 1 ->
  Rabs (sm - exp rho) * (1 - INR (S K) * u) <= exp rho * (INR (S K) * u) + 2 * thr.
Proof.
  intros Hr T H1 H2 Hthr Hcu.
  destruct (exp_trace_RA rho K pw sm (proj1 Hr) T) as (Hk & Hp & Hs).
  pose proof (next_increase_RA rho K pw th1 th2 (proj1 Hr) Hp H1 H2 Hk) as Hi.
  pose proof (exp_tail rho K Hr) as [TL TU].
  set (c := S K) in *. set (y := INR c * u) in *.
  assert (Hy0 : 0 <= y) by (unfold y; pose proof (pos_INR c); nra).
  assert (HT0 : 0 <= Tn rho K) by (unfold Tn; apply cond_pos_sum; intros i; apply eterm_nonneg; lra).
  (* |sm - T_K| (1 - y) <= T_K y *)
  pose proof (RA_dist u u0 u1 c (Tn rho K) sm Hcu Hs) as Hd. fold y in Hd. rewrite (Rabs_pos_eq (Tn rho K)) in Hd by exact HT0.
  (* first neglected term: eterm (1 - y) <= |increase| <= thr *)
  assert (Ha0 : 0 <= eterm rho c) by (apply eterm_nonneg; lra).
  assert (Ha : eterm rho c * (1 - y) <= thr).
  { destruct Hi as (th & E & L & _). rewrite E in Hthr.
    pose proof (bernoulli_minus u u1 c) as Bm. fold y in Bm.
    assert (0 <= th) by lra. rewrite Rabs_mult, (Rabs_pos_eq (eterm rho c)), (Rabs_pos_eq th) in Hthr by assumption.
    nra. }
  (* triangle *)
  assert (Htri : Rabs (sm - exp rho) <= Rabs (sm - Tn rho K) + (exp rho - Tn rho K)).
  { replace (sm - exp rho) with ((sm - Tn rho K) + - (exp rho - Tn rho K)) by ring.
    eapply Rle_trans; [apply Rabs_triang|]. rewrite Rabs_Ropp, (Rabs_pos_eq (exp rho - Tn rho K)) by lra. lra. }
  pose proof (Rabs_pos (sm - Tn rho K)).
  assert (Rabs (sm - exp rho) * (1 - y) <= (Rabs (sm - Tn rho K) + (exp rho - Tn rho K)) * (1 - y))
    by (apply Rmult_le_compat_r; lra).
  nra.
Qed.

End Trace.

(** the inductive predicate, spelled out *)
Lemma ExpTrace_means : forall u rho k pw sm,
  ExpTrace u rho k pw sm <->
  ((exists th, (Rabs (th - 1) <= u)%R /\ k = 1%nat /\ pw = rho /\ sm = ((1 + rho) * th)%R) \/
   (exists k0 pw0 sm0 th1 th2 th3, ExpTrace u rho k0 pw0 sm0 /\
      (Rabs (th1 - 1) <= u)%R /\ (Rabs (th2 - 1) <= u)%R /\ (Rabs (th3 - 1) <= u)%R /\
      k = S k0 /\ pw = (pw0 * rho * th1)%R /\
      sm = ((sm0 + pw0 * rho * th1 / INR (fact (S k0)) * th2) * th3)%R)).
Proof.
  intros. split.
  - intros T. destruct T as [th H | k0 pw0 sm0 th1 th2 th3 T H1 H2 H3].
    + left. exists th. auto.
    + right. exists k0, pw0, sm0, th1, th2, th3. auto 10.
  - intros [(th & H & -> & -> & ->) | (k0 & pw0 & sm0 & th1 & th2 & th3 & T & H1 & H2 & H3 & -> & -> & ->)].
    + apply ET_init. exact H.
    + apply ET_step; assumption.
Qed.

Example exp_series_error_example :
  ExpTrace (/ 8) (/ 4) 1 (/ 4) ((1 + / 4) * 1) /\
  (Rabs (next_increase (/ 4) (/ 4) 1 1 1) <= 1)%R /\ (INR 2 * / 8 < 1)%R.
Proof.
  split; [apply ET_init; replace (1 - 1)%R with 0%R by ring; rewrite Rabs_R0; lra|].
  unfold next_increase. cbn [fact INR Nat.mul Nat.add]. split; [|lra].
  apply Rabs_le. lra.
Qed.
