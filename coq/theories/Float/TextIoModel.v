(** C08 as-is models: float/src/parse.rs (Repr::from_str_native), float/src/fmt.rs (fmt_round,
    fmt_round_scientific), float/src/convert.rs (with_precision, convert_base routes, import of IEEE
    floats).  Definitions only (proofs: TextIoProof.v, BaseConvProof.v).  Text = list of bytes.
    UBig::from_str_radix and IBig::in_radix are taken at their C07 specifications (Int/IoSpec.v);
    IBig arithmetic is Z. *)
From Dashu Require Import Base.Prelude Float.RoundSpec Float.Contract Float.Model Int.IoSpec Float.TextIoSpec.
From DashuGen Require Import RoundTables.
Open Scope Z_scope.

(* ------------------------------------------------------------------------------------------ *)
(** * string primitives *)

Definition starts_with (p s : list Z) : bool :=
  match strip_prefix p s with Some _ => true | None => false end.

(** [src.rfind(set)] together with the three slices the parser takes: src[..pos], src[pos], src[pos+1..] *)
Fixpoint rsplit (f : Z -> bool) (s : list Z) : option (list Z * Z * list Z) :=
  match s with
  | [] => None
  | c :: t => match rsplit f t with
              | Some (a, m, b) => Some (c :: a, m, b)
              | None => if f c then Some ([], c, t) else None
              end
  end.

(** [src.find(c)] with src[..pos] and src[pos+1..] *)
Fixpoint lsplit (f : Z -> bool) (s : list Z) : option (list Z * list Z) :=
  match s with
  | [] => None
  | c :: t => if f c then Some ([], t)
              else match lsplit f t with Some (a, b) => Some (c :: a, b) | None => None end
  end.

Definition count_us (s : list Z) : Z := len (filter (fun c => c =? 95) s).

(** str::parse::<isize>(): optional sign, decimal digits only; Empty -> NoDigits, the rest
    (InvalidDigit, PosOverflow, NegOverflow) -> InvalidDigit *)
Definition isize_from_str (s : list Z) : result Z :=
  match s with
  | [] => Err E_NoDigits
  | _ =>
    let '(sg, b) := match s with 45 :: t => (-1, t) | 43 :: t => (1, t) | _ => (1, s) end in
    match dec_digits b with
    | Some (d :: ds) => let v := sg * digits_value 10 (d :: ds) in if in_isize v then Ok v else Err E_InvalidDigit
    | _ => Err E_InvalidDigit
    end
  end.

(** the characters [rfind] looks for *)
Definition marker_set (B : Z) (has_prefix : bool) (c : Z) : bool := is_marker B has_prefix c.

(** parse.rs parse_unsigned (added by the repair of finding F02): no sign of its own *)
Definition parse_unsigned (r : Z) (s : list Z) : result Z :=
  match s with
  | c :: _ => if c =? 43 then Err E_InvalidDigit else from_str_radix_spec false r s
  | [] => from_str_radix_spec false r s
  end.

Definition has_hex_prefix (s : list Z) : bool := starts_with [48; 120] s || starts_with [48; 88] s.

(* ------------------------------------------------------------------------------------------ *)
(** * Repr::from_str_native: Ok (significand, exponent, ndigits) *)

Definition parse_body_asis (B : Z) (src : list Z) (scale : Z) (pmarker has_prefix : bool) : result (Z * Z * Z) :=
  match lsplit (fun c => c =? 46) src with
  | Some (int_str, frac_str) =>
    if len src =? 1 then Err E_NoDigits else
    rbind (if negb (len int_str =? 0) then
             if (B =? 2) && has_prefix then
               let t := skipn 2 int_str in
               let digits := 4 * (len t - count_us t) in
               if len t =? 0 then Ok (0, digits, 16)
               else rbind (parse_unsigned 16 t) (fun v => Ok (v, digits, 16))
             else if (B =? 2) && pmarker && negb has_prefix then Err E_UnsupportedRadix
             else rbind (parse_unsigned B int_str) (fun v => Ok (v, len int_str - count_us int_str, B))
           else if pmarker then Err E_UnsupportedRadix else Ok (0, 0, B))
      (fun '(int, int_digits, base) =>
       rbind (if negb (len frac_str =? 0) then
                let d := len frac_str - count_us frac_str in
                let d := if (B =? 2) && (base =? 16) then 4 * d else d in
                rbind (parse_unsigned base frac_str) (fun v => Ok (v, d))
              else Ok (0, 0))
         (fun '(fract, fract_digits) =>
          let nd := int_digits + fract_digits in
          if nd =? 0 then Err E_NoDigits
          else if fract =? 0 then Ok (int, scale, nd)
          else Ok (int * B ^ fract_digits + fract, scale - fract_digits, nd)))
  | None =>
    let has_prefix2 := has_hex_prefix src in
    if (B =? 2) && has_prefix2 then
      let t := skipn 2 src in
      rbind (parse_unsigned 16 t) (fun v => Ok (v, scale, 4 * (len t - count_us t)))
    else if (B =? 2) && pmarker && negb has_prefix2 then Err E_UnsupportedRadix
    else rbind (parse_unsigned B src) (fun v => Ok (v, scale, len src - count_us src))
  end.

Definition parse_asis (B : Z) (s0 : list Z) : result (Z * Z * Z) :=
  let '(sg, src) := strip_float_sign s0 in
  let has_prefix := has_hex_prefix src in
  rbind (match rsplit (marker_set B has_prefix) src with
         | Some (before, mk, after) =>
           rbind (isize_from_str after)
             (fun v => Ok (v, (B =? 2) && ((mk =? 112) || (mk =? 80)), before))
         | None => Ok (0, false, src)
         end)
    (fun '(scale, pmarker, src') =>
     rbind (parse_body_asis B src' scale pmarker has_prefix)
       (fun '(signif, exponent, nd) =>
        (* Repr::new(sign * significand, 0), then the exponent is added in a wider type (repair F04) *)
        let '(s', k) := normalize B (sg * signif) 0 in
        if s' =? 0 then Ok (0, 0, nd)
        else if in_isize (exponent + k) then Ok (s', exponent + k, nd) else Err E_InvalidDigit)).

(** the parser as it was before the repairs F02 / F04 differed in [parse_unsigned] (= UBig::from_str_radix,
    which strips a '+') and in the missing "no digit at all" test *)
Definition parse_unsigned_old (r : Z) (s : list Z) : result Z := from_str_radix_spec false r s.

(* ------------------------------------------------------------------------------------------ *)
(** * Repr::fmt_round (Display): the bytes after the sign, without padding *)

(** write!("{}", signif.in_radix(B)) and the removal of the '-' when the ORIGINAL number is negative:
    a negative number that rounds to zero leaves the empty string *)
Definition signif_str (B : Z) (negative : bool) (signif : Z) : list Z :=
  if negative && (signif =? 0) then [] else dtext false B (Z.abs signif).

Definition fmt_rounded (B : Z) (m : mode) (s e : Z) (prec : option Z) : Z * Z :=
  match prec with
  | Some p =>
    let diff := p + e in
    if diff <? 0 then
      let shift := - diff in
      let '(hi, lo) := split_digits B s shift in
      (hi + adj (round_fract B m hi lo shift), e - diff)
    else (s, e)
  | None => (s, e)
  end.

Definition fmt_round_body_asis (B : Z) (m : mode) (s e : Z) (prec : option Z) : list Z :=
  let '(signif, exp) := fmt_rounded B m s e prec in
  let str := signif_str B (s <? 0) signif in
  if exp <? 0 then
    let ex := - exp in
    let cut := Z.max 0 (len str - ex) in
    let int := firstn (Z.to_nat cut) str in
    let fract := skipn (Z.to_nat cut) str in
    let fd := len fract in
    (if len int =? 0 then [48] else int) ++
    match prec with
    | Some p =>
      if p =? 0 then []
      else 46 :: (if p <=? ex then zeros (p - fd) ++ fract
                  else zeros (ex - fd) ++ fract ++ zeros (p - ex))
    | None => if 0 <? fd then 46 :: zeros (ex - fd) ++ fract else []
    end
  else
    (if len str =? 0 then [48] else str) ++ zeros exp ++
    match prec with Some p => if 0 <? p then 46 :: zeros p else [] | None => [] end.

(** the width computed by fmt_round and the resulting paddings (left, right) *)
Definition fmt_round_pads (B : Z) (m : mode) (f : fmtflags) (s e : Z) (prec : option Z) : Z * Z :=
  match f_width f with
  | None => (0, 0)
  | Some minw =>
    let '(signif, exp) := fmt_rounded B m s e prec in
    let n := len (signif_str B (s <? 0) signif) in
    let leading := - Z.min (exp + n - 1) 0 in
    let trailing := Z.max exp 0 +
      match prec with Some p => let d := p + Z.min exp 0 in if 0 <? d then d else 0 | None => 0 end in
    let digits := if leading =? 0 then Z.max n 1 else n in
    let has_sign := if (s <? 0) || f_plus f then 1 else 0 in
    let has_point :=
      (* repair F08: `exp >= 0` (was `exp > 0`: an integer-valued float with exponent 0 and no precision was
         counted with a radix point it does not print) *)
      if 0 <=? exp then (match prec with Some p => if 0 <? p then 1 else 0 | None => 0 end)
      else (match prec with Some 0 => 0 | _ => 1 end) in
    let width := digits + has_sign + has_point + leading + trailing in
    if minw <=? width then (0, 0)
    else if f_zero f then (minw - width, 0)
    else match f_align f with
         | Some ALeft => (0, minw - width)
         | Some ARight | None => (minw - width, 0)
         | Some ACenter => let d := minw - width in (d / 2, d - d / 2)
         end
  end.

Definition fmt_round_asis (B : Z) (m : mode) (f : fmtflags) (s e : Z) (prec : option Z) : list Z :=
  let '(l, r) := fmt_round_pads B m f s e prec in
  (if f_zero f then [] else rep l (f_fill f)) ++
  (if s <? 0 then [45] else if f_plus f then [43] else []) ++
  (if f_zero f then zeros l else []) ++
  fmt_round_body_asis B m s e prec ++ rep r (f_fill f).

(* ------------------------------------------------------------------------------------------ *)
(** * Repr::fmt_round_scientific (LowerExp / UpperExp; the hexadecimal form is not observed) *)

Definition sci_rounded (B : Z) (m : mode) (s e : Z) (prec : option Z) : Z * Z :=
  match prec with
  | Some p0 =>
    let p := p0 + 1 in
    let diff := p - dlen B s in
    if diff <? 0 then
      let shift := - diff in
      let '(hi, lo) := split_digits B s shift in
      let r := hi + adj (round_fract B m hi lo shift) in
      (* repair F03: a carry into a new digit is undone *)
      if p <? dlen B r then (Z.quot r B, e - diff + 1) else (r, e - diff)
    else (s, e)
  | None => (s, e)
  end.

Definition sci_layout (B : Z) (upper : bool) (s : Z) (prec : option Z) (rounded : Z * Z) : list Z :=
  let '(signif, exp) := rounded in
  let str := if (s <? 0) && (signif =? 0) then [] else dtext upper B (Z.abs signif) in
  let exp_adjust := exp + len str - 1 in
  let int := firstn 1 str in
  let fract := skipn 1 str in
  let p := match prec with Some p => p | None => 0 end in
  int ++ (if len fract =? 0 then [] else 46 :: fract) ++
  (if 0 <? p then (if len fract =? 0 then [46] else []) ++ zeros (p - len fract) else []) ++
  [sci_marker B upper] ++ itoa exp_adjust.

Definition sci_body_asis (B : Z) (m : mode) (upper : bool) (s e : Z) (prec : option Z) : list Z :=
  sci_layout B upper s prec (sci_rounded B m s e prec).

(** the width computed by fmt_round_scientific and the resulting paddings (left, right); after the repair F08 the
    zero flag overrides fill and alignment as in fmt_round *)
Definition sci_pads (B : Z) (m : mode) (upper : bool) (f : fmtflags) (s e : Z) (prec : option Z) : Z * Z :=
  match f_width f with
  | None => (0, 0)
  | Some minw =>
    let '(signif, exp) := sci_rounded B m s e prec in
    let str := if (s <? 0) && (signif =? 0) then [] else dtext upper B (Z.abs signif) in
    let n := len str in
    let exp_str := itoa (exp + n - 1) in
    let p := match prec with Some p => p | None => 0 end in
    let has_point := if (1 <? n) || (0 <? p) then 1 else 0 in
    let has_sign := if (s <? 0) || f_plus f then 1 else 0 in
    let trailing := if n - 1 <? p then p - (n - 1) else 0 in
    let width := n + len exp_str + 1 + has_sign + has_point + trailing in
    if minw <=? width then (0, 0)
    else if f_zero f then (minw - width, 0)
    else match f_align f with
         | Some ALeft => (0, minw - width)
         | Some ARight | None => (minw - width, 0)
         | Some ACenter => let d := minw - width in (d / 2, d - d / 2)
         end
  end.

Definition sci_asis (B : Z) (m : mode) (upper : bool) (f : fmtflags) (s e : Z) (prec : option Z) : list Z :=
  let '(l, r) := sci_pads B m upper f s e prec in
  (if f_zero f then [] else rep l (f_fill f)) ++
  (if s <? 0 then [45] else if f_plus f then [43] else []) ++
  (if f_zero f then zeros l else []) ++
  sci_body_asis B m upper s e prec ++ rep r (f_fill f).

(** before the repair F03: the carry was kept, one digit too many was printed *)
Definition sci_rounded_old (B : Z) (m : mode) (s e : Z) (prec : option Z) : Z * Z :=
  match prec with
  | Some p0 =>
    let diff := p0 + 1 - dlen B s in
    if diff <? 0 then
      let '(hi, lo) := split_digits B s (- diff) in (hi + adj (round_fract B m hi lo (- diff)), e - diff)
    else (s, e)
  | None => (s, e)
  end.

(* ------------------------------------------------------------------------------------------ *)
(** * FBig::with_precision (after the repair b605284: an unlimited source is rounded too) *)

Definition approx_norm (B : Z) (a : approx) : Z * Z * flag :=
  match a with
  | AExact s e => (s, e, FExact)
  | AInexact s e r => let '(s', e') := normalize B s e in (s', e', FInexact r)
  end.

Definition with_precision_asis (B p0 p : Z) (m : mode) (s e : Z) : Z * Z * flag :=
  if (p0 =? 0) || (p <? p0) then approx_norm B (repr_round B p m s e) else (s, e, FExact).

(* ------------------------------------------------------------------------------------------ *)
(** * Context::convert_base (repairs F01: every exact route ends in repr_round) *)

Definition threshold_small_exp : Z := 38.   (* (64 as f32 * 0.60206) as isize *)

Inductive conv :=
| CDone (s e : Z) (f : flag)        (* result in base NB, normalised *)
| CPanic (r : reason)
| CLarge.                            (* the ln/exp route: not modelled *)

Definition round_norm (NB p : Z) (m : mode) (s e : Z) : conv :=
  let '(s1, e1) := normalize NB s e in
  let '(s2, e2, f) := approx_norm NB (repr_round NB p m s1 e1) in CDone s2 e2 f.

(** the exact long division added by the repair 034e0cf *)
Definition div_long (NB p : Z) (m : mode) (s1 e1 s2 e2 : Z) : conv :=
  let q := Z.quot s1 s2 in
  let r := Z.rem s1 s2 in
  let shift := dlen NB q - p in
  let exponent := e1 - e2 + shift in
  let '(hi, lo) := split_digits NB q shift in
  let rem := lo * s2 + r in
  if rem =? 0 then (let '(s', e') := normalize NB hi exponent in CDone s' e' FExact)
  else
    let scale := s2 * NB ^ shift in
    let a := round_ratio m hi rem scale in
    let '(s', e') := normalize NB (hi + adj a) exponent in CDone s' e' (FInexact a).

Definition convert_base_asis (B NB p : Z) (m : mode) (s e : Z) : conv :=
  if NB =? B then round_norm NB p m s e
  else
    let up := if B <? NB then ilog_exact NB B else 0 in
    let down := if B <? NB then 0 else ilog_exact B NB in
    if 1 <? up then
      let exp := e / up in            (* div_rem_euclid by a positive number = floor division *)
      let rem := e mod up in
      round_norm NB p m (s * B ^ rem) exp
    else if 1 <? down then round_norm NB p m s (e * down)
    else if p =? 0 then CPanic UnlimitedPrecision
    else if Z.abs e <=? threshold_small_exp then
      if 0 <=? e then round_norm NB p m (s * B ^ e) 0
      else
        let '(n, ne) := normalize NB s 0 in
        let '(d, de) := normalize NB (B ^ (- e)) 0 in
        if dlen NB n <=? p + dlen NB d then
          match repr_div NB p m n ne d de with
          | Ok a => let '(s', e', f) := approx_norm NB (match a with
                                                          | AExact q x => let '(q', x') := normalize NB q x in AExact q' x'
                                                          | _ => a end) in CDone s' e' f
          | Panic r => CPanic r
          | _ => CPanic Undocumented
          end
        else div_long NB p m n ne d de
    else CLarge.

(** FBig::with_base: the target precision.  The code divides two f32 logarithm bounds; the model is
    the exact rule, the correspondence run accepts the exact value or one less. *)
Definition with_base_prec_asis (B NB p0 : Z) : Z := if p0 =? 0 then 0 else base_prec_spec B NB p0.

(** convert_base as it was before the repairs F01: no rounding on the exact routes *)
Definition convert_exact_old (NB : Z) (s e : Z) : conv :=
  let '(s', e') := normalize NB s e in CDone s' e' FExact.
